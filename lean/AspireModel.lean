import AspireModel.Model.Num
import AspireModel.Model.Wire
import AspireModel.Model.Weights
import AspireModel.Model.Rows
import AspireModel.Model.Tempering
import AspireModel.Model.Schedule
import AspireModel.Model.Smc
import AspireModel.Driver
