-- executable model (core Lean only) and driver
import AspireModel.Model.Num
import AspireModel.Model.Wire
import AspireModel.Model.Weights
import AspireModel.Model.Rows
import AspireModel.Model.Tempering
import AspireModel.Model.Schedule
import AspireModel.Model.Smc
import AspireModel.Model.Eval
import AspireModel.Model.CkptFile
import AspireModel.Model.Ctx
import AspireModel.Model.Wiring
import AspireModel.Driver
-- property theorems (these import single Mathlib modules)
import AspireModel.Props.C02
import AspireModel.Props.C05
import AspireModel.Props.C06
import AspireModel.Props.C07
import AspireModel.Props.C08
import AspireModel.Props.C09
import AspireModel.Props.C10
import AspireModel.Props.C11
import AspireModel.Props.C12
import AspireModel.Props.C16
import AspireModel.Props.C17
import AspireModel.Props.C18
import AspireModel.Props.C19
import AspireModel.Props.C20
