import AspireModel.Model.Num
import AspireModel.Model.Wire
import AspireModel.Model.Weights
import AspireModel.Driver
