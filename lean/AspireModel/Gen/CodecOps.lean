import AspireModel.Model.Codec
/-
  Vocabulary of the eighth part of the source translator (`/verif/harness/translate/codec2lean.py`): the value trees, datasets,
  `encode_for_hdf5` on a leaf, `decode_from_hdf5` on a dataset value, the `setdefault` walk (`insertPath`) and `str.split(".")` are those
  of `Model/Codec.lean`; nothing is added here.  (The file exists so that the generated module has a vocabulary import like the others.)
-/
