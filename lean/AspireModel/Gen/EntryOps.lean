/-
  Target vocabulary of the twelfth translator vocabulary (`harness/translate/entry2lean.py`): the PROLOGUE of `SMCSampler.sample` — from
  `resumed = resume_from is not None` to `iterations = iterations or 0` — i.e. how the state the loop starts from is put together on a fresh
  call and on a resumed one (C11, C18, C06).

  Hand-written, core Lean: the callees (`restore_from_checkpoint` with what it hands back AND what it leaves on the object, the initial draw,
  `SMCSamples.from_samples`, `SMCHistory()`, the append to `sample_history`) and the record of what the prologue settles.  Which branch
  assigns what, whether the restored population is appended again, which guard protects the restored minimum step: read from the source.
-/
namespace Gen

/-- what `restore_from_checkpoint(source)` returns (`samples, beta, iterations`) and leaves on the object (`self.history`,
    `self._restored_min_step`) -/
structure Restored (P H α : Type) where
  samples : P
  beta : α
  iterations : Nat
  history : H
  restored_min_step : Option α

structure EntryOps (P H Src α : Type) where
  restore : Src → Restored P H α
  /-- `self.draw_initial_samples(n_samples)` -/
  draw_initial_samples : Nat → P
  /-- `SMCSamples.from_samples(samples, xp=self.xp, beta=b, dtype=self.dtype)` -/
  smc_from_samples : P → α → P
  /-- `SMCHistory()` -/
  new_history : H
  /-- `self.history.sample_history.append(samples)` -/
  append_pop : H → P → H
  zero : α
  /-- `1 / n` -/
  one_over : Nat → α
  nanv : α

/-- what the object carries into the call (left there by an earlier call) -/
structure EntrySelf (H α : Type) where
  history : H
  restored_min_step : Option α

inductive EntryErr
  | neitherStepsNorAdaptive
  deriving DecidableEq, Repr

/-- the variables the prologue assigns, threaded through its statements (`err`: a `raise` was reached) -/
structure EntryVars (P H α : Type) where
  samples : P
  beta : α
  iterations : Nat
  history : H
  beta_step : α
  min_step : α
  adaptive_flag : Bool
  adaptive_min_step : Bool
  restored_min_step : Option α
  err : Option EntryErr

/-- everything the loop reads when it starts -/
structure Entry (P H α : Type) where
  samples : P
  beta : α
  iterations : Nat
  history : H
  beta_step : α
  min_step : α
  adaptive : Bool
  adaptive_min_step : Bool
  resumed : Bool
  /-- `self._restored_min_step` as the call leaves it -/
  restored_min_step : Option α

end Gen
