import AspireModel.Model.Session
/-
  Vocabulary of the fifth part of the source translator (`/verif/harness/translate/file2lean.py`): the checkpoint-file blocks of
  `Aspire.fit` and `Aspire.sample_posterior` (C14).  Hand-written; it NAMES the attributes and HDF5 groups those blocks touch and
  says what the callees do to one open file (`save_config`, `save_flow`, `del h5_file[...]`), nothing about when they are called.
  Proposals are version numbers, as in `Model/Session.lean`.  Core Lean only.
-/
namespace Gen

/-- the dictionary `_checkpoint_defaults` -/
structure FDefaults where
  path : Nat
  every : Nat
  save_config : Bool
  save_flow : Bool
  saved_config : Bool
  saved_flow : Bool
  deriving DecidableEq, Repr

/-- the attributes of the `Aspire` instance the file blocks read and write -/
structure FSelf where
  /-- `self.flow` (the version of the proposal in memory; `none`: no proposal yet) -/
  flow : Option Nat
  /-- `self._last_sampler_type` (`none`: attribute absent) -/
  last_sampler_type : Option Model.SamplerKind
  /-- `self._checkpoint_defaults` (`none`: attribute absent or None) -/
  checkpoint_defaults : Option FDefaults
  deriving DecidableEq, Repr

/-- one checkpoint file: the two groups `Aspire` writes itself, the checkpoint the sampler writes, and whether an HDF5 call of
    these blocks raised (a group created where one exists; `save_flow` without a proposal) -/
structure H5 where
  /-- group `aspire_config`: absent, or present with the `sampler_type` it records (`none`: the configuration names no sampler) -/
  aspire_config : Option (Option Model.SamplerKind) := none
  flow : Option Nat := none
  checkpoint : Option (Nat × Model.SamplerKind) := none
  error : Bool := false
  deriving DecidableEq, Repr

/-- `del h5_file["aspire_config"]` -/
def h5_del_aspire_config (f : H5) : H5 := { f with aspire_config := none }
/-- `del h5_file["flow"]` -/
def h5_del_flow (f : H5) : H5 := { f with flow := none }

/-- `self.save_config(h5_file, include_sampler_config=…)`: creates the group (h5py raises if it exists); the configuration records
    `sampler_type` iff the instance has `_last_sampler_type`, whatever `include_sampler_config` says -/
def save_config (self : FSelf) (f : H5) (_include_sampler_config : Bool) : H5 :=
  if f.aspire_config.isSome then { f with error := true } else { f with aspire_config := some self.last_sampler_type }

/-- `self.save_flow(h5_file)`: raises without a proposal; creates the group (h5py raises if it exists) -/
def save_flow (self : FSelf) (f : H5) : H5 :=
  match self.flow with
  | none => { f with error := true }
  | some v => if f.flow.isSome then { f with error := true } else { f with flow := some v }

/-- leaving `with AspireFile(path, "a") as h5_file` -/
def h5_store (files : Nat → H5) (p : Nat) (f : H5) : Nat → H5 := fun q => if q = p then f else files q

end Gen
