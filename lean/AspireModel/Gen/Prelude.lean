import AspireModel.Model.Schedule
/-
  Target vocabulary of the source translator (`/verif/harness/translate/py2lean.py`).

  The translator reads the numeric functions of `/repo`'s CURRENT working tree (Python, array-API
  style) and re-emits them as Lean definitions in `AspireModel/Gen/Src*.lean`, generically over
  the scalar interface `Num α`, using only what is declared here plus the scalar helpers of
  `Model/Num.lean` / `Model/Schedule.lean` (`sumL`, `maxList`, `two`, `half`, `minS`, `maxS`, `powS`,
  `absS`).  Nothing in this file knows what the code is supposed to compute: it is the meaning of
  the array operations (`x.max()`, `xp.sum`, broadcasting, `len`) and nothing else.
  Core Lean only.
-/
namespace Gen
variable {α : Type}

/-- three aligned vectors combined row by row (numpy broadcasting of equal-length 1-D arrays;
    truncates to the shortest like `zip`) -/
def map3 {β γ δ : Type} (f : α → β → γ → δ) : List α → List β → List γ → List δ
  | a :: as, b :: bs, c :: cs => f a b c :: map3 f as bs cs
  | _, _, _ => []

variable [Num α] [DecidableLT α] [DecidableLE α]

/-- `xp.sum(v)` / `v.sum()` -/
abbrev vsum (v : List α) : α := Model.sumL v
/-- `xp.max(v)` / `v.max()` -/
abbrev vmax (v : List α) : α := Model.maxList v
/-- `len(v)` as a scalar -/
abbrev vlen (v : List α) : α := ((v.length : Nat) : α)
/-- `xp.mean(v)` -/
def vmean (v : List α) : α := Model.sumL v / vlen v
/-- `xp.var(v)` (population variance, `ddof = 0`) -/
def vvar (v : List α) : α := Model.sumL (v.map fun a => (a - vmean v) * (a - vmean v)) / vlen v

/-- `xp.clip(x, lo, hi)` on a scalar -/
def clipS (x lo hi : α) : α := if x < lo then lo else if hi < x then hi else x

/-- `xp.log1p(x)` -/
def log1p (x : α) : α := ExpLog.log (1 + x)

/-- `a != b` on scalars without decidable equality: `a < b ∨ b < a` (NaN-free inputs) -/
abbrev ne (a b : α) : Prop := a < b ∨ b < a

/-- a rational literal `p / q` of the source (`0.5`, `0.25`, `1e-6` are rationals) -/
def lit (p q : Nat) : α := ((p : Nat) : α) / ((q : Nat) : α)

/-- length of an HDF5 dataset that may be absent (`target[name].shape[0]`; only evaluated where it exists) -/
def dsLen (ds : Option (List UInt8)) : Nat := match ds with | some d => d.length | none => 0

end Gen
