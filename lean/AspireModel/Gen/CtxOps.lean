import AspireModel.Model.Ctx
/-
  Vocabulary of the fourth part of the source translator (`/verif/harness/translate/ctx2lean.py`): the context managers of an
  `Aspire` instance (C19).  Hand-written; it only NAMES the attributes the managers read and write.  Callables are identity
  tokens (`Nat`); `fresh` is the next unused token (a `functools.partial(...)` call makes a new object).  Core Lean only.
-/
namespace Gen

/-- the attributes of the `Aspire` instance that `PoolHandler` and `auto_checkpoint` touch (`none` = attribute absent) -/
structure CtxInst where
  log_likelihood : Nat
  log_prior : Nat
  _checkpoint_defaults : Option Model.Defaults
  fresh : Nat
  deriving DecidableEq, Repr

/-- the attributes of a `PoolHandler` -/
structure PoolH where
  pool : Option Nat
  close_pool : Bool
  parallelize_prior : Bool
  original_log_likelihood : Nat := 0
  original_log_prior : Nat := 0
  /-- the environment: does `pool.close()` / `pool.join()` raise (a broken pool) -/
  close_raises : Bool := false
  join_raises : Bool := false
  deriving DecidableEq, Repr

end Gen
