/-
  Target vocabulary of the ninth translator vocabulary (`harness/translate/state2lean.py`): the checkpoint STATE DICTIONARY of a
  sampler (C11, C12) — `Sampler.build_checkpoint_state`, `SMCSampler.build_checkpoint_state`, `SMCSampler._checkpoint_extra_state`,
  `Sampler.restore_from_checkpoint`, `SMCSampler.restore_from_checkpoint`.

  Hand-written, core Lean.  It only NAMES what the functions touch:
    * the keys of the dictionary (`CkState`: one optional slot per key; `d.get(k, default)` is `getD`, `d.get(k)` the slot itself),
    * the attributes of `self` they read or assign (`StSelf`),
    * the history OBJECT: histories live in a heap and are reached through an address, `copy.deepcopy` allocates a new cell holding the
      value, a plain reference shares the cell — so a translation of `"history": self.history` (no copy) is a DIFFERENT Lean term from the
      translation of `"history": copy.deepcopy(self.history)`, and the theorems that say "what a checkpoint holds does not change when the
      run goes on" only hold for the latter,
    * the callees (`StateOps`: `config_dict`, `Samples.from_samples`, `SMCSamples.from_samples`, `pickle.loads`, reading a file).
  Which key is filled from what, which key is read with which default, what is copied and what is shared, in which order, under which
  condition the generator state is put back: all of that is read from the source.
-/
namespace Gen

abbrev Addr := Nat

/-- the heap of history objects -/
structure Heap (H : Type) where
  cells : List H

variable {H : Type}

def Heap.get [Inhabited H] (hp : Heap H) (a : Addr) : H := hp.cells.getD a default

/-- a new object holding `h`; its address is the next free one -/
def Heap.alloc (hp : Heap H) (h : H) : Heap H × Addr := ({ cells := hp.cells ++ [h] }, hp.cells.length)

/-- in-place mutation of the object at `a` (an `append` to one of the history's lists) -/
def Heap.set (hp : Heap H) (a : Addr) (h : H) : Heap H := { cells := hp.cells.set a h }

/-- `copy.deepcopy(<object at a>)` -/
def Heap.deepcopy [Inhabited H] (hp : Heap H) (a : Addr) : Heap H × Addr := hp.alloc (hp.get a)

def Heap.valid (hp : Heap H) (a : Addr) : Prop := a < hp.cells.length

/-- `meta` of a state dictionary: the two keys the SMC sampler puts there -/
structure StMeta (α : Type) where
  beta : Option α := none
  min_step : Option α := none

/-- the state dictionary: one optional slot per key (`hist` is a type parameter: an address for a live dictionary, a value for what
    `pickle.loads` returns before it is interned) -/
structure CkStateG (P C R K α hist : Type) where
  sampler : Option Nat := none
  iteration : Option Nat := none
  samples : Option P := none
  config : Option C := none
  parameters : Option Nat := none
  /-- the key `meta` (`meta` is a Lean keyword) -/
  meta_ : Option (StMeta α) := none
  /-- legacy top-level `beta` key (read as a fallback by `restore_from_checkpoint`) -/
  beta : Option α := none
  history : Option hist := none
  rng_state : Option R := none
  sampler_kwargs : Option K := none

abbrev CkState (P C R K α : Type) := CkStateG P C R K α Addr
/-- a dictionary as `pickle.loads` returns it: every object inside is new, nothing is shared with anything alive -/
abbrev CkStateV (P C R K α H : Type) := CkStateG P C R K α H

variable {P C R K α : Type}

def CkStateG.mapHist {h h' : Type} (s : CkStateG P C R K α h) (f : Option h') : CkStateG P C R K α h' :=
  { sampler := s.sampler, iteration := s.iteration, samples := s.samples, config := s.config, parameters := s.parameters, meta_ := s.meta_,
    beta := s.beta, history := f, rng_state := s.rng_state, sampler_kwargs := s.sampler_kwargs }

/-- the objects of an unpickled dictionary are placed in the heap at fresh addresses -/
def intern (hp : Heap H) (v : CkStateV P C R K α H) : Heap H × CkState P C R K α :=
  match v.history with
  | none => (hp, v.mapHist none)
  | some h => let (hp', a) := hp.alloc h; (hp', v.mapHist (some a))

/-- what `pickle.dumps` sees of a live dictionary: the VALUE of every object it reaches -/
def freeze [Inhabited H] (hp : Heap H) (s : CkState P C R K α) : CkStateV P C R K α H :=
  s.mapHist (s.history.map hp.get)

/-- the attributes of the sampler the five functions read or assign -/
structure StSelf (R K α : Type) where
  /-- `self.history` (a reference) -/
  history : Addr
  /-- `self.rng.bit_generator.state`; `none` = the generator has no `bit_generator` (`hasattr(self.rng, "bit_generator")` is false) -/
  rng_state : Option R
  /-- `getattr(self, "sampler_kwargs", None)` -/
  sampler_kwargs : Option K := none
  /-- `self._restored_min_step` -/
  restored_min_step : Option α := none

structure World (H R K α : Type) where
  heap : Heap H
  self : StSelf R K α

/-- the callees -/
structure StateOps (P C R K H α : Type) where
  /-- `self.__class__.__name__` -/
  class_name : Nat
  /-- `self.parameters` -/
  parameters : Nat
  /-- `self.config_dict(include_sample_calls=False)` -/
  config_dict : C
  /-- `Samples.from_samples(samples_saved, xp=self.xp, dtype=self.dtype)` -/
  from_samples : P → P
  /-- `SMCSamples.from_samples(samples, xp=self.xp, beta=beta, dtype=self.dtype)` -/
  smc_from_samples : P → α → P
  /-- `pickle.loads(bytes)` -/
  loads : List Nat → CkStateV P C R K α H
  /-- `self.load_checkpoint_from_file(path)` (`pickle.loads` of the bytes read from the file) -/
  load_file : Nat → CkStateV P C R K α H
  /-- `SMCHistory()` -/
  new_history : H
  /-- the literal `0.0` -/
  zero : α

/-- what may be handed to `resume_from` -/
inductive Source (P C R K α : Type)
  | path (p : Nat)
  | bytes (b : List Nat)
  | dict (s : CkState P C R K α)
  | other

inductive StErr
  | unsupportedSource
  | missingSamples
  deriving DecidableEq, Repr

end Gen
