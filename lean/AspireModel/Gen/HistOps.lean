import AspireModel.Model.Codec
/-
  Target vocabulary of the eleventh translator vocabulary (`harness/translate/hist2lean.py`): how a run's diagnostic history is laid out
  in an HDF5 file (C13, C18) — `SMCHistory.save` / `SMCHistory.load`.

  Hand-written, core Lean.  Names only what the two methods touch: groups of a file addressed by the paths the code builds (`path`,
  `f"{path}__sample_history/{i}"`), dictionaries written through the codec of `Model/Codec.lean`, sample sets written by `Samples.save`
  (opaque: `saveSet` / `loadSet`, their round trip is C13's sample-record theorem), Python's `d[k] = v`, `d.pop(k, default)`, `enumerate`.
  What is popped, which counter is stored under which key, which group each population goes to, how many are read back and from where: read from
  the source.
-/
namespace Gen
open Model

/-- group paths as the code builds them; distinct constructors / components are distinct HDF5 paths -/
inductive GPath
  | base (p : Str)                               -- `path`
  | item (p : Str) (suffix : Str) (i : Nat)      -- `f"{path}{suffix}/{i}"`
  deriving DecidableEq, Repr

structure HFile (G : Type) where
  /-- groups written by `recursively_save_to_h5_file`, newest first -/
  dicts : List (GPath × List (Str × H)) := []
  /-- groups written by `Samples.save`, newest first -/
  sets : List (GPath × G) := []

variable {G S : Type}

def HFile.putDict (f : HFile G) (g : GPath) (ds : List (Str × H)) : HFile G := { f with dicts := (g, ds) :: f.dicts }
def HFile.getDict (f : HFile G) (g : GPath) : Option (List (Str × H)) := (f.dicts.find? (·.1 = g)).map (·.2)
def HFile.putSet (f : HFile G) (g : GPath) (s : G) : HFile G := { f with sets := (g, s) :: f.sets }
def HFile.getSet (f : HFile G) (g : GPath) : Option G := (f.sets.find? (·.1 = g)).map (·.2)

/-- a history object: `__dict__` without the populations (the recorded series and any other attribute), and the populations -/
structure HistObj (S : Type) where
  fields : List (Str × Val)
  sample_history : List S

structure HistOps (S G : Type) where
  /-- `samples.save(h5_file, path=…)`: the contents of the group it writes -/
  saveSet : S → G
  /-- `SMCSamples.load(h5_file, path=…)` -/
  loadSet : G → S

/-- `d[k] = v` -/
def dictSet (es : List (Str × Val)) (k : Str) (v : Val) : List (Str × Val) :=
  if es.any (·.1 = k) then es.map fun e => if e.1 = k then (k, v) else e else es ++ [(k, v)]

/-- `d.pop(k, default)`: the value (or none) and the dictionary without the key -/
def dictPop (es : List (Str × Val)) (k : Str) : Option Val × List (Str × Val) :=
  ((es.find? (·.1 = k)).map (·.2), es.filter (·.1 ≠ k))

/-- `for i, x in enumerate(l): acc = body i x acc` -/
def forEnum {β : Type} (l : List S) (i0 : Nat) (body : Nat → S → β → β) (init : β) : β :=
  match l with
  | [] => init
  | x :: rest => forEnum rest (i0 + 1) body (body i0 x init)

/-- `int(v)` of a stored counter -/
def valToNat : Val → Option Nat
  | .leaf (.int i) => if 0 ≤ i then some i.toNat else none
  | _ => none

end Gen
