import AspireModel.Gen.Prelude
import AspireModel.Model.Smc
/-
  Vocabulary of the third part of the source translator (`/verif/harness/translate/loop2lean.py`): the loop of
  `SMCSampler.sample`.  Hand-written, like `Gen/Prelude.lean`; it only NAMES
    * the operations the loop calls (`LoopOps`, one field per callee, arguments in source order, keyword arguments
      after the positional ones; the `rng=self.rng` keyword is dropped: the random stream and the MCMC kernel are the
      operations `resample` and `mutate` themselves, so everything proved holds for every stream and every kernel),
    * the variables the loop keeps (`LoopSt`) and the series of `self.history` it appends to (`LoopHist`).
  It does not say in which order, how often, or with which arguments anything is called or recorded: that is what the
  translator reads from the source.  Core Lean only.
-/
namespace Gen

/-- `self.history`: the series the loop appends to (field names = attribute names of `SMCHistory`) -/
structure LoopHist (P α : Type) where
  eff_target : List α := []
  beta : List α := []
  ess : List α := []
  ess_target : List α := []
  log_norm_ratio : List α := []
  log_norm_ratio_var : List α := []
  sample_history : List P := []

/-- the callees of the loop.  `P` populations, `W` log-weight vectors, `C` checkpoint payloads, `α` scalars -/
structure LoopOps (P W C α : Type) where
  /-- `self.determine_beta(samples, beta, beta_step, min_step, beta_tolerance=…)` → `(beta, min_step)`; may raise -/
  determine_beta : P → α → α → α → α → Except Model.BetaErr (α × α)
  /-- `self.current_target_efficiency(beta)` -/
  current_target_efficiency : α → α
  /-- `samples.log_weights(beta)` -/
  log_weights : P → α → W
  /-- `effective_sample_size(log_w)` -/
  effective_sample_size : W → α
  /-- `samples.log_evidence_ratio(beta)` -/
  log_evidence_ratio : P → α → α
  /-- `samples.log_evidence_ratio_variance(beta)` -/
  log_evidence_ratio_variance : P → α → α
  /-- `samples.resample(beta, n_samples=…, rng=self.rng)` -/
  resample : P → α → Option Nat → P
  /-- `self.mutate(samples, beta, n_steps=…)` -/
  mutate : P → α → Option Nat → P
  /-- `len(samples)` / `len(samples.x)` -/
  len : P → Nat
  /-- `self.build_checkpoint_state(samples, iteration, beta, min_step=…)`: the payload is built from the population (with
      the evidence and error attached to it, if any), the arguments, and a copy of `self.history` -/
  build_checkpoint_state : P → Option α → Option α → Nat → α → Option α → LoopHist P α → C

/-- the variables of `sample` that the loop reads and rebinds; `callback_log` is the list of payloads handed to
    `checkpoint_callback` so far (oldest first) -/
structure LoopSt (P C α : Type) where
  samples : P
  /-- `samples.log_evidence` / `samples.log_evidence_error`: attached to the population object, `none` on a new one -/
  samples_log_evidence : Option α := none
  samples_log_evidence_error : Option α := none
  beta : α
  min_step : α
  iterations : Nat
  history : LoopHist P α
  callback_log : List C := []

end Gen
