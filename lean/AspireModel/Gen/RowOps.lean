import AspireModel.Model.Rows
/-
  Vocabulary of the seventh part of the source translator (`/verif/harness/translate/rows2lean.py`): row-preserving construction of
  sample sets (C16, C09).  Hand-written; the sample-set record and `pick` / `pickO` are `Model/Rows.lean`'s; here only the callables
  the translated methods invoke.  Core Lean only.
-/
namespace Gen

structure RowOps (X V : Type) where
  /-- what `Samples.__post_init__` computes from the per-row columns (weights, evidence, ESS) -/
  evFn : Model.SampleSet X V → Model.SampleSet X V
  /-- `l - max(l)` -/
  shiftMax : List V → List V
  /-- `exp(2 logsumexp(l) - logsumexp(2 l))` -/
  essShifted : List V → V
  /-- `exp(l)` row by row -/
  expCol : List V → List V

variable {X V : Type}

/-- `self.__class__(…)`: the class's own constructor (`Samples` recomputes its derived fields, the others store what they get) -/
def RowOps.construct (ops : RowOps X V) (b : Model.SampleSet X V) : Model.SampleSet X V :=
  match b.cls with
  | .samples => ops.evFn b
  | _ => b

/-- `Samples(…)` -/
def RowOps.constructSamples (ops : RowOps X V) (b : Model.SampleSet X V) : Model.SampleSet X V := ops.evFn b

end Gen
