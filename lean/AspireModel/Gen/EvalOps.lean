import AspireModel.Model.Eval
/-
  Vocabulary of the sixth part of the source translator (`/verif/harness/translate/eval2lean.py`): how samplers evaluate the
  user's functions (C10, C17).  Hand-written; it names what a sample set carries, what the user's callables observe, and the
  meaning of selection / concatenation / `isfinite`; it does not say in which order anything is called.  Core Lean only.
-/
namespace Gen
variable {X V : Type}

/-- a `Samples` / `SMCSamples` object as the evaluation code sees it -/
structure ESet (X V : Type) where
  x : List X
  log_q : Option (List V) := none
  log_prior : Option (List V) := none
  log_likelihood : Option (List V) := none

/-- `n_likelihood_evaluations` and what the user's callables have observed so far -/
structure ETrace (X V : Type) where
  counter : Nat := 0
  events : List (Model.Event X V) := []

/-- the callables: the user's prior and likelihood (vectorised: one value per row), the proposal's density, `isfinite` -/
structure EOps (X V : Type) where
  prior : X → V
  like : X → V
  flowq : X → V
  finite : V → Bool

/-- `self.log_prior(S)`: the user's prior sees the points -/
def call_log_prior (ops : EOps X V) (tr : ETrace X V) (s : ESet X V) : ETrace X V × List V :=
  ({ tr with events := tr.events ++ [Model.Event.prior s.x] }, s.x.map ops.prior)

/-- `self._log_likelihood(S)`: the user's likelihood sees the points AND the log-prior column the set carries at that moment -/
def call_user_log_likelihood (ops : EOps X V) (tr : ETrace X V) (s : ESet X V) : ETrace X V × List V :=
  ({ tr with events := tr.events ++ [Model.Event.like s.x s.log_prior] }, s.x.map ops.like)

/-- `xp.isfinite(column)` (an absent column has no finite entry) -/
def finite_mask (ops : EOps X V) (col : Option (List V)) : List Bool :=
  match col with | some l => l.map ops.finite | none => []

def count_true (m : List Bool) : Nat := (m.filter id).length

def pickMask {A : Type} : List A → List Bool → List A
  | a :: as, b :: bs => if b then a :: pickMask as bs else pickMask as bs
  | _, _ => []

/-- `S[mask]` -/
def eset_select (s : ESet X V) (m : List Bool) : ESet X V :=
  { x := pickMask s.x m, log_q := s.log_q.map (pickMask · m), log_prior := s.log_prior.map (pickMask · m),
    log_likelihood := s.log_likelihood.map (pickMask · m) }

def catO (a b : Option (List V)) : Option (List V) :=
  match a, b with | some u, some w => some (u ++ w) | _, _ => none

/-- `Samples.concatenate([a, b])` -/
def eset_concat (a b : ESet X V) : ESet X V :=
  { x := a.x ++ b.x, log_q := catO a.log_q b.log_q, log_prior := catO a.log_prior b.log_prior,
    log_likelihood := catO a.log_likelihood b.log_likelihood }

/-- `S[:n]` -/
def eset_take (s : ESet X V) (n : Nat) : ESet X V :=
  { x := s.x.take n, log_q := s.log_q.map (·.take n), log_prior := s.log_prior.map (·.take n),
    log_likelihood := s.log_likelihood.map (·.take n) }

end Gen
