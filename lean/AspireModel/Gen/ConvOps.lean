import AspireModel.Model.Dtype
/-
  Target vocabulary of the tenth translator vocabulary (`harness/translate/conv2lean.py`): the conversion methods of the sample containers
  (C15) — `to_numpy`, `to_namespace` of the three classes, the classmethod `from_samples`, and the constructor's `__post_init__`.

  Hand-written, core Lean, over the finite types of `Model/Dtype.lean`.  It only says what a WRAPPER around an array means for its namespace
  and width (`to_numpy(a)`, `asarray(a, xp, dtype=d)`, the array itself) and how a PLAN — which keyword of the constructor call is given
  which wrapped field, which `xp=` and `dtype=` — is run through the constructor.  Which field goes where, which dtype expression is chosen
  under which condition, which fields `__post_init__` converts, and which class defines which method are read from the source.
-/
namespace Gen
open Model

/-- how an array handed to the class constructor was prepared -/
inductive Wrap
  | raw                           -- the array itself (`x=self.x`)
  | toNumpy                       -- `to_numpy(a)`
  | asarray (xp : Ns) (d : DT)    -- `asarray(a, xp, dtype=d)`
  deriving DecidableEq, Repr

/-- namespace and width of an array (of namespace `n`, width `w`) after the wrapper -/
def Wrap.apply (wr : Wrap) (n : Ns) (w : Width) : Except ConvErr (Ns × Width) :=
  match wr with
  | .raw => .ok (n, w)
  | .toNumpy => .ok (.numpy, w)
  | .asarray xp d => (asarrayW w xp d).map fun w' => (xp, w')

/-- one constructor call: `cls(x=…, log_likelihood=…, …, xp=…, dtype=…)` plus attribute assignments on the result -/
structure ConvPlan where
  /-- the `xp=` keyword; `none`: not given (`__post_init__` takes the namespace of `x`) -/
  xp : Option Ns
  /-- the `dtype=` keyword -/
  dtype : DT
  x : Wrap
  /-- `none`: the keyword is absent, the field is DROPPED -/
  ll : Option Wrap
  lp : Option Wrap
  lq : Option Wrap
  /-- the set-level values carried (constructor keyword, or assigned on the result) -/
  beta : Bool
  logZ : Bool
  logZerr : Bool
  deriving DecidableEq, Repr

/-- which fields `__post_init__` converts with `array_to_namespace(·, dtype=self.dtype)` -/
structure PostInit where
  x : Bool
  ll : Bool
  lp : Bool
  lq : Bool
  deriving DecidableEq, Repr

/-- a field handed to the constructor: converted to the target namespace and the resolved dtype when `__post_init__` converts it,
    left as it came otherwise -/
def fieldOut (conv : Bool) (tgt : Ns) (d : DT) (nw : Ns × Width) : Except ConvErr (Ns × Width) :=
  if conv then (constructW nw.2 tgt d).map fun w => (tgt, w) else .ok nw

structure ConvResult where
  x : Ns × Width
  ll : Option (Ns × Width)
  lp : Option (Ns × Width)
  lq : Option (Ns × Width)
  beta : Bool
  logZ : Bool
  logZerr : Bool
  deriving DecidableEq, Repr

def optField (src : Ns) (w : Width) (conv : Bool) (tgt : Ns) (d : DT) : Option Wrap → Except ConvErr (Option (Ns × Width))
  | none => .ok none
  | some wr =>
    match wr.apply src w with
    | .error e => .error e
    | .ok a => (fieldOut conv tgt d a).map some

/-- run a plan on a set of namespace `src` and width `w` -/
def ConvPlan.run (pi : PostInit) (p : ConvPlan) (src : Ns) (w : Width) : Except ConvErr ConvResult :=
  match p.x.apply src w with
  | .error e => .error e
  | .ok x1 =>
    let tgt := p.xp.getD x1.1
    match fieldOut pi.x tgt p.dtype x1, optField src w pi.ll tgt p.dtype p.ll, optField src w pi.lp tgt p.dtype p.lp,
          optField src w pi.lq tgt p.dtype p.lq with
    | .ok x, .ok ll, .ok lp, .ok lq => .ok { x := x, ll := ll, lp := lp, lq := lq, beta := p.beta, logZ := p.logZ, logZerr := p.logZerr }
    | .error e, _, _, _ => .error e
    | _, .error e, _, _ => .error e
    | _, _, .error e, _ => .error e
    | _, _, _, .error e => .error e

/-- every optional field is present, in the namespace and at the width of the coordinates; the set-level values the class has are carried -/
def ConvResult.keeps (r : ConvResult) (cls : SCls) : Bool :=
  r.ll == some r.x && r.lp == some r.x && r.lq == some r.x &&
  (match cls with
   | .base => true
   | .samples => r.logZ && r.logZerr
   | .smc => r.beta && r.logZ && r.logZerr)

end Gen
