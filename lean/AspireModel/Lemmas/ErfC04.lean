import Mathlib.Analysis.SpecialFunctions.Gaussian.GaussianIntegral
import Mathlib.MeasureTheory.Integral.IntegralEqImproper
import Mathlib.Analysis.Calculus.Deriv.MeanValue
/-
  The error function and its inverse over ℝ (Mathlib has neither), with exactly the facts the probit
  transform needs (used by `Props/C04.lean` to show that the hypothesis bundle `ProbitOK` is satisfiable).
-/
namespace ErfC04
open MeasureTheory Filter Set

/-- `erf y = 2/√π ∫₀^y exp(-t²) dt` -/
noncomputable def erfR (y : ℝ) : ℝ := 2 / Real.sqrt Real.pi * ∫ t in (0 : ℝ)..y, Real.exp (-t ^ 2)

theorem gauss_cont : Continuous fun t : ℝ => Real.exp (-t ^ 2) := by fun_prop

theorem erfR_hasDerivAt (y : ℝ) : HasDerivAt erfR (2 / Real.sqrt Real.pi * Real.exp (-y ^ 2)) y := by
  have h := intervalIntegral.integral_hasDerivAt_right (gauss_cont.intervalIntegrable 0 y)
    (gauss_cont.stronglyMeasurableAtFilter _ _) gauss_cont.continuousAt
  exact h.const_mul _

theorem coef_pos : 0 < 2 / Real.sqrt Real.pi := by
  have : 0 < Real.sqrt Real.pi := Real.sqrt_pos.mpr Real.pi_pos
  positivity

theorem erfR_strictMono : StrictMono erfR := by
  apply strictMono_of_deriv_pos
  intro x
  rw [(erfR_hasDerivAt x).deriv]
  exact mul_pos coef_pos (Real.exp_pos _)

theorem erfR_continuous : Continuous erfR :=
  continuous_iff_continuousAt.mpr fun y => (erfR_hasDerivAt y).continuousAt

theorem erfR_neg (y : ℝ) : erfR (-y) = -erfR y := by
  unfold erfR
  have h := intervalIntegral.integral_comp_neg (a := 0) (b := y) (fun t : ℝ => Real.exp (-t ^ 2))
  simp only [neg_sq, neg_zero] at h
  rw [intervalIntegral.integral_symm (-y) 0, ← h]
  ring

theorem erfR_tendsto_atTop : Tendsto erfR atTop (nhds 1) := by
  have hint : IntegrableOn (fun t : ℝ => Real.exp (-t ^ 2)) (Ioi 0) := by
    have := (integrable_exp_neg_mul_sq (b := 1) one_pos).integrableOn (s := Ioi (0 : ℝ))
    simpa using this
  have h := intervalIntegral_tendsto_integral_Ioi (μ := volume) (f := fun t : ℝ => Real.exp (-t ^ 2))
    (l := atTop) (b := fun y : ℝ => y) 0 hint tendsto_id
  have hval : ∫ t in Ioi (0 : ℝ), Real.exp (-t ^ 2) = Real.sqrt Real.pi / 2 := by
    have := integral_gaussian_Ioi 1
    simpa using this
  rw [hval] at h
  have h2 := h.const_mul (2 / Real.sqrt Real.pi)
  have hs : Real.sqrt Real.pi ≠ 0 := (Real.sqrt_pos.mpr Real.pi_pos).ne'
  have : 2 / Real.sqrt Real.pi * (Real.sqrt Real.pi / 2) = 1 := by field_simp
  rw [this] at h2
  exact h2

theorem erfR_lt_one (y : ℝ) : erfR y < 1 :=
  lt_of_lt_of_le (erfR_strictMono (lt_add_one y)) (erfR_strictMono.monotone.ge_of_tendsto erfR_tendsto_atTop _)

theorem erfR_gt_neg_one (y : ℝ) : -1 < erfR y := by
  have := erfR_lt_one (-y)
  rw [erfR_neg] at this
  linarith

theorem erfR_surj (p : ℝ) (h1 : -1 < p) (h2 : p < 1) : ∃ y, erfR y = p := by
  have hb : ∃ b, p ≤ erfR b := by
    have := (erfR_tendsto_atTop.eventually (lt_mem_nhds h2)).exists
    obtain ⟨b, hb⟩ := this
    exact ⟨b, hb.le⟩
  have ha : ∃ a, erfR a ≤ p := by
    have h2' : -p < 1 := by linarith
    obtain ⟨b, hb⟩ := (erfR_tendsto_atTop.eventually (lt_mem_nhds h2')).exists
    refine ⟨-b, ?_⟩
    rw [erfR_neg]
    linarith
  exact mem_range_of_exists_le_of_exists_ge erfR_continuous ha hb

open Classical in
/-- the inverse error function on `(-1, 1)` (arbitrary, `0`, outside) -/
noncomputable def erfinvR (p : ℝ) : ℝ := if h : ∃ y, erfR y = p then Classical.choose h else 0

theorem erfR_erfinvR (p : ℝ) (h1 : -1 < p) (h2 : p < 1) : erfR (erfinvR p) = p := by
  have h := erfR_surj p h1 h2
  unfold erfinvR
  rw [dif_pos h]
  exact Classical.choose_spec h

theorem erfinvR_erfR (y : ℝ) : erfinvR (erfR y) = y := by
  have h : ∃ t, erfR t = erfR y := ⟨y, rfl⟩
  unfold erfinvR
  rw [dif_pos h]
  exact erfR_strictMono.injective (Classical.choose_spec h)

end ErfC04
