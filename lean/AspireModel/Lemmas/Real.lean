import AspireModel.Model.Num
import Mathlib.Analysis.SpecialFunctions.Log.Basic
import Mathlib.Analysis.SpecialFunctions.Sqrt
/-
  The real-number instance of the scalar interface and the basic bridge lemmas
  (model list functions ↔ Mathlib's `List.sum`, `List.maximum`-style facts).
-/

noncomputable instance : ExpLog ℝ := ⟨Real.exp, Real.log, Real.sqrt⟩
noncomputable instance : Num ℝ := {}

namespace Model

@[simp] theorem exp_real (x : ℝ) : (ExpLog.exp x : ℝ) = Real.exp x := rfl
@[simp] theorem log_real (x : ℝ) : (ExpLog.log x : ℝ) = Real.log x := rfl
@[simp] theorem sqrt_real (x : ℝ) : (ExpLog.sqrt x : ℝ) = Real.sqrt x := rfl
@[simp] theorem two_real : (two : ℝ) = 2 := by norm_num [two]

@[simp] theorem sumL_eq_sum (xs : List ℝ) : sumL xs = xs.sum := by
  induction xs with
  | nil => rfl
  | cons x xs ih => simp [sumL, ih]

theorem absS_eq_abs (x : ℝ) : absS x = |x| := by
  unfold absS
  split
  · rename_i h; rw [abs_of_neg h]
  · rename_i h; rw [abs_of_nonneg (not_lt.mp h)]

/-! ### running maximum -/

theorem maxL_ge_seed (xs : List ℝ) (m : ℝ) : m ≤ maxL xs m := by
  induction xs generalizing m with
  | nil => simp [maxL]
  | cons x xs ih =>
    simp only [maxL]
    split
    · rename_i h; exact le_trans h.le (ih x)
    · exact ih m

theorem maxL_ge_mem (xs : List ℝ) (m : ℝ) : ∀ y ∈ xs, y ≤ maxL xs m := by
  induction xs generalizing m with
  | nil => simp
  | cons x xs ih =>
    intro y hy
    simp only [maxL]
    rcases List.mem_cons.mp hy with rfl | hy
    · split
      · exact maxL_ge_seed xs y
      · rename_i h; exact le_trans (not_lt.mp h) (maxL_ge_seed xs m)
    · exact ih _ y hy

theorem maxL_mem (xs : List ℝ) (m : ℝ) : maxL xs m = m ∨ maxL xs m ∈ xs := by
  induction xs generalizing m with
  | nil => simp [maxL]
  | cons x xs ih =>
    simp only [maxL]
    split
    · rcases ih x with h | h
      · right; rw [h]; exact List.mem_cons_self
      · right; exact List.mem_cons_of_mem _ h
    · rcases ih m with h | h
      · left; exact h
      · right; exact List.mem_cons_of_mem _ h

theorem maxList_ge (xs : List ℝ) : ∀ y ∈ xs, y ≤ maxList xs := by
  cases xs with
  | nil => simp
  | cons x xs =>
    intro y hy
    simp only [maxList]
    rcases List.mem_cons.mp hy with rfl | hy
    · exact maxL_ge_seed xs y
    · exact maxL_ge_mem xs x y hy

theorem maxList_mem (xs : List ℝ) (h : xs ≠ []) : maxList xs ∈ xs := by
  cases xs with
  | nil => exact absurd rfl h
  | cons x xs =>
    simp only [maxList]
    rcases maxL_mem xs x with h | h
    · rw [h]; exact List.mem_cons_self
    · exact List.mem_cons_of_mem _ h

/-- `maxList` is characterised by membership + upper bound, hence permutation invariant. -/
theorem maxList_unique (xs : List ℝ) (m : ℝ) (hm : m ∈ xs) (hub : ∀ y ∈ xs, y ≤ m) :
    maxList xs = m := by
  have hne : xs ≠ [] := List.ne_nil_of_mem hm
  exact le_antisymm (hub _ (maxList_mem xs hne)) (maxList_ge xs m hm)

theorem maxList_perm {xs ys : List ℝ} (h : xs.Perm ys) : maxList xs = maxList ys := by
  by_cases hne : xs = []
  · subst hne; rw [List.Perm.eq_nil (List.Perm.symm h)]
  · apply maxList_unique
    · exact h.symm.subset (maxList_mem ys (fun e => hne (by subst e; exact h.eq_nil)))
    · intro y hy; exact maxList_ge ys y (h.subset hy)

theorem maxList_map_add (xs : List ℝ) (c : ℝ) (h : xs ≠ []) :
    maxList (xs.map (· + c)) = maxList xs + c := by
  apply maxList_unique
  · exact List.mem_map.mpr ⟨_, maxList_mem xs h, rfl⟩
  · intro y hy
    obtain ⟨a, ha, rfl⟩ := List.mem_map.mp hy
    linarith [maxList_ge xs a ha]

theorem maxList_map_mul_two (xs : List ℝ) (h : xs ≠ []) :
    maxList (xs.map (· * 2)) = maxList xs * 2 := by
  apply maxList_unique
  · exact List.mem_map.mpr ⟨_, maxList_mem xs h, rfl⟩
  · intro y hy
    obtain ⟨a, ha, rfl⟩ := List.mem_map.mp hy
    linarith [maxList_ge xs a ha]

/-! ### log-sum-exp -/

theorem sum_exp_shift (xs : List ℝ) (c : ℝ) :
    (xs.map fun v => Real.exp (v - c)).sum = Real.exp (-c) * (xs.map Real.exp).sum := by
  induction xs with
  | nil => simp
  | cons x xs ih =>
    simp only [List.map_cons, List.sum_cons, ih, mul_add]
    rw [sub_eq_add_neg, Real.exp_add, mul_comm]

theorem sum_exp_nonneg (xs : List ℝ) : 0 ≤ (xs.map Real.exp).sum :=
  List.sum_nonneg (by intro y hy; obtain ⟨a, _, rfl⟩ := List.mem_map.mp hy; exact (Real.exp_pos a).le)

theorem sum_exp_pos (xs : List ℝ) (h : xs ≠ []) : 0 < (xs.map Real.exp).sum := by
  cases xs with
  | nil => exact absurd rfl h
  | cons x xs =>
    simp only [List.map_cons, List.sum_cons]
    linarith [Real.exp_pos x, sum_exp_nonneg xs]

/-- The max-shifted implementation equals the mathematical log-sum-exp. -/
theorem logsumexp_eq (xs : List ℝ) (h : xs ≠ []) :
    logsumexp xs = Real.log ((xs.map Real.exp).sum) := by
  simp only [logsumexp, exp_real, log_real, sumL_eq_sum]
  rw [sum_exp_shift, Real.log_mul (Real.exp_pos _).ne' (sum_exp_pos _ h).ne', Real.log_exp]
  ring

end Model
