import AspireModel.Gen.SrcUtils
import AspireModel.Model.Weights
/-
  Tie between the TRANSLATED SOURCE (`Gen/SrcUtils.lean`, regenerated from /repo on every run) and the
  hand-written model: `utils.logsumexp`, `utils.effective_sample_size`.
  Generic in the scalar: the equalities hold at `Float` (what the driver runs) and at `ℝ` (what is proved).
  Core Lean only.
-/
set_option linter.unusedSectionVars false
namespace Tie
variable {α : Type} [Num α] [DecidableLT α] [DecidableLE α]

/-- the source of `utils.logsumexp` IS the model's max-shifted `logsumexp` (same operations, same order) -/
theorem logsumexp_eq (x : List α) : Gen.logsumexp x = Model.logsumexp x := by
  first
    | rfl
    | simp [Gen.logsumexp, Model.logsumexp, Gen.vsum, Gen.vmax, List.map_map, Function.comp_def]

/-- the source of `utils.effective_sample_size` IS `Model.essOf` -/
theorem effective_sample_size_eq (lw : List α) : Gen.effective_sample_size lw = Model.essOf lw := by
  first
    | rfl
    | simp [Gen.effective_sample_size, Model.essOf, logsumexp_eq, List.map_map, Function.comp_def]

end Tie
