import AspireModel.Gen.Prelude
/-
  Facts about the translator's vector vocabulary (`Gen.map3`): length and entries.  Core Lean only.
-/
namespace Tie
variable {α β γ δ : Type}

theorem map3_length (f : α → β → γ → δ) (a : List α) (b : List β) (c : List γ)
    (h1 : a.length = b.length) (h2 : b.length = c.length) : (Gen.map3 f a b c).length = a.length := by
  induction a generalizing b c with
  | nil => simp [Gen.map3]
  | cons x xs ih =>
    cases b with
    | nil => simp at h1
    | cons y ys =>
      cases c with
      | nil => simp at h2
      | cons z zs =>
        simp only [Gen.map3, List.length_cons]
        rw [ih ys zs (by simpa using h1) (by simpa using h2)]

theorem map3_getElem (f : α → β → γ → δ) (a : List α) (b : List β) (c : List γ) (i : Nat)
    (hi : i < (Gen.map3 f a b c).length) (ha : i < a.length) (hb : i < b.length) (hc : i < c.length) :
    (Gen.map3 f a b c)[i] = f a[i] b[i] c[i] := by
  induction a generalizing b c i with
  | nil => simp at ha
  | cons x xs ih =>
    cases b with
    | nil => simp at hb
    | cons y ys =>
      cases c with
      | nil => simp at hc
      | cons z zs =>
        cases i with
        | zero => simp [Gen.map3]
        | succ j =>
          simp only [Gen.map3, List.getElem_cons_succ]
          exact ih ys zs j _ _ _ _

end Tie
