import AspireModel.Lemmas.TieUtils
import AspireModel.Gen.SrcSmcSamples
import AspireModel.Model.Tempering
/-
  Tie for the incremental-weight arithmetic of `SMCSamples` that several properties share:
  `unnormalized_log_weights`, `log_weights`, and the population efficiency `ESS/N` of a move.
  Generic in the scalar; core Lean only.
-/
set_option linter.unusedSectionVars false
namespace Tie
variable {α : Type} [Num α] [DecidableLT α] [DecidableLE α]

theorem map3_unnorm (β β' : α) (ll lp lq : List α) :
    Gen.map3 (fun l p q => (((β - β') * q) + ((β' - β) * (l + p)))) ll lp lq
      = Model.unnormLogW β β' ll lp lq := by
  fun_induction Model.unnormLogW β β' ll lp lq <;> simp_all [Gen.map3, Model.unnorm1]

/-- source of `SMCSamples.unnormalized_log_weights` = `Model.unnormLogW` (row by row, same formula) -/
theorem unnormalized_log_weights_eq (β β' : α) (ll lp lq : List α) (n : Nat) :
    Gen.unnormalized_log_weights β ll lp lq n β' = Model.unnormLogW β β' ll lp lq := by
  simp [Gen.unnormalized_log_weights, map3_unnorm]

/-- source of `SMCSamples.log_weights` = `Model.logWeights` (`n = len(samples)`) -/
theorem log_weights_eq (β β' : α) (ll lp lq : List α) (n : Nat)
    (hn : n = (Model.unnormLogW β β' ll lp lq).length) :
    Gen.log_weights β ll lp lq n β' = Model.logWeights β β' ll lp lq := by
  subst hn
  simp [Gen.log_weights, Model.logWeights, unnormalized_log_weights_eq, logsumexp_eq]

theorem unnormLogW_length_indep (β β₁ β₂ : α) (ll lp lq : List α) :
    (Model.unnormLogW β β₁ ll lp lq).length = (Model.unnormLogW β β₂ ll lp lq).length := by
  fun_induction Model.unnormLogW β β₁ ll lp lq <;> simp_all [Model.unnormLogW]

/-- `effective_sample_size(samples.log_weights(b)) / len(samples)` as the source computes it
    = the model's `effAt` -/
theorem effAt_eq (β b : α) (ll lp lq : List α) (n : Nat)
    (hn : n = (Model.unnormLogW β b ll lp lq).length) :
    Gen.effective_sample_size (Gen.log_weights β ll lp lq n b) / ((n : Nat) : α)
      = Model.effAt β b ll lp lq := by
  rw [log_weights_eq β b ll lp lq n hn, effective_sample_size_eq]
  subst hn
  rfl

end Tie
