import Mathlib.Analysis.MeanInequalities
import Mathlib.Analysis.Convex.Slope
import Mathlib.Analysis.SpecialFunctions.Log.Basic
/-
  The analytic core of C07: the effective sample size of the incremental importance weights
  `exp (δ ℓ_i)` is antitone in the temperature increment `δ ≥ 0`.
  `K t = log Σ exp (t ℓ_i)` is convex (Hölder), hence `2 K δ − K (2δ)` is antitone on `[0, ∞)`
  (three-secant inequality).
-/
namespace EssAntitone
open Finset Real

variable {ι : Type*} (s : Finset ι) (ℓ : ι → ℝ)

/-- cumulant-generating function of the empirical distribution of `ℓ` -/
noncomputable def K (t : ℝ) : ℝ := Real.log (∑ i ∈ s, Real.exp (t * ℓ i))

theorem S_pos (hs : s.Nonempty) (t : ℝ) : 0 < ∑ i ∈ s, Real.exp (t * ℓ i) :=
  Finset.sum_pos (fun _ _ => Real.exp_pos _) hs

theorem K_convex (hs : s.Nonempty) : ConvexOn ℝ Set.univ (K s ℓ) := by
  refine ⟨convex_univ, ?_⟩
  intro x _ y _ a b ha hb hab
  simp only [smul_eq_mul, K]
  rcases eq_or_lt_of_le ha with ha0 | ha0
  · have hb1 : b = 1 := by linarith
    subst ha0; subst hb1; simp
  rcases eq_or_lt_of_le hb with hb0 | hb0
  · have ha1 : a = 1 := by linarith
    subst hb0; subst ha1; simp
  -- Hölder with p = 1/a, q = 1/b
  have hpq : (1 / a).HolderConjugate (1 / b) := by
    rw [Real.holderConjugate_iff]
    refine ⟨by rw [lt_div_iff₀ ha0]; linarith, ?_⟩
    simp [hab]
  have hH := Real.inner_le_Lp_mul_Lq_of_nonneg s hpq
    (f := fun i => Real.exp (a * (x * ℓ i))) (g := fun i => Real.exp (b * (y * ℓ i)))
    (fun i _ => (Real.exp_pos _).le) (fun i _ => (Real.exp_pos _).le)
  have e1 : ∀ i, Real.exp (a * (x * ℓ i)) ^ (1 / a) = Real.exp (x * ℓ i) := by
    intro i; rw [← Real.exp_mul]; congr 1; field_simp
  have e2 : ∀ i, Real.exp (b * (y * ℓ i)) ^ (1 / b) = Real.exp (y * ℓ i) := by
    intro i; rw [← Real.exp_mul]; congr 1; field_simp
  simp only [e1, e2, one_div_one_div] at hH
  have e3 : ∀ i, Real.exp (a * (x * ℓ i)) * Real.exp (b * (y * ℓ i)) = Real.exp ((a * x + b * y) * ℓ i) := by
    intro i; rw [← Real.exp_add]; congr 1; ring
  simp only [e3] at hH
  have hSx := S_pos s ℓ hs x
  have hSy := S_pos s ℓ hs y
  have hS := S_pos s ℓ hs (a * x + b * y)
  calc Real.log (∑ i ∈ s, Real.exp ((a * x + b * y) * ℓ i))
      ≤ Real.log ((∑ i ∈ s, Real.exp (x * ℓ i)) ^ a * (∑ i ∈ s, Real.exp (y * ℓ i)) ^ b) :=
        Real.log_le_log hS hH
    _ = a * Real.log (∑ i ∈ s, Real.exp (x * ℓ i)) + b * Real.log (∑ i ∈ s, Real.exp (y * ℓ i)) := by
        rw [Real.log_mul (Real.rpow_pos_of_pos hSx a).ne' (Real.rpow_pos_of_pos hSy b).ne',
          Real.log_rpow hSx, Real.log_rpow hSy]

/-- log of the effective sample size of the incremental weights `exp (δ ℓ i)` -/
noncomputable def logEss (δ : ℝ) : ℝ := 2 * K s ℓ δ - K s ℓ (2 * δ)

theorem logEss_antitone (hs : s.Nonempty) {a b : ℝ} (ha : 0 ≤ a) (hab : a ≤ b) :
    logEss s ℓ b ≤ logEss s ℓ a := by
  rcases eq_or_lt_of_le hab with rfl | hlt
  · exact le_rfl
  have hc := K_convex s ℓ hs
  -- secant slopes: [a,b] vs [2a,2b]
  unfold logEss
  suffices h : 2 * (K s ℓ b - K s ℓ a) ≤ K s ℓ (2 * b) - K s ℓ (2 * a) by linarith
  have hba : 0 < b - a := sub_pos.mpr hlt
  -- slope over [a,b] ≤ slope over [a, 2b] ≤ slope over [2a, 2b]
  have h1 : (K s ℓ b - K s ℓ a) / (b - a) ≤ (K s ℓ (2 * b) - K s ℓ a) / (2 * b - a) := by
    have hb2 : b ≤ 2 * b := by linarith
    rcases eq_or_lt_of_le hb2 with h | h
    · have : b = 0 := by linarith
      linarith
    · exact hc.secant_mono (Set.mem_univ a) (Set.mem_univ b) (Set.mem_univ (2 * b)) hlt.ne' (by linarith : (2 * b) ≠ a) hb2
  have h2 : (K s ℓ (2 * b) - K s ℓ a) / (2 * b - a) ≤ (K s ℓ (2 * b) - K s ℓ (2 * a)) / (2 * b - 2 * a) := by
    rcases eq_or_lt_of_le ha with h0 | h0
    · subst h0; simp
    · have := hc.secant_mono (a := 2 * b) (x := a) (y := 2 * a) (Set.mem_univ _) (Set.mem_univ _) (Set.mem_univ _)
        (by linarith : a ≠ 2 * b) (by linarith : 2 * a ≠ 2 * b) (by linarith : a ≤ 2 * a)
      have e1 : (K s ℓ a - K s ℓ (2 * b)) / (a - 2 * b) = (K s ℓ (2 * b) - K s ℓ a) / (2 * b - a) := by
        rw [← neg_sub (K s ℓ (2*b)), ← neg_sub (2 * b) a, neg_div_neg_eq]
      have e2 : (K s ℓ (2 * a) - K s ℓ (2 * b)) / (2 * a - 2 * b) = (K s ℓ (2 * b) - K s ℓ (2 * a)) / (2 * b - 2 * a) := by
        rw [← neg_sub (K s ℓ (2*b)), ← neg_sub (2 * b) (2 * a), neg_div_neg_eq]
      rw [e1, e2] at this
      exact this
  have h3 := h1.trans h2
  have : 2 * b - 2 * a = 2 * (b - a) := by ring
  rw [this, div_le_div_iff₀ hba (by positivity)] at h3
  nlinarith
end EssAntitone
