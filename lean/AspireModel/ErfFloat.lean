/-
  Numerical erf / erfinv at `Float` for the driver only (Lean's `Float` has no erf).  They stand in for
  `scipy.special.erf/erfinv`; accuracy ~1e-15 relative for |x| ≤ 6, which is what the correspondence needs.
  In the theorems the two functions are parameters (`ProbitConsts`).
-/
namespace ErfFloat

def twoOverSqrtPi : Float := 1.1283791670955126

/-- Maclaurin series, used for |x| ≤ 2.5 -/
def erfSeries (x : Float) : Float := Id.run do
  let x2 := x * x
  let mut term := x
  let mut sum := x
  for n in [1:200] do
    term := term * (-x2) / n.toFloat
    let add := term / (2 * n.toFloat + 1)
    sum := sum + add
    if add.abs < 1e-17 * sum.abs then break
  return twoOverSqrtPi * sum

/-- continued fraction for erfc (modified Lentz), used for x > 2.5 -/
def erfcCF (x : Float) : Float := Id.run do
  -- erfc x = exp(-x²)/(x√π) · 1/(1+ 1/(2x²)/(1+2/(2x²)/(1+ …)))  via the standard K(a_n/b_n) with a_n = n/2
  let tiny : Float := 1e-300
  let mut f := x
  let mut c := x
  let mut d : Float := 0
  for n in [1:400] do
    let a := n.toFloat / 2
    d := x + a * d
    if d == 0 then d := tiny
    c := x + a / c
    if c == 0 then c := tiny
    d := 1 / d
    let delta := c * d
    f := f * delta
    if (delta - 1).abs < 1e-16 then break
  return Float.exp (-x * x) / (f * 1.7724538509055159)

def erf (x : Float) : Float :=
  if x.isNaN then x
  else
    let a := x.abs
    if a ≤ 2.5 then erfSeries x
    else
      let v := if a > 6.5 then 1.0 else 1.0 - erfcCF a
      if x < 0 then -v else v

def erfc (x : Float) : Float :=
  if x < 0 then 2 - (if -x ≤ 2.5 then 1 - erfSeries (-x) else erfcCF (-x))
  else if x ≤ 2.5 then 1 - erfSeries x else erfcCF x

/-- Newton iteration from Winitzki's approximation; the tails are solved through `erfc` so that the
    relative accuracy does not degrade as |p| → 1 -/
def erfinv (p : Float) : Float := Id.run do
  if p.isNaN then return p
  if p ≥ 1 then return (1.0 / 0.0)
  if p ≤ -1 then return -(1.0 / 0.0)
  if p < 0 then return -(erfinvPos (-p))
  return erfinvPos p
where
  erfinvPos (p : Float) : Float := Id.run do
    let a : Float := 0.147
    let ln := Float.log (1 - p * p)
    let t := 2 / (3.141592653589793 * a) + ln / 2
    let mut x := Float.sqrt (Float.sqrt (t * t - ln / a) - t)
    let q := 1 - p
    for _ in [0:100] do
      let err := if p > 0.5 then q - erfc x else erf x - p
      let dx := err / (twoOverSqrtPi * Float.exp (-x * x))
      x := x - dx
      if dx.abs ≤ 1e-16 * x.abs then break
    return x

end ErfFloat
