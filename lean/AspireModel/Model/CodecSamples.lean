import AspireModel.Model.Codec
/-
  Model of how a sample set goes through the HDF5 codec (`BaseSamples.to_dict(flat=False)` / `from_dict`, src/aspire/samples.py):
  a "samples" sub-dictionary keyed by parameter name next to the list of parameter names and the optional log-density columns.
  Core Lean only.
-/
namespace Model

/-- the per-sample part of a sample set as the HDF5 codec sees it: parameter names, one column of values (float bit patterns)
    per parameter, and the optional log-density columns -/
structure SampleRec where
  parameters : List Str
  cols : List (List Nat)
  ll : Option (List Nat)
  lp : Option (List Nat)
  lq : Option (List Nat)
  deriving DecidableEq, Repr

def optNums : Option (List Nat) → Val
  | none => .leaf .none
  | some l => .leaf (.nums l)

def getOptNums : Val → Option (Option (List Nat))
  | .leaf .none => some none
  | .leaf (.nums l) => some (some l)
  | _ => none

/-- `dict(zip(self.parameters, self.x.T))` -/
def zipCols : List Str → List (List Nat) → List (Str × Val)
  | p :: ps, c :: cs => (p, .leaf (.nums c)) :: zipCols ps cs
  | _, _ => []

/-- `BaseSamples.to_dict(flat=False)` restricted to the per-sample fields (what `save` writes) -/
def SampleRec.toNested (s : SampleRec) : List (Str × Val) :=
  [("parameters".toList, .leaf (.strs s.parameters)),
   ("log_likelihood".toList, optNums s.ll), ("log_prior".toList, optNums s.lp), ("log_q".toList, optNums s.lq),
   ("samples".toList, .dict (zipCols s.parameters s.cols))]

def findK (es : List (Str × Val)) (k : Str) : Option Val := (es.find? (·.1 = k)).map (·.2)

/-- `np.stack([samples[p] for p in parameters], axis=-1)`: the columns are looked up BY NAME, in the order of `parameters` -/
def colsByName (samples : List (Str × Val)) : List Str → Option (List (List Nat))
  | [] => some []
  | p :: ps =>
    match findK samples p, colsByName samples ps with
    | some (.leaf (.nums c)), some cs => some (c :: cs)
    | _, _ => none

/-- the WRONG reading, kept for the negative theorem: the columns in the order in which the dictionary lists them -/
def colsByOrder (samples : List (Str × Val)) : Option (List (List Nat)) :=
  samples.mapM fun e => match e.2 with | .leaf (.nums c) => some c | _ => none

/-- `BaseSamples.from_dict` on the nested layout -/
def SampleRec.ofNested (es : List (Str × Val)) : Option SampleRec := do
  let params ← match lookup es "parameters" with | some (.leaf (.strs l)) => some l | _ => none
  let samples ← match lookup es "samples" with | some (.dict d) => some d | _ => none
  let cols ← colsByName samples params
  let ll ← getOptNums (← lookup es "log_likelihood")
  let lp ← getOptNums (← lookup es "log_prior")
  let lq ← getOptNums (← lookup es "log_q")
  pure { parameters := params, cols := cols, ll := ll, lp := lp, lq := lq }

end Model
