import AspireModel.Model.Tempering
/-
  Model of the estimators as functions of the drawn points, for the exact expectation identities of C01.
  Core Lean only; generic in the scalar like the other numeric models.

  The estimators are the ones of `Model/Weights.lean` / `Model/Tempering.lean` applied to the log-densities of the
  drawn points; a population is a list of points of an arbitrary type `X`; `logL`, `logPi`, `logQ : X → α` are the
  user's log-likelihood, log-prior and the proposal's log-density.
-/
namespace Model
variable {α : Type} [Num α] [DecidableLT α] [DecidableLE α] {X : Type}

/-- the importance-sampling evidence estimate `Samples.evidence = exp(log_evidence)` for the draws `xs` -/
def isEvidence (logL logPi logQ : X → α) (xs : List X) : α :=
  (computeWeights (xs.map logL) (xs.map logPi) (xs.map logQ)).evidence

/-- the per-step SMC estimate `exp(log_evidence_ratio)` for a population `xs` at temperature `β` moved to `β'` -/
def smcStepEstimate (logL logPi logQ : X → α) (β β' : α) (xs : List X) : α :=
  ExpLog.exp (logEvidenceRatio β β' (xs.map logL) (xs.map logPi) (xs.map logQ))

end Model
