import AspireModel.Model.Wiring
/-
  Model of WHERE a run takes its random numbers from (C20).  Core Lean only.

  A run is an arbitrary computation that, at named consumption sites, draws a value and continues depending on it
  (`RProg`: any sampler logic whatsoever — adaptive schedules, rejection loops, data-dependent numbers of draws — is such a
  tree).  There are two generators: the one the user supplied and the AMBIENT one (what `default_rng()`, a fresh `ArrayRNG`,
  the global torch state … would give).  `srcOf` says which generator each site reads; for the sampler sites it is what
  `Model/Wiring.lean` computes from the class's signature table and the route by which the user handed the generator in.
-/
namespace Model

/-- consumption sites of an inference run -/
inductive Site
  | flowInit | flowTrain | flowSample      -- proposal construction, training, drawing from the proposal
  | resample | kernel | final              -- SMC resampling, MCMC kernel, final enlargement
  deriving DecidableEq, Repr

/-- a computation drawing values of type `V` at sites and returning `R` -/
inductive RProg (V R : Type)
  | ret : R → RProg V R
  | draw : Site → (V → RProg V R) → RProg V R

variable {V R G : Type}

/-- run with the user's generator `gu` and the ambient one `ga`; `next` advances a generator -/
def RProg.exec (next : G → V × G) (srcOf : Site → Src) : RProg V R → G → G → R × G × G
  | .ret r, gu, ga => (r, gu, ga)
  | .draw s k, gu, ga =>
    match srcOf s with
    | .user => RProg.exec next srcOf (k (next gu).1) (next gu).2 ga
    | .ambient => RProg.exec next srcOf (k (next ga).1) gu (next ga).2

/-- the same computation on ONE generator (what the user expects: "my generator drives the run") -/
def RProg.run1 (next : G → V × G) : RProg V R → G → R × G
  | .ret r, g => (r, g)
  | .draw _ k, g => RProg.run1 next (k (next g).1) (next g).2

/-- every site the computation can reach satisfies `ok` -/
inductive RProg.UsesOnly (ok : Site → Prop) : RProg V R → Prop
  | ret (r : R) : RProg.UsesOnly ok (.ret r)
  | draw (s : Site) (k : V → RProg V R) : ok s → (∀ v, RProg.UsesOnly ok (k v)) → RProg.UsesOnly ok (.draw s k)

/-- number of draws on the path the run takes with generator `g` -/
def RProg.drawCount (next : G → V × G) : RProg V R → G → Nat
  | .ret _, _ => 0
  | .draw _ k, g => RProg.drawCount next (k (next g).1) (next g).2 + 1

/-- which generator each site reads, for a sampler class with table `t` reached by route `r`; the proposal's sites read the
    explicit seed / key iff one was given -/
def siteSrc (t : SamplerTbl) (r : Route) (flowSeeded : Bool) : Site → Src
  | .flowInit | .flowTrain | .flowSample => if flowSeeded then .user else .ambient
  | .resample | .kernel | .final => usedSrc t r

end Model
