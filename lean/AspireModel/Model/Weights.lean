import AspireModel.Model.Num
/-
  Model of `aspire.samples.Samples.compute_weights`, `utils.effective_sample_size`,
  `Samples.scaled_weights`, `Samples.efficiency`, `Samples.rejection_sample`
  (src/aspire/samples.py, src/aspire/utils.py).
-/
namespace Model
variable {α : Type} [Num α] [DecidableLT α] [DecidableLE α]

/-- `log_w = log_likelihood + log_prior - log_q`, row by row. -/
def logW : List α → List α → List α → List α
  | l :: ls, p :: ps, q :: qs => (l + p - q) :: logW ls ps qs
  | _, _, _ => []

/-- `utils.effective_sample_size(log_w) = exp(2*lse(log_w) - lse(2*log_w))`. -/
def essOf (lw : List α) : α :=
  ExpLog.exp (logsumexp lw * two - logsumexp (lw.map fun v => v * two))

/-- ESS as `compute_weights` computes it: on `log_w - max(log_w)`. -/
def essShifted (lw : List α) : α :=
  let m := maxList lw
  essOf (lw.map fun v => v - m)

structure WeightsOut (α : Type) where
  logW : List α
  logZ : α
  weights : List α
  evidence : α
  evidenceError : α
  logEvidenceError : α
  ess : α

/-- max-shifted weights `u_i = exp(log_w_i - max log_w)` -/
def shiftedWeights (lw : List α) : List α :=
  let m := maxList lw
  lw.map fun v => ExpLog.exp (v - m)

/-- relative error of the evidence computed from max-shifted weights:
    `sqrt(Σ (u_i - ū)² / (n (n-1))) / ū`   (scale invariant, so equal to
    `evidence_error / evidence` in exact arithmetic). -/
def relErrShifted (lw : List α) : α :=
  let u := shiftedWeights lw
  let n : α := (lw.length : α)
  let ubar := sumL u / n
  ExpLog.sqrt (sumL (u.map fun v => (v - ubar) * (v - ubar)) / (n * (n - 1))) / ubar

/-- `Samples.compute_weights`. -/
def computeWeights (ll lp lq : List α) : WeightsOut α :=
  let lw := logW ll lp lq
  let n : α := (lw.length : α)
  let logZ := logsumexp lw - ExpLog.log n
  let w := lw.map ExpLog.exp
  let z := ExpLog.exp logZ
  let relErr := absS (relErrShifted lw)
  { logW := lw, logZ := logZ, weights := w, evidence := z,
    evidenceError := relErr * z, logEvidenceError := relErr, ess := essShifted lw }

/-- The pinned (pre-fix) computation of the relative error, kept for the negative theorem:
    `weights = exp(log_w)` unshifted. -/
def relErrUnshifted (lw : List α) : α :=
  let n : α := (lw.length : α)
  let logZ := logsumexp lw - ExpLog.log n
  let w := lw.map ExpLog.exp
  let z := ExpLog.exp logZ
  absS (ExpLog.sqrt (sumL (w.map fun v => (v - z) * (v - z)) / (n * (n - 1))) / z)

/-- `Samples.scaled_weights`. -/
def scaledWeights (lw : List α) : List α := shiftedWeights lw

/-- `Samples.rejection_sample`: keep row `i` iff `log_w_i - max log_w > log u_i`. -/
def rejectionKeep (lw logU : List α) : List Bool :=
  let m := maxList lw
  List.zipWith (fun v lu => decide (lu < v - m)) lw logU

end Model
