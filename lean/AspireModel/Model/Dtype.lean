/-
  Model of the dtype / array-namespace plumbing (src/aspire/utils.py `resolve_dtype`, `convert_dtype`,
  `_dtype_to_name`, `asarray`; src/aspire/samples.py conversions `to_namespace`, `to_numpy`, `from_samples`).
  Core Lean only; everything ranges over finite types, so the property is a finite table.

  Library rules (parameters of the model, validated by the correspondence on the real libraries):
    * `xp.asarray(x, dtype=d)` accepts only a dtype object of its own namespace (torch rejects a numpy dtype,
      numpy/jax cannot interpret a torch dtype); numpy and jax dtype objects are interchangeable;
    * the default floating dtype is float64 for numpy and for jax with x64 enabled, float32 for torch.
-/
namespace Model

inductive Ns | numpy | torch | jax
  deriving DecidableEq, Repr
inductive Width | f32 | f64
  deriving DecidableEq, Repr

/-- a dtype as the user or the code may spell it -/
inductive DT
  | none
  | name (w : Width)              -- "float32" / "float64"
  | native (ns : Ns) (w : Width)  -- a dtype object of that namespace
  deriving DecidableEq, Repr

/-- numpy and jax share dtype objects (`jnp.dtype` is `np.dtype`) -/
def sameDtypeFamily : Ns → Ns → Bool
  | .torch, .torch => true
  | .torch, _ => false
  | _, .torch => false
  | _, _ => true

/-- `resolve_dtype(dtype, xp)` -/
def resolveDtype (d : DT) (xp : Ns) : DT :=
  match d with
  | .none => .none
  | .name w => .native xp w
  | .native n w =>
    match xp with
    | .torch => .native n w                        -- returned as is (possibly foreign)
    | _ => if sameDtypeFamily n xp then .native xp w else .native n w   -- `xp.dtype(torch.float32)` fails → as is

/-- `convert_dtype(dtype, target_xp)`: by module when it already belongs to the target, else by name -/
def convertDtype (d : DT) (tgt : Ns) : DT :=
  match d with
  | .none => .none
  | .name w => .native tgt w
  | .native _ w => .native tgt w

def defaultWidth : Ns → Width
  | .torch => .f32
  | _ => .f64

inductive ConvErr | typeError
  deriving DecidableEq, Repr

/-- `asarray(x, xp, dtype)` on an array of width `w0`: the resulting width, or the library's TypeError for a
    foreign dtype object -/
def asarrayW (w0 : Width) (xp : Ns) (d : DT) : Except ConvErr Width :=
  match resolveDtype d xp with
  | .none => .ok w0
  | .name w => .ok w
  | .native n w => if sameDtypeFamily n xp then .ok w else .error .typeError

/-- the constructor `Samples(x, xp=xp, dtype=d)`: dtype resolved (or the namespace default), every array converted -/
def constructW (w0 : Width) (xp : Ns) (d : DT) : Except ConvErr Width :=
  match d with
  | .none => asarrayW w0 xp (.native xp (defaultWidth xp))
  | d => asarrayW w0 xp (resolveDtype d xp)

inductive SCls | base | samples | smc
  deriving DecidableEq, Repr
inductive Method | toNamespace | toNumpy | fromSamples
  deriving DecidableEq, Repr

structure ConvIn where
  cls : SCls
  src : Ns
  w : Width
  tgt : Ns
  spec : DT          -- the `dtype=` argument (`.none` = not given)
  method : Method
  deriving DecidableEq, Repr

structure ConvOut where
  ns : Ns
  w : Width
  /-- optional fields (log-densities, and beta / evidence for SMC sets) all carried -/
  fieldsKept : Bool
  deriving DecidableEq, Repr

/-- the conversion methods of the three classes -/
def convert (i : ConvIn) : Except ConvErr ConvOut :=
  let tgt := match i.method with | .toNumpy => Ns.numpy | _ => i.tgt
  -- the dtype the method settles on: an explicit request is resolved in the target namespace, otherwise the
  -- source dtype is converted to the target namespace
  let d := match i.spec with
    | .none => convertDtype (.native i.src i.w) tgt
    | s => resolveDtype s tgt
  match constructW i.w tgt d with
  | .error e => .error e
  | .ok w => .ok { ns := tgt, w := w, fieldsKept := true }

/-- the width the user asked for -/
def expectedWidth (i : ConvIn) : Width :=
  match i.spec with
  | .none => i.w
  | .name w => w
  | .native _ w => w

/-- a request is meaningful when an explicit dtype object belongs to the target namespace's family -/
def validReq (i : ConvIn) : Bool :=
  let tgt := match i.method with | .toNumpy => Ns.numpy | _ => i.tgt
  match i.spec with
  | .native n _ => sameDtypeFamily n tgt
  | _ => true

/-- `Samples.to_namespace(xp)` and `Samples.to_numpy()` / `SMCSamples.to_numpy()` take no dtype argument -/
def acceptsSpec (i : ConvIn) : Bool :=
  match i.cls, i.method, i.spec with
  | .samples, .toNamespace, .none => true
  | .samples, .toNamespace, _ => false
  | .samples, .toNumpy, .none => true
  | .samples, .toNumpy, _ => false
  | .smc, .toNumpy, .none => true
  | .smc, .toNumpy, _ => false
  | _, _, _ => true

def allNs : List Ns := [.numpy, .torch, .jax]
def allW : List Width := [.f32, .f64]
def allCls : List SCls := [.base, .samples, .smc]
def allMethods : List Method := [.toNamespace, .toNumpy, .fromSamples]
def allSpecs : List DT :=
  [.none, .name .f32, .name .f64] ++ (allNs.flatMap fun n => allW.map fun w => DT.native n w)

/-- the whole finite table of conversion requests -/
def allConv : List ConvIn :=
  allCls.flatMap fun c => allNs.flatMap fun s => allW.flatMap fun w => allNs.flatMap fun t =>
    allSpecs.flatMap fun sp => allMethods.map fun m =>
      { cls := c, src := s, w := w, tgt := t, spec := sp, method := m }

end Model
