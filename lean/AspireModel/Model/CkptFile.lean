/-
  Model of the checkpoint file written while sampling (core Lean only).

  * `dump_pickle_to_hdf(memfp, fp, path, dsetname)` (src/aspire/utils.py): the pickled payload is a
    1-d array of bytes `bdata`; if the dataset is missing it is created with `bdata`'s shape
    (zero-filled, `maxshape=(None,)`); else, if the sizes differ, it is `resize`d to the new size
    (h5py `Dataset.resize`: truncates, or extends with the fill value 0); then `dset[:] = bdata`.
  * `Sampler.default_file_checkpoint_callback` / `save_checkpoint_to_hdf` / `dump_state`
    (src/aspire/samplers/base.py, utils.py): every checkpoint handed to the callback is pickled and
    dumped into the single dataset `checkpoint/state` of the file (opened in append mode), nothing
    else in the file is touched.
  * `Aspire.sample_posterior` (src/aspire/aspire.py): before sampling starts the configuration is
    (re)written to the file and the proposal (flow) is written if the file has none yet.
  * `Sampler.load_checkpoint_from_file`: reads `checkpoint/state[...]`, `tobytes()`, `pickle.loads`.

  A dataset is a list of bytes; the pickle encoder/decoder are parameters of the theorems.
-/
namespace Model

abbrev Bytes := List UInt8

/-- h5py `Dataset.resize((n,))` on a 1-d dataset: truncate, or extend with the fill value `0` -/
def resizeDset (old : Bytes) (n : Nat) : Bytes :=
  old.take n ++ List.replicate (n - old.length) 0

/-- writing `blob` at offset 0 into an existing dataset: the entries covered by `blob` are
    overwritten, the others keep their value, the dataset keeps its length
    (`dset[:] = blob` when the lengths agree, `dset[:len(blob)] = blob` in general) -/
def writeAt0 (dset blob : Bytes) : Bytes :=
  blob.take dset.length ++ dset.drop blob.length

/-- `dump_pickle_to_hdf`: `old` is the current content of the dataset (`none` = not in the file) -/
def dumpPickle (blob : Bytes) (old : Option Bytes) : Bytes :=
  match old with
  | none => writeAt0 (List.replicate blob.length 0) blob
  | some d =>
    let d := if blob.length ≠ d.length then resizeDset d blob.length else d
    writeAt0 d blob

/-- a WRONG variant, kept for the negative example: the dataset is only resized when the new
    payload is longer; a shorter payload overwrites a prefix and leaves the old tail in place -/
def dumpPickleNoShrink (blob : Bytes) (old : Option Bytes) : Bytes :=
  match old with
  | none => writeAt0 (List.replicate blob.length 0) blob
  | some d =>
    let d := if d.length < blob.length then resizeDset d blob.length else d
    writeAt0 d blob

/-- the parts of the checkpoint file that matter for resuming: the stored configuration
    (`aspire_config`), the stored proposal (`flow`) and the dataset `checkpoint/state` -/
structure CkptFile (C F : Type) where
  config : Option C := none
  flow : Option F := none
  ckpt : Option Bytes := none

variable {C F : Type}

/-- the prologue of `sample_posterior(checkpoint_path=…)`: the configuration is replaced, the
    proposal is written unless the file already has one -/
def writeHeader (f : CkptFile C F) (cfg : C) (flow : F) : CkptFile C F :=
  { f with config := some cfg, flow := match f.flow with | some fl => some fl | none => some flow }

/-- the file callback: one `dump_state` into `checkpoint/state` -/
def writeCkpt (f : CkptFile C F) (blob : Bytes) : CkptFile C F :=
  { f with ckpt := some (dumpPickle blob f.ckpt) }

/-- the file after the callback has been called with the payloads `blobs` (oldest first) -/
def writeAll (f : CkptFile C F) (blobs : List Bytes) : CkptFile C F :=
  blobs.foldl writeCkpt f

/-- `load_checkpoint_from_file`: the bytes of `checkpoint/state`, decoded -/
def loadCkpt {K : Type} (dec : Bytes → Option K) (f : CkptFile C F) : Option K :=
  f.ckpt.bind dec

end Model
