/-
  Model of the HDF5 codec of `src/aspire/utils.py`: `encode_for_hdf5` / `decode_from_hdf5` (sentinels for `None`
  and the empty dict), `recursively_save_to_h5_file` (nested dictionaries flattened to dotted keys, one dataset
  per leaf) and `load_from_h5_file` (keys split on '.', nesting rebuilt), and of the configuration round trip of
  `Aspire.config_dict` → `_build_aspire_from_file`.  Core Lean only.

  Keys and strings are `List Char`.  A group of an HDF5 file is a list of (key, dataset) pairs; h5py returns the
  keys in alphabetical order, so results are compared up to the order of dictionary entries (`Val.eqv`).
-/
namespace Model

abbrev Str := List Char

/-- what a dataset can hold after `encode_for_hdf5` -/
inductive H
  | bool (b : Bool)
  | int (i : Int)
  | num (bits : Nat)             -- a float, by bit pattern
  | str (s : Str)
  | strs (l : List Str)          -- list of strings → array of variable-length strings
  | nums (l : List Nat)          -- list / tuple / array of numbers → numeric array
  deriving DecidableEq, Repr

/-- leaves of a value tree -/
inductive Leaf
  | none
  | emptyDict
  | bool (b : Bool)
  | int (i : Int)
  | num (bits : Nat)
  | str (s : Str)
  | strs (l : List Str)
  | nums (l : List Nat)
  deriving DecidableEq, Repr

/-- value trees: a leaf or a NON-EMPTY dictionary (the empty dictionary is a leaf because it is stored as a sentinel) -/
inductive Val
  | leaf (l : Leaf)
  | dict (es : List (Str × Val))
  deriving Repr

def noneSentinel : Str := "__none__".toList
def emptyDictSentinel : Str := "__empty_dict__".toList

/-- `encode_for_hdf5` on a leaf -/
def encodeLeaf : Leaf → H
  | .none => .str noneSentinel
  | .emptyDict => .str emptyDictSentinel
  | .bool b => .bool b
  | .int i => .int i
  | .num x => .num x
  | .str s => .str s
  | .strs l => .strs l
  | .nums l => .nums l

/-- `decode_from_hdf5` on a dataset value -/
def decodeH : H → Leaf
  | .str s => if s = noneSentinel then .none else if s = emptyDictSentinel then .emptyDict else .str s
  | .bool b => .bool b
  | .int i => .int i
  | .num x => .num x
  | .strs l => .strs l
  | .nums l => .nums l

/-- `f"{prefix}.{key}" if prefix else key` -/
def joinKey (pre key : Str) : Str := if pre = [] then key else pre ++ ['.'] ++ key

mutual
/-- `_save_flattened(g, prefix, d)`: one dataset per leaf, nested non-empty dictionaries recursed into -/
def flattenEntries (pre : Str) : List (Str × Val) → List (Str × H)
  | [] => []
  | (k, v) :: rest => flattenVal (joinKey pre k) v ++ flattenEntries pre rest
def flattenVal (key : Str) : Val → List (Str × H)
  | .leaf l => [(key, encodeLeaf l)]
  | .dict es => flattenEntries key es
end

/-- `recursively_save_to_h5_file(h5, path, dictionary)` for a top-level dictionary -/
def saveDict (es : List (Str × Val)) : List (Str × H) := flattenEntries [] es

/-- `d.setdefault(part, {})…; d[last] = value` : insert a leaf at a path of segments into a dictionary body -/
def insertPath : List Str → Leaf → List (Str × Val) → List (Str × Val)
  | [], _, es => es
  | [k], l, es => (es.filter (·.1 ≠ k)) ++ [(k, .leaf l)]
  | k :: ks, l, es =>
    match es.find? (·.1 = k) with
    | some (_, .dict sub) => es.map fun e => if e.1 = k then (k, .dict (insertPath ks l sub)) else e
    | _ => (es.filter (·.1 ≠ k)) ++ [(k, .dict (insertPath ks l []))]

/-- `key.split(".")` -/
def splitKey (k : Str) : List Str := k.splitOn '.'

/-- `load_from_h5_file(h5, path)` -/
def loadDict (ds : List (Str × H)) : List (Str × Val) :=
  ds.foldl (fun acc kh => insertPath (splitKey kh.1) (decodeH kh.2) acc) []

mutual
/-- well-formed: keys are non-empty and contain no '.', keys of one dictionary are distinct, nested dictionaries
    are non-empty, no string leaf equals a sentinel -/
def Val.wf : Val → Bool
  | .leaf (.str s) => s ≠ noneSentinel && s ≠ emptyDictSentinel
  | .leaf _ => true
  | .dict es => !es.isEmpty && entriesWf es
def entriesWf : List (Str × Val) → Bool
  | [] => true
  | (k, v) :: rest => !k.isEmpty && !k.contains '.' && v.wf && rest.all (·.1 ≠ k) && entriesWf rest
end

mutual
/-- equality of value trees up to the order of dictionary entries -/
def Val.eqv : Val → Val → Bool
  | .leaf a, .leaf b => a == b
  | .dict as, .dict bs => as.length == bs.length && entriesSub as bs
  | _, _ => false
/-- every entry of `as` has an equivalent entry in `bs` under the same key -/
def entriesSub : List (Str × Val) → List (Str × Val) → Bool
  | [], _ => true
  | (k, v) :: rest, bs =>
    (match bs.find? (·.1 = k) with
     | some (_, w) => v.eqv w
     | none => false) && entriesSub rest bs
end

/-! ### configuration of an `Aspire` instance -/

/-- the settings `config_dict` stores and `_build_aspire_from_file` restores -/
structure AspireCfg where
  dims : Int
  parameters : Option (List Str)
  periodic : Option (List Str)
  /-- prior bounds per parameter: two float bit patterns -/
  bounds : Option (List (Str × Nat × Nat))
  boundedToUnbounded : Bool
  boundedTransform : Str
  flowMatching : Bool
  device : Option Str
  xp : Option Str
  flowBackend : Str
  /-- extra flow options (`**kwargs` of `Aspire`), values are leaves -/
  flowKwargs : List (Str × Leaf)
  eps : Nat
  dtype : Option Str
  deriving DecidableEq, Repr

def optStrs : Option (List Str) → Leaf
  | none => .none
  | some l => .strs l

def optStr : Option Str → Leaf
  | none => .none
  | some s => .str s

/-- `Aspire.config_dict()` as a value tree (the callables' ids are omitted) -/
def AspireCfg.toEntries (c : AspireCfg) : List (Str × Val) :=
  [("dims".toList, .leaf (.int c.dims)),
   ("parameters".toList, .leaf (optStrs c.parameters)),
   ("periodic_parameters".toList, .leaf (optStrs c.periodic)),
   ("prior_bounds".toList, match c.bounds with
      | none => .leaf .none
      | some [] => .leaf .emptyDict
      | some bs => .dict (bs.map fun b => (b.1, .leaf (.nums [b.2.1, b.2.2])))),
   ("bounded_to_unbounded".toList, .leaf (.bool c.boundedToUnbounded)),
   ("bounded_transform".toList, .leaf (.str c.boundedTransform)),
   ("flow_matching".toList, .leaf (.bool c.flowMatching)),
   ("device".toList, .leaf (optStr c.device)),
   ("xp".toList, .leaf (optStr c.xp)),
   ("flow_backend".toList, .leaf (.str c.flowBackend)),
   ("flow_kwargs".toList, match c.flowKwargs with
      | [] => .leaf .emptyDict
      | kw => .dict (kw.map fun e => (e.1, .leaf e.2))),
   ("eps".toList, .leaf (.num c.eps)),
   ("dtype".toList, .leaf (optStr c.dtype))]

def lookup (es : List (Str × Val)) (k : String) : Option Val := (es.find? (·.1 = k.toList)).map (·.2)

def getOptStrs : Val → Option (Option (List Str))
  | .leaf .none => some none
  | .leaf (.strs l) => some (some l)
  | _ => none

def getOptStr : Val → Option (Option Str)
  | .leaf .none => some none
  | .leaf (.str s) => some (some s)
  | _ => none

/-- `_build_aspire_from_file`: `Aspire(**config)` with the flow options splatted back into keyword arguments -/
def AspireCfg.ofEntries (es : List (Str × Val)) : Option AspireCfg := do
  let dims ← match ← lookup es "dims" with | .leaf (.int i) => some i | _ => none
  let parameters ← getOptStrs (← lookup es "parameters")
  let periodic ← getOptStrs (← lookup es "periodic_parameters")
  let bounds ← match ← lookup es "prior_bounds" with
    | .leaf .none => some none
    | .leaf .emptyDict => some (some [])
    | .dict bs => (bs.mapM fun (b : Str × Val) => match b.2 with
        | Val.leaf (Leaf.nums [lo, hi]) => some (b.1, lo, hi)
        | _ => none).map some
    | _ => none
  let b2u ← match ← lookup es "bounded_to_unbounded" with | .leaf (.bool b) => some b | _ => none
  let bt ← match ← lookup es "bounded_transform" with | .leaf (.str s) => some s | _ => none
  let fm ← match ← lookup es "flow_matching" with | .leaf (.bool b) => some b | _ => none
  let device ← getOptStr (← lookup es "device")
  let xp ← getOptStr (← lookup es "xp")
  let fb ← match ← lookup es "flow_backend" with | .leaf (.str s) => some s | _ => none
  let kw ← match ← lookup es "flow_kwargs" with
    | .leaf .emptyDict => some []
    | .dict kw => kw.mapM fun (e : Str × Val) => match e.2 with | Val.leaf l => some (e.1, l) | _ => none
    | _ => none
  let eps ← match ← lookup es "eps" with | .leaf (.num x) => some x | _ => none
  let dtype ← getOptStr (← lookup es "dtype")
  pure { dims := dims, parameters := parameters, periodic := periodic, bounds := bounds, boundedToUnbounded := b2u,
         boundedTransform := bt, flowMatching := fm, device := device, xp := xp, flowBackend := fb, flowKwargs := kw,
         eps := eps, dtype := dtype }

end Model
