/-
  Scalar interface of the numeric model.  Core Lean only (no Mathlib): the very same
  definitions are executed at `Float` / `Float32` by the driver (`Main.lean`) and reasoned
  about at `ℝ` in `Lemmas/` and `Props/` (where Mathlib supplies the instance).
-/

/-- Transcendental / irrational operations the model needs.  Everything else comes from the
    standard operator classes, so that at `ℝ` Mathlib's own instances are used. -/
class ExpLog (α : Type) where
  exp : α → α
  log : α → α
  sqrt : α → α

instance : ExpLog Float := ⟨Float.exp, Float.log, Float.sqrt⟩
instance : ExpLog Float32 := ⟨Float32.exp, Float32.log, Float32.sqrt⟩
instance : NatCast Float := ⟨Float.ofNat⟩
instance : NatCast Float32 := ⟨Float32.ofNat⟩

/-- The operator bundle used by every numeric model function. -/
class abbrev Num (α : Type) :=
  Add α, Sub α, Mul α, Div α, Neg α, LT α, LE α, Zero α, One α, NatCast α, ExpLog α

instance : Num Float := {}
instance : Num Float32 := {}

namespace Model
variable {α : Type} [Num α] [DecidableLT α] [DecidableLE α]

/-- running maximum, seeded with `m` (NaN-free inputs: numpy's `max`). -/
def maxL : List α → α → α
  | [], m => m
  | x :: xs, m => maxL xs (if m < x then x else m)

/-- maximum of a non-empty list (0 on the empty list, never used there). -/
def maxList : List α → α
  | [] => 0
  | x :: xs => maxL xs x

def sumL : List α → α
  | [] => 0
  | x :: xs => x + sumL xs

def absS (x : α) : α := if x < 0 then -x else x

def two : α := 1 + 1

/-- `aspire.utils.logsumexp`: global-max shift. -/
def logsumexp (xs : List α) : α :=
  let c := maxList xs
  c + ExpLog.log (sumL (xs.map fun v => ExpLog.exp (v - c)))

/-- The arguments `logsumexp` hands to `exp` (instrumented twin, for the range-safety theorems). -/
def logsumexpExpArgs (xs : List α) : List α :=
  let c := maxList xs
  xs.map fun v => v - c

/-- The argument `logsumexp` hands to `log`. -/
def logsumexpLogArg (xs : List α) : α :=
  let c := maxList xs
  sumL (xs.map fun v => ExpLog.exp (v - c))

end Model
