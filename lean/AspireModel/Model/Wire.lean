import AspireModel.Model.Num
/-
  Line-protocol helpers for the driver: floats cross the wire as raw IEEE-754 binary64 bit
  patterns (16 hex digits), so no decimal parsing/printing error is introduced.
-/
namespace Wire

def hexDigit (c : Char) : Option Nat :=
  if '0' ≤ c ∧ c ≤ '9' then some (c.toNat - '0'.toNat)
  else if 'a' ≤ c ∧ c ≤ 'f' then some (c.toNat - 'a'.toNat + 10)
  else if 'A' ≤ c ∧ c ≤ 'F' then some (c.toNat - 'A'.toNat + 10)
  else none

def parseHex (s : String) : Option Nat :=
  s.foldl (fun acc c => match acc, hexDigit c with
    | some a, some d => some (a * 16 + d)
    | _, _ => none) (some 0)

def toHex16 (n : Nat) : String :=
  let ds := Nat.toDigits 16 n
  String.ofList (List.replicate (16 - ds.length) '0' ++ ds)

/-- scalar types the driver can run the model at -/
class Scalar (α : Type) where
  ofF64 : Float → α
  toF64 : α → Float

instance : Scalar Float := ⟨id, id⟩
instance : Scalar Float32 := ⟨Float.toFloat32, Float32.toFloat⟩

def floatOfHex (s : String) : Option Float :=
  (parseHex s).map fun n => Float.ofBits n.toUInt64

def hexOfFloat (x : Float) : String := toHex16 x.toBits.toNat

abbrev P := StateT (List String) (Except String)

def tok : P String := do
  match (← get) with
  | [] => throw "unexpected end of line"
  | t :: ts => set ts; pure t

def nat : P Nat := do
  let t ← tok
  match t.toNat? with
  | some n => pure n
  | none => throw s!"bad nat {t}"

def int : P Int := do
  let t ← tok
  match t.toInt? with
  | some n => pure n
  | none => throw s!"bad int {t}"

def f64 : P Float := do
  let t ← tok
  match floatOfHex t with
  | some x => pure x
  | none => throw s!"bad float {t}"

def sc {α} [Scalar α] : P α := do pure (Scalar.ofF64 (← f64))

def many {β} (p : P β) : Nat → P (List β)
  | 0 => pure []
  | n+1 => do let x ← p; let xs ← many p n; pure (x :: xs)

/-- length-prefixed list -/
def listOf {β} (p : P β) : P (List β) := do let n ← nat; many p n

def scs {α} [Scalar α] : P (List α) := listOf sc

def bool : P Bool := do
  let t ← tok
  if t = "1" then pure true else if t = "0" then pure false else throw s!"bad bool {t}"

def outS {α} [Scalar α] (x : α) : String := hexOfFloat (Scalar.toF64 x)
def outL {α} [Scalar α] (xs : List α) : String :=
  " ".intercalate (toString xs.length :: xs.map outS)
def outB (b : Bool) : String := if b then "1" else "0"
def outBs (bs : List Bool) : String := " ".intercalate (toString bs.length :: bs.map outB)
def outNs (ns : List Nat) : String := " ".intercalate (toString ns.length :: ns.map toString)

def run {β} (p : P β) (toks : List String) : Except String β := (p.run toks).map (·.1)

end Wire
