/-
  Model of the checkpoint-file bookkeeping of an `Aspire` instance (src/aspire/aspire.py: `fit`,
  `sample_posterior`, `auto_checkpoint`, `resume_from_file`).  Core Lean only; pure state machine.

  Proposals are identified by a version number (every `fit` produces a new one).  A file holds an optional
  proposal version, an optional configuration naming a sampler, and an optional checkpoint tagged with the
  proposal version its particles were weighted under and the sampler that wrote it.
-/
namespace Model

inductive SamplerKind | importance | smc
  deriving DecidableEq, Repr

structure CkFile where
  flow : Option Nat := none
  /-- `aspire_config` present? and the `sampler_type` it names (none: config written by `fit` before any sampling) -/
  hasConfig : Bool := false
  cfgSampler : Option SamplerKind := none
  /-- checkpoint: (proposal version the particles were weighted under, sampler that wrote it) -/
  ckpt : Option (Nat × SamplerKind) := none
  deriving DecidableEq, Repr

structure Dflt where
  path : Nat
  saveConfig : Bool
  savedConfig : Bool := false
  savedFlow : Bool := false
  deriving DecidableEq, Repr

structure Sess where
  /-- in-memory proposal version (`none`: no proposal yet) -/
  memFlow : Option Nat := none
  nextVersion : Nat := 1
  lastSampler : Option SamplerKind := none
  files : List (Nat × CkFile) := []
  /-- `_checkpoint_defaults`, innermost context first -/
  dstack : List Dflt := []
  /-- primed by `resume_from_file`: checkpoint to resume from and the sampler to use by default -/
  resumeFrom : Option (Nat × SamplerKind) := none
  resumeSampler : Option SamplerKind := none
  deriving Repr

def getFile (fs : List (Nat × CkFile)) (p : Nat) : CkFile :=
  match fs.find? (·.1 == p) with
  | some (_, f) => f
  | none => {}

def setFile (fs : List (Nat × CkFile)) (p : Nat) (f : CkFile) : List (Nat × CkFile) :=
  (p, f) :: fs.filter (·.1 != p)

inductive SOp
  /-- `fit(samples, checkpoint_path=path, overwrite=…)` -/
  | fit (path : Option Nat) (overwrite : Bool)
  /-- `sample_posterior(sampler=…, checkpoint_path=path)`; `completed = false`: the run is interrupted after
      `ckptsBefore` checkpoints have been written (0 = before its first checkpoint) -/
  | sample (s : SamplerKind) (path : Option Nat) (completed : Bool) (ckptsBefore : Nat)
  | enter (path : Nat) (saveConfig : Bool)
  | exit
  /-- `Aspire.resume_from_file(path)`: a NEW instance built from the file replaces the session's instance -/
  | resume (path : Nat)
  deriving Repr

/-- the defaults currently in force -/
def topDflt (s : Sess) : Option Dflt := s.dstack.head?

def setTop (s : Sess) (d : Dflt) : Sess :=
  match s.dstack with
  | [] => s
  | _ :: rest => { s with dstack := d :: rest }

def stepFit (s : Sess) (path : Option Nat) (overwrite : Bool) : Sess :=
  let v := s.nextVersion
  let s := { s with memFlow := some v, nextVersion := v + 1 }
  let d := topDflt s
  let (path, saveCfg) := match path, d with
    | some p, _ => (some p, true)
    | none, some d => (some d.path, d.saveConfig)
    | none, none => (none, true)
  match path with
  | none => s
  | some p =>
    let f := getFile s.files p
    let savedCfg := match d with | some d => d.savedConfig | none => false
    -- config (without sampler section) once per context
    let f := if saveCfg && !savedCfg then { f with hasConfig := true, cfgSampler := s.lastSampler } else f
    let s := if saveCfg && !savedCfg then (match d with | some d => setTop s { d with savedConfig := true } | none => s) else s
    -- flow only if missing or overwrite=True
    let f := match f.flow with
      | some _ => if overwrite then { f with flow := some v } else f
      | none => { f with flow := some v }
    { s with files := setFile s.files p f }

def stepSample (s : Sess) (k : SamplerKind) (path : Option Nat) (completed : Bool) (ckptsBefore : Nat) : Sess :=
  -- a resumed instance turns the default sampler into the one that wrote the checkpoint
  let k := match k, s.resumeSampler with
    | .importance, some r => r
    | k, _ => k
  let s := { s with lastSampler := some k }
  let d := topDflt s
  let (path, saveCfg) := match path, d with
    | some p, _ => (some p, true)
    | none, some d => (some d.path, d.saveConfig)
    | none, none => (none, true)
  match path with
  | none => { s with resumeFrom := s.resumeFrom }
  | some p =>
    let f := getFile s.files p
    let f := if saveCfg then { f with hasConfig := true, cfgSampler := some k } else f
    let s := if saveCfg then (match d with | some d => setTop s { d with savedConfig := true } | none => s) else s
    -- the current proposal replaces the one in the file (every run; the `saved_flow` flag only suppresses the
    -- second write after sampling)
    let writeFlow := s.memFlow.isSome
    let f := if writeFlow then { f with flow := s.memFlow } else f
    let s := if writeFlow then (match topDflt s with | some d => setTop s { d with savedFlow := true } | none => s) else s
    -- checkpoints: only samplers that support it; the particles are (re)weighted under the in-memory proposal
    let wrote := match k with
      | .smc => completed || 0 < ckptsBefore
      | .importance => false
    let f := match s.memFlow with
      | some v => if wrote then { f with ckpt := some (v, k) } else f
      | none => f
    { s with files := setFile s.files p f }

def stepResume (s : Sess) (p : Nat) : Option Sess :=
  let f := getFile s.files p
  if !f.hasConfig then none            -- "Config path not found"
  else match f.flow with
    | none => none                     -- "Flow path not found"
    | some v =>
      some { memFlow := some v, nextVersion := s.nextVersion, lastSampler := none, files := s.files,
             dstack := [{ path := p, saveConfig := false }],
             resumeFrom := f.ckpt,
             resumeSampler := match f.ckpt with
               | some (_, ks) => (match f.cfgSampler with | some c => some c | none => some ks)
               | none => none }

/-- one operation; `none` = the operation raises (state unchanged by the caller) -/
def sstep (s : Sess) : SOp → Option Sess
  | .fit p o => some (stepFit s p o)
  | .sample k p c n => some (stepSample s k p c n)
  | .enter p sc => some { s with dstack := { path := p, saveConfig := sc } :: s.dstack }
  | .exit => some { s with dstack := s.dstack.tail }
  | .resume p => stepResume s p

def srun (s : Sess) : List SOp → Sess
  | [] => s
  | op :: rest => match sstep s op with
    | some s' => srun s' rest
    | none => srun s rest

/-- **self-consistency of a file**: the stored proposal is the one the checkpoint's particles were weighted under
    and the stored configuration names the sampler that wrote the checkpoint -/
def Consistent (f : CkFile) : Bool :=
  match f.ckpt with
  | none => true
  | some (v, k) => (f.flow == some v) && (f.cfgSampler == some k)

def AllConsistent (s : Sess) : Bool := s.files.all fun pf => Consistent pf.2

end Model
