/-
  Model of the sample containers of `src/aspire/samples.py` as separate columns (as in the
  code) and of the row-preserving operations: `__getitem__`, `concatenate`, pickling
  (`__getstate__/__setstate__`), `to_dict/from_dict`.  Core Lean only; values are abstract.
-/
namespace Model

inductive Cls | base | samples | smc
  deriving DecidableEq, Repr

/-- A sample set stored column-wise.  `X` = one row of coordinates, `V` = a scalar. -/
structure SampleSet (X V : Type) where
  cls : Cls
  x : List X
  ll : Option (List V) := none
  lp : Option (List V) := none
  lq : Option (List V) := none
  /-- `Samples` only: per-row derived weight fields -/
  logW : Option (List V) := none
  weights : Option (List V) := none
  /-- set-level scalars (`log_evidence`, `log_evidence_error`; `Samples` and `SMCSamples`) -/
  logZ : Option V := none
  logZerr : Option V := none
  /-- `Samples` only -/
  evidence : Option V := none
  evidenceErr : Option V := none
  ess : Option V := none
  /-- `SMCSamples` only -/
  beta : Option V := none

/-- One row with everything the library stores for it. -/
structure Row (X V : Type) where
  x : X
  ll : Option V
  lp : Option V
  lq : Option V
  logW : Option V
  weight : Option V

variable {X V : Type}

def colAt (c : Option (List V)) (i : Nat) : Option V := c.bind (·[i]?)

/-- abstraction: the `i`-th row of a sample set -/
def rowAt (S : SampleSet X V) (i : Nat) : Option (Row X V) :=
  (S.x[i]?).map fun xi =>
    { x := xi, ll := colAt S.ll i, lp := colAt S.lp i, lq := colAt S.lq i,
      logW := colAt S.logW i, weight := colAt S.weights i }

/-- well-formed: every present column has one entry per row -/
def colOK (n : Nat) (c : Option (List V)) : Prop := ∀ l, c = some l → l.length = n
def WF (S : SampleSet X V) : Prop :=
  colOK S.x.length S.ll ∧ colOK S.x.length S.lp ∧ colOK S.x.length S.lq ∧
  colOK S.x.length S.logW ∧ colOK S.x.length S.weights

/-- gather: `col[idx]` for an index list (what numpy/torch/jax fancy indexing, slicing and
    boolean masks reduce to once the selector is normalised to row numbers) -/
def pick {A : Type} (idxs : List Nat) (col : List A) : List A := idxs.filterMap (col[·]?)

def pickO (idxs : List Nat) (c : Option (List V)) : Option (List V) := c.map (pick idxs)

/-- selectors of `__getitem__`, normalised to the list of selected row numbers -/
inductive Sel
  | idxs (l : List Nat)              -- integer index / index array (already non-negative)
  | slice (start stop step : Nat)    -- `start:stop:step`, step ≥ 1, already clipped to [0, n]
  | mask (m : List Bool)

def sliceIdxs (start stop step fuel : Nat) : List Nat :=
  match fuel with
  | 0 => []
  | fuel+1 => if start < stop then start :: sliceIdxs (start + step) stop step fuel else []

def maskIdxs : List Bool → Nat → List Nat
  | [], _ => []
  | b :: bs, i => if b then i :: maskIdxs bs (i+1) else maskIdxs bs (i+1)

def Sel.toIdxs : Sel → List Nat
  | .idxs l => l
  | .slice a b s => sliceIdxs a b (if s = 0 then 1 else s) b
  | .mask m => maskIdxs m 0

/-- `__getitem__` of the three classes.  `essFn` is the ESS recomputation
    (`Samples.__getitem__` recomputes it from the selected log-weights). -/
def selBase (sel : List Nat) (S : SampleSet X V) : SampleSet X V :=
  { cls := S.cls, x := pick sel S.x, ll := pickO sel S.ll, lp := pickO sel S.lp, lq := pickO sel S.lq }

def select (essFn : List V → V) (evFn : SampleSet X V → SampleSet X V) (sel : List Nat)
    (S : SampleSet X V) : SampleSet X V :=
  let base : SampleSet X V := selBase sel S
  match S.cls with
  | .base => base
  | .smc => { base with beta := S.beta, logZ := S.logZ, logZerr := S.logZerr }
  | .samples =>
    -- the constructor recomputes everything from the selected rows (`evFn`), then the
    -- carried fields are written over it
    let c := evFn base
    match S.logW with
    | none => { c with logZ := S.logZ, logZerr := S.logZerr }
    | some lw =>
      let lw' := pick sel lw
      { c with logZ := S.logZ, logZerr := S.logZerr, evidence := S.evidence, evidenceErr := S.evidenceErr,
               logW := some lw', weights := pickO sel S.weights, ess := some (essFn lw') }

/-- all-or-nothing concatenation of an optional column -/
def catO (cols : List (Option (List V))) : Option (List V) :=
  if cols.all Option.isSome then some ((cols.filterMap id).flatten) else none

/-- `BaseSamples.concatenate` (classmethod: the result is rebuilt by the class constructor,
    `evFn` = what `Samples.__post_init__` computes; SMC fields are *not* carried). -/
def catBase (cls : Cls) (parts : List (SampleSet X V)) : SampleSet X V :=
  { cls := cls, x := (parts.map (·.x)).flatten, ll := catO (parts.map (·.ll)),
    lp := catO (parts.map (·.lp)), lq := catO (parts.map (·.lq)) }

def concat (cls : Cls) (evFn : SampleSet X V → SampleSet X V) (parts : List (SampleSet X V)) :
    SampleSet X V :=
  let base : SampleSet X V := catBase cls parts
  match cls with
  | .samples => evFn base
  | _ => base

/-- pickling: `__getstate__` copies `__dict__`, `__setstate__` restores it (the namespace is
    re-derived from `x`) — every field of the model is carried unchanged -/
def pickleRoundTrip (S : SampleSet X V) : SampleSet X V := S

/-- `to_dict` followed by `from_dict`: the init fields go through the constructor (which
    recomputes the derived `Samples` fields with `evFn`), non-init keys are dropped. -/
def coreOf (S : SampleSet X V) : SampleSet X V :=
  { cls := S.cls, x := S.x, ll := S.ll, lp := S.lp, lq := S.lq }

def dictRoundTrip (evFn : SampleSet X V → SampleSet X V) (S : SampleSet X V) : SampleSet X V :=
  let base : SampleSet X V := coreOf S
  match S.cls with
  | .base => base
  | .smc => { base with beta := S.beta, logZ := S.logZ, logZerr := S.logZerr }
  | .samples =>
    match S.ll, S.lp, S.lq with
    | some _, some _, some _ => evFn base
    | _, _, _ => { base with logZ := S.logZ, logZerr := S.logZerr }

end Model
