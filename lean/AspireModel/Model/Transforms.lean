import AspireModel.Model.Num
/-
  Model of the parameter transforms of `src/aspire/transforms.py` and of `utils.logit` / `utils.sigmoid`,
  acting on one row of coordinates (a batch is a list of rows; every transform is row-wise).
  Core Lean only, generic in the scalar.  The standard normal CDF machinery of the probit transform
  (`scipy.special.erf`, `erfinv`) is a parameter: `erf`, `erfinv : α → α`.

  Every function returns the transformed row together with the log-Jacobian contribution of that row
  (`sum(-1)` over the coordinates), exactly as the code does.
-/
namespace Model
variable {α : Type} [Num α] [DecidableLT α] [DecidableLE α]

def clipS (x lo hi : α) : α := if x < lo then lo else if hi < x then hi else x

/-- `utils.logit(x, eps)` on one coordinate: value and log-Jacobian term -/
def logit1 (eps : Option α) (x : α) : α × α :=
  let x := match eps with
    | some e => clipS x e (1 - e)
    | none => x
  (ExpLog.log x - ExpLog.log (1 - x), -ExpLog.log x - ExpLog.log (1 - x))

/-- `utils.sigmoid(x)` on one coordinate -/
def sigmoid1 (y : α) : α × α :=
  let x := 1 / (1 + ExpLog.exp (-y))
  (x, ExpLog.log x + ExpLog.log (1 - x))

/-- the constants `sqrt(2)` and `log(2π)` of the probit transform -/
structure ProbitConsts (α : Type) where
  sqrt2 : α
  log2pi : α
  erf : α → α
  erfinv : α → α

/-- `ProbitTransform.forward` on one unit-interval coordinate -/
def probit1 (c : ProbitConsts α) (eps : α) (u : α) : α × α :=
  let u := clipS u eps (1 - eps)
  let y := c.erfinv (two * u - 1) * c.sqrt2
  (y, half' * (c.log2pi + y * y))
where half' : α := 1 / two

/-- `ProbitTransform.inverse` on one coordinate -/
def probitInv1 (c : ProbitConsts α) (y : α) : α × α :=
  (half' * (1 + c.erf (y / c.sqrt2)), -(half' * (c.log2pi + y * y)))
where half' : α := 1 / two

/-- floor-modulo of numpy/torch/jax `%` for a positive divisor, via `floor` (a parameter) -/
def fmod (floor : α → α) (a w : α) : α := a - w * floor (a / w)

/-- `PeriodicTransform.forward` / `inverse` on one coordinate (the same map, zero log-Jacobian) -/
def periodic1 (mod : α → α → α) (lo hi x : α) : α := lo + mod (x - lo) (hi - lo)

/-- what happens to one coordinate in the composite transform -/
inductive CoordKind (α : Type)
  | free
  | periodic (lo hi : α)
  | bounded (lo hi : α)

inductive BoundedKind | logit | probit
  deriving DecidableEq

structure TCfg (α : Type) where
  kinds : List (CoordKind α)
  bounded : BoundedKind
  eps : α
  /-- fitted affine stage (`mean`, `std` per coordinate) or `none` when `affine_transform=False` -/
  affine : Option (List α × List α)
  pc : ProbitConsts α
  mod : α → α → α

/-- forward map of one coordinate through the periodic and bounded stages: value and log-Jacobian term -/
def fwdCoord (c : TCfg α) : CoordKind α → α → α × α
  | .free, x => (x, 0)
  | .periodic lo hi, x => (periodic1 c.mod lo hi x, 0)
  | .bounded lo hi, x =>
    let u := (x - lo) / (hi - lo)
    let (y, lj) := match c.bounded with
      | .logit => logit1 (some c.eps) u
      | .probit => probit1 c.pc c.eps u
    (y, lj + -ExpLog.log (hi - lo))

def invCoord (c : TCfg α) : CoordKind α → α → α × α
  | .free, y => (y, 0)
  | .periodic lo hi, y => (periodic1 c.mod lo hi y, 0)
  | .bounded lo hi, y =>
    let (u, lj) := match c.bounded with
      | .logit => sigmoid1 y
      | .probit => probitInv1 c.pc y
    ((hi - lo) * u + lo, lj + ExpLog.log (hi - lo))

def zipKinds (f : CoordKind α → α → α × α) : List (CoordKind α) → List α → List (α × α)
  | k :: ks, x :: xs => f k x :: zipKinds f ks xs
  | _, _ => []

/-- affine stage on one row: `(x - mean)/std`, log-Jacobian `-Σ log|std|` -/
def affineFwd (mean std : List α) (x : List α) : List α × α :=
  (List.zipWith (fun (xm : α × α) s => (xm.1 - xm.2) / s) (x.zip mean) std,
   -sumL (std.map fun s => ExpLog.log (absS s)))

def affineInv (mean std : List α) (y : List α) : List α × α :=
  (List.zipWith (fun (ys : α × α) m => ys.1 * ys.2 + m) (y.zip std) mean,
   sumL (std.map fun s => ExpLog.log (absS s)))

/-- `CompositeTransform.forward` on one row: periodic and bounded stages coordinate-wise, then affine -/
def forwardRow (c : TCfg α) (x : List α) : List α × α :=
  let r := zipKinds (fwdCoord c) c.kinds x
  let y := r.map (·.1)
  let lj := sumL (r.map (·.2))
  match c.affine with
  | none => (y, lj)
  | some (m, s) => let (z, la) := affineFwd m s y; (z, lj + la)

/-- `CompositeTransform.inverse` on one row: affine first, then bounded and periodic -/
def inverseRow (c : TCfg α) (z : List α) : List α × α :=
  let (y, la) := match c.affine with
    | none => (z, (0 : α))
    | some (m, s) => affineInv m s z
  let r := zipKinds (invCoord c) c.kinds y
  (r.map (·.1), la + sumL (r.map (·.2)))

/-- `AffineTransform.fit`: column means and standard deviations (`ddof` = 0 for numpy/jax, 1 for torch's
    `Tensor.std`), as computed by the array library; returned for the caller to store in `TCfg.affine` -/
def colMean (rows : List (List α)) (j : Nat) : α :=
  sumL (rows.map fun r => r.getD j 0) / (rows.length : α)

def colStd (ddof : Nat) (rows : List (List α)) (j : Nat) : α :=
  let m := colMean rows j
  ExpLog.sqrt (sumL (rows.map fun r => (r.getD j 0 - m) * (r.getD j 0 - m)) / ((rows.length - ddof : Nat) : α))

/-- `CompositeTransform.fit`: the stages before the affine one are applied to the data, the affine stage is
    fitted on their output, and the forward image of the data is returned -/
def fitRows (ddof : Nat) (c : TCfg α) (rows : List (List α)) : TCfg α × List (List α) :=
  match c.affine with
  | none => (c, rows.map fun r => (forwardRow c r).1)
  | some _ =>
    let c0 := { c with affine := none }
    let pre := rows.map fun r => (forwardRow c0 r).1
    let d := c.kinds.length
    let mean := (List.range d).map (colMean pre)
    let std := (List.range d).map (colStd ddof pre)
    let c1 := { c with affine := some (mean, std) }
    (c1, rows.map fun r => (forwardRow c1 r).1)

end Model

namespace Model
variable {α : Type} [Num α] [DecidableLT α] [DecidableLE α]

/-- `Flow.log_prob(x)` of both back-ends: the neural density `base` (log-density on the rescaled space,
    a parameter) evaluated at the forward image plus the data transform's log-Jacobian -/
def flowLogProb (base : List α → α) (c : TCfg α) (x : List α) : α :=
  let (z, lj) := forwardRow c x
  base z + lj

/-- `Flow.sample_and_log_prob`: a draw `z` of the neural flow (with its own log-density `base z`) is mapped
    back through the data transform; the returned log-density is `base z − log|det dx/dz|` -/
def flowSampleAndLogProb (base : List α → α) (c : TCfg α) (z : List α) : List α × α :=
  let (x, lj) := inverseRow c z
  (x, base z - lj)

end Model
