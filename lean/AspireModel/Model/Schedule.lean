import AspireModel.Model.Tempering
/-
  Model of `SMCSampler.determine_beta`, `current_target_efficiency` and the schedule
  part of the loop in `SMCSampler.sample` (src/aspire/samplers/smc/base.py).
  The sample efficiency of the current population as a function of the trial temperature
  is a parameter `eff : α → α`, so "every population" = "every `eff`".
-/
namespace Model
variable {α : Type} [Num α] [DecidableLT α] [DecidableLE α]

structure BetaCfg (α : Type) where
  adaptive : Bool
  adaptiveMinStep : Bool
  tol : α
  /-- scalar target, or the lower end of a ramp -/
  targetLo : α
  targetHi : α
  ramp : Bool
  rate : α

def half : α := 1 / two

/-- `b ** r` for `b ≥ 0` (Python float power), `r = 1` exact -/
def powS (b r : α) : α :=
  if r < 1 ∨ 1 < r then
    (if b < 0 ∨ 0 < b then ExpLog.exp (r * ExpLog.log b) else (if r < 0 ∨ 0 < r then 0 else 1))
  else b

/-- `current_target_efficiency(β)` -/
def currentTarget (c : BetaCfg α) (β : α) : α :=
  if c.ramp then c.targetLo + (c.targetHi - c.targetLo) * powS β c.rate else c.targetLo

/-- the bisection `while beta_max - beta_min > tol` (fuel = max number of halvings) -/
def bisect (eff : α → α) (target tol : α) : Nat → α → α → α × α
  | 0, lo, hi => (lo, hi)
  | f+1, lo, hi =>
    if tol < hi - lo then
      let t := half * (hi + lo)
      if target ≤ eff t then bisect eff target tol f t hi else bisect eff target tol f lo t
    else (lo, hi)

def maxS (a b : α) : α := if a < b then b else a     -- Python max(a, b)
def minS (a b : α) : α := if b < a then b else a     -- Python min(a, b)

/-- number of fixed steps recovered from the step size: `round(1/step)` is a parameter of the
    caller; the fixed rule is `β' = min((k+1)/n, 1)` with `k = round(β n)` -/
structure FixedRule (α : Type) where
  next : α → α → α    -- β, step ↦ β'

/-- the fixed-schedule rule of the code: the step index is recovered from `β`, so there is no
    accumulation of rounding error -/
def fixedNext (roundNat : α → Nat) (β step : α) : α :=
  let n := roundNat (1 / step)
  let k := roundNat (β * (n : α))
  minS (((k + 1 : Nat) : α) / (n : α)) 1

/-- the pinned (pre-fix) rule, kept for the negative theorems: `β += step; clamp` -/
def fixedNextAccum (β step : α) : α :=
  let b := β + step
  if 1 ≤ b then 1 else b

/-- the prologue of `SMCSampler.sample` that fixes the initial minimum step and whether it adapts:
    `min_step=None, max_n_steps=None` → `(0, False)`; `min_step=None, max_n_steps=m` → `(1/m, True)`;
    an explicit `min_step` is used as it is and does not adapt -/
def initMinStep (minStep : Option α) (maxSteps : Option Nat) : α × Bool :=
  match minStep with
  | none =>
    match maxSteps with
    | none => (0, false)
    | some m => (1 / ((m : Nat) : α), true)
  | some s => (s, false)

inductive BetaErr | zeroDivision
  deriving Repr, DecidableEq

/-- `determine_beta`: returns the new temperature and the new minimum step. -/
def determineBeta (c : BetaCfg α) (roundNat : α → Nat) (eff : α → α) (fuel : Nat)
    (β step minStep : α) : Except BetaErr (α × α) :=
  if !c.adaptive then
    .ok (fixedNext roundNat β step, minStep)
  else
    let target := currentTarget c β
    let lo0 := if target ≤ eff 1 then 1 else β
    let star0 := (bisect eff target c.tol fuel lo0 1).1
    -- the bisection could not resolve a step: take the smallest resolvable one
    let star := if star0 ≤ β then minS (β + c.tol) 1 else star0
    let minStep' :=
      if c.adaptiveMinStep ∧ star < 1 then minStep * (1 - β) / (1 - star) else minStep
    .ok (minS (maxS star (β + minStep')) 1, minStep')

/-- the pinned (pre-fix) adaptive branch: divides by `1 − β*` unconditionally and may
    return `β' = β` -/
def determineBetaPinned (c : BetaCfg α) (eff : α → α) (fuel : Nat)
    (β step minStep : α) : Except BetaErr (α × α) :=
  if !c.adaptive then .ok (fixedNextAccum β step, minStep)
  else
    let target := currentTarget c β
    let lo0 := if target ≤ eff 1 then 1 else β
    let star := (bisect eff target c.tol fuel lo0 1).1
    if c.adaptiveMinStep then
      if 1 - star < 0 ∨ 0 < 1 - star then
        let m := minStep * (1 - β) / (1 - star)
        .ok (minS (maxS star (β + m)) 1, m)
      else .error .zeroDivision
    else .ok (minS (maxS star (β + minStep)) 1, minStep)

end Model
