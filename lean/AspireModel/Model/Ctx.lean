/-
  Model of the two context managers of an `Aspire` instance (core Lean only):
    * `enable_pool` → `utils.PoolHandler.__enter__/__exit__`: the instance's `log_likelihood` (and, with
      `parallelize_prior`, `log_prior`) is replaced by a `functools.partial` for the body and put back on
      every exit path; the pool is closed+joined on exit iff `close_pool`;
    * `Aspire.auto_checkpoint`: `_checkpoint_defaults` is replaced by a fresh dictionary for the body and
      the previous value (or absence) is put back in a `finally`.
  Callables are identity tokens (`Nat`); a fresh token is a new `partial` object.
-/
namespace Model

structure Defaults where
  path : Nat
  every : Nat
  saveConfig : Bool
  saveFlow : Bool
  savedConfig : Bool := false
  savedFlow : Bool := false
  deriving DecidableEq, Repr

structure Inst where
  ll : Nat
  lp : Nat
  defaults : Option Defaults
  fresh : Nat
  deriving DecidableEq, Repr

inductive PoolEv
  | close (pool : Nat)
  | join (pool : Nat)
  /-- an observation of the instance made by the body (`obs`) -/
  | seen (s : Inst)
  deriving DecidableEq, Repr

inductive Prog
  /-- an action that does not touch the instance -/
  | act
  /-- what `fit` / `sample_posterior` do to the defaults in force: set the `saved_*` flags -/
  | touch
  | raise
  /-- the body looks at the instance (its callables and checkpoint defaults) -/
  | obs
  | seq (a b : Prog)
  | pool (id : Nat) (close parPrior : Bool) (body : Prog)
  | auto (path every : Nat) (saveConfig saveFlow : Bool) (body : Prog)
  deriving Repr

/-- run a program on an instance: (an exception escaped?, instance afterwards, pool events) -/
def exec : Prog → Inst → Bool × Inst × List PoolEv
  | .act, s => (false, s, [])
  | .touch, s =>
    (false, { s with defaults := s.defaults.map fun d => { d with savedConfig := true, savedFlow := true } }, [])
  | .raise, s => (true, s, [])
  | .obs, s => (false, s, [PoolEv.seen s])
  | .seq a b, s =>
    let (r, s1, l1) := exec a s
    if r then (true, s1, l1)
    else
      let (r2, s2, l2) := exec b s1
      (r2, s2, l1 ++ l2)
  | .pool id close par body, s =>
    let s1 : Inst := { s with ll := s.fresh, lp := if par then s.fresh + 1 else s.lp, fresh := s.fresh + 2 }
    let (r, s2, l) := exec body s1
    -- `__exit__` runs on every exit path
    (r, { s2 with ll := s.ll, lp := s.lp }, l ++ (if close then [PoolEv.close id, PoolEv.join id] else []))
  | .auto path every sc sf body, s =>
    let s1 : Inst := { s with defaults := some { path := path, every := every, saveConfig := sc, saveFlow := sf } }
    let (r, s2, l) := exec body s1
    -- `finally:` previous value (or absence) is put back
    (r, { s2 with defaults := s.defaults }, l)

/-- the pools a program asks to close (`close_pool=True`) -/
def asksClose : Prog → List Nat
  | .seq a b => asksClose a ++ asksClose b
  | .pool id close _ body => (if close then [id] else []) ++ asksClose body
  | .auto _ _ _ _ body => asksClose body
  | _ => []

end Model
