/-
  Model of how a user-supplied random generator is routed to the component that consumes it
  (`Aspire.sample_posterior` keyword split, `SMCSampler.__init__`, `MiniPCNSMC.sample`,
  `MiniPCN.sample`, …).  Core Lean only; pure decision logic.

  The per-sampler facts are a table that the harness extracts from the CURRENT source on every run
  (signatures by `inspect.signature`, the overwrite behaviour by a probe), so this part of the tie is
  regeneration: the theorem is stated for every table, and the check evaluates the decidable
  well-formedness predicate on the extracted one.
-/
namespace Model

/-- facts about one sampler class -/
structure SamplerTbl where
  /-- `__init__` accepts `rng` -/
  initHasRng : Bool
  /-- `sample` accepts `rng` -/
  sampleHasRng : Bool
  /-- `sample(rng=None)` installs a fresh generator even though the constructor was given one -/
  sampleOverwrites : Bool
  /-- the sampler consumes `self.rng` / the `rng` argument at all (resampling, kernel) -/
  consumesRng : Bool
  deriving DecidableEq, Repr

/-- the three documented ways of supplying the random source -/
inductive Route | ctor | call | top
  deriving DecidableEq, Repr

inductive Src | user | ambient
  deriving DecidableEq, Repr

/-- `sample_posterior(**kwargs)`: a keyword goes to the constructor iff the constructor's signature has it,
    to `sample` otherwise -/
def topSplit (t : SamplerTbl) : Bool × Bool := (t.initHasRng, !t.initHasRng)

/-- where the user's generator is handed in: (to the constructor?, to `sample`?) -/
def handedTo (t : SamplerTbl) : Route → Bool × Bool
  | .ctor => (true, false)
  | .call => (false, true)
  | .top => topSplit t

/-- which source the sampler ends up drawing from -/
def usedSrc (t : SamplerTbl) (r : Route) : Src :=
  let (c, s) := handedTo t r
  let afterCtor : Src := if c && t.initHasRng then .user else .ambient
  if s && t.sampleHasRng then .user
  else if t.sampleOverwrites then .ambient
  else afterCtor

/-- the route is usable at all: the class accepts the keyword where the route puts it -/
def accepted (t : SamplerTbl) (r : Route) : Bool :=
  let (c, s) := handedTo t r
  (!c || t.initHasRng) && (!s || t.sampleHasRng)

/-- decidable well-formedness of a sampler's wiring: whatever the route, an accepted generator is the one in use -/
def WiringOK (t : SamplerTbl) : Bool :=
  [Route.ctor, Route.call, Route.top].all fun r => !(accepted t r) || decide (usedSrc t r = .user)

end Model
