import AspireModel.Model.Weights
/-
  Model of the tempering arithmetic of `SMCSamples` (src/aspire/samples.py):
  `log_p_t`, `unnormalized_log_weights`, `log_evidence_ratio`,
  `log_evidence_ratio_variance`, `log_weights`, the probability vector of `resample`,
  and of the kernel targets `SMCSampler.log_prob` / `MCMCSampler.log_prob`.
-/
namespace Model
variable {α : Type} [Num α] [DecidableLT α] [DecidableLE α]

/-- `SMCSamples.log_p_t`: `(1-β) log q + β (log L + log π)` -/
def logPt (β lq ll lp : α) : α := (1 - β) * lq + β * (ll + lp)

/-- one entry of `unnormalized_log_weights(β')` for a population at temperature `β` -/
def unnorm1 (β β' ll lp lq : α) : α := (β - β') * lq + (β' - β) * (ll + lp)

def unnormLogW (β β' : α) : List α → List α → List α → List α
  | l :: ls, p :: ps, q :: qs => unnorm1 β β' l p q :: unnormLogW β β' ls ps qs
  | _, _, _ => []

/-- `log_evidence_ratio(β') = logsumexp(unnormalised) − log N` -/
def logEvidenceRatio (β β' : α) (ll lp lq : List α) : α :=
  let lw := unnormLogW β β' ll lp lq
  logsumexp lw - ExpLog.log (lw.length : α)

/-- `log_evidence_ratio_variance(β')`: delta method on max-shifted weights;
    `none` models the `nan` returned when the mean weight is 0 -/
def logEvidenceRatioVar (β β' : α) (ll lp lq : List α) : Option α :=
  let lw := unnormLogW β β' ll lp lq
  let n : α := (lw.length : α)
  let u := shiftedWeights lw
  let mean := sumL u / n
  let var := sumL (u.map fun v => (v - mean) * (v - mean)) / n
  if mean < 0 ∨ 0 < mean then some (var / (n * (mean * mean))) else none

/-- `log_weights(β')` = unnormalised + log-evidence-ratio (sic: the code *adds* it; every consumer
    is invariant under a constant shift) -/
def logWeights (β β' : α) (ll lp lq : List α) : List α :=
  let lw := unnormLogW β β' ll lp lq
  let r := logsumexp lw - ExpLog.log (lw.length : α)
  lw.map (· + r)

/-- probability vector handed to `rng.choice` by `SMCSamples.resample` -/
def resampleP (β β' : α) (ll lp lq : List α) : List α :=
  let lw := logWeights β β' ll lp lq
  let z := logsumexp lw
  let w := lw.map fun v => ExpLog.exp (v - z)
  let tot := sumL w
  w.map fun v => v / tot

/-- sample efficiency `ESS/N` of the incremental weights for a move `β → β'`
    (`effective_sample_size(samples.log_weights(β')) / len(samples)`) -/
def effAt (β β' : α) (ll lp lq : List α) : α :=
  essOf (logWeights β β' ll lp lq) / ((unnormLogW β β' ll lp lq).length : α)

/-! ### kernel targets -/

/-- extended result of a target evaluation: `nan` is mapped to `−∞` by the SMC samplers -/
def nanToNegInf (isNan : α → Bool) (negInf : α) (v : α) : α := if isNan v then negInf else v

/-- `SMCSampler.log_prob(z, β)` at one point, given the pre-image's densities and the
    inverse transform's log-Jacobian `j = log|det dx/dz|` -/
def smcTarget (isNan : α → Bool) (negInf : α) (β lq ll lp j : α) : α :=
  nanToNegInf isNan negInf (logPt β lq ll lp + j)

/-- `MCMCSampler.log_prob(z)` -/
def mcmcTarget (ll lp j : α) : α := ll + lp + j

end Model
