import AspireModel.Model.Rows
/-
  Model of how samplers evaluate the user's functions and assemble populations
  (src/aspire/samplers/mcmc.py `draw_initial_samples`, `log_prob`; samplers/smc/*.py `mutate`;
  samplers/importance.py; samplers/base.py `log_likelihood` counter).  Core Lean only.

  The user's log-likelihood `L`, log-prior `π` and the proposal density `q` are parameters
  (deterministic functions of a point).  Every evaluation goes through `evalLP`, which mirrors the
  idiom used at every call site: attach `π` of the points first, then hand the set (now carrying
  the prior) to `L`, and count the points.
-/
namespace Model
variable {X V : Type}

/-- what the user's callables observe -/
inductive Event (X V : Type)
  | prior (pts : List X)
  /-- the likelihood is called on `pts`; `attached` is the log-prior column the sample set carries -/
  | like (pts : List X) (attached : Option (List V))

structure EvalState (X V : Type) where
  /-- `n_likelihood_evaluations` -/
  counter : Nat := 0
  events : List (Event X V) := []

/-- `samples.log_prior = π(samples); samples.log_likelihood = L(samples)` on the points `xs`
    (with an optional proposal column that is carried along untouched) -/
def evalLP (π L : X → V) (st : EvalState X V) (xs : List X) (lq : Option (List V)) :
    EvalState X V × SampleSet X V :=
  let lp := xs.map π
  let ll := xs.map L
  ({ counter := st.counter + xs.length,
     events := st.events ++ [Event.prior xs, Event.like xs (some lp)] },
   { cls := .smc, x := xs, ll := some ll, lp := some lp, lq := lq })

/-- only the prior (initial-draw rejection loop) -/
def evalP (π : X → V) (st : EvalState X V) (xs : List X) : EvalState X V × List V :=
  ({ st with events := st.events ++ [Event.prior xs] }, xs.map π)

/-- `mutate`'s re-evaluation of a kernel's output: q from the proposal, then prior, then likelihood -/
def reevaluate (π L q : X → V) (st : EvalState X V) (xs : List X) : EvalState X V × SampleSet X V :=
  evalLP π L st xs (some (xs.map q))

/-- the kernel target evaluation (`log_prob`): same idiom on the pre-images -/
def targetEval (π L q : X → V) (st : EvalState X V) (xs : List X) : EvalState X V × SampleSet X V :=
  evalLP π L st xs (some (xs.map q))

/-! ### initial population -/

/-- rows of one proposal batch with a finite prior, each still paired with its own proposal density -/
def keepFinite (finite : V → Bool) (π : X → V) : List (X × V) → List (X × V × V)
  | [] => []
  | (x, lq) :: rest =>
    let lp := π x
    if finite lp then (x, lq, lp) :: keepFinite finite π rest else keepFinite finite π rest

/-- `draw_initial_samples(n)`: draw batches until at least `n` finite-prior rows are collected,
    concatenate, trim to `n`; `none` if the supplied batches run out (the code would keep drawing).
    Returns the kept `(x, log q, log π)` rows and the number of batches consumed. -/
def drawInitialRows (finite : V → Bool) (π : X → V) (n : Nat) :
    List (List (X × V)) → List (X × V × V) → Nat → Option (List (X × V × V) × Nat)
  | batches, acc, used =>
    if n ≤ acc.length then some (acc.take n, used)
    else match batches with
      | [] => none
      | b :: rest => drawInitialRows finite π n rest (acc ++ keepFinite finite π b) (used + 1)

/-- the whole initial draw: rejection loop (prior only), then one likelihood call on the kept rows -/
def drawInitial (finite : V → Bool) (π L : X → V) (n : Nat) (batches : List (List (X × V)))
    (st : EvalState X V) : Option (EvalState X V × SampleSet X V) :=
  match drawInitialRows finite π n batches [] 0 with
  | none => none
  | some (rows, used) =>
    let st1 : EvalState X V :=
      { st with events := st.events ++ (batches.take used).map (fun b => Event.prior (b.map (·.1))) }
    let xs := rows.map (·.1)
    let lqs := rows.map (·.2.1)
    let lps := rows.map (·.2.2)
    let st2 : EvalState X V :=
      { counter := st1.counter + xs.length, events := st1.events ++ [Event.like xs (some lps)] }
    some (st2, { cls := .samples, x := xs, ll := some (xs.map L), lp := some lps, lq := some lqs })

/-- cached densities belong to the coordinates -/
def Coherent (L π q : X → V) (S : SampleSet X V) : Prop :=
  (∀ l, S.ll = some l → l = S.x.map L) ∧ (∀ l, S.lp = some l → l = S.x.map π) ∧
  (∀ l, S.lq = some l → l = S.x.map q)

end Model

namespace Model
variable {X V : Type}

/-- one evaluation request a sampler makes -/
inductive Call (X : Type)
  /-- initial-draw rejection loop: prior only -/
  | priorOnly (xs : List X)
  /-- prior then likelihood on the same points (`withQ`: the proposal density is evaluated too) -/
  | full (xs : List X) (withQ : Bool)
  /-- the single likelihood call that ends the initial draw: the kept rows already carry their prior -/
  | likeCarried (xs : List X)

/-- run a sampler's sequence of evaluation requests -/
def runCalls (π L q : X → V) : EvalState X V → List (Call X) → EvalState X V
  | st, [] => st
  | st, .priorOnly xs :: rest => runCalls π L q (evalP π st xs).1 rest
  | st, .full xs wq :: rest =>
    runCalls π L q (evalLP π L st xs (if wq then some (xs.map q) else none)).1 rest
  | st, .likeCarried xs :: rest =>
    runCalls π L q { counter := st.counter + xs.length,
                     events := st.events ++ [Event.like xs (some (xs.map π))] } rest

end Model
