import AspireModel.Model.Schedule
/-
  Model of the loop of `SMCSampler.sample` (src/aspire/samplers/smc/base.py) as a state machine,
  with checkpointing (`maybe_checkpoint`, `build_checkpoint_state`) and resume
  (`restore_from_checkpoint`).  Core Lean only.

  Everything the loop does not compute itself is a parameter:
    * `Kit` – the numerical operations on a population (schedule rule, ESS, ratio, variance,
      resampling by an index list): instantiated with `Model/Schedule`, `Model/Tempering`,
      `Model/Rows` by the driver, abstract in the theorems ("for every schedule rule");
    * `Step` – what the random stream and the MCMC kernel deliver in one iteration: the
      resampling indices and the mutated population ("for every kernel and every stream").
  A run that is interrupted is a run whose list of `Step`s ends early: the in-memory state is
  lost, the log of checkpoints written so far (`St.ckpts`, newest last = file content) survives.
-/
namespace Model

/-- numerical operations on a population `P` with scalars `S` -/
structure Kit (P S : Type) where
  /-- `determine_beta(samples, β, beta_step, min_step)` → `(β', min_step')` -/
  nextBeta : P → S → S → Except BetaErr (S × S)
  /-- `effective_sample_size(samples.log_weights(β'))` -/
  ess : P → S → S → S
  /-- `effective_sample_size(samples.log_weights(1.0))` -/
  essTarget : P → S → S
  /-- `current_target_efficiency(β')` -/
  effTarget : S → S
  /-- `samples.log_evidence_ratio(β')` -/
  ratio : P → S → S → S
  /-- `samples.log_evidence_ratio_variance(β')` -/
  var : P → S → S → S
  /-- `samples.resample(β', rng)` given the indices the stream produced -/
  resample : P → S → List Nat → P
  /-- `β == 1.0` -/
  isOne : S → Bool
  one : S
  size : P → Nat
  /-- `sum(log_norm_ratio)`, `sqrt(sum(log_norm_ratio_var))` -/
  sumS : List S → S
  rootSumS : List S → S

/-- one iteration's worth of external input: resampling indices and the kernel's output -/
structure Step (P : Type) where
  idx : List Nat
  mutated : P

structure Hist (P S : Type) where
  beta : List S := []
  ess : List S := []
  essTarget : List S := []
  effTarget : List S := []
  ratio : List S := []
  var : List S := []
  pops : List P := []

/-- the checkpoint payload (`build_checkpoint_state`): population, iteration, temperature,
    a copy of the history, the position in the random stream, and the current minimum step -/
structure Ckpt (P S : Type) where
  pop : P
  iter : Nat
  beta : S
  hist : Hist P S
  consumed : Nat
  minStep : S
  logZ : Option S := none

structure SmcCfg (S : Type) where
  /-- `checkpoint_every` (after defaulting); `none` = no callback at all -/
  every : Option Nat
  maxSteps : Option Nat
  nFinal : Option Nat
  storeHistory : Bool := true
  minStep0 : S

structure St (P S : Type) where
  pop : P
  beta : S
  iter : Nat
  minStep : S
  hist : Hist P S
  /-- number of `Step`s consumed so far (= position in the random stream) -/
  consumed : Nat
  /-- every checkpoint handed to the callback so far, oldest first -/
  ckpts : List (Ckpt P S) := []

variable {P S : Type}

def snapshot (st : St P S) (logZ : Option S := none) : Ckpt P S :=
  { pop := st.pop, iter := st.iter, beta := st.beta, hist := st.hist, consumed := st.consumed,
    minStep := st.minStep, logZ := logZ }

/-- `maybe_checkpoint(force)` -/
def maybeCheckpoint (cfg : SmcCfg S) (force : Bool) (st : St P S) (logZ : Option S := none) : St P S :=
  match cfg.every with
  | none => st
  | some e =>
    if force || (0 < e && st.iter % e == 0) then { st with ckpts := st.ckpts ++ [snapshot st logZ] }
    else st

/-- initial state of a fresh run on population `p0` (temperature 0) -/
def initSt (cfg : SmcCfg S) (zero : S) (p0 : P) : St P S :=
  { pop := p0, beta := zero, iter := 0, minStep := cfg.minStep0,
    hist := { pops := if cfg.storeHistory then [p0] else [] }, consumed := 0 }

/-- one pass through the body of `while True:`; the Boolean says whether the loop breaks -/
def iterate (k : Kit P S) (cfg : SmcCfg S) (st : St P S) (s : Step P) : Except BetaErr (St P S × Bool) := do
  let iter := st.iter + 1
  let (b, m) ← k.nextBeta st.pop st.beta st.minStep
  let h := st.hist
  let h : Hist P S :=
    { h with effTarget := h.effTarget ++ [k.effTarget b], beta := h.beta ++ [b],
             ess := h.ess ++ [k.ess st.pop st.beta b], essTarget := h.essTarget ++ [k.essTarget st.pop st.beta],
             ratio := h.ratio ++ [k.ratio st.pop st.beta b], var := h.var ++ [k.var st.pop st.beta b] }
  let _resampled := k.resample st.pop b s.idx
  let pop' := s.mutated
  let h := if cfg.storeHistory then { h with pops := h.pops ++ [pop'] } else h
  let st' : St P S := { st with pop := pop', beta := b, iter := iter, minStep := m, hist := h,
                                consumed := st.consumed + 1 }
  let st' := maybeCheckpoint cfg false st'
  let stop := k.isOne b || (match cfg.maxSteps with | some mx => decide (mx ≤ iter) | none => false)
  pure (st', stop)

/-- outcome of feeding a list of steps to the loop -/
inductive Outcome (P S : Type)
  | raised (e : BetaErr)
  /-- the steps ran out before the loop broke: an interrupted run; only `ckpts` survives -/
  | interrupted (st : St P S)
  | finishedLoop (st : St P S) (rest : List (Step P))

def runLoop (k : Kit P S) (cfg : SmcCfg S) : St P S → List (Step P) → Outcome P S
  | st, [] => .interrupted st
  | st, s :: rest =>
    match iterate k cfg st s with
    | .error e => .raised e
    | .ok (st', true) => .finishedLoop st' rest
    | .ok (st', false) => runLoop k cfg st' rest

structure Result (P S : Type) where
  pop : P
  logZ : S
  logZerr : S
  st : St P S

/-- the part of `sample` after the loop: optional enlargement (one more resample + mutate, taken
    from the next `Step`), evidence = sum of recorded ratios, forced final checkpoint -/
def finish (k : Kit P S) (cfg : SmcCfg S) (st : St P S) (rest : List (Step P)) : Option (Result P S) :=
  let needFinal := match cfg.nFinal with | some n => decide (k.size st.pop ≠ n) | none => false
  let go (st : St P S) : Result P S :=
    let z := k.sumS st.hist.ratio
    let e := k.rootSumS st.hist.var
    let st := maybeCheckpoint cfg true st (some z)
    { pop := st.pop, logZ := z, logZerr := e, st := st }
  if needFinal then
    match rest with
    | [] => none          -- interrupted inside the enlargement
    | s :: _ =>
      let _r := k.resample st.pop k.one s.idx
      some (go { st with pop := s.mutated, consumed := st.consumed + 1 })
  else some (go st)

inductive RunOut (P S : Type)
  | raised (e : BetaErr)
  | interrupted (ckpts : List (Ckpt P S))
  | done (r : Result P S)

/-- a whole call of `sample` from a state (fresh or restored) -/
def runFrom (k : Kit P S) (cfg : SmcCfg S) (runLoopFlag : Bool) (st : St P S) (steps : List (Step P)) : RunOut P S :=
  if runLoopFlag then
    match runLoop k cfg st steps with
    | .raised e => .raised e
    | .interrupted st => .interrupted st.ckpts
    | .finishedLoop st rest =>
      match finish k cfg st rest with
      | none => .interrupted st.ckpts
      | some r => .done r
  else
    match finish k cfg st steps with
    | none => .interrupted st.ckpts
    | some r => .done r

def run (k : Kit P S) (cfg : SmcCfg S) (zero : S) (p0 : P) (steps : List (Step P)) : RunOut P S :=
  runFrom k cfg true (initSt cfg zero p0) steps

/-- `restore_from_checkpoint` + the prologue of `sample(resume_from=…)`:
    the history comes from the payload (it already ends with the checkpointed population),
    the minimum step is restored, the loop is skipped when the last temperature is already 1 -/
def restore (c : Ckpt P S) : St P S :=
  { pop := c.pop, beta := c.beta, iter := c.iter, minStep := c.minStep, hist := c.hist,
    consumed := c.consumed, ckpts := [] }

def resumeLoopFlag (k : Kit P S) (cfg : SmcCfg S) (c : Ckpt P S) : Bool :=
  let notAtOne := match c.hist.beta.getLast? with
    | some b => !(k.isOne b)        -- `last_beta >= 1.0` ⇒ skip the loop
    | none => !(k.isOne c.beta)
  let capReached := match cfg.maxSteps with
    | some mx => decide (mx ≤ c.iter)   -- the checkpoint was taken at the step cap ⇒ skip the loop
    | none => false
  notAtOne && !capReached

/-- the pinned (pre-fix) flag: the step cap was not consulted, so a run resumed from the checkpoint
    taken at the cap performed one more iteration -/
def resumeLoopFlagPinned (k : Kit P S) (c : Ckpt P S) : Bool :=
  match c.hist.beta.getLast? with
  | some b => !(k.isOne b)
  | none => !(k.isOne c.beta)

/-- resume from checkpoint `c` with the steps the original run had not consumed yet -/
def resume (k : Kit P S) (cfg : SmcCfg S) (c : Ckpt P S) (allSteps : List (Step P)) : RunOut P S :=
  runFrom k cfg (resumeLoopFlag k cfg c) (restore c) (allSteps.drop c.consumed)

/-- the pinned (pre-fix) restore, kept for the negative theorems: the restored population is
    appended to the stored populations a second time and the minimum step is re-initialised -/
def restorePinned (cfg : SmcCfg S) (c : Ckpt P S) : St P S :=
  { pop := c.pop, beta := c.beta, iter := c.iter, minStep := cfg.minStep0,
    hist := if cfg.storeHistory then { c.hist with pops := c.hist.pops ++ [c.pop] } else c.hist,
    consumed := c.consumed, ckpts := [] }

end Model
