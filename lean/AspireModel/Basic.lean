def hello := "world"
