import AspireModel.Model.Wire
import AspireModel.Model.Weights
import AspireModel.Model.Rows
import AspireModel.Model.Tempering
import AspireModel.Model.Schedule
import AspireModel.Model.Smc
import AspireModel.Model.Eval
import AspireModel.Model.CkptFile
import AspireModel.Model.Ctx
import AspireModel.Model.Wiring
import AspireModel.Model.Entropy
import AspireModel.Model.Transforms
import AspireModel.Model.Session
import AspireModel.Model.Dtype
import AspireModel.Model.Codec
import AspireModel.Model.CodecSamples
import AspireModel.ErfFloat
import AspireModel.Gen.SrcState
/-
  Pure part of the line-protocol driver: one request line in, one reply line out.
  `Main.lean` only does the IO loop.  First token selects the width (`f64` / `f32`),
  second the operation.
-/
open Wire Model

/-- float-specific helpers the generic model takes as parameters -/
class FloatLike (α : Type) where
  isNan : α → Bool
  negInf : α
  roundNat : α → Nat
  floor : α → α
  erf : α → α
  erfinv : α → α

/-- Python's `round`: to nearest, ties to EVEN (C's `round`, which `Float.round` follows, sends ties away from zero) -/
def roundHalfEven (x : Float) : Nat :=
  let f := Float.floor x
  let d := x - f
  let n := f.toUInt64.toNat
  if d < 0.5 then n else if d > 0.5 then n + 1 else if n % 2 == 0 then n else n + 1

instance : FloatLike Float :=
  ⟨Float.isNaN, -(1.0/0.0), roundHalfEven, Float.floor, ErfFloat.erf, ErfFloat.erfinv⟩
instance : FloatLike Float32 :=
  ⟨Float32.isNaN, -(1.0/0.0), fun x => roundHalfEven x.toFloat, Float32.floor,
   fun x => (ErfFloat.erf x.toFloat).toFloat32, fun x => (ErfFloat.erfinv x.toFloat).toFloat32⟩

namespace Driver
variable {α : Type} [Num α] [DecidableLT α] [DecidableLE α] [Scalar α] [FloatLike α]

def opWeights : P String := do
  let ll : List α ← scs; let lp : List α ← scs; let lq : List α ← scs
  let o := computeWeights ll lp lq
  pure (" ".intercalate [outL o.logW, outS o.logZ, outL o.weights, outS o.evidence,
    outS o.evidenceError, outS o.logEvidenceError, outS o.ess])

def opLse : P String := do let xs : List α ← scs; pure (outS (logsumexp xs))
def opEss : P String := do let xs : List α ← scs; pure (outS (essOf xs))
def opEssShifted : P String := do let xs : List α ← scs; pure (outS (essShifted xs))
def opRelErrOld : P String := do let xs : List α ← scs; pure (outS (relErrUnshifted xs))
def opScaled : P String := do let xs : List α ← scs; pure (outL (scaledWeights xs))
def opReject : P String := do
  let lw : List α ← scs; let lu : List α ← scs; pure (outBs (rejectionKeep lw lu))

/-! ### sample-set operations (C16) -/

abbrev SS (α : Type) := SampleSet (List α) α

/-- what the `Samples` constructor computes (`__post_init__` → `compute_weights`) -/
def evFn (S : SS α) : SS α :=
  match S.ll, S.lp, S.lq with
  | some ll, some lp, some lq =>
    let o := computeWeights ll lp lq
    { S with logW := some o.logW, weights := some o.weights, logZ := some o.logZ,
             logZerr := some o.logEvidenceError, evidence := some o.evidence,
             evidenceErr := some o.evidenceError, ess := some o.ess }
  | _, _, _ => S

def optCol : P (Option (List α)) := do
  if (← bool) then pure (some (← scs)) else pure none
def optS : P (Option α) := do
  if (← bool) then pure (some (← sc)) else pure none

def parseCls : P Cls := do
  match (← tok) with
  | "base" => pure .base | "samples" => pure .samples | "smc" => pure .smc
  | t => throw s!"bad class {t}"

def parseSet : P (SS α) := do
  let cls ← parseCls
  let n ← nat; let d ← nat
  let flat : List α ← many sc (n * d)
  let rec chunk (l : List α) (k : Nat) : List (List α) :=
    match k with
    | 0 => []
    | k+1 => l.take d :: chunk (l.drop d) k
  let x := chunk flat n
  let ll ← optCol; let lp ← optCol; let lq ← optCol
  let beta ← optS; let logZ ← optS; let logZerr ← optS
  let S : SS α := { cls := cls, x := x, ll := ll, lp := lp, lq := lq, beta := beta, logZ := logZ, logZerr := logZerr }
  pure (match cls with | .samples => (let T := evFn S; match S.ll, S.lp, S.lq with
                                        | some _, some _, some _ => T
                                        | _, _, _ => S) | _ => S)

def outOptCol (c : Option (List α)) : String :=
  match c with | none => "0" | some l => "1 " ++ outL l
def outOptS (c : Option α) : String :=
  match c with | none => "0" | some v => "1 " ++ outS v
def clsName : Cls → String | .base => "base" | .samples => "samples" | .smc => "smc"

def dumpSet (S : SS α) : String :=
  " ".intercalate [clsName S.cls, toString S.x.length, outL S.x.flatten, outOptCol S.ll, outOptCol S.lp,
    outOptCol S.lq, outOptCol S.logW, outOptCol S.weights, outOptS S.logZ, outOptS S.logZerr,
    outOptS S.evidence, outOptS S.evidenceErr, outOptS S.ess, outOptS S.beta]

def essSel (lw : List α) : α := essShifted lw

partial def applyOps (S : SS α) : P (SS α) := do
  match (← get) with
  | [] => pure S
  | _ =>
    let op ← tok
    match op with
    | "sel" => let l ← listOf nat; applyOps (select essSel evFn l S)
    | "slice" =>
      let a ← nat; let b ← nat; let s ← nat
      applyOps (select essSel evFn (Sel.slice a b s).toIdxs S)
    | "mask" => let m ← listOf bool; applyOps (select essSel evFn (Sel.mask m).toIdxs S)
    | "partcat" =>
      let m ← listOf bool
      let p1 := select essSel evFn (Sel.mask m).toIdxs S
      let p2 := select essSel evFn (Sel.mask (m.map not)).toIdxs S
      applyOps (concat S.cls evFn [p1, p2])
    | "cat3" =>
      let a ← nat; let b ← nat
      let n := S.x.length
      let p1 := select essSel evFn (Sel.slice 0 a 1).toIdxs S
      let p2 := select essSel evFn (Sel.slice a b 1).toIdxs S
      let p3 := select essSel evFn (Sel.slice b n 1).toIdxs S
      applyOps (concat S.cls evFn [p1, p2, p3])
    | "pickle" => applyOps (pickleRoundTrip S)
    | "dict" => applyOps (dictRoundTrip evFn S)
    | t => throw s!"bad rows op {t}"

def opRows : P String := do
  let S ← parseSet (α := α)
  let T ← applyOps S
  pure (dumpSet T)

/-! ### tempering (C05, C08, C09) -/

/-- temperatures are Python floats (binary64) in the code even when the arrays are float32: the
    difference `β' − β` is formed in binary64 and only then meets the array.  The tempering functions
    depend on the temperatures through that difference only, so the driver hands them `(0, β' − β)`. -/
def betaPair : P (α × α) := do
  let b ← f64; let b' ← f64
  pure (0, Scalar.ofF64 (b' - b))

def opResample : P String := do
  let (β, β') ← betaPair (α := α)
  let ll : List α ← scs; let lp : List α ← scs; let lq : List α ← scs
  pure (outL (resampleP β β' ll lp lq))

def opRatio : P String := do
  let (β, β') ← betaPair (α := α)
  let ll : List α ← scs; let lp : List α ← scs; let lq : List α ← scs
  let r := logEvidenceRatio β β' ll lp lq
  let v := logEvidenceRatioVar β β' ll lp lq
  pure (outS r ++ " " ++ outOptS v ++ " " ++ outS (essOf (logWeights β β' ll lp lq)))

def opSmcTarget : P String := do
  let β : α ← sc
  let lq : List α ← scs; let ll : List α ← scs; let lp : List α ← scs; let j : List α ← scs
  let rec go : List α → List α → List α → List α → List α
    | q :: qs, l :: ls, p :: ps, jj :: js =>
      smcTarget FloatLike.isNan FloatLike.negInf β q l p jj :: go qs ls ps js
    | _, _, _, _ => []
  pure (outL (go lq ll lp j))

def opMcmcTarget : P String := do
  let ll : List α ← scs; let lp : List α ← scs; let j : List α ← scs
  let rec go : List α → List α → List α → List α
    | l :: ls, p :: ps, jj :: js => mcmcTarget l p jj :: go ls ps js
    | _, _, _ => []
  pure (outL (go ll lp j))

/-! ### schedule (C06, C07) -/

def parseCfg : P (BetaCfg α) := do
  let adaptive ← bool; let ams ← bool; let tol : α ← sc
  let lo : α ← sc; let hi : α ← sc; let ramp ← bool; let rate : α ← sc
  pure { adaptive := adaptive, adaptiveMinStep := ams, tol := tol, targetLo := lo, targetHi := hi,
         ramp := ramp, rate := rate }

def outBeta (r : Except BetaErr (α × α)) : String :=
  match r with
  | .ok (b, m) => "ok " ++ outS b ++ " " ++ outS m
  | .error _ => "zerodiv"

/-- `beta <cfg> β step minStep ll lp lq` : determine_beta on a population at temperature β -/
def opBeta (pinned : Bool) : P String := do
  let c ← parseCfg (α := α)
  let β : α ← sc; let step : α ← sc; let minStep : α ← sc
  let ll : List α ← scs; let lp : List α ← scs; let lq : List α ← scs
  let eff := fun b => effAt β b ll lp lq
  let r := if pinned then determineBetaPinned c eff 4000 β step minStep
           else determineBeta c FloatLike.roundNat eff 4000 β step minStep
  let tgt := currentTarget c β
  let extra := match r with
    | .ok (b, _) => outS (eff b) ++ " " ++ outS (eff (b + c.tol + c.tol))
    | .error _ => "- -"
  pure (outBeta r ++ " " ++ outS tgt ++ " " ++ extra)

def opEff : P String := do
  let (β, β') ← betaPair (α := α)
  let ll : List α ← scs; let lp : List α ← scs; let lq : List α ← scs
  pure (outS (effAt β β' ll lp lq))

/-- `fixed n` : the whole fixed schedule for `n_steps = n` (new rule and pinned rule) -/
def opFixed : P String := do
  let n ← nat
  let step : α := 1 / (n : α)
  let rec run (rule : α → α) (fuel : Nat) (β : α) (acc : List α) : List α :=
    match fuel with
    | 0 => acc.reverse
    | f+1 =>
      let b := rule β
      if 1 ≤ b then (b :: acc).reverse else run rule f b (b :: acc)
  let new := run (fun b => fixedNext FloatLike.roundNat b step) (2 * n + 5) 0 []
  let old := run (fun b => fixedNextAccum b step) (2 * n + 5) 0 []
  pure (outL new ++ " " ++ outL old)


/-! ### whole SMC loop (C06, C08, C11, C12, C18): the state machine of `Model/Smc.lean`
    instantiated with the numeric kernels above, fed with recorded kernel outputs -/

def parsePop : P (SS α) := do
  let n ← nat; let d ← nat
  let flat : List α ← many sc (n * d)
  let rec chunk (l : List α) (k : Nat) : List (List α) :=
    match k with
    | 0 => []
    | k+1 => l.take d :: chunk (l.drop d) k
  let ll : List α ← many sc n; let lp : List α ← many sc n; let lq : List α ← many sc n
  let beta : α ← sc
  pure { cls := .smc, x := chunk flat n, ll := some ll, lp := some lp, lq := some lq, beta := some beta }

def popCols (p : SS α) : List α × List α × List α :=
  (p.ll.getD [], p.lp.getD [], p.lq.getD [])

def smcKit (c : BetaCfg α) (step : α) : Kit (SS α) α :=
  { nextBeta := fun p β m =>
      let (ll, lp, lq) := popCols p
      determineBeta c FloatLike.roundNat (fun b => effAt β b ll lp lq) 4000 β step m
    ess := fun p β b => let (ll, lp, lq) := popCols p; essOf (logWeights β b ll lp lq)
    essTarget := fun p β => let (ll, lp, lq) := popCols p; essOf (logWeights β 1 ll lp lq)
    effTarget := fun b => currentTarget c b
    ratio := fun p β b => let (ll, lp, lq) := popCols p; logEvidenceRatio β b ll lp lq
    var := fun p β b =>
      let (ll, lp, lq) := popCols p
      match logEvidenceRatioVar β b ll lp lq with | some v => v | none => (0 : α) / 0
    resample := fun p b idx => { select essSel evFn idx p with beta := some b, logZ := none, logZerr := none }
    isOne := fun b => decide (b ≤ 1) && decide (1 ≤ b)
    one := 1
    size := fun p => p.x.length
    sumS := fun l => l.foldl (· + ·) 0
    rootSumS := fun l => ExpLog.sqrt (l.foldl (· + ·) 0) }

def optNat : P (Option Nat) := do
  let i ← int
  pure (if i < 0 then none else some i.toNat)

def outHist (h : Hist (SS α) α) : String :=
  " ".intercalate [outL h.beta, outL h.ess, outL h.essTarget, outL h.effTarget, outL h.ratio, outL h.var,
    toString h.pops.length]

def outCk (c : Ckpt (SS α) α) : String :=
  " ".intercalate [toString c.iter, outS c.beta, toString c.hist.beta.length, toString c.hist.pops.length,
    toString c.consumed, toString c.pop.x.length, outS c.minStep]

def outRun (r : RunOut (SS α) α) : String :=
  match r with
  | .raised _ => "raised"
  | .interrupted cks => "interrupted " ++ toString cks.length ++ " " ++ " ".intercalate (cks.map outCk)
  | .done res =>
    "done " ++ outS res.logZ ++ " " ++ outS res.logZerr ++ " " ++ toString res.pop.x.length ++ " "
      ++ toString res.st.iter ++ " " ++ outHist res.st.hist ++ " "
      ++ toString res.st.ckpts.length ++ " " ++ " ".intercalate (res.st.ckpts.map outCk)

/-- `smcloop <cfg> step minStep0 every maxSteps nFinal store cut resumeAt pop0 nsteps (k idx.. pop)*`
    `cut ≥ 0`: feed only the first `cut` steps (an interrupted run);
    `resumeAt ≥ 0`: additionally resume from the last checkpoint of that interrupted run with all
    steps and report the resumed run instead. -/
def opSmcLoop : P String := do
  let c ← parseCfg (α := α)
  let step : α ← sc; let minStep0 : α ← sc
  let every ← optNat; let maxSteps ← optNat; let nFinal ← optNat; let store ← bool
  let cut ← optNat; let doResume ← bool
  let p0 ← parsePop (α := α)
  let steps ← listOf (do let idx ← listOf nat; let p ← parsePop (α := α); pure ({ idx := idx, mutated := p } : Step (SS α)))
  let k := smcKit c step
  let cfg : SmcCfg α := { every := every, maxSteps := maxSteps, nFinal := nFinal, storeHistory := store, minStep0 := minStep0 }
  let fed := match cut with | some j => steps.take j | none => steps
  let r := run k cfg 0 p0 fed
  if doResume then
    match r with
    | .interrupted cks =>
      match cks.getLast? with
      | some ck => pure ("resumed " ++ outRun (resume k cfg ck steps))
      | none => pure ("resumed-fresh " ++ outRun (run k cfg 0 p0 steps))
    | other => pure ("not-interrupted " ++ outRun other)
  else pure (outRun r)


/-! ### evaluation idiom and initial population (C10, C17) -/

/-- `initial n nbatches (m d x.. lq.. lp..)*` : the rejection loop of `draw_initial_samples`.
    A point is sent together with the prior value the user's function returned for it, so the
    model's `π` is the second projection. -/
def opInitial : P String := do
  let n ← nat
  let batches ← listOf (do
    let m ← nat; let d ← nat
    let flat : List α ← many sc (m * d)
    let lq : List α ← many sc m; let lp : List α ← many sc m
    let rec rows (l : List α) (qs ps : List α) : List ((List α × α) × α) :=
      match qs, ps with
      | q :: qs', p :: ps' => ((l.take d, p), q) :: rows (l.drop d) qs' ps'
      | _, _ => []
    pure (rows flat lq lp))
  let finite : α → Bool := fun v => !(FloatLike.isNan v) && decide (FloatLike.negInf < v) && decide (v < -FloatLike.negInf)
  match drawInitialRows finite (fun (x : List α × α) => x.2) n batches [] 0 with
  | none => pure "exhausted"
  | some (rows, used) =>
    pure ("ok " ++ toString used ++ " " ++ toString rows.length ++ " " ++ outL (rows.map (·.1.1)).flatten ++ " "
      ++ outL (rows.map (·.2.1)) ++ " " ++ outL (rows.map (·.2.2)))

/-- `calls k (kind size)*` : counter and likelihood-event sizes of a sequence of evaluation requests
    (kind 0 = prior only, 1 = prior+likelihood, 2 = likelihood on rows carrying their prior) -/
def opCalls : P String := do
  let cs ← listOf (do let kind ← nat; let size ← nat; pure (kind, size))
  let mk (size : Nat) : List Nat := List.range size
  let calls : List (Call Nat) := cs.map fun (kind, size) =>
    match kind with
    | 0 => Call.priorOnly (mk size)
    | 1 => Call.full (mk size) true
    | _ => Call.likeCarried (mk size)
  let st := runCalls (fun (i : Nat) => i) (fun i => i) (fun i => i) ({} : EvalState Nat Nat) calls
  let likes := st.events.filterMap fun e => match e with
    | Event.like pts (some a) => some (pts.length, if a.length = pts.length then 1 else 0)
    | Event.like pts none => some (pts.length, 2)
    | _ => none
  pure (toString st.counter ++ " " ++ toString st.events.length ++ " " ++ outNs (likes.map (·.1)) ++ " " ++ outNs (likes.map (·.2)))


/-! ### checkpoint dataset (C12): `dump k (len byte..)*` applies `dumpPickle` for each payload in turn -/
def opDump : P String := do
  let blobs ← listOf (listOf nat)
  let f : CkptFile Unit Unit := writeAll {} (blobs.map (·.map fun b => b.toUInt8))
  match f.ckpt with
  | none => pure "none"
  | some d => pure (outNs (d.map (·.toNat)))


/-! ### contexts (C19): `ctx <has_defaults path every sc sf> <prog in prefix notation>` -/
partial def parseProg : P Prog := do
  match (← tok) with
  | "act" => pure .act
  | "touch" => pure .touch
  | "raise" => pure .raise
  | "obs" => pure .obs
  | "seq" => do let a ← parseProg; let b ← parseProg; pure (.seq a b)
  | "pool" => do
    let id ← nat; let c ← bool; let par ← bool; let b ← parseProg; pure (.pool id c par b)
  | "auto" => do
    let path ← nat; let ev ← nat; let sc ← bool; let sf ← bool; let b ← parseProg; pure (.auto path ev sc sf b)
  | t => throw s!"bad prog token {t}"

def outDefaults (d : Option Defaults) : String :=
  match d with
  | none => "none"
  | some d => s!"some {d.path} {d.every} {outB d.saveConfig} {outB d.saveFlow} {outB d.savedConfig} {outB d.savedFlow}"

def outInst (s : Inst) : String := s!"{s.ll} {s.lp} {outDefaults s.defaults}"

def outEv : PoolEv → String
  | .close i => s!"close {i}"
  | .join i => s!"join {i}"
  | .seen s => s!"seen {outInst s}"

def opCtx : P String := do
  let has ← bool
  let d0 ← if has then do
      let path ← nat; let ev ← nat; let sc ← bool; let sf ← bool
      pure (some ({ path := path, every := ev, saveConfig := sc, saveFlow := sf } : Defaults))
    else pure none
  let p ← parseProg
  let (r, s, log) := exec p { ll := 0, lp := 1, defaults := d0, fresh := 2 }
  pure (" ".intercalate ([outB r, outInst s, toString log.length] ++ log.map outEv))


/-! ### random-source wiring (C20): `wiring initHasRng sampleHasRng sampleOverwrites consumesRng` -/
def opWiring : P String := do
  let a ← bool; let b ← bool; let c ← bool; let d ← bool
  let t : SamplerTbl := { initHasRng := a, sampleHasRng := b, sampleOverwrites := c, consumesRng := d }
  let f (r : Route) : String :=
    (if accepted t r then "1" else "0") ++ " " ++ (match usedSrc t r with | .user => "user" | .ambient => "ambient")
  pure (" ".intercalate [outB (WiringOK t), f .ctor, f .call, f .top])

/-- `entropy i s o c <route> <seeded> gu ga1 ga2`: a data-dependent run (SMC-like: proposal draw, then resample/kernel draws until an
    even value, final draw) under the site-to-source map of the table and route, twice with the same user generator and two
    ambient ones: `same|diff`, then the source of each site -/
def entropyProg (off : Nat) : Nat → RProg Nat Nat
  | 0 => .draw .final fun v => .ret (v + off)
  | n + 1 => .draw .resample fun v => .draw .kernel fun w =>
      if (v + w) % 2 = 0 then .draw .final fun z => .ret (v + w + z + off) else entropyProg off n

def opEntropy : P String := do
  let a ← bool; let b ← bool; let c ← bool; let d ← bool
  let t : SamplerTbl := { initHasRng := a, sampleHasRng := b, sampleOverwrites := c, consumesRng := d }
  let r ← (do match (← tok) with
    | "ctor" => pure Route.ctor | "call" => pure Route.call | "top" => pure Route.top | x => throw s!"bad route {x}")
  let seeded ← bool
  let gu ← nat; let ga1 ← nat; let ga2 ← nat
  let src := siteSrc t r seeded
  let prog : RProg Nat Nat := .draw .flowSample fun q => .draw .flowSample fun q2 => entropyProg (q + 2 * q2) 4
  let ctr : Nat → Nat × Nat := fun g => (g, g + 1)
  let r1 := prog.exec ctr src gu ga1
  let r2 := prog.exec ctr src gu ga2
  let same := r1.1 == r2.1 && r1.2.1 == r2.2.1
  let show1 (s : Site) : String := match src s with | .user => "user" | .ambient => "ambient"
  pure (" ".intercalate [if same then "same" else "diff", show1 .flowSample, show1 .resample, show1 .kernel, show1 .final])


/-! ### parameter transforms (C04, C03): `tfm fwd|inv|fit <cfg> nrows rows…` -/
def parseKind : P (CoordKind α) := do
  match (← tok) with
  | "f" => pure .free
  | "p" => do let lo ← sc; let hi ← sc; pure (.periodic lo hi)
  | "b" => do let lo ← sc; let hi ← sc; pure (.bounded lo hi)
  | t => throw s!"bad kind {t}"

def parseTCfg : P (TCfg α × Nat) := do
  let d ← nat
  let kinds ← many (parseKind (α := α)) d
  let bk ← tok
  let eps : α ← sc
  let hasAff ← bool
  let aff ← if hasAff then do
      let m : List α ← many sc d; let s : List α ← many sc d; pure (some (m, s))
    else pure none
  let sqrt2 : α ← sc; let log2pi : α ← sc
  let c : TCfg α :=
    { kinds := kinds, bounded := if bk = "probit" then .probit else .logit, eps := eps, affine := aff,
      pc := { sqrt2 := sqrt2, log2pi := log2pi, erf := FloatLike.erf, erfinv := FloatLike.erfinv },
      mod := fmod FloatLike.floor }
  pure (c, d)

def opTfm : P String := do
  let dir ← tok
  let (c, d) ← parseTCfg (α := α)
  let ddof ← nat
  let rows ← listOf (many (sc (α := α)) d)
  match dir with
  | "fwd" =>
    let out := rows.map (forwardRow c)
    pure (outL (out.map (·.1)).flatten ++ " " ++ outL (out.map (·.2)))
  | "inv" =>
    let out := rows.map (inverseRow c)
    pure (outL (out.map (·.1)).flatten ++ " " ++ outL (out.map (·.2)))
  | "fit" =>
    let (c1, ys) := fitRows ddof c rows
    let (m, s) := match c1.affine with | some ms => ms | none => ([], [])
    pure (outL ys.flatten ++ " " ++ outL m ++ " " ++ outL s)
  | t => throw s!"bad tfm direction {t}"


/-! ### checkpoint-file session (C14): `session nops op…`, snapshot of files 1 and 2 after every op -/
def parseSampler : P SamplerKind := do
  match (← tok) with
  | "importance" => pure .importance
  | "smc" => pure .smc
  | t => throw s!"bad sampler {t}"

def parseSOp : P SOp := do
  match (← tok) with
  | "fit" => do let p ← optNat; let o ← bool; pure (.fit p o)
  | "sample" => do
    let k ← parseSampler; let p ← optNat; let c ← bool; let n ← nat; pure (.sample k p c n)
  | "enter" => do let p ← nat; let sc ← bool; pure (.enter p sc)
  | "exit" => pure .exit
  | "resume" => do let p ← nat; pure (.resume p)
  | t => throw s!"bad session op {t}"

def outOptNat : Option Nat → String | none => "-" | some n => toString n
def outSk : SamplerKind → String | .importance => "importance" | .smc => "smc"
def outFile (f : CkFile) : String :=
  s!"{outOptNat f.flow} {outB f.hasConfig} {match f.cfgSampler with | none => "-" | some k => outSk k} " ++
  (match f.ckpt with | none => "- -" | some (v, k) => s!"{v} {outSk k}") ++ " " ++ outB (Consistent f)

def opSession : P String := do
  let ops ← listOf parseSOp
  let rec go (s : Sess) (ops : List SOp) (acc : List String) : List String :=
    match ops with
    | [] => acc.reverse
    | op :: rest =>
      let (s', raised) := match sstep s op with
        | some s' => (s', false)
        | none => (s, true)
      let snap := s!"{outB raised} {outOptNat s'.memFlow} {outFile (getFile s'.files 1)} {outFile (getFile s'.files 2)}"
      go s' rest (snap :: acc)
  pure (" | ".intercalate (go {} ops []))


/-! ### dtype / namespace conversions (C15): `conv cls src w tgt spec method` -/
def parseNs : P Ns := do
  match (← tok) with
  | "numpy" => pure .numpy | "torch" => pure .torch | "jax" => pure .jax
  | t => throw s!"bad namespace {t}"
def parseW : P Width := do
  match (← tok) with
  | "f32" => pure .f32 | "f64" => pure .f64
  | t => throw s!"bad width {t}"
def nsName : Ns → String | .numpy => "numpy" | .torch => "torch" | .jax => "jax"
def wName : Width → String | .f32 => "f32" | .f64 => "f64"

def opConv : P String := do
  let cls ← match (← tok) with
    | "base" => pure SCls.base | "samples" => pure SCls.samples | "smc" => pure SCls.smc
    | t => throw s!"bad class {t}"
  let src ← parseNs; let w ← parseW; let tgt ← parseNs
  let spec ← match (← tok) with
    | "none" => pure DT.none
    | "name" => do let w ← parseW; pure (DT.name w)
    | "native" => do let n ← parseNs; let w ← parseW; pure (DT.native n w)
    | t => throw s!"bad spec {t}"
  let m ← match (← tok) with
    | "to_namespace" => pure Method.toNamespace | "to_numpy" => pure Method.toNumpy | "from_samples" => pure Method.fromSamples
    | t => throw s!"bad method {t}"
  let i : ConvIn := { cls := cls, src := src, w := w, tgt := tgt, spec := spec, method := m }
  let flags := outB (validReq i) ++ " " ++ outB (acceptsSpec i)
  match convert i with
  | .ok o => pure s!"{flags} ok {nsName o.ns} {wName o.w} {outB o.fieldsKept}"
  | .error _ => pure s!"{flags} typeerror"


/-! ### HDF5 codec (C13): `codec <tree>` saves a top-level dictionary and loads it back -/
def hexStr : P Str := do
  let t ← tok
  if t = "-" then pure [] else
  let rec go (cs : List Char) (acc : List Char) : Option (List Char) :=
    match cs with
    | [] => some acc.reverse
    | a :: b :: rest =>
      match hexDigit a, hexDigit b with
      | some x, some y => go rest (Char.ofNat (x * 16 + y) :: acc)
      | _, _ => none
    | _ => none
  match go t.toList [] with
  | some s => pure s
  | none => throw s!"bad hex string {t}"

def strHex (s : Str) : String :=
  if s.isEmpty then "-" else
  String.join (s.map fun c => let n := c.toNat; String.ofList [Nat.digitChar (n / 16), Nat.digitChar (n % 16)])

partial def parseVal : P Val := do
  match (← tok) with
  | "D" => do
    let es ← listOf (do let k ← hexStr; let v ← parseVal; pure (k, v))
    pure (.dict es)
  | "L" => do
    match (← tok) with
    | "none" => pure (.leaf .none)
    | "empty" => pure (.leaf .emptyDict)
    | "bool" => do pure (.leaf (.bool (← bool)))
    | "int" => do pure (.leaf (.int (← int)))
    | "num" => do
      let t ← tok
      match parseHex t with | some n => pure (.leaf (.num n)) | none => throw "bad num"
    | "str" => do pure (.leaf (.str (← hexStr)))
    | "strs" => do pure (.leaf (.strs (← listOf hexStr)))
    | "nums" => do
      let l ← listOf (do let t ← tok; match parseHex t with | some n => pure n | none => throw "bad num")
      pure (.leaf (.nums l))
    | t => throw s!"bad leaf {t}"
  | t => throw s!"bad value {t}"

def outLeaf : Leaf → String
  | .none => "L none" | .emptyDict => "L empty"
  | .bool b => "L bool " ++ outB b | .int i => s!"L int {i}"
  | .num x => "L num " ++ toHex16 x | .str s => "L str " ++ strHex s
  | .strs l => " ".intercalate (["L strs", toString l.length] ++ l.map strHex)
  | .nums l => " ".intercalate (["L nums", toString l.length] ++ l.map toHex16)

partial def outVal : Val → String
  | .leaf l => outLeaf l
  | .dict es =>
    let sorted := es.toArray.qsort (fun a b => strHex a.1 < strHex b.1) |>.toList
    " ".intercalate (["D", toString es.length] ++ sorted.map fun e => strHex e.1 ++ " " ++ outVal e.2)

def opCodec : P String := do
  match (← parseVal) with
  | .dict es => pure (outVal (.dict (loadDict (saveDict es))))
  | .leaf _ => throw "top level must be a dictionary"

/-- `samplecols <parameters> <listed entries>`: the sample columns as `from_dict` rebuilds them from a "samples" dictionary listed in
    some order (each listed entry carries the id of its column) -/
def opSampleCols : P String := do
  let params ← listOf hexStr
  let listed ← listOf (do let k ← hexStr; let i ← nat; pure (k, Val.leaf (Leaf.nums [i])))
  match colsByName listed params with
  | some cs => pure ("some " ++ " ".intercalate (cs.map fun c => toString (c.headD 0)))
  | none => pure "none"

/-- `ckstate <history> <pop> <iteration> <beta> <min_step?> <rng?> <n later> <later histories…> <restorer has rng?> <restorer rng?> dict|bytes`:
    the TRANSLATED `build_checkpoint_state` on a sampler whose live history is `<history>`, then the run appends (`later`: the live history
    after each further append), then the TRANSLATED `restore_from_checkpoint` on another sampler object from the live dictionary or from its
    pickled bytes (taken when the checkpoint was built).  Reply: what the restore hands back and leaves on the sampler. -/
def opCkState : P String := do
  let hist ← listOf nat
  let pop ← nat; let it ← nat; let beta ← nat
  let ms ← optNat; let rng ← optNat
  let later ← listOf (listOf nat)
  let rng2 ← optNat
  let route ← tok
  let w : Gen.World (List Nat) Nat Nat Nat := { heap := { cells := [hist] }, self := { history := 0, rng_state := rng } }
  let ops0 : Gen.StateOps Nat Nat Nat Nat (List Nat) Nat :=
    { class_name := 1, parameters := 2, config_dict := 3, from_samples := id, smc_from_samples := fun p _ => p,
      loads := fun _ => {}, load_file := fun _ => {}, new_history := [], zero := 0 }
  let b := Gen.smc_build_checkpoint_state ops0 w pop it beta ms
  let pickled := Gen.freeze b.1.heap b.2          -- what `pickle.dumps(state)` saw when the callback ran
  let ops : Gen.StateOps Nat Nat Nat Nat (List Nat) Nat := { ops0 with loads := fun _ => pickled, load_file := fun _ => pickled }
  let hp := later.foldl (fun hp h => hp.set b.1.self.history h) b.1.heap
  let (hp, a2) := hp.alloc []
  let w2 : Gen.World (List Nat) Nat Nat Nat := { heap := hp, self := { history := a2, rng_state := rng2 } }
  let src ← (match route with
    | "dict" => pure (Gen.Source.dict b.2) | "bytes" => pure (Gen.Source.bytes []) | "path" => pure (Gen.Source.path 0)
    | x => throw s!"bad route {x}")
  let showO : Option Nat → String := fun o => match o with | some v => s!"some {v}" | none => "none"
  match Gen.smc_restore_from_checkpoint ops w2 src with
  | .error e => pure s!"error {repr e}"
  | .ok (w', p, bt, i) =>
    let h := w'.heap.get w'.self.history
    pure (" ".intercalate [toString p, toString bt, toString i, toString h.length] ++ " " ++ " ".intercalate (h.map toString) ++ " | " ++
          showO w'.self.rng_state ++ " | " ++ showO w'.self.restored_min_step ++ " | " ++
          -- the dictionary's own history after everything: still what it was at build time?
          " ".intercalate ((match b.2.history with | some a => w'.heap.get a | none => []).map toString))

def dispatch (op : String) : P String :=
  match op with
  | "weights" => opWeights (α := α)
  | "lse" => opLse (α := α)
  | "ess" => opEss (α := α)
  | "ess_shifted" => opEssShifted (α := α)
  | "relerr_old" => opRelErrOld (α := α)
  | "scaled" => opScaled (α := α)
  | "reject" => opReject (α := α)
  | "rows" => opRows (α := α)
  | "resample" => opResample (α := α)
  | "ratio" => opRatio (α := α)
  | "smc_target" => opSmcTarget (α := α)
  | "mcmc_target" => opMcmcTarget (α := α)
  | "beta" => opBeta (α := α) false
  | "beta_pinned" => opBeta (α := α) true
  | "eff" => opEff (α := α)
  | "fixed" => opFixed (α := α)
  | "smcloop" => opSmcLoop (α := α)
  | "initial" => opInitial (α := α)
  | "calls" => opCalls
  | "dump" => opDump
  | "ctx" => opCtx
  | "wiring" => opWiring
  | "entropy" => opEntropy
  | "tfm" => opTfm (α := α)
  | "session" => opSession
  | "conv" => opConv
  | "codec" => opCodec
  | "samplecols" => opSampleCols
  | "ckstate" => opCkState
  | _ => throw s!"unknown op {op}"

end Driver

def Driver.handle (line : String) : String :=
  let toks := (line.splitOn " ").filter (· ≠ "")
  match toks with
  | "f64" :: op :: rest =>
    match Wire.run (Driver.dispatch (α := Float) op) rest with
    | .ok s => "ok " ++ s
    | .error e => "err " ++ e
  | "f32" :: op :: rest =>
    match Wire.run (Driver.dispatch (α := Float32) op) rest with
    | .ok s => "ok " ++ s
    | .error e => "err " ++ e
  | _ => "err bad-request"
