import AspireModel.Model.Wire
import AspireModel.Model.Weights
/-
  Pure part of the line-protocol driver: one request line in, one reply line out.
  `Main.lean` only does the IO loop.  First token selects the width (`f64` / `f32`),
  second the operation.
-/
open Wire Model

namespace Driver
variable {α : Type} [Num α] [DecidableLT α] [DecidableLE α] [Scalar α]

def opWeights : P String := do
  let ll : List α ← scs; let lp : List α ← scs; let lq : List α ← scs
  let o := computeWeights ll lp lq
  pure (" ".intercalate [outL o.logW, outS o.logZ, outL o.weights, outS o.evidence,
    outS o.evidenceError, outS o.logEvidenceError, outS o.ess])

def opLse : P String := do let xs : List α ← scs; pure (outS (logsumexp xs))
def opEss : P String := do let xs : List α ← scs; pure (outS (essOf xs))
def opEssShifted : P String := do let xs : List α ← scs; pure (outS (essShifted xs))
def opRelErrOld : P String := do let xs : List α ← scs; pure (outS (relErrUnshifted xs))
def opScaled : P String := do let xs : List α ← scs; pure (outL (scaledWeights xs))
def opReject : P String := do
  let lw : List α ← scs; let lu : List α ← scs; pure (outBs (rejectionKeep lw lu))

def dispatch (op : String) : P String :=
  match op with
  | "weights" => opWeights (α := α)
  | "lse" => opLse (α := α)
  | "ess" => opEss (α := α)
  | "ess_shifted" => opEssShifted (α := α)
  | "relerr_old" => opRelErrOld (α := α)
  | "scaled" => opScaled (α := α)
  | "reject" => opReject (α := α)
  | _ => throw s!"unknown op {op}"

end Driver

def Driver.handle (line : String) : String :=
  let toks := (line.splitOn " ").filter (· ≠ "")
  match toks with
  | "f64" :: op :: rest =>
    match Wire.run (Driver.dispatch (α := Float) op) rest with
    | .ok s => "ok " ++ s
    | .error e => "err " ++ e
  | "f32" :: op :: rest =>
    match Wire.run (Driver.dispatch (α := Float32) op) rest with
    | .ok s => "ok " ++ s
    | .error e => "err " ++ e
  | _ => "err bad-request"
