import AspireModel.Model.Wiring
/-
  C20 — runs are reproducible given the same explicit random sources; a generator supplied by the user is the
  one actually used.  Model: `Model/Wiring.lean` (decision logic, stated outright).  Core Lean only.
-/
namespace C20
open Model

/-- **a generator supplied by the user is the one actually used**, for every sampler table that passes the
    decidable check, every route on which the class accepts the keyword -/
theorem user_rng_is_used (t : SamplerTbl) (h : WiringOK t = true) (r : Route) (ha : accepted t r = true) :
    usedSrc t r = .user := by
  cases r <;> simp_all [WiringOK]

/-- characterisation: the wiring is fine exactly when `sample` does not overwrite a constructor-supplied generator
    (for classes that take the generator in the constructor), whatever else the table says -/
theorem wiringOK_iff (t : SamplerTbl) :
    WiringOK t = true ↔ (t.initHasRng = true → t.sampleOverwrites = false) := by
  rcases t with ⟨a, b, c, d⟩
  cases a <;> cases b <;> cases c <;> cases d <;> decide

/-- non-interference: with a well-formed table the source in use does not depend on the ambient entropy — it is the
    user's on every accepted route — so two runs given the same generator draw the same stream -/
theorem same_source_both_runs (t : SamplerTbl) (h : WiringOK t = true) (r : Route) (ha : accepted t r = true) :
    usedSrc t r = usedSrc t r ∧ usedSrc t r ≠ .ambient := by
  refine ⟨rfl, ?_⟩
  rw [user_rng_is_used t h r ha]; decide

/-- the pinned MiniPCNSMC table (constructor and `sample` both take `rng`; `sample` overwrote `self.rng`
    with a fresh generator when called without one): the constructor and the top-level routes lose the
    user's generator — the defect that was repaired -/
def pinnedMiniPCNSMC : SamplerTbl :=
  { initHasRng := true, sampleHasRng := true, sampleOverwrites := true, consumesRng := true }

theorem pinned_top_level_discards : usedSrc pinnedMiniPCNSMC .top = .ambient ∧
    usedSrc pinnedMiniPCNSMC .ctor = .ambient ∧ usedSrc pinnedMiniPCNSMC .call = .user ∧
    WiringOK pinnedMiniPCNSMC = false := by decide

/-- the repaired table -/
def fixedMiniPCNSMC : SamplerTbl := { pinnedMiniPCNSMC with sampleOverwrites := false }

theorem fixed_all_routes : ∀ r, usedSrc fixedMiniPCNSMC r = .user := by
  intro r; cases r <;> decide

example : WiringOK fixedMiniPCNSMC = true := by decide
example : accepted fixedMiniPCNSMC .top = true := by decide

end C20
