import AspireModel.Gen.SrcSmcLoop
import AspireModel.Props.C18
/-
  C18 (and C06/C08/C11/C12, which reason about the same state machine) — tie of the hand-written model of the loop of
  `SMCSampler.sample` (`Model/Smc.lean`: `iterate`, `maybeCheckpoint`, `runLoop`, `finish`, `runFrom`) to the TRANSLATION of
  the loop from `/repo`'s current source (`Gen/SrcSmcLoop.lean`, regenerated on every run by
  `harness/translate/loop2lean.py`).

  The translation is a function of the source-level operation interface `Gen.LoopOps` (one field per callee of the loop);
  `kitOf` packages those operations as a `Model.Kit`, and the theorems say that the translated statements, run on the image
  `stOf` of a model state, produce the image of what the model produces — one pass of the body, the nested
  `maybe_checkpoint`, the whole `while True:` loop, the statements after the loop, and the whole call.  Every theorem of
  C06/C08/C11/C12/C18 that is stated for every `Kit` therefore holds of the translated source (`src_*` below).
  Core Lean only.
-/
set_option linter.unusedSectionVars false
namespace C18
open Model Gen
variable {α : Type} [Num α] [DecidableLT α] [DecidableLE α] {P W C : Type}

/-- the model's `Kit` induced by the callees of the loop (run-level constants `beta_step`, `beta_tolerance` fixed) -/
def kitOf (ops : LoopOps P W C α) (beta_step tol : α) : Kit P α where
  nextBeta p b m := ops.determine_beta p b beta_step m tol
  ess p _ b := ops.effective_sample_size (ops.log_weights p b)
  essTarget p _ := ops.effective_sample_size (ops.log_weights p 1)
  effTarget := ops.current_target_efficiency
  ratio p _ b := ops.log_evidence_ratio p b
  var p _ b := ops.log_evidence_ratio_variance p b
  resample p b _ := ops.resample p b none
  isOne b := decide (¬ Gen.ne b 1)
  one := 1
  size := ops.len
  sumS := Gen.vsum
  rootSumS l := ExpLog.sqrt (Gen.vsum l)

/-- `self.history` as the model records it -/
def histOf (h : Hist P α) : LoopHist P α :=
  { eff_target := h.effTarget, beta := h.beta, ess := h.ess, ess_target := h.essTarget,
    log_norm_ratio := h.ratio, log_norm_ratio_var := h.var, sample_history := h.pops }

/-- the payload the source builds for the model's checkpoint `c` -/
def ckOf (ops : LoopOps P W C α) (c : Ckpt P α) : C :=
  ops.build_checkpoint_state c.pop c.logZ (c.logZ.map fun _ => ExpLog.sqrt (Gen.vsum c.hist.var))
    c.iter c.beta (some c.minStep) (histOf c.hist)

/-- the source-level variables for a model state (inside the loop no evidence is attached to the population) -/
def stOf (ops : LoopOps P W C α) (st : St P α) : LoopSt P C α :=
  { samples := st.pop, samples_log_evidence := none, samples_log_evidence_error := none, beta := st.beta,
    min_step := st.minStep, iterations := st.iter, history := histOf st.hist,
    callback_log := st.ckpts.map (ckOf ops) }

/-- what the stream and the kernel deliver in the pass that starts from `st`: the source resamples the current
    population at the new temperature and mutates the result -/
def mutatedOf (ops : LoopOps P W C α) (beta_step tol : α) (st : St P α) : P :=
  match ops.determine_beta st.pop st.beta beta_step st.minStep tol with
  | .ok (b, _) => ops.mutate (ops.resample st.pop b none) b none
  | .error _ => st.pop

def stepOf (ops : LoopOps P W C α) (beta_step tol : α) (st : St P α) : Step P :=
  { idx := [], mutated := mutatedOf ops beta_step tol st }

/-! ### the nested `maybe_checkpoint` -/

theorem tie_smc_maybe_checkpoint (ops : LoopOps P W C α) (cfg : SmcCfg α) (force : Bool) (st : St P α) (z : Option α) :
    Gen.smc_maybe_checkpoint ops cfg.every.isSome cfg.every force st.pop z
        (z.map fun _ => ExpLog.sqrt (Gen.vsum st.hist.var)) st.beta st.minStep st.iter (histOf st.hist)
        (st.ckpts.map (ckOf ops))
      = (maybeCheckpoint cfg force st z).ckpts.map (ckOf ops) := by
  unfold Gen.smc_maybe_checkpoint maybeCheckpoint
  cases he : cfg.every with
  | none => simp
  | some e =>
    simp only [Option.isSome_some, Bool.not_true, Bool.false_eq_true, if_false]
    by_cases hc : (force || (decide (0 < e) && decide (st.iter % e = 0))) = true
    · have hc' : (force || (decide (0 < e) && st.iter % e == 0)) = true := by
        simpa using hc
      simp [hc, hc', ckOf, snapshot]
    · have hc' : ¬ (force || (decide (0 < e) && st.iter % e == 0)) = true := by
        simpa using hc
      simp [hc, hc']

/-! ### one pass through the body of `while True:` -/

theorem stOf_mc (ops : LoopOps P W C α) (cfg : SmcCfg α) (st : St P α) :
    stOf ops (maybeCheckpoint cfg false st) =
      { stOf ops st with callback_log := (maybeCheckpoint cfg false st).ckpts.map (ckOf ops) } := by
  simp [stOf]

theorem tie_smc_loop_body (ops : LoopOps P W C α) (bs tol : α) (cfg : SmcCfg α) (nf ns : Option Nat) (st : St P α) :
    Gen.smc_loop_body ops bs tol cfg.storeHistory cfg.every.isSome cfg.every cfg.maxSteps nf ns (stOf ops st)
      = match iterate (kitOf ops bs tol) cfg st (stepOf ops bs tol st) with
        | .error e => .error e
        | .ok (st', stop) => .ok (stOf ops st', stop) := by
  rw [iterate_eq]
  unfold Gen.smc_loop_body
  have hk : (kitOf ops bs tol).nextBeta st.pop st.beta st.minStep
      = ops.determine_beta st.pop st.beta bs st.minStep tol := rfl
  rw [hk]
  simp only [stOf, stepOf, mutatedOf]
  cases hb : ops.determine_beta st.pop st.beta bs st.minStep tol with
  | error e => rfl
  | ok bm =>
    obtain ⟨b, m⟩ := bm
    simp only []
    have hmc := tie_smc_maybe_checkpoint ops cfg false
      (stepSt (kitOf ops bs tol) cfg st b m (ops.mutate (ops.resample st.pop b none) b none)) none
    simp only [Option.map_none] at hmc
    refine congrArg Except.ok (Prod.ext ?_ ?_)
    · simp only [mc_pop, mc_beta, mc_minStep, mc_iter, mc_hist]
      rw [← hmc]
      cases hs : cfg.storeHistory <;> simp [stepSt, stepHist, histOf, kitOf, hs]
    · simp only [stopCond, kitOf]
      cases cfg.maxSteps <;> rfl

/-! ### the `while True:` loop -/

/-- the steps (stream + kernel output) the source produces in at most `n` passes from `st` -/
def stepsOf (ops : LoopOps P W C α) (bs tol : α) (cfg : SmcCfg α) : Nat → St P α → List (Step P)
  | 0, _ => []
  | n + 1, st =>
    stepOf ops bs tol st ::
      (match iterate (kitOf ops bs tol) cfg st (stepOf ops bs tol st) with
       | .ok (st', false) => stepsOf ops bs tol cfg n st'
       | _ => [])

theorem tie_smc_loop (ops : LoopOps P W C α) (bs tol : α) (cfg : SmcCfg α) (nf ns : Option Nat) :
    ∀ (n : Nat) (st : St P α),
      Gen.smc_driver_loop ops bs tol cfg.storeHistory cfg.every.isSome cfg.every cfg.maxSteps nf ns n (stOf ops st)
        = match runLoop (kitOf ops bs tol) cfg st (stepsOf ops bs tol cfg n st) with
          | .raised e => .error e
          | .interrupted st' => .ok (stOf ops st', false)
          | .finishedLoop st' _ => .ok (stOf ops st', true) := by
  intro n
  induction n with
  | zero => intro st; rfl
  | succ n ih =>
    intro st
    unfold Gen.smc_driver_loop
    rw [tie_smc_loop_body]
    unfold stepsOf runLoop
    cases hi : iterate (kitOf ops bs tol) cfg st (stepOf ops bs tol st) with
    | error e => rfl
    | ok r =>
      obtain ⟨st', stop⟩ := r
      cases stop with
      | true => rfl
      | false => simpa using ih st'

/-- the loop consumes every step the source produced -/
theorem stepsOf_rest_nil (ops : LoopOps P W C α) (bs tol : α) (cfg : SmcCfg α) :
    ∀ (n : Nat) (st st' : St P α) (rest : List (Step P)),
      runLoop (kitOf ops bs tol) cfg st (stepsOf ops bs tol cfg n st) = .finishedLoop st' rest → rest = [] := by
  intro n
  induction n with
  | zero => intro st st' rest h; simp [stepsOf, runLoop] at h
  | succ n ih =>
    intro st st' rest h
    unfold stepsOf runLoop at h
    cases hi : iterate (kitOf ops bs tol) cfg st (stepOf ops bs tol st) with
    | error e => simp [hi] at h
    | ok r =>
      obtain ⟨st1, stop⟩ := r
      cases stop with
      | true => simp [hi] at h; exact h.2
      | false => simp only [hi] at h; exact ih st1 st' rest h

theorem runLoop_append (k : Kit P α) (cfg : SmcCfg α) (extra : List (Step P)) :
    ∀ (ss : List (Step P)) (st st' : St P α) (rest : List (Step P)),
      runLoop k cfg st ss = .finishedLoop st' rest → runLoop k cfg st (ss ++ extra) = .finishedLoop st' (rest ++ extra) := by
  intro ss
  induction ss with
  | nil => intro st st' rest h; simp [runLoop] at h
  | cons s ss ih =>
    intro st st' rest h
    simp only [List.cons_append]
    unfold runLoop at h ⊢
    cases hi : iterate k cfg st s with
    | error e => simp [hi] at h
    | ok r =>
      obtain ⟨st1, stop⟩ := r
      cases stop with
      | true =>
        simp only [hi, Outcome.finishedLoop.injEq] at h ⊢
        exact ⟨h.1, by rw [h.2]⟩
      | false => simp only [hi] at h ⊢; exact ih st1 st' rest h

/-! ### the statements after the loop -/

/-- the step the enlargement consumes, if `n_final_samples` is set -/
def finalStepOf (ops : LoopOps P W C α) (ns : Option Nat) (cfg : SmcCfg α) (st : St P α) : List (Step P) :=
  match cfg.nFinal with
  | some n => [{ idx := [], mutated := ops.mutate (ops.resample st.pop 1 (some n)) 1 ns }]
  | none => []

/-- the source-level variables after the epilogue: the evidence and its error are attached to the population -/
def resOf (ops : LoopOps P W C α) (r : Result P α) : LoopSt P C α :=
  { stOf ops r.st with samples_log_evidence := some r.logZ, samples_log_evidence_error := some r.logZerr }

theorem tie_finishGo (ops : LoopOps P W C α) (bs tol : α) (cfg : SmcCfg α) (st : St P α) :
    ({ samples := st.pop, samples_log_evidence := some (Gen.vsum st.hist.ratio),
       samples_log_evidence_error := some (ExpLog.sqrt (Gen.vsum st.hist.var)), beta := st.beta, min_step := st.minStep,
       iterations := st.iter, history := histOf st.hist,
       callback_log := Gen.smc_maybe_checkpoint ops cfg.every.isSome cfg.every true st.pop (some (Gen.vsum st.hist.ratio))
         (some (ExpLog.sqrt (Gen.vsum st.hist.var))) st.beta st.minStep st.iter (histOf st.hist) (st.ckpts.map (ckOf ops)) }
        : LoopSt P C α)
      = resOf ops (finishGo (kitOf ops bs tol) cfg st) := by
  have h := tie_smc_maybe_checkpoint ops cfg true st (some (Gen.vsum st.hist.ratio))
  simp only [Option.map_some] at h
  rw [h]
  simp [resOf, stOf, finishGo, kitOf]

theorem tie_smc_epilogue (ops : LoopOps P W C α) (bs tol : α) (cfg : SmcCfg α) (ns : Option Nat) (st : St P α) :
    ∃ r, finish (kitOf ops bs tol) cfg st (finalStepOf ops ns cfg st) = some r ∧
      Gen.smc_epilogue ops bs tol cfg.storeHistory cfg.every.isSome cfg.every cfg.maxSteps cfg.nFinal ns (stOf ops st)
        = resOf ops r := by
  rw [finish_eq]
  unfold Gen.smc_epilogue needFinal finalStepOf
  cases hn : cfg.nFinal with
  | none =>
    refine ⟨_, rfl, ?_⟩
    simp only [stOf]
    exact tie_finishGo ops bs tol cfg st
  | some n =>
    by_cases hne : (kitOf ops bs tol).size st.pop ≠ n
    · have hne' : ops.len st.pop ≠ n := hne
      refine ⟨finishGo (kitOf ops bs tol) cfg
        (enlarge st { idx := [], mutated := ops.mutate (ops.resample st.pop 1 (some n)) 1 ns }), by simp [hne], ?_⟩
      simp only [stOf, hne', ne_eq, not_false_eq_true, decide_true, if_true]
      exact tie_finishGo ops bs tol cfg
        (enlarge st { idx := [], mutated := ops.mutate (ops.resample st.pop 1 (some n)) 1 ns })
    · have hne' : ¬ ops.len st.pop ≠ n := hne
      refine ⟨finishGo (kitOf ops bs tol) cfg st, by simp [hne], ?_⟩
      have hq : ops.len st.pop = n := by simpa using hne'
      simp only [stOf, hq, ne_eq, not_true_eq_false, decide_false, Bool.false_eq_true, if_false]
      exact tie_finishGo ops bs tol cfg st

/-! ### the whole call: `if run_smc_loop: while True: ...` followed by the statements after the loop -/

/-- every step the call consumes: the passes of the loop, then the enlargement's -/
def allStepsOf (ops : LoopOps P W C α) (bs tol : α) (cfg : SmcCfg α) (ns : Option Nat) (flag : Bool) (n : Nat)
    (st : St P α) : List (Step P) :=
  if flag then
    match runLoop (kitOf ops bs tol) cfg st (stepsOf ops bs tol cfg n st) with
    | .finishedLoop st' _ => stepsOf ops bs tol cfg n st ++ finalStepOf ops ns cfg st'
    | _ => stepsOf ops bs tol cfg n st
  else finalStepOf ops ns cfg st

theorem tie_smc_run (ops : LoopOps P W C α) (bs tol : α) (cfg : SmcCfg α) (ns : Option Nat) (flag : Bool) (n : Nat)
    (st : St P α) :
    Gen.smc_driver_run ops bs tol cfg.storeHistory cfg.every.isSome cfg.every cfg.maxSteps cfg.nFinal ns flag n (stOf ops st)
      = match runFrom (kitOf ops bs tol) cfg flag st (allStepsOf ops bs tol cfg ns flag n st) with
        | .raised e => .error e
        | .interrupted _ => .ok none
        | .done r => .ok (some (resOf ops r)) := by
  unfold Gen.smc_driver_run runFrom allStepsOf
  cases flag with
  | false =>
    obtain ⟨r, hr, he⟩ := tie_smc_epilogue ops bs tol cfg ns st
    simp [hr, he]
  | true =>
    simp only [if_true]
    rw [tie_smc_loop]
    cases hl : runLoop (kitOf ops bs tol) cfg st (stepsOf ops bs tol cfg n st) with
    | raised e => simp [hl]
    | interrupted st' => simp [hl]
    | finishedLoop st' rest =>
      have hrest := stepsOf_rest_nil ops bs tol cfg n st st' rest hl
      subst hrest
      have happ := runLoop_append (kitOf ops bs tol) cfg (finalStepOf ops ns cfg st') _ st st' [] hl
      obtain ⟨r, hr, he⟩ := tie_smc_epilogue ops bs tol cfg ns st'
      simp only [happ, List.nil_append, hr, he]

/-- a returned source-level call is a returned model run, and its final variables are the image of the model's result -/
theorem src_run_done (ops : LoopOps P W C α) (bs tol : α) (cfg : SmcCfg α) (ns : Option Nat) (flag : Bool) (n : Nat)
    (st : St P α) (ls : LoopSt P C α)
    (h : Gen.smc_driver_run ops bs tol cfg.storeHistory cfg.every.isSome cfg.every cfg.maxSteps cfg.nFinal ns flag n
      (stOf ops st) = .ok (some ls)) :
    ∃ r, runFrom (kitOf ops bs tol) cfg flag st (allStepsOf ops bs tol cfg ns flag n st) = .done r ∧ ls = resOf ops r := by
  rw [tie_smc_run] at h
  cases hr : runFrom (kitOf ops bs tol) cfg flag st (allStepsOf ops bs tol cfg ns flag n st) with
  | raised e => simp [hr] at h
  | interrupted c => simp [hr] at h
  | done r =>
    simp only [hr, Except.ok.injEq, Option.some.injEq] at h
    exact ⟨r, rfl, h.symm⟩

/-! ### the property theorems, restated for the translated source -/

/-- **C18, one entry per iteration — of the translated source.**  Whatever the callees of the loop do, whatever the options:
    when a fresh call of the translated `sample` returns, each of the six series the loop appends to has exactly
    `iterations` entries. -/
theorem src_one_entry_per_iteration (ops : LoopOps P W C α) (bs tol : α) (cfg : SmcCfg α) (ns : Option Nat) (n : Nat)
    (p0 : P) (ls : LoopSt P C α)
    (h : Gen.smc_driver_run ops bs tol cfg.storeHistory cfg.every.isSome cfg.every cfg.maxSteps cfg.nFinal ns true n
      (stOf ops (initSt cfg 0 p0)) = .ok (some ls)) :
    ls.history.beta.length = ls.iterations ∧ ls.history.ess.length = ls.iterations ∧
    ls.history.ess_target.length = ls.iterations ∧ ls.history.eff_target.length = ls.iterations ∧
    ls.history.log_norm_ratio.length = ls.iterations ∧ ls.history.log_norm_ratio_var.length = ls.iterations := by
  obtain ⟨r, hr, rfl⟩ := src_run_done ops bs tol cfg ns true n _ ls h
  have := lenInv_run (zero := (0 : α)) (p0 := p0) hr
  simpa [LenInv, resOf, stOf, histOf] using this

/-- **C18, faithful record — of the translated source** (`store_sample_history=True`): the stored populations are one more
    than the iterations, and entry `t` of every series is the callee's value on stored population `t`, the temperature
    recorded at `t`, exactly as the property defines it. -/
theorem src_history_faithful (ops : LoopOps P W C α) (bs tol : α) (cfg : SmcCfg α) (ns : Option Nat) (n : Nat)
    (p0 : P) (ls : LoopSt P C α) (hs : cfg.storeHistory = true)
    (h : Gen.smc_driver_run ops bs tol cfg.storeHistory cfg.every.isSome cfg.every cfg.maxSteps cfg.nFinal ns true n
      (stOf ops (initSt cfg 0 p0)) = .ok (some ls)) :
    ls.history.sample_history.length = ls.iterations + 1 ∧
    ∀ (t : Nat) (p : P) (b1 : α), ls.history.sample_history[t]? = some p → ls.history.beta[t]? = some b1 →
      ls.history.log_norm_ratio[t]? = some (ops.log_evidence_ratio p b1) ∧
      ls.history.log_norm_ratio_var[t]? = some (ops.log_evidence_ratio_variance p b1) ∧
      ls.history.ess[t]? = some (ops.effective_sample_size (ops.log_weights p b1)) ∧
      ls.history.ess_target[t]? = some (ops.effective_sample_size (ops.log_weights p 1)) ∧
      ls.history.eff_target[t]? = some (ops.current_target_efficiency b1) := by
  obtain ⟨r, hr, rfl⟩ := src_run_done ops bs tol cfg ns true n _ ls h
  have hw := (histInv_run (zero := (0 : α)) (p0 := p0) hs hr).1
  refine ⟨by simpa [resOf, stOf, histOf] using hw.len_pops, ?_⟩
  intro t p b1 hp hb
  simp only [resOf, stOf, histOf] at hp hb ⊢
  have hlt : t < r.st.hist.beta.length := by
    rcases Nat.lt_or_ge t r.st.hist.beta.length with h1 | h1
    · exact h1
    · rw [List.getElem?_eq_none h1] at hb; cases hb
  have hlt' : t < ((0 : α) :: r.st.hist.beta).length := by simp; omega
  have hb0 : ((0 : α) :: r.st.hist.beta)[t]? = some (((0 : α) :: r.st.hist.beta)[t]) := List.getElem?_eq_getElem hlt'
  obtain ⟨h1, h2, h3, h4, h5, -⟩ := hw.defs t p _ b1 hp hb0 hb
  exact ⟨h1, h2, h3, h4, h5⟩

/-- **C08 — of the translated source**: the evidence attached to the returned population is the sum of the recorded
    ratios and its error the root of the summed recorded variances, for every option and every callee. -/
theorem src_evidence_from_history (ops : LoopOps P W C α) (bs tol : α) (cfg : SmcCfg α) (ns : Option Nat) (flag : Bool)
    (n : Nat) (st : St P α) (ls : LoopSt P C α)
    (h : Gen.smc_driver_run ops bs tol cfg.storeHistory cfg.every.isSome cfg.every cfg.maxSteps cfg.nFinal ns flag n
      (stOf ops st) = .ok (some ls)) :
    ls.samples_log_evidence = some (Gen.vsum ls.history.log_norm_ratio) ∧
    ls.samples_log_evidence_error = some (ExpLog.sqrt (Gen.vsum ls.history.log_norm_ratio_var)) := by
  obtain ⟨r, hr, rfl⟩ := src_run_done ops bs tol cfg ns flag n st ls h
  rcases runFrom_done hr with ⟨-, st1, rest, -, hf⟩ | ⟨-, hf⟩ <;>
  · obtain ⟨e1, -, -⟩ := finish_hist hf
    rw [finish_eq] at hf
    split at hf
    · split at hf
      · cases hf
      · simp only [Option.some.injEq] at hf
        subst hf
        simp [resOf, stOf, histOf, finishGo, kitOf, enlarge]
    · simp only [Option.some.injEq] at hf
      subst hf
      simp [resOf, stOf, histOf, finishGo, kitOf]

end C18
