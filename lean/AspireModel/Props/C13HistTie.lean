import AspireModel.Props.C13
import AspireModel.Gen.SrcHist
/-
  C13 (and C18: the history that is reloaded is the history that was recorded), tie to the source: the file layout of a run's diagnostic
  history as `/repo` writes and reads it NOW (`Gen.smc_history_save`, `Gen.smc_history_load`, regenerated from `history.py` on every run by
  `harness/translate/hist2lean.py`).

  `src_history_roundtrip`: for every history — any recorded series and other attributes that form a well-formed dictionary not using the
  counter's key, ANY number of stored populations — and every file and group path, loading what was saved gives back the same populations in
  the same order and the same attributes (as a set of entries), provided a population survives `Samples.save` / `load` (C13's sample-record
  theorem) and the datasets of the group are read in the order written; `src_history_populations_any_order`: for ANY listing order of the
  group's datasets (h5py lists alphabetically) the counter and all populations come back (the attributes then agree up to the order of entries,
  `C13.codec_roundtrip_perm`).  The proof goes through exactly the facts a layout bug breaks:
  the counter is stored under the key it is read from, population `i` is read from the group it was written to, the two group families do not
  collide.
-/
set_option linter.unusedSectionVars false
namespace C13Hist
open Model Gen C13

variable {S G : Type}

def cntKey : Str := "__len_sample_history".toList
def sfx : Str := "__sample_history".toList

def putBody (ops : HistOps S G) (path : Str) : Nat → S → HFile G → HFile G :=
  fun i samples f => f.putSet (.item path sfx i) (ops.saveSet samples)

/-! ## the loop over the populations -/

theorem forEnum_dicts (ops : HistOps S G) (path : Str) (l : List S) (i0 : Nat) (f : HFile G) :
    (forEnum l i0 (putBody ops path) f).dicts = f.dicts := by
  induction l generalizing i0 f with
  | nil => rfl
  | cons x rest ih => simp only [forEnum]; rw [ih]; rfl

/-- a group the loop does not write to is left as it was -/
theorem forEnum_getSet_other (ops : HistOps S G) (path : Str) (l : List S) (i0 : Nat) (f : HFile G) (g : GPath)
    (hg : ∀ k, k < l.length → g ≠ .item path sfx (i0 + k)) :
    (forEnum l i0 (putBody ops path) f).getSet g = f.getSet g := by
  induction l generalizing i0 f with
  | nil => rfl
  | cons x rest ih =>
    simp only [forEnum]
    rw [ih (i0 + 1) _ (fun k hk => by have := hg (k + 1) (by simp; omega); rwa [show i0 + (k + 1) = i0 + 1 + k by omega] at this)]
    have h0 : g ≠ .item path sfx i0 := by simpa using hg 0 (by simp)
    simp only [putBody, HFile.putSet, HFile.getSet, List.find?_cons]
    have : (decide (GPath.item path sfx i0 = g)) = false := by simp; exact fun h => h0 h.symm
    simp [this]

/-- population `j` is in the group `path__sample_history/(i0 + j)` -/
theorem forEnum_getSet (ops : HistOps S G) (path : Str) (l : List S) (i0 : Nat) (f : HFile G) (j : Nat) (hj : j < l.length) :
    (forEnum l i0 (putBody ops path) f).getSet (.item path sfx (i0 + j)) = some (ops.saveSet l[j]) := by
  induction l generalizing i0 f j with
  | nil => simp at hj
  | cons x rest ih =>
    simp only [forEnum]
    cases j with
    | zero =>
      rw [forEnum_getSet_other ops path rest (i0 + 1) _ _ (fun k _ => by simp; omega)]
      simp [putBody, HFile.putSet, HFile.getSet]
    | succ j =>
      have := ih (i0 + 1) (putBody ops path i0 x f) j (by simpa using hj)
      rw [show i0 + (j + 1) = i0 + 1 + j by omega]
      simpa using this

/-- reading the populations back, in order -/
theorem mapM_readback (ops : HistOps S G) (hrt : ∀ s, ops.loadSet (ops.saveSet s) = s) (path : Str) (F : HFile G) (L : List S)
    (hF : ∀ j (hj : j < L.length), F.getSet (.item path sfx j) = some (ops.saveSet L[j])) :
    ∀ (pre suf : List S), L = pre ++ suf →
      (List.range' pre.length suf.length).mapM (fun i => (F.getSet (.item path sfx i)).map ops.loadSet) = some suf := by
  intro pre suf
  induction suf generalizing pre with
  | nil => intro _; rfl
  | cons x rest ih =>
    intro hL
    have hlen : pre.length < L.length := by rw [hL]; simp
    have hx : L[pre.length] = x := by simp [hL]
    have hnext := ih (pre ++ [x]) (by simp [hL])
    simp only [List.length_append, List.length_singleton] at hnext
    simp only [List.length_cons, List.range'_succ, List.mapM_cons, hF pre.length hlen, hx, Option.map_some, hrt]
    rw [hnext]
    rfl

/-! ## the dictionary with the counter -/

theorem dictSet_fresh (es : List (Str × Val)) (k : Str) (v : Val) (h : ∀ e ∈ es, e.1 ≠ k) : dictSet es k v = es ++ [(k, v)] := by
  unfold dictSet
  have : es.any (fun e => decide (e.1 = k)) = false := by
    rw [List.any_eq_false]; intro e he; simpa using h e he
  simp [this]

theorem dictPop_last (es : List (Str × Val)) (k : Str) (v : Val) (h : ∀ e ∈ es, e.1 ≠ k) :
    dictPop (es ++ [(k, v)]) k = (some v, es) := by
  unfold dictPop
  have hf : es.find? (fun e => decide (e.1 = k)) = none := by
    rw [List.find?_eq_none]; intro e he; simpa using h e he
  have hfil : es.filter (fun e => decide (e.1 ≠ k)) = es := by
    rw [List.filter_eq_self]; intro e he; simpa using h e he
  simp only [List.find?_append, hf, List.filter_append, hfil, List.find?_cons, List.filter_cons, List.filter_nil, List.find?_nil]
  simp

theorem entriesWf_snoc (es : List (Str × Val)) (k : Str) (v : Val) (hes : entriesWf es = true) (hk1 : k.isEmpty = false)
    (hk2 : k.contains '.' = false) (hv : v.wf = true) (hfresh : ∀ e ∈ es, e.1 ≠ k) : entriesWf (es ++ [(k, v)]) = true := by
  induction es with
  | nil =>
    simp only [List.nil_append, entriesWf, hk1, hk2, hv, List.all_nil]
    rfl
  | cons e rest ih =>
    obtain ⟨k0, v0⟩ := e
    simp only [List.cons_append, entriesWf, Bool.and_eq_true, List.all_append, List.all_cons, List.all_nil, Bool.and_true] at hes ⊢
    obtain ⟨⟨⟨⟨a, b⟩, c⟩, d⟩, e'⟩ := hes
    refine ⟨⟨⟨⟨a, b⟩, c⟩, ⟨d, ?_⟩⟩, ih e' (fun x hx => hfresh x (List.mem_cons_of_mem _ hx))⟩
    have := hfresh (k0, v0) (List.mem_cons_self)
    simp only [ne_eq, decide_eq_true_eq]
    exact fun h => this h.symm

/-! ## round trip -/

theorem src_history_roundtrip (ops : HistOps S G) (hrt : ∀ s, ops.loadSet (ops.saveSet s) = s) (declared : List Str) (file : HFile G)
    (path : Str) (h : HistObj S) (hwf : entriesWf h.fields = true) (hkey : ∀ e ∈ h.fields, e.1 ≠ cntKey) :
    ∃ h', smc_history_load ops declared (smc_history_save ops file path h) path = some h' ∧
      h'.sample_history = h.sample_history ∧ h'.fields.Perm h.fields := by
  have hsave : smc_history_save ops file path h =
      forEnum h.sample_history 0 (putBody ops path)
        (file.putDict (.base path) (saveDict (h.fields ++ [(cntKey, .leaf (.int h.sample_history.length))]))) := by
    unfold smc_history_save
    simp only []
    rw [show ("__len_sample_history".toList : Str) = cntKey from rfl, dictSet_fresh _ _ _ hkey]
    rfl
  have hwf' : entriesWf (h.fields ++ [(cntKey, .leaf (.int h.sample_history.length))]) = true :=
    entriesWf_snoc _ _ _ hwf (by decide) (by decide) rfl hkey
  have hget : (smc_history_save ops file path h).getDict (.base path) =
      some (saveDict (h.fields ++ [(cntKey, .leaf (.int h.sample_history.length))])) := by
    rw [hsave]
    simp only [HFile.getDict, forEnum_dicts, HFile.putDict, List.find?_cons]
    simp
  have hsets : ∀ j (hj : j < h.sample_history.length),
      (smc_history_save ops file path h).getSet (.item path sfx j) = some (ops.saveSet h.sample_history[j]) := by
    intro j hj
    rw [hsave]
    have := forEnum_getSet ops path h.sample_history 0 (file.putDict (.base path) (saveDict (h.fields ++ [(cntKey, .leaf (.int h.sample_history.length))]))) j hj
    simpa using this
  have hread := mapM_readback ops hrt path _ h.sample_history hsets [] h.sample_history rfl
  simp only [List.length_nil] at hread
  rw [← List.range_eq_range'] at hread
  refine ⟨{ fields := (h.fields.filter fun e => declared.contains e.1) ++ (h.fields.filter fun e => !declared.contains e.1),
            sample_history := h.sample_history }, ?_, rfl, List.filter_append_perm _ _⟩
  unfold smc_history_load
  rw [hget]
  simp only [loadDict_saveDict _ hwf']
  rw [show ("__len_sample_history".toList : Str) = cntKey from rfl, dictPop_last _ _ _ hkey]
  have hv : valToNat (.leaf (.int (h.sample_history.length : Int))) = some h.sample_history.length := by
    simp [valToNat]
  simp only [hv]
  rw [show ("__sample_history".toList : Str) = sfx from rfl, hread]

/-! ## any listing order of the group's datasets -/

/-- what `load` does, from three facts about the file: the group's datasets, the counter the decoded dictionary holds, the population groups -/
theorem load_of_facts (ops : HistOps S G) (hrt : ∀ s, ops.loadSet (ops.saveSet s) = s) (declared : List Str) (F : HFile G) (path : Str)
    (ds : List (Str × H)) (L : List S) (hd : F.getDict (.base path) = some ds)
    (hc : getK (loadDict ds) cntKey = some (.leaf (.int L.length)))
    (hs : ∀ j (hj : j < L.length), F.getSet (.item path sfx j) = some (ops.saveSet L[j])) :
    ∃ h', smc_history_load ops declared F path = some h' ∧ h'.sample_history = L := by
  have hread := mapM_readback ops hrt path F L hs [] L rfl
  simp only [List.length_nil] at hread
  rw [← List.range_eq_range'] at hread
  unfold smc_history_load
  rw [hd]
  have hpop : (dictPop (loadDict ds) cntKey).1 = some (.leaf (.int L.length)) := hc
  have hv : valToNat (.leaf (.int (L.length : Int))) = some L.length := by simp [valToNat]
  simp only [show ("__len_sample_history".toList : Str) = cntKey from rfl, show ("__sample_history".toList : Str) = sfx from rfl]
  generalize hq : dictPop (loadDict ds) cntKey = q at hpop
  obtain ⟨c, rest⟩ := q
  simp only at hpop
  subst hpop
  simp only [hv, hread]
  exact ⟨_, rfl, rfl⟩

/-- **h5py lists the members of a group alphabetically**: whatever the order in which the datasets of the history group are enumerated on
    reload, the counter is read back as the number of stored populations and the populations come back, all of them, in order -/
theorem src_history_populations_any_order (ops : HistOps S G) (hrt : ∀ s, ops.loadSet (ops.saveSet s) = s) (declared : List Str)
    (file : HFile G) (path : Str) (h : HistObj S) (hwf : entriesWf h.fields = true) (hkey : ∀ e ∈ h.fields, e.1 ≠ cntKey)
    (ds : List (Str × H)) (hp : ds.Perm (saveDict (h.fields ++ [(cntKey, .leaf (.int h.sample_history.length))]))) :
    let F := smc_history_save ops file path h
    ∃ h', smc_history_load ops declared { F with dicts := (GPath.base path, ds) :: F.dicts } path = some h' ∧
      h'.sample_history = h.sample_history := by
  intro F
  have hwf' : entriesWf (h.fields ++ [(cntKey, .leaf (.int h.sample_history.length))]) = true :=
    entriesWf_snoc _ _ _ hwf (by decide) (by decide) rfl hkey
  have heq := codec_roundtrip_perm_symm _ hwf' ds hp
  obtain ⟨_, hall⟩ := (eqv_dict_iff _ _).1 heq
  obtain ⟨w, hw, hev⟩ := hall (cntKey, .leaf (.int h.sample_history.length)) (by simp)
  have hwe : w = .leaf (.int h.sample_history.length) := eqv_leaf_left _ w hev
  subst hwe
  have hsave : F = forEnum h.sample_history 0 (putBody ops path)
        (file.putDict (.base path) (saveDict (h.fields ++ [(cntKey, .leaf (.int h.sample_history.length))]))) := by
    show smc_history_save ops file path h = _
    unfold smc_history_save
    simp only []
    rw [show ("__len_sample_history".toList : Str) = cntKey from rfl, dictSet_fresh _ _ _ hkey]
    rfl
  refine load_of_facts ops hrt declared _ path ds h.sample_history ?_ hw ?_
  · simp [HFile.getDict]
  · intro j hj
    have := forEnum_getSet ops path h.sample_history 0 (file.putDict (.base path) (saveDict (h.fields ++ [(cntKey, .leaf (.int h.sample_history.length))]))) j hj
    show (HFile.getSet { F with dicts := _ } _) = _
    simp only [HFile.getSet]
    rw [hsave]
    simpa [HFile.getSet] using this

/-- a history without stored populations (`store_sample_history=False`) -/
example (ops : HistOps Nat Nat) (hrt : ∀ s, ops.loadSet (ops.saveSet s) = s) :
    ∃ h', smc_history_load ops [] (smc_history_save ops {} "smc_history".toList { fields := [("beta".toList, .leaf (.nums [1, 2]))], sample_history := [] })
        "smc_history".toList = some h' ∧ h'.sample_history = [] :=
  let ⟨h', a, b, _⟩ := src_history_roundtrip ops hrt [] {} "smc_history".toList { fields := [("beta".toList, .leaf (.nums [1, 2]))], sample_history := [] }
    (by decide) (by decide)
  ⟨h', a, b⟩

/-- non-vacuity, evaluated: three populations, a declared and an undeclared attribute, an older history already in the file -/
example :
    (smc_history_load (S := Nat) (G := Nat) { saveSet := fun s => s + 100, loadSet := fun g => g - 100 } ["beta".toList]
      (smc_history_save { saveSet := fun s => s + 100, loadSet := fun g => g - 100 }
        (smc_history_save { saveSet := fun s => s + 100, loadSet := fun g => g - 100 } {} "h".toList
          { fields := [("beta".toList, .leaf (.nums [9]))], sample_history := [1, 2, 3, 4] })
        "h".toList { fields := [("beta".toList, .leaf (.nums [1, 2])), ("note".toList, .leaf (.str "x".toList))], sample_history := [7, 8, 9] })
      "h".toList).map (fun o => (o.sample_history, o.fields.length)) = some ([7, 8, 9], 2) := by
  rfl

end C13Hist
