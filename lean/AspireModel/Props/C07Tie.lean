import AspireModel.Props.C06Tie
/-
  C07, tie to the source: the adaptive-step specification (`adaptive_step_spec_effAt`, `Props/C07.lean`) restated
  for the `determine_beta` translated from `/repo` on every run (the tie itself is `C06.tie_determine_beta`,
  `C06.tie_bisection_loop`, `C06.tie_eff_curve` in `Props/C06Tie.lean`).
-/
namespace C07
open Model

/-- **C07 for the translated source**: the temperature returned by the source's `determine_beta` is 1 if the full
    step meets the target; otherwise it is the bisection result — within `tol` of the largest feasible temperature,
    and meeting the target there — unless the minimum-step floor forced it -/
theorem src_adaptive_step_spec (c : BetaCfg ℝ) (rn : ℝ → ℕ) (ll lp lq : List ℝ) (n fuel : ℕ)
    (β step minStep : ℝ) (hn : n = (unnormLogW β β ll lp lq).length)
    (ha : c.adaptive = true) (hβ : β < 1) (htol : 0 < c.tol)
    (hne : logW ll lp lq ≠ []) (hfuel : 1 - β ≤ c.tol * 2 ^ fuel) (htarget : currentTarget c β ≤ 1) :
    let r := C06.srcDetermineBeta c rn ll lp lq n fuel β step minStep
    (currentTarget c β ≤ effAt β 1 ll lp lq → r.1 = 1) ∧
    ((r.1 = betaStar c (fun t => effAt β t ll lp lq) fuel β ∧
        |r.1 - sSup (feasible c (fun t => effAt β t ll lp lq) β)| ≤ c.tol ∧
        (β < betaStar0 c (fun t => effAt β t ll lp lq) fuel β →
          currentTarget c β ≤ effAt β r.1 ll lp lq))
      ∨ (betaStar c (fun t => effAt β t ll lp lq) fuel β < β + r.2 ∧ r.1 = min (β + r.2) 1)) := by
  intro r
  have h := C06.src_eq_model c rn ll lp lq n fuel β step minStep hn
  exact adaptive_step_spec_effAt c rn ll lp lq fuel β step minStep r.1 r.2 ha hβ htol hne hfuel htarget h

/-- the translated efficiency curve is antitone in the trial temperature (what makes bisection maximal) -/
theorem src_eff_antitone (β : ℝ) (ll lp lq : List ℝ) (n : ℕ) (hn : n = (unnormLogW β β ll lp lq).length) :
    AntitoneOn (fun b => Gen.effective_sample_size (Gen.log_weights β ll lp lq n b) / ((n : ℕ) : ℝ))
      (Set.Icc β 1) := by
  rw [C06.tie_eff_curve β ll lp lq n hn]
  exact effAt_antitoneOn β ll lp lq

end C07
