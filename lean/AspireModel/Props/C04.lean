import AspireModel.Model.Transforms
import AspireModel.Lemmas.Real
import AspireModel.Lemmas.ErfC04
import Mathlib.Algebra.Order.Floor.Ring
import Mathlib.Analysis.SpecialFunctions.Log.Deriv
import Mathlib.Analysis.SpecialFunctions.ExpDeriv
import Mathlib.Analysis.SpecialFunctions.Trigonometric.Basic
import Mathlib.LinearAlgebra.Matrix.Determinant.Basic
import Mathlib.Analysis.Calculus.Deriv.Inverse
import Mathlib.Analysis.Calculus.Deriv.MeanValue
import Mathlib.Topology.Order.MonotoneContinuity
import Mathlib.Algebra.Order.BigOperators.Ring.Finset
/-
  C04 — the parameter transforms are bijections with the right log-Jacobians.
  Model: `Model/Transforms.lean` (= `utils.logit` / `utils.sigmoid`, `LogitTransform`, `ProbitTransform`,
  `PeriodicTransform`, `AffineTransform`, `CompositeTransform` of `aspire/transforms.py`).
  All statements are over ℝ.
-/
namespace C04
open Model

/-! ### 3. periodic coordinates -/

/-- the floor-modulo of numpy / torch / jax `%` at ℝ: `a - w * ⌊a / w⌋` -/
noncomputable def rmod : ℝ → ℝ → ℝ := fmod (fun a : ℝ => ((⌊a⌋ : ℤ) : ℝ))

theorem rmod_eq (a w : ℝ) : rmod a w = a - w * ((⌊a / w⌋ : ℤ) : ℝ) := rfl

theorem periodic1_eq_fract (lo hi x : ℝ) (h : lo < hi) :
    periodic1 rmod lo hi x = lo + (hi - lo) * Int.fract ((x - lo) / (hi - lo)) := by
  have hw : hi - lo ≠ 0 := by linarith
  unfold periodic1
  rw [rmod_eq, Int.fract, mul_sub, mul_div_cancel₀ _ hw]

/-- a periodic coordinate is always wrapped into `[lower, upper)` -/
theorem periodic_range (lo hi x : ℝ) (h : lo < hi) :
    lo ≤ periodic1 rmod lo hi x ∧ periodic1 rmod lo hi x < hi := by
  have hw : 0 < hi - lo := by linarith
  rw [periodic1_eq_fract lo hi x h]
  have h0 := Int.fract_nonneg ((x - lo) / (hi - lo))
  have h1 := Int.fract_lt_one ((x - lo) / (hi - lo))
  constructor
  · nlinarith
  · nlinarith

/-- … modulo the period: the wrapped value differs from `x` by an integer number of periods -/
theorem periodic_congr (lo hi x : ℝ) :
    ∃ k : ℤ, periodic1 rmod lo hi x = x + k * (hi - lo) := by
  refine ⟨-⌊(x - lo) / (hi - lo)⌋, ?_⟩
  unfold periodic1
  rw [rmod_eq]
  push_cast
  ring

/-- the wrap is the identity on `[lower, upper)` -/
theorem periodic_id_on_range (lo hi x : ℝ) (h1 : lo ≤ x) (h2 : x < hi) :
    periodic1 rmod lo hi x = x := by
  have hw : 0 < hi - lo := by linarith
  have hf : ⌊(x - lo) / (hi - lo)⌋ = 0 := by
    rw [Int.floor_eq_iff]
    constructor
    · simp only [Int.cast_zero]; exact div_nonneg (by linarith) hw.le
    · simp only [Int.cast_zero, zero_add]; rw [div_lt_one hw]; linarith
  unfold periodic1
  rw [rmod_eq, hf]
  simp

theorem periodic_idem (lo hi x : ℝ) (h : lo < hi) :
    periodic1 rmod lo hi (periodic1 rmod lo hi x) = periodic1 rmod lo hi x := by
  obtain ⟨h1, h2⟩ := periodic_range lo hi x h
  exact periodic_id_on_range lo hi _ h1 h2

/-- the wrapped value is the unique representative of `x` modulo the period in `[lower, upper)` -/
theorem periodic_unique (lo hi x y : ℝ) (h : lo < hi) (hy1 : lo ≤ y) (hy2 : y < hi)
    (k : ℤ) (hk : y = x + k * (hi - lo)) : periodic1 rmod lo hi x = y := by
  have hw : 0 < hi - lo := by linarith
  have hf : ⌊(x - lo) / (hi - lo)⌋ = -k := by
    rw [Int.floor_eq_iff]
    push_cast
    constructor
    · rw [le_div_iff₀ hw]; nlinarith
    · rw [div_lt_iff₀ hw]; nlinarith
  unfold periodic1
  rw [rmod_eq, hf, hk]
  push_cast
  ring

theorem periodic_logJ_zero (c : TCfg ℝ) (lo hi x : ℝ) :
    (fwdCoord c (.periodic lo hi) x).2 = 0 ∧ (invCoord c (.periodic lo hi) x).2 = 0 := ⟨rfl, rfl⟩

/-- away from the wrap points the wrap has derivative 1, so `0 = log |1|` is the log absolute derivative -/
theorem periodic_hasDerivAt (lo hi x : ℝ) (h1 : lo < x) (h2 : x < hi) :
    HasDerivAt (periodic1 rmod lo hi) 1 x ∧ (0 : ℝ) = Real.log |(1 : ℝ)| := by
  constructor
  · have : (fun y => y) =ᶠ[nhds x] periodic1 rmod lo hi := by
      have hmem : Set.Ioo lo hi ∈ nhds x := Ioo_mem_nhds h1 h2
      filter_upwards [hmem] with y hy
      exact (periodic_id_on_range lo hi y hy.1.le hy.2).symm
    exact (hasDerivAt_id x).congr_of_eventuallyEq this.symm
  · simp

/-! ### 5. affine stage -/

theorem affine_inverse_forward (m s x : List ℝ) (hm : m.length = x.length) (hs : s.length = x.length)
    (h0 : ∀ si ∈ s, si ≠ 0) : (affineInv m s (affineFwd m s x).1).1 = x := by
  simp only [affineFwd, affineInv]
  induction x generalizing m s with
  | nil => simp
  | cons a as ih =>
    cases m with
    | nil => simp at hm
    | cons b bs =>
      cases s with
      | nil => simp at hs
      | cons t ts =>
        have ht : t ≠ 0 := h0 t List.mem_cons_self
        simp only [List.zip_cons_cons, List.zipWith_cons_cons, List.cons.injEq]
        refine ⟨by field_simp; ring, ?_⟩
        exact ih bs ts (by simpa using hm) (by simpa using hs)
          (fun si hsi => h0 si (List.mem_cons_of_mem _ hsi))

theorem affine_forward_inverse (m s z : List ℝ) (hm : m.length = z.length) (hs : s.length = z.length)
    (h0 : ∀ si ∈ s, si ≠ 0) : (affineFwd m s (affineInv m s z).1).1 = z := by
  simp only [affineFwd, affineInv]
  induction z generalizing m s with
  | nil => simp
  | cons a as ih =>
    cases m with
    | nil => simp at hm
    | cons b bs =>
      cases s with
      | nil => simp at hs
      | cons t ts =>
        have ht : t ≠ 0 := h0 t List.mem_cons_self
        simp only [List.zip_cons_cons, List.zipWith_cons_cons, List.cons.injEq]
        refine ⟨by field_simp; ring, ?_⟩
        exact ih bs ts (by simpa using hm) (by simpa using hs)
          (fun si hsi => h0 si (List.mem_cons_of_mem _ hsi))

theorem affineFwd_length (m s x : List ℝ) (hm : m.length = x.length) (hs : s.length = x.length) :
    (affineFwd m s x).1.length = x.length := by
  simp [affineFwd, hm, hs]

theorem affineInv_length (m s x : List ℝ) (hm : m.length = x.length) (hs : s.length = x.length) :
    (affineInv m s x).1.length = x.length := by
  simp [affineInv, hm, hs]

/-- each coordinate map `x ↦ (x - m) / s` has derivative `1 / s` -/
theorem affine_coord_hasDerivAt (m s x : ℝ) : HasDerivAt (fun x => (x - m) / s) (1 / s) x := by
  have := ((hasDerivAt_id x).sub_const m).div_const s
  simpa using this

/-- the reported affine log-Jacobian `-Σ log|s_i|` is `Σ log |d/dx_i ((x_i - m_i)/s_i)|` -/
theorem affine_logJ (m s x : List ℝ) :
    (affineFwd m s x).2 = -(s.map fun si => Real.log |si|).sum ∧
    (affineFwd m s x).2 = (s.map fun si => Real.log |1 / si|).sum := by
  have h1 : (affineFwd m s x).2 = -(s.map fun si => Real.log |si|).sum := by
    simp only [affineFwd, sumL_eq_sum, log_real, absS_eq_abs]
  refine ⟨h1, ?_⟩
  rw [h1]
  clear h1
  induction s with
  | nil => simp
  | cons t ts ih =>
    simp only [List.map_cons, List.sum_cons, neg_add, ih]
    rw [one_div, abs_inv, Real.log_inv]

theorem affine_inv_logJ (m s x y : List ℝ) : (affineInv m s y).2 = -(affineFwd m s x).2 := by
  simp [affineFwd, affineInv]

/-! ### 1. logit / sigmoid on one coordinate -/

theorem clipS_id (u lo hi : ℝ) (h1 : lo ≤ u) (h2 : u ≤ hi) : clipS u lo hi = u := by
  unfold clipS
  rw [if_neg (not_lt.mpr h1), if_neg (not_lt.mpr h2)]

theorem clipS_range (u lo hi : ℝ) (h : lo ≤ hi) : lo ≤ clipS u lo hi ∧ clipS u lo hi ≤ hi := by
  unfold clipS
  split
  · exact ⟨le_refl _, h⟩
  · split
    · exact ⟨h, le_refl _⟩
    · constructor <;> linarith

/-- inside the clipping margin the clipped logit is the plain logit -/
theorem logit1_clip_id (e u : ℝ) (h1 : e ≤ u) (h2 : u ≤ 1 - e) : logit1 (some e) u = logit1 none u := by
  simp only [logit1, clipS_id u e (1 - e) h1 h2]

theorem logit1_none (u : ℝ) :
    logit1 none u = (Real.log u - Real.log (1 - u), -Real.log u - Real.log (1 - u)) := rfl

theorem sigmoid1_eq (y : ℝ) :
    sigmoid1 y = (1 / (1 + Real.exp (-y)),
      Real.log (1 / (1 + Real.exp (-y))) + Real.log (1 - 1 / (1 + Real.exp (-y)))) := rfl

theorem sigmoid_pos (y : ℝ) : 0 < (sigmoid1 y).1 := by
  rw [sigmoid1_eq]; have := Real.exp_pos (-y); positivity

theorem sigmoid_lt_one (y : ℝ) : (sigmoid1 y).1 < 1 := by
  rw [sigmoid1_eq]
  have := Real.exp_pos (-y)
  simp only
  rw [div_lt_one (by linarith)]
  linarith

theorem one_sub_sigmoid (y : ℝ) : 1 - (sigmoid1 y).1 = Real.exp (-y) / (1 + Real.exp (-y)) := by
  rw [sigmoid1_eq]
  have := Real.exp_pos (-y)
  field_simp
  ring

/-- inverse ∘ forward on the open unit interval (no clipping) -/
theorem sigmoid_logit_none (u : ℝ) (h0 : 0 < u) (h1 : u < 1) : (sigmoid1 (logit1 none u).1).1 = u := by
  rw [logit1_none, sigmoid1_eq]
  simp only
  have h1u : 0 < 1 - u := by linarith
  rw [neg_sub, ← Real.log_div h1u.ne' h0.ne', Real.exp_log (div_pos h1u h0)]
  field_simp
  ring

/-- inverse ∘ forward for `eps = some e` outside the clipping margin -/
theorem sigmoid_logit (e u : ℝ) (h0 : 0 < u) (h1 : u < 1) (he1 : e ≤ u) (he2 : u ≤ 1 - e) :
    (sigmoid1 (logit1 (some e) u).1).1 = u := by
  rw [logit1_clip_id e u he1 he2]; exact sigmoid_logit_none u h0 h1

/-- forward ∘ inverse on the whole real line -/
theorem logit_sigmoid (y : ℝ) : (logit1 none (sigmoid1 y).1).1 = y := by
  rw [logit1_none]
  simp only
  rw [one_sub_sigmoid, sigmoid1_eq]
  have hp := Real.exp_pos (-y)
  have hq : 0 < 1 + Real.exp (-y) := by linarith
  simp only
  rw [Real.log_div one_ne_zero hq.ne', Real.log_div hp.ne' hq.ne', Real.log_exp, Real.log_one]
  ring

theorem logit_hasDerivAt (u : ℝ) (h0 : 0 < u) (h1 : u < 1) :
    HasDerivAt (fun u => (logit1 none u).1) (1 / (u * (1 - u))) u := by
  have h1u : 0 < 1 - u := by linarith
  have hA : HasDerivAt (fun u : ℝ => Real.log u) u⁻¹ u := Real.hasDerivAt_log h0.ne'
  have hB : HasDerivAt (fun u : ℝ => Real.log (1 - u)) ((0 - 1) / (1 - u)) u :=
    (((hasDerivAt_const u (1 : ℝ)).sub (hasDerivAt_id u))).log h1u.ne'
  have h := (hA.sub hB).congr_deriv (show u⁻¹ - (0 - 1) / (1 - u) = 1 / (u * (1 - u)) by
    field_simp; ring)
  exact h

/-- the reported forward log-Jacobian term is the log absolute derivative -/
theorem logit_logJ (u : ℝ) (h0 : 0 < u) (h1 : u < 1) :
    (logit1 none u).2 = Real.log |1 / (u * (1 - u))| := by
  have h1u : 0 < 1 - u := by linarith
  have hp : 0 < u * (1 - u) := mul_pos h0 h1u
  rw [logit1_none, abs_of_pos (by positivity), one_div, Real.log_inv, Real.log_mul h0.ne' h1u.ne']
  ring

theorem sigmoid_hasDerivAt (y : ℝ) :
    HasDerivAt (fun y => (sigmoid1 y).1) ((sigmoid1 y).1 * (1 - (sigmoid1 y).1)) y := by
  have hp := Real.exp_pos (-y)
  have hq : 0 < 1 + Real.exp (-y) := by linarith
  have hE : HasDerivAt (fun y : ℝ => 1 + Real.exp (-y)) (0 + Real.exp (-y) * (-1)) y :=
    (hasDerivAt_const y (1 : ℝ)).add ((hasDerivAt_neg y).exp)
  have := (hasDerivAt_const y (1 : ℝ)).div hE hq.ne'
  rw [one_sub_sigmoid]
  simp only [sigmoid1_eq]
  have h := this.congr_deriv (show (0 * (1 + Real.exp (-y)) - 1 * (0 + Real.exp (-y) * -1)) /
      (1 + Real.exp (-y)) ^ 2 = 1 / (1 + Real.exp (-y)) * (Real.exp (-y) / (1 + Real.exp (-y))) by
    field_simp; ring)
  exact h

/-- the reported inverse log-Jacobian term is the log absolute derivative of the sigmoid -/
theorem sigmoid_logJ (y : ℝ) :
    (sigmoid1 y).2 = Real.log |(sigmoid1 y).1 * (1 - (sigmoid1 y).1)| := by
  have h0 := sigmoid_pos y
  have h1 : 0 < 1 - (sigmoid1 y).1 := by linarith [sigmoid_lt_one y]
  rw [abs_of_pos (mul_pos h0 h1), Real.log_mul h0.ne' h1.ne']
  rfl

/-- the inverse log-Jacobian is the negative of the forward one at the corresponding point -/
theorem sigmoid_logit_logJ_none (u : ℝ) (h0 : 0 < u) (h1 : u < 1) :
    (sigmoid1 (logit1 none u).1).2 = -(logit1 none u).2 := by
  have h := sigmoid_logit_none u h0 h1
  have : (sigmoid1 (logit1 none u).1).2 =
      Real.log (sigmoid1 (logit1 none u).1).1 + Real.log (1 - (sigmoid1 (logit1 none u).1).1) := rfl
  rw [this, h, logit1_none]
  ring

theorem sigmoid_logit_logJ (e u : ℝ) (h0 : 0 < u) (h1 : u < 1) (he1 : e ≤ u) (he2 : u ≤ 1 - e) :
    (sigmoid1 (logit1 (some e) u).1).2 = -(logit1 (some e) u).2 := by
  rw [logit1_clip_id e u he1 he2]; exact sigmoid_logit_logJ_none u h0 h1

/-- and the other way round: forward log-Jacobian at the sigmoid image is minus the inverse one -/
theorem logit_sigmoid_logJ (y : ℝ) : (logit1 none (sigmoid1 y).1).2 = -(sigmoid1 y).2 := by
  rw [logit1_none]
  have : (sigmoid1 y).2 = Real.log (sigmoid1 y).1 + Real.log (1 - (sigmoid1 y).1) := rfl
  rw [this]
  ring

/-! ### 2. probit on one coordinate

`scipy.special.erf` / `erfinv` are parameters of the model (`ProbitConsts`).  What the proofs need about them is
collected in `ProbitOK`: it is a HYPOTHESIS about scipy's special functions (they are mutually inverse and `erf`
has the textbook derivative) and about the two `math` constants. -/

structure ProbitOK (c : ProbitConsts ℝ) : Prop where
  sqrt2 : c.sqrt2 = Real.sqrt 2
  log2pi : c.log2pi = Real.log (2 * Real.pi)
  erf_erfinv : ∀ p : ℝ, -1 < p → p < 1 → c.erf (c.erfinv p) = p
  erfinv_erf : ∀ y : ℝ, c.erfinv (c.erf y) = y
  erf_deriv : ∀ y : ℝ, HasDerivAt c.erf (2 / Real.sqrt Real.pi * Real.exp (-y ^ 2)) y
  /-- `erf` takes values in `(-1, 1)` (only needed for "draws respect the bounds", C03) -/
  erf_range : ∀ y : ℝ, -1 < c.erf y ∧ c.erf y < 1

theorem probit1_eq (c : ProbitConsts ℝ) (e u : ℝ) :
    probit1 c e u = (c.erfinv (2 * clipS u e (1 - e) - 1) * c.sqrt2,
      1 / 2 * (c.log2pi + c.erfinv (2 * clipS u e (1 - e) - 1) * c.sqrt2 *
        (c.erfinv (2 * clipS u e (1 - e) - 1) * c.sqrt2))) := by
  simp [probit1, probit1.half']

theorem probitInv1_eq (c : ProbitConsts ℝ) (y : ℝ) :
    probitInv1 c y = (1 / 2 * (1 + c.erf (y / c.sqrt2)), -(1 / 2 * (c.log2pi + y * y))) := by
  simp [probitInv1, probitInv1.half']

/-- inverse ∘ forward outside the clipping margin -/
theorem probitInv_probit (c : ProbitConsts ℝ) (hc : ProbitOK c) (e u : ℝ) (h0 : 0 < u) (h1 : u < 1)
    (he1 : e ≤ u) (he2 : u ≤ 1 - e) : (probitInv1 c (probit1 c e u).1).1 = u := by
  have hs : c.sqrt2 ≠ 0 := by rw [hc.sqrt2]; positivity
  rw [probit1_eq, probitInv1_eq, clipS_id u e (1 - e) he1 he2]
  simp only
  rw [mul_div_cancel_right₀ _ hs, hc.erf_erfinv _ (by linarith) (by linarith)]
  ring

/-- forward ∘ inverse when the unit-interval image is outside the clipping margin -/
theorem probit_probitInv (c : ProbitConsts ℝ) (hc : ProbitOK c) (e y : ℝ)
    (he1 : e ≤ (probitInv1 c y).1) (he2 : (probitInv1 c y).1 ≤ 1 - e) :
    (probit1 c e (probitInv1 c y).1).1 = y := by
  have hs : c.sqrt2 ≠ 0 := by rw [hc.sqrt2]; positivity
  rw [probit1_eq, clipS_id _ e (1 - e) he1 he2, probitInv1_eq]
  simp only
  rw [show 2 * (1 / 2 * (1 + c.erf (y / c.sqrt2))) - 1 = c.erf (y / c.sqrt2) by ring, hc.erfinv_erf,
    div_mul_cancel₀ _ hs]

/-- the inverse log-Jacobian is the negative of the forward one at the corresponding point (no hypothesis) -/
theorem probit_logJ_neg (c : ProbitConsts ℝ) (e u : ℝ) :
    (probitInv1 c (probit1 c e u).1).2 = -(probit1 c e u).2 := by
  rw [probit1_eq, probitInv1_eq]

theorem probit_logJ_neg' (c : ProbitConsts ℝ) (hc : ProbitOK c) (e y : ℝ)
    (he1 : e ≤ (probitInv1 c y).1) (he2 : (probitInv1 c y).1 ≤ 1 - e) :
    (probit1 c e (probitInv1 c y).1).2 = -(probitInv1 c y).2 := by
  have h := probit_probitInv c hc e y he1 he2
  have h2 := probit_logJ_neg c e (probitInv1 c y).1
  rw [h] at h2
  rw [h2, neg_neg]

theorem probitInv_range (c : ProbitConsts ℝ) (hc : ProbitOK c) (y : ℝ) :
    0 < (probitInv1 c y).1 ∧ (probitInv1 c y).1 < 1 := by
  rw [probitInv1_eq]
  obtain ⟨h1, h2⟩ := hc.erf_range (y / c.sqrt2)
  constructor <;> simp only <;> linarith

theorem sqrt_two_pi : Real.sqrt (2 * Real.pi) = Real.sqrt 2 * Real.sqrt Real.pi :=
  Real.sqrt_mul (by norm_num) _

/-- the inverse map `y ↦ ½(1 + erf(y/√2))` is the standard normal CDF: its derivative is the normal density -/
theorem probitInv_hasDerivAt (c : ProbitConsts ℝ) (hc : ProbitOK c) (y : ℝ) :
    HasDerivAt (fun y => (probitInv1 c y).1) (Real.exp (-y ^ 2 / 2) / Real.sqrt (2 * Real.pi)) y := by
  have hs2 : Real.sqrt 2 ≠ 0 := by positivity
  have hspi : Real.sqrt Real.pi ≠ 0 := by positivity
  have hD : HasDerivAt (fun y : ℝ => y / c.sqrt2) (1 / c.sqrt2) y := by
    simpa using (hasDerivAt_id y).div_const c.sqrt2
  have hE := (hc.erf_deriv (y / c.sqrt2)).comp y hD
  have hF := ((hasDerivAt_const y (1 : ℝ)).add hE).const_mul (1 / 2 : ℝ)
  simp only [probitInv1_eq]
  refine hF.congr_deriv ?_
  rw [hc.sqrt2, sqrt_two_pi]
  have h2 : (y / Real.sqrt 2) ^ 2 = y ^ 2 / 2 := by
    rw [div_pow, Real.sq_sqrt (by norm_num)]
  rw [h2, neg_div]
  field_simp
  ring

/-- the reported inverse log-Jacobian term is the log absolute derivative of the inverse map -/
theorem probitInv_logJ (c : ProbitConsts ℝ) (hc : ProbitOK c) (y : ℝ) :
    (probitInv1 c y).2 = Real.log |Real.exp (-y ^ 2 / 2) / Real.sqrt (2 * Real.pi)| := by
  have hpos : 0 < Real.sqrt (2 * Real.pi) := Real.sqrt_pos.mpr (by positivity)
  rw [probitInv1_eq, abs_of_pos (div_pos (Real.exp_pos _) hpos), Real.log_div (Real.exp_pos _).ne' hpos.ne',
    Real.log_exp, Real.log_sqrt (by positivity), hc.log2pi]
  ring

/-! ### 4. bounded coordinates, and all coordinate kinds together -/

/-- hypotheses on the configuration (not on the data) -/
structure CfgOK (c : TCfg ℝ) : Prop where
  mod : c.mod = rmod
  eps_pos : 0 < c.eps
  probit : c.bounded = .probit → ProbitOK c.pc

/-- `x` is inside the domain on which the transform of kind `k` is documented to be invertible:
    free: anything; periodic: `lo ≤ x < hi`; bounded: inside the bounds and outside the clipping margin -/
def CoordAdm (c : TCfg ℝ) : CoordKind ℝ → ℝ → Prop
  | .free, _ => True
  | .periodic lo hi, x => lo < hi ∧ lo ≤ x ∧ x < hi
  | .bounded lo hi, x => lo < hi ∧ c.eps ≤ (x - lo) / (hi - lo) ∧ (x - lo) / (hi - lo) ≤ 1 - c.eps

/-- the unit-interval stage of the inverse map of a bounded coordinate -/
noncomputable def unitInv (c : TCfg ℝ) (y : ℝ) : ℝ :=
  match c.bounded with
  | .logit => (sigmoid1 y).1
  | .probit => (probitInv1 c.pc y).1

/-- `y` (a point of the unbounded space) is mapped by the inverse outside the clipping margin -/
def CoordAdmInv (c : TCfg ℝ) : CoordKind ℝ → ℝ → Prop
  | .free, _ => True
  | .periodic lo hi, y => lo < hi ∧ lo ≤ y ∧ y < hi
  | .bounded lo hi, y => lo < hi ∧ c.eps ≤ unitInv c y ∧ unitInv c y ≤ 1 - c.eps

theorem fwdCoord_logit (c : TCfg ℝ) (hb : c.bounded = .logit) (lo hi x : ℝ) :
    fwdCoord c (.bounded lo hi) x = ((logit1 (some c.eps) ((x - lo) / (hi - lo))).1,
      (logit1 (some c.eps) ((x - lo) / (hi - lo))).2 + -Real.log (hi - lo)) := by
  simp [fwdCoord, hb]

theorem fwdCoord_probit (c : TCfg ℝ) (hb : c.bounded = .probit) (lo hi x : ℝ) :
    fwdCoord c (.bounded lo hi) x = ((probit1 c.pc c.eps ((x - lo) / (hi - lo))).1,
      (probit1 c.pc c.eps ((x - lo) / (hi - lo))).2 + -Real.log (hi - lo)) := by
  simp [fwdCoord, hb]

theorem invCoord_logit (c : TCfg ℝ) (hb : c.bounded = .logit) (lo hi y : ℝ) :
    invCoord c (.bounded lo hi) y = ((hi - lo) * (sigmoid1 y).1 + lo, (sigmoid1 y).2 + Real.log (hi - lo)) := by
  simp [invCoord, hb]

theorem invCoord_probit (c : TCfg ℝ) (hb : c.bounded = .probit) (lo hi y : ℝ) :
    invCoord c (.bounded lo hi) y =
      ((hi - lo) * (probitInv1 c.pc y).1 + lo, (probitInv1 c.pc y).2 + Real.log (hi - lo)) := by
  simp [invCoord, hb]

theorem unit_round (lo hi x : ℝ) (h : lo < hi) : (hi - lo) * ((x - lo) / (hi - lo)) + lo = x := by
  have : hi - lo ≠ 0 := by linarith
  field_simp
  ring

theorem unit_round' (lo hi u : ℝ) (h : lo < hi) : ((hi - lo) * u + lo - lo) / (hi - lo) = u := by
  have : hi - lo ≠ 0 := by linarith
  field_simp
  ring

/-- bounded coordinate, inverse ∘ forward (only what is needed about the configuration: `ProbitOK` if probit) -/
theorem bounded_inverse_forward (c : TCfg ℝ) (hp : c.bounded = .probit → ProbitOK c.pc) (lo hi x : ℝ)
    (hlh : lo < hi) (hu0 : 0 < (x - lo) / (hi - lo)) (hu1 : (x - lo) / (hi - lo) < 1)
    (h1 : c.eps ≤ (x - lo) / (hi - lo)) (h2 : (x - lo) / (hi - lo) ≤ 1 - c.eps) :
    (invCoord c (.bounded lo hi) (fwdCoord c (.bounded lo hi) x).1).1 = x ∧
    (invCoord c (.bounded lo hi) (fwdCoord c (.bounded lo hi) x).1).2 = -(fwdCoord c (.bounded lo hi) x).2 := by
  cases hb : c.bounded with
  | logit =>
    rw [fwdCoord_logit c hb, invCoord_logit c hb]
    simp only
    rw [sigmoid_logit _ _ hu0 hu1 h1 h2, sigmoid_logit_logJ _ _ hu0 hu1 h1 h2, unit_round lo hi x hlh]
    exact ⟨rfl, by ring⟩
  | probit =>
    have hp := hp hb
    rw [fwdCoord_probit c hb, invCoord_probit c hb]
    simp only
    rw [probitInv_probit _ hp _ _ hu0 hu1 h1 h2, probit_logJ_neg, unit_round lo hi x hlh]
    exact ⟨rfl, by ring⟩

/-- bounded coordinate, forward ∘ inverse -/
theorem bounded_forward_inverse (c : TCfg ℝ) (hp : c.bounded = .probit → ProbitOK c.pc) (lo hi y : ℝ)
    (hlh : lo < hi) (h1 : c.eps ≤ unitInv c y) (h2 : unitInv c y ≤ 1 - c.eps) :
    (fwdCoord c (.bounded lo hi) (invCoord c (.bounded lo hi) y).1).1 = y ∧
    (fwdCoord c (.bounded lo hi) (invCoord c (.bounded lo hi) y).1).2 = -(invCoord c (.bounded lo hi) y).2 := by
  cases hb : c.bounded with
  | logit =>
    simp only [unitInv, hb] at h1 h2
    rw [invCoord_logit c hb, fwdCoord_logit c hb]
    simp only
    rw [unit_round' lo hi _ hlh, logit1_clip_id _ _ h1 h2, logit_sigmoid, logit_sigmoid_logJ]
    exact ⟨rfl, by ring⟩
  | probit =>
    have hp := hp hb
    simp only [unitInv, hb] at h1 h2
    rw [invCoord_probit c hb, fwdCoord_probit c hb]
    simp only
    rw [unit_round' lo hi _ hlh, probit_probitInv _ hp _ _ h1 h2, probit_logJ_neg' _ hp _ _ h1 h2]
    exact ⟨rfl, by ring⟩

/-- the unit-interval stage of the inverse lies in `(0, 1)` -/
theorem unitInv_range (c : TCfg ℝ) (hp : c.bounded = .probit → ProbitOK c.pc) (y : ℝ) :
    0 < unitInv c y ∧ unitInv c y < 1 := by
  cases hb : c.bounded with
  | logit => simp only [unitInv, hb]; exact ⟨sigmoid_pos y, sigmoid_lt_one y⟩
  | probit => simp only [unitInv, hb]; exact probitInv_range c.pc (hp hb) y

theorem invCoord_eq_unitInv (c : TCfg ℝ) (lo hi y : ℝ) :
    (invCoord c (.bounded lo hi) y).1 = (hi - lo) * unitInv c y + lo := by
  cases hb : c.bounded with
  | logit => rw [invCoord_logit c hb]; simp only [unitInv, hb]
  | probit => rw [invCoord_probit c hb]; simp only [unitInv, hb]

/-- the inverse coordinate map is differentiable everywhere, and its derivative is `exp` of the reported
    inverse log-Jacobian term (both bounded kinds) -/
theorem invCoord_hasDerivAt (c : TCfg ℝ) (hp : c.bounded = .probit → ProbitOK c.pc) (lo hi : ℝ) (hlh : lo < hi)
    (y : ℝ) : HasDerivAt (fun y => (invCoord c (.bounded lo hi) y).1)
      (Real.exp (invCoord c (.bounded lo hi) y).2) y := by
  have hw : 0 < hi - lo := by linarith
  cases hb : c.bounded with
  | logit =>
    simp only [invCoord_logit c hb]
    have hs := ((sigmoid_hasDerivAt y).const_mul (hi - lo)).add_const lo
    refine hs.congr_deriv ?_
    have h0 := sigmoid_pos y
    have h1' : 0 < 1 - (sigmoid1 y).1 := by linarith [sigmoid_lt_one y]
    rw [sigmoid_logJ, abs_of_pos (mul_pos h0 h1'), Real.exp_add, Real.exp_log (mul_pos h0 h1'),
      Real.exp_log hw]
    ring
  | probit =>
    have hp := hp hb
    simp only [invCoord_probit c hb]
    have hs := ((probitInv_hasDerivAt c.pc hp y).const_mul (hi - lo)).add_const lo
    refine hs.congr_deriv ?_
    have hpos : 0 < Real.exp (-y ^ 2 / 2) / Real.sqrt (2 * Real.pi) :=
      div_pos (Real.exp_pos _) (Real.sqrt_pos.mpr (by positivity))
    rw [probitInv_logJ c.pc hp, abs_of_pos hpos, Real.exp_add, Real.exp_log hpos, Real.exp_log hw]
    ring

/-- inverse ∘ forward = id on one coordinate of any kind (both bounded kinds), together with
    "inverse log-Jacobian = − forward log-Jacobian at the corresponding point" -/
theorem coord_inverse_forward (c : TCfg ℝ) (hc : CfgOK c) (k : CoordKind ℝ) (x : ℝ) (h : CoordAdm c k x) :
    (invCoord c k (fwdCoord c k x).1).1 = x ∧ (invCoord c k (fwdCoord c k x).1).2 = -(fwdCoord c k x).2 := by
  cases k with
  | free => simp [invCoord, fwdCoord]
  | periodic lo hi =>
    obtain ⟨hlh, h1, h2⟩ := h
    simp only [invCoord, fwdCoord, hc.mod, neg_zero, and_true]
    rw [periodic_id_on_range lo hi x h1 h2, periodic_id_on_range lo hi x h1 h2]
  | bounded lo hi =>
    obtain ⟨hlh, h1, h2⟩ := h
    have he := hc.eps_pos
    exact bounded_inverse_forward c hc.probit lo hi x hlh (by linarith) (by linarith) h1 h2

/-- forward ∘ inverse = id on one coordinate of any kind, with the log-Jacobian negation -/
theorem coord_forward_inverse (c : TCfg ℝ) (hc : CfgOK c) (k : CoordKind ℝ) (y : ℝ) (h : CoordAdmInv c k y) :
    (fwdCoord c k (invCoord c k y).1).1 = y ∧ (fwdCoord c k (invCoord c k y).1).2 = -(invCoord c k y).2 := by
  cases k with
  | free => simp [invCoord, fwdCoord]
  | periodic lo hi =>
    obtain ⟨hlh, h1, h2⟩ := h
    simp only [invCoord, fwdCoord, hc.mod, neg_zero, and_true]
    rw [periodic_id_on_range lo hi y h1 h2, periodic_id_on_range lo hi y h1 h2]
  | bounded lo hi =>
    obtain ⟨hlh, h1, h2⟩ := h
    exact bounded_forward_inverse c hc.probit lo hi y hlh h1 h2

/-- the forward map of a logit-bounded coordinate, strictly outside the clipping margin, has derivative
    `1 / ((hi - lo) u (1 - u))`, `u = (x - lo)/(hi - lo)` … -/
theorem bounded_logit_hasDerivAt (c : TCfg ℝ) (hc : CfgOK c) (hb : c.bounded = .logit) (lo hi x : ℝ)
    (hlh : lo < hi) (h1 : c.eps < (x - lo) / (hi - lo)) (h2 : (x - lo) / (hi - lo) < 1 - c.eps) :
    HasDerivAt (fun x => (fwdCoord c (.bounded lo hi) x).1)
      (1 / ((hi - lo) * ((x - lo) / (hi - lo)) * (1 - (x - lo) / (hi - lo)))) x := by
  have he := hc.eps_pos
  have hw : 0 < hi - lo := by linarith
  have hu0 : 0 < (x - lo) / (hi - lo) := by linarith
  have hu1 : (x - lo) / (hi - lo) < 1 := by linarith
  have hU : HasDerivAt (fun x : ℝ => (x - lo) / (hi - lo)) (1 / (hi - lo)) x :=
    affine_coord_hasDerivAt lo (hi - lo) x
  have hL := (logit_hasDerivAt _ hu0 hu1).comp x hU
  have hL' : HasDerivAt (fun x : ℝ => (logit1 none ((x - lo) / (hi - lo))).1)
      (1 / ((hi - lo) * ((x - lo) / (hi - lo)) * (1 - (x - lo) / (hi - lo)))) x := by
    refine hL.congr_deriv ?_
    have h1u : 1 - (x - lo) / (hi - lo) ≠ 0 := by linarith
    field_simp
  refine hL'.congr_of_eventuallyEq ?_
  have hcont : ContinuousAt (fun x : ℝ => (x - lo) / (hi - lo)) x := hU.continuousAt
  have hmem : Set.Ioo c.eps (1 - c.eps) ∈ nhds ((x - lo) / (hi - lo)) := Ioo_mem_nhds h1 h2
  filter_upwards [hcont.preimage_mem_nhds hmem] with t ht
  rw [fwdCoord_logit c hb]
  simp only
  rw [logit1_clip_id _ _ ht.1.le ht.2.le]

/-- … and the reported forward log-Jacobian term is the log of its absolute value -/
theorem bounded_logit_logJ (c : TCfg ℝ) (hc : CfgOK c) (hb : c.bounded = .logit) (lo hi x : ℝ)
    (h : CoordAdm c (.bounded lo hi) x) :
    (fwdCoord c (.bounded lo hi) x).2 =
      Real.log |1 / ((hi - lo) * ((x - lo) / (hi - lo)) * (1 - (x - lo) / (hi - lo)))| := by
  obtain ⟨hlh, h1, h2⟩ := h
  have he := hc.eps_pos
  have hw : 0 < hi - lo := by linarith
  have hu0 : 0 < (x - lo) / (hi - lo) := by linarith
  have hu1 : 0 < 1 - (x - lo) / (hi - lo) := by linarith
  rw [fwdCoord_logit c hb]
  simp only
  rw [logit1_clip_id _ _ h1 h2, logit1_none, abs_of_pos (by positivity), one_div, Real.log_inv,
    Real.log_mul (by positivity) hu1.ne', Real.log_mul hw.ne' hu0.ne']
  ring

/-- Kind-independent form of "the forward log-Jacobian is the log absolute derivative" (covers the probit kind,
    whose forward derivative is not given in closed form): whatever the derivative `d` of the forward coordinate
    map at an admissible interior point is, the reported term equals `log |d|`.  (Chain rule through
    inverse ∘ forward = id and the closed-form derivative of the inverse.) -/
theorem bounded_deriv_eq_exp (c : TCfg ℝ) (hc : CfgOK c) (lo hi x d : ℝ) (hlh : lo < hi)
    (h1 : c.eps < (x - lo) / (hi - lo)) (h2 : (x - lo) / (hi - lo) < 1 - c.eps)
    (hd : HasDerivAt (fun x => (fwdCoord c (.bounded lo hi) x).1) d x) :
    d = Real.exp (fwdCoord c (.bounded lo hi) x).2 := by
  have hw : 0 < hi - lo := by linarith
  have hadm : CoordAdm c (.bounded lo hi) x := ⟨hlh, h1.le, h2.le⟩
  have hinv := invCoord_hasDerivAt c hc.probit lo hi hlh
  -- inverse ∘ forward = id near x
  have hU : ContinuousAt (fun x : ℝ => (x - lo) / (hi - lo)) x :=
    (affine_coord_hasDerivAt lo (hi - lo) x).continuousAt
  have hmem : Set.Ioo c.eps (1 - c.eps) ∈ nhds ((x - lo) / (hi - lo)) := Ioo_mem_nhds h1 h2
  have hid : (fun t => (invCoord c (.bounded lo hi) (fwdCoord c (.bounded lo hi) t).1).1) =ᶠ[nhds x] fun t => t := by
    filter_upwards [hU.preimage_mem_nhds hmem] with t ht
    exact (coord_inverse_forward c hc (.bounded lo hi) t ⟨hlh, ht.1.le, ht.2.le⟩).1
  have hcomp := (hinv (fwdCoord c (.bounded lo hi) x).1).comp x hd
  have hone : HasDerivAt (fun t : ℝ => t) 1 x := hasDerivAt_id x
  have huniq := (hcomp.congr_of_eventuallyEq hid.symm).unique hone
  have hneg := (coord_inverse_forward c hc (.bounded lo hi) x hadm).2
  rw [hneg, Real.exp_neg] at huniq
  have hE := Real.exp_pos (fwdCoord c (.bounded lo hi) x).2
  field_simp at huniq
  linarith

theorem bounded_logJ_of_hasDerivAt (c : TCfg ℝ) (hc : CfgOK c) (lo hi x d : ℝ) (hlh : lo < hi)
    (h1 : c.eps < (x - lo) / (hi - lo)) (h2 : (x - lo) / (hi - lo) < 1 - c.eps)
    (hd : HasDerivAt (fun x => (fwdCoord c (.bounded lo hi) x).1) d x) :
    (fwdCoord c (.bounded lo hi) x).2 = Real.log |d| := by
  rw [bounded_deriv_eq_exp c hc lo hi x d hlh h1 h2 hd, abs_of_pos (Real.exp_pos _), Real.log_exp]

/-- **Both bounded kinds (logit and probit): the forward coordinate map is differentiable at every point strictly
    outside the clipping margin, and its derivative is `exp` of the reported log-Jacobian term** — hence positive,
    and the reported term is the log absolute derivative.  (Inverse function theorem applied to the inverse
    coordinate map, whose derivative is known in closed form; in particular this gives the differentiability of
    `erfinv` from the hypotheses on `erf`.) -/
theorem bounded_fwd_hasDerivAt (c : TCfg ℝ) (hc : CfgOK c) (lo hi x : ℝ) (hlh : lo < hi)
    (h1 : c.eps < (x - lo) / (hi - lo)) (h2 : (x - lo) / (hi - lo) < 1 - c.eps) :
    HasDerivAt (fun x => (fwdCoord c (.bounded lo hi) x).1) (Real.exp (fwdCoord c (.bounded lo hi) x).2) x := by
  have hw : 0 < hi - lo := by linarith
  have he := hc.eps_pos
  set F : ℝ → ℝ := fun t => (fwdCoord c (.bounded lo hi) t).1 with hF
  set H : ℝ → ℝ := fun y => (invCoord c (.bounded lo hi) y).1 with hH
  have hHd : ∀ y, HasDerivAt H (Real.exp (invCoord c (.bounded lo hi) y).2) y :=
    invCoord_hasDerivAt c hc.probit lo hi hlh
  have hHmono : StrictMono H := by
    apply strictMono_of_deriv_pos
    intro y
    rw [(hHd y).deriv]
    exact Real.exp_pos _
  have hHcont : Continuous H := continuous_iff_continuousAt.mpr fun y => (hHd y).continuousAt
  -- the open native interval strictly outside the margin
  set a := lo + c.eps * (hi - lo) with ha
  set b := hi - c.eps * (hi - lo) with hb
  have hmemu : ∀ t, t ∈ Set.Ioo a b ↔ c.eps < (t - lo) / (hi - lo) ∧ (t - lo) / (hi - lo) < 1 - c.eps := by
    intro t
    rw [Set.mem_Ioo, lt_div_iff₀ hw, div_lt_iff₀ hw, ha, hb]
    constructor
    · rintro ⟨p, q⟩; constructor <;> nlinarith
    · rintro ⟨p, q⟩; constructor <;> nlinarith
  have hxs : x ∈ Set.Ioo a b := (hmemu x).mpr ⟨h1, h2⟩
  have hHF : ∀ t ∈ Set.Ioo a b, H (F t) = t := by
    intro t ht
    obtain ⟨p, q⟩ := (hmemu t).mp ht
    exact (coord_inverse_forward c hc (.bounded lo hi) t ⟨hlh, p.le, q.le⟩).1
  have hFH : ∀ y, H y ∈ Set.Ioo a b → F (H y) = y := by
    intro y hy
    obtain ⟨p, q⟩ := (hmemu _).mp hy
    have hu : (H y - lo) / (hi - lo) = unitInv c y := by
      simp only [hH, invCoord_eq_unitInv]; exact unit_round' lo hi _ hlh
    rw [hu] at p q
    exact (bounded_forward_inverse c hc.probit lo hi y hlh p.le q.le).1
  -- F is monotone on the interval, and maps it onto the open set H ⁻¹' (a, b)
  have hFmono : MonotoneOn F (Set.Ioo a b) := by
    intro t1 ht1 t2 ht2 h12
    by_contra hlt
    have := hHmono (not_le.mp hlt)
    rw [hHF t1 ht1, hHF t2 ht2] at this
    linarith
  have himg : F '' Set.Ioo a b = H ⁻¹' Set.Ioo a b := by
    ext y
    constructor
    · rintro ⟨t, ht, rfl⟩
      simp only [Set.mem_preimage]
      rw [hHF t ht]; exact ht
    · intro hy
      exact ⟨H y, hy, hFH y hy⟩
  have hFcont : ContinuousAt F x := by
    apply continuousAt_of_monotoneOn_of_image_mem_nhds hFmono (Ioo_mem_nhds hxs.1 hxs.2)
    rw [himg]
    apply (isOpen_Ioo.preimage hHcont).mem_nhds
    simp only [Set.mem_preimage]
    rw [hHF x hxs]; exact hxs
  have hev : ∀ᶠ t in nhds x, H (F t) = t := by
    filter_upwards [Ioo_mem_nhds hxs.1 hxs.2] with t ht
    exact hHF t ht
  have hd := HasDerivAt.of_local_left_inverse hFcont (hHd (F x)) (Real.exp_pos _).ne' hev
  have hneg := (coord_inverse_forward c hc (.bounded lo hi) x ⟨hlh, h1.le, h2.le⟩).2
  simp only [hF] at hd
  rw [hneg, Real.exp_neg, inv_inv] at hd
  exact hd

/-! ### 6. rows: the composite transform -/

theorem zipKinds_length (f : CoordKind ℝ → ℝ → ℝ × ℝ) (ks : List (CoordKind ℝ)) (xs : List ℝ)
    (h : ks.length = xs.length) : (zipKinds f ks xs).length = xs.length := by
  induction ks generalizing xs with
  | nil => cases xs with
    | nil => rfl
    | cons a as => simp at h
  | cons k ks ih => cases xs with
    | nil => simp at h
    | cons a as => simp only [zipKinds, List.length_cons]; rw [ih as (by simpa using h)]

/-- affine stage hypotheses: fitted on data of the right dimension, no zero standard deviation -/
def AffOK (c : TCfg ℝ) : Prop :=
  ∀ m s, c.affine = some (m, s) → m.length = c.kinds.length ∧ s.length = c.kinds.length ∧ ∀ si ∈ s, si ≠ 0

theorem forwardRow_none (c : TCfg ℝ) (h : c.affine = none) (x : List ℝ) :
    forwardRow c x = ((zipKinds (fwdCoord c) c.kinds x).map (·.1),
      ((zipKinds (fwdCoord c) c.kinds x).map (·.2)).sum) := by
  simp [forwardRow, h]

theorem forwardRow_some (c : TCfg ℝ) (m s : List ℝ) (h : c.affine = some (m, s)) (x : List ℝ) :
    forwardRow c x = ((affineFwd m s ((zipKinds (fwdCoord c) c.kinds x).map (·.1))).1,
      ((zipKinds (fwdCoord c) c.kinds x).map (·.2)).sum +
        (affineFwd m s ((zipKinds (fwdCoord c) c.kinds x).map (·.1))).2) := by
  simp [forwardRow, h]

theorem inverseRow_none (c : TCfg ℝ) (h : c.affine = none) (z : List ℝ) :
    inverseRow c z = ((zipKinds (invCoord c) c.kinds z).map (·.1),
      0 + ((zipKinds (invCoord c) c.kinds z).map (·.2)).sum) := by
  simp [inverseRow, h]

theorem inverseRow_some (c : TCfg ℝ) (m s : List ℝ) (h : c.affine = some (m, s)) (z : List ℝ) :
    inverseRow c z = ((zipKinds (invCoord c) c.kinds (affineInv m s z).1).map (·.1),
      (affineInv m s z).2 + ((zipKinds (invCoord c) c.kinds (affineInv m s z).1).map (·.2)).sum) := by
  simp [inverseRow, h]

/-- the coordinate-wise stages, by induction over the kind list: every kind vector at once -/
theorem zip_inverse_forward (c : TCfg ℝ) (hc : CfgOK c) (ks : List (CoordKind ℝ)) (xs : List ℝ)
    (h : List.Forall₂ (CoordAdm c) ks xs) :
    (zipKinds (invCoord c) ks ((zipKinds (fwdCoord c) ks xs).map (·.1))).map (·.1) = xs ∧
    ((zipKinds (invCoord c) ks ((zipKinds (fwdCoord c) ks xs).map (·.1))).map (·.2)).sum =
      -((zipKinds (fwdCoord c) ks xs).map (·.2)).sum := by
  induction h with
  | nil => simp [zipKinds]
  | cons hk _ ih =>
    obtain ⟨h1, h2⟩ := coord_inverse_forward c hc _ _ hk
    simp only [zipKinds, List.map_cons, List.sum_cons, h1, h2, ih.1, ih.2]
    exact ⟨trivial, by ring⟩

theorem zip_forward_inverse (c : TCfg ℝ) (hc : CfgOK c) (ks : List (CoordKind ℝ)) (ys : List ℝ)
    (h : List.Forall₂ (CoordAdmInv c) ks ys) :
    (zipKinds (fwdCoord c) ks ((zipKinds (invCoord c) ks ys).map (·.1))).map (·.1) = ys ∧
    ((zipKinds (fwdCoord c) ks ((zipKinds (invCoord c) ks ys).map (·.1))).map (·.2)).sum =
      -((zipKinds (invCoord c) ks ys).map (·.2)).sum := by
  induction h with
  | nil => simp [zipKinds]
  | cons hk _ ih =>
    obtain ⟨h1, h2⟩ := coord_forward_inverse c hc _ _ hk
    simp only [zipKinds, List.map_cons, List.sum_cons, h1, h2, ih.1, ih.2]
    exact ⟨trivial, by ring⟩

/-- **inverse(forward(x)) = x** for the composite transform, for every kind vector, both bounded kinds, affine
    stage present or not; and the inverse log-Jacobian is the negative of the forward one. -/
theorem inverse_forward_row (c : TCfg ℝ) (hc : CfgOK c) (ha : AffOK c) (x : List ℝ)
    (h : List.Forall₂ (CoordAdm c) c.kinds x) :
    (inverseRow c (forwardRow c x).1).1 = x ∧ (inverseRow c (forwardRow c x).1).2 = -(forwardRow c x).2 := by
  have hlen := h.length_eq
  obtain ⟨hz1, hz2⟩ := zip_inverse_forward c hc c.kinds x h
  cases haff : c.affine with
  | none =>
    rw [forwardRow_none c haff, inverseRow_none c haff]
    simp only [hz1, hz2, zero_add, and_self]
  | some ms =>
    obtain ⟨m, s⟩ := ms
    obtain ⟨hm, hs, h0⟩ := ha m s haff
    have hyl : ((zipKinds (fwdCoord c) c.kinds x).map (·.1)).length = c.kinds.length := by
      rw [List.length_map, zipKinds_length _ _ _ hlen, hlen]
    rw [forwardRow_some c m s haff, inverseRow_some c m s haff]
    simp only
    rw [affine_inverse_forward m s _ (hm.trans hyl.symm) (hs.trans hyl.symm) h0, hz1, hz2,
      affine_inv_logJ m s ((zipKinds (fwdCoord c) c.kinds x).map (·.1))]
    exact ⟨rfl, by ring⟩

/-- the point fed to the coordinate-wise inverse stages: `z` itself, or `z * std + mean` -/
noncomputable def preAffine (c : TCfg ℝ) (z : List ℝ) : List ℝ :=
  match c.affine with
  | none => z
  | some (m, s) => (affineInv m s z).1

/-- **forward(inverse(z)) = z**, companion of `inverse_forward_row` (used for C03) -/
theorem forward_inverse_row (c : TCfg ℝ) (hc : CfgOK c) (ha : AffOK c) (z : List ℝ)
    (hzl : z.length = c.kinds.length) (h : List.Forall₂ (CoordAdmInv c) c.kinds (preAffine c z)) :
    (forwardRow c (inverseRow c z).1).1 = z ∧ (forwardRow c (inverseRow c z).1).2 = -(inverseRow c z).2 := by
  cases haff : c.affine with
  | none =>
    simp only [preAffine, haff] at h
    obtain ⟨hz1, hz2⟩ := zip_forward_inverse c hc c.kinds z h
    rw [inverseRow_none c haff, forwardRow_none c haff]
    simp only [hz1, hz2, zero_add, and_self]
  | some ms =>
    obtain ⟨m, s⟩ := ms
    obtain ⟨hm, hs, h0⟩ := ha m s haff
    simp only [preAffine, haff] at h
    obtain ⟨hz1, hz2⟩ := zip_forward_inverse c hc c.kinds _ h
    rw [inverseRow_some c m s haff, forwardRow_some c m s haff]
    simp only
    rw [hz1, hz2, affine_forward_inverse m s z (hm.trans hzl.symm) (hs.trans hzl.symm) h0,
      affine_inv_logJ m s (affineInv m s z).1 z]
    exact ⟨rfl, by ring⟩

/-- the affine log-Jacobian term of the configuration (`0` without the affine stage) -/
noncomputable def affineTerm (c : TCfg ℝ) : ℝ :=
  match c.affine with
  | none => 0
  | some (_, s) => (s.map fun si => Real.log |1 / si|).sum

/-- the row log-Jacobian is the sum of the per-coordinate terms plus the affine term `Σ log |1/s_i|` -/
theorem forward_logJ_is_sum_of_coordinate_terms (c : TCfg ℝ) (x : List ℝ) :
    (forwardRow c x).2 = ((zipKinds (fwdCoord c) c.kinds x).map (·.2)).sum + affineTerm c := by
  cases haff : c.affine with
  | none => rw [forwardRow_none c haff]; simp [affineTerm, haff]
  | some ms =>
    obtain ⟨m, s⟩ := ms
    rw [forwardRow_some c m s haff]
    simp only [affineTerm, haff]
    rw [(affine_logJ m s _).2]

/-! ### 6b. the row log-Jacobian is `log |det J|` of the (diagonal) Jacobian matrix -/

/-- strictly inside the domain: where each coordinate map is differentiable -/
def CoordInt (c : TCfg ℝ) : CoordKind ℝ → ℝ → Prop
  | .free, _ => True
  | .periodic lo hi, x => lo < x ∧ x < hi
  | .bounded lo hi, x => lo < hi ∧ c.eps < (x - lo) / (hi - lo) ∧ (x - lo) / (hi - lo) < 1 - c.eps

/-- For every kind: whatever the derivative `d` of the forward coordinate map at an interior point is, it is
    non-zero and the reported log-Jacobian term is `log |d|`. -/
theorem coord_logJ_of_hasDerivAt (c : TCfg ℝ) (hc : CfgOK c) (k : CoordKind ℝ) (x d : ℝ) (h : CoordInt c k x)
    (hd : HasDerivAt (fun t => (fwdCoord c k t).1) d x) : (fwdCoord c k x).2 = Real.log |d| ∧ d ≠ 0 := by
  cases k with
  | free =>
    have : d = 1 := hd.unique (hasDerivAt_id x)
    subst this
    simp [fwdCoord]
  | periodic lo hi =>
    have h1 : HasDerivAt (fun t => (fwdCoord c (.periodic lo hi) t).1) 1 x := by
      simp only [fwdCoord, hc.mod]
      exact (periodic_hasDerivAt lo hi x h.1 h.2).1
    have : d = 1 := hd.unique h1
    subst this
    simp [fwdCoord]
  | bounded lo hi =>
    obtain ⟨hlh, h1, h2⟩ := h
    exact ⟨bounded_logJ_of_hasDerivAt c hc lo hi x d hlh h1 h2 hd, by
      rw [bounded_deriv_eq_exp c hc lo hi x d hlh h1 h2 hd]; exact (Real.exp_pos _).ne'⟩

/-- `log |det diag(e₁ … eₙ)| = Σ log |eᵢ|` for non-zero diagonal entries -/
theorem logabsdet_diagonal_list (es : List ℝ) (h0 : ∀ e ∈ es, e ≠ 0) :
    Real.log |(Matrix.diagonal fun i : Fin es.length => es[i.1]).det| = (es.map fun e => Real.log |e|).sum := by
  rw [Matrix.det_diagonal, Finset.abs_prod, Real.log_prod]
  · exact Fin.sum_univ_fun_getElem es (fun e => Real.log |e|)
  · intro i _
    exact abs_ne_zero.mpr (h0 _ (List.getElem_mem _))

/-- the coordinate-wise stages: given the true derivative `dᵢ` of every coordinate map at `xᵢ` (interior
    points), the summed log-Jacobian terms are `Σ log |dᵢ|`, and no `dᵢ` vanishes -/
theorem zip_logJ_of_hasDerivAt (c : TCfg ℝ) (hc : CfgOK c) (ks : List (CoordKind ℝ)) (xs ds : List ℝ)
    (hx : List.Forall₂ (CoordInt c) ks xs)
    (hd : List.Forall₂ (fun (kx : CoordKind ℝ × ℝ) d => HasDerivAt (fun t => (fwdCoord c kx.1 t).1) d kx.2)
      (ks.zip xs) ds) :
    ((zipKinds (fwdCoord c) ks xs).map (·.2)).sum = (ds.map fun d => Real.log |d|).sum ∧ ∀ d ∈ ds, d ≠ 0 := by
  induction hx generalizing ds with
  | nil =>
    simp only [List.zip_nil_left, List.forall₂_nil_left_iff] at hd
    subst hd
    simp [zipKinds]
  | cons hk _ ih =>
    simp only [List.zip_cons_cons] at hd
    cases hd with
    | cons hd1 hd2 =>
      obtain ⟨h1, h2⟩ := coord_logJ_of_hasDerivAt c hc _ _ _ hk hd1
      obtain ⟨ih1, ih2⟩ := ih _ hd2
      refine ⟨by simp only [zipKinds, List.map_cons, List.sum_cons, h1, ih1], ?_⟩
      intro d hdm
      rcases List.mem_cons.mp hdm with rfl | hdm
      · exact h2
      · exact ih2 d hdm

/-- the diagonal of the Jacobian matrix of the whole forward row map: coordinate derivative `dᵢ`, times `1/sᵢ`
    when the affine stage is present (chain rule through `y ↦ (y − mᵢ)/sᵢ`, `affine_coord_hasDerivAt`) -/
noncomputable def jacDiag (c : TCfg ℝ) (ds : List ℝ) : List ℝ :=
  match c.affine with
  | none => ds
  | some (_, s) => List.zipWith (fun d si => d * (1 / si)) ds s

theorem sum_log_zipWith (ds s : List ℝ) (hl : ds.length = s.length) (hd : ∀ d ∈ ds, d ≠ 0)
    (hs : ∀ si ∈ s, si ≠ 0) :
    ((List.zipWith (fun d si => d * (1 / si)) ds s).map fun e => Real.log |e|).sum =
      (ds.map fun d => Real.log |d|).sum + (s.map fun si => Real.log |1 / si|).sum ∧
    ∀ e ∈ List.zipWith (fun d si => d * (1 / si)) ds s, e ≠ 0 := by
  induction ds generalizing s with
  | nil =>
    cases s with
    | nil => simp
    | cons t ts => simp at hl
  | cons d ds ih =>
    cases s with
    | nil => simp at hl
    | cons t ts =>
      have hd0 : d ≠ 0 := hd d List.mem_cons_self
      have ht0 : t ≠ 0 := hs t List.mem_cons_self
      obtain ⟨ih1, ih2⟩ := ih ts (by simpa using hl) (fun e he => hd e (List.mem_cons_of_mem _ he))
        (fun e he => hs e (List.mem_cons_of_mem _ he))
      constructor
      · simp only [List.zipWith_cons_cons, List.map_cons, List.sum_cons, ih1]
        rw [abs_mul, Real.log_mul (abs_ne_zero.mpr hd0) (abs_ne_zero.mpr (one_div_ne_zero ht0))]
        ring
      · intro e he
        simp only [List.zipWith_cons_cons] at he
        rcases List.mem_cons.mp he with rfl | he
        · exact mul_ne_zero hd0 (one_div_ne_zero ht0)
        · exact ih2 e he

/-- **The reported forward log-Jacobian is the log absolute determinant of the true Jacobian matrix** of the
    composite transform (diagonal, because every stage is coordinate-wise), for every kind vector, both bounded
    kinds, affine stage on or off. -/
theorem forward_logJ_is_log_abs_det (c : TCfg ℝ) (hc : CfgOK c) (ha : AffOK c) (x ds : List ℝ)
    (hx : List.Forall₂ (CoordInt c) c.kinds x)
    (hd : List.Forall₂ (fun (kx : CoordKind ℝ × ℝ) d => HasDerivAt (fun t => (fwdCoord c kx.1 t).1) d kx.2)
      (c.kinds.zip x) ds) :
    (forwardRow c x).2 =
      Real.log |(Matrix.diagonal fun i : Fin (jacDiag c ds).length => (jacDiag c ds)[i.1]).det| := by
  obtain ⟨h1, h2⟩ := zip_logJ_of_hasDerivAt c hc c.kinds x ds hx hd
  rw [forward_logJ_is_sum_of_coordinate_terms, h1]
  cases haff : c.affine with
  | none =>
    have hj : jacDiag c ds = ds := by simp [jacDiag, haff]
    rw [logabsdet_diagonal_list (jacDiag c ds) (by rw [hj]; exact h2), hj]
    simp [affineTerm, haff]
  | some ms =>
    obtain ⟨m, s⟩ := ms
    obtain ⟨_, hs, h0⟩ := ha m s haff
    have hj : jacDiag c ds = List.zipWith (fun d si => d * (1 / si)) ds s := by simp [jacDiag, haff]
    have hl : ds.length = s.length := by
      have e1 := hd.length_eq
      have e2 := hx.length_eq
      rw [List.length_zip, ← e2, Nat.min_self] at e1
      omega
    obtain ⟨z1, z2⟩ := sum_log_zipWith ds s hl h2 h0
    rw [logabsdet_diagonal_list (jacDiag c ds) (by rw [hj]; exact z2), hj, z1]
    simp [affineTerm, haff]

/-- every coordinate map, of every kind, is differentiable at interior points with derivative `exp` of the
    reported term -/
theorem coord_hasDerivAt (c : TCfg ℝ) (hc : CfgOK c) (k : CoordKind ℝ) (x : ℝ) (h : CoordInt c k x) :
    HasDerivAt (fun t => (fwdCoord c k t).1) (Real.exp (fwdCoord c k x).2) x := by
  cases k with
  | free =>
    simp only [fwdCoord, Real.exp_zero]
    exact hasDerivAt_id x
  | periodic lo hi =>
    simp only [fwdCoord, hc.mod, Real.exp_zero]
    exact (periodic_hasDerivAt lo hi x h.1 h.2).1
  | bounded lo hi => exact bounded_fwd_hasDerivAt c hc lo hi x h.1 h.2.1 h.2.2

theorem row_derivs_exist (c : TCfg ℝ) (hc : CfgOK c) (ks : List (CoordKind ℝ)) (xs : List ℝ)
    (hx : List.Forall₂ (CoordInt c) ks xs) :
    ∃ ds : List ℝ, List.Forall₂
      (fun (kx : CoordKind ℝ × ℝ) d => HasDerivAt (fun t => (fwdCoord c kx.1 t).1) d kx.2) (ks.zip xs) ds := by
  induction hx with
  | nil => exact ⟨[], by simp⟩
  | cons hk _ ih =>
    obtain ⟨ds, hds⟩ := ih
    exact ⟨_ :: ds, by
      rw [List.zip_cons_cons]
      exact List.Forall₂.cons (coord_hasDerivAt c hc _ _ hk) hds⟩

/-- unconditional form: at every interior row the coordinate derivatives exist, and the reported forward
    log-Jacobian is `log |det J|` of the diagonal Jacobian built from them -/
theorem forward_logJ_is_log_abs_det' (c : TCfg ℝ) (hc : CfgOK c) (ha : AffOK c) (x : List ℝ)
    (hx : List.Forall₂ (CoordInt c) c.kinds x) :
    ∃ ds : List ℝ,
      List.Forall₂ (fun (kx : CoordKind ℝ × ℝ) d => HasDerivAt (fun t => (fwdCoord c kx.1 t).1) d kx.2)
        (c.kinds.zip x) ds ∧
      (forwardRow c x).2 =
        Real.log |(Matrix.diagonal fun i : Fin (jacDiag c ds).length => (jacDiag c ds)[i.1]).det| := by
  obtain ⟨ds, hds⟩ := row_derivs_exist c hc c.kinds x hx
  exact ⟨ds, hds, forward_logJ_is_log_abs_det c hc ha x ds hx hds⟩

/-! ### 7. fitting returns the forward image of the fitting data -/

theorem fit_is_forward_image (ddof : Nat) (c : TCfg ℝ) (rows : List (List ℝ)) :
    (fitRows ddof c rows).2 = rows.map (fun r => (forwardRow (fitRows ddof c rows).1 r).1) := by
  unfold fitRows
  cases c.affine <;> rfl

/-- without the affine stage fitting leaves the configuration unchanged … -/
theorem fit_no_affine (ddof : Nat) (c : TCfg ℝ) (rows : List (List ℝ)) (h : c.affine = none) :
    (fitRows ddof c rows).1 = c := by
  unfold fitRows
  rw [h]

/-- the data after the periodic and bounded stages, on which the affine stage is fitted -/
noncomputable def preRows (c : TCfg ℝ) (rows : List (List ℝ)) : List (List ℝ) :=
  rows.map fun r => (forwardRow { c with affine := none } r).1

/-- … and with it only the affine field changes: it becomes the column mean / std of the pre-affine image -/
theorem fit_affine (ddof : Nat) (c : TCfg ℝ) (rows : List (List ℝ)) (ms : List ℝ × List ℝ)
    (h : c.affine = some ms) :
    (fitRows ddof c rows).1 = { c with affine := some (
      (List.range c.kinds.length).map (colMean (preRows c rows)),
      (List.range c.kinds.length).map (colStd ddof (preRows c rows))) } := by
  unfold fitRows
  rw [h]
  rfl

/-! ### 8. periodic coordinates of a row are wrapped whatever the input -/

theorem zip_periodic_wrapped (c : TCfg ℝ) (hc : c.mod = rmod) (ks : List (CoordKind ℝ)) (xs : List ℝ)
    (i : Nat) (lo hi v : ℝ) (hk : ks[i]? = some (.periodic lo hi)) (hlh : lo < hi)
    (hv : ((zipKinds (fwdCoord c) ks xs).map (·.1))[i]? = some v) : lo ≤ v ∧ v < hi := by
  induction ks generalizing xs i with
  | nil => simp at hk
  | cons k ks ih =>
    cases xs with
    | nil => simp [zipKinds] at hv
    | cons a as =>
      cases i with
      | zero =>
        simp only [List.getElem?_cons_zero, Option.some.injEq] at hk
        subst hk
        simp only [zipKinds, List.map_cons, List.getElem?_cons_zero, Option.some.injEq, fwdCoord, hc] at hv
        subst hv
        exact periodic_range lo hi a hlh
      | succ j =>
        simp only [List.getElem?_cons_succ] at hk
        simp only [zipKinds, List.map_cons, List.getElem?_cons_succ] at hv
        exact ih as j hk hv

/-- every periodic coordinate of the forward image lies in `[lower, upper)`, for ANY real input row -/
theorem periodic_wraps_any_real (c : TCfg ℝ) (hc : c.mod = rmod) (haff : c.affine = none) (x : List ℝ)
    (i : Nat) (lo hi v : ℝ) (hk : c.kinds[i]? = some (.periodic lo hi)) (hlh : lo < hi)
    (hv : (forwardRow c x).1[i]? = some v) : lo ≤ v ∧ v < hi := by
  rw [forwardRow_none c haff] at hv
  exact zip_periodic_wrapped c hc c.kinds x i lo hi v hk hlh hv

/-- the same for the inverse map (samples drawn from the proposal) -/
theorem periodic_wraps_inverse (c : TCfg ℝ) (hc : c.mod = rmod) (z : List ℝ)
    (i : Nat) (lo hi v : ℝ) (hk : c.kinds[i]? = some (.periodic lo hi)) (hlh : lo < hi)
    (hv : (inverseRow c z).1[i]? = some v) : lo ≤ v ∧ v < hi := by
  have key : ∀ (ks : List (CoordKind ℝ)) (ys : List ℝ) (i : Nat), ks[i]? = some (.periodic lo hi) →
      ((zipKinds (invCoord c) ks ys).map (·.1))[i]? = some v → lo ≤ v ∧ v < hi := by
    intro ks
    induction ks with
    | nil => intro ys i hk; simp at hk
    | cons k ks ih =>
      intro ys i hk hv
      cases ys with
      | nil => simp [zipKinds] at hv
      | cons a as =>
        cases i with
        | zero =>
          simp only [List.getElem?_cons_zero, Option.some.injEq] at hk
          subst hk
          simp only [zipKinds, List.map_cons, List.getElem?_cons_zero, Option.some.injEq, invCoord, hc] at hv
          subst hv
          exact periodic_range lo hi a hlh
        | succ j =>
          simp only [List.getElem?_cons_succ] at hk
          simp only [zipKinds, List.map_cons, List.getElem?_cons_succ] at hv
          exact ih as j hk hv
  cases haff : c.affine with
  | none => rw [inverseRow_none c haff] at hv; exact key _ _ i hk hv
  | some ms =>
    obtain ⟨m, s⟩ := ms
    rw [inverseRow_some c m s haff] at hv; exact key _ _ i hk hv

/-! ### non-vacuity: the hypotheses are satisfiable -/

/-- `ProbitOK` holds for the mathematical `erf` / `erf⁻¹` (`Lemmas/ErfC04.lean`) and the exact constants: the
    hypothesis bundle about scipy's special functions is consistent. -/
noncomputable def realProbit : ProbitConsts ℝ :=
  ⟨Real.sqrt 2, Real.log (2 * Real.pi), ErfC04.erfR, ErfC04.erfinvR⟩

theorem probitOK_satisfiable : ProbitOK realProbit where
  sqrt2 := rfl
  log2pi := rfl
  erf_erfinv := ErfC04.erfR_erfinvR
  erfinv_erf := ErfC04.erfinvR_erfR
  erf_deriv := ErfC04.erfR_hasDerivAt
  erf_range := fun y => ⟨ErfC04.erfR_gt_neg_one y, ErfC04.erfR_lt_one y⟩

/-- a three-dimensional configuration: one free, one periodic on `[0, 1)`, one bounded on `[0, 2]` -/
noncomputable def exCfg (b : BoundedKind) (aff : Option (List ℝ × List ℝ)) : TCfg ℝ :=
  { kinds := [.free, .periodic 0 1, .bounded 0 2], bounded := b, eps := 1 / 1000000, affine := aff,
    pc := realProbit, mod := rmod }

theorem exCfg_ok (b : BoundedKind) (aff : Option (List ℝ × List ℝ)) : CfgOK (exCfg b aff) :=
  ⟨rfl, by norm_num [exCfg], fun _ => probitOK_satisfiable⟩

theorem exCfg_affOK (b : BoundedKind) : AffOK (exCfg b (some ([1, 2, 3], [2, -3, 4]))) ∧ AffOK (exCfg b none) := by
  constructor
  · intro m s h
    simp only [exCfg, Option.some.injEq, Prod.mk.injEq] at h
    obtain ⟨rfl, rfl⟩ := h
    refine ⟨rfl, rfl, ?_⟩
    intro si hsi
    simp only [List.mem_cons, List.not_mem_nil, or_false] at hsi
    rcases hsi with rfl | rfl | rfl <;> norm_num
  · intro m s h
    simp [exCfg] at h

theorem exCfg_adm (b : BoundedKind) (aff : Option (List ℝ × List ℝ)) :
    List.Forall₂ (CoordAdm (exCfg b aff)) (exCfg b aff).kinds [5, 1 / 2, 1] := by
  refine List.Forall₂.cons trivial (List.Forall₂.cons ?_ (List.Forall₂.cons ?_ List.Forall₂.nil))
  · simp only [CoordAdm]; norm_num
  · simp only [CoordAdm, exCfg]; norm_num

/-- all four on/off combinations (logit / probit, affine on / off) of the composite theorem are non-vacuous -/
example (b : BoundedKind) :
    (inverseRow (exCfg b (some ([1, 2, 3], [2, -3, 4])))
      (forwardRow (exCfg b (some ([1, 2, 3], [2, -3, 4]))) [5, 1 / 2, 1]).1).1 = [5, 1 / 2, 1] ∧
    (inverseRow (exCfg b none) (forwardRow (exCfg b none) [5, 1 / 2, 1]).1).1 = [5, 1 / 2, 1] :=
  ⟨(inverse_forward_row _ (exCfg_ok b _) (exCfg_affOK b).1 _ (exCfg_adm b _)).1,
   (inverse_forward_row _ (exCfg_ok b _) (exCfg_affOK b).2 _ (exCfg_adm b _)).1⟩

/-- a periodic coordinate far outside its range is wrapped: `7.25 ↦ 0.25` on `[0, 1)` -/
example : periodic1 rmod 0 1 (29 / 4) = 1 / 4 :=
  periodic_unique 0 1 (29 / 4) (1 / 4) (by norm_num) (by norm_num) (by norm_num) (-7) (by norm_num)

example : (sigmoid1 (logit1 (some (1 / 1000000 : ℝ)) (1 / 3)).1).1 = 1 / 3 :=
  sigmoid_logit (1 / 1000000) (1 / 3) (by norm_num) (by norm_num) (by norm_num) (by norm_num)

/-- `forward_logJ_is_log_abs_det` is non-vacuous (logit kind, affine on or off): the derivatives exist -/
example (aff : Option (List ℝ × List ℝ)) (ha : AffOK (exCfg .logit aff)) :
    ∃ ds : List ℝ, (forwardRow (exCfg .logit aff) [5, 1 / 2, 1]).2 =
      Real.log |(Matrix.diagonal fun i : Fin (jacDiag (exCfg .logit aff) ds).length =>
        (jacDiag (exCfg .logit aff) ds)[i.1]).det| := by
  refine ⟨[1, 1, 1 / ((2 - 0) * (((1 : ℝ) - 0) / (2 - 0)) * (1 - ((1 : ℝ) - 0) / (2 - 0)))], ?_⟩
  apply forward_logJ_is_log_abs_det _ (exCfg_ok _ _) ha
  · refine List.Forall₂.cons trivial (List.Forall₂.cons ?_ (List.Forall₂.cons ?_ List.Forall₂.nil))
    · simp only [CoordInt]; norm_num
    · simp only [CoordInt, exCfg]; norm_num
  · refine List.Forall₂.cons ?_ (List.Forall₂.cons ?_ (List.Forall₂.cons ?_ List.Forall₂.nil))
    · exact hasDerivAt_id _
    · exact (periodic_hasDerivAt 0 1 (1 / 2) (by norm_num) (by norm_num)).1
    · exact bounded_logit_hasDerivAt _ (exCfg_ok _ _) rfl 0 2 1 (by norm_num)
        (by simp only [exCfg]; norm_num) (by simp only [exCfg]; norm_num)

/-- … and for both bounded kinds through the unconditional form -/
example (b : BoundedKind) :
    ∃ ds : List ℝ, (forwardRow (exCfg b (some ([1, 2, 3], [2, -3, 4]))) [5, 1 / 2, 1]).2 =
      Real.log |(Matrix.diagonal fun i : Fin (jacDiag (exCfg b (some ([1, 2, 3], [2, -3, 4]))) ds).length =>
        (jacDiag (exCfg b (some ([1, 2, 3], [2, -3, 4]))) ds)[i.1]).det| := by
  obtain ⟨ds, _, h⟩ := forward_logJ_is_log_abs_det' _ (exCfg_ok b _) (exCfg_affOK b).1 [5, 1 / 2, 1] (by
    refine List.Forall₂.cons trivial (List.Forall₂.cons ?_ (List.Forall₂.cons ?_ List.Forall₂.nil))
    · simp only [CoordInt]; norm_num
    · simp only [CoordInt, exCfg]; norm_num)
  exact ⟨ds, h⟩

end C04
