import AspireModel.Props.C03
import AspireModel.Gen.SrcFlows
/-
  C03, tie to the source: `log_prob` and `sample_and_log_prob` of both proposal wrappers (`ZukoFlow`, `FlowJax`), translated from
  `/repo/src/aspire/flows/{torch,jax}/flows.py` on every run with the data transform (`self.rescale` / `self.inverse_rescale`) and the
  neural density (`self._flow().log_prob`, the draw and its own log-density) as parameters, are the model's `flowLogProb` and
  `flowSampleAndLogProb` (`Model/Transforms.lean`) when those parameters are the model's `forwardRow c` / `inverseRow c`:
  base log-density of the rescaled point PLUS the forward log-Jacobian; base log-density of the draw MINUS the inverse log-Jacobian.
  Generic in the scalar.  Then `sample_eval_agree` is restated for the translated source of both back-ends.
-/
set_option linter.unusedSectionVars false
namespace C03
open Model C04

section generic
variable {α : Type} [Num α] [DecidableLT α] [DecidableLE α]

theorem tie_zuko_log_prob (base : List α → α) (c : TCfg α) (x : List α) :
    Gen.zuko_log_prob x (forwardRow c) base = flowLogProb base c x := by
  simp only [Gen.zuko_log_prob, flowLogProb]

theorem tie_flowjax_log_prob (base : List α → α) (c : TCfg α) (x : List α) :
    Gen.flowjax_log_prob x (forwardRow c) base = flowLogProb base c x := by
  simp only [Gen.flowjax_log_prob, flowLogProb]

/-- the zuko wrapper receives the draw together with its own base log-density -/
theorem tie_zuko_sample_and_log_prob (base : List α → α) (c : TCfg α) (z : List α) :
    Gen.zuko_sample_and_log_prob z (base z) (inverseRow c) = flowSampleAndLogProb base c z := by
  simp only [Gen.zuko_sample_and_log_prob, flowSampleAndLogProb]

/-- the flowjax wrapper evaluates the base density at the draw itself -/
theorem tie_flowjax_sample_and_log_prob (base : List α → α) (c : TCfg α) (z : List α) :
    Gen.flowjax_sample_and_log_prob z base (inverseRow c) = flowSampleAndLogProb base c z := by
  simp only [Gen.flowjax_sample_and_log_prob, flowSampleAndLogProb]

end generic

/-- **sampling and evaluation agree, for the translated source of the zuko wrapper**: the log-density returned with a draw equals
    `log_prob` evaluated at the returned point, for every neural density and every admissible draw -/
theorem src_zuko_sample_eval_agree (base : List ℝ → ℝ) (c : TCfg ℝ) (hc : CfgOK c) (ha : AffOK c) (z : List ℝ)
    (hzl : z.length = c.kinds.length) (h : List.Forall₂ (CoordAdmInv c) c.kinds (preAffine c z)) :
    (Gen.zuko_sample_and_log_prob z (base z) (inverseRow c)).2
      = Gen.zuko_log_prob (Gen.zuko_sample_and_log_prob z (base z) (inverseRow c)).1 (forwardRow c) base := by
  rw [tie_zuko_sample_and_log_prob, tie_zuko_log_prob]
  exact sample_eval_agree base c hc ha z hzl h

/-- the same for the flowjax wrapper -/
theorem src_flowjax_sample_eval_agree (base : List ℝ → ℝ) (c : TCfg ℝ) (hc : CfgOK c) (ha : AffOK c) (z : List ℝ)
    (hzl : z.length = c.kinds.length) (h : List.Forall₂ (CoordAdmInv c) c.kinds (preAffine c z)) :
    (Gen.flowjax_sample_and_log_prob z base (inverseRow c)).2
      = Gen.flowjax_log_prob (Gen.flowjax_sample_and_log_prob z base (inverseRow c)).1 (forwardRow c) base := by
  rw [tie_flowjax_sample_and_log_prob, tie_flowjax_log_prob]
  exact sample_eval_agree base c hc ha z hzl h

end C03
