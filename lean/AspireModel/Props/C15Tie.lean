import AspireModel.Props.C15
import AspireModel.Gen.SrcConv
/-
  C15, tie to the source: the seven conversion methods, the constructor's `__post_init__` and the method resolution order of the three
  container classes as `/repo` has them NOW (`Gen/SrcConv.lean`, regenerated from `samples.py` on every run by
  `harness/translate/conv2lean.py`) against the hand-written model `Model.convert` — whose `fieldsKept := true` was, until this file, a
  parameter of the model that only the behavioural correspondence supported.

  Everything ranges over finite types, so each statement is proved by evaluating the WHOLE table of 1458 requests in the kernel
  (`decide +kernel`) and lifting with `C15.mem_allConv` — a proof for every request, not a sample:
    * `tie_convert`: running the translated plan of the method the class resolves to (the dtype it settles on, the wrappers around every
      array, the constructor's conversions) gives the namespace and width `Model.convert` gives, or the same error, for EVERY request the
      method's signature accepts;
    * `src_fields_kept`: whenever the translated conversion succeeds, every per-row field is handed to the constructor built from ITS OWN
      field, ends in the namespace and at the width of the coordinates, and the set-level values of the class (temperature, evidence and its
      error) are carried — the clause the model only asserted;
    * `src_conversion_total_and_faithful`: the property's statement for the translated source.
-/
namespace C15
open Model Gen

/-- the translated conversion for a request: the plan of the method the class resolves to, run through the translated constructor -/
def srcConvert (i : ConvIn) : Except ConvErr ConvResult :=
  (conv_dispatch i.cls i.method i.src i.w (some i.tgt) i.spec).run conv_post_init i.src i.w

/-- set-level values: `from_samples` is a constructor from another object, the caller passes them as keywords -/
def keepsFor (i : ConvIn) (r : ConvResult) : Bool :=
  match i.method with
  | .fromSamples => r.keeps .base
  | _ => r.keeps i.cls

def tieRow (i : ConvIn) : Bool :=
  match srcConvert i, convert i with
  | .ok r, .ok o => decide (r.x = (o.ns, o.w)) && keepsFor i r
  | .error e, .error e' => decide (e = e')
  | _, _ => false

theorem tie_table : (allConv.filter fun i => acceptsSpec i).all tieRow = true := by decide +kernel

/-- **translated source = model**, for every request the method accepts -/
theorem tie_convert (i : ConvIn) (ha : acceptsSpec i = true) :
    (srcConvert i).map (fun r => (r.x.1, r.x.2)) = (convert i).map (fun o => (o.ns, o.w)) := by
  have h := List.all_eq_true.mp tie_table i (List.mem_filter.mpr ⟨mem_allConv i, ha⟩)
  unfold tieRow at h
  cases hs : srcConvert i with
  | error e =>
    cases hc : convert i with
    | error e' => simp only [hs, hc, decide_eq_true_eq] at h; simp [Except.map]
    | ok o => simp [hs, hc] at h
  | ok r =>
    cases hc : convert i with
    | error e' => simp [hs, hc] at h
    | ok o =>
      simp only [hs, hc, Bool.and_eq_true, decide_eq_true_eq] at h
      simp [Except.map, h.1]

theorem keeps_cols (r : ConvResult) (cls : SCls) (h : r.keeps cls = true) :
    r.ll = some r.x ∧ r.lp = some r.x ∧ r.lq = some r.x := by
  unfold ConvResult.keeps at h
  simp only [Bool.and_eq_true, beq_iff_eq] at h
  exact ⟨h.1.1.1, h.1.1.2, h.1.2⟩

theorem keeps_scalars (r : ConvResult) (cls : SCls) (h : r.keeps cls = true) :
    (cls = .samples → r.logZ = true ∧ r.logZerr = true) ∧ (cls = .smc → r.beta = true ∧ r.logZ = true ∧ r.logZerr = true) := by
  unfold ConvResult.keeps at h
  simp only [Bool.and_eq_true] at h
  constructor
  · intro hc; subst hc; simpa [Bool.and_eq_true] using h.2
  · intro hc; subst hc
    have := h.2
    simp only [Bool.and_eq_true] at this
    exact ⟨this.1.1, this.1.2, this.2⟩

/-- **no field is dropped, swapped or left at another precision** by the translated conversions: whenever one succeeds, every per-row
    field is present in the namespace and at the width of the coordinates, and the set-level values of the class are carried -/
theorem src_fields_kept (i : ConvIn) (ha : acceptsSpec i = true) (r : ConvResult) (hr : srcConvert i = .ok r) :
    r.ll = some r.x ∧ r.lp = some r.x ∧ r.lq = some r.x ∧
    (i.method ≠ .fromSamples → (i.cls = .samples → r.logZ = true ∧ r.logZerr = true) ∧
                                (i.cls = .smc → r.beta = true ∧ r.logZ = true ∧ r.logZerr = true)) := by
  have h := List.all_eq_true.mp tie_table i (List.mem_filter.mpr ⟨mem_allConv i, ha⟩)
  unfold tieRow at h
  rw [hr] at h
  cases hc : convert i with
  | error e' => simp [hc] at h
  | ok o =>
    simp only [hc, Bool.and_eq_true, decide_eq_true_eq] at h
    have hk := h.2
    unfold keepsFor at hk
    cases hm : i.method with
    | fromSamples =>
      simp only [hm] at hk
      obtain ⟨a, b, c⟩ := keeps_cols r _ hk
      exact ⟨a, b, c, fun hne => absurd rfl hne⟩
    | toNumpy =>
      simp only [hm] at hk
      obtain ⟨a, b, c⟩ := keeps_cols r _ hk
      exact ⟨a, b, c, fun _ => keeps_scalars r _ hk⟩
    | toNamespace =>
      simp only [hm] at hk
      obtain ⟨a, b, c⟩ := keeps_cols r _ hk
      exact ⟨a, b, c, fun _ => keeps_scalars r _ hk⟩

/-- the property's statement for the translated source: every accepted, well-formed request succeeds, lands in the requested namespace at
    the requested width, with every field -/
theorem src_conversion_total_and_faithful (i : ConvIn) (hv : validReq i = true) (ha : acceptsSpec i = true) :
    ∃ r, srcConvert i = .ok r ∧ r.x = ((match i.method with | .toNumpy => Ns.numpy | _ => i.tgt), expectedWidth i) ∧
      r.ll = some r.x ∧ r.lp = some r.x ∧ r.lq = some r.x := by
  obtain ⟨o, ho, hns, hw, _⟩ := conversion_total_and_faithful i hv ha
  have ht := tie_convert i ha
  rw [ho] at ht
  cases hs : srcConvert i with
  | error e => rw [hs] at ht; simp [Except.map] at ht
  | ok r =>
    rw [hs] at ht
    simp only [Except.map, Except.ok.injEq, Prod.mk.injEq] at ht
    obtain ⟨a, b, c, _⟩ := src_fields_kept i ha r hs
    refine ⟨r, rfl, ?_, a, b, c⟩
    exact Prod.ext (ht.1.trans hns) (ht.2.trans hw)

/-- non-vacuity: a request that exercises the explicit wrappers (a float32 torch `Samples` to numpy) and one that fails in both (a foreign
    dtype object handed to torch) -/
example : srcConvert { cls := .samples, src := .torch, w := .f32, tgt := .numpy, spec := .none, method := .toNumpy } =
    .ok { x := (.numpy, .f32), ll := some (.numpy, .f32), lp := some (.numpy, .f32), lq := some (.numpy, .f32), beta := false, logZ := true, logZerr := true } := by
  rfl
example : srcConvert { cls := .base, src := .numpy, w := .f64, tgt := .torch, spec := .native .numpy .f32, method := .toNamespace } = .error .typeError ∧
    convert { cls := .base, src := .numpy, w := .f64, tgt := .torch, spec := .native .numpy .f32, method := .toNamespace } = .error .typeError := by
  exact ⟨rfl, rfl⟩

end C15
