import AspireModel.Props.C07
import AspireModel.Model.Smc
import Mathlib.Algebra.Order.Floor.Semiring
/-
  C06 — the temperature schedule of every SMC run is strictly increasing, stays in (0, 1], ends
  exactly at 1 (or at the step cap); a fixed schedule of n steps performs exactly n iterations;
  the minimum step is honoured; no valid option combination raises or spins.
  Model: `Model/Schedule.lean` (`determineBeta`, `fixedNext`, and the pinned `determineBetaPinned`,
  `fixedNextAccum` for the negative theorems).  The loop of `SMCSampler.sample` restricted to the
  schedule state `(iteration, β, min_step)` is `sched` below; the population at every iteration is
  arbitrary (`effs : ℕ → ℝ → ℝ → ℝ`: iteration, current temperature, trial temperature ↦ efficiency).
-/
namespace C06
open Model C07

/-! ### one adaptive step -/

theorem betaStar_gt (c : BetaCfg ℝ) (eff : ℝ → ℝ) (fuel : ℕ) (β : ℝ) (hβ : β < 1) (htol : 0 < c.tol) :
    β < betaStar c eff fuel β ∧ min 1 (β + c.tol / 2) ≤ betaStar c eff fuel β := by
  unfold betaStar
  split
  · refine ⟨lt_min (by linarith) hβ, ?_⟩
    apply le_min
    · exact le_trans (min_le_right _ _) (by linarith)
    · exact min_le_left _ _
  · rename_i h
    have h := not_le.mp h
    refine ⟨h, ?_⟩
    by_cases hmet : currentTarget c β ≤ eff 1
    · have h0 : betaStar0 c eff fuel β = 1 := by simp only [betaStar0, lo0, if_pos hmet, bisect_diag]
      rw [h0]; exact min_le_left _ _
    · have hl : lo0 c eff β = β := by simp only [lo0, if_neg hmet]
      have hj := bisect_lo_jump eff (currentTarget c β) c.tol fuel (lo0 c eff β) 1 (by rw [hl]; exact hβ.le)
      rw [hl] at hj
      rcases hj with hj | hj
      · exfalso; unfold betaStar0 at h; rw [hl, hj] at h; exact lt_irrefl _ h
      · exact le_trans (min_le_right _ _) (by unfold betaStar0; rw [hl]; exact hj.le)

theorem newMinStep_ge (c : BetaCfg ℝ) (eff : ℝ → ℝ) (fuel : ℕ) (β minStep : ℝ) (hβ : β < 1)
    (htol : 0 < c.tol) (hm : 0 ≤ minStep) : minStep ≤ newMinStep c eff fuel β minStep := by
  unfold newMinStep
  split
  · rename_i h
    have h1 := (betaStar_gt c eff fuel β hβ htol).1
    have h2 : 0 < 1 - betaStar c eff fuel β := by linarith [h.2]
    rw [le_div_iff₀ h2]
    nlinarith
  · exact le_rfl

/-- **7. `adaptive_progress`** (one call of `determine_beta`, adaptive): for every efficiency curve,
    `β < 1`, `tol > 0`, `min_step ≥ 0` and *any* amount of bisection fuel the call does not raise,
    the temperature strictly increases, stays `≤ 1`, advances by at least half the tolerance (or to
    1) and honours the minimum-step floor, which itself never decreases. -/
theorem adaptive_progress (c : BetaCfg ℝ) (roundNat : ℝ → ℕ) (eff : ℝ → ℝ) (fuel : ℕ)
    (β step minStep : ℝ) (ha : c.adaptive = true) (hβ : β < 1) (htol : 0 < c.tol)
    (hm : 0 ≤ minStep) :
    ∃ β' m', determineBeta c roundNat eff fuel β step minStep = .ok (β', m') ∧
      β < β' ∧ β' ≤ 1 ∧ min 1 (β + c.tol / 2) ≤ β' ∧ min 1 (β + m') ≤ β' ∧
      min 1 (β + minStep) ≤ β' ∧ minStep ≤ m' := by
  refine ⟨_, _, determineBeta_adaptive c roundNat eff fuel β step minStep ha, ?_⟩
  obtain ⟨h1, h2⟩ := betaStar_gt c eff fuel β hβ htol
  have h3 := newMinStep_ge c eff fuel β minStep hβ htol hm
  have hfl : min 1 (β + newMinStep c eff fuel β minStep)
      ≤ min (max (betaStar c eff fuel β) (β + newMinStep c eff fuel β minStep)) 1 := by
    apply le_min
    · exact le_trans (min_le_right _ _) (le_max_right _ _)
    · exact min_le_left _ _
  refine ⟨lt_min (lt_of_lt_of_le h1 (le_max_left _ _)) hβ, min_le_right _ _, ?_, hfl, ?_, h3⟩
  · apply le_min
    · exact le_trans h2 (le_max_left _ _)
    · exact min_le_left _ _
  · refine le_trans ?_ hfl
    exact min_le_min le_rfl (by linarith)

/-- **`never_raises`**: the (fixed) `determine_beta` has no failing path at all -/
theorem never_raises (c : BetaCfg ℝ) (roundNat : ℝ → ℕ) (eff : ℝ → ℝ) (fuel : ℕ)
    (β step minStep : ℝ) :
    ∃ r, determineBeta c roundNat eff fuel β step minStep = .ok r := by
  cases ha : c.adaptive
  · exact ⟨_, by simp only [determineBeta, ha]; rfl⟩
  · exact ⟨_, determineBeta_adaptive c roundNat eff fuel β step minStep ha⟩

/-! ### the fixed schedule -/

/-- **8. `fixed_exact`**: with `n ≥ 1` steps, from `β = k/n` (`k < n`) the rule returns exactly
    `(k+1)/n` — for any rounding function that is the identity on the naturals -/
theorem fixed_exact (roundNat : ℝ → ℕ) (hr : ∀ k : ℕ, roundNat (k : ℝ) = k) (n k : ℕ)
    (hn : 1 ≤ n) (hk : k < n) :
    fixedNext roundNat ((k : ℝ) / n) (1 / (n : ℝ)) = ((k + 1 : ℕ) : ℝ) / n := by
  have hn0 : (0 : ℝ) < n := by exact_mod_cast hn
  simp only [fixedNext, minS_real]
  rw [one_div_one_div, hr n, div_mul_cancel₀ _ hn0.ne', hr k]
  apply min_eq_left
  rw [div_le_one hn0]
  exact_mod_cast hk

/-- the fixed branch of `determine_beta` is that rule and leaves the minimum step alone -/
theorem determineBeta_fixed (c : BetaCfg ℝ) (roundNat : ℝ → ℕ) (eff : ℝ → ℝ) (fuel : ℕ)
    (β step minStep : ℝ) (ha : c.adaptive = false) :
    determineBeta c roundNat eff fuel β step minStep = .ok (fixedNext roundNat β step, minStep) := by
  simp only [determineBeta, ha]; rfl

/-- the temperatures a fixed schedule visits: `k`-fold iteration of the rule from 0 -/
noncomputable def fixedIter (roundNat : ℝ → ℕ) (step : ℝ) : ℕ → ℝ
  | 0 => 0
  | k + 1 => fixedNext roundNat (fixedIter roundNat step k) step

/-- the fixed schedule visits `1/n, 2/n, …, n/n` -/
theorem fixedIter_eq (roundNat : ℝ → ℕ) (hr : ∀ k : ℕ, roundNat (k : ℝ) = k) (n : ℕ) (hn : 1 ≤ n)
    (k : ℕ) (hk : k ≤ n) : fixedIter roundNat (1 / (n : ℝ)) k = (k : ℝ) / n := by
  induction k with
  | zero => simp [fixedIter]
  | succ k ih =>
    rw [fixedIter, ih (by omega), fixed_exact roundNat hr n k hn (by omega)]

/-- … hence strictly increasing, inside `(0, 1]`, equal to 1 after exactly `n` iterations and
    not before -/
theorem fixed_schedule (roundNat : ℝ → ℕ) (hr : ∀ k : ℕ, roundNat (k : ℝ) = k) (n : ℕ) (hn : 1 ≤ n) :
    fixedIter roundNat (1 / (n : ℝ)) n = 1 ∧
    (∀ k, k < n → fixedIter roundNat (1 / (n : ℝ)) k < fixedIter roundNat (1 / (n : ℝ)) (k + 1)) ∧
    (∀ k, 1 ≤ k → k ≤ n → 0 < fixedIter roundNat (1 / (n : ℝ)) k ∧ fixedIter roundNat (1 / (n : ℝ)) k ≤ 1) ∧
    (∀ k, k < n → fixedIter roundNat (1 / (n : ℝ)) k ≠ 1) := by
  have hn0 : (0 : ℝ) < n := by exact_mod_cast hn
  refine ⟨?_, ?_, ?_, ?_⟩
  · rw [fixedIter_eq roundNat hr n hn n le_rfl, div_self hn0.ne']
  · intro k hk
    rw [fixedIter_eq roundNat hr n hn k hk.le, fixedIter_eq roundNat hr n hn (k + 1) hk]
    apply div_lt_div_of_pos_right _ hn0
    exact_mod_cast Nat.lt_succ_self k
  · intro k h1 hk
    rw [fixedIter_eq roundNat hr n hn k hk]
    refine ⟨div_pos (by exact_mod_cast h1) hn0, ?_⟩
    rw [div_le_one hn0]; exact_mod_cast hk
  · intro k hk
    rw [fixedIter_eq roundNat hr n hn k hk.le]
    intro h
    rw [div_eq_one_iff_eq hn0.ne'] at h
    have : k = n := by exact_mod_cast h
    omega

/-! ### the two pinned defects of the adaptive branch -/

theorem bisect_lo_stays (eff : ℝ → ℝ) (target tol : ℝ) (fuel : ℕ) (lo hi : ℝ) (htol : 0 ≤ tol)
    (hfail : ∀ t, lo < t → eff t < target) :
    (bisect eff target tol fuel lo hi).1 = lo := by
  induction fuel generalizing hi with
  | zero => rfl
  | succ f ih =>
    rw [bisect_succ]
    split
    · rename_i hw
      rw [if_neg (not_le.mpr (hfail _ (by linarith)))]
      exact ih _
    · rfl

/-- **10a. `pinned_raises`**: with the adaptive minimum step (`max_n_steps` given, `min_step`
    not) the pinned code divides by `1 − β* = 0` whenever the full step meets the target -/
theorem pinned_raises (c : BetaCfg ℝ) (eff : ℝ → ℝ) (fuel : ℕ) (β step minStep : ℝ)
    (ha : c.adaptive = true) (hams : c.adaptiveMinStep = true)
    (hmet : currentTarget c β ≤ eff 1) :
    determineBetaPinned c eff fuel β step minStep = .error .zeroDivision := by
  simp only [determineBetaPinned, ha, hams, Bool.not_true, Bool.false_eq_true, if_false, if_true,
    if_pos hmet, bisect_diag, sub_self, lt_irrefl, or_self]

/-- … while the fixed code returns `β' = 1` on the very same inputs -/
theorem fixed_code_does_not_raise (c : BetaCfg ℝ) (roundNat : ℝ → ℕ) (eff : ℝ → ℝ) (fuel : ℕ)
    (β step minStep : ℝ) (ha : c.adaptive = true) (hβ : β < 1)
    (hmet : currentTarget c β ≤ eff 1) :
    determineBeta c roundNat eff fuel β step minStep = .ok (1, minStep) :=
  full_step_if_met c roundNat eff fuel β step minStep ha hβ hmet

/-- **10b. `pinned_stalls`**: if no temperature above `β` meets the target (a degenerate
    population), the pinned code without a minimum step returns `β' = β`: the loop of `sample`
    then repeats the same iteration forever -/
theorem pinned_stalls (c : BetaCfg ℝ) (eff : ℝ → ℝ) (fuel : ℕ) (β step : ℝ)
    (ha : c.adaptive = true) (hams : c.adaptiveMinStep = false) (hβ : β < 1) (htol : 0 ≤ c.tol)
    (hfail : ∀ t, β < t → eff t < currentTarget c β) :
    determineBetaPinned c eff fuel β step 0 = .ok (β, 0) := by
  have h1 : ¬ currentTarget c β ≤ eff 1 := not_le.mpr (hfail 1 hβ)
  simp only [determineBetaPinned, ha, hams, Bool.not_true, Bool.false_eq_true, if_false,
    if_neg h1, bisect_lo_stays eff _ c.tol fuel β 1 htol hfail, minS_real, maxS_real, add_zero,
    max_self, min_eq_left hβ.le]

/-- … while the fixed code advances by the tolerance on the very same inputs -/
theorem fixed_code_does_not_stall (c : BetaCfg ℝ) (roundNat : ℝ → ℕ) (eff : ℝ → ℝ) (fuel : ℕ)
    (β step : ℝ) (ha : c.adaptive = true) (hams : c.adaptiveMinStep = false) (hβ : β < 1)
    (htol : 0 < c.tol) (hfail : ∀ t, β < t → eff t < currentTarget c β) :
    determineBeta c roundNat eff fuel β step 0 = .ok (min (β + c.tol) 1, 0) := by
  have h1 : ¬ currentTarget c β ≤ eff 1 := not_le.mpr (hfail 1 hβ)
  have h0 : betaStar0 c eff fuel β = β := by
    simp only [betaStar0, lo0, if_neg h1, bisect_lo_stays eff _ c.tol fuel β 1 htol.le hfail]
  have hs : betaStar c eff fuel β = min (β + c.tol) 1 := by
    simp only [betaStar, h0, le_refl, if_true]
  have hm : newMinStep c eff fuel β 0 = 0 := by
    simp only [newMinStep, hams, Bool.false_eq_true, false_and, if_false]
  rw [determineBeta_adaptive _ _ _ _ _ _ _ ha, hs, hm, add_zero,
    max_eq_left (le_min (by linarith) hβ.le), min_eq_left (min_le_right _ _)]

/-- non-vacuity: a concrete degenerate efficiency curve and configuration for both theorems -/
noncomputable def cfg0 : BetaCfg ℝ :=
  { adaptive := true, adaptiveMinStep := false, tol := 1 / 1000000, targetLo := 1 / 2,
    targetHi := 1 / 2, ramp := false, rate := 1 }

noncomputable def effDegenerate (β : ℝ) : ℝ → ℝ := fun t => if t ≤ β then 1 else 0

example : determineBetaPinned cfg0 (effDegenerate 0) 60 0 0 0 = .ok (0, 0) := by
  apply pinned_stalls cfg0 _ 60 0 0 rfl rfl (by norm_num) (by norm_num [cfg0])
  intro t ht
  simp only [effDegenerate, if_neg (not_le.mpr ht), currentTarget, cfg0]
  norm_num

example (roundNat : ℝ → ℕ) :
    determineBeta cfg0 roundNat (effDegenerate 0) 60 0 0 0 = .ok (1 / 1000000, 0) := by
  have := fixed_code_does_not_stall cfg0 roundNat (effDegenerate 0) 60 0 0 rfl rfl (by norm_num)
    (by norm_num [cfg0]) (by
      intro t ht
      simp only [effDegenerate, if_neg (not_le.mpr ht), currentTarget, cfg0]
      norm_num)
  rw [this]
  norm_num [cfg0]

example : determineBetaPinned { cfg0 with adaptiveMinStep := true } (fun _ => 1) 60 0 0 (1 / 10)
    = .error .zeroDivision :=
  pinned_raises _ _ _ _ _ _ rfl rfl (by norm_num [currentTarget, cfg0])

/-! ### the loop of `sample`, restricted to the schedule state -/

/-- `max_n_steps is not None and iterations >= max_n_steps` -/
def capped : Option ℕ → ℕ → Bool
  | none, _ => false
  | some mx, it => decide (mx ≤ it)

/-- The loop `while True: it += 1; β, m = determine_beta(pop_it, β, step, m); …;
    if β == 1 or (max_n_steps is not None and it >= max_n_steps): break`.
    `effs it β` is the efficiency curve (as a function of the trial temperature) of the population
    present at iteration `it`, which sits at temperature `β` (arbitrary),
    `gas` bounds the number of iterations looked at.  Result: the temperatures appended to
    `history.beta`, and whether the loop has broken (`false` = still running when the gas ran out). -/
noncomputable def sched (c : BetaCfg ℝ) (roundNat : ℝ → ℕ) (effs : ℕ → ℝ → ℝ → ℝ) (fuel : ℕ) (step : ℝ)
    (maxSteps : Option ℕ) : ℕ → ℕ → ℝ → ℝ → Except BetaErr (List ℝ × Bool)
  | 0, _, _, _ => .ok ([], false)
  | g + 1, it, β, m =>
    match determineBeta c roundNat (effs it β) fuel β step m with
    | .error e => .error e
    | .ok (β', m') =>
      if β' = 1 ∨ capped maxSteps (it + 1) = true then .ok ([β'], true)
      else
        match sched c roundNat effs fuel step maxSteps g (it + 1) β' m' with
        | .error e => .error e
        | .ok (bs, fin) => .ok (β' :: bs, fin)

theorem sched_succ {c : BetaCfg ℝ} {roundNat : ℝ → ℕ} {effs : ℕ → ℝ → ℝ → ℝ} {fuel : ℕ} {step : ℝ}
    {maxSteps : Option ℕ} {g it : ℕ} {β m β' m' : ℝ}
    (hd : determineBeta c roundNat (effs it β) fuel β step m = .ok (β', m')) :
    sched c roundNat effs fuel step maxSteps (g + 1) it β m =
      if β' = 1 ∨ capped maxSteps (it + 1) = true then .ok ([β'], true)
      else
        match sched c roundNat effs fuel step maxSteps g (it + 1) β' m' with
        | .error e => .error e
        | .ok (bs, fin) => .ok (β' :: bs, fin) := by
  simp only [sched, hd]

/-- what a finished, well-behaved schedule looks like, from temperature `β` at iteration `it` -/
structure GoodRun (maxSteps : Option ℕ) (it : ℕ) (β : ℝ) (bs : List ℝ) : Prop where
  nonempty : bs ≠ []
  /-- strictly increasing, starting above the current temperature -/
  increasing : List.Pairwise (· < ·) (β :: bs)
  le_one : ∀ b ∈ bs, b ≤ 1
  /-- ends exactly at 1, or at the step cap -/
  ending : bs.getLast? = some 1 ∨ capped maxSteps (it + bs.length) = true
  /-- the step cap is honoured -/
  cap : ∀ mx, maxSteps = some mx → it < mx → it + bs.length ≤ mx
  /-- the loop does not run past temperature 1 -/
  stops : ∀ b ∈ bs.dropLast, b ≠ 1

theorem GoodRun.single {maxSteps : Option ℕ} {it : ℕ} {β β' : ℝ} (hlt : β < β') (hle : β' ≤ 1)
    (hstop : β' = 1 ∨ capped maxSteps (it + 1) = true) : GoodRun maxSteps it β [β'] where
  nonempty := by simp
  increasing := by simp [hlt]
  le_one := by simpa using hle
  ending := by simpa using hstop
  cap := by intro mx _ h; simpa using h
  stops := by simp

theorem GoodRun.cons {maxSteps : Option ℕ} {it : ℕ} {β β' : ℝ} {bs : List ℝ} (hlt : β < β')
    (hle : β' ≤ 1) (hgo : ¬ (β' = 1 ∨ capped maxSteps (it + 1) = true))
    (h : GoodRun maxSteps (it + 1) β' bs) : GoodRun maxSteps it β (β' :: bs) where
  nonempty := by simp
  increasing := by
    have hp := h.increasing
    refine List.pairwise_cons.mpr ⟨?_, hp⟩
    intro b hb
    rcases List.mem_cons.mp hb with rfl | hb
    · exact hlt
    · exact lt_trans hlt ((List.pairwise_cons.mp hp).1 b hb)
  le_one := by
    intro b hb
    rcases List.mem_cons.mp hb with rfl | hb
    · exact hle
    · exact h.le_one b hb
  ending := by
    obtain ⟨b, bs', rfl⟩ := List.exists_cons_of_ne_nil h.nonempty
    rcases h.ending with he | he
    · left; rw [List.getLast?_cons_cons]; exact he
    · right
      have : it + (β' :: b :: bs').length = it + 1 + (b :: bs').length := by
        simp only [List.length_cons]; omega
      rw [this]; exact he
  cap := by
    intro mx hmx hit
    have hnc : ¬ capped maxSteps (it + 1) = true := fun hc => hgo (Or.inr hc)
    subst hmx
    simp only [capped, decide_eq_true_eq, not_le] at hnc
    have := h.cap mx rfl hnc
    rw [List.length_cons]; omega
  stops := by
    obtain ⟨b, bs', rfl⟩ := List.exists_cons_of_ne_nil h.nonempty
    intro x hx
    rw [List.dropLast_cons_cons] at hx
    rcases List.mem_cons.mp hx with rfl | hx
    · exact fun h1 => hgo (Or.inl h1)
    · exact h.stops x hx

/-- **7b.** every adaptive schedule, for every sequence of populations, breaks out of the loop
    within `N` iterations as soon as `N · tol/2 ≥ 1 − β`, without raising, and is a `GoodRun` -/
theorem sched_adaptive (c : BetaCfg ℝ) (roundNat : ℝ → ℕ) (effs : ℕ → ℝ → ℝ → ℝ) (fuel : ℕ) (step : ℝ)
    (maxSteps : Option ℕ) (ha : c.adaptive = true) (htol : 0 < c.tol) (N : ℕ) :
    ∀ (gas it : ℕ) (β m : ℝ), N ≤ gas → β < 1 → 0 ≤ m → 1 - β ≤ N * (c.tol / 2) →
      ∃ bs, sched c roundNat effs fuel step maxSteps gas it β m = .ok (bs, true) ∧
        bs.length ≤ N ∧ GoodRun maxSteps it β bs := by
  induction N with
  | zero =>
    intro gas it β m _ hβ _ h
    simp only [Nat.cast_zero, zero_mul] at h
    linarith
  | succ N ih =>
    intro gas it β m hgas hβ hm hN
    obtain ⟨g, rfl⟩ : ∃ g, gas = g + 1 := ⟨gas - 1, by omega⟩
    obtain ⟨β', m', hd, hlt, hle, hhalf, _, _, hm'⟩ :=
      adaptive_progress c roundNat (effs it β) fuel β step m ha hβ htol hm
    rw [sched_succ hd]
    by_cases hstop : β' = 1 ∨ capped maxSteps (it + 1) = true
    · rw [if_pos hstop]
      exact ⟨[β'], rfl, by simp, GoodRun.single hlt hle hstop⟩
    · rw [if_neg hstop]
      have hβ' : β' < 1 := lt_of_le_of_ne hle (fun h => hstop (Or.inl h))
      have hadv : β + c.tol / 2 ≤ β' := by
        rcases min_le_iff.mp hhalf with h | h
        · linarith
        · exact h
      have hN' : 1 - β' ≤ N * (c.tol / 2) := by
        push_cast at hN; linarith
      obtain ⟨bs, hs, hlen, hgood⟩ := ih g (it + 1) β' m' (by omega) hβ' (le_trans hm hm') hN'
      rw [hs]
      exact ⟨β' :: bs, rfl, by simp only [List.length_cons]; omega, GoodRun.cons hlt hle hstop hgood⟩

/-- **`adaptive_terminates`**: a fresh adaptive run (β = 0, any `min_step ≥ 0`, any `max_n_steps`,
    scalar or ramped target, any populations) leaves the loop after at most `⌈2 / tol⌉` iterations
    with a strictly increasing schedule in `(0, 1]` that ends exactly at 1 or at the step cap. -/
theorem adaptive_terminates (c : BetaCfg ℝ) (roundNat : ℝ → ℕ) (effs : ℕ → ℝ → ℝ → ℝ) (fuel : ℕ)
    (step : ℝ) (maxSteps : Option ℕ) (minStep : ℝ) (ha : c.adaptive = true) (htol : 0 < c.tol)
    (hm : 0 ≤ minStep) (gas : ℕ) (hgas : ⌈2 / c.tol⌉₊ ≤ gas) :
    ∃ bs, sched c roundNat effs fuel step maxSteps gas 0 0 minStep = .ok (bs, true) ∧
      bs.length ≤ ⌈2 / c.tol⌉₊ ∧ GoodRun maxSteps 0 0 bs := by
  apply sched_adaptive c roundNat effs fuel step maxSteps ha htol _ gas 0 0 minStep hgas
    (by norm_num) hm
  have h := Nat.le_ceil (2 / c.tol)
  rw [div_le_iff₀ htol] at h
  linarith

/-- consequences of `GoodRun` spelled out: every temperature lies in `(0, 1]` when starting at 0 -/
theorem GoodRun.pos {maxSteps : Option ℕ} {it : ℕ} {bs : List ℝ} (h : GoodRun maxSteps it 0 bs) :
    ∀ b ∈ bs, 0 < b ∧ b ≤ 1 :=
  fun b hb => ⟨(List.pairwise_cons.mp h.increasing).1 b hb, h.le_one b hb⟩

/-- **8b.** the fixed schedule run by the loop (no step cap): from `β = k/n` at any iteration the
    loop appends exactly `(k+1)/n, …, n/n` and breaks; in particular a fresh run performs
    exactly `n` iterations and ends at exactly 1. -/
theorem sched_fixed (c : BetaCfg ℝ) (roundNat : ℝ → ℕ) (hr : ∀ k : ℕ, roundNat (k : ℝ) = k)
    (effs : ℕ → ℝ → ℝ → ℝ) (fuel : ℕ) (ha : c.adaptive = false) (n : ℕ) (hn : 1 ≤ n) (r : ℕ) :
    ∀ (gas it k : ℕ) (m : ℝ), k + (r + 1) = n → r + 1 ≤ gas →
      sched c roundNat effs fuel (1 / (n : ℝ)) none gas it ((k : ℝ) / n) m =
        .ok ((List.range' (k + 1) (r + 1)).map (fun j : ℕ => (j : ℝ) / n), true) := by
  have hn0 : (0 : ℝ) < n := by exact_mod_cast hn
  induction r with
  | zero =>
    intro gas it k m hk hgas
    obtain ⟨g, rfl⟩ : ∃ g, gas = g + 1 := ⟨gas - 1, by omega⟩
    have hd := determineBeta_fixed c roundNat (effs it ((k : ℝ) / n)) fuel ((k : ℝ) / n) (1 / (n : ℝ)) m ha
    rw [fixed_exact roundNat hr n k hn (by omega)] at hd
    rw [sched_succ hd]
    have h1 : (((k + 1 : ℕ) : ℝ) / n) = 1 := by
      rw [div_eq_one_iff_eq hn0.ne']; exact_mod_cast (by omega : k + 1 = n)
    rw [if_pos (Or.inl h1)]
    simp
  | succ r ih =>
    intro gas it k m hk hgas
    obtain ⟨g, rfl⟩ : ∃ g, gas = g + 1 := ⟨gas - 1, by omega⟩
    have hd := determineBeta_fixed c roundNat (effs it ((k : ℝ) / n)) fuel ((k : ℝ) / n) (1 / (n : ℝ)) m ha
    rw [fixed_exact roundNat hr n k hn (by omega)] at hd
    rw [sched_succ hd]
    have h1 : ¬ ((((k + 1 : ℕ) : ℝ) / n) = 1 ∨ capped none (it + 1) = true) := by
      rintro (h | h)
      · rw [div_eq_one_iff_eq hn0.ne'] at h
        have : k + 1 = n := by exact_mod_cast h
        omega
      · simp [capped] at h
    rw [if_neg h1, ih g (it + 1) (k + 1) m (by omega) (by omega)]
    simp [List.range'_succ]

/-- a fresh fixed run of `n` steps: exactly `n` iterations, temperatures `1/n, …, n/n` -/
theorem fixed_run (c : BetaCfg ℝ) (roundNat : ℝ → ℕ) (hr : ∀ k : ℕ, roundNat (k : ℝ) = k)
    (effs : ℕ → ℝ → ℝ → ℝ) (fuel : ℕ) (ha : c.adaptive = false) (n : ℕ) (hn : 1 ≤ n) (m : ℝ)
    (gas : ℕ) (hgas : n ≤ gas) :
    sched c roundNat effs fuel (1 / (n : ℝ)) none gas 0 0 m =
      .ok ((List.range' 1 n).map (fun j : ℕ => (j : ℝ) / n), true) := by
  obtain ⟨r, rfl⟩ : ∃ r, n = r + 1 := ⟨n - 1, by omega⟩
  have := sched_fixed c roundNat hr effs fuel ha (r + 1) hn r gas 0 0 m (by omega) hgas
  simpa using this

/-- **step cap honoured, for every rule**: the run with `max_n_steps = mx` is the run without a cap
    cut after `mx` iterations (both finished) -/
theorem sched_cap_truncates (c : BetaCfg ℝ) (roundNat : ℝ → ℕ) (effs : ℕ → ℝ → ℝ → ℝ) (fuel : ℕ)
    (step : ℝ) (mx : ℕ) :
    ∀ (gas it : ℕ) (β m : ℝ) (bs : List ℝ), it < mx →
      sched c roundNat effs fuel step none gas it β m = .ok (bs, true) →
      sched c roundNat effs fuel step (some mx) gas it β m = .ok (bs.take (mx - it), true) := by
  intro gas
  induction gas with
  | zero => intro it β m bs _ h; simp [sched] at h
  | succ g ih =>
    intro it β m bs hit h
    cases hd : determineBeta c roundNat (effs it β) fuel β step m with
    | error e => simp [sched, hd] at h
    | ok p =>
      obtain ⟨β', m'⟩ := p
      rw [sched_succ hd] at h ⊢
      by_cases h1 : β' = 1
      · rw [if_pos (Or.inl h1)] at h ⊢
        injection h with h; injection h with h _
        subst h
        rw [List.take_of_length_le (by simp; omega)]
      · have hn : ¬ (β' = 1 ∨ capped none (it + 1) = true) := by simp [capped, h1]
        rw [if_neg hn] at h
        cases hs : sched c roundNat effs fuel step none g (it + 1) β' m' with
        | error e => simp [hs] at h
        | ok q =>
          obtain ⟨bs', fin⟩ := q
          rw [hs] at h
          injection h with h; injection h with h hfin
          subst h; subst hfin
          by_cases hc : mx ≤ it + 1
          · rw [if_pos (Or.inr (by simp [capped, hc]))]
            have : mx - it = 1 := by omega
            rw [this]; simp
          · rw [if_neg (by simp [capped, hc, h1])]
            rw [ih (it + 1) β' m' bs' (by omega) hs]
            have : mx - it = (mx - (it + 1)) + 1 := by omega
            rw [this, List.take_succ_cons]

/-! ### IEEE-double facts about the fixed schedule (kernel evaluation of `Float`) -/

/-- the pinned rule `β += step; clamp`, iterated -/
def iterAccum (step : Float) : ℕ → Float → Float
  | 0, b => b
  | k + 1, b => iterAccum step k (fixedNextAccum b step)

/-- **9a. `fixed_float_cex`**: in double precision seven additions of `1/7` (ten of `1/10`) stay
    below 1, so the pinned code ran an extra iteration (8 resp. 11 instead of 7 resp. 10) -/
theorem pinned_seven_steps_short : (iterAccum (1.0 / 7.0) 7 0.0 < 1.0) = true := by decide +kernel
theorem pinned_seven_needs_eight : (iterAccum (1.0 / 7.0) 8 0.0 == 1.0) = true := by decide +kernel
theorem pinned_ten_steps_short : (iterAccum (1.0 / 10.0) 10 0.0 < 1.0) = true := by decide +kernel
theorem pinned_ten_needs_eleven : (iterAccum (1.0 / 10.0) 11 0.0 == 1.0) = true := by decide +kernel
/-- (some step counts happen to work, e.g. 5 — the defect is data dependent) -/
theorem pinned_five_steps_exact : (iterAccum (1.0 / 5.0) 5 0.0 == 1.0) = true := by decide +kernel

/-- round-to-nearest on non-negative doubles.  `Float.round`/`Float.floor` (what the driver uses)
    are opaque to the kernel, `Float.toUInt64` (truncation) is not; the two roundings agree
    except at exact halves, which do not occur for `β·n` near an integer. -/
def roundHalfUp (x : Float) : ℕ := (x + 0.5).toUInt64.toNat

/-- the temperatures visited by the new rule `fixedNext` in double precision -/
def trajFixed (step : Float) : ℕ → Float → List Float
  | 0, _ => []
  | k + 1, b => let b' := fixedNext roundHalfUp b step; b' :: trajFixed step k b'

def strictlyIncreasing : Float → List Float → Bool
  | _, [] => true
  | a, b :: bs => a < b && strictlyIncreasing b bs

/-- `n` steps of the new rule from 0: strictly increasing, the `n`-th value is exactly `1.0`
    and no earlier value is (they are all `< 1.0` because the list is strictly increasing) -/
def fixedFloatOk (n : ℕ) : Bool :=
  let t := trajFixed (1.0 / Float.ofNat n) n 0.0
  strictlyIncreasing 0.0 t && t.getLast? == some 1.0 && t.length == n

/-- **9b.** the new rule reaches exactly `1.0` after exactly `n` iterations in double precision,
    for `n = 7, 10, 49` and for every `n` from 1 to 12
    (kernel evaluation costs about 0.1 s per step, hence the small range) -/
theorem fixed_float_seven : fixedFloatOk 7 = true := by decide +kernel
theorem fixed_float_ten : fixedFloatOk 10 = true := by decide +kernel
theorem fixed_float_fortynine : fixedFloatOk 49 = true := by decide +kernel
theorem fixed_float_upto_12 : (List.range' 1 12).all fixedFloatOk = true := by decide +kernel


/-! ### the bisection `while` loop does not spin; minimum step and step cap -/

/-- once `tol · 2^fuel ≥ 1 − β` the bisection loop has exited: giving the model more fuel
    changes nothing, i.e. the Python `while beta_max - beta_min > tol` runs at most `fuel` times -/
theorem determineBeta_fuel_stable (c : BetaCfg ℝ) (roundNat : ℝ → ℕ) (eff : ℝ → ℝ) (fuel fuel' : ℕ)
    (β step minStep : ℝ) (hβ : β ≤ 1) (hfuel : 1 - β ≤ c.tol * 2 ^ fuel) (hge : fuel ≤ fuel') :
    determineBeta c roundNat eff fuel' β step minStep =
      determineBeta c roundNat eff fuel β step minStep := by
  cases ha : c.adaptive
  · rw [determineBeta_fixed _ _ _ _ _ _ _ ha, determineBeta_fixed _ _ _ _ _ _ _ ha]
  · have hw : 1 - lo0 c eff β ≤ c.tol * 2 ^ fuel := by
      unfold lo0; split <;> linarith
    have h0 : betaStar0 c eff fuel' β = betaStar0 c eff fuel β := by
      simp only [betaStar0, bisect_stable eff _ c.tol fuel (lo0 c eff β) 1 hw fuel' hge]
    have h1 : betaStar c eff fuel' β = betaStar c eff fuel β := by simp only [betaStar, h0]
    have h2 : newMinStep c eff fuel' β minStep = newMinStep c eff fuel β minStep := by
      simp only [newMinStep, h1]
    rw [determineBeta_adaptive _ _ _ _ _ _ _ ha, determineBeta_adaptive _ _ _ _ _ _ _ ha, h1, h2]

/-- the guaranteed advance is `tol/2`, not `tol`: a population whose efficiency drops just above
    `β + 5/8·tol` makes the converged bisection return exactly that point (`1/8 < 0 + 1/5`) -/
example (roundNat : ℝ → ℕ) :
    determineBeta { cfg0 with tol := 1 / 5 } roundNat (fun t => if t ≤ 1 / 8 then 1 else 0) 3 0 0 0
      = .ok (1 / 8, 0) ∧ (1 : ℝ) - 0 ≤ 1 / 5 * 2 ^ 3 := by
  constructor
  · simp only [determineBeta, cfg0, currentTarget, bisect, half_real, minS_real, maxS_real]
    norm_num
  · norm_num

/-- **minimum step honoured ⇒ bounded number of iterations**: if `r` minimum steps cover the
    remaining distance (`1 − β ≤ r · min_step`), the uncapped adaptive run reaches exactly 1 in at
    most `r` further iterations — for every sequence of populations. -/
theorem sched_min_step (c : BetaCfg ℝ) (roundNat : ℝ → ℕ) (effs : ℕ → ℝ → ℝ → ℝ) (fuel : ℕ)
    (step : ℝ) (ha : c.adaptive = true) (htol : 0 < c.tol) (r : ℕ) :
    ∀ (gas it : ℕ) (β m : ℝ), r ≤ gas → β < 1 → 0 ≤ m → 1 - β ≤ m * r →
      ∃ bs, sched c roundNat effs fuel step none gas it β m = .ok (bs, true) ∧
        bs.length ≤ r ∧ bs.getLast? = some 1 ∧ GoodRun none it β bs := by
  induction r with
  | zero =>
    intro gas it β m _ hβ _ h
    simp only [Nat.cast_zero, mul_zero] at h
    linarith
  | succ r ih =>
    intro gas it β m hgas hβ hm hr
    obtain ⟨g, rfl⟩ : ∃ g, gas = g + 1 := ⟨gas - 1, by omega⟩
    obtain ⟨β', m', hd, hlt, hle, _, hfloor, _, hm'⟩ :=
      adaptive_progress c roundNat (effs it β) fuel β step m ha hβ htol hm
    rw [sched_succ hd]
    by_cases hstop : β' = 1 ∨ capped none (it + 1) = true
    · rw [if_pos hstop]
      have h1 : β' = 1 := by
        rcases hstop with h | h
        · exact h
        · simp [capped] at h
      exact ⟨[β'], rfl, by simp, by simp [h1], GoodRun.single hlt hle hstop⟩
    · rw [if_neg hstop]
      have hβ' : β' < 1 := lt_of_le_of_ne hle (fun h => hstop (Or.inl h))
      have hadv : β + m' ≤ β' := by
        rcases min_le_iff.mp hfloor with h | h
        · linarith
        · exact h
      have hr' : 1 - β' ≤ m' * r := by
        push_cast at hr
        have : m * (r + 1) ≤ m' * ((r : ℝ) + 1) :=
          mul_le_mul_of_nonneg_right hm' (by positivity)
        linarith
      obtain ⟨bs, hs, hlen, hlast, hgood⟩ :=
        ih g (it + 1) β' m' (by omega) hβ' (le_trans hm hm') hr'
      rw [hs]
      obtain ⟨b, bs', rfl⟩ := List.exists_cons_of_ne_nil hgood.nonempty
      exact ⟨β' :: b :: bs', rfl, by simp only [List.length_cons] at hlen ⊢; omega,
        by rw [List.getLast?_cons_cons]; exact hlast, GoodRun.cons hlt hle hstop hgood⟩

/-- **`max_n_steps` alone** (`min_step=None`, so `min_step = 1/max_n_steps`, adaptive or not):
    the run ends at temperature exactly 1 within `max_n_steps` iterations — the cap never cuts a
    run short of β = 1 (over ℝ). -/
theorem cap_reaches_one (c : BetaCfg ℝ) (roundNat : ℝ → ℕ) (effs : ℕ → ℝ → ℝ → ℝ) (fuel : ℕ)
    (step : ℝ) (ha : c.adaptive = true) (htol : 0 < c.tol) (M : ℕ) (hM : 1 ≤ M) (gas : ℕ)
    (hgas : M ≤ gas) :
    ∃ bs, sched c roundNat effs fuel step (some M) gas 0 0 (1 / (M : ℝ)) = .ok (bs, true) ∧
      bs.length ≤ M ∧ bs.getLast? = some 1 := by
  have hM0 : (0 : ℝ) < M := by exact_mod_cast hM
  obtain ⟨bs, hs, hlen, hlast, _⟩ := sched_min_step c roundNat effs fuel step ha htol M gas 0 0
    (1 / (M : ℝ)) hgas (by norm_num) (by positivity) (by rw [one_div_mul_cancel hM0.ne']; norm_num)
  refine ⟨bs, ?_, hlen, hlast⟩
  have := sched_cap_truncates c roundNat effs fuel step M gas 0 0 (1 / (M : ℝ)) bs (by omega) hs
  rw [this, List.take_of_length_le (by omega)]

/-! ### non-vacuity of the run theorems -/

/-- `adaptive_terminates` applies to the default-like configuration `cfg0` (tol = 1e-6, target 1/2),
    every sequence of populations, every step cap and every non-negative minimum step -/
example (roundNat : ℝ → ℕ) (effs : ℕ → ℝ → ℝ → ℝ) (maxSteps : Option ℕ) :
    ∃ bs, sched cfg0 roundNat effs 60 0 maxSteps 2000000 0 0 (1 / 100) = .ok (bs, true) ∧
      bs.length ≤ 2000000 ∧ GoodRun maxSteps 0 0 bs := by
  have h : ⌈2 / cfg0.tol⌉₊ = 2000000 := by
    have : (2 : ℝ) / cfg0.tol = ((2000000 : ℕ) : ℝ) := by norm_num [cfg0]
    rw [this, Nat.ceil_natCast]
  have := adaptive_terminates cfg0 roundNat effs 60 0 maxSteps (1 / 100) rfl (by norm_num [cfg0])
    (by norm_num) 2000000 (by rw [h])
  rwa [h] at this

/-- a fixed schedule of three steps visits exactly `1/3, 2/3, 1` -/
example (roundNat : ℝ → ℕ) (hr : ∀ k : ℕ, roundNat (k : ℝ) = k) (effs : ℕ → ℝ → ℝ → ℝ) :
    sched { cfg0 with adaptive := false } roundNat effs 0 (1 / ((3 : ℕ) : ℝ)) none 3 0 0 0
      = .ok ([1 / 3, 2 / 3, 1], true) := by
  rw [fixed_run _ roundNat hr effs 0 rfl 3 (by norm_num) 0 3 le_rfl]
  norm_num [List.range']

/-- a rounding function satisfying the hypothesis of `fixed_exact` exists -/
example : ∃ roundNat : ℝ → ℕ, ∀ k : ℕ, roundNat (k : ℝ) = k :=
  ⟨fun x => ⌊x + 1 / 2⌋₊, fun k => by
    show ⌊(k : ℝ) + 1 / 2⌋₊ = k
    rw [Nat.floor_eq_iff (by positivity)]
    constructor <;> linarith⟩

/-! ### the schedule of the loop model `Model.runLoop` (Model/Smc.lean) is `sched` -/

section Bridge
variable {P : Type}

theorem maybeCheckpoint_fields (cfg : SmcCfg ℝ) (force : Bool) (st : St P ℝ) (z : Option ℝ) :
    (maybeCheckpoint cfg force st z).pop = st.pop ∧ (maybeCheckpoint cfg force st z).beta = st.beta ∧
    (maybeCheckpoint cfg force st z).iter = st.iter ∧
    (maybeCheckpoint cfg force st z).minStep = st.minStep ∧
    (maybeCheckpoint cfg force st z).hist = st.hist := by
  unfold maybeCheckpoint
  split
  · simp
  · split <;> simp

theorem iterate_error (k : Kit P ℝ) (cfg : SmcCfg ℝ) (st : St P ℝ) (s : Step P) (e : BetaErr)
    (h : k.nextBeta st.pop st.beta st.minStep = .error e) : iterate k cfg st s = .error e := by
  simp only [iterate, h]; rfl

theorem iterate_ok (k : Kit P ℝ) (cfg : SmcCfg ℝ) (st : St P ℝ) (s : Step P) (b m : ℝ)
    (h : k.nextBeta st.pop st.beta st.minStep = .ok (b, m)) :
    ∃ st', iterate k cfg st s = .ok (st', k.isOne b || capped cfg.maxSteps (st.iter + 1)) ∧
      st'.pop = s.mutated ∧ st'.beta = b ∧ st'.iter = st.iter + 1 ∧ st'.minStep = m ∧
      st'.hist.beta = st.hist.beta ++ [b] := by
  rcases hm : cfg.maxSteps with _ | mx
  · simp only [iterate, h, hm, bind, Except.bind, pure, Except.pure]
    refine ⟨_, rfl, ?_⟩
    simp only [(maybeCheckpoint_fields cfg false _ none).1, (maybeCheckpoint_fields cfg false _ none).2.1,
      (maybeCheckpoint_fields cfg false _ none).2.2.1, (maybeCheckpoint_fields cfg false _ none).2.2.2.1,
      (maybeCheckpoint_fields cfg false _ none).2.2.2.2, true_and]
    split <;> rfl
  · simp only [iterate, h, hm, bind, Except.bind, pure, Except.pure]
    refine ⟨_, rfl, ?_⟩
    simp only [(maybeCheckpoint_fields cfg false _ none).1, (maybeCheckpoint_fields cfg false _ none).2.1,
      (maybeCheckpoint_fields cfg false _ none).2.2.1, (maybeCheckpoint_fields cfg false _ none).2.2.2.1,
      (maybeCheckpoint_fields cfg false _ none).2.2.2.2, true_and]
    split <;> rfl

theorem sched_congr (c : BetaCfg ℝ) (roundNat : ℝ → ℕ) (effs effs' : ℕ → ℝ → ℝ → ℝ) (fuel : ℕ)
    (step : ℝ) (maxSteps : Option ℕ) :
    ∀ (gas it : ℕ) (β m : ℝ), (∀ i, it ≤ i → effs i = effs' i) →
      sched c roundNat effs fuel step maxSteps gas it β m =
        sched c roundNat effs' fuel step maxSteps gas it β m := by
  intro gas
  induction gas with
  | zero => intros; rfl
  | succ g ih =>
    intro it β m h
    simp only [sched, h it le_rfl]
    split
    · rfl
    · split
      · rfl
      · rw [ih _ _ _ (fun i hi => h i (by omega))]

/-- what `runLoop` does to the schedule state is exactly `sched`: for every kit whose
    `nextBeta` is `determine_beta` on some efficiency curve of the population, and every
    sequence of kernel outputs, the temperatures appended to `history.beta`, the iteration
    counter, the final temperature and the unconsumed steps are those of `sched` for a suitable
    sequence of efficiency curves (those of the populations met during the run). -/
theorem runLoop_sched (k : Kit P ℝ) (cfg : SmcCfg ℝ) (c : BetaCfg ℝ) (roundNat : ℝ → ℕ) (fuel : ℕ)
    (step : ℝ) (effOf : P → ℝ → ℝ → ℝ)
    (hnb : ∀ p β m, k.nextBeta p β m = determineBeta c roundNat (effOf p β) fuel β step m)
    (hone : ∀ b, k.isOne b = decide (b = 1)) :
    ∀ (steps : List (Step P)) (st : St P ℝ), ∃ effs : ℕ → ℝ → ℝ → ℝ,
      match runLoop k cfg st steps with
      | .raised e =>
        sched c roundNat effs fuel step cfg.maxSteps steps.length st.iter st.beta st.minStep = .error e
      | .interrupted st' => ∃ bs,
        sched c roundNat effs fuel step cfg.maxSteps steps.length st.iter st.beta st.minStep
          = .ok (bs, false) ∧
        st'.hist.beta = st.hist.beta ++ bs ∧ st'.iter = st.iter + bs.length
      | .finishedLoop st' rest => ∃ bs,
        sched c roundNat effs fuel step cfg.maxSteps steps.length st.iter st.beta st.minStep
          = .ok (bs, true) ∧
        st'.hist.beta = st.hist.beta ++ bs ∧ st'.iter = st.iter + bs.length ∧
        bs.getLast? = some st'.beta ∧ rest = steps.drop bs.length := by
  intro steps
  induction steps with
  | nil =>
    intro st
    exact ⟨fun _ _ _ => 0, [], rfl, by simp, by simp⟩
  | cons s rest ih =>
    intro st
    cases hd : determineBeta c roundNat (effOf st.pop st.beta) fuel st.beta step st.minStep with
    | error e =>
      refine ⟨fun _ => effOf st.pop, ?_⟩
      have hit := iterate_error k cfg st s e (by rw [hnb, hd])
      simp only [runLoop, hit, List.length_cons, sched, hd]
    | ok p =>
      obtain ⟨b, m⟩ := p
      obtain ⟨st', hit, hpop, hbeta, hiter, hmin, hhist⟩ :=
        iterate_ok k cfg st s b m (by rw [hnb, hd])
      by_cases hstop : (k.isOne b || capped cfg.maxSteps (st.iter + 1)) = true
      · refine ⟨fun _ => effOf st.pop, ?_⟩
        rw [hstop] at hit
        simp only [runLoop, hit, List.length_cons]
        have hd' : determineBeta c roundNat ((fun _ => effOf st.pop) st.iter st.beta) fuel st.beta step
            st.minStep = .ok (b, m) := hd
        rw [sched_succ hd']
        have : b = 1 ∨ capped cfg.maxSteps (st.iter + 1) = true := by
          simpa [hone] using hstop
        rw [if_pos this]
        exact ⟨[b], rfl, hhist, by simp [hiter], by simp [hbeta], by simp⟩
      · have hstop' : (k.isOne b || capped cfg.maxSteps (st.iter + 1)) = false := by
          simpa using hstop
        rw [hstop'] at hit
        obtain ⟨effs', hih⟩ := ih st'
        refine ⟨fun i => if i = st.iter then effOf st.pop else effs' i, ?_⟩
        have hd' : determineBeta c roundNat
            ((fun i => if i = st.iter then effOf st.pop else effs' i) st.iter st.beta) fuel st.beta step
            st.minStep = .ok (b, m) := by simpa using hd
        have hnot : ¬ (b = 1 ∨ capped cfg.maxSteps (st.iter + 1) = true) := by
          simpa [hone] using hstop'
        have hcongr := sched_congr c roundNat (fun i => if i = st.iter then effOf st.pop else effs' i)
          effs' fuel step cfg.maxSteps rest.length (st.iter + 1) b m
          (fun i hi => by simp only [if_neg (show i ≠ st.iter by omega)])
        simp only [runLoop, hit, List.length_cons]
        rw [sched_succ hd', if_neg hnot, hcongr]
        rw [hiter, hbeta, hmin] at hih
        cases hrl : runLoop k cfg st' rest with
        | raised e =>
          rw [hrl] at hih
          simp only at hih ⊢
          rw [hih]
        | interrupted st'' =>
          rw [hrl] at hih
          obtain ⟨bs, h1, h2, h3⟩ := hih
          simp only
          refine ⟨b :: bs, by rw [h1], ?_, ?_⟩
          · rw [h2, hhist]; simp
          · rw [h3]; simp only [List.length_cons]; omega
        | finishedLoop st'' rest' =>
          rw [hrl] at hih
          obtain ⟨bs, h1, h2, h3, h4, h5⟩ := hih
          simp only
          refine ⟨b :: bs, by rw [h1], ?_, ?_, ?_, ?_⟩
          · rw [h2, hhist]; simp
          · rw [h3]; simp only [List.length_cons]; omega
          · cases bs with
            | nil => simp at h4
            | cons x xs => rw [List.getLast?_cons_cons]; exact h4
          · rw [h5]; simp

/-- **C06 on the loop model**: in `Model.runLoop` with an adaptive schedule the loop is left
    after at most `N` iterations (`N · tol/2 ≥ 1 − β`; `N = ⌈2/tol⌉` for a fresh run) whatever
    the kernel produces, never raises, and the temperatures it appends to `history.beta` form a
    `GoodRun` (strictly increasing, in `(β, 1]`, ending exactly at 1 or at the step cap) whose
    last element is the final temperature. -/
theorem runLoop_adaptive (k : Kit P ℝ) (cfg : SmcCfg ℝ) (c : BetaCfg ℝ) (roundNat : ℝ → ℕ)
    (fuel : ℕ) (step : ℝ) (effOf : P → ℝ → ℝ → ℝ)
    (hnb : ∀ p β m, k.nextBeta p β m = determineBeta c roundNat (effOf p β) fuel β step m)
    (hone : ∀ b, k.isOne b = decide (b = 1))
    (ha : c.adaptive = true) (htol : 0 < c.tol) (N : ℕ) (steps : List (Step P)) (st : St P ℝ)
    (hlen : N ≤ steps.length) (hβ : st.beta < 1) (hm : 0 ≤ st.minStep)
    (hN : 1 - st.beta ≤ N * (c.tol / 2)) :
    ∃ st' bs, runLoop k cfg st steps = .finishedLoop st' (steps.drop bs.length) ∧
      bs.length ≤ N ∧ GoodRun cfg.maxSteps st.iter st.beta bs ∧
      st'.hist.beta = st.hist.beta ++ bs ∧ st'.iter = st.iter + bs.length ∧
      bs.getLast? = some st'.beta := by
  obtain ⟨effs, h⟩ := runLoop_sched k cfg c roundNat fuel step effOf hnb hone steps st
  obtain ⟨bs, hs, hl, hg⟩ := sched_adaptive c roundNat effs fuel step cfg.maxSteps ha htol N
    steps.length st.iter st.beta st.minStep hlen hβ hm hN
  cases hrl : runLoop k cfg st steps with
  | raised e => rw [hrl] at h; simp only at h; rw [hs] at h; cases h
  | interrupted st' =>
    rw [hrl] at h
    obtain ⟨bs', h1, _⟩ := h
    rw [hs] at h1; injection h1 with h1; injection h1 with _ h1; cases h1
  | finishedLoop st' rest =>
    rw [hrl] at h
    obtain ⟨bs', h1, h2, h3, h4, h5⟩ := h
    rw [hs] at h1; injection h1 with h1; injection h1 with h1 _
    subst h1
    exact ⟨st', bs, by rw [h5], hl, hg, h2, h3, h4⟩

/-- … and with a fixed schedule of `n` steps (no cap) a fresh run performs exactly `n`
    iterations and records exactly `1/n, 2/n, …, 1`. -/
theorem runLoop_fixed (k : Kit P ℝ) (cfg : SmcCfg ℝ) (c : BetaCfg ℝ) (roundNat : ℝ → ℕ)
    (hr : ∀ j : ℕ, roundNat (j : ℝ) = j) (fuel : ℕ) (n : ℕ) (hn : 1 ≤ n) (effOf : P → ℝ → ℝ → ℝ)
    (hnb : ∀ p β m, k.nextBeta p β m = determineBeta c roundNat (effOf p β) fuel β (1 / (n : ℝ)) m)
    (hone : ∀ b, k.isOne b = decide (b = 1))
    (ha : c.adaptive = false) (hcap : cfg.maxSteps = none) (steps : List (Step P)) (st : St P ℝ)
    (hlen : n ≤ steps.length) (hβ : st.beta = 0) :
    ∃ st', runLoop k cfg st steps = .finishedLoop st' (steps.drop n) ∧
      st'.hist.beta = st.hist.beta ++ (List.range' 1 n).map (fun j : ℕ => (j : ℝ) / n) ∧
      st'.iter = st.iter + n ∧ st'.beta = 1 := by
  obtain ⟨effs, h⟩ := runLoop_sched k cfg c roundNat fuel (1 / (n : ℝ)) effOf hnb hone steps st
  obtain ⟨r, rfl⟩ : ∃ r, n = r + 1 := ⟨n - 1, by omega⟩
  have hs := sched_fixed c roundNat hr effs fuel ha (r + 1) hn r steps.length st.iter 0 st.minStep
    (by omega) hlen
  simp only [Nat.cast_zero, zero_div, zero_add] at hs
  rw [hcap, hβ] at h
  cases hrl : runLoop k cfg st steps with
  | raised e => rw [hrl] at h; simp only at h; rw [hs] at h; cases h
  | interrupted st' =>
    rw [hrl] at h
    obtain ⟨bs', h1, _⟩ := h
    rw [hs] at h1; injection h1 with h1; injection h1 with _ h1; cases h1
  | finishedLoop st' rest =>
    rw [hrl] at h
    obtain ⟨bs', h1, h2, h3, h4, h5⟩ := h
    rw [hs] at h1; injection h1 with h1; injection h1 with h1 _
    subst h1
    have hn0 : ((r + 1 : ℕ) : ℝ) ≠ 0 := by positivity
    refine ⟨st', by rw [h5]; simp, h2, by rw [h3]; simp, ?_⟩
    rw [List.range'_concat, List.map_append, List.getLast?_append] at h4
    simp only [List.map_cons, List.map_nil, List.getLast?_singleton, Option.some_or] at h4
    injection h4 with h4
    rw [← h4, show 1 + 1 * r = r + 1 by ring, div_self hn0]

end Bridge

end C06
