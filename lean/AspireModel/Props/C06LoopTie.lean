import AspireModel.Gen.SrcSmcLoop
/-
  C06 — clauses about the loop skeleton, read directly off the TRANSLATION of `SMCSampler.sample`'s loop
  (`Gen/SrcSmcLoop.lean`), for every callee and every option: the loop is left only at temperature 1 or at the step cap,
  it performs one pass per unit of the counter, and with a step cap it cannot go on forever.  Core Lean only.
-/
set_option linter.unusedSectionVars false
namespace C06
open Gen
variable {α : Type} [Num α] [DecidableLT α] [DecidableLE α] {P W C : Type}

/-- one pass: the counter goes up by exactly one; the pass asks to stop iff the new temperature is 1 (neither below nor
    above) or the counter has reached `max_n_steps` -/
theorem src_body_counter_and_stop (ops : LoopOps P W C α) (bs tol : α) (store cb : Bool)
    (every mx nf ns : Option Nat) (st st' : LoopSt P C α) (stop : Bool)
    (h : Gen.smc_loop_body ops bs tol store cb every mx nf ns st = .ok (st', stop)) :
    st'.iterations = st.iterations + 1 ∧
    (stop = true ↔ (¬ Gen.ne st'.beta 1) ∨ ∃ m, mx = some m ∧ m ≤ st'.iterations) := by
  unfold Gen.smc_loop_body at h
  cases hb : ops.determine_beta st.samples st.beta bs st.min_step tol with
  | error e => simp [hb] at h
  | ok bm =>
    obtain ⟨b, m⟩ := bm
    simp only [hb, Except.ok.injEq, Prod.mk.injEq] at h
    obtain ⟨rfl, rfl⟩ := h
    refine ⟨rfl, ?_⟩
    cases mx with
    | none => simp
    | some m => simp

/-- the loop: if it is left through its `break`, the final temperature is 1 or the step cap is reached; the counter has
    advanced by the number of passes, which is at most the fuel; if the fuel ran out, by exactly the fuel -/
theorem src_loop_exit (ops : LoopOps P W C α) (bs tol : α) (store cb : Bool) (every mx nf ns : Option Nat) :
    ∀ (fuel : Nat) (st st' : LoopSt P C α) (left : Bool),
      Gen.smc_driver_loop ops bs tol store cb every mx nf ns fuel st = .ok (st', left) →
      st.iterations ≤ st'.iterations ∧ st'.iterations ≤ st.iterations + fuel ∧
      (left = false → st'.iterations = st.iterations + fuel) ∧
      (left = true → st.iterations < st'.iterations ∧
        ((¬ Gen.ne st'.beta 1) ∨ ∃ m, mx = some m ∧ m ≤ st'.iterations)) := by
  intro fuel
  induction fuel with
  | zero =>
    intro st st' left h
    simp only [Gen.smc_driver_loop, Except.ok.injEq, Prod.mk.injEq] at h
    obtain ⟨rfl, rfl⟩ := h
    simp
  | succ n ih =>
    intro st st' left h
    unfold Gen.smc_driver_loop at h
    cases hbody : Gen.smc_loop_body ops bs tol store cb every mx nf ns st with
    | error e => simp [hbody] at h
    | ok r =>
      obtain ⟨s1, stop⟩ := r
      obtain ⟨hc, hstop⟩ := src_body_counter_and_stop ops bs tol store cb every mx nf ns st s1 stop hbody
      simp only [hbody] at h
      cases stop with
      | true =>
        simp only [if_true, Except.ok.injEq, Prod.mk.injEq] at h
        obtain ⟨rfl, rfl⟩ := h
        refine ⟨by omega, by omega, by simp, fun _ => ⟨by omega, hstop.mp rfl⟩⟩
      | false =>
        simp only [Bool.false_eq_true, if_false] at h
        obtain ⟨h1, h2, h3, h4⟩ := ih s1 st' left h
        refine ⟨by omega, by omega, fun hl => by have := h3 hl; omega, fun hl => ?_⟩
        obtain ⟨h5, h6⟩ := h4 hl
        exact ⟨by omega, h6⟩

/-- with a step cap the loop cannot go on forever: enough fuel to reach the cap is enough to leave the loop (or to raise) -/
theorem src_loop_cap_terminates (ops : LoopOps P W C α) (bs tol : α) (store cb : Bool) (every nf ns : Option Nat)
    (m : Nat) :
    ∀ (fuel : Nat) (st st' : LoopSt P C α) (left : Bool), m ≤ st.iterations + fuel → 0 < fuel →
      Gen.smc_driver_loop ops bs tol store cb every (some m) nf ns fuel st = .ok (st', left) → left = true := by
  intro fuel
  induction fuel with
  | zero => intro st st' left _ h0; omega
  | succ n ih =>
    intro st st' left hm _ h
    unfold Gen.smc_driver_loop at h
    cases hbody : Gen.smc_loop_body ops bs tol store cb every (some m) nf ns st with
    | error e => simp [hbody] at h
    | ok r =>
      obtain ⟨s1, stop⟩ := r
      obtain ⟨hc, hstop⟩ := src_body_counter_and_stop ops bs tol store cb every (some m) nf ns st s1 stop hbody
      simp only [hbody] at h
      cases stop with
      | true =>
        simp only [if_true, Except.ok.injEq, Prod.mk.injEq] at h
        exact h.2.symm
      | false =>
        simp only [Bool.false_eq_true, if_false] at h
        have hnot : ¬ (m ≤ s1.iterations) := by
          intro hle
          have := hstop.mpr (Or.inr ⟨m, rfl, hle⟩)
          cases this
        cases n with
        | zero => omega
        | succ n' => exact ih s1 st' left (by omega) (by omega) h

/-- a run that returns performed at least one pass unless the loop was skipped, and never more passes than the cap -/
theorem src_loop_respects_cap (ops : LoopOps P W C α) (bs tol : α) (store cb : Bool) (every nf ns : Option Nat)
    (m : Nat) :
    ∀ (fuel : Nat) (st st' : LoopSt P C α) (left : Bool), st.iterations < m →
      Gen.smc_driver_loop ops bs tol store cb every (some m) nf ns fuel st = .ok (st', left) → st'.iterations ≤ m := by
  intro fuel
  induction fuel with
  | zero =>
    intro st st' left hlt h
    simp only [Gen.smc_driver_loop, Except.ok.injEq, Prod.mk.injEq] at h
    obtain ⟨rfl, -⟩ := h
    omega
  | succ n ih =>
    intro st st' left hlt h
    unfold Gen.smc_driver_loop at h
    cases hbody : Gen.smc_loop_body ops bs tol store cb every (some m) nf ns st with
    | error e => simp [hbody] at h
    | ok r =>
      obtain ⟨s1, stop⟩ := r
      obtain ⟨hc, hstop⟩ := src_body_counter_and_stop ops bs tol store cb every (some m) nf ns st s1 stop hbody
      simp only [hbody] at h
      cases stop with
      | true =>
        simp only [if_true, Except.ok.injEq, Prod.mk.injEq] at h
        obtain ⟨rfl, -⟩ := h
        omega
      | false =>
        simp only [Bool.false_eq_true, if_false] at h
        have hnot : ¬ (m ≤ s1.iterations) := by
          intro hle
          have := hstop.mpr (Or.inr ⟨m, rfl, hle⟩)
          cases this
        exact ih s1 st' left (by omega) h

end C06
