import AspireModel.Props.C13
import AspireModel.Model.CodecSamples
/-
  C13, sample sets through the file: the columns of a reloaded set stand under their own parameter names whatever the order in which
  the file lists the per-parameter datasets (h5py lists members alphabetically), and a set written and read back is the same set.
  The per-class record <-> tree maps were covered only observationally before; this is their theorem.  The negative witness
  (`colsByOrder_swaps_witness`) is the defect class of two seeded changes (columns taken in listing order).
-/
namespace C13
open Model

theorem findK_zipCols_head (p : Str) (ps : List Str) (c : List Nat) (cs : List (List Nat)) :
    findK (zipCols (p :: ps) (c :: cs)) p = some (.leaf (.nums c)) := by
  simp [findK, zipCols]

theorem findK_cons_ne (e : Str × Val) (es : List (Str × Val)) (k : Str) (h : e.1 ≠ k) :
    findK (e :: es) k = findK es k := by
  simp [findK, List.find?_cons, h]

/-- looking the columns up by name over ANY dictionary that extends the zipped one in front with other names -/
theorem colsByName_zipCols (ps : List Str) (cs : List (List Nat)) (hnd : ps.Nodup) (hlen : ps.length = cs.length) :
    colsByName (zipCols ps cs) ps = some cs := by
  -- generalise: a prefix of entries whose names do not occur in `ps`
  suffices H : ∀ (pre : List (Str × Val)), (∀ e ∈ pre, e.1 ∉ ps) → colsByName (pre ++ zipCols ps cs) ps = some cs by
    simpa using H [] (by simp)
  induction ps generalizing cs with
  | nil =>
    intro pre _
    cases cs with
    | nil => simp [colsByName]
    | cons c cs => simp at hlen
  | cons p ps ih =>
    intro pre hpre
    cases cs with
    | nil => simp at hlen
    | cons c cs =>
      have hp : p ∉ ps := (List.nodup_cons.mp hnd).1
      have hnd' : ps.Nodup := (List.nodup_cons.mp hnd).2
      have hfind : findK (pre ++ zipCols (p :: ps) (c :: cs)) p = some (.leaf (.nums c)) := by
        induction pre with
        | nil => exact findK_zipCols_head p ps c cs
        | cons e es ihp =>
          have hne : e.1 ≠ p := by
            intro h; exact hpre e List.mem_cons_self (by rw [h]; exact List.mem_cons_self)
          rw [List.cons_append, findK_cons_ne _ _ _ hne]
          exact ihp (fun e' he' => hpre e' (List.mem_cons_of_mem _ he'))
      have hrest : colsByName (pre ++ zipCols (p :: ps) (c :: cs)) ps = some cs := by
        have := ih cs hnd' (by simpa using hlen) (pre ++ [(p, .leaf (.nums c))]) (by
          intro e he
          rcases List.mem_append.mp he with he | he
          · intro hmem; exact hpre e he (List.mem_cons_of_mem _ hmem)
          · simp at he; subst he; exact hp)
        simpa [zipCols, List.append_assoc] using this
      simp only [colsByName, hfind, hrest]


theorem colsByName_congr (a b : List (Str × Val)) (ps : List Str) (h : ∀ p ∈ ps, findK a p = findK b p) :
    colsByName a ps = colsByName b ps := by
  induction ps with
  | nil => rfl
  | cons p ps ih =>
    simp only [colsByName]
    rw [h p List.mem_cons_self, ih (fun q hq => h q (List.mem_cons_of_mem _ hq))]

/-- with distinct keys, `dict[k]` is the value of the entry with that key, wherever it stands -/
theorem findK_eq_of_mem (es : List (Str × Val)) (hnd : (es.map (·.1)).Nodup) (k : Str) (v : Val) (hm : (k, v) ∈ es) :
    findK es k = some v := by
  induction es with
  | nil => simp at hm
  | cons e es ih =>
    simp only [List.map_cons, List.nodup_cons] at hnd
    rcases List.mem_cons.mp hm with rfl | hm
    · simp [findK]
    · have hne : e.1 ≠ k := by
        intro h
        exact hnd.1 (by rw [h]; exact List.mem_map.mpr ⟨(k, v), hm, rfl⟩)
      rw [findK_cons_ne _ _ _ hne]
      exact ih hnd.2 hm

theorem findK_none_of_not_mem (es : List (Str × Val)) (k : Str) (h : k ∉ es.map (·.1)) : findK es k = none := by
  induction es with
  | nil => rfl
  | cons e es ih =>
    simp only [List.map_cons, List.mem_cons, not_or] at h
    rw [findK_cons_ne _ _ _ (fun hh => h.1 hh.symm)]
    exact ih h.2

/-- `dict[k]` does not depend on the order in which a dictionary with distinct keys is listed -/
theorem findK_perm (a b : List (Str × Val)) (hp : a.Perm b) (hnd : (a.map (·.1)).Nodup) (k : Str) : findK a k = findK b k := by
  have hndb : (b.map (·.1)).Nodup := (hp.map _).nodup_iff.mp hnd
  by_cases hk : k ∈ a.map (·.1)
  · obtain ⟨e, he, hek⟩ := List.mem_map.mp hk
    have he' : (k, e.2) ∈ a := by rw [← hek]; exact he
    rw [findK_eq_of_mem a hnd k e.2 he', findK_eq_of_mem b hndb k e.2 (hp.mem_iff.mp he')]
  · rw [findK_none_of_not_mem a k hk, findK_none_of_not_mem b k (fun h => hk ((hp.map _).mem_iff.mpr h))]

theorem zipCols_keys (ps : List Str) (cs : List (List Nat)) (hlen : ps.length = cs.length) : (zipCols ps cs).map (·.1) = ps := by
  induction ps generalizing cs with
  | nil => cases cs <;> simp [zipCols]
  | cons p ps ih =>
    cases cs with
    | nil => simp at hlen
    | cons c cs => simp [zipCols, ih cs (by simpa using hlen)]

/-- **columns come back under their own names whatever the order in which the file lists the parameter datasets** (h5py lists them
    alphabetically): for distinct parameter names, `x = stack([samples[p] for p in parameters])` rebuilds the columns in the declared order -/
theorem colsByName_any_listing_order (ps : List Str) (cs : List (List Nat)) (hnd : ps.Nodup) (hlen : ps.length = cs.length)
    (listed : List (Str × Val)) (hp : listed.Perm (zipCols ps cs)) : colsByName listed ps = some cs := by
  rw [colsByName_congr listed (zipCols ps cs) ps (fun p _ => findK_perm listed _ hp (by
    rw [(hp.map _).nodup_iff, zipCols_keys ps cs hlen]; exact hnd) p)]
  exact colsByName_zipCols ps cs hnd hlen

/-- reading the columns in the order of the LISTING instead is wrong as soon as the declared order is not the alphabetical one:
    parameters `["mass", "distance"]`, listed alphabetically, come back swapped -/
theorem colsByOrder_swaps_witness :
    colsByOrder [("distance".toList, .leaf (.nums [3, 4])), ("mass".toList, .leaf (.nums [1, 2]))] = some [[3, 4], [1, 2]] ∧
    colsByName [("distance".toList, .leaf (.nums [3, 4])), ("mass".toList, .leaf (.nums [1, 2]))] ["mass".toList, "distance".toList]
      = some [[1, 2], [3, 4]] := by
  constructor <;> decide

/-- in-memory round trip of the nested layout -/
theorem samples_nested_roundtrip_direct (s : SampleRec) (hnd : s.parameters.Nodup) (hlen : s.parameters.length = s.cols.length) :
    SampleRec.ofNested s.toNested = some s := by
  have hc := colsByName_zipCols s.parameters s.cols hnd hlen
  obtain ⟨ps, cs, ll, lp, lq⟩ := s
  simp only [SampleRec.ofNested, SampleRec.toNested, lookup]
  simp only at hc
  cases ll <;> cases lp <;> cases lq <;> simp [hc, optNums, getOptNums, List.find?]  <;> decide


/-- parameter names a file can hold: non-empty, no '.', pairwise distinct, at least one; one column per name -/
def SampleRecWf (s : SampleRec) : Prop :=
  s.parameters ≠ [] ∧ s.parameters.Nodup ∧ s.parameters.length = s.cols.length ∧ ∀ p ∈ s.parameters, p ≠ [] ∧ '.' ∉ p

theorem entriesWf_zipCols (ps : List Str) (cs : List (List Nat)) (hnd : ps.Nodup) (hlen : ps.length = cs.length)
    (hn : ∀ p ∈ ps, p ≠ [] ∧ '.' ∉ p) : entriesWf (zipCols ps cs) = true := by
  induction ps generalizing cs with
  | nil => cases cs <;> simp [zipCols, entriesWf]
  | cons p ps ih =>
    cases cs with
    | nil => simp at hlen
    | cons c cs =>
      have hp := hn p List.mem_cons_self
      have hnd' := List.nodup_cons.mp hnd
      simp only [zipCols, entriesWf, Val.wf, Bool.and_eq_true, Bool.not_eq_true', List.all_eq_true, decide_eq_true_eq, Bool.true_and]
      refine ⟨⟨⟨⟨?_, ?_⟩, ?_⟩, ?_⟩, ih cs hnd'.2 (by simpa using hlen) (fun q hq => hn q (List.mem_cons_of_mem _ hq))⟩
      · cases p with
        | nil => exact absurd rfl hp.1
        | cons a as => rfl
      · simpa using hp.2
      · trivial
      · intro e he
        have : e.1 ∈ ps := by
          have := List.mem_map_of_mem (f := (·.1)) he
          rwa [zipCols_keys ps cs (by simpa using hlen)] at this
        intro h
        exact hnd'.1 (h ▸ this)

theorem zipCols_ne_nil (ps : List Str) (cs : List (List Nat)) (h : ps ≠ []) (hlen : ps.length = cs.length) : zipCols ps cs ≠ [] := by
  cases ps with
  | nil => exact absurd rfl h
  | cons p ps => cases cs with
    | nil => simp at hlen
    | cons c cs => simp [zipCols]

theorem entriesWf_toNested (s : SampleRec) (h : SampleRecWf s) : entriesWf s.toNested = true := by
  obtain ⟨hne, hnd, hlen, hn⟩ := h
  have hz := entriesWf_zipCols s.parameters s.cols hnd hlen hn
  have hz0 := zipCols_ne_nil s.parameters s.cols hne hlen
  obtain ⟨ps, cs, ll, lp, lq⟩ := s
  simp only at hz hz0
  have hempty : (zipCols ps cs).isEmpty = false := by
    cases h : zipCols ps cs with
    | nil => exact absurd h hz0
    | cons _ _ => rfl
  cases ll <;> cases lp <;> cases lq <;>
    simp [SampleRec.toNested, entriesWf, Val.wf, optNums, hz, hempty] <;> decide

/-- **a sample set written to a file and read back (datasets in the order written) is the same set**: same parameter names in the
    same order, every column under its own name, the optional log-density columns present or absent as they were -/
theorem samples_nested_roundtrip_file (s : SampleRec) (h : SampleRecWf s) :
    SampleRec.ofNested (loadDict (saveDict s.toNested)) = some s := by
  rw [loadDict_saveDict _ (entriesWf_toNested s h)]
  exact samples_nested_roundtrip_direct s h.2.1 h.2.2.1

example : SampleRecWf { parameters := ["mass".toList, "distance".toList], cols := [[1, 2], [3, 4]], ll := some [5, 6], lp := none, lq := none } := by
  refine ⟨by simp, by decide, rfl, ?_⟩
  intro p hp
  simp at hp
  rcases hp with rfl | rfl <;> decide

end C13
