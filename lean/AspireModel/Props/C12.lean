import AspireModel.Model.Smc
import AspireModel.Model.CkptFile
import AspireModel.Props.C11
/-
  C12 — while sampling with a checkpoint file, checkpoints are written exactly at the iterations
  dictated by the requested cadence plus once at the end, and after any interruption the file
  contains the configuration, the proposal, and byte-for-byte the most recent checkpoint payload
  (never a truncated or stale-suffixed one), all loadable by the documented resume route.

  Models: `Model/CkptFile.lean` (the dataset `checkpoint/state` under `dump_pickle_to_hdf`, the
  file with configuration / proposal / checkpoint) and `Model/Smc.lean` (when `maybe_checkpoint`
  hands a payload to the callback).  The structural lemmas about the loop come from `Props/C11`.
-/
namespace C12
open Model C11
variable {P S : Type}

/-! ## 8. the dataset holds exactly the payload -/

theorem length_resizeDset (old : Bytes) (n : Nat) : (resizeDset old n).length = n := by
  unfold resizeDset
  rw [List.length_append, List.length_take, List.length_replicate]
  omega

theorem writeAt0_same_length (d blob : Bytes) (h : d.length = blob.length) : writeAt0 d blob = blob := by
  unfold writeAt0
  rw [h, List.take_length, List.drop_eq_nil_of_le (Nat.le_of_eq h), List.append_nil]

/-- `dump_pickle_to_hdf` leaves exactly the new payload in the dataset, whatever was there
    before: dataset missing, same size, shorter (growing), longer (shrinking).  Hence never a
    truncated payload and never a stale suffix of an older, longer one. -/
theorem dump_exact (old : Option Bytes) (blob : Bytes) : dumpPickle blob old = blob := by
  unfold dumpPickle
  cases old with
  | none => exact writeAt0_same_length _ _ (List.length_replicate ..)
  | some d =>
    apply writeAt0_same_length
    by_cases h : blob.length = d.length
    · simp [h]
    · simp only [ne_eq, h, not_false_eq_true, if_true]
      exact length_resizeDset d blob.length

/-- the wrong variant (resize only when growing) keeps the tail of a longer old payload … -/
theorem noShrink_stale_general (d blob : Bytes) (h : blob.length < d.length) :
    dumpPickleNoShrink blob (some d) = blob ++ d.drop blob.length := by
  unfold dumpPickleNoShrink writeAt0
  have : ¬ d.length < blob.length := by omega
  simp only [this, if_false]
  rw [List.take_of_length_le (Nat.le_of_lt h)]

/-- … e.g. a 2-byte payload written over a 4-byte one leaves 2 stale bytes (while `dumpPickle`
    leaves exactly the 2 new bytes) -/
theorem noShrink_stale :
    dumpPickleNoShrink [1, 2] (some [9, 8, 7, 6]) = [1, 2, 7, 6] ∧
    dumpPickleNoShrink [1, 2] (some [9, 8, 7, 6]) ≠ [1, 2] ∧
    dumpPickle [1, 2] (some [9, 8, 7, 6]) = [1, 2] := by decide

example : dumpPickle [1, 2, 3] (some [9]) = [1, 2, 3] := by decide        -- growing
example : dumpPickle [1, 2, 3] none = [1, 2, 3] := by decide              -- dataset missing
example : resizeDset [9, 8, 7, 6] 2 = [9, 8] ∧ resizeDset [9] 3 = [9, 0, 0] := by decide

/-! ## 12. the payload in the file can be loaded -/

/-- whatever the dataset held before, after the dump the loader returns the checkpoint -/
theorem loadable {K : Type} (enc : K → Bytes) (dec : Bytes → Option K)
    (hdec : ∀ c, dec (enc c) = some c) (c : K) (old : Option Bytes) :
    dec (dumpPickle (enc c) old) = some c := by
  rw [dump_exact]; exact hdec c

variable {C F : Type}

theorem writeAll_snoc (f : CkptFile C F) (bs : List Bytes) (b : Bytes) :
    writeAll f (bs ++ [b]) = writeCkpt (writeAll f bs) b := by
  unfold writeAll; rw [List.foldl_append]; rfl

theorem writeCkpt_ckpt (f : CkptFile C F) (b : Bytes) : (writeCkpt f b).ckpt = some b := by
  unfold writeCkpt; simp only [dump_exact]

theorem writeAll_config_flow (bs : List Bytes) :
    ∀ f : CkptFile C F, (writeAll f bs).config = f.config ∧ (writeAll f bs).flow = f.flow := by
  induction bs with
  | nil => intro f; exact ⟨rfl, rfl⟩
  | cons b bs ih => intro f; exact ih (writeCkpt f b)

/-- the dataset after a sequence of payloads of arbitrary sizes (growing and shrinking) is
    byte-for-byte the last payload -/
theorem writeAll_ckpt (f : CkptFile C F) (bs : List Bytes) {b : Bytes} (h : bs.getLast? = some b) :
    (writeAll f bs).ckpt = some b := by
  obtain ⟨ys, rfl⟩ := List.getLast?_eq_some_iff.mp h
  rw [writeAll_snoc, writeCkpt_ckpt]

/-- the checkpoint file after an interruption (or at the end): `cks` is the log of checkpoints
    handed to the file callback so far.  The file holds the configuration, a proposal (the one of
    this run unless the file already had one), and `loadCkpt` returns the most recent checkpoint. -/
theorem file_contents {K : Type} (enc : K → Bytes) (dec : Bytes → Option K)
    (hdec : ∀ c, dec (enc c) = some c) (f0 : CkptFile C F) (conf : C) (flow : F)
    (cks : List K) {c : K} (hc : cks.getLast? = some c) :
    let f := writeAll (writeHeader f0 conf flow) (cks.map enc)
    f.config = some conf ∧ (f0.flow = none → f.flow = some flow) ∧ (∀ fl, f0.flow = some fl → f.flow = some fl) ∧
      f.ckpt = some (enc c) ∧ loadCkpt dec f = some c := by
  intro f
  have hcf := writeAll_config_flow (cks.map enc) (writeHeader f0 conf flow)
  have hlast : (cks.map enc).getLast? = some (enc c) := by
    obtain ⟨ys, rfl⟩ := List.getLast?_eq_some_iff.mp hc
    simp
  have hck : f.ckpt = some (enc c) := writeAll_ckpt _ _ hlast
  refine ⟨hcf.1, ?_, ?_, hck, ?_⟩
  · intro h0; rw [hcf.2]; unfold writeHeader; simp only [h0]
  · intro fl h0; rw [hcf.2]; unfold writeHeader; simp only [h0]
  · unfold loadCkpt; rw [hck]; exact hdec c

/-! ## 9. when checkpoints are written -/

theorem due_iff (cfg : SmcCfg S) (i : Nat) :
    due cfg i = true ↔ ∃ e, cfg.every = some e ∧ 0 < e ∧ i % e = 0 := by
  unfold due
  cases cfg.every with
  | none => simp
  | some e => simp

/-- `maybe_checkpoint()` (not forced) hands a payload to the callback iff a cadence `e > 0` is set
    and the iteration count is a multiple of it; then it is the snapshot of the current state -/
theorem maybeCheckpoint_iff (cfg : SmcCfg S) (st : St P S) (z : Option S) :
    ((∃ e, cfg.every = some e ∧ 0 < e ∧ st.iter % e = 0) →
        maybeCheckpoint cfg false st z = { st with ckpts := st.ckpts ++ [snapshot st z] }) ∧
    ((¬ ∃ e, cfg.every = some e ∧ 0 < e ∧ st.iter % e = 0) → maybeCheckpoint cfg false st z = st) := by
  rw [maybeCheckpoint_false, ← due_iff]
  cases due cfg st.iter <;> simp

/-- a forced `maybe_checkpoint(force=True)` always writes when there is a callback -/
theorem maybeCheckpoint_forced (cfg : SmcCfg S) (st : St P S) (z : Option S) {e : Nat}
    (he : cfg.every = some e) :
    maybeCheckpoint cfg true st z = { st with ckpts := st.ckpts ++ [snapshot st z] } := by
  rw [maybeCheckpoint_true, he]

/-- the iterations at which the loop has written checkpoints so far: exactly the due ones among
    `1..n`, in order -/
theorem loop_ckpt_iters (k : Kit P S) (cfg : SmcCfg S) (zero : S) (p0 : P) (pre : List (Step P)) :
    ∀ {st : St P S}, runLoop k cfg (initSt cfg zero p0) pre = .interrupted st →
      st.ckpts.map (·.iter) = (List.range' 1 st.iter).filter (due cfg) := by
  induction pre using snocInd with
  | nil =>
    intro st h
    simp only [runLoop, Outcome.interrupted.injEq] at h
    subst h; rfl
  | snoc pre s ih =>
    intro st' h
    obtain ⟨stP, hP, hi⟩ := runLoop_snoc_interrupted k cfg pre s h
    obtain ⟨_, f2, _, _, f5⟩ := iterate_ok_facts k cfg hi
    rw [f5, List.map_append, ih hP, f2, List.range'_1_concat, List.filter_append]
    congr 1
    rw [Nat.add_comm 1 stP.iter, ← f2]
    cases hd : due cfg st'.iter with
    | false => simp [hd]
    | true => simp [hd]; rfl

theorem loop_ckpt_iters_finished (k : Kit P S) (cfg : SmcCfg S) (zero : S) (p0 : P)
    (steps : List (Step P)) {stL : St P S} {rest : List (Step P)}
    (h : runLoop k cfg (initSt cfg zero p0) steps = .finishedLoop stL rest) :
    stL.ckpts.map (·.iter) = (List.range' 1 stL.iter).filter (due cfg) := by
  obtain ⟨pre, s, stP, _, hP, hi⟩ := runLoop_finished_decomp k cfg steps h
  obtain ⟨_, f2, _, _, f5⟩ := iterate_ok_facts k cfg hi
  rw [f5, List.map_append, loop_ckpt_iters k cfg zero p0 pre hP, f2, List.range'_1_concat,
    List.filter_append]
  congr 1
  rw [Nat.add_comm 1 stP.iter, ← f2]
  cases hd : due cfg stL.iter with
  | false => simp [hd]
  | true => simp [hd]; rfl

/-- the multiples of `e` among `1..n` are `e, 2e, …, (n / e) e` -/
theorem filter_multiples (e : Nat) (he : 0 < e) (n : Nat) :
    (List.range' 1 n).filter (fun i => decide (0 < e) && i % e == 0) =
      (List.range (n / e)).map (fun q => e * (q + 1)) := by
  induction n with
  | zero => simp
  | succ n ih =>
    rw [List.range'_1_concat, List.filter_append, ih]
    by_cases hd : e ∣ n + 1
    · have hm : (n + 1) % e = 0 := Nat.mod_eq_zero_of_dvd hd
      rw [Nat.succ_div_of_dvd hd, List.range_succ, List.map_append]
      congr 1
      have : e * (n / e + 1) = n + 1 := by
        have h1 := Nat.succ_div_of_dvd hd
        have h2 := Nat.div_add_mod (n + 1) e
        rw [hm, h1] at h2; omega
      simp [Nat.add_comm 1 n, hm, he, this]
    · have hm : (n + 1) % e ≠ 0 := fun h => hd (Nat.dvd_of_mod_eq_zero h)
      rw [Nat.succ_div_of_not_dvd hd]
      simp [Nat.add_comm 1 n, hm]

/-- what `finish` adds to the log: exactly one forced checkpoint, taken after the enlargement -/
theorem finish_ckpts (k : Kit P S) (cfg : SmcCfg S) {st : St P S} {rest : List (Step P)}
    {r : Result P S} (h : finish k cfg st rest = some r) :
    r.st.iter = st.iter ∧
    (∀ e, cfg.every = some e → ∃ c, r.st.ckpts = st.ckpts ++ [c] ∧ c.iter = st.iter ∧
        c.pop = r.pop ∧ c.logZ = some r.logZ ∧ c = snapshot r.st (some r.logZ)) ∧
    (cfg.every = none → r.st.ckpts = st.ckpts) := by
  have key : ∀ X : St P S, X.iter = st.iter → X.ckpts = st.ckpts → r = finishGo k cfg X →
      r.st.iter = st.iter ∧
      (∀ e, cfg.every = some e → ∃ c, r.st.ckpts = st.ckpts ++ [c] ∧ c.iter = st.iter ∧
          c.pop = r.pop ∧ c.logZ = some r.logZ ∧ c = snapshot r.st (some r.logZ)) ∧
      (cfg.every = none → r.st.ckpts = st.ckpts) := by
    intro X h1 h2 hr
    subst hr
    unfold finishGo
    simp only [maybeCheckpoint_true]
    refine ⟨?_, ?_, ?_⟩
    · cases cfg.every <;> exact h1
    · intro e he
      rw [he]
      exact ⟨snapshot X (some (k.sumS X.hist.ratio)), by simp only [h2], h1, rfl, rfl, rfl⟩
    · intro he; rw [he]; exact h2
  rw [finish_eq] at h
  cases hn : needFinal k cfg st with
  | false =>
    rw [hn] at h
    simp only [Bool.false_eq_true, if_false, Option.some.injEq] at h
    exact key st rfl rfl h.symm
  | true =>
    rw [hn] at h
    cases rest with
    | nil => simp only [if_true] at h; cases h
    | cons s' rest' =>
      simp only [if_true, Option.some.injEq] at h
      exact key (enlarged st s') rfl rfl h.symm

/-- a finished run: what `run … = .done r` unfolds to -/
theorem run_done (k : Kit P S) (cfg : SmcCfg S) (zero : S) (p0 : P) (steps : List (Step P))
    {r : Result P S} (h : run k cfg zero p0 steps = .done r) :
    ∃ stL rest, runLoop k cfg (initSt cfg zero p0) steps = .finishedLoop stL rest ∧
      finish k cfg stL rest = some r := by
  rw [run_eq] at h
  unfold runFrom at h
  simp only [if_true] at h
  cases hl : runLoop k cfg (initSt cfg zero p0) steps with
  | raised e => rw [hl] at h; cases h
  | interrupted stj => rw [hl] at h; cases h
  | finishedLoop stL rest =>
    rw [hl] at h
    simp only at h
    cases hf : finish k cfg stL rest with
    | none => rw [hf] at h; cases h
    | some r0 =>
      rw [hf] at h
      simp only [RunOut.done.injEq] at h
      subst h
      exact ⟨stL, rest, rfl, hf⟩

/-- CADENCE: a finished run with `checkpoint_every = e > 0` has written checkpoints exactly at
    the iterations `e, 2e, …, ⌊n/e⌋ e` (`n` = number of iterations) and once more, forced, at the
    end — in this order, nothing else. -/
theorem cadence (k : Kit P S) (cfg : SmcCfg S) (zero : S) (p0 : P) (steps : List (Step P))
    {r : Result P S} (h : run k cfg zero p0 steps = .done r) {e : Nat} (he : cfg.every = some e)
    (hpos : 0 < e) :
    r.st.ckpts.map (·.iter) = (List.range (r.st.iter / e)).map (fun q => e * (q + 1)) ++ [r.st.iter] := by
  obtain ⟨stL, rest, hl, hf⟩ := run_done k cfg zero p0 steps h
  obtain ⟨h1, h2, _⟩ := finish_ckpts k cfg hf
  obtain ⟨c, hc1, hc2, _⟩ := h2 e he
  rw [hc1, List.map_append, loop_ckpt_iters_finished k cfg zero p0 steps hl, h1]
  have : due cfg = fun i => decide (0 < e) && i % e == 0 := by
    funext i; unfold due; rw [he]
  rw [this, filter_multiples e hpos]
  simp [hc2]

/-- the same for the log of an interrupted run: the multiples of `e` up to the last iteration
    completed by the loop (no forced checkpoint) -/
theorem cadence_interrupted (k : Kit P S) (cfg : SmcCfg S) (zero : S) (p0 : P) (pre : List (Step P))
    {st : St P S} (h : runLoop k cfg (initSt cfg zero p0) pre = .interrupted st) {e : Nat}
    (he : cfg.every = some e) (hpos : 0 < e) :
    st.ckpts.map (·.iter) = (List.range (pre.length / e)).map (fun q => e * (q + 1)) := by
  rw [loop_ckpt_iters k cfg zero p0 pre h, (consumed_tracks k cfg zero p0 pre h).iter]
  have : due cfg = fun i => decide (0 < e) && i % e == 0 := by
    funext i; unfold due; rw [he]
  rw [this, filter_multiples e hpos]

/-- no callback, or cadence `0`: the loop writes nothing -/
theorem no_cadence_no_ckpts (k : Kit P S) (cfg : SmcCfg S) (zero : S) (p0 : P) (pre : List (Step P))
    {st : St P S} (h : runLoop k cfg (initSt cfg zero p0) pre = .interrupted st)
    (he : cfg.every = none ∨ cfg.every = some 0) : st.ckpts = [] := by
  have h1 := loop_ckpt_iters k cfg zero p0 pre h
  have : due cfg = fun _ => false := by
    funext i; unfold due
    cases he with
    | inl he => rw [he]
    | inr he => rw [he]; simp
  rw [this] at h1
  have h2 : (List.range' 1 st.iter).filter (fun _ => false) = [] := by
    induction (List.range' 1 st.iter) with
    | nil => rfl
    | cons a l ih => simp [List.filter]
  rw [h2] at h1
  exact List.map_eq_nil_iff.mp h1

/-! ## 10. the log only grows -/

theorem iterate_ckpts_prefix (k : Kit P S) (cfg : SmcCfg S) {st st' : St P S} {s : Step P} {f : Bool}
    (h : iterate k cfg st s = .ok (st', f)) : st.ckpts <+: st'.ckpts := by
  rw [(iterate_ok_facts k cfg h).2.2.2.2]; exact List.prefix_append _ _

theorem runLoop_ckpts_prefix (k : Kit P S) (cfg : SmcCfg S) (steps : List (Step P)) :
    ∀ {st st' : St P S}, (runLoop k cfg st steps = .interrupted st' ∨
        ∃ rest, runLoop k cfg st steps = .finishedLoop st' rest) → st.ckpts <+: st'.ckpts := by
  induction steps with
  | nil =>
    intro st st' h
    cases h with
    | inl h => simp only [runLoop, Outcome.interrupted.injEq] at h; subst h; exact List.prefix_refl _
    | inr h => obtain ⟨_, h⟩ := h; cases h
  | cons s tl ih =>
    intro st st' h
    rw [runLoop_cons] at h
    cases hi : iterate k cfg st s with
    | error e => rw [hi] at h; rcases h with h | ⟨_, h⟩ <;> cases h
    | ok v =>
      obtain ⟨a, f⟩ := v
      have hp := iterate_ckpts_prefix k cfg hi
      rw [hi] at h
      cases f with
      | true =>
        rcases h with h | ⟨_, h⟩
        · cases h
        · simp only [Outcome.finishedLoop.injEq] at h
          rw [← h.1]; exact hp
      | false => exact hp.trans (ih h)

theorem finishGo_ckpts_prefix (k : Kit P S) (cfg : SmcCfg S) (st : St P S) :
    st.ckpts <+: (finishGo k cfg st).st.ckpts := by
  unfold finishGo
  simp only [maybeCheckpoint_true]
  cases cfg.every with
  | none => exact List.prefix_refl _
  | some e => exact List.prefix_append _ _

theorem runFrom_false_log_prefix (k : Kit P S) (cfg : SmcCfg S) (st : St P S) (rest : List (Step P)) :
    st.ckpts <+: logOf (runFrom k cfg false st rest) := by
  unfold runFrom
  simp only [Bool.false_eq_true, if_false]
  rw [finish_eq]
  cases needFinal k cfg st with
  | false => exact finishGo_ckpts_prefix k cfg st
  | true =>
    cases rest with
    | nil => exact List.prefix_refl _
    | cons s' rest' => exact finishGo_ckpts_prefix k cfg (enlarged st s')

theorem runFrom_true_log_prefix (k : Kit P S) (cfg : SmcCfg S) (st : St P S) (steps : List (Step P))
    (hne : ∀ e, runFrom k cfg true st steps ≠ .raised e) :
    st.ckpts <+: logOf (runFrom k cfg true st steps) := by
  cases hl : runLoop k cfg st steps with
  | raised e =>
    exfalso; apply hne e
    unfold runFrom; simp only [if_true, hl]
  | interrupted st' =>
    have : runFrom k cfg true st steps = .interrupted st'.ckpts := by
      unfold runFrom; simp only [if_true, hl]
    rw [this]
    exact runLoop_ckpts_prefix k cfg steps (.inl hl)
  | finishedLoop stL rest =>
    rw [runFrom_true_of_finished k cfg hl]
    exact (runLoop_ckpts_prefix k cfg steps (.inr ⟨rest, hl⟩)).trans
      (runFrom_false_log_prefix k cfg stL rest)

/-- THE LOG ONLY GROWS: the log of a run interrupted after `steps₁` is a prefix of the log of the
    run that got further (`steps₁ ++ steps₂`; interrupted later, or finished).  Hence after any
    interruption the content of the file — the last entry of the log so far — is the most recent
    payload written, and it is one of the payloads the uninterrupted run writes. -/
theorem ckpts_prefix_monotone (k : Kit P S) (cfg : SmcCfg S) (zero : S) (p0 : P)
    (steps₁ steps₂ : List (Step P)) {cks₁ : List (Ckpt P S)}
    (h1 : run k cfg zero p0 steps₁ = .interrupted cks₁)
    (hne : ∀ e, run k cfg zero p0 (steps₁ ++ steps₂) ≠ .raised e) :
    cks₁ <+: logOf (run k cfg zero p0 (steps₁ ++ steps₂)) := by
  rw [run_eq] at h1 hne ⊢
  cases hl : runLoop k cfg (initSt cfg zero p0) steps₁ with
  | raised e =>
    unfold runFrom at h1; simp only [if_true, hl] at h1; cases h1
  | interrupted st₁ =>
    have : cks₁ = st₁.ckpts := by
      unfold runFrom at h1; simp only [if_true, hl, RunOut.interrupted.injEq] at h1; exact h1.symm
    rw [this, runFrom_split k cfg steps₁ steps₂ hl]
    rw [runFrom_split k cfg steps₁ steps₂ hl] at hne
    exact runFrom_true_log_prefix k cfg st₁ steps₂ hne
  | finishedLoop stL rest₁ =>
    rw [runFrom_true_of_finished k cfg hl] at h1
    have hfull := runLoop_append_finished k cfg steps₁ steps₂ hl
    rw [runFrom_true_of_finished k cfg hfull]
    have : cks₁ = stL.ckpts := by
      unfold runFrom at h1
      simp only [Bool.false_eq_true, if_false] at h1
      cases hf : finish k cfg stL rest₁ with
      | none => rw [hf] at h1; simp only [RunOut.interrupted.injEq] at h1; exact h1.symm
      | some r => rw [hf] at h1; cases h1
    rw [this]
    exact runFrom_false_log_prefix k cfg stL _

/-- the two usual forms -/
theorem ckpts_prefix_interrupted (k : Kit P S) (cfg : SmcCfg S) (zero : S) (p0 : P)
    (steps₁ steps₂ : List (Step P)) {cks₁ cks₂ : List (Ckpt P S)}
    (h1 : run k cfg zero p0 steps₁ = .interrupted cks₁)
    (h2 : run k cfg zero p0 (steps₁ ++ steps₂) = .interrupted cks₂) : cks₁ <+: cks₂ := by
  have := ckpts_prefix_monotone k cfg zero p0 steps₁ steps₂ h1 (by rw [h2]; intro e h; cases h)
  rwa [h2] at this

theorem ckpts_prefix_done (k : Kit P S) (cfg : SmcCfg S) (zero : S) (p0 : P)
    (steps₁ steps₂ : List (Step P)) {cks₁ : List (Ckpt P S)} {r : Result P S}
    (h1 : run k cfg zero p0 steps₁ = .interrupted cks₁)
    (h2 : run k cfg zero p0 (steps₁ ++ steps₂) = .done r) : cks₁ <+: r.st.ckpts := by
  have := ckpts_prefix_monotone k cfg zero p0 steps₁ steps₂ h1 (by rw [h2]; intro e h; cases h)
  rwa [h2] at this

/-! ## 11. the last entry of the log is the checkpoint of the most recent due iteration -/

/-- the state right after iteration `i` of the loop of a fresh run on `steps` (the loop may have
    broken exactly at iteration `i`) -/
def LoopStateAt (k : Kit P S) (cfg : SmcCfg S) (zero : S) (p0 : P) (steps : List (Step P)) (i : Nat)
    (st : St P S) : Prop :=
  i ≤ steps.length ∧
    (runLoop k cfg (initSt cfg zero p0) (steps.take i) = .interrupted st ∨
     runLoop k cfg (initSt cfg zero p0) (steps.take i) = .finishedLoop st [])

theorem LoopStateAt.append {k : Kit P S} {cfg : SmcCfg S} {zero : S} {p0 : P} {pre : List (Step P)}
    {i : Nat} {st : St P S} (h : LoopStateAt k cfg zero p0 pre i st) (more : List (Step P)) :
    LoopStateAt k cfg zero p0 (pre ++ more) i st := by
  refine ⟨by have := h.1; simp; omega, ?_⟩
  rw [List.take_append_of_le_length h.1]; exact h.2

/-- the log `cks` after the loop has completed the iterations `pre`, cadence `e` -/
def LastInfo (k : Kit P S) (cfg : SmcCfg S) (zero : S) (p0 : P) (e : Nat) (pre : List (Step P))
    (cks : List (Ckpt P S)) : Prop :=
  (pre.length < e → cks = []) ∧
  (e ≤ pre.length → ∃ m stc, m % e = 0 ∧ m ≤ pre.length ∧ pre.length < m + e ∧
      LoopStateAt k cfg zero p0 pre m stc ∧ cks.getLast? = some (snapshot stc none))

theorem lastInfo_step (k : Kit P S) (cfg : SmcCfg S) (zero : S) (p0 : P) {e : Nat} (hpos : 0 < e)
    {pre : List (Step P)} {s : Step P} {cks cks' : List (Ckpt P S)} {st' : St P S}
    (hI : LastInfo k cfg zero p0 e pre cks)
    (hst : LoopStateAt k cfg zero p0 (pre ++ [s]) (pre.length + 1) st')
    (hcks : cks' = cks ++ (if (pre.length + 1) % e = 0 then [snapshot st' none] else [])) :
    LastInfo k cfg zero p0 e (pre ++ [s]) cks' := by
  have hlen : (pre ++ [s]).length = pre.length + 1 := by simp
  rw [LastInfo, hlen]
  by_cases hd : (pre.length + 1) % e = 0
  · rw [if_pos hd] at hcks
    have hle : e ≤ pre.length + 1 := Nat.le_of_dvd (by omega) (Nat.dvd_of_mod_eq_zero hd)
    refine ⟨fun h => by omega, fun _ => ⟨pre.length + 1, st', hd, Nat.le_refl _, by omega, hst, ?_⟩⟩
    rw [hcks, List.getLast?_concat]
  · rw [if_neg hd, List.append_nil] at hcks
    subst hcks
    refine ⟨fun h => hI.1 (by omega), fun h => ?_⟩
    have hne : e ≠ pre.length + 1 := by
      intro h'; apply hd; rw [← h']; exact Nat.mod_self _
    obtain ⟨m, stc, h1, h2, h3, h4, h5⟩ := hI.2 (by omega)
    refine ⟨m, stc, h1, by omega, ?_, h4.append [s], h5⟩
    have : pre.length + 1 ≠ m + e := by
      intro h'; apply hd; rw [h', Nat.add_mod_right]; exact h1
    omega

theorem lastInfo_interrupted (k : Kit P S) (cfg : SmcCfg S) (zero : S) (p0 : P) {e : Nat}
    (he : cfg.every = some e) (hpos : 0 < e) (pre : List (Step P)) :
    ∀ {st : St P S}, runLoop k cfg (initSt cfg zero p0) pre = .interrupted st →
      LastInfo k cfg zero p0 e pre st.ckpts := by
  have hdue : ∀ i, due cfg i = decide (i % e = 0) := by
    intro i; unfold due; rw [he]; apply Bool.eq_iff_iff.mpr; simp [hpos]
  induction pre using snocInd with
  | nil =>
    intro st h
    simp only [runLoop, Outcome.interrupted.injEq] at h
    subst h
    exact ⟨fun _ => rfl, fun h => by simp at h; omega⟩
  | snoc pre s ih =>
    intro st' h
    obtain ⟨stP, hP, hi⟩ := runLoop_snoc_interrupted k cfg pre s h
    obtain ⟨_, f2, _, _, f5⟩ := iterate_ok_facts k cfg hi
    have hiter : st'.iter = pre.length + 1 := by rw [f2, (consumed_tracks k cfg zero p0 pre hP).iter]
    refine lastInfo_step k cfg zero p0 hpos (st' := st') (ih hP) ⟨by simp, .inl ?_⟩ ?_
    · rw [List.take_of_length_le (by simp)]; exact h
    · rw [f5, hiter, hdue]; simp

theorem lastInfo_finished (k : Kit P S) (cfg : SmcCfg S) (zero : S) (p0 : P) {e : Nat}
    (he : cfg.every = some e) (hpos : 0 < e) (steps : List (Step P)) {stL : St P S}
    (h : runLoop k cfg (initSt cfg zero p0) steps = .finishedLoop stL []) :
    LastInfo k cfg zero p0 e steps stL.ckpts := by
  have hdue : ∀ i, due cfg i = decide (i % e = 0) := by
    intro i; unfold due; rw [he]; apply Bool.eq_iff_iff.mpr; simp [hpos]
  obtain ⟨pre, s, stP, hsteps, hP, hi⟩ := runLoop_finished_decomp k cfg steps h
  obtain ⟨_, f2, _, _, f5⟩ := iterate_ok_facts k cfg hi
  have hiter : stL.iter = pre.length + 1 := by rw [f2, (consumed_tracks k cfg zero p0 pre hP).iter]
  subst hsteps
  refine lastInfo_step k cfg zero p0 hpos (st' := stL) (lastInfo_interrupted k cfg zero p0 he hpos pre hP)
    ⟨by simp, .inr ?_⟩ ?_
  · rw [List.take_of_length_le (by simp)]; exact h
  · rw [f5, hiter, hdue]; simp

theorem multiple_unique {e m j : Nat} (_hpos : 0 < e) (h1 : m % e = 0) (h2 : m ≤ j) (h3 : j < m + e) :
    m = e * (j / e) := by
  obtain ⟨q, rfl⟩ := Nat.dvd_of_mod_eq_zero h1
  congr 1
  symm
  apply Nat.div_eq_of_lt_le
  · rw [Nat.mul_comm]; exact h2
  · rw [Nat.add_mul, Nat.one_mul, Nat.mul_comm]; exact h3

/-- LAST CHECKPOINT: a run with cadence `e > 0`, interrupted after `j` steps (inside the loop or
    inside the enlargement): if `j < e` nothing has been written; otherwise the last entry of the
    log — the content of the file — is the snapshot of the state right after iteration
    `e * (j / e)`, the most recent multiple of the cadence. -/
theorem last_ckpt_is_current (k : Kit P S) (cfg : SmcCfg S) (zero : S) (p0 : P) (steps : List (Step P))
    {e : Nat} (he : cfg.every = some e) (hpos : 0 < e) {j : Nat} (hj : j ≤ steps.length)
    {cks : List (Ckpt P S)} (hint : run k cfg zero p0 (steps.take j) = .interrupted cks) :
    (j < e → cks = []) ∧
    (e ≤ j → ∃ st, LoopStateAt k cfg zero p0 steps (e * (j / e)) st ∧
      cks.getLast? = some (snapshot st none)) := by
  have hlen : (steps.take j).length = j := by rw [List.length_take]; exact Nat.min_eq_left hj
  have hI : LastInfo k cfg zero p0 e (steps.take j) cks := by
    rw [run_eq] at hint
    cases hl : runLoop k cfg (initSt cfg zero p0) (steps.take j) with
    | raised e' => unfold runFrom at hint; simp only [if_true, hl] at hint; cases hint
    | interrupted stj =>
      unfold runFrom at hint
      simp only [if_true, hl, RunOut.interrupted.injEq] at hint
      rw [← hint]
      exact lastInfo_interrupted k cfg zero p0 he hpos _ hl
    | finishedLoop stL rest' =>
      rw [runFrom_true_of_finished k cfg hl] at hint
      unfold runFrom at hint
      simp only [Bool.false_eq_true, if_false] at hint
      rw [finish_eq] at hint
      cases hn : needFinal k cfg stL with
      | false => rw [hn] at hint; cases hint
      | true =>
        rw [hn] at hint
        cases rest' with
        | cons s' r' => cases hint
        | nil =>
          simp only [if_true, RunOut.interrupted.injEq] at hint
          rw [← hint]
          exact lastInfo_finished k cfg zero p0 he hpos _ hl
  rw [LastInfo, hlen] at hI
  refine ⟨hI.1, fun h => ?_⟩
  obtain ⟨m, stc, h1, h2, h3, h4, h5⟩ := hI.2 h
  have hm := multiple_unique hpos h1 h2 h3
  have h4' := h4.append (steps.drop j)
  rw [List.take_append_drop] at h4'
  exact ⟨stc, by rw [← hm]; exact h4', h5⟩

/-! ## 13. file + resume together, and concrete instances -/

/-- CAPSTONE: sample with a checkpoint file, interrupt after any number `j` of steps at a point
    where at least one checkpoint has been written; then the file holds the configuration, a
    proposal, and a payload that the loader decodes to the most recent checkpoint `c` of the log;
    and resuming from `c` finishes with the evidence, error, final population, history, iteration
    count and temperature of the uninterrupted run. -/
theorem file_resume (k : Kit P S) (cfg : SmcCfg S) (zero : S) (p0 : P) (steps : List (Step P))
    (enc : Ckpt P S → Bytes) (dec : Bytes → Option (Ckpt P S)) (hdec : ∀ c, dec (enc c) = some c)
    (f0 : CkptFile C F) (conf : C) (flow : F)
    {r : Result P S} (hfull : run k cfg zero p0 steps = .done r) (j : Nat)
    {cks : List (Ckpt P S)} (hint : run k cfg zero p0 (steps.take j) = .interrupted cks)
    (hne : cks ≠ []) :
    let f := writeAll (writeHeader f0 conf flow) (cks.map enc)
    f.config = some conf ∧ f.flow.isSome = true ∧
    ∃ c, cks.getLast? = some c ∧ f.ckpt = some (enc c) ∧ loadCkpt dec f = some c ∧
      ∃ r', resume k cfg c steps = .done r' ∧ r'.logZ = r.logZ ∧ r'.logZerr = r.logZerr ∧
        r'.pop = r.pop ∧ r'.st.hist = r.st.hist ∧ r'.st.iter = r.st.iter ∧ r'.st.beta = r.st.beta := by
  intro f
  obtain ⟨c, hc⟩ : ∃ c, cks.getLast? = some c := by
    cases h : cks.getLast? with
    | none => exact (hne (List.getLast?_eq_none_iff.mp h)).elim
    | some c => exact ⟨c, rfl⟩
  obtain ⟨h1, h2, h3, h4, h5⟩ := file_contents enc dec hdec f0 conf flow cks hc
  refine ⟨h1, ?_, c, hc, h4, h5, resume_eq k cfg zero p0 steps hfull j hint hc⟩
  cases h0 : f0.flow with
  | none => rw [h2 h0]; rfl
  | some fl => rw [h3 fl h0]; rfl

/-- an interruption before the first checkpoint leaves the checkpoint dataset as it was -/
theorem file_no_ckpt (f : CkptFile C F) : writeAll f [] = f := rfl

/-- payload sizes growing and shrinking: the dataset always equals the last payload -/
example : (writeAll ({} : CkptFile Nat Nat) [[1, 2, 3], [4], [5, 6, 7, 8], [9, 9]]).ckpt = some [9, 9] := by
  decide
example : (writeAll ({} : CkptFile Nat Nat) [[1, 2, 3], [4], [5, 6, 7, 8]]).ckpt = some [5, 6, 7, 8] := by
  decide
example : (writeAll (writeHeader ({ flow := some 3 } : CkptFile Nat Nat) 1 2) [[1, 2, 3], [4]])
    = { config := some 1, flow := some 3, ckpt := some [4] } := rfl

/-- cadence 1: three iterations, checkpoints at 1, 2, 3 and the forced one -/
example : (logOf (run kitN cfgN 0 5 stepsN)).map (·.iter) = [1, 2, 3, 3] := by decide
/-- cadence 2: three iterations, checkpoint at 2 and the forced one (taken after the enlargement) -/
example : (logOf (run kitN cfgN2 0 5 stepsN)).map (·.iter) = [2, 3] ∧
    (logOf (run kitN cfgN2 0 5 stepsN)).map (·.pop) = [20, 7] := by decide
/-- cadence 2, interrupted after 1, 2, 3 steps: nothing, then the checkpoint of iteration 2 -/
example : (logOf (run kitN cfgN2 0 5 (stepsN.take 1))).map (·.iter) = [] ∧
    (logOf (run kitN cfgN2 0 5 (stepsN.take 2))).map (·.iter) = [2] ∧
    (logOf (run kitN cfgN2 0 5 (stepsN.take 3))).map (·.iter) = [2] := by decide
/-- the hypotheses of `cadence`, `last_ckpt_is_current` and `file_resume` are met -/
example : ∃ r, run kitN cfgN2 0 5 stepsN = .done r ∧ cfgN2.every = some 2 := ⟨_, rfl, rfl⟩
example : ∃ cks, run kitN cfgN2 0 5 (stepsN.take 3) = .interrupted cks ∧ cks.length = 1 ∧ 3 ≤ stepsN.length :=
  ⟨_, rfl, rfl, by decide⟩

end C12
