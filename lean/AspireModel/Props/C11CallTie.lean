import AspireModel.Props.C11ChainTie
import AspireModel.Props.C18Tie
/-
  C11, the whole RESUMED CALL on translated source: build (another sampler, earlier) → dictionary → `restore_from_checkpoint` → prologue →
  `while True:` loop → statements after the loop.  `src_resumed_call`: the translated loop-and-epilogue, started from the state the
  translated prologue produces out of the translated restore of the translated build of a run state `st`, is the model's
  `runFrom … (restore (snapshot st))` (up to the position counter of the random stream, which the source keeps inside the generator
  state and the loop never reads) — the function about which `C11.resume_eq` proves that it finishes like the uninterrupted run.
-/
set_option linter.unusedSectionVars false
namespace C11Call
open Gen Model C11State C11Entry C11Chain C18

variable {α : Type} [Num α] [DecidableLT α] [DecidableLE α] {P W C' C K : Type}

theorem src_resumed_call (sops : StateOps P C Nat K (Hist P α) α) (lops : LoopOps P W C' α) (hp : Heap (Hist P α)) (live : Addr)
    (hl : hp.valid live) (st : St P α) (hconv : ∀ p b, sops.smc_from_samples (sops.from_samples p) b = p) (ls : List (Later (Hist P α)))
    (self2 : StSelf Nat K α) (hr2 : self2.rng_state.isSome = true)
    (draw : Nat → P) (conv : P → α → P) (nanv : α) (oneOver : Nat → α) (dflt : Gen.Restored P (Hist P α) α)
    (self0 : EntrySelf (Hist P α) α) (pop0 : P) (n : Nat) (nsteps : Option Nat) (adaptive : Bool) (ms : Option α) (mx : Option Nat)
    (hok : nsteps.isSome = true ∨ adaptive = true) (tol : α) (cfg : SmcCfg α) (nfs : Option Nat) (flag : Bool) (fuel : Nat) :
    let b := smc_build_checkpoint_state sops (worldOf (K := K) hp live st) st.pop st.iter st.beta (some st.minStep)
    let w2 : World (Hist P α) Nat K α := { heap := applyAll b.1.self.history b.1.heap ls, self := self2 }
    let eops : EntryOps P (Hist P α) (Source P C Nat K α) α :=
      { restore := restoreVia sops w2 dflt, draw_initial_samples := draw, smc_from_samples := conv, new_history := {},
        append_pop := fun h p => { h with pops := h.pops ++ [p] }, zero := sops.zero, one_over := oneOver, nanv := nanv }
    ∃ e, smc_prologue eops self0 pop0 (some (.dict b.2)) n cfg.storeHistory nsteps adaptive ms mx = .ok e ∧
      ({ stOfEntry e with consumed := st.consumed } : St P α) = restore (snapshot st) ∧
      Gen.smc_driver_run lops e.beta_step tol cfg.storeHistory cfg.every.isSome cfg.every cfg.maxSteps cfg.nFinal nfs flag fuel
          (stOf lops (stOfEntry e)) =
        match runFrom (kitOf lops e.beta_step tol) cfg flag (stOfEntry e) (allStepsOf lops e.beta_step tol cfg nfs flag fuel (stOfEntry e)) with
        | .raised err => .error err
        | .interrupted _ => .ok none
        | .done r => .ok (some (resOf lops r)) := by
  intro b w2 eops
  have hchain := src_resume_chain sops hp live hl st hconv ls self2 hr2 draw conv nanv oneOver dflt self0 pop0 n cfg.storeHistory nsteps
    adaptive ms mx hok
  simp only at hchain
  cases hq : smc_prologue eops self0 pop0 (some (.dict b.2)) n cfg.storeHistory nsteps adaptive ms mx with
  | error err =>
    have : smc_prologue eops self0 pop0 (some (.dict b.2)) n cfg.storeHistory nsteps adaptive ms mx = .error err := hq
    rw [this] at hchain
    simp [Except.map] at hchain
  | ok e =>
    have : smc_prologue eops self0 pop0 (some (.dict b.2)) n cfg.storeHistory nsteps adaptive ms mx = .ok e := hq
    rw [this] at hchain
    simp only [Except.map, Except.ok.injEq] at hchain
    exact ⟨e, rfl, hchain, tie_smc_run lops e.beta_step tol cfg nfs flag fuel (stOfEntry e)⟩

/-- the whole FRESH call: the translated loop and epilogue, started from the state the translated prologue produces for a call without
    `resume_from`, are the model's `runFrom … (initSt cfg 0 p0)` with `p0` the converted initial draw - whatever an earlier call left on the
    object -/
theorem src_fresh_call (lops : LoopOps P W C' α) (draw : Nat → P) (conv : P → α → P) (dec : Unit → Ckpt P α) (zero nanv : α) (oneOver : Nat → α)
    (self0 : EntrySelf (Hist P α) α) (pop0 : P) (n : Nat) (cfg : SmcCfg α) (nsteps : Option Nat) (adaptive : Bool) (ms : Option α) (mx : Option Nat)
    (hok : nsteps.isSome = true ∨ adaptive = true)
    (hms : cfg.minStep0 = optMinStep (opsOf draw conv dec zero nanv oneOver) ms mx) (tol : α) (nfs : Option Nat) (flag : Bool) (fuel : Nat) :
    ∃ e, smc_prologue (opsOf draw conv dec zero nanv oneOver) self0 pop0 none n cfg.storeHistory nsteps adaptive ms mx = .ok e ∧
      stOfEntry e = initSt cfg zero (conv (draw n) zero) ∧
      Gen.smc_driver_run lops e.beta_step tol cfg.storeHistory cfg.every.isSome cfg.every cfg.maxSteps cfg.nFinal nfs flag fuel
          (stOf lops (initSt cfg zero (conv (draw n) zero))) =
        match runFrom (kitOf lops e.beta_step tol) cfg flag (initSt cfg zero (conv (draw n) zero))
            (allStepsOf lops e.beta_step tol cfg nfs flag fuel (initSt cfg zero (conv (draw n) zero))) with
        | .raised err => .error err
        | .interrupted _ => .ok none
        | .done r => .ok (some (resOf lops r)) := by
  have h := tie_fresh_is_initSt draw conv dec zero nanv oneOver self0 pop0 n cfg nsteps adaptive ms mx hok hms
  cases hq : smc_prologue (opsOf draw conv dec zero nanv oneOver) self0 pop0 none n cfg.storeHistory nsteps adaptive ms mx with
  | error err => rw [hq] at h; simp [Except.map] at h
  | ok e =>
    rw [hq] at h
    simp only [Except.map, Except.ok.injEq] at h
    exact ⟨e, rfl, h, tie_smc_run lops e.beta_step tol cfg nfs flag fuel _⟩

end C11Call
