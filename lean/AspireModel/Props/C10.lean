import AspireModel.Model.Eval
import AspireModel.Model.Rows
import AspireModel.Model.Smc
import AspireModel.Props.C16
/-
  C10 — cached log-likelihood / log-prior / log-proposal values always belong to the coordinates
  they are stored with; the initial SMC/MCMC population has exactly the requested size, only
  finite-prior particles, each still paired with its own proposal log-density.
  Model: `Model/Eval.lean` (evaluation idiom, initial draw), `Model/Rows.lean` (`select`, `concat`),
  `Model/Smc.lean` (loop, checkpoints, resume).  Core Lean only; `L`, `π`, `q` are arbitrary
  deterministic functions `X → V`, `X`, `V` arbitrary types.
-/
namespace C10
open Model
variable {X V : Type}

/-! ### 1. every evaluation produces a coherent, well-formed set -/

/-- general form: whatever proposal column is carried along, if it is `q` of the points (or absent)
    the evaluated set is coherent -/
theorem evalLP_coherent_gen (L π q : X → V) (st : EvalState X V) (xs : List X) (lq : Option (List V))
    (hq : ∀ l, lq = some l → l = xs.map q) :
    Coherent L π q (evalLP π L st xs lq).2 := by
  refine ⟨?_, ?_, ?_⟩
  · intro l hl; simp only [evalLP, Option.some.injEq] at hl; exact hl.symm
  · intro l hl; simp only [evalLP, Option.some.injEq] at hl; exact hl.symm
  · intro l hl; exact hq l hl

theorem evalLP_coherent (L π q : X → V) (st : EvalState X V) (xs : List X) :
    Coherent L π q (evalLP π L st xs (some (xs.map q))).2 ∧
    WF (evalLP π L st xs (some (xs.map q))).2 := by
  refine ⟨evalLP_coherent_gen L π q st xs _ (by intro l hl; simpa using hl.symm), ?_⟩
  simp [WF, colOK, evalLP]

/-- without a proposal column (`log_prob` of the MCMC samplers builds the set without `log_q`) -/
theorem evalLP_coherent_noq (L π q : X → V) (st : EvalState X V) (xs : List X) :
    Coherent L π q (evalLP π L st xs none).2 ∧ WF (evalLP π L st xs none).2 := by
  refine ⟨evalLP_coherent_gen L π q st xs none (by intro l hl; cases hl), ?_⟩
  simp [WF, colOK, evalLP]

/-- the evaluated set stores exactly the points it was asked to evaluate, with all columns present -/
theorem evalLP_cols (L π q : X → V) (st : EvalState X V) (xs : List X) :
    (evalLP π L st xs (some (xs.map q))).2.x = xs ∧
    (evalLP π L st xs (some (xs.map q))).2.ll = some (xs.map L) ∧
    (evalLP π L st xs (some (xs.map q))).2.lp = some (xs.map π) ∧
    (evalLP π L st xs (some (xs.map q))).2.lq = some (xs.map q) := ⟨rfl, rfl, rfl, rfl⟩

/-- `mutate`: the population a kernel step returns is coherent -/
theorem reevaluate_coherent (L π q : X → V) (st : EvalState X V) (xs : List X) :
    Coherent L π q (reevaluate π L q st xs).2 ∧ WF (reevaluate π L q st xs).2 ∧
    (reevaluate π L q st xs).2.x = xs :=
  ⟨(evalLP_coherent L π q st xs).1, (evalLP_coherent L π q st xs).2, rfl⟩

theorem targetEval_coherent (L π q : X → V) (st : EvalState X V) (xs : List X) :
    Coherent L π q (targetEval π L q st xs).2 ∧ WF (targetEval π L q st xs).2 :=
  evalLP_coherent L π q st xs

/-- row-wise reading of coherence: the stored values of row `i` are the functions at the
    coordinates of row `i` -/
theorem coherent_row (L π q : X → V) (S : SampleSet X V) (h : Coherent L π q S) (i : Nat) (r : Row X V)
    (hr : rowAt S i = some r) :
    (∀ v, r.ll = some v → v = L r.x) ∧ (∀ v, r.lp = some v → v = π r.x) ∧
    (∀ v, r.lq = some v → v = q r.x) := by
  obtain ⟨h1, h2, h3⟩ := h
  simp only [rowAt] at hr
  cases hx : S.x[i]? with
  | none => simp [hx] at hr
  | some xi =>
    simp only [hx, Option.map_some, Option.some.injEq] at hr
    subst hr
    have key : ∀ (f : X → V) (c : Option (List V)), (∀ l, c = some l → l = S.x.map f) →
        ∀ v, colAt c i = some v → v = f xi := by
      intro f c hc v hv
      cases c with
      | none => simp [colAt] at hv
      | some l =>
        simp only [colAt, Option.bind_some] at hv
        rw [hc l rfl, List.getElem?_map, hx] at hv
        simpa using hv.symm
    exact ⟨key L _ h1, key π _ h2, key q _ h3⟩

/-! ### 2. selection (resampling, slicing, masking) keeps cached densities attached -/

/-- gathering commutes with mapping a function over the column (valid or invalid indices alike) -/
theorem pick_map {A B : Type} (f : A → B) (sel : List Nat) (xs : List A) :
    pick sel (xs.map f) = (pick sel xs).map f := by
  induction sel with
  | nil => simp [pick]
  | cons i is ih =>
    simp only [pick, List.getElem?_map] at ih ⊢
    simp only [List.filterMap_cons]
    cases h : xs[i]? <;> simp [ih]

theorem pickO_coherent (f : X → V) (sel : List Nat) (xs : List X) (c : Option (List V))
    (h : ∀ l, c = some l → l = xs.map f) : ∀ l, pickO sel c = some l → l = (pick sel xs).map f := by
  intro l hl
  cases c with
  | none => simp [pickO] at hl
  | some l0 =>
    simp only [pickO, Option.map_some, Option.some.injEq] at hl
    rw [← hl, h l0 rfl, pick_map]

/-- `select_core` without any assumption on `evFn` for the classes that do not call it -/
theorem select_core_ns (essFn : List V → V) (evFn : SampleSet X V → SampleSet X V)
    (sel : List Nat) (S : SampleSet X V) (hc : S.cls ≠ .samples) :
    (select essFn evFn sel S).x = pick sel S.x ∧ (select essFn evFn sel S).ll = pickO sel S.ll ∧
    (select essFn evFn sel S).lp = pickO sel S.lp ∧ (select essFn evFn sel S).lq = pickO sel S.lq ∧
    (select essFn evFn sel S).cls = S.cls := by
  unfold select
  cases h : S.cls
  · simp [selBase, h]
  · exact absurd h hc
  · simp [selBase, h]

/-- **selection keeps coherence** — for every class (for `Samples`, provided the constructor hook
    only fills derived fields), every selector, valid or not.  `SMCSamples.resample` is
    `select` with the drawn index list. -/
theorem select_coherent_gen (L π q : X → V) (essFn : List V → V) (evFn : SampleSet X V → SampleSet X V)
    (sel : List Nat) (S : SampleSet X V) (hev : S.cls = .samples → C16.EvOK evFn)
    (h : Coherent L π q S) : Coherent L π q (select essFn evFn sel S) := by
  have core : (select essFn evFn sel S).x = pick sel S.x ∧ (select essFn evFn sel S).ll = pickO sel S.ll ∧
      (select essFn evFn sel S).lp = pickO sel S.lp ∧ (select essFn evFn sel S).lq = pickO sel S.lq ∧
      (select essFn evFn sel S).cls = S.cls := by
    by_cases hc : S.cls = .samples
    · exact C16.select_core essFn evFn (hev hc) sel S
    · exact select_core_ns essFn evFn sel S hc
  obtain ⟨hx, hll, hlp, hlq, _⟩ := core
  obtain ⟨h1, h2, h3⟩ := h
  refine ⟨?_, ?_, ?_⟩
  · rw [hx, hll]; exact pickO_coherent L sel S.x _ h1
  · rw [hx, hlp]; exact pickO_coherent π sel S.x _ h2
  · rw [hx, hlq]; exact pickO_coherent q sel S.x _ h3

/-- the statement as requested (the well-formedness and index-validity hypotheses are not needed
    for coherence; with them the result has exactly `sel.length` rows, see `select_coherent_size`) -/
theorem select_coherent (L π q : X → V) (essFn : List V → V) (evFn : SampleSet X V → SampleSet X V)
    (sel : List Nat) (S : SampleSet X V) (hc : S.cls = .smc ∨ S.cls = .base)
    (h : Coherent L π q S) (_hwf : WF S) (_hsel : ∀ i ∈ sel, i < S.x.length) :
    Coherent L π q (select essFn evFn sel S) :=
  select_coherent_gen L π q essFn evFn sel S
    (by intro hs; rcases hc with hc | hc <;> rw [hs] at hc <;> cases hc) h

theorem select_coherent_samples (L π q : X → V) (essFn : List V → V)
    (evFn : SampleSet X V → SampleSet X V) (hev : C16.EvOK evFn)
    (sel : List Nat) (S : SampleSet X V)
    (h : Coherent L π q S) (_hwf : WF S) (_hsel : ∀ i ∈ sel, i < S.x.length) :
    Coherent L π q (select essFn evFn sel S) :=
  select_coherent_gen L π q essFn evFn sel S (fun _ => hev) h

/-- the three log-density columns of a selection stay well-formed and, with valid indices,
    the selection has one row per requested index -/
theorem select_coherent_size (essFn : List V → V) (evFn : SampleSet X V → SampleSet X V)
    (sel : List Nat) (S : SampleSet X V) (hev : S.cls = .samples → C16.EvOK evFn)
    (hwf : WF S) (hsel : ∀ i ∈ sel, i < S.x.length) :
    (select essFn evFn sel S).x.length = sel.length ∧
    colOK sel.length (select essFn evFn sel S).ll ∧ colOK sel.length (select essFn evFn sel S).lp ∧
    colOK sel.length (select essFn evFn sel S).lq := by
  have core : (select essFn evFn sel S).x = pick sel S.x ∧ (select essFn evFn sel S).ll = pickO sel S.ll ∧
      (select essFn evFn sel S).lp = pickO sel S.lp ∧ (select essFn evFn sel S).lq = pickO sel S.lq ∧
      (select essFn evFn sel S).cls = S.cls := by
    by_cases hc : S.cls = .samples
    · exact C16.select_core essFn evFn (hev hc) sel S
    · exact select_core_ns essFn evFn sel S hc
  obtain ⟨hx, hll, hlp, hlq, _⟩ := core
  obtain ⟨w1, w2, w3, _, _⟩ := hwf
  have key : ∀ c : Option (List V), colOK S.x.length c → colOK sel.length (pickO sel c) := by
    intro c hc l hl
    cases c with
    | none => simp [pickO] at hl
    | some l0 =>
      simp only [pickO, Option.map_some, Option.some.injEq] at hl
      rw [← hl]
      exact C16.pick_length sel l0 (by intro i hi; rw [hc l0 rfl]; exact hsel i hi)
  refine ⟨by rw [hx]; exact C16.pick_length sel S.x hsel, ?_, ?_, ?_⟩
  · rw [hll]; exact key _ w1
  · rw [hlp]; exact key _ w2
  · rw [hlq]; exact key _ w3

/-! ### 4. the rejection step of the initial draw -/

/-- complete characterisation: `keepFinite` filters the batch by finiteness of the prior and
    appends the prior value; nothing else is touched -/
theorem keepFinite_eq (finite : V → Bool) (π : X → V) (batch : List (X × V)) :
    keepFinite finite π batch =
      (batch.filter (fun p => finite (π p.1))).map (fun p => (p.1, p.2, π p.1)) := by
  induction batch with
  | nil => rfl
  | cons p rest ih =>
    obtain ⟨x, lq⟩ := p
    simp only [keepFinite, List.filter_cons]
    cases hf : finite (π x) <;> simp [ih]

/-- dropping the prior column of the kept rows gives back the finite-prior rows of the batch,
    each with its own proposal value, in the original order -/
theorem keepFinite_fst (finite : V → Bool) (π : X → V) (batch : List (X × V)) :
    (keepFinite finite π batch).map (fun r => (r.1, r.2.1)) =
      batch.filter (fun p => finite (π p.1)) := by
  rw [keepFinite_eq, List.map_map]
  have : ((fun r : X × V × V => (r.1, r.2.1)) ∘ fun p : X × V => (p.1, p.2, π p.1)) = id := by
    funext p; rfl
  rw [this, List.map_id]

theorem keepFinite_spec (finite : V → Bool) (π : X → V) (batch : List (X × V)) :
    (∀ x lq lp, (x, lq, lp) ∈ keepFinite finite π batch →
        lp = π x ∧ finite lp = true ∧ (x, lq) ∈ batch) ∧
    ((keepFinite finite π batch).map (fun r => (r.1, r.2.1))).Sublist batch ∧
    (∀ x lq, (x, lq) ∈ batch → finite (π x) = true → (x, lq, π x) ∈ keepFinite finite π batch) := by
  refine ⟨?_, ?_, ?_⟩
  · intro x lq lp h
    rw [keepFinite_eq, List.mem_map] at h
    obtain ⟨p, hp, he⟩ := h
    rw [List.mem_filter] at hp
    obtain ⟨px, plq⟩ := p
    simp only [Prod.mk.injEq] at he
    obtain ⟨rfl, rfl, rfl⟩ := he
    exact ⟨rfl, hp.2, hp.1⟩
  · rw [keepFinite_fst]; exact List.filter_sublist
  · intro x lq h hf
    rw [keepFinite_eq, List.mem_map]
    exact ⟨(x, lq), List.mem_filter.mpr ⟨h, hf⟩, rfl⟩

theorem keepFinite_length_le (finite : V → Bool) (π : X → V) (batch : List (X × V)) :
    (keepFinite finite π batch).length ≤ batch.length := by
  rw [keepFinite_eq, List.length_map]; exact List.length_filter_le _ _

/-- a batch entirely inside the prior support is kept whole -/
theorem keepFinite_all (finite : V → Bool) (π : X → V) (batch : List (X × V))
    (h : ∀ p ∈ batch, finite (π p.1) = true) :
    (keepFinite finite π batch).map (fun r => (r.1, r.2.1)) = batch := by
  rw [keepFinite_fst, List.filter_eq_self]; exact h

/-- coherence only reads the coordinates and the three log-density columns -/
theorem coherent_congr (L π q : X → V) (S T : SampleSet X V) (hx : T.x = S.x) (h1 : T.ll = S.ll)
    (h2 : T.lp = S.lp) (h3 : T.lq = S.lq) (h : Coherent L π q S) : Coherent L π q T := by
  simpa only [Coherent, hx, h1, h2, h3] using h

/-- `SMCSamples.resample(β', n_samples)`: the gathered rows with the new temperature written on
    the set — for every drawn index list, of any length (`n_samples` = population size in the loop,
    `n_final_samples` in the enlargement) -/
theorem resample_coherent (L π q : X → V) (essFn : List V → V) (evFn : SampleSet X V → SampleSet X V)
    (idx : List Nat) (b : Option V) (S : SampleSet X V) (hc : S.cls = .smc)
    (h : Coherent L π q S) :
    Coherent L π q { select essFn evFn idx S with beta := b } :=
  coherent_congr L π q (select essFn evFn idx S) _ rfl rfl rfl rfl
    (select_coherent_gen L π q essFn evFn idx S (by intro hs; rw [hs] at hc; cases hc) h)

/-! ### 3. concatenation keeps cached densities attached -/

theorem catCols_coherent (f : X → V) (col : SampleSet X V → Option (List V))
    (parts : List (SampleSet X V)) (h : ∀ p ∈ parts, ∀ l, col p = some l → l = p.x.map f)
    (hall : (parts.map col).all Option.isSome = true) :
    ((parts.map col).filterMap id).flatten = ((parts.map (·.x)).flatten).map f := by
  induction parts with
  | nil => rfl
  | cons p ps ih =>
    simp only [List.map_cons, List.all_cons, Bool.and_eq_true] at hall
    have ih' := ih (fun p' hp' => h p' (List.mem_cons_of_mem _ hp')) hall.2
    cases hcp : col p with
    | none => rw [hcp] at hall; simp at hall
    | some lp =>
      have := h p List.mem_cons_self lp hcp
      simp only [List.map_cons, hcp, List.filterMap_cons, id, List.flatten_cons, List.map_append, ih', this]

theorem catO_coherent (f : X → V) (col : SampleSet X V → Option (List V))
    (parts : List (SampleSet X V)) (h : ∀ p ∈ parts, ∀ l, col p = some l → l = p.x.map f) :
    ∀ l, catO (parts.map col) = some l → l = ((parts.map (·.x)).flatten).map f := by
  intro l hl
  unfold catO at hl
  split at hl
  · rename_i hall
    simp only [Option.some.injEq] at hl
    rw [← hl]; exact catCols_coherent f col parts h hall
  · cases hl

theorem catBase_coherent (L π q : X → V) (cls : Cls) (parts : List (SampleSet X V))
    (h : ∀ p ∈ parts, Coherent L π q p) : Coherent L π q (catBase cls parts) := by
  refine ⟨?_, ?_, ?_⟩
  · exact catO_coherent L (·.ll) parts (fun p hp => (h p hp).1)
  · exact catO_coherent π (·.lp) parts (fun p hp => (h p hp).2.1)
  · exact catO_coherent q (·.lq) parts (fun p hp => (h p hp).2.2)

/-- **concatenating coherent pieces gives a coherent set** (all classes; for `Samples` provided the
    constructor hook only fills derived fields) -/
theorem concat_coherent_gen (L π q : X → V) (cls : Cls) (evFn : SampleSet X V → SampleSet X V)
    (hev : cls = .samples → C16.EvOK evFn) (parts : List (SampleSet X V))
    (h : ∀ p ∈ parts, Coherent L π q p) : Coherent L π q (concat cls evFn parts) := by
  have hb := catBase_coherent L π q cls parts h
  unfold concat
  cases cls with
  | base => exact hb
  | smc => exact hb
  | samples =>
    obtain ⟨e1, e2, e3, e4, _⟩ := hev rfl (catBase .samples parts)
    simp only [Coherent, e1, e2, e3, e4]
    exact hb

theorem concat_coherent (L π q : X → V) (cls : Cls) (evFn : SampleSet X V → SampleSet X V)
    (hc : cls = .smc ∨ cls = .base) (parts : List (SampleSet X V))
    (h : ∀ p ∈ parts, Coherent L π q p) : Coherent L π q (concat cls evFn parts) :=
  concat_coherent_gen L π q cls evFn
    (by intro hs; rcases hc with hc | hc <;> rw [hs] at hc <;> cases hc) parts h

theorem concat_coherent_samples (L π q : X → V) (evFn : SampleSet X V → SampleSet X V)
    (hev : C16.EvOK evFn) (parts : List (SampleSet X V))
    (h : ∀ p ∈ parts, Coherent L π q p) : Coherent L π q (concat .samples evFn parts) :=
  concat_coherent_gen L π q .samples evFn (fun _ => hev) parts h

/-! ### bridge: the rejection step is the boolean-mask `__getitem__` of `Model/Rows`

  `draw_initial_samples` keeps the finite-prior rows with `new_samples[valid]`.  `Model/Eval`
  writes that step on rows (`keepFinite`); here it is shown to coincide with `select` on the
  column-wise batch with the mask `isfinite(log_prior)`. -/

/-- gathering by a mask: exactly the entries whose mask bit is set, in order -/
theorem pick_maskIdxs {A : Type} (m : List Bool) (pre col : List A) (hlen : m.length = col.length) :
    pick (maskIdxs m pre.length) (pre ++ col) =
      (col.zip m).filterMap (fun p => if p.2 then some p.1 else none) := by
  induction m generalizing pre col with
  | nil => simp [maskIdxs, pick]
  | cons b bs ih =>
    cases col with
    | nil => simp at hlen
    | cons c cs =>
      have hl : bs.length = cs.length := by simpa using hlen
      have ih' := ih (pre ++ [c]) cs hl
      simp only [List.length_append, List.length_cons, List.length_nil, Nat.zero_add,
        List.append_assoc, List.cons_append, List.nil_append] at ih'
      simp only [maskIdxs, List.zip_cons_cons, List.filterMap_cons]
      cases b with
      | false => simpa using ih'
      | true =>
        simp only [if_true]
        have hget : (pre ++ c :: cs)[pre.length]? = some c := by simp
        simp only [pick, List.filterMap_cons, hget]
        simp only [pick] at ih'
        rw [ih']

theorem keepFinite_zip_cols (finite : V → Bool) (π : X → V) (xs : List X) (lqs : List V)
    (hlen : lqs.length = xs.length) :
    (keepFinite finite π (xs.zip lqs)).map (·.1) =
        (xs.zip (xs.map fun x => finite (π x))).filterMap (fun p => if p.2 then some p.1 else none) ∧
    (keepFinite finite π (xs.zip lqs)).map (·.2.1) =
        (lqs.zip (xs.map fun x => finite (π x))).filterMap (fun p => if p.2 then some p.1 else none) ∧
    (keepFinite finite π (xs.zip lqs)).map (·.2.2) =
        ((xs.map π).zip (xs.map fun x => finite (π x))).filterMap
          (fun p => if p.2 then some p.1 else none) := by
  induction xs generalizing lqs with
  | nil => simp [keepFinite]
  | cons x rest ih =>
    cases lqs with
    | nil => simp at hlen
    | cons lq lrest =>
      obtain ⟨i1, i2, i3⟩ := ih lrest (by simpa using hlen)
      simp only [List.zip_cons_cons, keepFinite, List.map_cons, List.filterMap_cons]
      cases hf : finite (π x) <;> simp [i1, i2, i3]

/-- **`new_samples[valid]` = `keepFinite`**: selecting the batch (coordinates, proposal column,
    freshly attached prior column) with the finiteness mask gives, column by column, the rows
    `keepFinite` keeps -/
theorem keepFinite_is_mask_select (finite : V → Bool) (π : X → V) (essFn : List V → V)
    (evFn : SampleSet X V → SampleSet X V) (hev : C16.EvOK evFn) (xs : List X) (lqs : List V)
    (hlen : lqs.length = xs.length) :
    let B : SampleSet X V := { cls := .samples, x := xs, lq := some lqs, lp := some (xs.map π) }
    let M := select essFn evFn (Sel.mask ((xs.map π).map finite)).toIdxs B
    let kept := keepFinite finite π (xs.zip lqs)
    M.x = kept.map (·.1) ∧ M.lq = some (kept.map (·.2.1)) ∧ M.lp = some (kept.map (·.2.2)) ∧
    M.ll = none := by
  intro B M kept
  obtain ⟨hx, hll, hlp, hlq, _⟩ := C16.select_core essFn evFn hev (Sel.mask ((xs.map π).map finite)).toIdxs B
  obtain ⟨k1, k2, k3⟩ := keepFinite_zip_cols finite π xs lqs hlen
  have hm : (xs.map π).map finite = xs.map fun x => finite (π x) := by
    rw [List.map_map]; rfl
  have p1 := pick_maskIdxs (xs.map fun x => finite (π x)) [] xs (by simp)
  have p2 := pick_maskIdxs (xs.map fun x => finite (π x)) [] lqs (by simp [hlen])
  have p3 := pick_maskIdxs (xs.map fun x => finite (π x)) [] (xs.map π) (by simp)
  simp only [List.length_nil, List.nil_append] at p1 p2 p3
  refine ⟨?_, ?_, ?_, ?_⟩
  · show M.x = _
    rw [hx, k1]; simp only [Sel.toIdxs, hm]; exact p1
  · show M.lq = _
    rw [hlq, k2]; simp only [Sel.toIdxs, hm, pickO, B, Option.map_some, p2]
  · show M.lp = _
    rw [hlp, k3]; simp only [Sel.toIdxs, hm, pickO, B, Option.map_some, p3]
  · show M.ll = _
    rw [hll]; rfl

/-! ### 5. the rejection loop of the initial draw -/

/-- accumulator version: the loop consumes some number `k` of further batches, returns the first
    `n` of the kept rows collected so far, and `k` is the least number that suffices -/
theorem drawInitialRows_acc (finite : V → Bool) (π : X → V) (n : Nat)
    (batches : List (List (X × V))) (acc : List (X × V × V)) (used : Nat)
    (rows : List (X × V × V)) (used' : Nat)
    (h : drawInitialRows finite π n batches acc used = some (rows, used')) :
    ∃ k, used' = used + k ∧ k ≤ batches.length ∧
      rows = (acc ++ (batches.take k).flatMap (keepFinite finite π)).take n ∧
      n ≤ (acc ++ (batches.take k).flatMap (keepFinite finite π)).length ∧
      (k = 0 ∨ (acc ++ (batches.take (k - 1)).flatMap (keepFinite finite π)).length < n) := by
  induction batches generalizing acc used with
  | nil =>
    rw [drawInitialRows] at h
    split at h
    · rename_i hn
      simp only [Option.some.injEq, Prod.mk.injEq] at h
      obtain ⟨rfl, rfl⟩ := h
      exact ⟨0, rfl, by simp, by simp, by simpa using hn, Or.inl rfl⟩
    · cases h
  | cons b rest ih =>
    rw [drawInitialRows] at h
    split at h
    · rename_i hn
      simp only [Option.some.injEq, Prod.mk.injEq] at h
      obtain ⟨rfl, rfl⟩ := h
      exact ⟨0, rfl, by simp, by simp, by simpa using hn, Or.inl rfl⟩
    · rename_i hn
      obtain ⟨k, hk, hkl, hr, hle, hmin⟩ := ih _ _ h
      refine ⟨k + 1, by omega, by simp only [List.length_cons]; omega, ?_, ?_, Or.inr ?_⟩
      · simpa only [List.take_succ_cons, List.flatMap_cons, List.append_assoc] using hr
      · simpa only [List.take_succ_cons, List.flatMap_cons, List.append_assoc] using hle
      · rcases k with _ | k
        · simp only [Nat.zero_add, Nat.sub_self, List.take_zero, List.flatMap_nil, List.append_nil]
          omega
        · rcases hmin with hmin | hmin
          · omega
          · simpa only [Nat.add_sub_cancel, List.take_succ_cons, List.flatMap_cons,
              List.append_assoc] using hmin

/-- the loop succeeds as soon as the supplied batches contain enough finite-prior rows -/
theorem drawInitialRows_isSome (finite : V → Bool) (π : X → V) (n : Nat)
    (batches : List (List (X × V))) (acc : List (X × V × V)) (used : Nat)
    (h : n ≤ (acc ++ batches.flatMap (keepFinite finite π)).length) :
    (drawInitialRows finite π n batches acc used).isSome = true := by
  induction batches generalizing acc used with
  | nil =>
    rw [drawInitialRows]
    have : n ≤ acc.length := by simpa using h
    simp [this]
  | cons b rest ih =>
    rw [drawInitialRows]
    split
    · rfl
    · exact ih _ _ (by simpa only [List.flatMap_cons, List.append_assoc] using h)

theorem flatMap_keepFinite_fst (finite : V → Bool) (π : X → V) (bs : List (List (X × V))) :
    (bs.flatMap (keepFinite finite π)).map (fun r => (r.1, r.2.1)) =
      bs.flatten.filter (fun p => finite (π p.1)) := by
  induction bs with
  | nil => rfl
  | cons b rest ih =>
    simp only [List.flatMap_cons, List.map_append, List.flatten_cons, List.filter_append, ih,
      keepFinite_fst]

theorem mem_flatMap_keepFinite (finite : V → Bool) (π : X → V) (bs : List (List (X × V)))
    (x : X) (lq lp : V) (h : (x, lq, lp) ∈ bs.flatMap (keepFinite finite π)) :
    lp = π x ∧ finite lp = true ∧ (x, lq) ∈ bs.flatten := by
  rw [List.mem_flatMap] at h
  obtain ⟨b, hb, hm⟩ := h
  obtain ⟨h1, h2, h3⟩ := (keepFinite_spec finite π b).1 x lq lp hm
  exact ⟨h1, h2, List.mem_flatten.mpr ⟨b, hb, h3⟩⟩

/-- **the initial population**: exactly `n` rows; every row has a finite prior equal to `π` of its
    coordinates and is paired with the proposal value it was drawn with; the rows are, in order,
    the first `n` finite-prior rows of the batches consumed; and no fewer batches would do. -/
theorem drawInitialRows_spec (finite : V → Bool) (π : X → V) (n : Nat)
    (batches : List (List (X × V))) (rows : List (X × V × V)) (used : Nat)
    (h : drawInitialRows finite π n batches [] 0 = some (rows, used)) :
    rows.length = n ∧ used ≤ batches.length ∧
    rows = ((batches.take used).flatMap (keepFinite finite π)).take n ∧
    (∀ x lq lp, (x, lq, lp) ∈ rows →
        lp = π x ∧ finite lp = true ∧ (x, lq) ∈ (batches.take used).flatten) ∧
    rows.map (fun r => (r.1, r.2.1)) =
        ((batches.take used).flatten.filter (fun p => finite (π p.1))).take n ∧
    (rows.map (fun r => (r.1, r.2.1))).Sublist (batches.take used).flatten ∧
    (used = 0 ∨ ((batches.take (used - 1)).flatMap (keepFinite finite π)).length < n) := by
  obtain ⟨k, hk, hkl, hr, hle, hmin⟩ := drawInitialRows_acc finite π n batches [] 0 rows used h
  simp only [Nat.zero_add] at hk
  subst hk
  simp only [List.nil_append] at hr hle hmin
  have hmap : rows.map (fun r => (r.1, r.2.1)) =
      ((batches.take used).flatten.filter (fun p => finite (π p.1))).take n := by
    rw [hr, List.map_take, flatMap_keepFinite_fst]
  refine ⟨?_, hkl, hr, ?_, hmap, ?_, hmin⟩
  · rw [hr, List.length_take]; omega
  · intro x lq lp hm
    rw [hr] at hm
    exact mem_flatMap_keepFinite finite π _ x lq lp (List.mem_of_mem_take hm)
  · rw [hmap]
    exact (List.take_sublist _ _).trans List.filter_sublist

/-! ### 6. the whole initial draw -/

/-- **`draw_initial_samples(n)` returns a coherent set of exactly `n` finite-prior rows**, given
    that the proposal returns each draw with its own density (property C03, hypothesis `hq`) -/
theorem drawInitial_coherent (finite : V → Bool) (L π q : X → V) (n : Nat)
    (batches : List (List (X × V))) (st st' : EvalState X V) (S : SampleSet X V)
    (hq : ∀ b ∈ batches, ∀ p ∈ b, p.2 = q p.1)
    (h : drawInitial finite π L n batches st = some (st', S)) :
    Coherent L π q S ∧ WF S ∧ S.x.length = n ∧
    S.ll = some (S.x.map L) ∧ S.lp = some (S.x.map π) ∧ S.lq = some (S.x.map q) ∧
    (∀ x ∈ S.x, finite (π x) = true) := by
  unfold drawInitial at h
  cases hd : drawInitialRows finite π n batches [] 0 with
  | none => rw [hd] at h; cases h
  | some ru =>
    obtain ⟨rows, used⟩ := ru
    rw [hd] at h
    simp only [Option.some.injEq, Prod.mk.injEq] at h
    obtain ⟨_, rfl⟩ := h
    obtain ⟨hlen, _, _, hrow, _, _, _⟩ := drawInitialRows_spec finite π n batches rows used hd
    have hp : rows.map (·.2.2) = (rows.map (·.1)).map π := by
      rw [List.map_map]
      apply List.map_congr_left
      intro r hr
      obtain ⟨x, lq, lp⟩ := r
      exact (hrow x lq lp hr).1
    have hqq : rows.map (·.2.1) = (rows.map (·.1)).map q := by
      rw [List.map_map]
      apply List.map_congr_left
      intro r hr
      obtain ⟨x, lq, lp⟩ := r
      have hm := (hrow x lq lp hr).2.2
      obtain ⟨b, hb, hxb⟩ := List.mem_flatten.mp hm
      exact hq b (List.mem_of_mem_take hb) (x, lq) hxb
    have hfin : ∀ x ∈ rows.map (·.1), finite (π x) = true := by
      intro x hx
      obtain ⟨r, hr, rfl⟩ := List.mem_map.mp hx
      obtain ⟨x, lq, lp⟩ := r
      obtain ⟨h1, h2, _⟩ := hrow x lq lp hr
      rw [← h1]; exact h2
    refine ⟨⟨?_, ?_, ?_⟩, ?_, ?_, rfl, ?_, ?_, hfin⟩
    · intro l hl; simp only [Option.some.injEq] at hl; exact hl.symm
    · intro l hl; simp only [Option.some.injEq] at hl; rw [← hl, hp]
    · intro l hl; simp only [Option.some.injEq] at hl; rw [← hl, hqq]
    · simp [WF, colOK]
    · simp [hlen]
    · simp only [hp]
    · simp only [hqq]

/-! ### 7. the SMC loop: every recorded population is coherent

  The loop model takes the mutated population of every iteration from its `Step` input (the
  kernel is a parameter).  For the real `mutate` that population is `(reevaluate π L q st xs).2`,
  coherent by `reevaluate_coherent`; the initial one is coherent by `drawInitial_coherent`.
  The invariant below is stated for an arbitrary predicate `Good` on populations and then
  specialised to `Coherent L π q`. -/
section smc
variable {P S : Type}

def HistGood (Good : P → Prop) (h : Hist P S) : Prop := ∀ p ∈ h.pops, Good p

/-- a checkpoint payload: its population and every population of its history copy -/
def CkptGood (Good : P → Prop) (c : Ckpt P S) : Prop := Good c.pop ∧ HistGood Good c.hist

/-- the current population, every population in the history, every checkpoint written so far -/
def AllGood (Good : P → Prop) (st : St P S) : Prop :=
  Good st.pop ∧ HistGood Good st.hist ∧ ∀ c ∈ st.ckpts, CkptGood Good c

theorem snapshot_good (Good : P → Prop) (st : St P S) (z : Option S) (h : AllGood Good st) :
    CkptGood Good (snapshot st z) := ⟨h.1, h.2.1⟩

theorem maybeCheckpoint_good (Good : P → Prop) (cfg : SmcCfg S) (force : Bool) (st : St P S)
    (z : Option S) (h : AllGood Good st) : AllGood Good (maybeCheckpoint cfg force st z) := by
  unfold maybeCheckpoint
  cases cfg.every with
  | none => exact h
  | some e =>
    simp only
    split
    · refine ⟨h.1, h.2.1, ?_⟩
      intro c hc
      rcases List.mem_append.mp hc with hc | hc
      · exact h.2.2 c hc
      · rw [List.mem_singleton] at hc; subst hc; exact snapshot_good Good st z h
    · exact h

theorem initSt_good (Good : P → Prop) (cfg : SmcCfg S) (zero : S) (p0 : P) (h : Good p0) :
    AllGood Good (initSt cfg zero p0) := by
  refine ⟨h, ?_, ?_⟩
  · intro p hp
    simp only [initSt] at hp
    cases hs : cfg.storeHistory <;> simp [hs] at hp
    subst hp; exact h
  · intro c hc; simp [initSt] at hc

theorem restore_good (Good : P → Prop) (c : Ckpt P S) (h : CkptGood Good c) :
    AllGood Good (restore c) := by
  refine ⟨h.1, h.2, ?_⟩
  intro c' hc'; simp [restore] at hc'

theorem iterate_good (Good : P → Prop) (k : Kit P S) (cfg : SmcCfg S) (st st' : St P S) (s : Step P)
    (f : Bool) (h : AllGood Good st) (hs : Good s.mutated)
    (hi : iterate k cfg st s = .ok (st', f)) : AllGood Good st' := by
  unfold iterate at hi
  cases hn : k.nextBeta st.pop st.beta st.minStep with
  | error e => rw [hn] at hi; cases hi
  | ok bm =>
    obtain ⟨b, m⟩ := bm
    rw [hn] at hi
    simp only [bind, Except.bind, pure, Except.pure, Except.ok.injEq, Prod.mk.injEq] at hi
    obtain ⟨hi, _⟩ := hi
    rw [← hi]
    apply maybeCheckpoint_good
    refine ⟨hs, ?_, h.2.2⟩
    intro p hp
    cases hsH : cfg.storeHistory
    · simp only [hsH] at hp
      exact h.2.1 p hp
    · simp only [hsH, if_true] at hp
      rcases List.mem_append.mp hp with hp | hp
      · exact h.2.1 p hp
      · rw [List.mem_singleton] at hp; subst hp; exact hs

/-- what `AllGood` means for each way the loop can end -/
def OutcomeGood (Good : P → Prop) : Outcome P S → Prop
  | .raised _ => True
  | .interrupted st => AllGood Good st
  | .finishedLoop st _ => AllGood Good st

theorem runLoop_good (Good : P → Prop) (k : Kit P S) (cfg : SmcCfg S) (st : St P S)
    (steps : List (Step P)) (h : AllGood Good st) (hs : ∀ s ∈ steps, Good s.mutated) :
    OutcomeGood Good (runLoop k cfg st steps) := by
  induction steps generalizing st with
  | nil => exact h
  | cons s rest ih =>
    rw [runLoop]
    cases hi : iterate k cfg st s with
    | error e => trivial
    | ok r =>
      obtain ⟨st', f⟩ := r
      have hg := iterate_good Good k cfg st st' s f h (hs s List.mem_cons_self) hi
      cases f with
      | true => exact hg
      | false => exact ih st' hg (fun s' hs' => hs s' (List.mem_cons_of_mem _ hs'))

theorem runLoop_rest_suffix (k : Kit P S) (cfg : SmcCfg S) (st st' : St P S)
    (steps rest : List (Step P)) (h : runLoop k cfg st steps = .finishedLoop st' rest) :
    ∀ s ∈ rest, s ∈ steps := by
  induction steps generalizing st with
  | nil => rw [runLoop] at h; cases h
  | cons s0 tl ih =>
    rw [runLoop] at h
    cases hi : iterate k cfg st s0 with
    | error e => rw [hi] at h; cases h
    | ok r =>
      obtain ⟨st1, f⟩ := r
      rw [hi] at h
      cases f with
      | true =>
        simp only [Outcome.finishedLoop.injEq] at h
        obtain ⟨_, rfl⟩ := h
        intro s hs; exact List.mem_cons_of_mem _ hs
      | false =>
        intro s hs; exact List.mem_cons_of_mem _ (ih st1 h s hs)

/-- the enlargement test of `finish` -/
def needFinal (k : Kit P S) (cfg : SmcCfg S) (st : St P S) : Bool :=
  match cfg.nFinal with | some n => decide (k.size st.pop ≠ n) | none => false

/-- the tail of `finish`: evidence, forced checkpoint, result -/
def finGo (k : Kit P S) (cfg : SmcCfg S) (st : St P S) : Result P S :=
  { pop := (maybeCheckpoint cfg true st (some (k.sumS st.hist.ratio))).pop,
    logZ := k.sumS st.hist.ratio, logZerr := k.rootSumS st.hist.var,
    st := maybeCheckpoint cfg true st (some (k.sumS st.hist.ratio)) }

theorem finish_eq (k : Kit P S) (cfg : SmcCfg S) (st : St P S) (rest : List (Step P)) :
    finish k cfg st rest =
      if needFinal k cfg st then
        match rest with
        | [] => none
        | s :: _ => some (finGo k cfg { st with pop := s.mutated, consumed := st.consumed + 1 })
      else some (finGo k cfg st) := rfl

theorem finGo_good (Good : P → Prop) (k : Kit P S) (cfg : SmcCfg S) (st : St P S)
    (h : AllGood Good st) : Good (finGo k cfg st).pop ∧ AllGood Good (finGo k cfg st).st := by
  have := maybeCheckpoint_good Good cfg true st (some (k.sumS st.hist.ratio)) h
  exact ⟨this.1, this⟩

theorem finish_good (Good : P → Prop) (k : Kit P S) (cfg : SmcCfg S) (st : St P S)
    (rest : List (Step P)) (r : Result P S) (h : AllGood Good st)
    (hs : ∀ s ∈ rest, Good s.mutated) (hf : finish k cfg st rest = some r) :
    Good r.pop ∧ AllGood Good r.st := by
  rw [finish_eq] at hf
  cases hnf : needFinal k cfg st with
  | true =>
    simp only [hnf, if_true] at hf
    cases rest with
    | nil => cases hf
    | cons s tl =>
      simp only [Option.some.injEq] at hf
      rw [← hf]
      exact finGo_good Good k cfg _ ⟨hs s List.mem_cons_self, h.2.1, h.2.2⟩
  | false =>
    simp only [hnf, Bool.false_eq_true, if_false, Option.some.injEq] at hf
    rw [← hf]
    exact finGo_good Good k cfg st h

/-- what is handed back or left on disk by a call of `sample` -/
def RunOutGood (Good : P → Prop) : RunOut P S → Prop
  | .raised _ => True
  | .interrupted ckpts => ∀ c ∈ ckpts, CkptGood Good c
  | .done r => Good r.pop ∧ AllGood Good r.st

theorem runFrom_good (Good : P → Prop) (k : Kit P S) (cfg : SmcCfg S) (flag : Bool) (st : St P S)
    (steps : List (Step P)) (h : AllGood Good st) (hs : ∀ s ∈ steps, Good s.mutated) :
    RunOutGood Good (runFrom k cfg flag st steps) := by
  unfold runFrom
  cases flag with
  | false =>
    simp only [Bool.false_eq_true, if_false]
    cases hf : finish k cfg st steps with
    | none => exact h.2.2
    | some r => exact finish_good Good k cfg st steps r h hs hf
  | true =>
    simp only [if_true]
    have hl := runLoop_good Good k cfg st steps h hs
    cases hr : runLoop k cfg st steps with
    | raised e => trivial
    | interrupted st1 => rw [hr] at hl; exact hl.2.2
    | finishedLoop st1 rest =>
      rw [hr] at hl
      have hrest := runLoop_rest_suffix k cfg st st1 steps rest hr
      simp only
      cases hf : finish k cfg st1 rest with
      | none => exact hl.2.2
      | some r =>
        exact finish_good Good k cfg st1 rest r hl (fun s hs' => hs s (hrest s hs')) hf

end smc

/-- **every population a run records or returns is coherent**: the returned final population, every
    population in the returned history, every checkpoint's population and history copy — whether
    the run finishes, is interrupted (then: every checkpoint left behind), with or without
    enlargement to `n_final_samples`. -/
theorem smc_run_coherent {S : Type} (L π q : X → V) (k : Kit (SampleSet X V) S) (cfg : SmcCfg S)
    (zero : S) (p0 : SampleSet X V) (steps : List (Step (SampleSet X V)))
    (h0 : Coherent L π q p0) (hs : ∀ s ∈ steps, Coherent L π q s.mutated) :
    RunOutGood (Coherent L π q) (run k cfg zero p0 steps) :=
  runFrom_good _ k cfg true _ steps (initSt_good _ cfg zero p0 h0) hs

/-- the same for a run resumed from a checkpoint whose payload is coherent (which
    `smc_run_coherent` guarantees for every checkpoint a run writes) -/
theorem smc_resume_coherent {S : Type} (L π q : X → V) (k : Kit (SampleSet X V) S) (cfg : SmcCfg S)
    (c : Ckpt (SampleSet X V) S) (allSteps : List (Step (SampleSet X V)))
    (hc : CkptGood (Coherent L π q) c) (hs : ∀ s ∈ allSteps, Coherent L π q s.mutated) :
    RunOutGood (Coherent L π q) (resume k cfg c allSteps) :=
  runFrom_good _ k cfg _ _ _ (restore_good _ c hc)
    (fun s hs' => hs s (List.mem_of_mem_drop hs'))

/-- unfolded reading of the finished case -/
theorem smc_run_coherent_done {S : Type} (L π q : X → V) (k : Kit (SampleSet X V) S) (cfg : SmcCfg S)
    (zero : S) (p0 : SampleSet X V) (steps : List (Step (SampleSet X V))) (r : Result (SampleSet X V) S)
    (h0 : Coherent L π q p0) (hs : ∀ s ∈ steps, Coherent L π q s.mutated)
    (hr : run k cfg zero p0 steps = .done r) :
    Coherent L π q r.pop ∧ (∀ p ∈ r.st.hist.pops, Coherent L π q p) ∧
    (∀ c ∈ r.st.ckpts, Coherent L π q c.pop ∧ ∀ p ∈ c.hist.pops, Coherent L π q p) := by
  have := smc_run_coherent L π q k cfg zero p0 steps h0 hs
  rw [hr] at this
  exact ⟨this.1, this.2.2.1, this.2.2.2⟩

/-- a run whose kernel is the real `mutate` (every mutated population is a `reevaluate` of some
    points) and whose initial population comes from `drawInitial` meets the hypotheses -/
theorem smc_run_coherent_real {S : Type} (finite : V → Bool) (L π q : X → V)
    (k : Kit (SampleSet X V) S) (cfg : SmcCfg S) (zero : S) (n : Nat)
    (batches : List (List (X × V))) (st0 st1 : EvalState X V) (p0 : SampleSet X V)
    (steps : List (Step (SampleSet X V)))
    (hq : ∀ b ∈ batches, ∀ p ∈ b, p.2 = q p.1)
    (h0 : drawInitial finite π L n batches st0 = some (st1, p0))
    (hs : ∀ s ∈ steps, ∃ st xs, s.mutated = (reevaluate π L q st xs).2) :
    RunOutGood (Coherent L π q) (run k cfg zero p0 steps) := by
  apply smc_run_coherent L π q k cfg zero p0 steps
  · exact (drawInitial_coherent finite L π q n batches st0 st1 p0 hq h0).1
  · intro s hs'
    obtain ⟨st, xs, he⟩ := hs s hs'
    rw [he]; exact (reevaluate_coherent L π q st xs).1

/-! ### non-vacuity -/

def exPi (x : Nat) : Nat := x % 3
def exL (x : Nat) : Nat := x * x
def exQ (x : Nat) : Nat := x + 100
def exFin (v : Nat) : Bool := v != 0
def exBatches : List (List (Nat × Nat)) :=
  [[(3, 103), (4, 104), (6, 106)], [(5, 105), (9, 109), (7, 107), (8, 108)], [(10, 110)]]

example : keepFinite exFin exPi [(3, 103), (4, 104), (6, 106), (5, 105)] = [(4, 104, 1), (5, 105, 2)] := by
  decide
/-- three rows requested: the first batch yields one, the second three more; two batches are
    used, the fourth kept row and the third batch are not touched -/
example : drawInitialRows exFin exPi 3 exBatches [] 0 = some ([(4, 104, 1), (5, 105, 2), (7, 107, 1)], 2) := by
  decide
example : drawInitialRows exFin exPi 9 exBatches [] 0 = none := by decide
example : ∀ b ∈ exBatches, ∀ p ∈ b, p.2 = exQ p.1 := by decide
example : (drawInitial exFin exPi exL 3 exBatches {}).map (·.2.x) = some [4, 5, 7] := by decide
example : (drawInitial exFin exPi exL 3 exBatches {}).map (·.2.lq) = some (some [104, 105, 107]) := by
  decide
example : (drawInitial exFin exPi exL 3 exBatches {}).map (·.2.lp) = some (some [1, 2, 1]) := by decide
def exS : SampleSet Nat Nat := (evalLP exPi exL {} [4, 5, 7] (some ([4, 5, 7].map exQ))).2
example : Coherent exL exPi exQ exS ∧ WF exS := evalLP_coherent exL exPi exQ {} [4, 5, 7]
example : (select (fun _ => 0) id [2, 2, 0] exS).ll = some [49, 49, 16] := by decide
example : (select (fun _ => 0) id [2, 2, 0] exS).x = [7, 7, 4] := by decide
example : Coherent exL exPi exQ (select (fun _ => 0) id [2, 2, 0] exS) :=
  select_coherent exL exPi exQ _ _ _ exS (Or.inl rfl) (evalLP_coherent exL exPi exQ {} [4, 5, 7]).1
    (evalLP_coherent exL exPi exQ {} [4, 5, 7]).2 (by decide)
/-- a set that is *not* coherent is rejected by the definition (the predicate is not trivially true) -/
example : ¬ Coherent exL exPi exQ { cls := .smc, x := [4, 5], ll := some [16, 16] } := by
  intro h; have := h.1 _ rfl; revert this; decide

end C10
