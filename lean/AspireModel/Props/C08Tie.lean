import AspireModel.Props.C08
import AspireModel.Props.C09
import AspireModel.Lemmas.TieWeights
import AspireModel.Gen.SrcLoop
/-
  C08, tie to the source: `SMCSamples.log_evidence_ratio` and `log_evidence_ratio_variance` as translated from
  `/repo/src/aspire/samples.py` on every run are the model's `logEvidenceRatio` / `logEvidenceRatioVar`
  (`Model/Tempering.lean`) — generic in the scalar — and over ℝ the ratio is the log of the mean incremental
  weight of the population it is called on.
-/
set_option linter.unusedSectionVars false
namespace C08
open Model

section generic
variable {α : Type} [Num α] [DecidableLT α] [DecidableLE α]

theorem tie_log_evidence_ratio (β β' : α) (ll lp lq : List α) (n : Nat)
    (hn : n = (Model.unnormLogW β β' ll lp lq).length) :
    Gen.log_evidence_ratio β ll lp lq n β' = Model.logEvidenceRatio β β' ll lp lq := by
  subst hn
  simp [Gen.log_evidence_ratio, Model.logEvidenceRatio, Tie.unnormalized_log_weights_eq, Tie.logsumexp_eq]

/-- delta-method variance on max-shifted weights; `nan` (model: `none`) when the mean weight is 0 -/
theorem tie_log_evidence_ratio_variance (β β' : α) (ll lp lq : List α) (n : Nat)
    (hn : n = (Model.unnormLogW β β' ll lp lq).length) :
    Gen.log_evidence_ratio_variance β ll lp lq n β' = Model.logEvidenceRatioVar β β' ll lp lq := by
  subst hn
  simp [Gen.log_evidence_ratio_variance, Model.logEvidenceRatioVar, Tie.unnormalized_log_weights_eq,
    Gen.vmean, Gen.vvar, Gen.vlen, Model.shiftedWeights, Gen.ne, Function.comp_def]

end generic

/-- **the per-step ratio is the log of the mean incremental weight** `log((1/N) Σ_i exp((β'−β)(log L_i + log π_i − log q_i)))`
    of the population it is evaluated on (model statement) -/
theorem ratio_is_log_mean_incremental_weight (β β' : ℝ) (ll lp lq : List ℝ) (h : logW ll lp lq ≠ []) :
    logEvidenceRatio β β' ll lp lq
      = Real.log ((C09.incW β β' ll lp lq).sum / ((logW ll lp lq).length : ℝ)) := by
  have hne : unnormLogW β β' ll lp lq ≠ [] := by
    rw [C09.unnormLogW_eq]; simpa using h
  have hlen : (unnormLogW β β' ll lp lq).length = (logW ll lp lq).length := by
    rw [C09.unnormLogW_eq]; simp
  have hn : (0 : ℝ) < ((logW ll lp lq).length : ℝ) := by exact_mod_cast List.length_pos_iff.mpr h
  simp only [logEvidenceRatio, log_real]
  rw [logsumexp_eq _ hne, hlen, C09.unnormLogW_eq, ← C09.incW_eq,
    Real.log_div (by rw [C09.incW_eq, ← C09.unnormLogW_eq]; exact (sum_exp_pos _ hne).ne') hn.ne']

/-- the same for the translated source -/
theorem src_ratio_is_log_mean_incremental_weight (β β' : ℝ) (ll lp lq : List ℝ) (n : ℕ)
    (hn : n = (unnormLogW β β' ll lp lq).length) (h : logW ll lp lq ≠ []) :
    Gen.log_evidence_ratio β ll lp lq n β'
      = Real.log ((C09.incW β β' ll lp lq).sum / ((logW ll lp lq).length : ℝ)) := by
  rw [tie_log_evidence_ratio β β' ll lp lq n hn]
  exact ratio_is_log_mean_incremental_weight β β' ll lp lq h

/-- the two statements after the loop, `samples.log_evidence = sum(history.log_norm_ratio)` and
    `samples.log_evidence_error = sqrt(sum(history.log_norm_ratio_var))`, as translated from the source -/
theorem tie_final_evidence (hb ratio var : List ℝ) :
    Gen.final_evidence hb ratio var = (ratio.sum, Real.sqrt var.sum) := by
  simp [Gen.final_evidence, Gen.vsum]

/-- hence for every kit whose `sumS` / `rootSumS` are `sum` / `sqrt ∘ sum` the evidence and error returned by a
    finished run of the model are what the translated statements compute from the recorded series -/
theorem src_evidence_is_sum_of_recorded_ratios {P : Type} {k : Kit P ℝ} {cfg : SmcCfg ℝ} {flag : Bool}
    {st0 : St P ℝ} {steps : List (Step P)} {r : Result P ℝ}
    (hs : ∀ l, k.sumS l = l.sum) (hr : ∀ l, k.rootSumS l = Real.sqrt l.sum)
    (h : runFrom k cfg flag st0 steps = .done r) :
    (r.logZ, r.logZerr) = Gen.final_evidence r.st.hist.beta r.st.hist.ratio r.st.hist.var := by
  rw [tie_final_evidence, (runFrom_evidence h).1, (runFrom_evidence h).2, hs, hr]

example : logW [0, 1] [0, 0] [0, (0 : ℝ)] ≠ [] := by simp [logW]

end C08
