import AspireModel.Props.C11StateTie
/-
  C12, tie to the source through the ninth vocabulary (`Gen/SrcState.lean`): the payload the checkpoint callback is handed — and that
  `dump_state` pickles into the file — is CURRENT and LOADABLE at the level of the state dictionary:
    * it holds the population, iteration, temperature and minimum step `build_checkpoint_state` was called with, the generator state and the
      history of that moment (`src_payload_holds_its_arguments`);
    * whatever the run does afterwards (further appends to its history, a crash), a file whose bytes are what `pickle.dumps` saw when the
      callback ran restores, on a new sampler object, to exactly that moment (`src_file_payload_restores`).
  Which arguments the loop passes (`samples, iterations, beta, min_step` of the CURRENT iteration) is `C12LoopTie.src_last_payload_current`;
  that the bytes reach the file is C12's dump model (`C12Tie`).
-/
set_option linter.unusedSectionVars false
namespace C12State
open Gen C11State

variable {P C R K H α : Type} [Inhabited H]

theorem src_payload_holds_its_arguments (ops : StateOps P C R K H α) (w : World H R K α) (pop : P) (it : Nat) (β : α) (ms : Option α) :
    let r := smc_build_checkpoint_state ops w pop it β ms
    r.2.samples = some pop ∧ r.2.iteration = some it ∧ (r.2.meta_.getD {}).beta = some β ∧ (r.2.meta_.getD {}).min_step = ms ∧
    r.2.rng_state = w.self.rng_state ∧ (freeze r.1.heap r.2).history = some (w.heap.get w.self.history) := by
  have hf := src_build_fields ops w pop it β ms
  obtain ⟨h1, h2, h3, h4, _, _, _, _, _, h10, _, h12⟩ := hf
  refine ⟨h2, h1, by rw [h3]; rfl, by rw [h3]; rfl, h4, ?_⟩
  simp only [freeze, CkStateG.mapHist, h10, Option.map_some, h12]

/-- the file written when the callback ran restores to the moment of the callback, on any sampler object whose generator can take a
    state, in any later heap -/
theorem src_file_payload_restores (ops : StateOps P C R K H α) (w : World H R K α) (pop : P) (it : Nat) (β : α) (ms : Option α)
    (w2 : World H R K α) (r0 : R) (hr : w.self.rng_state = some r0) (hr2 : w2.self.rng_state.isSome = true) (p : Nat)
    (hl : ops.load_file p = freeze (smc_build_checkpoint_state ops w pop it β ms).1.heap (smc_build_checkpoint_state ops w pop it β ms).2) :
    (smc_restore_from_checkpoint ops w2 (.path p)).map outputs =
      .ok { samples := ops.smc_from_samples (ops.from_samples pop) β, beta := β, iteration := it,
            history := w.heap.get w.self.history, rng_state := some r0, min_step := ms } := by
  have hf := src_build_fields ops w pop it β ms
  obtain ⟨h1, h2, h3, h4, _, _, _, _, h9, h10, _, h12⟩ := hf
  rw [src_restore_path_eq_dict ops w2 _ _ pop _ h2 h10 p hl]
  have hb : betaOf ops (smc_build_checkpoint_state ops w pop it β ms).2 = β := by simp [betaOf, h3]
  have hg : rngOf w2.self (smc_build_checkpoint_state ops w pop it β ms).2 = some r0 := by
    simp [rngOf, h4, hr, hr2]
  simp only [hb, hg, h1, h3, h12, Option.getD_some]

end C12State
