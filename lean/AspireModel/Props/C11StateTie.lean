import AspireModel.Gen.SrcState
import AspireModel.Model.Smc
/-
  C11 (and C12's "current" clause), tie to the source: the checkpoint STATE DICTIONARY as `/repo` builds and reads it NOW
  (`Gen.smc_build_checkpoint_state`, `Gen.smc_restore_from_checkpoint`, regenerated from `samplers/base.py` and `samplers/smc/base.py`
  on every run by `harness/translate/state2lean.py`).

  Proved directly on the translation, for every heap, every sampler object, every population / temperature / iteration / minimum step:
    * what the dictionary holds (`src_build_fields`);
    * the history it holds is a value of its own: whatever the run appends to its live history afterwards, and whatever is allocated,
      the checkpoint still holds the history as it was when the checkpoint was built (`src_checkpoint_history_frozen`) — this is the
      statement that fails to type-check/prove when the source stores `self.history` itself;
    * restoring from a live dictionary gives back population (converted), temperature, iteration, history VALUE, generator state and
      minimum step (`src_restore_dict`), leaves the dictionary's own history untouched by anything the resumed run appends
      (`src_restore_isolates_source`), so the same dictionary restores to the same thing a second time (`src_restore_same_dict_twice`);
    * restore ∘ build is the identity on what the loop reads (`src_restore_build`);
    * bytes, file path and dictionary are interchangeable sources when `pickle.loads` returns what `pickle.dumps` saw
      (`src_restore_bytes_eq_dict`, `src_restore_path_eq_dict`);
    * the unsupported source and the dictionary without samples are the two error exits (`src_restore_errors`);
    * tie to the model of `Model/Smc.lean`: the dictionary built from the image of a model state IS `Model.snapshot`, and restoring it IS
      `Model.restore` (`tie_build_is_snapshot`, `tie_restore_is_model_restore`).
-/
set_option linter.unusedSectionVars false
namespace C11State
open Gen

variable {P C R K H α : Type} [Inhabited H]

/-! ## heap facts -/

theorem get_alloc_new (hp : Heap H) (h : H) : (hp.alloc h).1.get (hp.alloc h).2 = h := by
  simp [Heap.alloc, Heap.get, List.getD]

theorem get_alloc_old (hp : Heap H) (h : H) (a : Addr) (ha : hp.valid a) : (hp.alloc h).1.get a = hp.get a := by
  unfold Heap.valid at ha
  simp [Heap.alloc, Heap.get, List.getD, List.getElem?_append_left ha]

theorem valid_alloc_old (hp : Heap H) (h : H) (a : Nat) (ha : hp.valid a) : (hp.alloc h).1.valid a := by
  unfold Heap.valid at *
  show a < (hp.cells ++ [h]).length
  rw [List.length_append]
  exact Nat.lt_add_right _ ha

theorem valid_alloc_new (hp : Heap H) (h : H) : (hp.alloc h).1.valid (hp.alloc h).2 := by
  simp [Heap.alloc, Heap.valid]

theorem alloc_addr (hp : Heap H) (h : H) : (hp.alloc h).2 = hp.cells.length := rfl

theorem get_set_ne (hp : Heap H) (a b : Addr) (h : H) (hab : a ≠ b) : (hp.set a h).get b = hp.get b := by
  simp [Heap.set, Heap.get, List.getD, List.getElem?_set_ne hab]

theorem get_set_eq (hp : Heap H) (a : Addr) (h : H) (ha : hp.valid a) : (hp.set a h).get a = h := by
  unfold Heap.valid at ha
  simp [Heap.set, Heap.get, List.getD, ha]

theorem valid_set (hp : Heap H) (a b : Addr) (h : H) (hb : hp.valid b) : (hp.set a h).valid b := by
  unfold Heap.valid at *
  simpa [Heap.set] using hb

theorem ne_of_valid_new (hp : Heap H) (a : Nat) (ha : hp.valid a) : a ≠ hp.cells.length := by
  unfold Heap.valid at ha
  exact Nat.ne_of_lt ha

/-- the sampler's live history is an object of the heap -/
def WF (w : World H R K α) : Prop := w.heap.valid w.self.history

/-! ## 1. what `build_checkpoint_state` puts into the dictionary -/

theorem src_build_fields (ops : StateOps P C R K H α) (w : World H R K α) (pop : P) (it : Nat) (β : α) (ms : Option α) :
    let r := smc_build_checkpoint_state ops w pop it β ms
    r.2.iteration = some it ∧ r.2.samples = some pop ∧ r.2.meta_ = some { beta := some β, min_step := ms } ∧
    r.2.rng_state = w.self.rng_state ∧ r.2.sampler_kwargs = w.self.sampler_kwargs ∧ r.2.config = some ops.config_dict ∧
    r.2.sampler = some ops.class_name ∧ r.2.parameters = some ops.parameters ∧ r.2.beta = none ∧
    r.2.history = some w.heap.cells.length ∧ r.1.self = w.self ∧
    r.1.heap.get w.heap.cells.length = w.heap.get w.self.history := by
  refine ⟨rfl, rfl, rfl, rfl, rfl, rfl, rfl, rfl, rfl, rfl, rfl, ?_⟩
  exact get_alloc_new w.heap (w.heap.get w.self.history)

/-- building a checkpoint does not disturb any existing object -/
theorem src_build_keeps_heap (ops : StateOps P C R K H α) (w : World H R K α) (pop : P) (it : Nat) (β : α) (ms : Option α)
    (a : Addr) (ha : w.heap.valid a) :
    (smc_build_checkpoint_state ops w pop it β ms).1.heap.get a = w.heap.get a ∧
    (smc_build_checkpoint_state ops w pop it β ms).1.heap.valid a :=
  ⟨get_alloc_old w.heap _ a ha, valid_alloc_old w.heap _ a ha⟩

/-! ## 2. the checkpoint's history is frozen -/

/-- what happens to the heap after a checkpoint was built: the run appends to its live history, other objects are allocated -/
inductive Later (H : Type) where
  | append (h' : H)        -- in-place change of the LIVE history (address `w.self.history`)
  | alloc (h : H)

def applyLater (live : Addr) (hp : Heap H) : Later H → Heap H
  | .append h' => hp.set live h'
  | .alloc h => (hp.alloc h).1

def applyAll (live : Addr) (hp : Heap H) (ls : List (Later H)) : Heap H := ls.foldl (applyLater live) hp

theorem applyAll_get (live a : Addr) (hp : Heap H) (ls : List (Later H)) (ha : hp.valid a) (hne : live ≠ a) :
    (applyAll live hp ls).get a = hp.get a ∧ (applyAll live hp ls).valid a := by
  induction ls generalizing hp with
  | nil => exact ⟨rfl, ha⟩
  | cons l ls ih =>
    cases l with
    | append h' =>
      have := ih (hp.set live h') (valid_set hp live a h' ha)
      simp only [applyAll, List.foldl_cons, applyLater] at this ⊢
      rw [this.1, get_set_ne hp live a h' hne]
      exact ⟨rfl, this.2⟩
    | alloc h =>
      have := ih (hp.alloc h).1 (valid_alloc_old hp h a ha)
      simp only [applyAll, List.foldl_cons, applyLater] at this ⊢
      rw [this.1, get_alloc_old hp h a ha]
      exact ⟨rfl, this.2⟩

/-- **frozen**: after ANY sequence of later appends to the live history and allocations, the history held by the checkpoint is the
    live history as it was when the checkpoint was built -/
theorem src_checkpoint_history_frozen (ops : StateOps P C R K H α) (w : World H R K α) (hw : WF w) (pop : P) (it : Nat) (β : α)
    (ms : Option α) (ls : List (Later H)) :
    let r := smc_build_checkpoint_state ops w pop it β ms
    ∃ a, r.2.history = some a ∧ (applyAll r.1.self.history r.1.heap ls).get a = w.heap.get w.self.history := by
  refine ⟨w.heap.cells.length, rfl, ?_⟩
  have hv : (smc_build_checkpoint_state ops w pop it β ms).1.heap.valid w.heap.cells.length := valid_alloc_new w.heap _
  have hne : (smc_build_checkpoint_state ops w pop it β ms).1.self.history ≠ w.heap.cells.length := ne_of_valid_new w.heap _ hw
  rw [(applyAll_get _ _ _ ls hv hne).1]
  exact get_alloc_new w.heap (w.heap.get w.self.history)

/-- non-vacuity / contrast: a dictionary that held the LIVE history itself would change with the run -/
example : (applyAll 0 ({ cells := [[1]] } : Heap (List Nat)) [.append [1, 2]]).get 0 = [1, 2] := by decide

/-! ## 3. restoring from a live dictionary -/

/-- the outputs of a successful restore that the rest of `sample()` reads -/
structure Restored (P R α H : Type) where
  samples : P
  beta : α
  iteration : Nat
  history : H
  rng_state : Option R
  min_step : Option α
  deriving DecidableEq

def outputs (r : World H R K α × P × α × Nat) : Restored P R α H :=
  { samples := r.2.1, beta := r.2.2.1, iteration := r.2.2.2, history := r.1.heap.get r.1.self.history, rng_state := r.1.self.rng_state,
    min_step := r.1.self.restored_min_step }

/-- the temperature a restore reads: `meta["beta"]`, else the legacy top-level key, else 0.0 -/
def betaOf (ops : StateOps P C R K H α) (st : CkState P C R K α) : α :=
  match (st.meta_.getD {}).beta with
  | none => st.beta.getD ops.zero
  | some b => b

/-- the generator state after a restore: put back only when the dictionary has one and the generator can take it -/
def rngOf (self : StSelf R K α) (st : CkState P C R K α) : Option R :=
  if st.rng_state.isSome && self.rng_state.isSome then st.rng_state else self.rng_state

/-- the sampler object and heap after restoring the live dictionary `st` whose history is the object at `a` -/
def restoredWorld (w : World H R K α) (st : CkState P C R K α) (a : Addr) : World H R K α :=
  { heap := (w.heap.deepcopy a).1,
    self := { history := (w.heap.deepcopy a).2, rng_state := rngOf w.self st, sampler_kwargs := w.self.sampler_kwargs,
              restored_min_step := (st.meta_.getD {}).min_step } }

theorem src_restore_dict (ops : StateOps P C R K H α) (w : World H R K α) (st : CkState P C R K α) (pop : P) (a : Addr)
    (hs : st.samples = some pop) (hh : st.history = some a) :
    smc_restore_from_checkpoint ops w (.dict st) =
      .ok (restoredWorld w st a, ops.smc_from_samples (ops.from_samples pop) (betaOf ops st), betaOf ops st, st.iteration.getD 0) := by
  unfold smc_restore_from_checkpoint base_restore_from_checkpoint
  simp only [hs, hh]
  by_cases hr : (st.rng_state.isSome && w.self.rng_state.isSome) = true
  · simp only [hr, if_true, betaOf, restoredWorld, rngOf]
    rfl
  · simp only [hr, betaOf, restoredWorld, rngOf]
    rfl

/-- the observable outputs of restoring a live dictionary -/
theorem src_restore_dict_outputs (ops : StateOps P C R K H α) (w : World H R K α) (st : CkState P C R K α) (pop : P) (a : Addr)
    (hs : st.samples = some pop) (hh : st.history = some a) :
    (smc_restore_from_checkpoint ops w (.dict st)).map outputs =
      .ok { samples := ops.smc_from_samples (ops.from_samples pop) (betaOf ops st), beta := betaOf ops st,
            iteration := st.iteration.getD 0, history := w.heap.get a, rng_state := rngOf w.self st,
            min_step := (st.meta_.getD {}).min_step } := by
  rw [src_restore_dict ops w st pop a hs hh]
  simp only [Except.map, outputs, restoredWorld]
  congr 2
  exact get_alloc_new w.heap (w.heap.get a)

/-- **the source is not touched**: whatever the resumed run appends to ITS history afterwards, the dictionary's history is unchanged -/
theorem src_restore_isolates_source (ops : StateOps P C R K H α) (w : World H R K α) (st : CkState P C R K α) (pop : P) (a : Addr)
    (hs : st.samples = some pop) (hh : st.history = some a) (ha : w.heap.valid a) (ls : List (Later H)) :
    ∃ w' x, smc_restore_from_checkpoint ops w (.dict st) = .ok (w', x) ∧
      (applyAll w'.self.history w'.heap ls).get a = w.heap.get a ∧ (applyAll w'.self.history w'.heap ls).valid a := by
  refine ⟨restoredWorld w st a, _, src_restore_dict ops w st pop a hs hh, ?_⟩
  have hv : (restoredWorld w st a).heap.valid a := valid_alloc_old w.heap _ a ha
  have hne : (restoredWorld w st a).self.history ≠ a := (ne_of_valid_new w.heap a ha).symm
  have := applyAll_get (restoredWorld w st a).self.history a (restoredWorld w st a).heap ls hv hne
  refine ⟨?_, this.2⟩
  rw [this.1]
  exact get_alloc_old w.heap _ a ha

/-- the same dictionary restores to the same thing a second time, after the first resumed run went on (on any sampler object `self2`) -/
theorem src_restore_same_dict_twice (ops : StateOps P C R K H α) (w : World H R K α) (st : CkState P C R K α) (pop : P) (a : Addr)
    (hs : st.samples = some pop) (hh : st.history = some a) (ha : w.heap.valid a) (ls : List (Later H)) (self2 : StSelf R K α)
    (hrng : self2.rng_state.isSome = w.self.rng_state.isSome) :
    ∃ w' x, smc_restore_from_checkpoint ops w (.dict st) = .ok (w', x) ∧
      ((smc_restore_from_checkpoint ops { heap := applyAll w'.self.history w'.heap ls, self := self2 } (.dict st)).map outputs).map
          (fun o => (o.samples, o.beta, o.iteration, o.history, o.rng_state.isSome && st.rng_state.isSome, o.min_step)) =
      ((smc_restore_from_checkpoint ops w (.dict st)).map outputs).map
          (fun o => (o.samples, o.beta, o.iteration, o.history, o.rng_state.isSome && st.rng_state.isSome, o.min_step)) := by
  obtain ⟨w', x, he, hg, _⟩ := src_restore_isolates_source ops w st pop a hs hh ha ls
  refine ⟨w', x, he, ?_⟩
  rw [src_restore_dict_outputs ops w st pop a hs hh, src_restore_dict_outputs ops _ st pop a hs hh]
  simp only [Except.map, hg, rngOf, hrng]
  congr 1
  cases h1 : st.rng_state.isSome <;> cases h2 : w.self.rng_state.isSome <;> simp [h1, h2, hrng]

/-! ## 4. restore ∘ build -/

/-- a checkpoint built by one sampler and restored (as a live dictionary) by any sampler whose generator can take a state: population
    (converted), temperature, iteration, history value, generator state and minimum step are those at the moment the checkpoint was built —
    also after the building run went on -/
theorem src_restore_build (ops : StateOps P C R K H α) (w : World H R K α) (hw : WF w) (pop : P) (it : Nat) (β : α) (ms : Option α)
    (ls : List (Later H)) (self2 : StSelf R K α) (r0 : R) (hr : w.self.rng_state = some r0) (hr2 : self2.rng_state.isSome = true) :
    let b := smc_build_checkpoint_state ops w pop it β ms
    (smc_restore_from_checkpoint ops { heap := applyAll b.1.self.history b.1.heap ls, self := self2 } (.dict b.2)).map outputs =
      .ok { samples := ops.smc_from_samples (ops.from_samples pop) β, beta := β, iteration := it,
            history := w.heap.get w.self.history, rng_state := some r0, min_step := ms } := by
  intro b
  obtain ⟨a, hha, hfro⟩ := src_checkpoint_history_frozen ops w hw pop it β ms ls
  have hf := src_build_fields ops w pop it β ms
  rw [src_restore_dict_outputs ops _ b.2 pop a hf.2.1 hha]
  have hb : betaOf ops b.2 = β := by simp [betaOf, b, hf.2.2.1]
  have hm : (b.2.meta_.getD {}).min_step = ms := by simp [b, hf.2.2.1]
  have hi : b.2.iteration.getD 0 = it := by simp [b, hf.1]
  have hg : rngOf self2 b.2 = some r0 := by
    have : b.2.rng_state = some r0 := by rw [← hr]; exact hf.2.2.2.1
    simp [rngOf, this, hr2]
  simp only [hb, hm, hi, hg]
  rw [hfro]

/-! ## 5. the three kinds of source are interchangeable -/

theorem intern_freeze_get (hp hp2 : Heap H) (st : CkState P C R K α) :
    let r := intern hp2 (freeze hp st)
    r.2.samples = st.samples ∧ r.2.iteration = st.iteration ∧ r.2.meta_ = st.meta_ ∧ r.2.beta = st.beta ∧ r.2.rng_state = st.rng_state ∧
    (∀ a, st.history = some a → r.2.history = some hp2.cells.length ∧ r.1.get hp2.cells.length = hp.get a ∧
        ∀ b, hp2.valid b → r.1.get b = hp2.get b) := by
  cases hh : st.history with
  | none => simp [intern, freeze, CkStateG.mapHist, hh]
  | some a =>
    refine ⟨?_, ?_, ?_, ?_, ?_, ?_⟩ <;> simp only [intern, freeze, CkStateG.mapHist, hh, Option.map_some]
    intro a' ha'
    cases ha'
    exact ⟨rfl, get_alloc_new hp2 (hp.get a), fun b hb => get_alloc_old hp2 _ b hb⟩

/-- bytes: if `pickle.loads(b)` returns what `pickle.dumps` saw of the dictionary (the value of every object it reaches), restoring from
    the bytes gives the same outputs as restoring from the dictionary -/
theorem src_restore_bytes_eq_dict (ops : StateOps P C R K H α) (w : World H R K α) (hp : Heap H) (st : CkState P C R K α) (pop : P)
    (a : Addr) (hs : st.samples = some pop) (hh : st.history = some a) (b : List Nat) (hl : ops.loads b = freeze hp st) :
    (smc_restore_from_checkpoint ops w (.bytes b)).map outputs =
      .ok { samples := ops.smc_from_samples (ops.from_samples pop) (betaOf ops st), beta := betaOf ops st,
            iteration := st.iteration.getD 0, history := hp.get a, rng_state := rngOf w.self st,
            min_step := (st.meta_.getD {}).min_step } := by
  have hi := intern_freeze_get hp w.heap st
  obtain ⟨h1, h2, h3, h4, h5, h6⟩ := hi
  obtain ⟨h6a, h6b, _⟩ := h6 a hh
  have key : smc_restore_from_checkpoint ops w (.bytes b) =
      smc_restore_from_checkpoint ops { w with heap := (intern w.heap (freeze hp st)).1 } (.dict (intern w.heap (freeze hp st)).2) := by
    unfold smc_restore_from_checkpoint base_restore_from_checkpoint
    simp only [hl]
  rw [key, src_restore_dict_outputs ops _ _ pop w.heap.cells.length (by rw [h1]; exact hs) h6a]
  simp only [betaOf, rngOf, h2, h3, h4, h5, h6b]

theorem src_restore_path_eq_dict (ops : StateOps P C R K H α) (w : World H R K α) (hp : Heap H) (st : CkState P C R K α) (pop : P)
    (a : Addr) (hs : st.samples = some pop) (hh : st.history = some a) (p : Nat) (hl : ops.load_file p = freeze hp st) :
    (smc_restore_from_checkpoint ops w (.path p)).map outputs =
      .ok { samples := ops.smc_from_samples (ops.from_samples pop) (betaOf ops st), beta := betaOf ops st,
            iteration := st.iteration.getD 0, history := hp.get a, rng_state := rngOf w.self st,
            min_step := (st.meta_.getD {}).min_step } := by
  have hi := intern_freeze_get hp w.heap st
  obtain ⟨h1, h2, h3, h4, h5, h6⟩ := hi
  obtain ⟨h6a, h6b, _⟩ := h6 a hh
  have key : smc_restore_from_checkpoint ops w (.path p) =
      smc_restore_from_checkpoint ops { w with heap := (intern w.heap (freeze hp st)).1 } (.dict (intern w.heap (freeze hp st)).2) := by
    unfold smc_restore_from_checkpoint base_restore_from_checkpoint
    simp only [hl]
  rw [key, src_restore_dict_outputs ops _ _ pop w.heap.cells.length (by rw [h1]; exact hs) h6a]
  simp only [betaOf, rngOf, h2, h3, h4, h5, h6b]

/-! ## 6. the error exits -/

theorem src_restore_errors (ops : StateOps P C R K H α) (w : World H R K α) (st : CkState P C R K α) (hs : st.samples = none) :
    smc_restore_from_checkpoint ops w .other = .error .unsupportedSource ∧
    smc_restore_from_checkpoint ops w (.dict st) = .error .missingSamples := by
  constructor
  · rfl
  · unfold smc_restore_from_checkpoint base_restore_from_checkpoint
    simp only [hs]

/-- a dictionary without a history (a checkpoint of a sampler without one) restores to a new, empty history -/
theorem src_restore_default_history (ops : StateOps P C R K H α) (w : World H R K α) (st : CkState P C R K α) (pop : P)
    (hs : st.samples = some pop) (hh : st.history = none) :
    ((smc_restore_from_checkpoint ops w (.dict st)).map outputs).map (·.history) = .ok ops.new_history := by
  unfold smc_restore_from_checkpoint base_restore_from_checkpoint
  simp only [hs, hh]
  by_cases hr : (st.rng_state.isSome && w.self.rng_state.isSome) = true <;>
    simp [hr, Except.map, outputs, Heap.deepcopy, Heap.alloc, Heap.get, List.getD]

/-! ## non-vacuity: a concrete sampler, a checkpoint, two more appends, a restore on another object -/

section example_
/-- histories are lists of temperatures (in thousandths); populations, configurations and generator states are numbers -/
def exOps : StateOps Nat Nat Nat Nat (List Nat) Nat :=
  { class_name := 7, parameters := 3, config_dict := 11, from_samples := id, smc_from_samples := fun p _ => p,
    loads := fun _ => {}, load_file := fun _ => {}, new_history := [], zero := 0 }

def exW : World (List Nat) Nat Nat Nat := { heap := { cells := [[250, 600]] }, self := { history := 0, rng_state := some 41 } }

example : WF exW := by show (0 : Nat) < 1; decide

/-- build at iteration 2, then the run appends its third and fourth temperatures in place, then ANOTHER sampler restores the dictionary -/
example :
    let b := smc_build_checkpoint_state exOps exW 5 2 600 (some 50)
    let later := applyAll b.1.self.history b.1.heap [.append [250, 600, 900], .append [250, 600, 900, 1000]]
    (smc_restore_from_checkpoint exOps { heap := later, self := { history := 0, rng_state := some 0 } } (.dict b.2)).map outputs =
      .ok { samples := 5, beta := 600, iteration := 2, history := [250, 600], rng_state := some 41, min_step := some 50 } := by
  rfl

/-- and the live history of the first sampler did change -/
example :
    let b := smc_build_checkpoint_state exOps exW 5 2 600 (some 50)
    (applyAll b.1.self.history b.1.heap [.append [250, 600, 900]]).get 0 = [250, 600, 900] := by rfl
end example_

/-! ## 7. tie to the model: build = `Model.snapshot`, restore = `Model.restore` -/

section model
open Model
variable {S : Type}

/-- the sampler object and heap that carry a model state: the live history is an object of the heap, the position in the random stream
    is the generator state -/
def worldOf (hp : Heap (Hist P S)) (live : Addr) (st : St P S) : World (Hist P S) Nat K S :=
  { heap := hp.set live st.hist, self := { history := live, rng_state := some st.consumed } }

/-- the model payload a state dictionary denotes -/
def ckOf [Inhabited (Hist P S)] (hp : Heap (Hist P S)) (d : CkState P C Nat K S) (zero : S) : Option (Ckpt P S) :=
  match d.samples, d.history, d.rng_state, (d.meta_.getD {}).min_step with
  | some pop, some a, some c, some m =>
    some { pop := pop, iter := d.iteration.getD 0,
           beta := (match (d.meta_.getD {}).beta with | none => d.beta.getD zero | some b => b),
           hist := hp.get a, consumed := c, minStep := m }
  | _, _, _, _ => none

instance : Inhabited (Hist P S) := ⟨{}⟩

theorem tie_build_is_snapshot (ops : StateOps P C Nat K (Hist P S) S) (hp : Heap (Hist P S)) (live : Addr) (hl : hp.valid live)
    (st : St P S) :
    let b := smc_build_checkpoint_state ops (worldOf (K := K) hp live st) st.pop st.iter st.beta (some st.minStep)
    ckOf b.1.heap b.2 ops.zero = some (snapshot st) := by
  intro b
  have hf := src_build_fields ops (worldOf (K := K) hp live st) st.pop st.iter st.beta (some st.minStep)
  obtain ⟨h1, h2, h3, h4, _, _, _, _, _, h10, _, h12⟩ := hf
  have hg : (worldOf (K := K) hp live st).heap.get (worldOf (K := K) hp live st).self.history = st.hist :=
    get_set_eq hp live st.hist hl
  have hrs : (worldOf (K := K) hp live st).self.rng_state = some st.consumed := rfl
  simp only [ckOf, b, h1, h2, h3, h4, h10, hrs, Option.getD_some]
  rw [h12, hg]
  rfl

/-- restoring the dictionary a model state was checkpointed into gives the model's `restore (snapshot st)` on everything the loop
    reads (conversions of the population being the identity on a population of the right namespace and precision) -/
theorem tie_restore_is_model_restore (ops : StateOps P C Nat K (Hist P S) S) (hp : Heap (Hist P S)) (live : Addr) (hl : hp.valid live)
    (st : St P S) (hconv : ∀ p b, ops.smc_from_samples (ops.from_samples p) b = p) (ls : List (Later (Hist P S)))
    (self2 : StSelf Nat K S) (hr2 : self2.rng_state.isSome = true) :
    let b := smc_build_checkpoint_state ops (worldOf (K := K) hp live st) st.pop st.iter st.beta (some st.minStep)
    let m := restore (snapshot st)
    (smc_restore_from_checkpoint ops { heap := applyAll b.1.self.history b.1.heap ls, self := self2 } (.dict b.2)).map outputs =
      .ok { samples := m.pop, beta := m.beta, iteration := m.iter, history := m.hist, rng_state := some m.consumed,
            min_step := some m.minStep } := by
  intro b m
  have hw : WF (worldOf (K := K) hp live st) := valid_set hp live live st.hist hl
  have := src_restore_build ops (worldOf (K := K) hp live st) hw st.pop st.iter st.beta (some st.minStep) ls self2 st.consumed rfl hr2
  simp only at this
  rw [this, hconv]
  have hg : (worldOf (K := K) hp live st).heap.get (worldOf (K := K) hp live st).self.history = st.hist :=
    get_set_eq hp live st.hist hl
  rw [hg]
  rfl

end model

end C11State
