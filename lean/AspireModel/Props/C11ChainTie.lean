import AspireModel.Props.C11StateTie
import AspireModel.Props.C11EntryTie
/-
  C11, the translated links composed: a checkpoint dictionary BUILT by the translated `build_checkpoint_state` from a state of the run,
  handed (as the live dictionary, after the building run went on appending to its own history and allocating) to the translated
  `restore_from_checkpoint` of ANOTHER sampler object, whose outputs feed the translated PROLOGUE of `sample(resume_from=…)`:
  the loop of the resumed call starts from the model's `restore (snapshot st)` — population, temperature, iteration, minimum step, history.
  Only the callee tables (population conversion, pickling) are abstract; every statement in between is translated source.
-/
set_option linter.unusedSectionVars false
namespace C11Chain
open Gen Model C11State C11Entry

variable {P C K S : Type}

/-- the restore callee of the prologue, instantiated by the TRANSLATED `SMCSampler.restore_from_checkpoint` run in a world `w` -/
def restoreVia (sops : StateOps P C Nat K (Hist P S) S) (w : World (Hist P S) Nat K S) (dflt : Restored P (Hist P S) S)
    (src : Source P C Nat K S) : Restored P (Hist P S) S :=
  match smc_restore_from_checkpoint sops w src with
  | .ok (w', p, b, i) => { samples := p, beta := b, iterations := i, history := w'.heap.get w'.self.history,
                           restored_min_step := w'.self.restored_min_step }
  | .error _ => dflt

instance : Inhabited (Source P C Nat K S) := ⟨.other⟩

theorem src_resume_chain (sops : StateOps P C Nat K (Hist P S) S) (hp : Heap (Hist P S)) (live : Addr) (hl : hp.valid live) (st : St P S)
    (hconv : ∀ p b, sops.smc_from_samples (sops.from_samples p) b = p) (ls : List (Later (Hist P S)))
    (self2 : StSelf Nat K S) (hr2 : self2.rng_state.isSome = true)
    (draw : Nat → P) (conv : P → S → P) (nanv : S) (oneOver : Nat → S) (dflt : Restored P (Hist P S) S)
    (self0 : EntrySelf (Hist P S) S) (pop0 : P) (n : Nat) (store : Bool) (ns : Option Nat) (adaptive : Bool) (ms : Option S) (mx : Option Nat)
    (hok : ns.isSome = true ∨ adaptive = true) :
    let b := smc_build_checkpoint_state sops (worldOf (K := K) hp live st) st.pop st.iter st.beta (some st.minStep)
    let w2 : World (Hist P S) Nat K S := { heap := applyAll b.1.self.history b.1.heap ls, self := self2 }
    let eops : EntryOps P (Hist P S) (Source P C Nat K S) S :=
      { restore := restoreVia sops w2 dflt, draw_initial_samples := draw, smc_from_samples := conv, new_history := {},
        append_pop := fun h p => { h with pops := h.pops ++ [p] }, zero := sops.zero, one_over := oneOver, nanv := nanv }
    (smc_prologue eops self0 pop0 (some (.dict b.2)) n store ns adaptive ms mx).map
        (fun e => { stOfEntry e with consumed := st.consumed }) =
      .ok (restore (snapshot st)) := by
  intro b w2 eops
  have hrb := tie_restore_is_model_restore sops hp live hl st hconv ls self2 hr2
  simp only at hrb
  have hres : restoreVia sops w2 dflt (.dict b.2) =
      { samples := st.pop, beta := st.beta, iterations := st.iter, history := st.hist, restored_min_step := some st.minStep } := by
    unfold restoreVia
    cases hq : smc_restore_from_checkpoint sops w2 (.dict b.2) with
    | error e => rw [hq] at hrb; simp [Except.map] at hrb
    | ok r =>
      obtain ⟨w', p, bt, i⟩ := r
      rw [hq] at hrb
      simp only [Except.map, outputs, restore, snapshot, Except.ok.injEq, C11State.Restored.mk.injEq] at hrb
      obtain ⟨h1, h2, h3, h4, _, h6⟩ := hrb
      simp only [h1, h2, h3, h4, h6]
  rw [src_resumed_entry eops self0 pop0 (.dict b.2) n store ns adaptive ms mx hok]
  show Except.map _ (Except.ok _) = _
  simp only [Except.map, stOfEntry, restore, snapshot]
  have : eops.restore (.dict b.2) = restoreVia sops w2 dflt (.dict b.2) := rfl
  rw [this, hres]
  rfl

end C11Chain
