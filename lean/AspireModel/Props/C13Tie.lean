import AspireModel.Gen.SrcCodec
import AspireModel.Props.C13
/-
  C13 — tie of the codec model (`Model/Codec.lean`: `flattenEntries`, `flattenVal`, `saveDict`, `loadDict`) to the TRANSLATION of
  `recursively_save_to_h5_file` / `load_from_h5_file` from `/repo`'s source (`Gen/SrcCodec.lean`), and the round-trip theorems restated
  for the translated functions.  Core Lean only.
-/
namespace C13
open Model Gen

theorem joinKey_eq (pre key : Str) : (if pre ≠ [] then pre ++ ['.'] ++ key else key) = joinKey pre key := by
  unfold joinKey
  by_cases h : pre = [] <;> simp [h]

mutual
theorem tie_save_entries (pre : Str) : ∀ es : List (Str × Val), Gen.save_flattened_entries pre es = flattenEntries pre es
  | [] => by simp [Gen.save_flattened_entries, flattenEntries]
  | (k, v) :: rest => by
    simp only [Gen.save_flattened_entries, flattenEntries, joinKey_eq]
    rw [tie_save_value (joinKey pre k) v, tie_save_entries pre rest]
theorem tie_save_value (key : Str) : ∀ v : Val, Gen.save_flattened_value key v = flattenVal key v
  | .leaf l => by simp [Gen.save_flattened_value, flattenVal]
  | .dict es => by
    simp only [Gen.save_flattened_value, flattenVal]
    exact tie_save_entries key es
end

theorem tie_save_flattened (d : List (Str × Val)) : Gen.save_flattened d = saveDict d := by
  unfold Gen.save_flattened saveDict
  exact tie_save_entries [] d

theorem tie_load_flattened (g : List (Str × H)) : Gen.load_flattened g = loadDict g := rfl

/-- **round trip of the translated codec, datasets read back in ANY order**: for every well-formed nested dictionary, whatever the
    order in which the group lists the datasets the translated `recursively_save_to_h5_file` created (h5py: alphabetical), the
    translated `load_from_h5_file` rebuilds a dictionary equal to the saved one up to the order of entries at every depth -/
theorem src_codec_roundtrip_any_order (es : List (Str × Val)) (h : entriesWf es = true) (ds : List (Str × H))
    (hp : ds.Perm (Gen.save_flattened es)) :
    Val.eqv (.dict (Gen.load_flattened ds)) (.dict es) = true ∧ Val.eqv (.dict es) (.dict (Gen.load_flattened ds)) = true := by
  rw [tie_save_flattened] at hp
  rw [tie_load_flattened]
  exact ⟨codec_roundtrip_perm es h ds hp, codec_roundtrip_perm_symm es h ds hp⟩

/-- … and exactly, when the datasets are read in the order they were written -/
theorem src_codec_roundtrip_same_order (es : List (Str × Val)) (h : entriesWf es = true) :
    Gen.load_flattened (Gen.save_flattened es) = es := by
  rw [tie_save_flattened, tie_load_flattened]
  exact loadDict_saveDict es h

end C13
