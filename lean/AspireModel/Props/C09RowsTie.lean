import AspireModel.Gen.SrcRows
import AspireModel.Props.C09
/-
  C09 — "each drawn particle is an exact copy of one source particle", for the TRANSLATION of the `return self.__class__(…)` of
  `SMCSamples.resample` (`Gen/SrcRows.lean`): the translated population equals the model's `C09.resampleRows`, hence coordinates,
  log-likelihood, log-prior and log-proposal of every new row come from the SAME source row, and the population carries the new
  temperature and the requested size.  Core Lean only.
-/
namespace C09
open Model Gen
variable {X V : Type}

/-- the source builds a NEW population object: it does not carry an evidence attached to the old one (the model's `select` does;
    inside the loop no evidence is attached, and then the two coincide) -/
theorem tie_resample_return (idx : List Nat) (b : V) (S : SampleSet X V) (hc : S.cls = .smc) :
    Gen.resample_return idx b S = { resampleRows b idx S with logZ := none, logZerr := none } := by
  simp [Gen.resample_return, resampleRows, select, selBase, hc]

theorem tie_resample_return_in_loop (idx : List Nat) (b : V) (S : SampleSet X V) (hc : S.cls = .smc)
    (hz : S.logZ = none) (hze : S.logZerr = none) :
    Gen.resample_return idx b S = resampleRows b idx S := by
  simp [Gen.resample_return, resampleRows, select, selBase, hc, hz, hze]

/-- the translated population carries the new temperature, whatever the class tag -/
theorem src_resampled_beta (idx : List Nat) (b : V) (S : SampleSet X V) : (Gen.resample_return idx b S).beta = some b := rfl

/-- every field of the translated population is the SAME index list applied to the corresponding field of the source: row `j` of
    the result is source row `idx[j]` in all four columns at once -/
theorem src_rows_copied_intact (idx : List Nat) (b : V) (S : SampleSet X V) :
    (Gen.resample_return idx b S).x = pick idx S.x ∧ (Gen.resample_return idx b S).ll = pickO idx S.ll ∧
    (Gen.resample_return idx b S).lp = pickO idx S.lp ∧ (Gen.resample_return idx b S).lq = pickO idx S.lq := ⟨rfl, rfl, rfl, rfl⟩

/-- the requested size: with in-range indices the result has one row per drawn index -/
theorem src_resampled_size (idx : List Nat) (b : V) (S : SampleSet X V) (h : ∀ i ∈ idx, i < S.x.length) :
    (Gen.resample_return idx b S).x.length = idx.length := by
  show (pick idx S.x).length = idx.length
  unfold pick
  induction idx with
  | nil => rfl
  | cons i rest ih =>
    have hi : i < S.x.length := h i List.mem_cons_self
    simp only [List.filterMap_cons, List.getElem?_eq_getElem hi, List.length_cons]
    rw [ih (fun j hj => h j (List.mem_cons_of_mem _ hj))]

end C09
