import AspireModel.Props.C17Tie
/-
  C10 — the clauses of the property that are decided by the evaluation statements, restated for their TRANSLATION from `/repo`'s source
  (`Gen/SrcEval.lean`; tie to the model in `Props/C17Tie.lean`).  Core Lean only.
-/
namespace C10
open Model Gen
variable {X V : Type}

/-- **cached log-densities belong to the coordinates** — at every translated evaluation site the set that is handed on stores, for
    every row, the user's prior and likelihood (and the proposal, where it is evaluated) AT THAT ROW'S COORDINATES -/
theorem src_sites_coherent (ops : EOps X V) (tr : ETrace X V) (x : List X) (lq : List V) :
    (∀ s ∈ [(Gen.mcmc_target_eval ops tr x).2, (Gen.smc_target_eval ops tr x).2, (Gen.minipcn_mutate_eval ops tr x).2,
            (Gen.emcee_mutate_eval ops tr x).2, (Gen.importance_eval ops tr x lq).2],
      s.x = x ∧ s.log_prior = some (s.x.map ops.prior) ∧ s.log_likelihood = some (s.x.map ops.like)) ∧
    (∀ s ∈ [(Gen.smc_target_eval ops tr x).2, (Gen.minipcn_mutate_eval ops tr x).2, (Gen.emcee_mutate_eval ops tr x).2],
      s.log_q = some (s.x.map ops.flowq)) ∧
    (Gen.importance_eval ops tr x lq).2.log_q = some lq := by
  refine ⟨?_, ?_, ?_⟩
  · intro s hs
    simp only [List.mem_cons, List.not_mem_nil, or_false] at hs
    rcases hs with rfl | rfl | rfl | rfl | rfl <;>
      simp [C17.tie_mcmc_target_eval, C17.tie_smc_target_eval, C17.tie_minipcn_mutate_eval, C17.tie_emcee_mutate_eval,
        C17.tie_importance_eval]
  · intro s hs
    simp only [List.mem_cons, List.not_mem_nil, or_false] at hs
    rcases hs with rfl | rfl | rfl <;>
      simp [C17.tie_smc_target_eval, C17.tie_minipcn_mutate_eval, C17.tie_emcee_mutate_eval]
  · simp [C17.tie_importance_eval]

/-- **the initial population** (requested size `n ≥ 1`): exactly `n` rows, only finite-prior rows, each carrying the prior and
    likelihood of its own coordinates and the proposal value drawn together with it -/
theorem src_initial_population (ops : EOps X V) (tr : ETrace X V) (n : Nat) (hn : 0 < n) (batches : List (List (X × V)))
    (tr' : ETrace X V) (s : ESet X V) (h : Gen.draw_initial_samples ops tr n batches = some (tr', s)) :
    s.x.length = n ∧ s.log_prior = some (s.x.map ops.prior) ∧ s.log_likelihood = some (s.x.map ops.like) ∧
    (∀ lp, s.log_prior = some lp → ∀ v ∈ lp, ops.finite v = true) ∧
    (∀ lq, s.log_q = some lq → ∀ p ∈ s.x.zip lq, ∃ b ∈ batches, p ∈ b) :=
  let ⟨a, b, c, d, e, _⟩ := C17.src_initial_population ops tr n hn batches tr' s h
  ⟨a, b, c, d, e⟩

end C10
