import AspireModel.Model.Schedule
import AspireModel.Lemmas.Real
import AspireModel.Lemmas.EssAntitone
import AspireModel.Props.C02
import Mathlib.Analysis.SpecialFunctions.Pow.Real
/-
  C07 — the adaptive step is the largest temperature (within the tolerance) that keeps the
  sample efficiency of the incremental weights at or above the target in force.
  Model: `Model/Schedule.lean` (`determineBeta`, `bisect`, `currentTarget` = `SMCSampler.determine_beta`,
  `current_target_efficiency`) and `Model/Tempering.lean` (`effAt` = ESS/N of `SMCSamples.log_weights`).
  All statements over ℝ.  The efficiency of the current population as a function of the trial
  temperature is an arbitrary `eff : ℝ → ℝ` ("every population") unless a hypothesis says otherwise;
  `ess_antitone` shows that the real `effAt` satisfies the antitonicity hypothesis.
-/
namespace C07
open Model

/-! ### scalar helpers at ℝ -/

@[simp] theorem half_real : (half : ℝ) = 1 / 2 := by simp [half]

@[simp] theorem minS_real (a b : ℝ) : minS a b = min a b := by
  unfold minS
  split
  · rename_i h; rw [min_eq_right h.le]
  · rename_i h; rw [min_eq_left (not_lt.mp h)]

@[simp] theorem maxS_real (a b : ℝ) : maxS a b = max a b := by
  unfold maxS
  split
  · rename_i h; rw [max_eq_right h.le]
  · rename_i h; rw [max_eq_left (not_lt.mp h)]

/-! ### the bisection -/

theorem bisect_zero (eff : ℝ → ℝ) (target tol lo hi : ℝ) :
    bisect eff target tol 0 lo hi = (lo, hi) := rfl

theorem bisect_succ (eff : ℝ → ℝ) (target tol lo hi : ℝ) (f : ℕ) :
    bisect eff target tol (f + 1) lo hi =
      if tol < hi - lo then
        (if target ≤ eff (1 / 2 * (hi + lo)) then bisect eff target tol f (1 / 2 * (hi + lo)) hi
         else bisect eff target tol f lo (1 / 2 * (hi + lo)))
      else (lo, hi) := by
  simp only [bisect, half_real]

/-- the bracket only shrinks: `lo ≤ lo' ≤ hi' ≤ hi` -/
theorem bisect_bounds (eff : ℝ → ℝ) (target tol : ℝ) (fuel : ℕ) (lo hi : ℝ) (h : lo ≤ hi) :
    lo ≤ (bisect eff target tol fuel lo hi).1 ∧
      (bisect eff target tol fuel lo hi).1 ≤ (bisect eff target tol fuel lo hi).2 ∧
      (bisect eff target tol fuel lo hi).2 ≤ hi := by
  induction fuel generalizing lo hi with
  | zero => simp [bisect_zero, h]
  | succ f ih =>
    rw [bisect_succ]
    split
    · split
      · obtain ⟨h1, h2, h3⟩ := ih (1 / 2 * (hi + lo)) hi (by linarith)
        exact ⟨by linarith, h2, h3⟩
      · obtain ⟨h1, h2, h3⟩ := ih lo (1 / 2 * (hi + lo)) (by linarith)
        exact ⟨h1, h2, by linarith⟩
    · simp [h]

/-- the lower end is either untouched or a point where the target is met -/
theorem bisect_lo_meets (eff : ℝ → ℝ) (target tol : ℝ) (fuel : ℕ) (lo hi : ℝ) :
    (bisect eff target tol fuel lo hi).1 = lo ∨
      target ≤ eff (bisect eff target tol fuel lo hi).1 := by
  induction fuel generalizing lo hi with
  | zero => simp [bisect_zero]
  | succ f ih =>
    rw [bisect_succ]
    split
    · split
      · rename_i hm
        rcases ih (1 / 2 * (hi + lo)) hi with h | h
        · right; rw [h]; exact hm
        · right; exact h
      · exact ih lo (1 / 2 * (hi + lo))
    · simp

/-- the upper end is either untouched or a point where the target is missed -/
theorem bisect_hi_fails (eff : ℝ → ℝ) (target tol : ℝ) (fuel : ℕ) (lo hi : ℝ) :
    (bisect eff target tol fuel lo hi).2 = hi ∨
      eff (bisect eff target tol fuel lo hi).2 < target := by
  induction fuel generalizing lo hi with
  | zero => simp [bisect_zero]
  | succ f ih =>
    rw [bisect_succ]
    split
    · split
      · exact ih (1 / 2 * (hi + lo)) hi
      · rename_i hm
        rcases ih lo (1 / 2 * (hi + lo)) with h | h
        · right; rw [h]; exact not_le.mp hm
        · right; exact h
    · simp

/-- when the lower end moves at all it moves by more than half the tolerance -/
theorem bisect_lo_jump (eff : ℝ → ℝ) (target tol : ℝ) (fuel : ℕ) (lo hi : ℝ) (h : lo ≤ hi) :
    (bisect eff target tol fuel lo hi).1 = lo ∨
      lo + tol / 2 < (bisect eff target tol fuel lo hi).1 := by
  induction fuel generalizing lo hi with
  | zero => simp [bisect_zero]
  | succ f ih =>
    rw [bisect_succ]
    split
    · rename_i hw
      split
      · right
        have := (bisect_bounds eff target tol f (1 / 2 * (hi + lo)) hi (by linarith)).1
        linarith
      · exact ih lo (1 / 2 * (hi + lo)) (by linarith)
    · simp

/-- enough halvings bring the bracket below the tolerance -/
theorem bisect_width (eff : ℝ → ℝ) (target tol : ℝ) (fuel : ℕ) (lo hi : ℝ)
    (hf : hi - lo ≤ tol * 2 ^ fuel) :
    (bisect eff target tol fuel lo hi).2 - (bisect eff target tol fuel lo hi).1 ≤ tol := by
  induction fuel generalizing lo hi with
  | zero => simpa [bisect_zero] using hf
  | succ f ih =>
    rw [bisect_succ]
    rw [pow_succ] at hf
    split
    · split
      · apply ih; linarith
      · apply ih; linarith
    · rename_i hw; simpa using not_lt.mp hw

/-- the `while` loop has terminated: more fuel does not change the result -/
theorem bisect_stable (eff : ℝ → ℝ) (target tol : ℝ) (fuel : ℕ) (lo hi : ℝ)
    (hf : hi - lo ≤ tol * 2 ^ fuel) (fuel' : ℕ) (hge : fuel ≤ fuel') :
    bisect eff target tol fuel' lo hi = bisect eff target tol fuel lo hi := by
  induction fuel generalizing lo hi fuel' with
  | zero =>
    cases fuel' with
    | zero => rfl
    | succ f' =>
      rw [bisect_succ, bisect_zero, if_neg]
      simpa using hf
  | succ f ih =>
    cases fuel' with
    | zero => omega
    | succ f' =>
      rw [pow_succ] at hf
      rw [bisect_succ, bisect_succ]
      split
      · split
        · apply ih _ _ (by linarith) _ (by omega)
        · apply ih _ _ (by linarith) _ (by omega)
      · rfl

/-- all four facts together (`bisect_post`) -/
theorem bisect_post (eff : ℝ → ℝ) (target tol : ℝ) (fuel : ℕ) (lo hi : ℝ) (h : lo ≤ hi) :
    let r := bisect eff target tol fuel lo hi
    lo ≤ r.1 ∧ r.1 ≤ r.2 ∧ r.2 ≤ hi ∧ (r.1 = lo ∨ target ≤ eff r.1) ∧
      (r.2 = hi ∨ eff r.2 < target) ∧ (hi - lo ≤ tol * 2 ^ fuel → r.2 - r.1 ≤ tol) := by
  obtain ⟨h1, h2, h3⟩ := bisect_bounds eff target tol fuel lo hi h
  exact ⟨h1, h2, h3, bisect_lo_meets .., bisect_hi_fails .., bisect_width eff target tol fuel lo hi⟩

/-- with an antitone efficiency every feasible temperature of the bracket lies below `lo' + tol`:
    `lo'` is maximal within the tolerance -/
theorem bisect_maximal (eff : ℝ → ℝ) (target tol : ℝ) (fuel : ℕ) (lo hi : ℝ) (h : lo ≤ hi)
    (hanti : AntitoneOn eff (Set.Icc lo hi)) (hf : hi - lo ≤ tol * 2 ^ fuel)
    (t : ℝ) (ht : t ∈ Set.Icc lo hi) (hmeet : target ≤ eff t) :
    t ≤ (bisect eff target tol fuel lo hi).1 + tol ∧
      (t < (bisect eff target tol fuel lo hi).2 ∨ (bisect eff target tol fuel lo hi).2 = hi) := by
  obtain ⟨h1, h2, h3, _, h5, h6⟩ := bisect_post eff target tol fuel lo hi h
  have hw := h6 hf
  rcases h5 with h5 | h5
  · exact ⟨by linarith [ht.2], Or.inr h5⟩
  · have : t < (bisect eff target tol fuel lo hi).2 := by
      by_contra hc
      have := hanti ⟨by linarith, h3⟩ ht (not_lt.mp hc)
      linarith
    exact ⟨by linarith, Or.inl this⟩

/-- `lo'` is within `tol` of the supremum of the feasible set -/
theorem bisect_sSup (eff : ℝ → ℝ) (target tol : ℝ) (fuel : ℕ) (lo hi : ℝ) (h : lo ≤ hi)
    (hanti : AntitoneOn eff (Set.Icc lo hi)) (hf : hi - lo ≤ tol * 2 ^ fuel)
    (hlo : target ≤ eff lo) :
    let S := {t | t ∈ Set.Icc lo hi ∧ target ≤ eff t}
    (bisect eff target tol fuel lo hi).1 ∈ S ∧ (bisect eff target tol fuel lo hi).1 ≤ sSup S ∧
      sSup S ≤ (bisect eff target tol fuel lo hi).1 + tol := by
  intro S
  obtain ⟨h1, h2, h3, h4, _, _⟩ := bisect_post eff target tol fuel lo hi h
  have hmem : (bisect eff target tol fuel lo hi).1 ∈ S := by
    refine ⟨⟨h1, by linarith⟩, ?_⟩
    rcases h4 with h4 | h4
    · rw [h4]; exact hlo
    · exact h4
  have hbdd : BddAbove S := ⟨hi, fun t ht => ht.1.2⟩
  refine ⟨hmem, le_csSup hbdd hmem, csSup_le ⟨_, hmem⟩ ?_⟩
  intro t ht
  exact (bisect_maximal eff target tol fuel lo hi h hanti hf t ht.1 ht.2).1

/-! ### `determine_beta`, adaptive branch -/

/-- where the bisection starts: `1` when the full step already meets the target -/
noncomputable def lo0 (c : BetaCfg ℝ) (eff : ℝ → ℝ) (β : ℝ) : ℝ :=
  if currentTarget c β ≤ eff 1 then 1 else β

/-- `beta_min` when the `while` loop ends -/
noncomputable def betaStar0 (c : BetaCfg ℝ) (eff : ℝ → ℝ) (fuel : ℕ) (β : ℝ) : ℝ :=
  (bisect eff (currentTarget c β) c.tol fuel (lo0 c eff β) 1).1

/-- `beta_star`: the bisection result, or the smallest resolvable step when nothing was resolved -/
noncomputable def betaStar (c : BetaCfg ℝ) (eff : ℝ → ℝ) (fuel : ℕ) (β : ℝ) : ℝ :=
  if betaStar0 c eff fuel β ≤ β then min (β + c.tol) 1 else betaStar0 c eff fuel β

/-- the minimum step after the (optional) adaptation -/
noncomputable def newMinStep (c : BetaCfg ℝ) (eff : ℝ → ℝ) (fuel : ℕ) (β minStep : ℝ) : ℝ :=
  if c.adaptiveMinStep = true ∧ betaStar c eff fuel β < 1 then
    minStep * (1 - β) / (1 - betaStar c eff fuel β) else minStep

/-- closed form of the adaptive branch: it never raises and returns
    `min (max β* (β + min_step')) 1` -/
theorem determineBeta_adaptive (c : BetaCfg ℝ) (roundNat : ℝ → ℕ) (eff : ℝ → ℝ) (fuel : ℕ)
    (β step minStep : ℝ) (ha : c.adaptive = true) :
    determineBeta c roundNat eff fuel β step minStep =
      .ok (min (max (betaStar c eff fuel β) (β + newMinStep c eff fuel β minStep)) 1,
           newMinStep c eff fuel β minStep) := by
  simp only [determineBeta, ha, Bool.not_true, Bool.false_eq_true, if_false, minS_real, maxS_real,
    betaStar, betaStar0, lo0, newMinStep]
  rfl

theorem bisect_diag (eff : ℝ → ℝ) (target tol : ℝ) (fuel : ℕ) (x : ℝ) :
    bisect eff target tol fuel x x = (x, x) := by
  have h := bisect_bounds eff target tol fuel x x le_rfl
  ext
  · exact le_antisymm (by linarith [h.2.1, h.2.2]) h.1
  · exact le_antisymm h.2.2 (by linarith [h.1, h.2.1])

theorem betaStar0_le_one (c : BetaCfg ℝ) (eff : ℝ → ℝ) (fuel : ℕ) (β : ℝ) (hβ : β ≤ 1) :
    betaStar0 c eff fuel β ≤ 1 := by
  have hl : lo0 c eff β ≤ 1 := by unfold lo0; split <;> linarith
  have := bisect_bounds eff (currentTarget c β) c.tol fuel (lo0 c eff β) 1 hl
  unfold betaStar0; linarith [this.2.1, this.2.2]

theorem betaStar0_ge (c : BetaCfg ℝ) (eff : ℝ → ℝ) (fuel : ℕ) (β : ℝ) (hβ : β ≤ 1) :
    β ≤ betaStar0 c eff fuel β := by
  have hl : lo0 c eff β ≤ 1 := by unfold lo0; split <;> linarith
  have hl' : β ≤ lo0 c eff β := by unfold lo0; split <;> linarith
  have := bisect_bounds eff (currentTarget c β) c.tol fuel (lo0 c eff β) 1 hl
  unfold betaStar0; linarith [this.1]

theorem betaStar_le_one (c : BetaCfg ℝ) (eff : ℝ → ℝ) (fuel : ℕ) (β : ℝ) (hβ : β ≤ 1) :
    betaStar c eff fuel β ≤ 1 := by
  unfold betaStar; split
  · exact min_le_right _ _
  · exact betaStar0_le_one c eff fuel β hβ

/-- **3. `full_step_if_met`**: if the full step to `β = 1` meets the target in force, it is taken -/
theorem full_step_if_met (c : BetaCfg ℝ) (roundNat : ℝ → ℕ) (eff : ℝ → ℝ) (fuel : ℕ)
    (β step minStep : ℝ) (ha : c.adaptive = true) (hβ : β < 1)
    (hmet : currentTarget c β ≤ eff 1) :
    determineBeta c roundNat eff fuel β step minStep = .ok (1, minStep) := by
  have h0 : betaStar0 c eff fuel β = 1 := by
    simp only [betaStar0, lo0, if_pos hmet, bisect_diag]
  have h1 : betaStar c eff fuel β = 1 := by
    simp only [betaStar, h0, if_neg (not_le.mpr hβ)]
  have h2 : newMinStep c eff fuel β minStep = minStep := by
    simp only [newMinStep, h1, lt_irrefl, and_false, if_false]
  rw [determineBeta_adaptive _ _ _ _ _ _ _ ha, h1, h2, min_eq_right (le_max_left _ _)]

/-- **4. `meets_target`**: whenever the bisection resolved a step (`β < β*₀`), the target in
    force is met at `β*` by the incremental weights of the current population -/
theorem meets_target (c : BetaCfg ℝ) (eff : ℝ → ℝ) (fuel : ℕ) (β : ℝ)
    (hres : β < betaStar0 c eff fuel β) :
    betaStar c eff fuel β = betaStar0 c eff fuel β ∧ currentTarget c β ≤ eff (betaStar c eff fuel β) := by
  have hs : betaStar c eff fuel β = betaStar0 c eff fuel β := by
    simp only [betaStar, if_neg (not_le.mpr hres)]
  refine ⟨hs, ?_⟩
  rw [hs]
  by_cases hmet : currentTarget c β ≤ eff 1
  · have h0 : betaStar0 c eff fuel β = 1 := by simp only [betaStar0, lo0, if_pos hmet, bisect_diag]
    rw [h0]; exact hmet
  · have hl : lo0 c eff β = β := by simp only [lo0, if_neg hmet]
    rcases bisect_lo_meets eff (currentTarget c β) c.tol fuel (lo0 c eff β) 1 with h | h
    · exfalso; unfold betaStar0 at hres; rw [h, hl] at hres; exact lt_irrefl _ hres
    · exact h

/-- what the bisection result is in general: untouched, or a point meeting the target -/
theorem betaStar0_cases (c : BetaCfg ℝ) (eff : ℝ → ℝ) (fuel : ℕ) (β : ℝ) :
    betaStar0 c eff fuel β = β ∨ currentTarget c β ≤ eff (betaStar0 c eff fuel β) := by
  by_cases hmet : currentTarget c β ≤ eff 1
  · right
    have h0 : betaStar0 c eff fuel β = 1 := by simp only [betaStar0, lo0, if_pos hmet, bisect_diag]
    rw [h0]; exact hmet
  · have hl : lo0 c eff β = β := by simp only [lo0, if_neg hmet]
    have := bisect_lo_meets eff (currentTarget c β) c.tol fuel (lo0 c eff β) 1
    rw [hl] at this
    simpa only [betaStar0, hl] using this

/-- **5. `only_exception_is_floor`**: the returned temperature is `min (max β* (β + min_step')) 1`;
    if it differs from `β*` then the minimum-step floor was active and the result is the floor -/
theorem only_exception_is_floor (c : BetaCfg ℝ) (roundNat : ℝ → ℕ) (eff : ℝ → ℝ) (fuel : ℕ)
    (β step minStep β' m' : ℝ) (ha : c.adaptive = true) (hβ : β ≤ 1)
    (hr : determineBeta c roundNat eff fuel β step minStep = .ok (β', m')) :
    m' = newMinStep c eff fuel β minStep ∧
    β' = min (max (betaStar c eff fuel β) (β + m')) 1 ∧
    (β' ≠ betaStar c eff fuel β → betaStar c eff fuel β < β + m' ∧ β' = min (β + m') 1) := by
  rw [determineBeta_adaptive _ _ _ _ _ _ _ ha] at hr
  injection hr with hr
  injection hr with h1 h2
  subst h2
  refine ⟨rfl, h1.symm, ?_⟩
  intro hne
  have hs := betaStar_le_one c eff fuel β hβ
  rcases le_or_gt (β + newMinStep c eff fuel β minStep) (betaStar c eff fuel β) with hle | hlt
  · exfalso; apply hne
    rw [← h1, max_eq_left hle, min_eq_left hs]
  · refine ⟨hlt, ?_⟩
    rw [← h1, max_eq_right hlt.le]

/-! ### 1. the efficiency of the incremental weights is antitone in the trial temperature -/

/-- the unnormalised incremental log-weights are `(β' − β) · (log L + log π − log q)` -/
theorem unnormLogW_eq (β β' : ℝ) (ll lp lq : List ℝ) :
    unnormLogW β β' ll lp lq = (logW ll lp lq).map (fun w => (β' - β) * w) := by
  induction ll generalizing lp lq with
  | nil => simp [unnormLogW, logW]
  | cons a as ih =>
    cases lp with
    | nil => simp [unnormLogW, logW]
    | cons b bs =>
      cases lq with
      | nil => simp [unnormLogW, logW]
      | cons d ds =>
        simp only [unnormLogW, logW, List.map_cons, ih, unnorm1]
        congr 1; ring

/-- `effective_sample_size` is invariant under the constant that `log_weights` adds -/
theorem essOf_shift (lw : List ℝ) (r : ℝ) : essOf (lw.map (· + r)) = essOf lw := by
  by_cases h : lw = []
  · subst h; rfl
  · have h' : lw.map (· + r) ≠ [] := by simpa using h
    rw [C02.essOf_eq _ h', C02.essOf_eq _ h]
    have : lw.map (· + r) = lw.map (· - (-r)) := by
      apply List.map_congr_left; intro a _; ring
    rw [this, C02.ratio_shift]

/-- the population's log-weights as a function on `Fin n` -/
noncomputable def ellOf (ws : List ℝ) : Fin ws.length → ℝ := fun i => ws[i.1]

theorem sum_exp_scaled (ws : List ℝ) (t : ℝ) :
    ((ws.map fun w => t * w).map Real.exp).sum =
      ∑ i : Fin ws.length, Real.exp (t * ellOf ws i) := by
  rw [List.map_map]
  exact (Fin.sum_univ_fun_getElem ws (fun w => Real.exp (t * w))).symm

/-- `ESS(β → β')` is `exp (2 K(δ) − K(2δ))` with `δ = β' − β` and `K` the cumulant generating
    function of the population's log-weights -/
theorem essOf_scaled (ws : List ℝ) (h : ws ≠ []) (δ : ℝ) :
    essOf (ws.map fun w => δ * w) =
      Real.exp (EssAntitone.logEss Finset.univ (ellOf ws) δ) := by
  have h1 : (ws.map fun w => δ * w) ≠ [] := by simpa using h
  have h2 : ((ws.map fun w => δ * w).map fun v => v * (two : ℝ)) ≠ [] := by simpa using h
  simp only [essOf, exp_real]
  rw [logsumexp_eq _ h1, logsumexp_eq _ h2, sum_exp_scaled]
  have : ((ws.map fun w => δ * w).map fun v => v * (two : ℝ)) = ws.map fun w => (2 * δ) * w := by
    rw [List.map_map]; apply List.map_congr_left; intro a _; simp only [Function.comp, two_real]; ring
  rw [this, sum_exp_scaled, two_real]
  simp only [EssAntitone.logEss, EssAntitone.K]
  congr 1; ring

theorem effAt_eq (β β' : ℝ) (ll lp lq : List ℝ) (h : logW ll lp lq ≠ []) :
    effAt β β' ll lp lq =
      Real.exp (EssAntitone.logEss Finset.univ (ellOf (logW ll lp lq)) (β' - β))
        / ((logW ll lp lq).length : ℝ) := by
  simp only [effAt, logWeights]
  rw [essOf_shift, unnormLogW_eq, essOf_scaled _ h, List.length_map]

/-- **1. `ess_antitone`**: for every population (any log-likelihoods, log-priors, log-proposal
    densities) and `β ≤ a ≤ b`, moving further lowers the sample efficiency of the incremental
    weights: `ESS(β→b)/N ≤ ESS(β→a)/N`. -/
theorem ess_antitone (β a b : ℝ) (ll lp lq : List ℝ) (ha : β ≤ a) (hab : a ≤ b) :
    effAt β b ll lp lq ≤ effAt β a ll lp lq := by
  by_cases h : logW ll lp lq = []
  · have : ∀ t, effAt β t ll lp lq = 0 := by
      intro t
      simp only [effAt, unnormLogW_eq, h, List.map_nil, List.length_nil, Nat.cast_zero, div_zero]
    rw [this, this]
  · rw [effAt_eq _ _ _ _ _ h, effAt_eq _ _ _ _ _ h]
    have hn : (0 : ℝ) < ((logW ll lp lq).length : ℝ) := by
      exact_mod_cast List.length_pos_iff.mpr h
    have hne : (Finset.univ : Finset (Fin (logW ll lp lq).length)).Nonempty := by
      have : 0 < (logW ll lp lq).length := List.length_pos_iff.mpr h
      exact ⟨⟨0, this⟩, Finset.mem_univ _⟩
    apply div_le_div_of_nonneg_right _ hn.le
    apply Real.exp_le_exp.mpr
    exact EssAntitone.logEss_antitone _ _ hne (by linarith) (by linarith)

theorem effAt_antitoneOn (β : ℝ) (ll lp lq : List ℝ) :
    AntitoneOn (fun t => effAt β t ll lp lq) (Set.Icc β 1) :=
  fun _ ha _ _ hab => ess_antitone β _ _ ll lp lq ha.1 hab

/-- no move, no loss: at `β' = β` all incremental weights are equal and the efficiency is 1 -/
theorem effAt_self (β : ℝ) (ll lp lq : List ℝ) (h : logW ll lp lq ≠ []) :
    effAt β β ll lp lq = 1 := by
  rw [effAt_eq _ _ _ _ _ h]
  have hn : (0 : ℝ) < ((logW ll lp lq).length : ℝ) := by
    exact_mod_cast List.length_pos_iff.mpr h
  simp only [EssAntitone.logEss, EssAntitone.K, sub_self, mul_zero, zero_mul, Real.exp_zero,
    Finset.sum_const, Finset.card_univ, Fintype.card_fin, nsmul_eq_mul, mul_one]
  rw [show 2 * Real.log ((logW ll lp lq).length : ℝ) - Real.log ((logW ll lp lq).length : ℝ)
      = Real.log ((logW ll lp lq).length : ℝ) by ring, Real.exp_log hn, div_self hn.ne']

/-! ### 6. the target in force -/

/-- the model's power function is the real power on non-negative bases -/
theorem powS_eq_rpow (b r : ℝ) (hb : 0 ≤ b) : powS b r = b ^ r := by
  unfold powS
  by_cases hr : r = 1
  · subst hr
    simp
  · rw [if_pos (lt_or_gt_of_ne hr)]
    rcases eq_or_lt_of_le hb with h0 | hpos
    · subst h0
      rw [if_neg (by simp)]
      by_cases hr0 : r = 0
      · subst hr0; simp
      · rw [if_pos (lt_or_gt_of_ne hr0), Real.zero_rpow hr0]
    · rw [if_pos (Or.inr hpos), exp_real, log_real, Real.rpow_def_of_pos hpos, mul_comm]

/-- **6. `target_in_force`**: the target used by `determine_beta` at temperature `β` is the scalar,
    or for a ramp `lo + (hi − lo) · β ^ rate` -/
theorem target_in_force (c : BetaCfg ℝ) (β : ℝ) (hβ : 0 ≤ β) :
    currentTarget c β =
      if c.ramp = true then c.targetLo + (c.targetHi - c.targetLo) * β ^ c.rate else c.targetLo := by
  unfold currentTarget
  rw [powS_eq_rpow _ _ hβ]

theorem target_in_force_linear (c : BetaCfg ℝ) (β : ℝ) (hramp : c.ramp = true) (hrate : c.rate = 1) :
    currentTarget c β = c.targetLo + (c.targetHi - c.targetLo) * β := by
  simp [currentTarget, hramp, powS, hrate]

/-- a ramp between two values in `[0, 1]` stays between them for `β ∈ [0, 1]`, `rate ≥ 0` -/
theorem target_between (c : BetaCfg ℝ) (β : ℝ) (hβ : 0 ≤ β) (hβ1 : β ≤ 1) (hrate : 0 ≤ c.rate)
    (hramp : c.ramp = true) (hle : c.targetLo ≤ c.targetHi) :
    c.targetLo ≤ currentTarget c β ∧ currentTarget c β ≤ c.targetHi := by
  rw [target_in_force c β hβ, if_pos hramp]
  have h0 : 0 ≤ β ^ c.rate := Real.rpow_nonneg hβ _
  have h1 : β ^ c.rate ≤ 1 := Real.rpow_le_one hβ hβ1 hrate
  constructor <;> nlinarith

/-! ### the headline statement -/

/-- the temperatures of `[β, 1]` at which the incremental weights keep the target in force -/
def feasible (c : BetaCfg ℝ) (eff : ℝ → ℝ) (β : ℝ) : Set ℝ :=
  {t | t ∈ Set.Icc β 1 ∧ currentTarget c β ≤ eff t}

/-- `β*` (the value returned unless the minimum-step floor intervenes) is within the tolerance
    of the largest feasible temperature, for every antitone efficiency curve; and it is itself
    feasible whenever the bisection resolved a step. -/
theorem betaStar_within_tol (c : BetaCfg ℝ) (eff : ℝ → ℝ) (fuel : ℕ) (β : ℝ) (hβ : β < 1)
    (htol : 0 < c.tol) (hanti : AntitoneOn eff (Set.Icc β 1)) (hfuel : 1 - β ≤ c.tol * 2 ^ fuel)
    (hself : currentTarget c β ≤ eff β) :
    sSup (feasible c eff β) - c.tol ≤ betaStar c eff fuel β ∧
      betaStar c eff fuel β ≤ sSup (feasible c eff β) + c.tol ∧
      (β < betaStar0 c eff fuel β → betaStar c eff fuel β ∈ feasible c eff β ∧
        betaStar c eff fuel β ≤ sSup (feasible c eff β)) := by
  have hbdd : BddAbove (feasible c eff β) := ⟨1, fun t ht => ht.1.2⟩
  by_cases hmet : currentTarget c β ≤ eff 1
  · have h0 : betaStar0 c eff fuel β = 1 := by
      simp only [betaStar0, lo0, if_pos hmet, bisect_diag]
    have h1 : betaStar c eff fuel β = 1 := by
      simp only [betaStar, h0, if_neg (not_le.mpr hβ)]
    have hmem : (1 : ℝ) ∈ feasible c eff β := ⟨⟨hβ.le, le_rfl⟩, hmet⟩
    have hs : sSup (feasible c eff β) = 1 :=
      le_antisymm (csSup_le ⟨1, hmem⟩ fun t ht => ht.1.2) (le_csSup hbdd hmem)
    rw [h1, hs]
    exact ⟨by linarith, by linarith, fun _ => ⟨hmem, le_rfl⟩⟩
  · have hl : lo0 c eff β = β := by simp only [lo0, if_neg hmet]
    obtain ⟨hmem, hle, hge⟩ := bisect_sSup eff (currentTarget c β) c.tol fuel β 1 hβ.le hanti hfuel hself
    have h0 : betaStar0 c eff fuel β = (bisect eff (currentTarget c β) c.tol fuel β 1).1 := by
      simp only [betaStar0, hl]
    rw [← h0] at hmem hle hge
    change betaStar0 c eff fuel β ∈ feasible c eff β at hmem
    change betaStar0 c eff fuel β ≤ sSup (feasible c eff β) at hle
    change sSup (feasible c eff β) ≤ betaStar0 c eff fuel β + c.tol at hge
    by_cases hres : betaStar0 c eff fuel β ≤ β
    · have hs : betaStar c eff fuel β = min (β + c.tol) 1 := by simp only [betaStar, if_pos hres]
      have hb : β ≤ betaStar0 c eff fuel β := hmem.1.1
      have h1 : sSup (feasible c eff β) ≤ 1 := csSup_le ⟨_, hmem⟩ fun t ht => ht.1.2
      rw [hs]
      refine ⟨?_, ?_, fun h => absurd h (not_lt.mpr hres)⟩
      · have : sSup (feasible c eff β) ≤ min (β + c.tol) 1 := le_min (by linarith) h1
        linarith
      · exact le_trans (min_le_left _ _) (by linarith)
    · have hs : betaStar c eff fuel β = betaStar0 c eff fuel β := by simp only [betaStar, if_neg hres]
      rw [hs]
      exact ⟨by linarith, by linarith, fun _ => ⟨hmem, hle⟩⟩

/-- **C07, assembled**: for an antitone efficiency curve with `eff β ≥ target` (true for the real
    ESS, see `effAt_antitoneOn`, `effAt_self`), every adaptive call of `determine_beta` returns
    `β' = 1` if the full step meets the target in force; and otherwise either `β' = β*`, which is
    within `tol` of the largest temperature meeting the target (and meets it when resolved), or
    the minimum-step floor `min (β + min_step') 1 > β*`. -/
theorem adaptive_step_spec (c : BetaCfg ℝ) (roundNat : ℝ → ℕ) (eff : ℝ → ℝ) (fuel : ℕ)
    (β step minStep β' m' : ℝ) (ha : c.adaptive = true) (hβ : β < 1) (htol : 0 < c.tol)
    (hanti : AntitoneOn eff (Set.Icc β 1)) (hfuel : 1 - β ≤ c.tol * 2 ^ fuel)
    (hself : currentTarget c β ≤ eff β)
    (hr : determineBeta c roundNat eff fuel β step minStep = .ok (β', m')) :
    (currentTarget c β ≤ eff 1 → β' = 1) ∧
    ((β' = betaStar c eff fuel β ∧ |β' - sSup (feasible c eff β)| ≤ c.tol ∧
        (β < betaStar0 c eff fuel β → currentTarget c β ≤ eff β'))
      ∨ (betaStar c eff fuel β < β + m' ∧ β' = min (β + m') 1)) := by
  constructor
  · intro hmet
    rw [full_step_if_met c roundNat eff fuel β step minStep ha hβ hmet] at hr
    injection hr with hr; injection hr with h1 _; exact h1.symm
  · obtain ⟨_, _, h3⟩ := only_exception_is_floor c roundNat eff fuel β step minStep β' m' ha hβ.le hr
    by_cases he : β' = betaStar c eff fuel β
    · left
      obtain ⟨h1, h2, h4⟩ := betaStar_within_tol c eff fuel β hβ htol hanti hfuel hself
      refine ⟨he, ?_, ?_⟩
      · rw [he, abs_le]; constructor <;> linarith
      · intro hres; rw [he]; exact (h4 hres).1.2
    · right; exact h3 he

/-- the same for the real population efficiency `effAt` (every population of log-likelihoods,
    log-priors and log-proposal densities, scalar or ramped target `≤ 1`) -/
theorem adaptive_step_spec_effAt (c : BetaCfg ℝ) (roundNat : ℝ → ℕ) (ll lp lq : List ℝ) (fuel : ℕ)
    (β step minStep β' m' : ℝ) (ha : c.adaptive = true) (hβ : β < 1) (htol : 0 < c.tol)
    (hne : logW ll lp lq ≠ []) (hfuel : 1 - β ≤ c.tol * 2 ^ fuel)
    (htarget : currentTarget c β ≤ 1)
    (hr : determineBeta c roundNat (fun t => effAt β t ll lp lq) fuel β step minStep = .ok (β', m')) :
    (currentTarget c β ≤ effAt β 1 ll lp lq → β' = 1) ∧
    ((β' = betaStar c (fun t => effAt β t ll lp lq) fuel β ∧
        |β' - sSup (feasible c (fun t => effAt β t ll lp lq) β)| ≤ c.tol ∧
        (β < betaStar0 c (fun t => effAt β t ll lp lq) fuel β →
          currentTarget c β ≤ effAt β β' ll lp lq))
      ∨ (betaStar c (fun t => effAt β t ll lp lq) fuel β < β + m' ∧ β' = min (β + m') 1)) :=
  adaptive_step_spec c roundNat (fun t => effAt β t ll lp lq) fuel β step minStep β' m' ha hβ htol
    (effAt_antitoneOn β ll lp lq) hfuel (by simp only [effAt_self β ll lp lq hne]; exact htarget) hr

/-! ### non-vacuity -/

/-- a concrete configuration: scalar target 1/2, tolerance 1/4 -/
noncomputable def cfgEx : BetaCfg ℝ :=
  { adaptive := true, adaptiveMinStep := false, tol := 1 / 4, targetLo := 1 / 2, targetHi := 1 / 2,
    ramp := false, rate := 1 }

/-- with the antitone curve `eff t = 1 − t` the bisection from `(0, 1)` accepts `1/2`, rejects
    `3/4`, and stops: the call returns `β' = 1/2 = sup {t | eff t ≥ 1/2}` -/
example (roundNat : ℝ → ℕ) :
    determineBeta cfgEx roundNat (fun t => 1 - t) 2 0 0 0 = .ok (1 / 2, 0) := by
  simp only [determineBeta, cfgEx, currentTarget, bisect, half_real, minS_real, maxS_real]
  norm_num

/-- the hypotheses of `adaptive_step_spec` hold for that instance -/
example : AntitoneOn (fun t : ℝ => 1 - t) (Set.Icc 0 1) ∧ (1 : ℝ) - 0 ≤ cfgEx.tol * 2 ^ 2 ∧
    currentTarget cfgEx 0 ≤ (fun t : ℝ => 1 - t) 0 := by
  refine ⟨fun a _ b _ hab => by simp only; linarith, by norm_num [cfgEx], by norm_num [currentTarget, cfgEx]⟩

/-- a two-particle population for `ess_antitone` / `effAt_self` -/
example : logW [0, 1] [0, 0] [0, 0] ≠ ([] : List ℝ) := by simp [logW]

/-- the ramped target is really evaluated at the current temperature -/
example : currentTarget { cfgEx with ramp := true, targetLo := 1 / 4, targetHi := 3 / 4 } (1 / 2) = 1 / 2 := by
  rw [target_in_force_linear _ _ rfl rfl]; norm_num [cfgEx]

end C07
