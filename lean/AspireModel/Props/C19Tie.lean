import AspireModel.Gen.SrcCtx
import AspireModel.Props.C19
/-
  C19 — the property's theorems for the TRANSLATION of the two context managers (`Gen/SrcCtx.lean`: `PoolHandler.__enter__`,
  `__exit__`, and the prologue and `finally:` block of `Aspire.auto_checkpoint`, regenerated from `/repo`'s source on every run),
  composed by the semantics of Python's `with` statement (`execSrc`: enter, body, exit/finally on EVERY exit path, the exception
  propagates because `__exit__` returns nothing), at every nesting depth and every position of a `raise`; and agreement with the
  hand-written model `Model.exec` on everything but the numbering of fresh callable tokens.  Core Lean only.
-/
namespace C19
open Model Gen

def toInst (s : CtxInst) : Inst :=
  { ll := s.log_likelihood, lp := s.log_prior, defaults := s._checkpoint_defaults, fresh := s.fresh }

/-- the handler `enable_pool(pool id, close_pool, parallelize_prior)` builds, in an environment where `faulty id` says whether
    the pool's `close()` / `join()` raise -/
def hOf (faulty : Nat → Bool × Bool) (id : Nat) (close par : Bool) : PoolH :=
  { pool := some id, close_pool := close, parallelize_prior := par,
    close_raises := (faulty id).1, join_raises := (faulty id).2 }

/-- programs run on the translated handlers; `faulty id` says whether `close()` / `join()` of pool `id` raise.  An exception
    raised by `__exit__` leaves the `with` statement like one raised by the body. -/
def execSrcF (faulty : Nat → Bool × Bool) : Prog → CtxInst → Bool × CtxInst × List PoolEv
  | .act, s => (false, s, [])
  | .touch, s =>
    (false, { s with _checkpoint_defaults :=
      s._checkpoint_defaults.map fun d => { d with savedConfig := true, savedFlow := true } }, [])
  | .raise, s => (true, s, [])
  | .obs, s => (false, s, [PoolEv.seen (toInst s)])
  | .seq a b, s =>
    let (r, s1, l1) := execSrcF faulty a s
    if r then (true, s1, l1)
    else
      let (r2, s2, l2) := execSrcF faulty b s1
      (r2, s2, l1 ++ l2)
  | .pool id close par body, s =>
    let e := Gen.pool_enter (hOf faulty id close par) s
    let (r, s2, l) := execSrcF faulty body e.2.1
    let x := Gen.pool_exit e.1 s2
    (r || x.2.2, x.1, l ++ x.2.1)
  | .auto path every sc sf body, s =>
    let e := Gen.auto_enter path every sc sf s
    let (r, s2, l) := execSrcF faulty body e.2
    (r, Gen.auto_finally e.1 s2, l)

/-- programs run on the translated handlers, every pool shutting down cleanly -/
def execSrc : Prog → CtxInst → Bool × CtxInst × List PoolEv
  | .act, s => (false, s, [])
  | .touch, s =>
    (false, { s with _checkpoint_defaults :=
      s._checkpoint_defaults.map fun d => { d with savedConfig := true, savedFlow := true } }, [])
  | .raise, s => (true, s, [])
  | .obs, s => (false, s, [PoolEv.seen (toInst s)])
  | .seq a b, s =>
    let (r, s1, l1) := execSrc a s
    if r then (true, s1, l1)
    else
      let (r2, s2, l2) := execSrc b s1
      (r2, s2, l1 ++ l2)
  | .pool id close par body, s =>
    let e := Gen.pool_enter { pool := some id, close_pool := close, parallelize_prior := par } s
    let (r, s2, l) := execSrc body e.2.1
    let x := Gen.pool_exit e.1 s2
    (r, x.1, l ++ x.2.1)
  | .auto path every sc sf body, s =>
    let e := Gen.auto_enter path every sc sf s
    let (r, s2, l) := execSrc body e.2
    (r, Gen.auto_finally e.1 s2, l)

/-! ### what the translated pieces do -/

theorem pool_enter_spec (id : Nat) (close par : Bool) (s : CtxInst) :
    Gen.pool_enter { pool := some id, close_pool := close, parallelize_prior := par } s =
      ({ pool := some id, close_pool := close, parallelize_prior := par,
         original_log_likelihood := s.log_likelihood, original_log_prior := s.log_prior },
       { s with log_likelihood := s.fresh, log_prior := if par then s.fresh + 1 else s.log_prior,
                fresh := if par then s.fresh + 2 else s.fresh + 1 },
       some id) := by
  unfold Gen.pool_enter
  cases par <;> rfl

/-- `__exit__` puts the saved callables back BEFORE it shuts the pool down: whatever the pool does (no pool at all, `close()` or
    `join()` raising), the instance leaves `__exit__` with the callables saved by `__enter__` -/
theorem pool_exit_restores_always (h : PoolH) (s : CtxInst) :
    (Gen.pool_exit h s).1.log_likelihood = h.original_log_likelihood ∧
    (Gen.pool_exit h s).1.log_prior = h.original_log_prior ∧
    (Gen.pool_exit h s).1._checkpoint_defaults = s._checkpoint_defaults := by
  unfold Gen.pool_exit
  cases h.close_pool <;> simp

theorem pool_enter_saves (h : PoolH) (s : CtxInst) :
    (Gen.pool_enter h s).1.original_log_likelihood = s.log_likelihood ∧
    (Gen.pool_enter h s).1.original_log_prior = s.log_prior ∧
    (Gen.pool_enter h s).2.1._checkpoint_defaults = s._checkpoint_defaults := by
  unfold Gen.pool_enter
  cases h.pool <;> cases h.parallelize_prior <;> simp

theorem pool_exit_spec (id : Nat) (close par : Bool) (a b : Nat) (s : CtxInst) :
    Gen.pool_exit { pool := some id, close_pool := close, parallelize_prior := par,
                    original_log_likelihood := a, original_log_prior := b } s =
      ({ s with log_likelihood := a, log_prior := b },
       (if close then [PoolEv.close id, PoolEv.join id] else []), false) := by
  unfold Gen.pool_exit
  cases close <;> rfl

theorem auto_enter_spec (path every : Nat) (sc sf : Bool) (s : CtxInst) :
    Gen.auto_enter path every sc sf s =
      (s._checkpoint_defaults,
       { s with _checkpoint_defaults := some { path := path, every := every, saveConfig := sc, saveFlow := sf } }) := rfl

theorem auto_finally_spec (prev : Option Defaults) (s : CtxInst) :
    Gen.auto_finally prev s = { s with _checkpoint_defaults := prev } := by
  unfold Gen.auto_finally
  cases prev with
  | none =>
    rcases s with ⟨a, b, d, f⟩
    cases d <;> rfl
  | some d => rfl

/-! ### the property, for the translated source -/

/-- likelihood and prior of the instance are the same objects after ANY program as before it, whether or not an exception
    escapes, at every nesting depth -/
theorem src_callables_restored (p : Prog) (s : CtxInst) :
    (execSrc p s).2.1.log_likelihood = s.log_likelihood ∧ (execSrc p s).2.1.log_prior = s.log_prior := by
  induction p generalizing s with
  | act => simp [execSrc]
  | touch => simp [execSrc]
  | raise => simp [execSrc]
  | obs => simp [execSrc]
  | seq a b iha ihb =>
    simp only [execSrc]
    rcases h : execSrc a s with ⟨r, s1, l1⟩
    have ha := iha s; rw [h] at ha
    cases r with
    | true => simpa using ha
    | false =>
      rcases h2 : execSrc b s1 with ⟨r2, s2, l2⟩
      have hb := ihb s1; rw [h2] at hb
      simp only [Bool.false_eq_true, ↓reduceIte]
      exact ⟨hb.1.trans ha.1, hb.2.trans ha.2⟩
  | pool id close par body _ =>
    simp [execSrc, pool_enter_spec, pool_exit_spec]
  | auto path every sc sf body ih =>
    simp only [execSrc, auto_enter_spec, auto_finally_spec]
    have := ih { s with _checkpoint_defaults := some { path := path, every := every, saveConfig := sc, saveFlow := sf } }
    exact this

/-- **also when a pool's own shutdown raises** (`close()` or `join()` of any pool, any combination): likelihood and prior are
    the same objects after any program as before it -/
theorem src_callables_restored_faulty (faulty : Nat → Bool × Bool) (p : Prog) (s : CtxInst) :
    (execSrcF faulty p s).2.1.log_likelihood = s.log_likelihood ∧ (execSrcF faulty p s).2.1.log_prior = s.log_prior := by
  induction p generalizing s with
  | act => simp [execSrcF]
  | touch => simp [execSrcF]
  | raise => simp [execSrcF]
  | obs => simp [execSrcF]
  | seq a b iha ihb =>
    simp only [execSrcF]
    rcases h : execSrcF faulty a s with ⟨r, s1, l1⟩
    have ha := iha s; rw [h] at ha
    cases r with
    | true => simpa using ha
    | false =>
      rcases h2 : execSrcF faulty b s1 with ⟨r2, s2, l2⟩
      have hb := ihb s1; rw [h2] at hb
      simp only [Bool.false_eq_true, ↓reduceIte]
      exact ⟨hb.1.trans ha.1, hb.2.trans ha.2⟩
  | pool id close par body _ =>
    simp only [execSrcF]
    have hx := pool_exit_restores_always (Gen.pool_enter (hOf faulty id close par) s).1
      (execSrcF faulty body (Gen.pool_enter (hOf faulty id close par) s).2.1).2.1
    have he := pool_enter_saves (hOf faulty id close par) s
    exact ⟨hx.1.trans he.1, hx.2.1.trans he.2.1⟩
  | auto path every sc sf body ih =>
    simp only [execSrcF, auto_enter_spec, auto_finally_spec]
    exact ih _

/-- a failing shutdown makes the `with` statement raise, and the second of close/join is not attempted after the first failed -/
theorem src_faulty_shutdown_raises (id : Nat) (par : Bool) (body : Prog) (s : CtxInst) (faulty : Nat → Bool × Bool)
    (hf : (faulty id).1 = true ∨ (faulty id).2 = true) :
    (execSrcF faulty (.pool id true par body) s).1 = true := by
  simp only [execSrcF]
  have : (Gen.pool_exit (Gen.pool_enter (hOf faulty id true par) s).1
      (execSrcF faulty body (Gen.pool_enter (hOf faulty id true par) s).2.1).2.1).2.2 = true := by
    unfold Gen.pool_exit Gen.pool_enter hOf
    rcases hf with h | h
    · cases par <;> simp [h]
    · cases (faulty id).1 <;> cases par <;> simp [h]
  simp [this]

/-- leaving the automatic-checkpoint context restores the checkpoint defaults to exactly what they were on entry (their
    absence included), for every body, normally or through an exception -/
theorem src_auto_restores (path every : Nat) (sc sf : Bool) (body : Prog) (s : CtxInst) :
    (execSrc (.auto path every sc sf body) s).2.1._checkpoint_defaults = s._checkpoint_defaults := by
  simp only [execSrc, auto_enter_spec, auto_finally_spec]

/-- defaults are untouched by any program that only touches them inside its own contexts -/
theorem src_defaults_restored (p : Prog) (hp : Guarded p) (s : CtxInst) :
    (execSrc p s).2.1._checkpoint_defaults = s._checkpoint_defaults := by
  induction p generalizing s with
  | act => simp [execSrc]
  | touch => exact absurd hp (by simp [Guarded])
  | raise => simp [execSrc]
  | obs => simp [execSrc]
  | seq a b iha ihb =>
    simp only [execSrc]
    rcases h : execSrc a s with ⟨r, s1, l1⟩
    have ha := iha hp.1 s; rw [h] at ha
    cases r with
    | true => simpa using ha
    | false =>
      rcases h2 : execSrc b s1 with ⟨r2, s2, l2⟩
      have hb := ihb hp.2 s1; rw [h2] at hb
      simp only [Bool.false_eq_true, ↓reduceIte]
      exact hb.trans ha
  | pool id close par body ih =>
    simp only [execSrc, pool_enter_spec, pool_exit_spec]
    exact ih hp _
  | auto path every sc sf body _ => exact src_auto_restores path every sc sf body s

/-- the events of a pool context end with close+join of that pool iff `close_pool`, also when the body raises -/
theorem src_closed_if_asked (id : Nat) (close par : Bool) (body : Prog) (s : CtxInst) :
    (execSrc (.pool id close par body) s).2.2 =
      (execSrc body (Gen.pool_enter { pool := some id, close_pool := close, parallelize_prior := par } s).2.1).2.2
        ++ (if close then [PoolEv.close id, PoolEv.join id] else []) := by
  simp only [execSrc, pool_enter_spec, pool_exit_spec]

/-- the exception propagates: a pool or checkpoint context does not swallow what its body raised, and raises nothing itself -/
theorem src_exception_propagates (p body : Prog) (s : CtxInst)
    (hp : (∃ id c par, p = .pool id c par body) ∨ ∃ pa ev sc sf, p = .auto pa ev sc sf body) :
    ∃ s1, (execSrc p s).1 = (execSrc body s1).1 := by
  rcases hp with ⟨id, c, par, rfl⟩ | ⟨pa, ev, sc, sf, rfl⟩
  · exact ⟨(Gen.pool_enter { pool := some id, close_pool := c, parallelize_prior := par } s).2.1, by simp only [execSrc]⟩
  · exact ⟨(Gen.auto_enter pa ev sc sf s).2, by simp only [execSrc]⟩

/-! ### agreement with the hand-written model on everything but the numbering of fresh tokens -/

def isCloseJoin : PoolEv → Bool
  | .close _ => true
  | .join _ => true
  | .seen _ => false

theorem src_agrees_with_model (p : Prog) :
    ∀ (s : CtxInst) (m : Inst), s._checkpoint_defaults = m.defaults →
      (execSrc p s).1 = (exec p m).1 ∧ (execSrc p s).2.1._checkpoint_defaults = (exec p m).2.1.defaults ∧
      (execSrc p s).2.2.filter isCloseJoin = (exec p m).2.2.filter isCloseJoin := by
  induction p with
  | act => intro s m h; simp [execSrc, exec, h]
  | touch => intro s m h; simp [execSrc, exec, h]
  | raise => intro s m h; simp [execSrc, exec, h]
  | obs => intro s m h; simp [execSrc, exec, h, isCloseJoin]
  | seq a b iha ihb =>
    intro s m h
    simp only [execSrc, exec]
    rcases hs : execSrc a s with ⟨r, s1, l1⟩
    rcases hm : exec a m with ⟨r', m1, k1⟩
    have ha := iha s m h; rw [hs, hm] at ha
    obtain ⟨rfl, hd, hl⟩ : r = r' ∧ s1._checkpoint_defaults = m1.defaults ∧ l1.filter isCloseJoin = k1.filter isCloseJoin := ha
    cases r with
    | true => exact ⟨rfl, hd, hl⟩
    | false =>
      rcases hs2 : execSrc b s1 with ⟨r2, s2, l2⟩
      rcases hm2 : exec b m1 with ⟨r2', m2, k2⟩
      have hb := ihb s1 m1 hd; rw [hs2, hm2] at hb
      simp only [Bool.false_eq_true, ↓reduceIte, List.filter_append]
      exact ⟨hb.1, hb.2.1, by rw [hl, hb.2.2]⟩
  | pool id close par body ih =>
    intro s m h
    simp only [execSrc, exec, pool_enter_spec, pool_exit_spec]
    have := ih { s with log_likelihood := s.fresh, log_prior := if par then s.fresh + 1 else s.log_prior,
                        fresh := if par then s.fresh + 2 else s.fresh + 1 }
      { m with ll := m.fresh, lp := if par then m.fresh + 1 else m.lp, fresh := m.fresh + 2 } h
    refine ⟨this.1, this.2.1, ?_⟩
    simp only [List.filter_append, this.2.2]
  | auto path every sc sf body ih =>
    intro s m h
    simp only [execSrc, exec, auto_enter_spec, auto_finally_spec]
    have := ih { s with _checkpoint_defaults := some { path := path, every := every, saveConfig := sc, saveFlow := sf } }
      { m with defaults := some { path := path, every := every, saveConfig := sc, saveFlow := sf } } rfl
    exact ⟨this.1, h, this.2.2⟩

/-! ### non-vacuity: the example program of `C19.lean`, run on the translated handlers -/
example : execSrc exProg { log_likelihood := 0, log_prior := 1, _checkpoint_defaults := none, fresh := 2 } =
    (true, { log_likelihood := 0, log_prior := 1, _checkpoint_defaults := none, fresh := 5 },
     [.seen { ll := 4, lp := 3, defaults := some { path := 1, every := 2, saveConfig := true, saveFlow := true,
                                                    savedConfig := true, savedFlow := true }, fresh := 5 },
      .close 8, .join 8]) := by decide

end C19
