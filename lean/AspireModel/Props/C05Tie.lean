import AspireModel.Props.C05
import AspireModel.Lemmas.TieLists
import AspireModel.Gen.SrcTarget
/-
  C05, tie to the source: `SMCSamples.log_p_t`, the statement of `SMCSampler.log_prob` that forms the kernel
  target, and the one of `MCMCSampler.log_prob`, as translated from `/repo` on every run
  (`Gen/SrcSmcSamples.lean`, `Gen/SrcTarget.lean`), are the model's `logPt`, `smcTarget`, `mcmcTarget`
  applied row by row.  The NaN -> -inf map of `log_prob` (`update_at_indices(..., isnan, -inf)`) is not
  translated (no NaN in the scalar interface); it is the `nanToNegInf` of the model, validated behaviourally.
-/
set_option linter.unusedSectionVars false
namespace C05
open Model

section generic
variable {α : Type} [Num α] [DecidableLT α] [DecidableLE α]

/-- source of `SMCSamples.log_p_t` = `(1-β) log q + β (log L + log π)` on every row -/
theorem tie_log_p_t (β0 β : α) (ll lp lq : List α) (n : Nat) :
    Gen.log_p_t β0 ll lp lq n β = Gen.map3 (fun l p q => Model.logPt β q l p) ll lp lq := by
  unfold Gen.log_p_t
  induction ll generalizing lp lq with
  | nil => simp [Gen.map3]
  | cons a as ih => cases lp <;> cases lq <;> simp_all [Gen.map3, Model.logPt]

/-- the kernel target statement of `SMCSampler.log_prob`: tempered density plus log-Jacobian, row by row;
    with the NaN map applied to a NaN-free value it is `Model.smcTarget` -/
theorem tie_smc_kernel_target (negInf β0 β : α) (ll lp lq j : List α) (n i : Nat)
    (h1 : ll.length = lp.length) (h2 : lp.length = lq.length) (h3 : lq.length = j.length) (hi : i < ll.length) :
    (Gen.smc_kernel_target β0 ll lp lq n β j)[i]? =
      some (Model.smcTarget (fun _ => false) negInf β (lq[i]'(by omega)) ll[i] (lp[i]'(by omega)) (j[i]'(by omega))) := by
  have hl := Tie.map3_length (fun l p q => Model.logPt β q l p) ll lp lq h1 h2
  simp only [Gen.smc_kernel_target, tie_log_p_t, Model.smcTarget, Model.nanToNegInf]
  rw [List.getElem?_eq_getElem (by simp [hl]; omega)]
  simp only [List.getElem_zipWith, Bool.false_eq_true, if_false]
  rw [Tie.map3_getElem _ _ _ _ i (by omega) hi (by omega) (by omega)]

theorem tie_mcmc_kernel_target (ll lp j : List α) (i : Nat)
    (h1 : ll.length = lp.length) (h2 : lp.length = j.length) (hi : i < ll.length) :
    (Gen.mcmc_kernel_target ll lp j)[i]? =
      some (Model.mcmcTarget ll[i] (lp[i]'(by omega)) (j[i]'(by omega))) := by
  have hl := Tie.map3_length (fun l p q : α => ((l + p) + q)) ll lp j h1 h2
  simp only [Gen.mcmc_kernel_target, Model.mcmcTarget]
  rw [List.getElem?_eq_getElem (by omega)]
  rw [Tie.map3_getElem _ _ _ _ i (by omega) hi (by omega) (by omega)]

end generic

/-- the C05 formula, for the translated source: entry `i` of what the kernel is handed -/
theorem src_smc_target_formula (β0 β : ℝ) (ll lp lq j : List ℝ) (n i : Nat)
    (h1 : ll.length = lp.length) (h2 : lp.length = lq.length) (h3 : lq.length = j.length) (hi : i < ll.length) :
    (Gen.smc_kernel_target β0 ll lp lq n β j)[i]? =
      some ((1 - β) * (lq[i]'(by omega)) + β * (ll[i] + (lp[i]'(by omega))) + (j[i]'(by omega))) := by
  rw [tie_smc_kernel_target 0 β0 β ll lp lq j n i h1 h2 h3 hi, smc_target_formula]

example : ([1] : List ℝ).length = ([2] : List ℝ).length ∧ 0 < ([1] : List ℝ).length := by simp

end C05
