import AspireModel.Model.Tempering
import AspireModel.Model.Rows
import AspireModel.Lemmas.Real
import AspireModel.Props.C02
import AspireModel.Props.C16
/-
  C09 — each resampling step draws every new particle with probability proportional to its
  incremental weight for the temperature move, every drawn particle is an exact copy of one
  source row, and the result carries the new temperature and the requested size.

  Model: `Model/Tempering.lean` (`unnormLogW`, `logWeights`, `resampleP` = the vector `p` that
  `SMCSamples.resample` hands to `rng.choice`) and `Model/Rows.lean` (`select` = the fancy
  indexing `self.x[idx]`, `self.log_likelihood[idx]`, …).  The random stream enters only through
  the index list `idx` returned by `rng.choice(N, size=n_samples, p=p)`; the row statements hold
  for every such list, hence for every stream.
-/
namespace C09
open Model

/-! ## 1. the probability vector -/

/-- incremental weights of the move `β → β'`: `w_i = exp((β' − β)(log L_i + log π_i − log q_i))` -/
noncomputable def incW (β β' : ℝ) (ll lp lq : List ℝ) : List ℝ :=
  (logW ll lp lq).map fun v => Real.exp ((β' - β) * v)

/-- the unnormalised log incremental weights are `(β' − β) · (log L + log π − log q)`, row by row -/
theorem unnormLogW_eq (β β' : ℝ) (ll lp lq : List ℝ) :
    unnormLogW β β' ll lp lq = (logW ll lp lq).map fun v => (β' - β) * v := by
  induction ll generalizing lp lq with
  | nil => simp [unnormLogW, logW]
  | cons a as ih =>
    cases lp with
    | nil => simp [unnormLogW, logW]
    | cons b bs =>
      cases lq with
      | nil => simp [unnormLogW, logW]
      | cons c cs =>
        simp only [unnormLogW, logW, List.map_cons, ih bs cs, unnorm1]
        congr 1; ring

theorem incW_eq (β β' : ℝ) (ll lp lq : List ℝ) :
    incW β β' ll lp lq = ((logW ll lp lq).map fun v => (β' - β) * v).map Real.exp := by
  simp [incW, List.map_map, Function.comp_def]

/-- normalising is invariant under a common non-zero factor -/
theorem norm_scale (ws : List ℝ) (k : ℝ) (hk : k ≠ 0) :
    (ws.map (k * ·)).map (· / (ws.map (k * ·)).sum) = ws.map (· / ws.sum) := by
  rw [List.sum_map_mul_left, List.map_id', List.map_map]
  apply List.map_congr_left
  intro a _
  simp only [Function.comp]
  exact mul_div_mul_left a _ hk

theorem map_exp_sub (xs : List ℝ) (c : ℝ) :
    (xs.map fun v => Real.exp (v - c)) = (xs.map Real.exp).map (Real.exp (-c) * ·) := by
  rw [List.map_map]
  apply List.map_congr_left
  intro a _
  simp only [Function.comp]
  rw [sub_eq_add_neg, Real.exp_add, mul_comm]

theorem map_exp_add (xs : List ℝ) (c : ℝ) :
    ((xs.map (· + c)).map Real.exp) = (xs.map Real.exp).map (Real.exp c * ·) := by
  rw [List.map_map, List.map_map]
  apply List.map_congr_left
  intro a _
  simp only [Function.comp]
  rw [Real.exp_add, mul_comm]

/-- **the vector handed to `rng.choice` is the normalised incremental weights**:
    `p = w / Σ_j w_j` with `w_i = exp((β' − β)(log L_i + log π_i − log q_i))`.
    The log-evidence ratio that `log_weights` *adds*, the `logsumexp` that `resample` subtracts
    and the second renormalisation are all common factors and cancel.  Holds for every
    population (any sizes, even empty or ragged: both sides truncate alike) and every `β, β'`. -/
theorem resampleP_eq_list (β β' : ℝ) (ll lp lq : List ℝ) :
    resampleP β β' ll lp lq = (incW β β' ll lp lq).map (· / (incW β β' ll lp lq).sum) := by
  simp only [resampleP, logWeights, exp_real, sumL_eq_sum]
  rw [map_exp_sub, norm_scale _ _ (Real.exp_pos _).ne', map_exp_add,
    norm_scale _ _ (Real.exp_pos _).ne', unnormLogW_eq, ← incW_eq]

theorem incW_length (β β' : ℝ) (ll lp lq : List ℝ) :
    (incW β β' ll lp lq).length = (logW ll lp lq).length := by simp [incW]

theorem resampleP_length' (β β' : ℝ) (ll lp lq : List ℝ) :
    (resampleP β β' ll lp lq).length = (logW ll lp lq).length := by
  rw [resampleP_eq_list]; simp [incW]

/-- one probability per particle -/
theorem resampleP_length (β β' : ℝ) (ll lp lq : List ℝ)
    (h1 : ll.length = lp.length) (h2 : lp.length = lq.length) :
    (resampleP β β' ll lp lq).length = ll.length := by
  rw [resampleP_length', C02.logW_length ll lp lq h1 h2]

/-- **entry-wise form**: `p_i = w_i / Σ_j w_j`, `w_i` the incremental weight of row `i` (its own
    `log L_i`, `log π_i`, `log q_i`) -/
theorem resampleP_eq (β β' : ℝ) (ll lp lq : List ℝ)
    (h1 : ll.length = lp.length) (h2 : lp.length = lq.length)
    (i : Nat) (hi : i < ll.length) :
    (resampleP β β' ll lp lq)[i]'(by rw [resampleP_length β β' ll lp lq h1 h2]; exact hi)
      = Real.exp ((β' - β) * (ll[i] + lp[i]'(h1 ▸ hi) - lq[i]'(h2 ▸ h1 ▸ hi)))
          / (incW β β' ll lp lq).sum := by
  have hl := C02.logW_length ll lp lq h1 h2
  simp only [resampleP_eq_list, incW, List.getElem_map]
  rw [C02.logW_get ll lp lq i (by rw [hl]; exact hi) hi (h1 ▸ hi) (h2 ▸ h1 ▸ hi)]

theorem incW_pos (β β' : ℝ) (ll lp lq : List ℝ) : ∀ w ∈ incW β β' ll lp lq, 0 < w := by
  intro w hw
  obtain ⟨a, _, rfl⟩ := List.mem_map.mp hw
  exact Real.exp_pos _

theorem incW_sum_pos (β β' : ℝ) (ll lp lq : List ℝ) (h : logW ll lp lq ≠ []) :
    0 < (incW β β' ll lp lq).sum := by
  rw [incW_eq]
  exact sum_exp_pos _ (by simpa using h)

/-- every particle has a strictly positive probability of being drawn -/
theorem resampleP_pos (β β' : ℝ) (ll lp lq : List ℝ) (h : logW ll lp lq ≠ []) :
    ∀ p ∈ resampleP β β' ll lp lq, 0 < p := by
  intro p hp
  rw [resampleP_eq_list] at hp
  obtain ⟨w, hw, rfl⟩ := List.mem_map.mp hp
  exact div_pos (incW_pos β β' ll lp lq w hw) (incW_sum_pos β β' ll lp lq h)

/-- the probabilities sum to one (what `rng.choice` requires) -/
theorem resampleP_sum_one (β β' : ℝ) (ll lp lq : List ℝ) (h : logW ll lp lq ≠ []) :
    (resampleP β β' ll lp lq).sum = 1 := by
  rw [resampleP_eq_list]
  have hs := incW_sum_pos β β' ll lp lq h
  simp only [div_eq_mul_inv]
  rw [List.sum_map_mul_right, List.map_id']
  exact mul_inv_cancel₀ hs.ne'

theorem logW_ne_nil (ll lp lq : List ℝ) (h1 : ll.length = lp.length) (h2 : lp.length = lq.length)
    (h : ll ≠ []) : logW ll lp lq ≠ [] := by
  intro e
  have := C02.logW_length ll lp lq h1 h2
  rw [e] at this
  exact h (List.length_eq_zero_iff.mp this.symm)

/-- proportionality, stated without the normaliser: `p_i · w_k = p_k · w_i` for all rows `i, k` -/
theorem resampleP_proportional (β β' : ℝ) (ll lp lq : List ℝ)
    (i k : Nat) (hi : i < (incW β β' ll lp lq).length) (hk : k < (incW β β' ll lp lq).length) :
    (resampleP β β' ll lp lq)[i]'(by rw [resampleP_length', ← incW_length β β']; exact hi)
        * (incW β β' ll lp lq)[k]
      = (resampleP β β' ll lp lq)[k]'(by rw [resampleP_length', ← incW_length β β']; exact hk)
        * (incW β β' ll lp lq)[i] := by
  simp only [resampleP_eq_list, List.getElem_map]
  ring

/-! ### invariance under a constant offset of the log-likelihood / log-proposal -/

theorem logW_shift_ll (ll lp lq : List ℝ) (c : ℝ) :
    logW (ll.map (· + c)) lp lq = (logW ll lp lq).map (· + c) := by
  induction ll generalizing lp lq with
  | nil => simp [logW]
  | cons a as ih =>
    cases lp with
    | nil => simp [logW]
    | cons b bs =>
      cases lq with
      | nil => simp [logW]
      | cons d ds =>
        simp only [logW, List.map_cons, ih bs ds]
        congr 1; ring

theorem logW_shift_lq (ll lp lq : List ℝ) (c : ℝ) :
    logW ll lp (lq.map (· + c)) = (logW ll lp lq).map (· + -c) := by
  induction ll generalizing lp lq with
  | nil => simp [logW]
  | cons a as ih =>
    cases lp with
    | nil => simp [logW]
    | cons b bs =>
      cases lq with
      | nil => simp [logW]
      | cons d ds =>
        simp only [logW, List.map_cons, ih bs ds]
        congr 1; ring

theorem norm_of_logW_shift (β β' : ℝ) (lw : List ℝ) (c : ℝ) :
    let w := fun l : List ℝ => l.map fun v => Real.exp ((β' - β) * v)
    (w (lw.map (· + c))).map (· / (w (lw.map (· + c))).sum) = (w lw).map (· / (w lw).sum) := by
  intro w
  have : w (lw.map (· + c)) = (w lw).map (Real.exp ((β' - β) * c) * ·) := by
    simp only [w, List.map_map]
    apply List.map_congr_left
    intro a _
    simp only [Function.comp]
    rw [mul_add, Real.exp_add, mul_comm]
  rw [this, norm_scale _ _ (Real.exp_pos _).ne']

/-- **adding a constant to every log-likelihood leaves the resampling probabilities unchanged** -/
theorem resampleP_shift_invariant (β β' : ℝ) (ll lp lq : List ℝ) (c : ℝ) :
    resampleP β β' (ll.map (· + c)) lp lq = resampleP β β' ll lp lq := by
  rw [resampleP_eq_list, resampleP_eq_list]
  simp only [incW, logW_shift_ll]
  exact norm_of_logW_shift β β' _ c

/-- … and so does adding a constant to every `log q` (an unnormalised proposal density) -/
theorem resampleP_shift_invariant_q (β β' : ℝ) (ll lp lq : List ℝ) (c : ℝ) :
    resampleP β β' ll lp (lq.map (· + c)) = resampleP β β' ll lp lq := by
  rw [resampleP_eq_list, resampleP_eq_list]
  simp only [incW, logW_shift_lq]
  exact norm_of_logW_shift β β' _ (-c)

/-! ## 2. the resampled population -/

section rows
variable {X V : Type}

/-- `SMCSamples.resample` after the draw: gather the rows `idx` and set the new temperature
    (exactly the driver's `{ select essFn evFn idx p with beta := some b }`; for `cls = .smc` the
    `essFn` / `evFn` arguments of `select` are not used). -/
def resampleRows (b : V) (idx : List Nat) (S : SampleSet X V) : SampleSet X V :=
  { select (fun _ => b) id idx S with beta := some b }

theorem evOK_id : C16.EvOK (id : SampleSet X V → SampleSet X V) := by
  intro T; simp

/-- for an SMC population `select` ignores its two hook arguments -/
theorem select_smc_irrelevant (essFn essFn' : List V → V) (evFn evFn' : SampleSet X V → SampleSet X V)
    (idx : List Nat) (S : SampleSet X V) (hc : S.cls = .smc) :
    select essFn evFn idx S = select essFn' evFn' idx S := by
  simp [select, hc]

/-- the resampled population **carries the new temperature** -/
theorem resampleRows_beta (b : V) (idx : List Nat) (S : SampleSet X V) :
    (resampleRows b idx S).beta = some b := rfl

/-- … is still an SMC population -/
theorem resampleRows_cls (b : V) (idx : List Nat) (S : SampleSet X V) (hc : S.cls = .smc) :
    (resampleRows b idx S).cls = .smc := by
  simp [resampleRows, select, selBase, hc]

/-- … and **has the requested size** (`idx.length = n_samples`) -/
theorem resampleRows_size (b : V) (idx : List Nat) (S : SampleSet X V)
    (hidx : ∀ i ∈ idx, i < S.x.length) : (resampleRows b idx S).x.length = idx.length :=
  C16.select_size (fun _ => b) id evOK_id idx S hidx

/-- an SMC population as `SMCSamples` builds it: well-formed, no `Samples`-only weight columns -/
def SmcOK (S : SampleSet X V) : Prop := WF S ∧ S.cls = .smc ∧ S.logW = none ∧ S.weights = none

/-- **every drawn particle is an exact copy of one source row**: row `j` of the result is row
    `idx[j]` of the source — coordinates, log-likelihood, log-prior and log-proposal together. -/
theorem rows_copied (b : V) (idx : List Nat) (S : SampleSet X V) (hS : SmcOK S)
    (hidx : ∀ i ∈ idx, i < S.x.length) (j : Nat) (hj : j < idx.length) :
    rowAt (resampleRows b idx S) j = rowAt S idx[j] := by
  obtain ⟨hwf, hc, hw, hwt⟩ := hS
  have := C16.select_refines (fun _ => b) id evOK_id idx S hwf hidx
    (by intro h; rw [hc] at h; cases h) (fun _ => ⟨hw, hwt⟩) j hj
  rw [← this]; rfl

/-- the four per-particle fields spelled out, for populations with all three density columns -/
theorem rows_copied_fields (b : V) (idx : List Nat) (S : SampleSet X V) (hS : SmcOK S)
    (hidx : ∀ i ∈ idx, i < S.x.length) (j : Nat) (hj : j < idx.length) :
    (resampleRows b idx S).x[j]? = S.x[idx[j]]? ∧
    colAt (resampleRows b idx S).ll j = colAt S.ll idx[j] ∧
    colAt (resampleRows b idx S).lp j = colAt S.lp idx[j] ∧
    colAt (resampleRows b idx S).lq j = colAt S.lq idx[j] := by
  have h := rows_copied b idx S hS hidx j hj
  have hi : idx[j] < S.x.length := hidx _ (List.getElem_mem hj)
  have hj' : j < (resampleRows b idx S).x.length := by
    rw [resampleRows_size b idx S hidx]; exact hj
  simp only [rowAt, List.getElem?_eq_getElem hi, List.getElem?_eq_getElem hj', Option.map_some,
    Option.some.injEq, Row.mk.injEq] at h
  obtain ⟨h1, h2, h3, h4, _⟩ := h
  exact ⟨by rw [List.getElem?_eq_getElem hi, List.getElem?_eq_getElem hj', h1], h2, h3, h4⟩

/-- the result is again a well-formed SMC population (so the step can be iterated) -/
theorem resampleRows_ok (b : V) (idx : List Nat) (S : SampleSet X V) (hS : SmcOK S)
    (hidx : ∀ i ∈ idx, i < S.x.length) : SmcOK (resampleRows b idx S) := by
  obtain ⟨⟨w1, w2, w3, _, _⟩, hc, hw, hwt⟩ := hS
  have hx : (resampleRows b idx S).x = pick idx S.x := by simp [resampleRows, select, selBase, hc]
  have hcol : ∀ c : Option (List V), colOK S.x.length c → colOK (pick idx S.x).length (pickO idx c) := by
    intro c hcok l hl
    cases c with
    | none => simp [pickO] at hl
    | some l0 =>
      simp only [pickO, Option.map_some, Option.some.injEq] at hl
      subst hl
      rw [C16.pick_length idx S.x hidx, C16.pick_length idx l0 (by rw [hcok l0 rfl]; exact hidx)]
  refine ⟨⟨?_, ?_, ?_, ?_, ?_⟩, resampleRows_cls b idx S hc, ?_, ?_⟩
  · rw [hx]; simpa [resampleRows, select, selBase, hc] using hcol S.ll w1
  · rw [hx]; simpa [resampleRows, select, selBase, hc] using hcol S.lp w2
  · rw [hx]; simpa [resampleRows, select, selBase, hc] using hcol S.lq w3
  · simp [resampleRows, select, selBase, hc, colOK]
  · simp [resampleRows, select, selBase, hc, colOK]
  · simp [resampleRows, select, selBase, hc]
  · simp [resampleRows, select, selBase, hc]

end rows

/-! ## non-vacuity -/

-- two particles with log-weights 0 and log 3 at β: 0 → 1: probabilities 1/4 and 3/4
example : resampleP (0 : ℝ) 1 [0, Real.log 3] [0, 0] [0, 0] = [1/4, 3/4] := by
  rw [resampleP_eq_list]
  simp [incW, logW, Real.exp_log]
  norm_num

example : logW [0, Real.log 3] [0, 0] [0, 0] ≠ [] := by simp [logW]

def exS : SampleSet Nat Int :=
  { cls := .smc, x := [10, 20, 30], ll := some [1, 2, 3], lp := some [4, 5, 6], lq := some [7, 8, 9],
    beta := some 0 }
example : SmcOK exS := by simp [SmcOK, WF, colOK, exS]
example : ∀ i ∈ [2, 2, 0, 1], i < exS.x.length := by decide
example : rowAt (resampleRows 1 [2, 2, 0, 1] exS) 1
    = some { x := 30, ll := some 3, lp := some 6, lq := some 9, logW := none, weight := none } := by
  rw [rows_copied 1 [2, 2, 0, 1] exS (by simp [SmcOK, WF, colOK, exS]) (by decide) 1 (by decide)]
  simp [rowAt, exS, colAt]
example : (resampleRows 1 [2, 2, 0, 1] exS).x.length = 4 := by
  rw [resampleRows_size _ _ _ (by decide)]; rfl

end C09
