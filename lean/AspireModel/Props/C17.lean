import AspireModel.Model.Eval
import AspireModel.Model.Rows
import AspireModel.Props.C10
/-
  C17 — whenever the user's log-likelihood is called, the sample set it receives already carries
  the log-prior of exactly those points; the reported number of likelihood evaluations equals the
  total number of points the likelihood was asked to evaluate.
  Model: `Model/Eval.lean` (`evalLP`, `evalP`, `drawInitial`, `runCalls`; the observable is the
  event list of `EvalState`).  Core Lean only; `L`, `π`, `q` arbitrary functions `X → V`.
-/
namespace C17
open Model
variable {X V : Type}

/-- the events one evaluation request appends -/
def callEvents1 (π : X → V) : Call X → List (Event X V)
  | .priorOnly xs => [Event.prior xs]
  | .full xs _ => [Event.prior xs, Event.like xs (some (xs.map π))]
  | .likeCarried xs => [Event.like xs (some (xs.map π))]

/-- the events a sequence of requests appends -/
def callEvents (π : X → V) (cs : List (Call X)) : List (Event X V) := cs.flatMap (callEvents1 π)

/-- number of points the user's likelihood was asked to evaluate in an event list -/
def likePts : List (Event X V) → Nat
  | [] => 0
  | Event.prior _ :: rest => likePts rest
  | Event.like pts _ :: rest => pts.length + likePts rest

/-- every likelihood call in the event list received the prior of exactly its points -/
def PriorAttached (π : X → V) (evs : List (Event X V)) : Prop :=
  ∀ pts att, Event.like pts att ∈ evs → att = some (pts.map π)

theorem likePts_append (a b : List (Event X V)) : likePts (a ++ b) = likePts a + likePts b := by
  induction a with
  | nil => simp [likePts]
  | cons e rest ih =>
    cases e with
    | prior pts => simp only [List.cons_append, likePts, ih]
    | like pts att => simp only [List.cons_append, likePts, ih]; omega

/-! ### 12. single steps -/

theorem evalLP_events (π L : X → V) (st : EvalState X V) (xs : List X) (lq : Option (List V)) :
    (evalLP π L st xs lq).1.events =
      st.events ++ [Event.prior xs, Event.like xs (some (xs.map π))] := rfl

theorem evalLP_counter (π L : X → V) (st : EvalState X V) (xs : List X) (lq : Option (List V)) :
    (evalLP π L st xs lq).1.counter = st.counter + xs.length := rfl

/-- the set the likelihood was shown is the set that is returned: its prior column is the attached one -/
theorem evalLP_attached_is_stored (π L : X → V) (st : EvalState X V) (xs : List X)
    (lq : Option (List V)) :
    (evalLP π L st xs lq).2.lp = some (xs.map π) ∧ (evalLP π L st xs lq).2.x = xs := ⟨rfl, rfl⟩

theorem evalP_events (π : X → V) (st : EvalState X V) (xs : List X) :
    (evalP π st xs).1.events = st.events ++ [Event.prior xs] ∧
    (evalP π st xs).1.counter = st.counter ∧ (evalP π st xs).2 = xs.map π := ⟨rfl, rfl, rfl⟩

theorem reevaluate_events (π L q : X → V) (st : EvalState X V) (xs : List X) :
    (reevaluate π L q st xs).1.events =
      st.events ++ [Event.prior xs, Event.like xs (some (xs.map π))] ∧
    (reevaluate π L q st xs).1.counter = st.counter + xs.length := ⟨rfl, rfl⟩

theorem targetEval_events (π L q : X → V) (st : EvalState X V) (xs : List X) :
    (targetEval π L q st xs).1.events =
      st.events ++ [Event.prior xs, Event.like xs (some (xs.map π))] ∧
    (targetEval π L q st xs).1.counter = st.counter + xs.length := ⟨rfl, rfl⟩

/-! ### the event trace of a sequence of requests -/

/-- the trace is append-only and determined by the requests -/
theorem runCalls_events (π L q : X → V) (st : EvalState X V) (cs : List (Call X)) :
    (runCalls π L q st cs).events = st.events ++ callEvents π cs := by
  induction cs generalizing st with
  | nil => simp [runCalls, callEvents]
  | cons c rest ih =>
    cases c with
    | priorOnly xs =>
      rw [runCalls, ih]
      simp [evalP, callEvents, callEvents1, List.append_assoc]
    | full xs wq =>
      rw [runCalls, ih]
      simp [evalLP, callEvents, callEvents1, List.append_assoc]
    | likeCarried xs =>
      rw [runCalls, ih]
      simp [callEvents, callEvents1, List.append_assoc]

theorem callEvents_cons (π : X → V) (c : Call X) (cs : List (Call X)) :
    callEvents π (c :: cs) = callEvents1 π c ++ callEvents π cs := by
  simp [callEvents]

theorem callEvents_append (π : X → V) (a b : List (Call X)) :
    callEvents π (a ++ b) = callEvents π a ++ callEvents π b := by
  simp [callEvents]

/-! ### 8. the prior is attached at every likelihood call -/

theorem callEvents_attached (π : X → V) (cs : List (Call X)) : PriorAttached π (callEvents π cs) := by
  intro pts att h
  simp only [callEvents, List.mem_flatMap] at h
  obtain ⟨c, _, hc⟩ := h
  cases c with
  | priorOnly xs => simp [callEvents1] at hc
  | full xs wq =>
    simp only [callEvents1, List.mem_cons, List.not_mem_nil, or_false, reduceCtorEq, false_or,
      Event.like.injEq] at hc
    obtain ⟨rfl, rfl⟩ := hc; rfl
  | likeCarried xs =>
    simp only [callEvents1, List.mem_singleton, Event.like.injEq] at hc
    obtain ⟨rfl, rfl⟩ := hc; rfl

/-- **whenever the likelihood is called, the set it receives carries `π` of exactly those points** —
    for every sequence of evaluation requests a sampler can make, from every state whose earlier
    events already satisfy this -/
theorem runCalls_prior_attached (π L q : X → V) (st : EvalState X V) (cs : List (Call X))
    (h : PriorAttached π st.events) : PriorAttached π (runCalls π L q st cs).events := by
  intro pts att hm
  rw [runCalls_events] at hm
  rcases List.mem_append.mp hm with hm | hm
  · exact h pts att hm
  · exact callEvents_attached π cs pts att hm

theorem runCalls_prior_attached_fresh (π L q : X → V) (cs : List (Call X)) :
    PriorAttached π (runCalls π L q {} cs).events :=
  runCalls_prior_attached π L q {} cs (by intro pts att h; cases h)

/-! ### 9. the counter is exact -/

/-- **the counter grows by exactly the number of points handed to the likelihood** -/
theorem runCalls_count_exact (π L q : X → V) (st : EvalState X V) (cs : List (Call X)) :
    (runCalls π L q st cs).counter = st.counter + likePts (callEvents π cs) := by
  induction cs generalizing st with
  | nil => simp [runCalls, callEvents, likePts]
  | cons c rest ih =>
    rw [callEvents_cons, likePts_append]
    cases c with
    | priorOnly xs =>
      rw [runCalls, ih]; simp [evalP, callEvents1, likePts]
    | full xs wq =>
      rw [runCalls, ih]; simp only [evalLP, callEvents1, likePts]; omega
    | likeCarried xs =>
      rw [runCalls, ih]; simp only [callEvents1, likePts]; omega

/-- relative form: counter difference = points of the `like` events added -/
theorem runCalls_count_events (π L q : X → V) (st : EvalState X V) (cs : List (Call X)) :
    (runCalls π L q st cs).counter + likePts st.events =
      st.counter + likePts (runCalls π L q st cs).events := by
  rw [runCalls_count_exact, runCalls_events, likePts_append]; omega

/-- from a fresh sampler: `n_likelihood_evaluations` = total number of points in all likelihood calls -/
theorem runCalls_count_fresh (π L q : X → V) (cs : List (Call X)) :
    (runCalls π L q {} cs).counter = likePts (runCalls π L q {} cs).events := by
  have := runCalls_count_events π L q {} cs
  simpa [likePts] using this

/-- the invariant form: if the counter matches the trace before, it matches after -/
theorem runCalls_count_inv (π L q : X → V) (st : EvalState X V) (cs : List (Call X))
    (h : st.counter = likePts st.events) :
    (runCalls π L q st cs).counter = likePts (runCalls π L q st cs).events := by
  have := runCalls_count_events π L q st cs; omega

/-! ### 10. in a full evaluation the prior call comes first, on the same points -/

theorem runCalls_full_events (π L q : X → V) (st : EvalState X V) (xs : List X) (wq : Bool) :
    (runCalls π L q st [.full xs wq]).events =
      st.events ++ [Event.prior xs, Event.like xs (some (xs.map π))] := rfl

theorem runCalls_full_cons (π L q : X → V) (st : EvalState X V) (xs : List X) (wq : Bool)
    (rest : List (Call X)) :
    (runCalls π L q st (.full xs wq :: rest)).events =
      st.events ++ [Event.prior xs, Event.like xs (some (xs.map π))] ++ callEvents π rest := by
  rw [runCalls_events, callEvents_cons, List.append_assoc]; rfl

/-- **every likelihood call is immediately preceded by the prior call on the same points**, the
    only exception being the single call that ends the initial draw (`likeCarried`), whose set
    carries the prior computed during the rejection loop -/
theorem runCalls_prior_precedes (π : X → V) (cs : List (Call X)) (i : Nat) (pts : List X)
    (att : Option (List V)) (h : (callEvents π cs)[i]? = some (Event.like pts att)) :
    (∃ j, i = j + 1 ∧ (callEvents π cs)[j]? = some (Event.prior pts)) ∨ Call.likeCarried pts ∈ cs := by
  induction cs generalizing i with
  | nil => simp [callEvents] at h
  | cons c rest ih =>
    rw [callEvents_cons] at h ⊢
    cases c with
    | priorOnly xs =>
      simp only [callEvents1, List.singleton_append] at h ⊢
      cases i with
      | zero => simp at h
      | succ i' =>
        simp only [List.getElem?_cons_succ] at h
        rcases ih i' h with ⟨j, hj, hp⟩ | hm
        · exact Or.inl ⟨j + 1, by omega, by simpa using hp⟩
        · exact Or.inr (List.mem_cons_of_mem _ hm)
    | full xs wq =>
      simp only [callEvents1, List.cons_append, List.nil_append] at h ⊢
      cases i with
      | zero => simp at h
      | succ i' =>
        cases i' with
        | zero =>
          simp only [List.getElem?_cons_succ, List.getElem?_cons_zero, Option.some.injEq,
            Event.like.injEq] at h
          obtain ⟨rfl, _⟩ := h
          exact Or.inl ⟨0, rfl, rfl⟩
        | succ i'' =>
          simp only [List.getElem?_cons_succ] at h
          rcases ih i'' h with ⟨j, hj, hp⟩ | hm
          · exact Or.inl ⟨j + 2, by omega, by simpa using hp⟩
          · exact Or.inr (List.mem_cons_of_mem _ hm)
    | likeCarried xs =>
      simp only [callEvents1, List.singleton_append] at h ⊢
      cases i with
      | zero =>
        simp only [List.getElem?_cons_zero, Option.some.injEq, Event.like.injEq] at h
        obtain ⟨rfl, _⟩ := h
        exact Or.inr List.mem_cons_self
      | succ i' =>
        simp only [List.getElem?_cons_succ] at h
        rcases ih i' h with ⟨j, hj, hp⟩ | hm
        · exact Or.inl ⟨j + 1, by omega, by simpa using hp⟩
        · exact Or.inr (List.mem_cons_of_mem _ hm)

/-- for samplers that only make full evaluations (importance sampler, kernel targets, `mutate`) -/
theorem runCalls_prior_precedes_full (π : X → V) (cs : List (Call X))
    (hfull : ∀ c ∈ cs, ∃ xs wq, c = Call.full xs wq) (i : Nat) (pts : List X)
    (att : Option (List V)) (h : (callEvents π cs)[i]? = some (Event.like pts att)) :
    ∃ j, i = j + 1 ∧ (callEvents π cs)[j]? = some (Event.prior pts) := by
  rcases runCalls_prior_precedes π cs i pts att h with h | h
  · exact h
  · obtain ⟨xs, wq, he⟩ := hfull _ h; cases he

/-! ### 11. the initial draw -/

/-- the requests `draw_initial_samples` makes: one prior-only evaluation per batch drawn, then a
    single likelihood call on the kept rows -/
def drawCalls (batches : List (List (X × V))) (used : Nat) (kept : List X) : List (Call X) :=
  (batches.take used).map (fun b => Call.priorOnly (b.map (·.1))) ++ [Call.likeCarried kept]

theorem callEvents_priorOnly (π : X → V) (bs : List (List (X × V))) :
    callEvents π (bs.map (fun b => Call.priorOnly (b.map (·.1)))) =
      bs.map (fun b => (Event.prior (b.map (·.1)) : Event X V)) := by
  induction bs with
  | nil => rfl
  | cons b rest ih => rw [List.map_cons, callEvents_cons, ih]; rfl

/-- **the initial draw emits only `prior` events for the batches used, then exactly one `like`
    event on the kept rows with `π` of those rows attached; the counter grows by exactly `n`** -/
theorem drawInitial_events (finite : V → Bool) (π L : X → V) (n : Nat)
    (batches : List (List (X × V))) (st st' : EvalState X V) (S : SampleSet X V)
    (h : drawInitial finite π L n batches st = some (st', S)) :
    ∃ rows used, drawInitialRows finite π n batches [] 0 = some (rows, used) ∧
      S.x = rows.map (·.1) ∧
      st'.events = st.events ++ (batches.take used).map (fun b => Event.prior (b.map (·.1)))
        ++ [Event.like S.x (some (S.x.map π))] ∧
      st'.counter = st.counter + n ∧ S.x.length = n ∧ S.lp = some (S.x.map π) := by
  unfold drawInitial at h
  cases hd : drawInitialRows finite π n batches [] 0 with
  | none => rw [hd] at h; cases h
  | some ru =>
    obtain ⟨rows, used⟩ := ru
    rw [hd] at h
    simp only [Option.some.injEq, Prod.mk.injEq] at h
    obtain ⟨rfl, rfl⟩ := h
    obtain ⟨hlen, _, _, hrow, _, _, _⟩ := C10.drawInitialRows_spec finite π n batches rows used hd
    have hp : rows.map (·.2.2) = (rows.map (·.1)).map π := by
      rw [List.map_map]
      apply List.map_congr_left
      intro r hr
      obtain ⟨x, lq, lp⟩ := r
      exact (hrow x lq lp hr).1
    refine ⟨rows, used, rfl, rfl, ?_, ?_, ?_, ?_⟩
    · simp only [hp]
    · simp only [List.length_map, hlen]
    · simp only [List.length_map, hlen]
    · simp only [hp]

/-- the initial draw is an instance of `runCalls`: everything proved about request sequences
    (prior attached, exact count) applies to it -/
theorem drawInitial_eq_runCalls (finite : V → Bool) (π L q : X → V) (n : Nat)
    (batches : List (List (X × V))) (st st' : EvalState X V) (S : SampleSet X V)
    (h : drawInitial finite π L n batches st = some (st', S)) :
    ∃ used, used ≤ batches.length ∧ st' = runCalls π L q st (drawCalls batches used S.x) := by
  obtain ⟨rows, used, hd, hx, hev, hc, hlen, _⟩ := drawInitial_events finite π L n batches st st' S h
  obtain ⟨_, hu, _⟩ := C10.drawInitialRows_spec finite π n batches rows used hd
  refine ⟨used, hu, ?_⟩
  have e1 : (runCalls π L q st (drawCalls batches used S.x)).events = st'.events := by
    rw [runCalls_events, hev, drawCalls, callEvents_append, callEvents_priorOnly, List.append_assoc]
    rfl
  have e2 : (runCalls π L q st (drawCalls batches used S.x)).counter = st'.counter := by
    rw [runCalls_count_exact, hc, drawCalls, callEvents_append, callEvents_priorOnly,
      likePts_append]
    have : ∀ bs : List (List (X × V)),
        likePts (bs.map (fun b => (Event.prior (b.map (·.1)) : Event X V))) = 0 := by
      intro bs; induction bs with
      | nil => rfl
      | cons b r ih => simpa [likePts] using ih
    rw [this]
    simp only [callEvents, List.flatMap_cons, List.flatMap_nil, List.append_nil, callEvents1, likePts]
    omega
  cases st' with
  | mk c e =>
    cases hr : runCalls π L q st (drawCalls batches used S.x) with
    | mk c' e' =>
      rw [hr] at e1 e2
      simp only at e1 e2
      rw [e1, e2]

/-- the likelihood of the initial draw is only ever shown finite-prior points: out-of-prior draws
    are rejected before the likelihood is called -/
theorem drawInitial_like_finite (finite : V → Bool) (π L q : X → V) (n : Nat)
    (batches : List (List (X × V))) (st st' : EvalState X V) (S : SampleSet X V)
    (hq : ∀ b ∈ batches, ∀ p ∈ b, p.2 = q p.1)
    (h : drawInitial finite π L n batches st = some (st', S)) :
    ∃ pre, st'.events = st.events ++ pre ++ [Event.like S.x (some (S.x.map π))] ∧
      likePts pre = 0 ∧ ∀ x ∈ S.x, finite (π x) = true := by
  obtain ⟨rows, used, _, _, hev, _⟩ := drawInitial_events finite π L n batches st st' S h
  refine ⟨_, hev, ?_, (C10.drawInitial_coherent finite L π q n batches st st' S hq h).2.2.2.2.2.2⟩
  generalize batches.take used = bs
  induction bs with
  | nil => rfl
  | cons b r ih => simpa [likePts] using ih

/-! ### non-vacuity -/

def exCalls : List (Call Nat) :=
  [.priorOnly [3, 4, 6], .priorOnly [5, 9, 7, 8], .likeCarried [4, 5, 7], .full [1, 2] true, .full [7] false]

example : (runCalls C10.exPi C10.exL C10.exQ {} exCalls).counter = 6 := by decide
example : likePts (runCalls C10.exPi C10.exL C10.exQ {} exCalls).events = 6 := by decide
example : (runCalls C10.exPi C10.exL C10.exQ {} exCalls).events.length = 7 := by decide
example : (runCalls C10.exPi C10.exL C10.exQ {} [.full [1, 2] true]).events =
    [Event.prior [1, 2], Event.like [1, 2] (some [1, 2])] := rfl
example : (drawInitial C10.exFin C10.exPi C10.exL 3 C10.exBatches {}).map (·.1.counter) = some 3 := by
  decide
example : (drawInitial C10.exFin C10.exPi C10.exL 3 C10.exBatches {}).map (·.1.events.length) = some 3 := by
  decide
/-- the invariant is not trivially true: a trace with a wrong attached prior violates it -/
example : ¬ PriorAttached C10.exPi [Event.like [4, 5] (some [1, 1])] := by
  intro h; have := h _ _ List.mem_cons_self; revert this; decide

end C17
