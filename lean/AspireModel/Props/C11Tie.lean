import AspireModel.Props.C11
import AspireModel.Props.C06Tie
/-
  C11, tie to the source: the statements of `SMCSampler.sample` that decide whether a RESUMED call re-enters the loop
  (`run_smc_loop = True; if resumed: last_beta = history.beta[-1] if history.beta else beta; if last_beta >= 1.0: ...;
  if max_n_steps is not None and iterations >= max_n_steps: ...`), translated from `/repo` on every run
  (`Gen.resume_loop_flag`), are the model's `resumeLoopFlag` for every checkpoint whose temperatures do not exceed 1
  (the code tests `>= 1.0`, the model `== 1.0`; C06 shows no recorded temperature exceeds 1).
-/
namespace C11
open Model

theorem tie_resume_loop_flag {P : Type} (k : Kit P ℝ) (cfg : SmcCfg ℝ) (c : Ckpt P ℝ) (r v : List ℝ)
    (hk : ∀ b, k.isOne b = C06.isOneR b)
    (hle : ∀ b ∈ c.hist.beta, b ≤ 1) (hb : c.beta ≤ 1) :
    Gen.resume_loop_flag c.hist.beta r v true c.beta c.iter cfg.maxSteps = resumeLoopFlag k cfg c := by
  have key : ∀ b : ℝ, b ≤ 1 → ((1 : ℝ) ≤ b ↔ C06.isOneR b = true) := by
    intro b hb1
    simp [C06.isOneR, hb1]
  unfold Gen.resume_loop_flag resumeLoopFlag
  simp only [if_true]
  cases hl : c.hist.beta.getLast? with
  | none =>
    simp only [hk]
    by_cases h1 : (1 : ℝ) ≤ c.beta
    · have := (key c.beta hb).mp h1
      cases cfg.maxSteps <;> simp [h1, this]
    · have : C06.isOneR c.beta = false := by
        cases hh : C06.isOneR c.beta
        · rfl
        · exact absurd ((key c.beta hb).mpr hh) h1
      cases hm : cfg.maxSteps with
      | none => simp [h1, this]
      | some m => by_cases hmi : m ≤ c.iter <;> simp [h1, this, hmi]
  | some b =>
    have hbm : b ∈ c.hist.beta := List.mem_of_getLast? hl
    have hb1 := hle b hbm
    simp only [hk]
    by_cases h1 : (1 : ℝ) ≤ b
    · have := (key b hb1).mp h1
      cases cfg.maxSteps <;> simp [h1, this]
    · have : C06.isOneR b = false := by
        cases hh : C06.isOneR b
        · rfl
        · exact absurd ((key b hb1).mpr hh) h1
      cases hm : cfg.maxSteps with
      | none => simp [h1, this]
      | some m => by_cases hmi : m ≤ c.iter <;> simp [h1, this, hmi]

/-- a call that is not resumed always enters the loop -/
theorem tie_fresh_enters_loop (hb r v : List ℝ) (β : ℝ) (it : ℕ) (mx : Option ℕ) :
    Gen.resume_loop_flag hb r v false β it mx = true := by
  simp [Gen.resume_loop_flag]

end C11
