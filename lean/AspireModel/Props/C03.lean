import AspireModel.Props.C04
import Mathlib.MeasureTheory.Function.JacobianOneDim
import Mathlib.MeasureTheory.Integral.IntervalIntegral.Basic
import Mathlib.Analysis.SpecialFunctions.Gaussian.GaussianIntegral
/-
  C03 — the proposal's log-probability is a normalised density on the native space, the log-density returned
  with drawn samples is the log-probability at those samples, and draws respect finite bounds.
  Model: `flowLogProb` / `flowSampleAndLogProb` of `Model/Transforms.lean` (= `Flow.log_prob`,
  `Flow.sample_and_log_prob` of `flows/torch/flows.py`, `flows/jax/flows.py`) on top of the composite data
  transform.  The neural density on the rescaled space is an arbitrary function `base`.
-/
namespace C03
open Model C04

theorem flowSampleAndLogProb_eq (base : List ℝ → ℝ) (c : TCfg ℝ) (z : List ℝ) :
    flowSampleAndLogProb base c z = ((inverseRow c z).1, base z - (inverseRow c z).2) := rfl

theorem flowLogProb_eq (base : List ℝ → ℝ) (c : TCfg ℝ) (x : List ℝ) :
    flowLogProb base c x = base (forwardRow c x).1 + (forwardRow c x).2 := rfl

/-! ### 9. the log-density returned with the samples is the log-probability at those samples -/

/-- For a draw `z` of the neural flow whose coordinates are mapped back outside the clipping margin
    (`CoordAdmInv`: bounded coordinates have their sigmoid / normal-CDF image in `[eps, 1 - eps]`, periodic ones
    lie in `[lo, hi)`), `sample_and_log_prob` and `log_prob` agree — for every neural density `base`, every kind
    vector, both bounded kinds, affine stage on or off. -/
theorem sample_eval_agree (base : List ℝ → ℝ) (c : TCfg ℝ) (hc : CfgOK c) (ha : AffOK c) (z : List ℝ)
    (hzl : z.length = c.kinds.length) (h : List.Forall₂ (CoordAdmInv c) c.kinds (preAffine c z)) :
    (flowSampleAndLogProb base c z).2 = flowLogProb base c (flowSampleAndLogProb base c z).1 := by
  obtain ⟨h1, h2⟩ := forward_inverse_row c hc ha z hzl h
  rw [flowSampleAndLogProb_eq, flowLogProb_eq]
  simp only
  rw [h1, h2]
  ring

/-- conversely, evaluating at `x` and "sampling" at its forward image agree (admissible `x`) -/
theorem eval_sample_agree (base : List ℝ → ℝ) (c : TCfg ℝ) (hc : CfgOK c) (ha : AffOK c) (x : List ℝ)
    (h : List.Forall₂ (CoordAdm c) c.kinds x) :
    flowSampleAndLogProb base c (forwardRow c x).1 = (x, flowLogProb base c x) := by
  obtain ⟨h1, h2⟩ := inverse_forward_row c hc ha x h
  rw [flowSampleAndLogProb_eq, flowLogProb_eq, h1, h2]
  simp only [sub_neg_eq_add]

/-! ### 10. draws respect the declared finite bounds -/

/-- a bounded coordinate of a draw lies strictly inside `(lower, upper)`, whatever the latent value -/
theorem draws_in_bounds (c : TCfg ℝ) (hc : CfgOK c) (lo hi y : ℝ) (hlh : lo < hi) :
    lo < (invCoord c (.bounded lo hi) y).1 ∧ (invCoord c (.bounded lo hi) y).1 < hi := by
  have hw : 0 < hi - lo := by linarith
  cases hb : c.bounded with
  | logit =>
    rw [invCoord_logit c hb]
    have h0 := sigmoid_pos y
    have h1 := sigmoid_lt_one y
    constructor <;> simp only <;> nlinarith
  | probit =>
    rw [invCoord_probit c hb]
    obtain ⟨h0, h1⟩ := probitInv_range c.pc (hc.probit hb) y
    constructor <;> simp only <;> nlinarith

theorem zip_draws_in_bounds (c : TCfg ℝ) (hc : CfgOK c) (ks : List (CoordKind ℝ)) (ys : List ℝ)
    (i : Nat) (lo hi v : ℝ) (hk : ks[i]? = some (.bounded lo hi)) (hlh : lo < hi)
    (hv : ((zipKinds (invCoord c) ks ys).map (·.1))[i]? = some v) : lo < v ∧ v < hi := by
  induction ks generalizing ys i with
  | nil => simp at hk
  | cons k ks ih =>
    cases ys with
    | nil => simp [zipKinds] at hv
    | cons a as =>
      cases i with
      | zero =>
        simp only [List.getElem?_cons_zero, Option.some.injEq] at hk
        subst hk
        simp only [zipKinds, List.map_cons, List.getElem?_cons_zero, Option.some.injEq] at hv
        subst hv
        exact draws_in_bounds c hc lo hi a hlh
      | succ j =>
        simp only [List.getElem?_cons_succ] at hk
        simp only [zipKinds, List.map_cons, List.getElem?_cons_succ] at hv
        exact ih as j hk hv

/-- row level: every bounded coordinate of the sample returned by `sample_and_log_prob` is inside its bounds,
    for every latent draw `z` (affine stage on or off) -/
theorem draws_in_bounds_row (base : List ℝ → ℝ) (c : TCfg ℝ) (hc : CfgOK c) (z : List ℝ)
    (i : Nat) (lo hi v : ℝ) (hk : c.kinds[i]? = some (.bounded lo hi)) (hlh : lo < hi)
    (hv : (flowSampleAndLogProb base c z).1[i]? = some v) : lo < v ∧ v < hi := by
  rw [flowSampleAndLogProb_eq] at hv
  simp only at hv
  cases haff : c.affine with
  | none => rw [inverseRow_none c haff] at hv; exact zip_draws_in_bounds c hc _ _ i lo hi v hk hlh hv
  | some ms =>
    obtain ⟨m, s⟩ := ms
    rw [inverseRow_some c m s haff] at hv; exact zip_draws_in_bounds c hc _ _ i lo hi v hk hlh hv

/-- … and every periodic coordinate lies in `[lower, upper)` -/
theorem draws_periodic_row (base : List ℝ → ℝ) (c : TCfg ℝ) (hc : CfgOK c) (z : List ℝ)
    (i : Nat) (lo hi v : ℝ) (hk : c.kinds[i]? = some (.periodic lo hi)) (hlh : lo < hi)
    (hv : (flowSampleAndLogProb base c z).1[i]? = some v) : lo ≤ v ∧ v < hi :=
  periodic_wraps_inverse c hc.mod z i lo hi v hk hlh hv

/-! ### 11. normalisation (change of variables), one bounded logit coordinate -/

/-- `Flow.log_prob` for `d = 1`, one logit-bounded coordinate on `(lo, hi)`, no affine stage, with the clip of
    `utils.logit` ignored (`logit1 none`) -/
noncomputable def logProbNoClip (base : List ℝ → ℝ) (lo hi x : ℝ) : ℝ :=
  base [(logit1 none ((x - lo) / (hi - lo))).1] + ((logit1 none ((x - lo) / (hi - lo))).2 + -Real.log (hi - lo))

/-- outside the clipping margin this IS the model's `flowLogProb` -/
theorem flowLogProb_eq_noClip (base : List ℝ → ℝ) (c : TCfg ℝ) (lo hi x : ℝ)
    (hk : c.kinds = [.bounded lo hi]) (hb : c.bounded = .logit) (haff : c.affine = none)
    (h1 : c.eps ≤ (x - lo) / (hi - lo)) (h2 : (x - lo) / (hi - lo) ≤ 1 - c.eps) :
    flowLogProb base c [x] = logProbNoClip base lo hi x := by
  rw [flowLogProb_eq, forwardRow_none c haff, hk]
  simp only [zipKinds, List.map_cons, List.map_nil, List.sum_cons, List.sum_nil, add_zero]
  rw [fwdCoord_logit c hb, logit1_clip_id _ _ h1 h2]
  rfl

/-- the forward map of the coordinate without clipping -/
noncomputable def gmap (lo hi x : ℝ) : ℝ := (logit1 none ((x - lo) / (hi - lo))).1

theorem gmap_hasDerivAt (lo hi x : ℝ) (h1 : lo < x) (h2 : x < hi) :
    HasDerivAt (gmap lo hi) (1 / ((hi - lo) * ((x - lo) / (hi - lo)) * (1 - (x - lo) / (hi - lo)))) x := by
  have hw : 0 < hi - lo := by linarith
  have hu0 : 0 < (x - lo) / (hi - lo) := div_pos (by linarith) hw
  have hu1 : (x - lo) / (hi - lo) < 1 := by rw [div_lt_one hw]; linarith
  have hU : HasDerivAt (fun x : ℝ => (x - lo) / (hi - lo)) (1 / (hi - lo)) x :=
    affine_coord_hasDerivAt lo (hi - lo) x
  have hL := (logit_hasDerivAt _ hu0 hu1).comp x hU
  refine hL.congr_deriv ?_
  have h1u : 1 - (x - lo) / (hi - lo) ≠ 0 := by linarith
  field_simp

theorem gmap_left_inv (lo hi x : ℝ) (h1 : lo < x) (h2 : x < hi) :
    (hi - lo) * (sigmoid1 (gmap lo hi x)).1 + lo = x := by
  have hw : 0 < hi - lo := by linarith
  have hu0 : 0 < (x - lo) / (hi - lo) := div_pos (by linarith) hw
  have hu1 : (x - lo) / (hi - lo) < 1 := by rw [div_lt_one hw]; linarith
  unfold gmap
  rw [sigmoid_logit_none _ hu0 hu1, unit_round lo hi x (by linarith)]

theorem gmap_image (lo hi : ℝ) (hlh : lo < hi) : gmap lo hi '' Set.Ioo lo hi = Set.univ := by
  have hw : 0 < hi - lo := by linarith
  apply Set.eq_univ_of_forall
  intro y
  have h0 := sigmoid_pos y
  have h1 := sigmoid_lt_one y
  refine ⟨(hi - lo) * (sigmoid1 y).1 + lo, ⟨by nlinarith, by nlinarith⟩, ?_⟩
  unfold gmap
  rw [unit_round' lo hi _ hlh, logit_sigmoid]

/-- the derivative of the unclipped forward coordinate map -/
noncomputable def gderiv (lo hi x : ℝ) : ℝ :=
  1 / ((hi - lo) * ((x - lo) / (hi - lo)) * (1 - (x - lo) / (hi - lo)))

/-- pointwise: the proposal density is the base density at the image times `|g'|` -/
theorem exp_logProbNoClip (base : List ℝ → ℝ) (lo hi x : ℝ) (h1 : lo < x) (h2 : x < hi) :
    Real.exp (logProbNoClip base lo hi x) = |gderiv lo hi x| • Real.exp (base [gmap lo hi x]) := by
  have hw : 0 < hi - lo := by linarith
  have hu0 : 0 < (x - lo) / (hi - lo) := div_pos (by linarith) hw
  have hu1 : 0 < 1 - (x - lo) / (hi - lo) := by
    have : (x - lo) / (hi - lo) < 1 := by rw [div_lt_one hw]; linarith
    linarith
  have hpos : 0 < (hi - lo) * ((x - lo) / (hi - lo)) * (1 - (x - lo) / (hi - lo)) := by positivity
  simp only [logProbNoClip, smul_eq_mul, gderiv]
  rw [abs_of_pos (by positivity), Real.exp_add, logit1_none]
  simp only
  rw [show -Real.log ((x - lo) / (hi - lo)) - Real.log (1 - (x - lo) / (hi - lo)) + -Real.log (hi - lo)
      = -Real.log ((hi - lo) * ((x - lo) / (hi - lo)) * (1 - (x - lo) / (hi - lo))) by
    rw [Real.log_mul (by positivity) hu1.ne', Real.log_mul hw.ne' hu0.ne']; ring]
  rw [Real.exp_neg, Real.exp_log hpos, mul_comm, one_div]
  rfl

theorem gmap_injOn (lo hi : ℝ) : Set.InjOn (gmap lo hi) (Set.Ioo lo hi) := by
  intro a ha b hb hab
  rw [← gmap_left_inv lo hi a ha.1 ha.2, ← gmap_left_inv lo hi b hb.1 hb.2, hab]

/-- **Normalisation.**  If the neural density is a probability density on the latent line
    (`∫ exp (base [z]) dz = 1`), then the proposal density on the native interval — the base density at the
    forward image times the full data-transform Jacobian `exp(logit term − log(hi − lo))` — integrates to one
    over `(lo, hi)`.  No regularity of `base` is needed beyond the value of its integral. -/
theorem normalised_1d (base : List ℝ → ℝ) (lo hi : ℝ) (hlh : lo < hi)
    (hbase : ∫ z : ℝ, Real.exp (base [z]) = 1) :
    ∫ x in lo..hi, Real.exp (logProbNoClip base lo hi x) = 1 := by
  have hcov := MeasureTheory.integral_image_eq_integral_abs_deriv_smul (s := Set.Ioo lo hi)
    (f := gmap lo hi) (f' := gderiv lo hi) measurableSet_Ioo
    (fun x hx => (gmap_hasDerivAt lo hi x hx.1 hx.2).hasDerivWithinAt)
    (gmap_injOn lo hi) (fun z => Real.exp (base [z]))
  rw [gmap_image lo hi hlh, MeasureTheory.setIntegral_univ, hbase] at hcov
  rw [intervalIntegral.integral_of_le hlh.le, MeasureTheory.integral_Ioc_eq_integral_Ioo, hcov]
  exact MeasureTheory.setIntegral_congr_fun measurableSet_Ioo
    (fun x hx => exp_logProbNoClip base lo hi x hx.1 hx.2)

/-- the same change of variables transfers integrability: the native-space density is integrable on `(lo, hi)`
    iff the latent density is integrable on ℝ -/
theorem integrable_1d (base : List ℝ → ℝ) (lo hi : ℝ) (hlh : lo < hi) :
    MeasureTheory.IntegrableOn (fun x => Real.exp (logProbNoClip base lo hi x)) (Set.Ioo lo hi) ↔
    MeasureTheory.Integrable (fun z : ℝ => Real.exp (base [z])) := by
  have h := MeasureTheory.integrableOn_image_iff_integrableOn_abs_deriv_smul (s := Set.Ioo lo hi)
    (f := gmap lo hi) (f' := gderiv lo hi) measurableSet_Ioo
    (fun x hx => (gmap_hasDerivAt lo hi x hx.1 hx.2).hasDerivWithinAt)
    (gmap_injOn lo hi) (fun z => Real.exp (base [z]))
  rw [gmap_image lo hi hlh, MeasureTheory.integrableOn_univ] at h
  rw [h]
  exact MeasureTheory.integrableOn_congr_fun (fun x hx => exp_logProbNoClip base lo hi x hx.1 hx.2)
    measurableSet_Ioo

/-! #### with the clip of the real code

`Flow.log_prob` clips the unit-interval coordinate to `[eps, 1 - eps]`.  On the native interval minus the
clipping margin, `[lo + eps·w, hi − eps·w]` (`w = hi − lo`), the model's `flowLogProb` itself is the change of
variables of the base density restricted to the image interval `[−L, L]`, `L = log((1 − eps)/eps)`. -/

/-- `L = logit(1 - eps)`, the latent image of the upper edge of the clipping margin -/
noncomputable def Lclip (e : ℝ) : ℝ := Real.log ((1 - e) / e)

theorem gmap_image_clipped (lo hi e : ℝ) (hlh : lo < hi) (he0 : 0 < e) (he1 : e < 1 / 2) :
    gmap lo hi '' Set.Icc (lo + e * (hi - lo)) (hi - e * (hi - lo)) = Set.Icc (-Lclip e) (Lclip e) := by
  have hw : 0 < hi - lo := by linarith
  have h1e : 0 < 1 - e := by linarith
  have hL : Lclip e = Real.log (1 - e) - Real.log e := Real.log_div h1e.ne' he0.ne'
  ext z
  constructor
  · rintro ⟨x, ⟨hx1, hx2⟩, rfl⟩
    have hu1 : e ≤ (x - lo) / (hi - lo) := by rw [le_div_iff₀ hw]; linarith
    have hu2 : (x - lo) / (hi - lo) ≤ 1 - e := by rw [div_le_iff₀ hw]; nlinarith
    have hu0 : 0 < (x - lo) / (hi - lo) := by linarith
    have hu3 : 0 < 1 - (x - lo) / (hi - lo) := by linarith
    have a1 := Real.log_le_log he0 hu1
    have a2 := Real.log_le_log hu0 hu2
    have a3 : Real.log e ≤ Real.log (1 - (x - lo) / (hi - lo)) := Real.log_le_log he0 (by linarith)
    have a4 : Real.log (1 - (x - lo) / (hi - lo)) ≤ Real.log (1 - e) := Real.log_le_log hu3 (by linarith)
    simp only [gmap, logit1_none, Set.mem_Icc, hL]
    constructor <;> linarith
  · rintro ⟨hz1, hz2⟩
    have hE1 : Real.exp (-z) ≤ (1 - e) / e := by
      have : Real.exp (-z) ≤ Real.exp (Lclip e) := Real.exp_le_exp.mpr (by linarith)
      rwa [Lclip, Real.exp_log (div_pos h1e he0)] at this
    have hE2 : e / (1 - e) ≤ Real.exp (-z) := by
      have : Real.exp (-Lclip e) ≤ Real.exp (-z) := Real.exp_le_exp.mpr (by linarith)
      rwa [Lclip, Real.exp_neg, Real.exp_log (div_pos h1e he0), inv_div] at this
    have hp := Real.exp_pos (-z)
    have hs1 : e ≤ (sigmoid1 z).1 := by
      rw [sigmoid1_eq]; simp only
      rw [le_div_iff₀ (by linarith)]
      rw [le_div_iff₀ he0] at hE1
      nlinarith
    have hs2 : (sigmoid1 z).1 ≤ 1 - e := by
      rw [sigmoid1_eq]; simp only
      rw [div_le_iff₀ (by linarith)]
      rw [div_le_iff₀ h1e] at hE2
      nlinarith
    refine ⟨(hi - lo) * (sigmoid1 z).1 + lo, ⟨by nlinarith, by nlinarith⟩, ?_⟩
    unfold gmap
    rw [unit_round' lo hi _ hlh, logit_sigmoid]

/-- **Normalisation of the real (clipping) `log_prob` away from the clipping margin**: the proposal mass of
    `[lo + eps·w, hi − eps·w]` equals the base mass of `[−L, L]`, with every data-transform Jacobian included. -/
theorem normalised_1d_clipped (base : List ℝ → ℝ) (c : TCfg ℝ) (lo hi : ℝ)
    (hk : c.kinds = [.bounded lo hi]) (hb : c.bounded = .logit) (haff : c.affine = none)
    (hlh : lo < hi) (he0 : 0 < c.eps) (he1 : c.eps < 1 / 2) :
    ∫ x in (lo + c.eps * (hi - lo))..(hi - c.eps * (hi - lo)), Real.exp (flowLogProb base c [x]) =
    ∫ z in (-Lclip c.eps)..(Lclip c.eps), Real.exp (base [z]) := by
  have hw : 0 < hi - lo := by linarith
  have hab : lo + c.eps * (hi - lo) ≤ hi - c.eps * (hi - lo) := by nlinarith
  have hsub : Set.Icc (lo + c.eps * (hi - lo)) (hi - c.eps * (hi - lo)) ⊆ Set.Ioo lo hi := by
    intro x hx
    constructor
    · nlinarith [hx.1]
    · nlinarith [hx.2]
  have hcov := MeasureTheory.integral_image_eq_integral_abs_deriv_smul
    (s := Set.Icc (lo + c.eps * (hi - lo)) (hi - c.eps * (hi - lo)))
    (f := gmap lo hi) (f' := gderiv lo hi) measurableSet_Icc
    (fun x hx => (gmap_hasDerivAt lo hi x (hsub hx).1 (hsub hx).2).hasDerivWithinAt)
    ((gmap_injOn lo hi).mono hsub) (fun z => Real.exp (base [z]))
  rw [gmap_image_clipped lo hi c.eps hlh he0 he1] at hcov
  have hLL : -Lclip c.eps ≤ Lclip c.eps := by
    have : 0 ≤ Lclip c.eps := Real.log_nonneg (by rw [le_div_iff₀ he0]; linarith)
    linarith
  rw [intervalIntegral.integral_of_le hab, intervalIntegral.integral_of_le hLL,
    ← MeasureTheory.integral_Icc_eq_integral_Ioc, ← MeasureTheory.integral_Icc_eq_integral_Ioc, hcov]
  apply MeasureTheory.setIntegral_congr_fun measurableSet_Icc
  intro x hx
  have hu1 : c.eps ≤ (x - lo) / (hi - lo) := by rw [le_div_iff₀ hw]; linarith [hx.1]
  have hu2 : (x - lo) / (hi - lo) ≤ 1 - c.eps := by rw [div_le_iff₀ hw]; nlinarith [hx.2]
  simp only
  rw [flowLogProb_eq_noClip base c lo hi x hk hb haff hu1 hu2]
  exact exp_logProbNoClip base lo hi x (hsub hx).1 (hsub hx).2

/-! #### inside the clipping margin (and beyond the bounds) the reported log-probability is constant -/

theorem clipS_below (u lo hi : ℝ) (h : u ≤ lo) (hlh : lo ≤ hi) : clipS u lo hi = lo := by
  unfold clipS
  split
  · rfl
  · rename_i h1
    have : u = lo := le_antisymm h (not_lt.mp h1)
    rw [if_neg (by linarith)]; exact this

theorem clipS_above (u lo hi : ℝ) (h : hi ≤ u) (hlh : lo ≤ hi) : clipS u lo hi = hi := by
  unfold clipS
  split
  · rename_i h1; linarith
  · split
    · rfl
    · rename_i h1; exact le_antisymm (not_lt.mp h1) h

theorem logit1_some (e u : ℝ) : logit1 (some e) u = logit1 none (clipS u e (1 - e)) := rfl

/-- the constant value of `log_prob` at and below the lower edge of the margin — also for `x < lo`, i.e.
    OUTSIDE the declared bounds, where a density on the native space should be `-∞` -/
theorem flowLogProb_below (base : List ℝ → ℝ) (c : TCfg ℝ) (lo hi x : ℝ)
    (hk : c.kinds = [.bounded lo hi]) (hb : c.bounded = .logit) (haff : c.affine = none)
    (hlh : lo < hi) (he0 : 0 < c.eps) (he1 : c.eps < 1 / 2) (hx : x ≤ lo + c.eps * (hi - lo)) :
    flowLogProb base c [x] = base [-Lclip c.eps] - Real.log (c.eps * (1 - c.eps) * (hi - lo)) := by
  have hw : 0 < hi - lo := by linarith
  have h1e : 0 < 1 - c.eps := by linarith
  have hu : (x - lo) / (hi - lo) ≤ c.eps := by rw [div_le_iff₀ hw]; linarith
  rw [flowLogProb_eq, forwardRow_none c haff, hk]
  simp only [zipKinds, List.map_cons, List.map_nil, List.sum_cons, List.sum_nil, add_zero]
  rw [fwdCoord_logit c hb, logit1_some, clipS_below _ _ _ hu (by linarith), logit1_none]
  simp only
  rw [show Real.log c.eps - Real.log (1 - c.eps) = -Lclip c.eps by
    rw [Lclip, Real.log_div h1e.ne' he0.ne']; ring]
  rw [Real.log_mul (by positivity) hw.ne', Real.log_mul he0.ne' h1e.ne']
  ring

theorem flowLogProb_above (base : List ℝ → ℝ) (c : TCfg ℝ) (lo hi x : ℝ)
    (hk : c.kinds = [.bounded lo hi]) (hb : c.bounded = .logit) (haff : c.affine = none)
    (hlh : lo < hi) (he0 : 0 < c.eps) (he1 : c.eps < 1 / 2) (hx : hi - c.eps * (hi - lo) ≤ x) :
    flowLogProb base c [x] = base [Lclip c.eps] - Real.log (c.eps * (1 - c.eps) * (hi - lo)) := by
  have hw : 0 < hi - lo := by linarith
  have h1e : 0 < 1 - c.eps := by linarith
  have hu : 1 - c.eps ≤ (x - lo) / (hi - lo) := by rw [le_div_iff₀ hw]; nlinarith
  rw [flowLogProb_eq, forwardRow_none c haff, hk]
  simp only [zipKinds, List.map_cons, List.map_nil, List.sum_cons, List.sum_nil, add_zero]
  rw [fwdCoord_logit c hb, logit1_some, clipS_above _ _ _ hu (by linarith), logit1_none]
  simp only
  rw [show (1 : ℝ) - (1 - c.eps) = c.eps by ring]
  rw [show Real.log (1 - c.eps) - Real.log c.eps = Lclip c.eps by
    rw [Lclip, Real.log_div h1e.ne' he0.ne']]
  rw [Real.log_mul (by positivity) hw.ne', Real.log_mul he0.ne' h1e.ne']
  ring

/-- **Exact mass of the real (clipping) `log_prob` over the declared interval.**  It is the base mass of
    `[−L, L]` plus the two margin rectangles `(f(−L) + f(L)) / (1 − eps)`, `f = exp ∘ base` — NOT the base mass of
    the two tails `(−∞, −L) ∪ (L, ∞)`.  So the real `log_prob` is normalised over the native interval only up to
    the clipping margin (an `O(eps)` discrepancy for a bounded base density). -/
theorem clipped_total_mass (base : List ℝ → ℝ) (c : TCfg ℝ) (lo hi : ℝ)
    (hk : c.kinds = [.bounded lo hi]) (hb : c.bounded = .logit) (haff : c.affine = none)
    (hlh : lo < hi) (he0 : 0 < c.eps) (he1 : c.eps < 1 / 2)
    (hint : MeasureTheory.IntegrableOn (fun z : ℝ => Real.exp (base [z])) (Set.Icc (-Lclip c.eps) (Lclip c.eps))) :
    ∫ x in lo..hi, Real.exp (flowLogProb base c [x]) =
      (∫ z in (-Lclip c.eps)..(Lclip c.eps), Real.exp (base [z])) +
      (Real.exp (base [-Lclip c.eps]) + Real.exp (base [Lclip c.eps])) / (1 - c.eps) := by
  have hw : 0 < hi - lo := by linarith
  have h1e : 0 < 1 - c.eps := by linarith
  have hK : 0 < c.eps * (1 - c.eps) * (hi - lo) := by positivity
  set a := lo + c.eps * (hi - lo) with ha
  set b := hi - c.eps * (hi - lo) with hbdef
  have hla : lo ≤ a := by rw [ha]; nlinarith
  have hab : a ≤ b := by rw [ha, hbdef]; nlinarith
  have hbh : b ≤ hi := by rw [hbdef]; nlinarith
  have hsub : Set.Icc a b ⊆ Set.Ioo lo hi := by
    intro x hx
    constructor
    · rw [ha] at hx; nlinarith [hx.1]
    · rw [hbdef] at hx; nlinarith [hx.2]
  -- lower margin
  have hE1 : Set.EqOn (fun x => Real.exp (flowLogProb base c [x]))
      (fun _ => Real.exp (base [-Lclip c.eps] - Real.log (c.eps * (1 - c.eps) * (hi - lo)))) (Set.uIcc lo a) := by
    intro x hx
    rw [Set.uIcc_of_le hla] at hx
    simp only
    rw [flowLogProb_below base c lo hi x hk hb haff hlh he0 he1 hx.2]
  have hE3 : Set.EqOn (fun x => Real.exp (flowLogProb base c [x]))
      (fun _ => Real.exp (base [Lclip c.eps] - Real.log (c.eps * (1 - c.eps) * (hi - lo)))) (Set.uIcc b hi) := by
    intro x hx
    rw [Set.uIcc_of_le hbh] at hx
    simp only
    rw [flowLogProb_above base c lo hi x hk hb haff hlh he0 he1 hx.1]
  have hI1 : IntervalIntegrable (fun x => Real.exp (flowLogProb base c [x])) MeasureTheory.volume lo a :=
    (intervalIntegrable_congr (hE1.mono Set.uIoc_subset_uIcc)).mpr intervalIntegrable_const
  have hI3 : IntervalIntegrable (fun x => Real.exp (flowLogProb base c [x])) MeasureTheory.volume b hi :=
    (intervalIntegrable_congr (hE3.mono Set.uIoc_subset_uIcc)).mpr intervalIntegrable_const
  have hI2 : IntervalIntegrable (fun x => Real.exp (flowLogProb base c [x])) MeasureTheory.volume a b := by
    rw [intervalIntegrable_iff_integrableOn_Icc_of_le hab]
    have h := MeasureTheory.integrableOn_image_iff_integrableOn_abs_deriv_smul (s := Set.Icc a b)
      (f := gmap lo hi) (f' := gderiv lo hi) measurableSet_Icc
      (fun x hx => (gmap_hasDerivAt lo hi x (hsub hx).1 (hsub hx).2).hasDerivWithinAt)
      ((gmap_injOn lo hi).mono hsub) (fun z => Real.exp (base [z]))
    rw [gmap_image_clipped lo hi c.eps hlh he0 he1] at h
    refine (MeasureTheory.integrableOn_congr_fun ?_ measurableSet_Icc).mpr (h.mp hint)
    intro x hx
    have hu1 : c.eps ≤ (x - lo) / (hi - lo) := by rw [le_div_iff₀ hw]; rw [ha] at hx; linarith [hx.1]
    have hu2 : (x - lo) / (hi - lo) ≤ 1 - c.eps := by
      rw [div_le_iff₀ hw]; rw [hbdef] at hx; nlinarith [hx.2]
    simp only
    rw [flowLogProb_eq_noClip base c lo hi x hk hb haff hu1 hu2]
    exact exp_logProbNoClip base lo hi x (hsub hx).1 (hsub hx).2
  rw [← intervalIntegral.integral_add_adjacent_intervals (hI1.trans hI2) hI3,
    ← intervalIntegral.integral_add_adjacent_intervals hI1 hI2,
    normalised_1d_clipped base c lo hi hk hb haff hlh he0 he1,
    intervalIntegral.integral_congr hE1, intervalIntegral.integral_congr hE3,
    intervalIntegral.integral_const, intervalIntegral.integral_const]
  simp only [smul_eq_mul, Real.exp_sub, Real.exp_log hK]
  rw [show a - lo = c.eps * (hi - lo) by rw [ha]; ring, show hi - b = c.eps * (hi - lo) by rw [hbdef]; ring]
  field_simp
  ring

/-! ### non-vacuity -/

theorem sigmoid_zero : (sigmoid1 (0 : ℝ)).1 = 1 / 2 := by
  rw [sigmoid1_eq]; norm_num

theorem erfR_zero : ErfC04.erfR 0 = 0 := by
  unfold ErfC04.erfR; simp

theorem unitInv_zero (b : BoundedKind) (aff : Option (List ℝ × List ℝ)) : unitInv (exCfg b aff) 0 = 1 / 2 := by
  cases b
  · simp only [unitInv, exCfg]; exact sigmoid_zero
  · simp only [unitInv, exCfg, probitInv1_eq, realProbit, zero_div, erfR_zero]; norm_num

theorem exCfg_admInv_core (b : BoundedKind) (aff : Option (List ℝ × List ℝ)) :
    List.Forall₂ (CoordAdmInv (exCfg b aff)) (exCfg b aff).kinds [5, 1 / 2, 0] := by
  refine List.Forall₂.cons trivial (List.Forall₂.cons ?_ (List.Forall₂.cons ?_ List.Forall₂.nil))
  · simp only [CoordAdmInv]; norm_num
  · simp only [CoordAdmInv, unitInv_zero]
    simp only [exCfg]; norm_num

/-- `sample_eval_agree` is non-vacuous for both bounded kinds, affine off … -/
example (base : List ℝ → ℝ) (b : BoundedKind) :
    (flowSampleAndLogProb base (exCfg b none) [5, 1 / 2, 0]).2 =
      flowLogProb base (exCfg b none) (flowSampleAndLogProb base (exCfg b none) [5, 1 / 2, 0]).1 :=
  sample_eval_agree base _ (exCfg_ok b _) (exCfg_affOK b).2 _ rfl (exCfg_admInv_core b none)

/-- … and affine on (`z * std + mean = [5, 1/2, 0]`) -/
example (base : List ℝ → ℝ) (b : BoundedKind) :
    (flowSampleAndLogProb base (exCfg b (some ([1, 2, 3], [2, -3, 4]))) [2, 1 / 2, -3 / 4]).2 =
      flowLogProb base (exCfg b (some ([1, 2, 3], [2, -3, 4])))
        (flowSampleAndLogProb base (exCfg b (some ([1, 2, 3], [2, -3, 4]))) [2, 1 / 2, -3 / 4]).1 := by
  refine sample_eval_agree base _ (exCfg_ok b _) (exCfg_affOK b).1 _ rfl ?_
  have : preAffine (exCfg b (some ([1, 2, 3], [2, -3, 4]))) [2, 1 / 2, -3 / 4] = [5, 1 / 2, 0] := by
    simp only [preAffine, exCfg, affineInv, List.zip_cons_cons, List.zip_nil_right, List.zipWith_cons_cons,
      List.zipWith_nil_right]
    norm_num
  rw [this]
  exact exCfg_admInv_core b _

/-- the standard normal log-density as `base` meets the hypothesis of `normalised_1d` -/
noncomputable def stdNormalBase (l : List ℝ) : ℝ :=
  -(1 / 2) * (l.headD 0) ^ 2 - Real.log (Real.sqrt (2 * Real.pi))

theorem stdNormalBase_normalised : ∫ z : ℝ, Real.exp (stdNormalBase [z]) = 1 := by
  have hpos : 0 < Real.sqrt (2 * Real.pi) := Real.sqrt_pos.mpr (by positivity)
  have h : ∀ z : ℝ, Real.exp (stdNormalBase [z]) = Real.exp (-(1 / 2) * z ^ 2) / Real.sqrt (2 * Real.pi) := by
    intro z
    simp only [stdNormalBase, List.headD_cons]
    rw [Real.exp_sub, Real.exp_log hpos]
  simp only [h]
  rw [MeasureTheory.integral_div, integral_gaussian (1 / 2)]
  rw [show Real.pi / (1 / 2) = 2 * Real.pi by ring]
  exact div_self hpos.ne'

example : ∫ x in (0 : ℝ)..2, Real.exp (logProbNoClip stdNormalBase 0 2 x) = 1 :=
  normalised_1d stdNormalBase 0 2 (by norm_num) stdNormalBase_normalised

/-! ### 11b. normalisation for BOTH bounded kinds (probit is the library default), through the inverse map

The change of variables is done with the inverse coordinate map `hmap : ℝ → (lo, hi)`, whose derivative is known in
closed form for both kinds (`invCoord_hasDerivAt`).  "Without clipping" is expressed inside the model itself:
`eps = 0` (then `clip(u, 0, 1)` is the identity on the unit interval). -/

/-- the inverse coordinate map of the single bounded coordinate -/
noncomputable def hmap (c : TCfg ℝ) (lo hi y : ℝ) : ℝ := (invCoord c (.bounded lo hi) y).1

theorem flowLogProb_single (base : List ℝ → ℝ) (c : TCfg ℝ) (lo hi x : ℝ)
    (hk : c.kinds = [.bounded lo hi]) (haff : c.affine = none) :
    flowLogProb base c [x] = base [(fwdCoord c (.bounded lo hi) x).1] + (fwdCoord c (.bounded lo hi) x).2 := by
  rw [flowLogProb_eq, forwardRow_none c haff, hk]
  simp [zipKinds]

theorem unit_of_hmap (c : TCfg ℝ) (lo hi y : ℝ) (hlh : lo < hi) :
    (hmap c lo hi y - lo) / (hi - lo) = unitInv c y := by
  rw [hmap, invCoord_eq_unitInv, unit_round' lo hi _ hlh]

/-- pointwise: `|h'(y)| · q(h(y)) = exp(base y)`, `q = exp ∘ log_prob` the proposal density on the native space -/
theorem density_pullback (base : List ℝ → ℝ) (c : TCfg ℝ) (lo hi y : ℝ)
    (hk : c.kinds = [.bounded lo hi]) (haff : c.affine = none) (hp : c.bounded = .probit → ProbitOK c.pc)
    (hlh : lo < hi) (h1 : c.eps ≤ unitInv c y) (h2 : unitInv c y ≤ 1 - c.eps) :
    |Real.exp (invCoord c (.bounded lo hi) y).2| • Real.exp (flowLogProb base c [hmap c lo hi y]) =
      Real.exp (base [y]) := by
  obtain ⟨f1, f2⟩ := bounded_forward_inverse c hp lo hi y hlh h1 h2
  rw [flowLogProb_single base c lo hi _ hk haff, hmap, f1, f2, abs_of_pos (Real.exp_pos _), smul_eq_mul,
    ← Real.exp_add]
  congr 1
  ring

/-- General form: for any measurable part `T` of the native interval lying outside the clipping margin, the
    proposal mass of `T` is the base mass of its latent preimage.  Both bounded kinds. -/
theorem mass_general (base : List ℝ → ℝ) (c : TCfg ℝ) (lo hi : ℝ)
    (hk : c.kinds = [.bounded lo hi]) (haff : c.affine = none) (hp : c.bounded = .probit → ProbitOK c.pc)
    (hlh : lo < hi) (T : Set ℝ) (hT : MeasurableSet T)
    (hTu : ∀ x ∈ T, 0 < (x - lo) / (hi - lo) ∧ (x - lo) / (hi - lo) < 1 ∧
      c.eps ≤ (x - lo) / (hi - lo) ∧ (x - lo) / (hi - lo) ≤ 1 - c.eps) :
    ∫ x in T, Real.exp (flowLogProb base c [x]) = ∫ y in hmap c lo hi ⁻¹' T, Real.exp (base [y]) := by
  have hderiv : ∀ y, HasDerivAt (hmap c lo hi) (Real.exp (invCoord c (.bounded lo hi) y).2) y :=
    invCoord_hasDerivAt c hp lo hi hlh
  have hcont : Continuous (hmap c lo hi) :=
    continuous_iff_continuousAt.mpr fun y => (hderiv y).continuousAt
  have hS : MeasurableSet (hmap c lo hi ⁻¹' T) := hcont.measurable hT
  have hadm : ∀ y ∈ hmap c lo hi ⁻¹' T, c.eps ≤ unitInv c y ∧ unitInv c y ≤ 1 - c.eps := by
    intro y hy
    obtain ⟨_, _, a1, a2⟩ := hTu _ hy
    rw [unit_of_hmap c lo hi y hlh] at a1 a2
    exact ⟨a1, a2⟩
  have hinj : Set.InjOn (hmap c lo hi) (hmap c lo hi ⁻¹' T) := by
    intro y1 h1 y2 h2 h12
    have e1 := (bounded_forward_inverse c hp lo hi y1 hlh (hadm y1 h1).1 (hadm y1 h1).2).1
    have e2 := (bounded_forward_inverse c hp lo hi y2 hlh (hadm y2 h2).1 (hadm y2 h2).2).1
    have h12' : (invCoord c (.bounded lo hi) y1).1 = (invCoord c (.bounded lo hi) y2).1 := h12
    rw [← e1, ← e2, h12']
  have himg : hmap c lo hi '' (hmap c lo hi ⁻¹' T) = T := by
    apply Set.image_preimage_eq_of_subset
    intro x hx
    obtain ⟨a0, a1, a2, a3⟩ := hTu x hx
    exact ⟨(fwdCoord c (.bounded lo hi) x).1, (bounded_inverse_forward c hp lo hi x hlh a0 a1 a2 a3).1⟩
  have hcov := MeasureTheory.integral_image_eq_integral_abs_deriv_smul (s := hmap c lo hi ⁻¹' T)
    (f := hmap c lo hi) (f' := fun y => Real.exp (invCoord c (.bounded lo hi) y).2) hS
    (fun y _ => (hderiv y).hasDerivWithinAt) hinj (fun x => Real.exp (flowLogProb base c [x]))
  rw [himg] at hcov
  rw [hcov]
  apply MeasureTheory.setIntegral_congr_fun hS
  intro y hy
  exact density_pullback base c lo hi y hk haff hp hlh (hadm y hy).1 (hadm y hy).2

/-- **Normalisation, both bounded kinds, no clipping (`eps = 0`)**: if the neural density integrates to one on
    the latent line, `exp ∘ Flow.log_prob` integrates to one over the declared interval. -/
theorem normalised_1d_any_kind (base : List ℝ → ℝ) (c : TCfg ℝ) (lo hi : ℝ)
    (hk : c.kinds = [.bounded lo hi]) (haff : c.affine = none) (hp : c.bounded = .probit → ProbitOK c.pc)
    (hlh : lo < hi) (he : c.eps = 0) (hbase : ∫ z : ℝ, Real.exp (base [z]) = 1) :
    ∫ x in lo..hi, Real.exp (flowLogProb base c [x]) = 1 := by
  have hw : 0 < hi - lo := by linarith
  have h := mass_general base c lo hi hk haff hp hlh (Set.Ioo lo hi) measurableSet_Ioo (by
    intro x hx
    have h0 : 0 < (x - lo) / (hi - lo) := div_pos (by linarith [hx.1]) hw
    have h1 : (x - lo) / (hi - lo) < 1 := by rw [div_lt_one hw]; linarith [hx.2]
    rw [he]
    exact ⟨h0, h1, h0.le, by linarith⟩)
  have hpre : hmap c lo hi ⁻¹' Set.Ioo lo hi = Set.univ := by
    apply Set.eq_univ_of_forall
    intro y
    obtain ⟨u0, u1⟩ := unitInv_range c hp y
    simp only [Set.mem_preimage, hmap, invCoord_eq_unitInv, Set.mem_Ioo]
    constructor <;> nlinarith
  rw [hpre, MeasureTheory.setIntegral_univ, hbase] at h
  rw [intervalIntegral.integral_of_le hlh.le, MeasureTheory.integral_Ioc_eq_integral_Ioo, h]

/-- **With the real clip (`0 < eps < ½`), both bounded kinds**: the proposal mass of the native interval minus
    the clipping margin equals the base mass of the latent region that the inverse maps outside the margin. -/
theorem normalised_1d_clipped_any_kind (base : List ℝ → ℝ) (c : TCfg ℝ) (lo hi : ℝ)
    (hk : c.kinds = [.bounded lo hi]) (haff : c.affine = none) (hp : c.bounded = .probit → ProbitOK c.pc)
    (hlh : lo < hi) (he0 : 0 < c.eps) (he1 : c.eps < 1 / 2) :
    ∫ x in (lo + c.eps * (hi - lo))..(hi - c.eps * (hi - lo)), Real.exp (flowLogProb base c [x]) =
      ∫ y in {y | c.eps ≤ unitInv c y ∧ unitInv c y ≤ 1 - c.eps}, Real.exp (base [y]) := by
  have hw : 0 < hi - lo := by linarith
  have hab : lo + c.eps * (hi - lo) ≤ hi - c.eps * (hi - lo) := by nlinarith
  have h := mass_general base c lo hi hk haff hp hlh
    (Set.Icc (lo + c.eps * (hi - lo)) (hi - c.eps * (hi - lo))) measurableSet_Icc (by
    intro x hx
    have h1 : c.eps ≤ (x - lo) / (hi - lo) := by rw [le_div_iff₀ hw]; linarith [hx.1]
    have h2 : (x - lo) / (hi - lo) ≤ 1 - c.eps := by rw [div_le_iff₀ hw]; nlinarith [hx.2]
    exact ⟨by linarith, by linarith, h1, h2⟩)
  have hpre : hmap c lo hi ⁻¹' Set.Icc (lo + c.eps * (hi - lo)) (hi - c.eps * (hi - lo)) =
      {y | c.eps ≤ unitInv c y ∧ unitInv c y ≤ 1 - c.eps} := by
    ext y
    simp only [Set.mem_preimage, hmap, invCoord_eq_unitInv, Set.mem_Icc, Set.mem_ofPred_eq]
    constructor
    · rintro ⟨a1, a2⟩
      constructor
      · have : c.eps * (hi - lo) ≤ (hi - lo) * unitInv c y := by linarith
        rw [mul_comm] at this
        exact le_of_mul_le_mul_left this hw
      · have : (hi - lo) * unitInv c y ≤ (hi - lo) * (1 - c.eps) := by linarith
        exact le_of_mul_le_mul_left this hw
    · rintro ⟨a1, a2⟩
      constructor <;> nlinarith
  rw [hpre] at h
  rw [intervalIntegral.integral_of_le hab, ← MeasureTheory.integral_Icc_eq_integral_Ioc, h]

/-- non-vacuity of `normalised_1d_any_kind`: both kinds with the mathematical `erf`, standard normal base -/
example (b : BoundedKind) :
    ∫ x in (0 : ℝ)..2, Real.exp (flowLogProb stdNormalBase
      { kinds := [.bounded 0 2], bounded := b, eps := 0, affine := none, pc := realProbit, mod := rmod } [x]) = 1 :=
  normalised_1d_any_kind stdNormalBase _ 0 2 rfl rfl (fun _ => probitOK_satisfiable) (by norm_num) rfl
    stdNormalBase_normalised

end C03
