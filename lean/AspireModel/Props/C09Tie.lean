import AspireModel.Props.C09
import AspireModel.Lemmas.TieWeights
/-
  C09, tie to the source: the statements of `SMCSamples.resample` that compute the probability vector handed to
  `rng.choice` (`log_w = self.log_weights(beta)` … `w = w / w.sum()`), translated from `/repo` on every run
  (`Gen.resample_p`), are the model's `resampleP`; hence the source's vector is the normalised incremental
  weights and sums to one.
-/
set_option linter.unusedSectionVars false
namespace C09
open Model

section generic
variable {α : Type} [Num α] [DecidableLT α] [DecidableLE α]

theorem tie_log_weights (β β' : α) (ll lp lq : List α) (n : Nat)
    (hn : n = (Model.unnormLogW β β' ll lp lq).length) :
    Gen.log_weights β ll lp lq n β' = Model.logWeights β β' ll lp lq :=
  Tie.log_weights_eq β β' ll lp lq n hn

theorem tie_resample_p (β β' : α) (ll lp lq : List α) (n : Nat)
    (hn : n = (Model.unnormLogW β β' ll lp lq).length) :
    Gen.resample_p β ll lp lq n β' = Model.resampleP β β' ll lp lq := by
  simp [Gen.resample_p, Model.resampleP, Tie.log_weights_eq _ _ _ _ _ _ hn, Tie.logsumexp_eq]

end generic

/-- the source's probability vector is `w / Σ w` with `w_i = exp((β'−β)(log L_i + log π_i − log q_i))` -/
theorem src_resample_p_is_normalised_incremental_weight (β β' : ℝ) (ll lp lq : List ℝ) (n : ℕ)
    (hn : n = (unnormLogW β β' ll lp lq).length) :
    Gen.resample_p β ll lp lq n β' = (incW β β' ll lp lq).map (· / (incW β β' ll lp lq).sum) := by
  rw [tie_resample_p β β' ll lp lq n hn]; exact resampleP_eq_list β β' ll lp lq

theorem src_resample_p_sums_to_one (β β' : ℝ) (ll lp lq : List ℝ) (n : ℕ)
    (hn : n = (unnormLogW β β' ll lp lq).length) (h : logW ll lp lq ≠ []) :
    (Gen.resample_p β ll lp lq n β').sum = 1 := by
  rw [tie_resample_p β β' ll lp lq n hn]; exact resampleP_sum_one β β' ll lp lq h

example : (2 : ℕ) = (unnormLogW (0 : ℝ) 1 [0, 1] [0, 0] [0, 0]).length := by simp [unnormLogW]

end C09
