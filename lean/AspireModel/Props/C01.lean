import AspireModel.Model.Prob
import AspireModel.Lemmas.Real
import AspireModel.Props.C02
import AspireModel.Props.C09
import Mathlib.Algebra.BigOperators.Fin
import Mathlib.Data.Fintype.BigOperators
import Mathlib.Data.List.OfFn
import Mathlib.Analysis.SpecialFunctions.Pow.Real
/-
  C01 — the exact expectation identities behind "importance sampling and every SMC variant return an
  evidence estimate whose expectation is the true evidence, and preconditioning never changes the target".

  "Up to Monte-Carlo error" is a statement about a random variable; what is proved here is the exact
  expectation identity behind it, on a finite state space `X` (expectations are finite sums):
  `Ex p N F = Σ_{f : Fin N → X} (Π_i p (f i)) · F [f 0, …, f (N-1)]` is the expectation of `F` over `N`
  i.i.d. draws from the pmf `p`.

  Model: `Model/Prob.lean` (`isEvidence` = `Samples.compute_weights().evidence` on the drawn points,
  `smcStepEstimate` = `exp(SMCSamples.log_evidence_ratio)`), which are `Model/Weights.lean`
  `computeWeights` and `Model/Tempering.lean` `logEvidenceRatio` applied to the log-densities of the draws.
-/
namespace C01
open Model

section Expectation
variable {X : Type} [Fintype X]

/-- expectation of `F` over `N` i.i.d. draws from the pmf `p` -/
noncomputable def Ex (p : X → ℝ) (N : ℕ) (F : List X → ℝ) : ℝ :=
  ∑ f : Fin N → X, (∏ i, p (f i)) * F (List.ofFn f)

theorem Ex_zero (p : X → ℝ) (F : List X → ℝ) : Ex p 0 F = F [] := by
  simp [Ex]

/-- peel off the first draw -/
theorem Ex_succ (p : X → ℝ) (N : ℕ) (F : List X → ℝ) :
    Ex p (N + 1) F = ∑ x, p x * Ex p N (fun xs => F (x :: xs)) := by
  unfold Ex
  rw [← (Fin.consEquiv (fun _ : Fin (N + 1) => X)).sum_comp, Fintype.sum_prod_type]
  apply Finset.sum_congr rfl
  intro x _
  rw [Finset.mul_sum]
  apply Finset.sum_congr rfl
  intro g _
  simp only [Fin.consEquiv, Equiv.coe_fn_mk, Fin.prod_univ_succ, Fin.cons_zero, Fin.cons_succ,
    List.ofFn_succ]
  ring

/-- only the values of `F` on lists of length `N` matter -/
theorem Ex_congr (p : X → ℝ) (N : ℕ) (F G : List X → ℝ)
    (h : ∀ xs : List X, xs.length = N → F xs = G xs) : Ex p N F = Ex p N G := by
  unfold Ex
  apply Finset.sum_congr rfl
  intro f _
  rw [h _ (List.length_ofFn)]

theorem Ex_add (p : X → ℝ) (N : ℕ) (F G : List X → ℝ) :
    Ex p N (fun xs => F xs + G xs) = Ex p N F + Ex p N G := by
  unfold Ex
  rw [← Finset.sum_add_distrib]
  apply Finset.sum_congr rfl
  intro f _; ring

theorem Ex_smul (p : X → ℝ) (N : ℕ) (c : ℝ) (F : List X → ℝ) :
    Ex p N (fun xs => c * F xs) = c * Ex p N F := by
  unfold Ex
  rw [Finset.mul_sum]
  apply Finset.sum_congr rfl
  intro f _; ring

theorem Ex_div_const (p : X → ℝ) (N : ℕ) (c : ℝ) (F : List X → ℝ) :
    Ex p N (fun xs => F xs / c) = Ex p N F / c := by
  simp only [div_eq_mul_inv]
  unfold Ex
  rw [Finset.sum_mul]
  apply Finset.sum_congr rfl
  intro f _; ring

/-- a pmf has total mass one on `N`-tuples: `E[c] = c` -/
theorem Ex_const (p : X → ℝ) (hp : ∑ x, p x = 1) (N : ℕ) (c : ℝ) :
    Ex p N (fun _ => c) = c := by
  induction N with
  | zero => simp [Ex_zero]
  | succ N ih =>
    rw [Ex_succ]
    simp only [ih]
    rw [← Finset.sum_mul, hp, one_mul]

/-- `E[Σ_i h(x_i)] = N · E_p[h]`: each coordinate of an i.i.d. tuple has marginal `p` -/
theorem Ex_sum (p : X → ℝ) (hp : ∑ x, p x = 1) (h : X → ℝ) (N : ℕ) :
    Ex p N (fun xs => (xs.map h).sum) = (N : ℝ) * ∑ x, p x * h x := by
  induction N with
  | zero => simp [Ex_zero]
  | succ N ih =>
    rw [Ex_succ]
    simp only [List.map_cons, List.sum_cons]
    have : ∀ x, Ex p N (fun xs => h x + (xs.map h).sum) = h x + (N : ℝ) * ∑ y, p y * h y := by
      intro x
      rw [Ex_add, Ex_const p hp, ih]
    simp only [this, mul_add]
    rw [Finset.sum_add_distrib, ← Finset.sum_mul, hp]
    push_cast
    ring

/-- **marginalisation**: the sample mean of `h` over `N ≥ 1` i.i.d. draws has expectation `E_p[h]` -/
theorem Ex_mean (p : X → ℝ) (hp : ∑ x, p x = 1) (h : X → ℝ) (N : ℕ) (hN : 1 ≤ N) :
    Ex p N (fun xs => (xs.map h).sum / (N : ℝ)) = ∑ x, p x * h x := by
  rw [Ex_div_const, Ex_sum p hp]
  have : (N : ℝ) ≠ 0 := by exact_mod_cast (by omega : N ≠ 0)
  field_simp

end Expectation

/-! ## importance sampling -/
section IS
variable {X : Type}

/-- the model's log-weight vector of the draws `xs` is `log L + log π − log q`, point by point -/
theorem logW_map (logL logPi logQ : X → ℝ) (xs : List X) :
    logW (xs.map logL) (xs.map logPi) (xs.map logQ)
      = xs.map fun x => logL x + logPi x - logQ x := by
  induction xs with
  | nil => simp [logW]
  | cons x xs ih => simp only [List.map_cons, logW, ih]

/-- the importance weight of a point, `L π / q`, written with the log-densities the code sees -/
noncomputable def isW (logL logPi logQ : X → ℝ) (x : X) : ℝ :=
  Real.exp (logL x) * Real.exp (logPi x) / Real.exp (logQ x)

theorem exp_logw (logL logPi logQ : X → ℝ) (x : X) :
    Real.exp (logL x + logPi x - logQ x) = isW logL logPi logQ x := by
  rw [isW, Real.exp_sub, Real.exp_add]

/-- the weights column `Samples.weights = exp(log_w)` is `L π / q` at each draw -/
theorem weights_eq (logL logPi logQ : X → ℝ) (xs : List X) :
    (computeWeights (xs.map logL) (xs.map logPi) (xs.map logQ)).weights
      = xs.map (isW logL logPi logQ) := by
  simp only [computeWeights, logW_map, List.map_map]
  apply List.map_congr_left
  intro x _
  exact exp_logw logL logPi logQ x

/-- **the evidence estimate of the model is the mean importance weight**
    (`evidence = exp(logsumexp(log_w) − log N) = (1/N) Σ_i L_i π_i / q_i`) -/
theorem isEvidence_eq_mean_weight (logL logPi logQ : X → ℝ) (xs : List X) (h : xs ≠ []) :
    isEvidence logL logPi logQ xs
      = (xs.map (isW logL logPi logQ)).sum / (xs.length : ℝ) := by
  have hne : logW (xs.map logL) (xs.map logPi) (xs.map logQ) ≠ [] := by
    rw [logW_map]; simpa using h
  have e : isEvidence logL logPi logQ xs
      = Real.exp (computeWeights (xs.map logL) (xs.map logPi) (xs.map logQ)).logZ := rfl
  rw [e, C02.logZ_eq _ _ _ hne]
  have hn : (0 : ℝ) < ((logW (xs.map logL) (xs.map logPi) (xs.map logQ)).length : ℝ) := by
    exact_mod_cast List.length_pos_iff.mpr hne
  rw [Real.exp_log (div_pos (C02.S1_pos _ hne) hn)]
  simp only [C02.S1, logW_map, List.map_map, List.length_map]
  congr 2
  apply List.map_congr_left
  intro x _
  exact exp_logw logL logPi logQ x

variable [Fintype X]

/-- **MAIN (importance sampling): the evidence estimate of the model is exactly unbiased.**
    For every finite `X`, every `N ≥ 1`, every strictly positive proposal pmf `q` (with `log_q = log q`, the
    log-density returned by `sample_and_log_prob`), every log-likelihood and log-prior:
    `E_{x_1..x_N ~ q}[ Samples.evidence ] = Σ_x L(x) π(x) = Z`. -/
theorem is_unbiased (q : X → ℝ) (hq : ∀ x, 0 < q x) (hq1 : ∑ x, q x = 1) (logL logPi : X → ℝ)
    (N : ℕ) (hN : 1 ≤ N) :
    Ex q N (isEvidence logL logPi (fun x => Real.log (q x)))
      = ∑ x, Real.exp (logL x) * Real.exp (logPi x) := by
  rw [Ex_congr q N _ (fun xs => (xs.map (isW logL logPi fun x => Real.log (q x))).sum / (N : ℝ))]
  · rw [Ex_mean q hq1 _ N hN]
    apply Finset.sum_congr rfl
    intro x _
    rw [isW, Real.exp_log (hq x)]
    have := (hq x).ne'
    field_simp
  · intro xs hxs
    have hne : xs ≠ [] := by
      intro e; subst e; simp at hxs; omega
    rw [isEvidence_eq_mean_weight _ _ _ _ hne, hxs]

/-- the unnormalised weighted moment `(1/N) Σ_i w_i h(x_i)` built from the model's weight column has
    expectation `Σ_x L π h = Z · E_post[h]`; with `is_unbiased` the ratio of the two expectations is the
    posterior moment (the self-normalised estimator itself is a ratio, consistent but not unbiased). -/
theorem is_weighted_moment (q : X → ℝ) (hq : ∀ x, 0 < q x) (hq1 : ∑ x, q x = 1) (logL logPi h : X → ℝ)
    (N : ℕ) (hN : 1 ≤ N) :
    Ex q N (fun xs => (List.zipWith (· * ·)
        (computeWeights (xs.map logL) (xs.map logPi) (xs.map fun x => Real.log (q x))).weights
        (xs.map h)).sum / (N : ℝ))
      = ∑ x, Real.exp (logL x) * Real.exp (logPi x) * h x := by
  have e : ∀ xs : List X, List.zipWith (· * ·)
        (computeWeights (xs.map logL) (xs.map logPi) (xs.map fun x => Real.log (q x))).weights (xs.map h)
      = xs.map fun x => isW logL logPi (fun x => Real.log (q x)) x * h x := by
    intro xs
    rw [weights_eq]
    induction xs with
    | nil => simp
    | cons x xs ih => simp only [List.map_cons, List.zipWith_cons_cons, ih]
  simp only [e]
  rw [Ex_mean q hq1 _ N hN]
  apply Finset.sum_congr rfl
  intro x _
  rw [isW, Real.exp_log (hq x)]
  have := (hq x).ne'
  field_simp

/-- **NEGATIVE (sensitivity of `is_unbiased` to the model):** the same estimate without the `− log N` term,
    `exp(logsumexp(log_w))`, has expectation `N · Z`, hence is biased for every `N ≥ 2` -/
theorem dropping_logN_expectation (q : X → ℝ) (hq : ∀ x, 0 < q x) (hq1 : ∑ x, q x = 1)
    (logL logPi : X → ℝ) (N : ℕ) (hN : 1 ≤ N) :
    Ex q N (fun xs => Real.exp (logsumexp
        (logW (xs.map logL) (xs.map logPi) (xs.map fun x => Real.log (q x)))))
      = (N : ℝ) * ∑ x, Real.exp (logL x) * Real.exp (logPi x) := by
  rw [Ex_congr q N _ (fun xs => (xs.map (isW logL logPi fun x => Real.log (q x))).sum)]
  · rw [Ex_sum q hq1]
    congr 1
    apply Finset.sum_congr rfl
    intro x _
    rw [isW, Real.exp_log (hq x)]
    have := (hq x).ne'
    field_simp
  · intro xs hxs
    have hne : xs ≠ [] := by
      intro e; subst e; simp at hxs; omega
    have hne' : (xs.map fun x => logL x + logPi x - Real.log (q x)) ≠ [] := by simpa using hne
    rw [logW_map, logsumexp_eq _ hne', Real.exp_log (sum_exp_pos _ hne'), List.map_map]
    congr 1
    apply List.map_congr_left
    intro x _
    exact exp_logw logL logPi (fun x => Real.log (q x)) x

end IS

/-! ## a prior that vanishes on part of the space -/
section ZeroPrior
variable {X : Type} [Fintype X] [DecidableEq X]

/-- importance weight when the prior vanishes on `Z0` (`log_prior = −∞` there, `exp(−∞) = 0`):
    `w x = 0` on `Z0`, `L π / q` elsewhere.  (`log 0` is not representable over ℝ, so the zero-prior
    points are modelled on the weight level.) -/
noncomputable def w0 (Z0 : Finset X) (q : X → ℝ) (logL logPi : X → ℝ) (x : X) : ℝ :=
  if x ∈ Z0 then 0 else Real.exp (logL x) * Real.exp (logPi x) / q x

/-- **unbiased with a zero-prior region**: the out-of-support draws must be kept in the population
    with weight 0 and counted in `N`; then the mean weight is unbiased for `Z = Σ_{x ∉ Z0} L π`. -/
theorem is_unbiased_with_zero_prior (Z0 : Finset X) (q : X → ℝ) (hq : ∀ x, 0 < q x)
    (hq1 : ∑ x, q x = 1) (logL logPi : X → ℝ) (N : ℕ) (hN : 1 ≤ N) :
    Ex q N (fun xs => (xs.map (w0 Z0 q logL logPi)).sum / (N : ℝ))
      = ∑ x ∈ Z0ᶜ, Real.exp (logL x) * Real.exp (logPi x) := by
  rw [Ex_mean q hq1 _ N hN, ← Finset.sum_filter_not_add_sum_filter Finset.univ (· ∈ Z0)]
  have h1 : ∑ x ∈ Finset.univ.filter (· ∈ Z0), q x * w0 Z0 q logL logPi x = 0 := by
    apply Finset.sum_eq_zero
    intro x hx
    simp only [Finset.mem_filter, Finset.mem_univ, true_and] at hx
    simp [w0, hx]
  rw [h1, add_zero]
  have h2 : Finset.univ.filter (fun x => ¬ x ∈ Z0) = Z0ᶜ := by
    ext x; simp
  rw [h2]
  apply Finset.sum_congr rfl
  intro x hx
  have hx' : x ∉ Z0 := by simpa using hx
  have := (hq x).ne'
  simp only [w0, hx', if_false]
  field_simp

/-- the estimator a "skip the out-of-support draws" optimisation would compute: the same sum of weights
    divided by the number of draws *outside* `Z0` instead of by `N` -/
noncomputable def droppedEstimate (Z0 : Finset X) (q : X → ℝ) (logL logPi : X → ℝ) (xs : List X) : ℝ :=
  (xs.map (w0 Z0 q logL logPi)).sum / ((xs.filter (· ∉ Z0)).length : ℝ)

/-- **NEGATIVE: dropping the zero-weight draws is biased.**  Two points, uniform proposal, prior zero on
    `false`, `N = 2`: the true evidence is `Z = L(true) π(true)`, the dropped-draws estimator has
    expectation `(3/2) Z` (for every likelihood and prior value at `true`). -/
theorem dropping_zero_weight_draws_expectation (logL logPi : Bool → ℝ) :
    Ex (fun _ : Bool => (1 / 2 : ℝ)) 2 (droppedEstimate {false} (fun _ => 1 / 2) logL logPi)
      = 3 / 2 * (Real.exp (logL true) * Real.exp (logPi true)) := by
  have wt : w0 {false} (fun _ : Bool => (1 / 2 : ℝ)) logL logPi true
      = Real.exp (logL true) * Real.exp (logPi true) / (1 / 2) := by simp [w0]
  have wf : w0 {false} (fun _ : Bool => (1 / 2 : ℝ)) logL logPi false = 0 := by simp [w0]
  simp only [Ex_succ, Ex_zero, Fintype.sum_bool, droppedEstimate]
  generalize w0 {false} (fun _ : Bool => (1 / 2 : ℝ)) logL logPi = w at wt wf ⊢
  simp
  rw [wt, wf]
  ring

theorem dropping_zero_weight_draws_is_biased (logL logPi : Bool → ℝ) :
    Ex (fun _ : Bool => (1 / 2 : ℝ)) 2 (droppedEstimate {false} (fun _ => 1 / 2) logL logPi)
      ≠ ∑ x ∈ ({false} : Finset Bool)ᶜ, Real.exp (logL x) * Real.exp (logPi x) := by
  rw [dropping_zero_weight_draws_expectation]
  have hc : ({false} : Finset Bool)ᶜ = {true} := by decide
  rw [hc, Finset.sum_singleton]
  have : 0 < Real.exp (logL true) * Real.exp (logPi true) := by positivity
  linarith

/-- … whereas keeping them (dividing by `N`) is unbiased on the very same example -/
example (logL logPi : Bool → ℝ) :
    Ex (fun _ : Bool => (1 / 2 : ℝ)) 2
        (fun xs => (xs.map (w0 {false} (fun _ => 1 / 2) logL logPi)).sum / ((2 : ℕ) : ℝ))
      = ∑ x ∈ ({false} : Finset Bool)ᶜ, Real.exp (logL x) * Real.exp (logPi x) :=
  is_unbiased_with_zero_prior {false} _ (by intro; norm_num) (by simp) logL logPi 2 (by norm_num)

end ZeroPrior

/-! ## SMC: tempered targets, per-step estimate, telescoping -/
section SMC
variable {X : Type}

/-- unnormalised tempered density `exp(log_p_t(β)) = q^{1−β} (L π)^β`, through the model's `logPt` -/
noncomputable def temp (logL logPi logQ : X → ℝ) (β : ℝ) (x : X) : ℝ :=
  Real.exp (logPt β (logQ x) (logL x) (logPi x))

theorem temp_pos (logL logPi logQ : X → ℝ) (β : ℝ) (x : X) : 0 < temp logL logPi logQ β x :=
  Real.exp_pos _

/-- the tempered density in power form -/
theorem temp_eq_rpow (q : X → ℝ) (hq : ∀ x, 0 < q x) (logL logPi : X → ℝ) (β : ℝ) (x : X) :
    temp logL logPi (fun x => Real.log (q x)) β x
      = q x ^ (1 - β) * (Real.exp (logL x) * Real.exp (logPi x)) ^ β := by
  rw [temp, logPt, Real.rpow_def_of_pos (hq x), ← Real.exp_add (logL x), ← Real.exp_mul,
    ← Real.exp_add]
  congr 1; ring

theorem temp_zero (logL logPi logQ : X → ℝ) (x : X) :
    temp logL logPi logQ 0 x = Real.exp (logQ x) := by
  simp [temp, logPt]

theorem temp_one (logL logPi logQ : X → ℝ) (x : X) :
    temp logL logPi logQ 1 x = Real.exp (logL x) * Real.exp (logPi x) := by
  simp [temp, logPt, Real.exp_add]

/-- incremental weight of the move `β → β'` at a point: `exp((β' − β)(log L + log π − log q))` -/
noncomputable def incr (logL logPi logQ : X → ℝ) (β β' : ℝ) (x : X) : ℝ :=
  Real.exp ((β' - β) * (logL x + logPi x - logQ x))

/-- reweighting the `β`-target by the incremental weight gives the `β'`-target -/
theorem temp_mul_incr (logL logPi logQ : X → ℝ) (β β' : ℝ) (x : X) :
    temp logL logPi logQ β x * incr logL logPi logQ β β' x = temp logL logPi logQ β' x := by
  rw [temp, incr, ← Real.exp_add, temp]
  congr 1
  simp only [logPt]
  ring

/-- **the per-step estimate of the model is the mean incremental weight**
    (`exp(log_evidence_ratio(β')) = (1/N) Σ_i exp((β' − β)(log L_i + log π_i − log q_i))`) -/
theorem smcStepEstimate_eq_mean (logL logPi logQ : X → ℝ) (β β' : ℝ) (xs : List X) (h : xs ≠ []) :
    smcStepEstimate logL logPi logQ β β' xs
      = (xs.map (incr logL logPi logQ β β')).sum / (xs.length : ℝ) := by
  have hne : (xs.map fun x => (β' - β) * (logL x + logPi x - logQ x)) ≠ [] := by simpa using h
  have hn : (0 : ℝ) < (xs.length : ℝ) := by exact_mod_cast List.length_pos_iff.mpr h
  simp only [smcStepEstimate, logEvidenceRatio, C09.unnormLogW_eq, logW_map, List.map_map,
    List.length_map, exp_real, log_real]
  have e : ((fun v => (β' - β) * v) ∘ fun x => logL x + logPi x - logQ x)
      = fun x => (β' - β) * (logL x + logPi x - logQ x) := rfl
  rw [e, logsumexp_eq _ hne, Real.exp_sub, Real.exp_log hn, Real.exp_log (sum_exp_pos _ hne),
    List.map_map]
  rfl

variable [Fintype X]

/-- normalising constant of the tempered target, `Z_β = Σ_x q^{1−β} (L π)^β` -/
noncomputable def Zt (logL logPi logQ : X → ℝ) (β : ℝ) : ℝ := ∑ x, temp logL logPi logQ β x

/-- tempered pmf `p_β = q^{1−β} (L π)^β / Z_β` -/
noncomputable def pt (logL logPi logQ : X → ℝ) (β : ℝ) (x : X) : ℝ :=
  temp logL logPi logQ β x / Zt logL logPi logQ β

theorem Zt_pos [Nonempty X] (logL logPi logQ : X → ℝ) (β : ℝ) : 0 < Zt logL logPi logQ β :=
  Finset.sum_pos (fun x _ => temp_pos logL logPi logQ β x) Finset.univ_nonempty

theorem pt_pos [Nonempty X] (logL logPi logQ : X → ℝ) (β : ℝ) (x : X) : 0 < pt logL logPi logQ β x :=
  div_pos (temp_pos _ _ _ _ _) (Zt_pos _ _ _ _)

theorem pt_sum_one [Nonempty X] (logL logPi logQ : X → ℝ) (β : ℝ) :
    ∑ x, pt logL logPi logQ β x = 1 := by
  simp only [pt]
  rw [← Finset.sum_div]
  exact div_self (Zt_pos logL logPi logQ β).ne'

/-- `Z_0 = Σ q` (`= 1` for a normalised proposal) -/
theorem Zt_zero (logL logPi logQ : X → ℝ) : Zt logL logPi logQ 0 = ∑ x, Real.exp (logQ x) := by
  simp only [Zt, temp_zero]

/-- `Z_1 = Σ L π = Z`, the evidence -/
theorem Zt_one (logL logPi logQ : X → ℝ) :
    Zt logL logPi logQ 1 = ∑ x, Real.exp (logL x) * Real.exp (logPi x) := by
  simp only [Zt, temp_one]

/-- `p_0 = q` and `p_1 = L π / Z` (the posterior) for a normalised proposal -/
theorem pt_zero (q : X → ℝ) (hq : ∀ x, 0 < q x) (hq1 : ∑ x, q x = 1) (logL logPi : X → ℝ) (x : X) :
    pt logL logPi (fun x => Real.log (q x)) 0 x = q x := by
  have : Zt logL logPi (fun x => Real.log (q x)) 0 = 1 := by
    rw [Zt_zero, ← hq1]; exact Finset.sum_congr rfl (fun x _ => Real.exp_log (hq x))
  rw [pt, this, temp_zero, Real.exp_log (hq x), div_one]

theorem pt_one (logL logPi logQ : X → ℝ) (x : X) :
    pt logL logPi logQ 1 x
      = Real.exp (logL x) * Real.exp (logPi x) / ∑ y, Real.exp (logL y) * Real.exp (logPi y) := by
  rw [pt, Zt_one, temp_one]

/-- **SMC step: the per-step estimate of the model is exactly unbiased for `Z_{β'} / Z_β`** when the
    population is `N ≥ 1` i.i.d. draws from the tempered target `p_β`, for every `β, β'` (any reals),
    every log-likelihood, log-prior and proposal log-density (the proposal need not even be normalised). -/
theorem smc_step_ratio (logL logPi logQ : X → ℝ) (β β' : ℝ) (N : ℕ) (hN : 1 ≤ N) :
    Ex (pt logL logPi logQ β) N (smcStepEstimate logL logPi logQ β β')
      = Zt logL logPi logQ β' / Zt logL logPi logQ β := by
  rcases isEmpty_or_nonempty X with hX | hX
  · -- no points at all: both sides are empty sums
    have : Nonempty (Fin N) := ⟨⟨0, hN⟩⟩
    simp [Ex, Zt]
  · rw [Ex_congr _ N _ (fun xs => (xs.map (incr logL logPi logQ β β')).sum / (N : ℝ))]
    · rw [Ex_mean _ (pt_sum_one logL logPi logQ β) _ N hN]
      simp only [pt, div_mul_eq_mul_div, temp_mul_incr]
      rw [← Finset.sum_div]
      rfl
    · intro xs hxs
      have hne : xs ≠ [] := by
        intro e; subst e; simp at hxs; omega
      rw [smcStepEstimate_eq_mean _ _ _ _ _ _ hne, hxs]

/-- reweighted moments of the `β`-population target the `β'`-distribution:
    `E_{p_β}[w h] = (Z_{β'}/Z_β) · E_{p_β'}[h]` with `w` the incremental weight
    (so the weighted population used by `resample` has the right limit) -/
theorem smc_reweight_targets_next [Nonempty X] (logL logPi logQ : X → ℝ) (β β' : ℝ) (h : X → ℝ) :
    ∑ x, pt logL logPi logQ β x * (incr logL logPi logQ β β' x * h x)
      = Zt logL logPi logQ β' / Zt logL logPi logQ β * ∑ x, pt logL logPi logQ β' x * h x := by
  have h1 := (Zt_pos logL logPi logQ β).ne'
  have h2 := (Zt_pos logL logPi logQ β').ne'
  rw [Finset.mul_sum]
  apply Finset.sum_congr rfl
  intro x _
  simp only [pt]
  rw [← temp_mul_incr logL logPi logQ β β' x]
  field_simp

/-! ### telescoping -/

/-- ratios of consecutive normalising constants along a temperature list starting at `b` -/
noncomputable def stepRatios (Z : ℝ → ℝ) : ℝ → List ℝ → List ℝ
  | _, [] => []
  | b, b' :: bs => Z b' / Z b :: stepRatios Z b' bs

theorem stepRatios_prod (Z : ℝ → ℝ) (hZ : ∀ b, Z b ≠ 0) (b : ℝ) (bs : List ℝ) :
    (stepRatios Z b bs).prod = Z ((b :: bs).getLast (by simp)) / Z b := by
  induction bs generalizing b with
  | nil => simp [stepRatios, hZ b]
  | cons b' bs ih =>
    simp only [stepRatios, List.prod_cons, ih b']
    rw [List.getLast_cons (by simp : b' :: bs ≠ [])]
    have := hZ b'
    field_simp

/-- **telescoping**: along any schedule `0 = β_0, β_1, …, β_T = 1` (monotone or not) the product of the
    exact ratios `Z_{β_t}/Z_{β_{t−1}}` is the evidence `Z = Σ L π` (`Z_0 = Σ q = 1`) -/
theorem telescoping (q : X → ℝ) (hq : ∀ x, 0 < q x) (hq1 : ∑ x, q x = 1) (logL logPi : X → ℝ)
    (bs : List ℝ) (hlast : ((0 : ℝ) :: bs).getLast (by simp) = 1) :
    (stepRatios (Zt logL logPi fun x => Real.log (q x)) 0 bs).prod
      = ∑ x, Real.exp (logL x) * Real.exp (logPi x) := by
  have : Nonempty X := by
    by_contra hne
    rw [not_nonempty_iff] at hne
    simp at hq1
  rw [stepRatios_prod _ (fun b => (Zt_pos _ _ _ b).ne'), hlast, Zt_one, Zt_zero]
  have : ∑ x, Real.exp (Real.log (q x)) = 1 := by
    rw [← hq1]; exact Finset.sum_congr rfl (fun x _ => Real.exp_log (hq x))
  rw [this, div_one]

/-- expected per-step estimates along a schedule, each population being `N` i.i.d. draws from its
    tempered target (the idealised SMC population after a perfectly mixing mutation step) -/
noncomputable def stepExpectations (logL logPi logQ : X → ℝ) (N : ℕ) : ℝ → List ℝ → List ℝ
  | _, [] => []
  | b, b' :: bs =>
    Ex (pt logL logPi logQ b) N (smcStepEstimate logL logPi logQ b b')
      :: stepExpectations logL logPi logQ N b' bs

theorem stepExpectations_eq (logL logPi logQ : X → ℝ) (N : ℕ) (hN : 1 ≤ N) (b : ℝ) (bs : List ℝ) :
    stepExpectations logL logPi logQ N b bs = stepRatios (Zt logL logPi logQ) b bs := by
  induction bs generalizing b with
  | nil => rfl
  | cons b' bs ih => simp only [stepExpectations, stepRatios, ih b', smc_step_ratio _ _ _ _ _ N hN]

/-- **SMC evidence**: the product over the schedule of the expected per-step estimates is the evidence.
    (`samples.log_evidence = Σ_t log_norm_ratio_t`, i.e. the evidence estimate is the product of the
    per-step estimates, see `evidence_is_product`.) -/
theorem smc_product_of_step_expectations (q : X → ℝ) (hq : ∀ x, 0 < q x) (hq1 : ∑ x, q x = 1)
    (logL logPi : X → ℝ) (N : ℕ) (hN : 1 ≤ N)
    (bs : List ℝ) (hlast : ((0 : ℝ) :: bs).getLast (by simp) = 1) :
    (stepExpectations logL logPi (fun x => Real.log (q x)) N 0 bs).prod
      = ∑ x, Real.exp (logL x) * Real.exp (logPi x) := by
  rw [stepExpectations_eq _ _ _ N hN, telescoping q hq hq1 logL logPi bs hlast]

/-- the loop's `log_evidence = sum(log_norm_ratio)`: the evidence `exp(log_evidence)` is the product of the
    per-step estimates `exp(log_norm_ratio_t)` -/
theorem evidence_is_product (logRatios : List ℝ) :
    Real.exp logRatios.sum = (logRatios.map Real.exp).prod := Real.exp_list_sum logRatios

end SMC

/-! ## preconditioning does not change the target (finite version) -/
section Precond
variable {X Y : Type} [Fintype X] [Fintype Y]

omit [Fintype X] [Fintype Y] in
/-- the unnormalised tempered density defined from the transported densities, at the image point,
    is the original one at the pre-image -/
theorem temp_transport (T : X ≃ Y) (logL logPi logQ : X → ℝ) (β : ℝ) (x : X) :
    temp (logL ∘ T.symm) (logPi ∘ T.symm) (logQ ∘ T.symm) β (T x) = temp logL logPi logQ β x := by
  simp [temp]

theorem Zt_transport (T : X ≃ Y) (logL logPi logQ : X → ℝ) (β : ℝ) :
    Zt (logL ∘ T.symm) (logPi ∘ T.symm) (logQ ∘ T.symm) β = Zt logL logPi logQ β := by
  unfold Zt
  rw [← T.sum_comp]
  exact Finset.sum_congr rfl (fun x _ => temp_transport T logL logPi logQ β x)

/-- **preconditioning invariance**: for any bijection `T : X ≃ Y` the tempered pmf built in `Y`-space from
    the transported densities is the push-forward of the tempered pmf of `X`-space, for every `β`
    (in particular `β = 1`: the posterior). -/
theorem precond_invariant (T : X ≃ Y) (logL logPi logQ : X → ℝ) (β : ℝ) (x : X) :
    pt (logL ∘ T.symm) (logPi ∘ T.symm) (logQ ∘ T.symm) β (T x) = pt logL logPi logQ β x := by
  rw [pt, pt, temp_transport, Zt_transport]

/-- … hence the expectation of every observable agrees -/
theorem precond_invariant_expectation (T : X ≃ Y) (logL logPi logQ : X → ℝ) (β : ℝ) (obs : Y → ℝ) :
    ∑ y, pt (logL ∘ T.symm) (logPi ∘ T.symm) (logQ ∘ T.symm) β y * obs y
      = ∑ x, pt logL logPi logQ β x * obs (T x) := by
  rw [← T.sum_comp]
  exact Finset.sum_congr rfl (fun x _ => by rw [precond_invariant])

/-- change of variables for i.i.d. expectations -/
theorem Ex_transport (T : X ≃ Y) (pX : X → ℝ) (pY : Y → ℝ) (hp : ∀ x, pY (T x) = pX x)
    (N : ℕ) (F : List Y → ℝ) :
    Ex pY N F = Ex pX N (fun xs => F (xs.map T)) := by
  unfold Ex
  rw [← (Equiv.arrowCongr (Equiv.refl (Fin N)) T).sum_comp]
  apply Finset.sum_congr rfl
  intro f _
  have e : (Equiv.arrowCongr (Equiv.refl (Fin N)) T) f = fun i => T (f i) := by
    funext i; simp [Equiv.arrowCongr]
  rw [e]
  simp only [hp, List.map_ofFn]
  rfl

/-- … and the law of every statistic of a population of `N` i.i.d. draws agrees -/
theorem precond_invariant_Ex (T : X ≃ Y) (logL logPi logQ : X → ℝ) (β : ℝ) (N : ℕ) (F : List Y → ℝ) :
    Ex (pt (logL ∘ T.symm) (logPi ∘ T.symm) (logQ ∘ T.symm) β) N F
      = Ex (pt logL logPi logQ β) N (fun xs => F (xs.map T)) :=
  Ex_transport T _ _ (precond_invariant T logL logPi logQ β) N F

omit [Fintype X] [Fintype Y] in
/-- the estimates themselves are the same numbers whether computed in `X`- or in `Y`-space -/
theorem estimates_transport (T : X ≃ Y) (logL logPi logQ : X → ℝ) (β β' : ℝ) (xs : List X) :
    isEvidence (logL ∘ T.symm) (logPi ∘ T.symm) (logQ ∘ T.symm) (xs.map T)
        = isEvidence logL logPi logQ xs
    ∧ smcStepEstimate (logL ∘ T.symm) (logPi ∘ T.symm) (logQ ∘ T.symm) β β' (xs.map T)
        = smcStepEstimate logL logPi logQ β β' xs := by
  have e : ∀ f : X → ℝ, (xs.map T).map (f ∘ T.symm) = xs.map f := by
    intro f; rw [List.map_map]; apply List.map_congr_left; intro x _; simp
  simp only [isEvidence, smcStepEstimate, e, and_self]

/-- **with a Jacobian**: if `X` and `Y` carry reference masses `μ`, `ν` (the discrete analogue of the
    volume elements) the density of the push-forward picks up `J = μ(T⁻¹y)/ν(y)`, and the kernel target
    of the model, `SMCSampler.log_prob(z, β) = log_p_t(x) + log|J|` (`smcTarget`, no NaN over ℝ), has the
    same mass at `y` as the `X`-space tempered target at `T⁻¹ y`, hence the same total mass. -/
theorem precond_invariant_with_jacobian (T : X ≃ Y) (μ : X → ℝ) (ν : Y → ℝ) (hμ : ∀ x, 0 < μ x)
    (hν : ∀ y, 0 < ν y) (logL logPi logQ : X → ℝ) (β : ℝ) :
    (∀ y, Real.exp (smcTarget (fun _ => false) 0 β (logQ (T.symm y)) (logL (T.symm y))
            (logPi (T.symm y)) (Real.log (μ (T.symm y) / ν y))) * ν y
          = temp logL logPi logQ β (T.symm y) * μ (T.symm y))
    ∧ ∑ y, Real.exp (smcTarget (fun _ => false) 0 β (logQ (T.symm y)) (logL (T.symm y))
            (logPi (T.symm y)) (Real.log (μ (T.symm y) / ν y))) * ν y
        = ∑ x, temp logL logPi logQ β x * μ x := by
  have h1 : ∀ y, Real.exp (smcTarget (fun _ => false) 0 β (logQ (T.symm y)) (logL (T.symm y))
            (logPi (T.symm y)) (Real.log (μ (T.symm y) / ν y))) * ν y
          = temp logL logPi logQ β (T.symm y) * μ (T.symm y) := by
    intro y
    have := (hν y).ne'
    simp only [smcTarget, nanToNegInf, Bool.false_eq_true, if_false]
    rw [Real.exp_add, Real.exp_log (div_pos (hμ _) (hν y)), temp]
    field_simp
  refine ⟨h1, ?_⟩
  rw [← T.symm.sum_comp (fun x => temp logL logPi logQ β x * μ x)]
  exact Finset.sum_congr rfl (fun y _ => h1 y)

end Precond

/-! ## the interacting particle system: the SMC evidence estimate itself is unbiased

  `stepExpectations` above treats every population as i.i.d. from its tempered target.  The actual loop
  (src/aspire/samplers/smc/base.py) is an interacting particle system: from the population at `β` it computes
  `log_evidence_ratio(β')`, draws `N` ancestor indices with the probabilities `resampleP` (C09), and moves each
  copy with a Markov kernel that targets `p_β'`.  `smcValue` is the conditional expectation, given the current
  population, of the product of the remaining per-step estimates; the theorem `smc_unbiased` says that for a
  *fixed* schedule, multinomial resampling and any `p_β`-invariant mutation kernels its expectation over the
  initial draws from `q` is exactly the evidence. -/
section SMCFull
variable {X : Type} [Fintype X]

/-- expectation over independent draws `x_i ~ κs[i]` (not identically distributed) -/
noncomputable def ExL : List (X → ℝ) → (List X → ℝ) → ℝ
  | [], F => F []
  | κ :: κs, F => ∑ x, κ x * ExL κs (fun xs => F (x :: xs))

theorem Ex_eq_ExL (p : X → ℝ) (N : ℕ) (F : List X → ℝ) : Ex p N F = ExL (List.replicate N p) F := by
  induction N generalizing F with
  | zero => simp [Ex_zero, ExL]
  | succ N ih =>
    rw [Ex_succ, List.replicate_succ, ExL]
    exact Finset.sum_congr rfl (fun x _ => by rw [ih])

theorem ExL_congr (κs : List (X → ℝ)) (F G : List X → ℝ)
    (h : ∀ xs : List X, xs.length = κs.length → F xs = G xs) : ExL κs F = ExL κs G := by
  induction κs generalizing F G with
  | nil => exact h [] rfl
  | cons κ κs ih =>
    simp only [ExL]
    apply Finset.sum_congr rfl
    intro x _
    rw [ih _ _ (fun xs hxs => h (x :: xs) (by simp [hxs]))]

theorem ExL_const (κs : List (X → ℝ)) (h1 : ∀ κ ∈ κs, ∑ x, κ x = 1) (c : ℝ) :
    ExL κs (fun _ => c) = c := by
  induction κs with
  | nil => rfl
  | cons κ κs ih =>
    simp only [ExL]
    rw [ih (fun κ' hκ' => h1 κ' (List.mem_cons_of_mem _ hκ')), ← Finset.sum_mul,
      h1 κ List.mem_cons_self, one_mul]

theorem ExL_add (κs : List (X → ℝ)) (F G : List X → ℝ) :
    ExL κs (fun xs => F xs + G xs) = ExL κs F + ExL κs G := by
  induction κs generalizing F G with
  | nil => rfl
  | cons κ κs ih =>
    simp only [ExL, ih, mul_add, Finset.sum_add_distrib]

theorem ExL_div_const (κs : List (X → ℝ)) (F : List X → ℝ) (c : ℝ) :
    ExL κs (fun xs => F xs / c) = ExL κs F / c := by
  induction κs generalizing F with
  | nil => rfl
  | cons κ κs ih =>
    simp only [ExL, ih, Finset.sum_div, mul_div_assoc]

/-- `E[Σ_i h(x_i)] = Σ_i E_{κ_i}[h]` -/
theorem ExL_sum (κs : List (X → ℝ)) (h1 : ∀ κ ∈ κs, ∑ x, κ x = 1) (h : X → ℝ) :
    ExL κs (fun xs => (xs.map h).sum) = (κs.map fun κ => ∑ x, κ x * h x).sum := by
  induction κs with
  | nil => simp [ExL]
  | cons κ κs ih =>
    have h1' : ∀ κ' ∈ κs, ∑ x, κ' x = 1 := fun κ' hκ' => h1 κ' (List.mem_cons_of_mem _ hκ')
    simp only [ExL, List.map_cons, List.sum_cons]
    have : ∀ x, ExL κs (fun xs => h x + (xs.map h).sum)
        = h x + (κs.map fun κ => ∑ x, κ x * h x).sum := by
      intro x; rw [ExL_add, ExL_const κs h1', ih h1']
    simp only [this, mul_add]
    rw [Finset.sum_add_distrib, ← Finset.sum_mul, h1 κ List.mem_cons_self, one_mul]

/-- probability that `rng.choice` returns ancestor `a`: entry `a` of the model's `resampleP` evaluated on
    the log-densities of the current population -/
noncomputable def resP (logL logPi logQ : X → ℝ) (b b' : ℝ) (xs : List X) (a : Fin xs.length) : ℝ :=
  (resampleP b b' (xs.map logL) (xs.map logPi) (xs.map logQ)).getD a.val 0

/-- conditional expectation, given the population `xs` at temperature `b`, of the product of the
    per-step estimates along the remaining schedule `bs`:
    estimate for `b → b'`, times the expectation over `N` ancestor indices `~ resampleP` and over the moved
    copies `y_i ~ K b' (x_{a_i}, ·)` of the same quantity for the new population. -/
noncomputable def smcValue (logL logPi logQ : X → ℝ) (K : ℝ → X → X → ℝ) :
    ℝ → List ℝ → List X → ℝ
  | _, [], _ => 1
  | b, b' :: bs, xs =>
    smcStepEstimate logL logPi logQ b b' xs *
      Ex (resP logL logPi logQ b b' xs) xs.length (fun as =>
        ExL (as.map fun a => K b' (xs.get a)) (smcValue logL logPi logQ K b' bs))

/-- the "future-weight" function `h_{b,bs}(x) = w_{b→b'}(x) · (K_{b'} h_{b',bs'})(x)` -/
noncomputable def hfun (logL logPi logQ : X → ℝ) (K : ℝ → X → X → ℝ) : ℝ → List ℝ → X → ℝ
  | _, [], _ => 1
  | b, b' :: bs, x =>
    incr logL logPi logQ b b' x * ∑ y, K b' x y * hfun logL logPi logQ K b' bs y

omit [Fintype X] in
theorem incW_map (logL logPi logQ : X → ℝ) (b b' : ℝ) (xs : List X) :
    C09.incW b b' (xs.map logL) (xs.map logPi) (xs.map logQ) = xs.map (incr logL logPi logQ b b') := by
  simp only [C09.incW, logW_map, List.map_map]
  rfl

omit [Fintype X] in
theorem incr_sum_pos (logL logPi logQ : X → ℝ) (b b' : ℝ) (xs : List X) (h : xs ≠ []) :
    0 < (xs.map (incr logL logPi logQ b b')).sum := by
  have : xs.map (incr logL logPi logQ b b')
      = (xs.map fun x => (b' - b) * (logL x + logPi x - logQ x)).map Real.exp := by
    rw [List.map_map]; rfl
  rw [this]
  exact sum_exp_pos _ (by simpa using h)

omit [Fintype X] in
/-- the ancestor probabilities are the normalised incremental weights of the population -/
theorem resP_eq (logL logPi logQ : X → ℝ) (b b' : ℝ) (xs : List X) (a : Fin xs.length) :
    resP logL logPi logQ b b' xs a
      = incr logL logPi logQ b b' (xs.get a) / (xs.map (incr logL logPi logQ b b')).sum := by
  rw [resP, C09.resampleP_eq_list, incW_map]
  simp [List.getD_eq_getElem?_getD]

omit [Fintype X] in
theorem resP_sum_one (logL logPi logQ : X → ℝ) (b b' : ℝ) (xs : List X) (h : xs ≠ []) :
    ∑ a, resP logL logPi logQ b b' xs a = 1 := by
  simp only [resP_eq]
  rw [← Finset.sum_div]
  have := Fin.sum_univ_fun_getElem xs (incr logL logPi logQ b b')
  simp only [List.get_eq_getElem]
  rw [this]
  exact div_self (incr_sum_pos logL logPi logQ b b' xs h).ne'

/-- **the conditional expectation of the remaining product is the population mean of `h`** -/
theorem smcValue_eq_mean (logL logPi logQ : X → ℝ) (K : ℝ → X → X → ℝ)
    (hK1 : ∀ b x, ∑ y, K b x y = 1) (b : ℝ) (bs : List ℝ) (xs : List X) (hxs : xs ≠ []) :
    smcValue logL logPi logQ K b bs xs
      = (xs.map (hfun logL logPi logQ K b bs)).sum / (xs.length : ℝ) := by
  have hn : (0 : ℝ) < (xs.length : ℝ) := by exact_mod_cast List.length_pos_iff.mpr hxs
  induction bs generalizing b xs with
  | nil =>
    have : xs.map (hfun logL logPi logQ K b []) = List.replicate xs.length 1 := by
      rw [List.eq_replicate_iff]; simp [hfun]
    rw [this]
    simp [smcValue, hn.ne']
  | cons b' bs ih =>
    have hN : 1 ≤ xs.length := List.length_pos_iff.mpr hxs
    set S := (xs.map (incr logL logPi logQ b b')).sum with hS
    have hSpos : 0 < S := incr_sum_pos logL logPi logQ b b' xs hxs
    -- the expected value after resampling + mutation, for a given ancestor list
    have inner : ∀ as : List (Fin xs.length), as.length = xs.length →
        ExL (as.map fun a => K b' (xs.get a)) (smcValue logL logPi logQ K b' bs)
          = (as.map fun a => ∑ y, K b' (xs.get a) y * hfun logL logPi logQ K b' bs y).sum
              / (xs.length : ℝ) := by
      intro as has
      rw [ExL_congr _ _ (fun ys => (ys.map (hfun logL logPi logQ K b' bs)).sum / (xs.length : ℝ))]
      · rw [ExL_div_const, ExL_sum, List.map_map]
        · rfl
        · intro κ hκ
          obtain ⟨a, _, rfl⟩ := List.mem_map.mp hκ
          exact hK1 b' _
      · intro ys hys
        have hys' : ys.length = xs.length := by rw [hys, List.length_map, has]
        have hne : ys ≠ [] := by
          intro e; subst e; simp at hys'; omega
        rw [ih b' ys hne (by rw [hys']; exact hn), hys']
    simp only [smcValue]
    rw [Ex_congr _ _ _ _ inner, Ex_mean _ (resP_sum_one logL logPi logQ b b' xs hxs) _ _ hN,
      smcStepEstimate_eq_mean _ _ _ _ _ _ hxs]
    simp only [resP_eq, ← hS]
    have e : xs.map (hfun logL logPi logQ K b (b' :: bs))
        = xs.map fun x => incr logL logPi logQ b b' x
            * ∑ y, K b' x y * hfun logL logPi logQ K b' bs y := by
      apply List.map_congr_left; intro x _; simp [hfun]
    rw [e, ← Fin.sum_univ_fun_getElem xs (fun x => incr logL logPi logQ b b' x
            * ∑ y, K b' x y * hfun logL logPi logQ K b' bs y)]
    simp only [List.get_eq_getElem]
    rw [Finset.mul_sum, Finset.sum_div]
    apply Finset.sum_congr rfl
    intro a _
    field_simp

/-- the `h`-weighted mass of the `b`-target is the last normalising constant, when every mutation kernel
    leaves its tempered target invariant -/
theorem hfun_mass (logL logPi logQ : X → ℝ) (K : ℝ → X → X → ℝ)
    (hKinv : ∀ b y, ∑ x, temp logL logPi logQ b x * K b x y = temp logL logPi logQ b y)
    (b : ℝ) (bs : List ℝ) :
    ∑ x, temp logL logPi logQ b x * hfun logL logPi logQ K b bs x
      = Zt logL logPi logQ ((b :: bs).getLast (by simp)) := by
  induction bs generalizing b with
  | nil => simp [hfun, Zt]
  | cons b' bs ih =>
    rw [List.getLast_cons (by simp : b' :: bs ≠ []), ← ih b']
    simp only [hfun]
    calc ∑ x, temp logL logPi logQ b x * (incr logL logPi logQ b b' x
              * ∑ y, K b' x y * hfun logL logPi logQ K b' bs y)
        = ∑ x, ∑ y, temp logL logPi logQ b' x * K b' x y * hfun logL logPi logQ K b' bs y := by
          apply Finset.sum_congr rfl; intro x _
          rw [← mul_assoc, temp_mul_incr, Finset.mul_sum]
          apply Finset.sum_congr rfl; intro y _; ring
      _ = ∑ y, ∑ x, temp logL logPi logQ b' x * K b' x y * hfun logL logPi logQ K b' bs y :=
          Finset.sum_comm
      _ = ∑ y, temp logL logPi logQ b' y * hfun logL logPi logQ K b' bs y := by
          apply Finset.sum_congr rfl; intro y _
          rw [← Finset.sum_mul, hKinv]

/-- **MAIN (SMC): the evidence estimate of the interacting particle system is exactly unbiased.**
    Initial population: `N ≥ 1` i.i.d. draws from the proposal `q`; fixed schedule `0 = β_0, β_1, …, β_T = 1`;
    per-step estimate = the model's `smcStepEstimate` (`exp(log_evidence_ratio)`); ancestors drawn with the
    model's `resampleP`; mutation by any Markov kernels `K β` (rows sum to one) leaving `p_β` invariant.
    Then `E[Π_t estimate_t] = Σ_x L π = Z`.
    Not covered (and not exact in general): a schedule chosen adaptively from the population
    (`determine_beta` with a target efficiency) and mutation kernels that use the whole ensemble; for those
    only the per-step identity `smc_step_ratio` and consistency (`N → ∞`) remain. -/
theorem smc_unbiased (q : X → ℝ) (hq : ∀ x, 0 < q x) (hq1 : ∑ x, q x = 1) (logL logPi : X → ℝ)
    (K : ℝ → X → X → ℝ) (hK1 : ∀ b x, ∑ y, K b x y = 1)
    (hKinv : ∀ b y, ∑ x, temp logL logPi (fun x => Real.log (q x)) b x * K b x y
      = temp logL logPi (fun x => Real.log (q x)) b y)
    (N : ℕ) (hN : 1 ≤ N) (bs : List ℝ) (hlast : ((0 : ℝ) :: bs).getLast (by simp) = 1) :
    Ex q N (smcValue logL logPi (fun x => Real.log (q x)) K 0 bs)
      = ∑ x, Real.exp (logL x) * Real.exp (logPi x) := by
  rw [Ex_congr q N _ (fun xs =>
    (xs.map (hfun logL logPi (fun x => Real.log (q x)) K 0 bs)).sum / (N : ℝ))]
  · rw [Ex_mean q hq1 _ N hN, ← Zt_one logL logPi (fun x => Real.log (q x)), ← hlast,
      ← hfun_mass logL logPi _ K hKinv 0 bs]
    apply Finset.sum_congr rfl
    intro x _
    rw [temp_zero, Real.exp_log (hq x)]
  · intro xs hxs
    have hne : xs ≠ [] := by
      intro e; subst e; simp at hxs; omega
    rw [smcValue_eq_mean _ _ _ K hK1 0 bs xs hne, hxs]

/-- non-vacuity of the kernel hypotheses: "no mutation" (`K = id`) is stochastic and invariant … -/
theorem idKernel_ok [DecidableEq X] (logL logPi logQ : X → ℝ) :
    (∀ (_ : ℝ) (x : X), ∑ y, (if x = y then (1 : ℝ) else 0) = 1)
    ∧ ∀ (b : ℝ) (y : X), ∑ x, temp logL logPi logQ b x * (if x = y then (1 : ℝ) else 0)
        = temp logL logPi logQ b y := by
  constructor
  · intro b x; simp
  · intro b y; simp

/-- … and so is the perfectly mixing kernel `K β (x, ·) = p_β` -/
theorem mixingKernel_ok [Nonempty X] (logL logPi logQ : X → ℝ) :
    (∀ (b : ℝ) (_ : X), ∑ y, pt logL logPi logQ b y = 1)
    ∧ ∀ (b : ℝ) (y : X), ∑ x, temp logL logPi logQ b x * pt logL logPi logQ b y
        = temp logL logPi logQ b y := by
  constructor
  · intro b x; exact pt_sum_one logL logPi logQ b
  · intro b y
    rw [← Finset.sum_mul, pt]
    have := (Zt_pos logL logPi logQ b).ne'
    change Zt logL logPi logQ b * _ = _
    field_simp

end SMCFull

/-! ## non-vacuity: concrete instances meet every hypothesis -/
section Examples

/-- three points, proposal `(1/2, 1/3, 1/6)`, likelihood `(1, 2, 3)`, prior uniform: `Z = 2` -/
noncomputable def q3 : Fin 3 → ℝ := ![1/2, 1/3, 1/6]
noncomputable def L3 : Fin 3 → ℝ := ![1, 2, 3]
noncomputable def π3 : Fin 3 → ℝ := ![1/3, 1/3, 1/3]

theorem q3_pos : ∀ x, 0 < q3 x := by
  intro x; fin_cases x <;> simp [q3]
theorem q3_sum : ∑ x, q3 x = 1 := by
  simp [q3, Fin.sum_univ_three]; norm_num

theorem L3_pos : ∀ x, 0 < L3 x := by
  intro x; fin_cases x <;> simp [L3]
theorem π3_pos : ∀ x, 0 < π3 x := by
  intro x; fin_cases x <;> simp [π3]

theorem Z3 : ∑ x, Real.exp (Real.log (L3 x)) * Real.exp (Real.log (π3 x)) = 2 := by
  have h1 : ∀ x, Real.exp (Real.log (L3 x)) = L3 x := fun x => Real.exp_log (L3_pos x)
  have h2 : ∀ x, Real.exp (Real.log (π3 x)) = π3 x := fun x => Real.exp_log (π3_pos x)
  simp only [h1, h2]
  simp [Fin.sum_univ_three, L3, π3]
  norm_num

/-- importance sampling, any `N ≥ 1`: the expected evidence estimate of the model is `2` -/
example (N : ℕ) (hN : 1 ≤ N) :
    Ex q3 N (isEvidence (fun x => Real.log (L3 x)) (fun x => Real.log (π3 x))
      (fun x => Real.log (q3 x))) = 2 := by
  rw [is_unbiased q3 q3_pos q3_sum _ _ N hN, Z3]

/-- SMC without mutation, schedule `0 → 1/2 → 1`, any `N ≥ 1`: the expected evidence estimate is `2` -/
example (N : ℕ) (hN : 1 ≤ N) :
    Ex q3 N (smcValue (fun x => Real.log (L3 x)) (fun x => Real.log (π3 x))
      (fun x => Real.log (q3 x)) (fun _ x y => if x = y then 1 else 0) 0 [1/2, 1]) = 2 := by
  have hK := idKernel_ok (fun x => Real.log (L3 x)) (fun x => Real.log (π3 x))
    (fun x => Real.log (q3 x))
  rw [smc_unbiased q3 q3_pos q3_sum _ _ _ hK.1 hK.2 N hN _ (by simp), Z3]

/-- telescoping on the schedule `0 → 1/4 → 1/2 → 1` -/
example :
    (stepRatios (Zt (fun x => Real.log (L3 x)) (fun x => Real.log (π3 x))
      fun x => Real.log (q3 x)) 0 [1/4, 1/2, 1]).prod = 2 := by
  rw [telescoping q3 q3_pos q3_sum _ _ _ (by simp), Z3]

/-- a bijection of the three points (a "preconditioning map") leaves the posterior unchanged -/
example (x : Fin 3) :
    pt ((fun x => Real.log (L3 x)) ∘ (Equiv.swap (0 : Fin 3) 2).symm)
       ((fun x => Real.log (π3 x)) ∘ (Equiv.swap (0 : Fin 3) 2).symm)
       ((fun x => Real.log (q3 x)) ∘ (Equiv.swap (0 : Fin 3) 2).symm) 1 (Equiv.swap (0 : Fin 3) 2 x)
      = pt (fun x => Real.log (L3 x)) (fun x => Real.log (π3 x)) (fun x => Real.log (q3 x)) 1 x :=
  precond_invariant _ _ _ _ 1 x

end Examples

end C01
