import AspireModel.Model.Session
/-
  C14 — the checkpoint file of an `Aspire` session stays self-consistent.
  Model: `Model/Session.lean`.  Core Lean only.
-/
namespace C14
open Model
open SOp SamplerKind

/-! ### the file store -/

theorem getFile_setFile_same (fs : List (Nat × CkFile)) (p : Nat) (f : CkFile) :
    getFile (setFile fs p f) p = f := by
  simp [getFile, setFile]

theorem find_filter_ne (fs : List (Nat × CkFile)) (p q : Nat) (h : q ≠ p) :
    (fs.filter (·.1 != p)).find? (·.1 == q) = fs.find? (·.1 == q) := by
  induction fs with
  | nil => rfl
  | cons a as ih =>
    obtain ⟨a1, c⟩ := a
    by_cases ha : a1 = p
    · subst ha
      have hq : (a1 == q) = false := by simpa using fun e => h (Eq.symm e)
      have hp : (a1 != a1) = false := by simp
      rw [List.filter_cons, List.find?_cons]
      simp only [hp, hq, Bool.false_eq_true, if_false, ih]
    · have hp : (a1 != p) = true := by simpa using ha
      rw [List.filter_cons]
      simp only [hp, if_true, List.find?_cons, ih]

theorem getFile_setFile_other (fs : List (Nat × CkFile)) (p q : Nat) (f : CkFile) (h : q ≠ p) :
    getFile (setFile fs p f) q = getFile fs q := by
  have hpq : (p == q) = false := by simpa using fun e => h (Eq.symm e)
  have : ((p, f) :: fs.filter (·.1 != p)).find? (·.1 == q) = fs.find? (·.1 == q) := by
    rw [List.find?_cons]
    simp only [hpq]
    exact find_filter_ne fs p q h
  simp only [getFile, setFile, this]

/-! ### the full-strength statement and why it fails -/

def consistent_after_any_sequence : Prop := ∀ ops, AllConsistent (srun {} ops) = true

theorem witness_fit_overwrite :
    let s := srun {} [fit none false, sample smc (some 1) true 0, fit (some 1) true]
    getFile s.files 1 = { flow := some 2, hasConfig := true, cfgSampler := some smc, ckpt := some (1, smc) } ∧
    Consistent (getFile s.files 1) = false ∧ AllConsistent s = false := by decide

theorem witness_other_sampler :
    let s := srun {} [fit none false, sample smc (some 1) true 0, sample importance (some 1) true 0]
    getFile s.files 1 = { flow := some 1, hasConfig := true, cfgSampler := some importance, ckpt := some (1, smc) } ∧
    Consistent (getFile s.files 1) = false ∧ AllConsistent s = false := by decide

theorem witness_config_off :
    let s := srun {} [fit none false, enter 1 false, sample smc none true 0]
    getFile s.files 1 = { flow := some 1, hasConfig := false, cfgSampler := none, ckpt := some (1, smc) } ∧
    Consistent (getFile s.files 1) = false ∧ AllConsistent s = false := by decide

theorem consistent_after_any_sequence_false : ¬ consistent_after_any_sequence := by
  intro h
  have := h [fit none false, sample smc (some 1) true 0, fit (some 1) true]
  exact absurd this (by decide)

theorem resume_uses_file_flow (s s' : Sess) (p : Nat) (h : stepResume s p = some s') :
    s'.memFlow = (getFile s.files p).flow ∧ s'.resumeFrom = (getFile s.files p).ckpt ∧ s'.files = s.files := by
  unfold stepResume at h
  simp only at h
  split at h
  · exact absurd h (by simp)
  · split at h
    · exact absurd h (by simp)
    · rename_i v hv
      injection h with h
      subst h
      simp [hv]

theorem consistent_iff (f : CkFile) :
    Consistent f = true ↔ ∀ v k, f.ckpt = some (v, k) → f.flow = some v ∧ f.cfgSampler = some k := by
  unfold Consistent
  cases hc : f.ckpt with
  | none => simp
  | some vk =>
    obtain ⟨v, k⟩ := vk
    simp only [Bool.and_eq_true, beq_iff_eq, Option.some.injEq, Prod.mk.injEq, and_imp]
    constructor
    · rintro ⟨h1, h2⟩ v' k' rfl rfl; exact ⟨h1, h2⟩
    · intro h; exact h v k rfl rfl

theorem resume_never_mixes (s s' : Sess) (p v : Nat) (k : SamplerKind) (h : stepResume s p = some s')
    (hc : Consistent (getFile s.files p) = true) (hk : (getFile s.files p).ckpt = some (v, k)) :
    s'.memFlow = some v ∧ s'.resumeFrom = some (v, k) ∧ s'.resumeSampler = some k := by
  obtain ⟨h1, h2, _⟩ := resume_uses_file_flow s s' p h
  obtain ⟨hf, hs⟩ := (consistent_iff _).mp hc v k hk
  refine ⟨h1.trans hf, h2.trans hk, ?_⟩
  unfold stepResume at h
  simp only at h
  split at h
  · exact absurd h (by simp)
  · split at h
    · exact absurd h (by simp)
    · injection h with h
      subst h
      simp [hk, hs]

theorem resume_raises_without_config_or_flow (s : Sess) (p : Nat)
    (h : (getFile s.files p).hasConfig = false ∨ (getFile s.files p).flow = none) : stepResume s p = none := by
  unfold stepResume
  rcases h with h | h
  · simp [h]
  · simp only [h]; split <;> rfl

theorem resume_ok_iff (s : Sess) (p : Nat) :
    (stepResume s p).isSome = ((getFile s.files p).hasConfig && (getFile s.files p).flow.isSome) := by
  unfold stepResume
  cases h1 : (getFile s.files p).hasConfig <;> cases h2 : (getFile s.files p).flow <;> simp [h1, h2]

/-! ### single step -/

theorem sample_writes_current_flow (s : Sess) (p v n : Nat) (c : Bool) (hm : s.memFlow = some v) (hd : s.dstack = [])
   (hw : c = true ∨ 0 < n) :
    getFile (stepSample s .smc (some p) c n).files p =
      { flow := some v, hasConfig := true, cfgSampler := some .smc, ckpt := some (v, .smc) } := by
  have hw' : (c || decide (0 < n)) = true := by rcases hw with h | h <;> simp [h]
  unfold stepSample; simp [topDflt, hm, hd, getFile_setFile_same, hw']

theorem sample_writes_current_flow_ctx (s : Sess) (d : Dflt) (rest : List Dflt) (p v n : Nat) (c : Bool)
    (hm : s.memFlow = some v) (hd : s.dstack = d :: rest) (hs : d.savedFlow = false)
   (hw : c = true ∨ 0 < n) :
    getFile (stepSample s .smc (some p) c n).files p =
      { flow := some v, hasConfig := true, cfgSampler := some .smc, ckpt := some (v, .smc) } ∧
    (stepSample s .smc (some p) c n).dstack = { d with savedConfig := true, savedFlow := true } :: rest := by
  have hw' : (c || decide (0 < n)) = true := by rcases hw with h | h <;> simp [h]
  unfold stepSample; simp [topDflt, setTop, hm, hd, hs, getFile_setFile_same, hw']

/-! ### the pre-fix rule -/

def stepSamplePinned (s : Sess) (k : SamplerKind) (path : Option Nat) (completed : Bool) (ckptsBefore : Nat) : Sess :=
  let k := match k, s.resumeSampler with
    | .importance, some r => r
    | k, _ => k
  let s := { s with lastSampler := some k }
  let d := topDflt s
  let (path, saveCfg) := match path, d with
    | some p, _ => (some p, true)
    | none, some d => (some d.path, d.saveConfig)
    | none, none => (none, true)
  match path with
  | none => { s with resumeFrom := s.resumeFrom }
  | some p =>
    let f := getFile s.files p
    let f := if saveCfg then { f with hasConfig := true, cfgSampler := some k } else f
    let s := if saveCfg then (match d with | some d => setTop s { d with savedConfig := true } | none => s) else s
    let savedFlow := match topDflt s with | some d => d.savedFlow | none => false
    -- PRE-FIX RULE: the flow is written only when the file has none
    let writeFlow := s.memFlow.isSome && !savedFlow && (getFile s.files p).flow.isNone
    let f := if writeFlow then { f with flow := s.memFlow } else f
    let s := if writeFlow then (match topDflt s with | some d => setTop s { d with savedFlow := true } | none => s) else s
    let wrote := match k with
      | .smc => completed || 0 < ckptsBefore
      | .importance => false
    let f := match s.memFlow with
      | some v => if wrote then { f with ckpt := some (v, k) } else f
      | none => f
    { s with files := setFile s.files p f }

def sstepPinned (s : Sess) : SOp → Option Sess
  | .sample k p c n => some (stepSamplePinned s k p c n)
  | op => sstep s op

def srunPinned (s : Sess) : List SOp → Sess
  | [] => s
  | op :: rest => match sstepPinned s op with
    | some s' => srunPinned s' rest
    | none => srunPinned s rest

def refitHistory : List SOp :=
  [fit (some 1) false, sample smc (some 1) true 0, fit (some 1) false, sample smc (some 1) true 0]

theorem pinned_keeps_stale_flow :
    getFile (srunPinned {} refitHistory).files 1
      = { flow := some 1, hasConfig := true, cfgSampler := some smc, ckpt := some (2, smc) } ∧
    Consistent (getFile (srunPinned {} refitHistory).files 1) = false ∧
    AllConsistent (srunPinned {} refitHistory) = false ∧
    getFile (srun {} refitHistory).files 1
      = { flow := some 2, hasConfig := true, cfgSampler := some smc, ckpt := some (2, smc) } ∧
    AllConsistent (srun {} refitHistory) = true := by decide

/-! ### shape of the two file-writing steps -/

def target (s : Sess) (path : Option Nat) : Option (Nat × Bool) :=
  match path, topDflt s with
  | some p, _ => some (p, true)
  | none, some d => some (d.path, d.saveConfig)
  | none, none => none

def effSampler (s : Sess) (k : SamplerKind) : SamplerKind :=
  match k, s.resumeSampler with
  | .importance, some r => r
  | k, _ => k

def writesCkpt (k' : SamplerKind) (completed : Bool) (n : Nat) : Bool :=
  match k' with
  | .smc => completed || decide (0 < n)
  | .importance => false

def topSavedFlow (s : Sess) : Bool := match topDflt s with | some d => d.savedFlow | none => false
def topSavedConfig (s : Sess) : Bool := match topDflt s with | some d => d.savedConfig | none => false

def sampleFile (f : CkFile) (saveCfg : Bool) (k' : SamplerKind) (writeFlow : Bool) (mem : Option Nat) (wrote : Bool) : CkFile :=
  { hasConfig := f.hasConfig || saveCfg,
    cfgSampler := if saveCfg then some k' else f.cfgSampler,
    flow := if writeFlow then mem else f.flow,
    ckpt := match mem with
      | some v => if wrote then some (v, k') else f.ckpt
      | none => f.ckpt }

def markTop (ds : List Dflt) (cfg flow : Bool) : List Dflt :=
  match ds with
  | [] => []
  | d :: rest => { d with savedConfig := d.savedConfig || cfg, savedFlow := d.savedFlow || flow } :: rest

theorem stepSample_noTarget (s : Sess) (k : SamplerKind) (path : Option Nat) (c : Bool) (n : Nat)
    (h : target s path = none) :
    (stepSample s k path c n).files = s.files ∧ (stepSample s k path c n).dstack = s.dstack ∧
    (stepSample s k path c n).memFlow = s.memFlow := by
  cases path with
  | some p => simp [target] at h
  | none =>
    cases hd : s.dstack with
    | cons d rest => simp [target, topDflt, hd] at h
    | nil => unfold stepSample; simp [topDflt, hd]

theorem stepSample_target (s : Sess) (k : SamplerKind) (path : Option Nat) (c : Bool) (n : Nat) (p : Nat) (saveCfg : Bool)
    (h : target s path = some (p, saveCfg)) :
    (stepSample s k path c n).files = setFile s.files p
      (sampleFile (getFile s.files p) saveCfg (effSampler s k) (s.memFlow.isSome && !topSavedFlow s) s.memFlow
        (writesCkpt (effSampler s k) c n)) ∧
    (stepSample s k path c n).dstack = markTop s.dstack saveCfg (s.memFlow.isSome && !topSavedFlow s) ∧
    (stepSample s k path c n).memFlow = s.memFlow := by
  have hn : decide (0 < n) = true ∨ decide (0 < n) = false := by cases decide (0 < n) <;> simp
  cases path with
  | some p' =>
    simp only [target, Option.some.injEq, Prod.mk.injEq] at h
    obtain ⟨rfl, rfl⟩ := h
    cases hd : s.dstack with
    | nil =>
      unfold stepSample
      cases hm : s.memFlow <;> rcases hr : s.resumeSampler with _ | _ | _ <;> cases k <;> cases c <;>
        rcases hn with hn | hn <;>
        simp [topDflt, hd, hr, hn, sampleFile, markTop, topSavedFlow, effSampler, writesCkpt]
    | cons d rest =>
      obtain ⟨dp, dsc, dsvc, dsvf⟩ := d
      unfold stepSample
      cases hm : s.memFlow <;> cases dsvf <;> rcases hr : s.resumeSampler with _ | _ | _ <;> cases k <;> cases c <;>
        rcases hn with hn | hn <;>
        simp [topDflt, setTop, hd, hr, hn, sampleFile, markTop, topSavedFlow, effSampler, writesCkpt]
  | none =>
    cases hd : s.dstack with
    | nil => simp [target, topDflt, hd] at h
    | cons d rest =>
      obtain ⟨dp, dsc, dsvc, dsvf⟩ := d
      simp only [target, topDflt, hd, List.head?_cons, Option.some.injEq, Prod.mk.injEq] at h
      obtain ⟨rfl, rfl⟩ := h
      unfold stepSample
      cases hm : s.memFlow <;> cases dsvf <;> cases dsc <;>
        rcases hr : s.resumeSampler with _ | _ | _ <;> cases k <;> cases c <;> rcases hn with hn | hn <;>
        simp [topDflt, setTop, hd, hr, hn, sampleFile, markTop, topSavedFlow, effSampler, writesCkpt]

def fitFile (f : CkFile) (writeCfg : Bool) (last : Option SamplerKind) (overwrite : Bool) (v : Nat) : CkFile :=
  { hasConfig := f.hasConfig || writeCfg,
    cfgSampler := if writeCfg then last else f.cfgSampler,
    flow := if f.flow.isNone || overwrite then some v else f.flow,
    ckpt := f.ckpt }

theorem stepFit_noTarget (s : Sess) (path : Option Nat) (o : Bool) (h : target s path = none) :
    (stepFit s path o).files = s.files ∧ (stepFit s path o).dstack = s.dstack ∧
    (stepFit s path o).memFlow = some s.nextVersion := by
  cases path with
  | some p => simp [target] at h
  | none =>
    cases hd : s.dstack with
    | cons d rest => simp [target, topDflt, hd] at h
    | nil => unfold stepFit; simp [topDflt, hd]

theorem stepFit_target (s : Sess) (path : Option Nat) (o : Bool) (p : Nat) (saveCfg : Bool)
    (h : target s path = some (p, saveCfg)) :
    (stepFit s path o).files = setFile s.files p
      (fitFile (getFile s.files p) (saveCfg && !topSavedConfig s) s.lastSampler o s.nextVersion) ∧
    (stepFit s path o).dstack = markTop s.dstack (saveCfg && !topSavedConfig s) false ∧
    (stepFit s path o).memFlow = some s.nextVersion := by
  cases path with
  | some p' =>
    simp only [target, Option.some.injEq, Prod.mk.injEq] at h
    obtain ⟨rfl, rfl⟩ := h
    cases hd : s.dstack with
    | nil =>
      unfold stepFit
      rcases hg : getFile s.files p' with ⟨ff, fh, fc, fk⟩
      cases ff <;> cases o <;>
        simp [topDflt, hd, hg, fitFile, markTop, topSavedConfig]
    | cons d rest =>
      obtain ⟨dp, dsc, dsvc, dsvf⟩ := d
      unfold stepFit
      rcases hg : getFile s.files p' with ⟨ff, fh, fc, fk⟩
      cases ff <;> cases o <;> cases dsvc <;>
        simp [topDflt, setTop, hd, hg, fitFile, markTop, topSavedConfig]
  | none =>
    cases hd : s.dstack with
    | nil => simp [target, topDflt, hd] at h
    | cons d rest =>
      obtain ⟨dp, dsc, dsvc, dsvf⟩ := d
      simp only [target, topDflt, hd, List.head?_cons, Option.some.injEq, Prod.mk.injEq] at h
      obtain ⟨rfl, rfl⟩ := h
      unfold stepFit
      rcases hg : getFile s.files dp with ⟨ff, fh, fc, fk⟩
      cases ff <;> cases o <;> cases dsvc <;> cases dsc <;>
        simp [topDflt, setTop, hd, hg, fitFile, markTop, topSavedConfig]

end C14
