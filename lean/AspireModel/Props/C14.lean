import AspireModel.Model.Session
/-
  C14 — "After any sequence of fitting, sampling, entering or leaving automatic checkpointing and resuming that
  targets the same file, the proposal stored in the file is the one under which the stored checkpoint's particles
  were weighted, and the stored configuration names the sampler that wrote that checkpoint, so that resuming from the
  file never mixes a population with a different proposal."

  Model: `Model/Session.lean` (`Aspire.fit`, `sample_posterior`, `auto_checkpoint`, `resume_from_file`), in which
  `sample_posterior` stores the proposal it samples with on EVERY run.  Core Lean only.

  The statement is FALSE of the current code at full strength (`consistent_after_any_sequence_false`).  What is proved:

  * `consistent_partial` : `Safe ops → AllConsistent (srun {} ops)`, where `Safe ops` says that every step of the
    run passes the guard `okStep` in the state it is applied to.  The guards are local and readable:
      - `okFit`   : the target file holds no checkpoint, or the call neither replaces the proposal
                    (`overwrite=False`) nor rewrites the configuration with a sampler other than SMC;
      - `okSample`, run that writes a checkpoint (SMC, completed or interrupted after >= 1 checkpoints, proposal
                    present): the configuration is written or already names SMC (the proposal is always written);
      - `okSample`, run that writes no checkpoint (importance sampler, SMC interrupted before its first checkpoint,
                    no proposal): the file holds no checkpoint, or the run leaves configuration (config off or
                    sampler SMC) and proposal (none in memory, or the same one) as they are;
      - `enter`, `exit`, `resume` are always safe.
  * `safe_iff_consistent_throughout` : `Safe` is EXACTLY the set of sequences after each of whose operations every
    file is self-consistent — every excluded step breaks a file on the spot (`unsafe_breaks`), so `Safe` cannot be
    enlarged.  The excluded steps, each with a concrete witness below:
      a. `fit(..., overwrite=True)` into a file holding a checkpoint                         (`witness_fit_overwrite`)
      b. a run/fit that rewrites the configuration of a file holding an SMC checkpoint with another sampler or none
                                                 (`witness_other_sampler`, `witness_fit_after_resume`)
      c. an SMC run with the configuration switched off into a file whose configuration does not name SMC
                                                 (`witness_config_off`, `witness_resume_config_off`)
      d. a run that writes no checkpoint but replaces the proposal of a file holding a checkpoint: SMC interrupted
         before its first checkpoint, or importance sampling, after a refit
                                 (`witness_interrupted_before_first_checkpoint`, `witness_importance_after_refit`)
  * `synSafe_safe`, `consistent_synSafe` : a purely syntactic sub-language (only the number of open contexts is
    tracked) — SMC-only sessions, fits without overwrite, runs that reach their first checkpoint, to any file, contexts
    with `save_config=True` nested at will — including refit + rerun to the same file any number of times, inside one
    context or not (the histories repaired by the two fixes).
  * `resume_then_sample_safe` : resuming a file that holds a checkpoint and sampling is always safe.
  * single-step facts: `sample_writes_current_flow(_ctx,_default)`, `resume_uses_file_flow`, `resume_never_mixes`,
    `resume_raises_without_config_or_flow`.
  * the two earlier rules for writing the proposal are kept as variant step functions with their negative witnesses:
    `stepSamplePinned` (only when the file has none; `pinned_keeps_stale_flow`) and `stepSampleOncePerContext`
    (`oncePerContext_refit_in_context`, `oncePerContext_other_path_in_context`); the same histories now end
    consistent (`refit_in_context_consistent`, `other_path_in_context_consistent`).
-/
namespace C14
open Model
open SOp SamplerKind

/-! ### the file store -/

theorem getFile_setFile_same (fs : List (Nat × CkFile)) (p : Nat) (f : CkFile) :
    getFile (setFile fs p f) p = f := by
  simp [getFile, setFile]

theorem find_filter_ne (fs : List (Nat × CkFile)) (p q : Nat) (h : q ≠ p) :
    (fs.filter (·.1 != p)).find? (·.1 == q) = fs.find? (·.1 == q) := by
  induction fs with
  | nil => rfl
  | cons a as ih =>
    obtain ⟨a1, c⟩ := a
    by_cases ha : a1 = p
    · subst ha
      have hq : (a1 == q) = false := by simpa using fun e => h (Eq.symm e)
      have hp : (a1 != a1) = false := by simp
      rw [List.filter_cons, List.find?_cons]
      simp only [hp, hq, Bool.false_eq_true, if_false, ih]
    · have hp : (a1 != p) = true := by simpa using ha
      rw [List.filter_cons]
      simp only [hp, if_true, List.find?_cons, ih]

theorem getFile_setFile_other (fs : List (Nat × CkFile)) (p q : Nat) (f : CkFile) (h : q ≠ p) :
    getFile (setFile fs p f) q = getFile fs q := by
  have hpq : (p == q) = false := by simpa using fun e => h (Eq.symm e)
  have : ((p, f) :: fs.filter (·.1 != p)).find? (·.1 == q) = fs.find? (·.1 == q) := by
    rw [List.find?_cons]
    simp only [hpq]
    exact find_filter_ne fs p q h
  simp only [getFile, setFile, this]

/-! ### the full-strength statement and why it fails -/

/-- C14 at full strength (kept visible; it is false, see below) -/
def consistent_after_any_sequence : Prop := ∀ ops, AllConsistent (srun {} ops) = true

/-- a. refit with `overwrite=True` into a file that holds a checkpoint: proposal version 2 next to a checkpoint
    weighted under version 1 -/
theorem witness_fit_overwrite :
    let s := srun {} [fit none false, sample smc (some 1) true 0, fit (some 1) true]
    getFile s.files 1 = { flow := some 2, hasConfig := true, cfgSampler := some smc, ckpt := some (1, smc) } ∧
    Consistent (getFile s.files 1) = false ∧ AllConsistent s = false := by decide

/-- b. another sampler run on the same file: the configuration names `importance`, the checkpoint was written by SMC -/
theorem witness_other_sampler :
    let s := srun {} [fit none false, sample smc (some 1) true 0, sample importance (some 1) true 0]
    getFile s.files 1 = { flow := some 1, hasConfig := true, cfgSampler := some importance, ckpt := some (1, smc) } ∧
    Consistent (getFile s.files 1) = false ∧ AllConsistent s = false := by decide

/-- c. `auto_checkpoint(save_config=False)`: a checkpoint next to NO configuration at all (`hasConfig = false`,
    no sampler named) -/
theorem witness_config_off :
    let s := srun {} [fit none false, enter 1 false, sample smc none true 0]
    getFile s.files 1 = { flow := some 1, hasConfig := false, cfgSampler := none, ckpt := some (1, smc) } ∧
    Consistent (getFile s.files 1) = false ∧ AllConsistent s = false := by decide

theorem consistent_after_any_sequence_false : ¬ consistent_after_any_sequence := by
  intro h
  have := h [fit none false, sample smc (some 1) true 0, fit (some 1) true]
  exact absurd this (by decide)

/-! further histories of the same family ("a checkpoint stays/goes in the file while its proposal or configuration
    is replaced or not written") that the model of the current code exhibits -/

/-- formerly a defect (proposal written once per context), repaired: refit and rerun INSIDE one context now ends
    with the second proposal next to the checkpoint weighted under it.  The old behaviour is kept below as
    `stepSampleOncePerContext` with the negative witness `oncePerContext_refit_in_context`. -/
theorem refit_in_context_consistent :
    let s := srun {} [enter 1 true, fit none false, sample smc none true 0, fit none false, sample smc none true 0]
    getFile s.files 1 = { flow := some 2, hasConfig := true, cfgSampler := some smc, ckpt := some (2, smc) } ∧
    AllConsistent s = true := by decide

/-- formerly a defect, repaired: an explicit other path inside a context that has already saved its proposal -/
theorem other_path_in_context_consistent :
    let s := srun {} [enter 1 true, fit none false, sample smc none true 0, sample smc (some 2) true 0]
    getFile s.files 2 = { flow := some 1, hasConfig := true, cfgSampler := some smc, ckpt := some (1, smc) } ∧
    AllConsistent s = true := by decide

/-- b'. `fit(path)` on the resumed instance rewrites the configuration without a sampler -/
theorem witness_fit_after_resume :
    let s := srun {} [fit none false, sample smc (some 1) true 0, resume 1, fit (some 1) false]
    getFile s.files 1 = { flow := some 1, hasConfig := true, cfgSampler := none, ckpt := some (1, smc) } ∧
    Consistent (getFile s.files 1) = false := by decide

/-- c'. the resumed instance never writes the configuration: SMC on a file whose configuration names no sampler -/
theorem witness_resume_config_off :
    let s := srun {} [fit (some 1) false, resume 1, sample smc none true 0]
    getFile s.files 1 = { flow := some 1, hasConfig := true, cfgSampler := none, ckpt := some (1, smc) } ∧
    Consistent (getFile s.files 1) = false := by decide

/-- d. a run interrupted before its first checkpoint has already replaced the proposal -/
theorem witness_interrupted_before_first_checkpoint :
    let s := srun {} [fit none false, sample smc (some 1) true 0, fit none false, sample smc (some 1) false 0]
    getFile s.files 1 = { flow := some 2, hasConfig := true, cfgSampler := some smc, ckpt := some (1, smc) } ∧
    Consistent (getFile s.files 1) = false := by decide

/-- d'. the same with the importance sampler (writes no checkpoint) after a refit, configuration switched off so
    that only the proposal is replaced -/
theorem witness_importance_after_refit :
    let s := srun {} [fit none false, sample smc (some 1) true 0, fit none false, enter 1 false,
      sample importance none true 0]
    getFile s.files 1 = { flow := some 2, hasConfig := true, cfgSampler := some smc, ckpt := some (1, smc) } ∧
    Consistent (getFile s.files 1) = false := by decide

/-! ### resuming reads the proposal of the file -/

theorem resume_uses_file_flow (s s' : Sess) (p : Nat) (h : stepResume s p = some s') :
    s'.memFlow = (getFile s.files p).flow ∧ s'.resumeFrom = (getFile s.files p).ckpt ∧ s'.files = s.files := by
  unfold stepResume at h
  simp only at h
  split at h
  · exact absurd h (by simp)
  · split at h
    · exact absurd h (by simp)
    · rename_i v hv
      injection h with h
      subst h
      simp [hv]

theorem consistent_iff (f : CkFile) :
    Consistent f = true ↔ ∀ v k, f.ckpt = some (v, k) → f.flow = some v ∧ f.cfgSampler = some k := by
  unfold Consistent
  cases hc : f.ckpt with
  | none => simp
  | some vk =>
    obtain ⟨v, k⟩ := vk
    simp only [Bool.and_eq_true, beq_iff_eq, Option.some.injEq, Prod.mk.injEq, and_imp]
    constructor
    · rintro ⟨h1, h2⟩ v' k' rfl rfl; exact ⟨h1, h2⟩
    · intro h; exact h v k rfl rfl

theorem resume_never_mixes (s s' : Sess) (p v : Nat) (k : SamplerKind) (h : stepResume s p = some s')
    (hc : Consistent (getFile s.files p) = true) (hk : (getFile s.files p).ckpt = some (v, k)) :
    s'.memFlow = some v ∧ s'.resumeFrom = some (v, k) ∧ s'.resumeSampler = some k := by
  obtain ⟨h1, h2, _⟩ := resume_uses_file_flow s s' p h
  obtain ⟨hf, hs⟩ := (consistent_iff _).mp hc v k hk
  refine ⟨h1.trans hf, h2.trans hk, ?_⟩
  unfold stepResume at h
  simp only at h
  split at h
  · exact absurd h (by simp)
  · split at h
    · exact absurd h (by simp)
    · injection h with h
      subst h
      simp [hk, hs]

theorem resume_raises_without_config_or_flow (s : Sess) (p : Nat)
    (h : (getFile s.files p).hasConfig = false ∨ (getFile s.files p).flow = none) : stepResume s p = none := by
  unfold stepResume
  rcases h with h | h
  · simp [h]
  · simp only [h]; split <;> rfl

theorem resume_ok_iff (s : Sess) (p : Nat) :
    (stepResume s p).isSome = ((getFile s.files p).hasConfig && (getFile s.files p).flow.isSome) := by
  unfold stepResume
  cases h1 : (getFile s.files p).hasConfig <;> cases h2 : (getFile s.files p).flow <;> simp [h1, h2]

/-! ### the single-step fact behind the fix: a run writes the proposal its particles are weighted under -/

theorem sample_writes_current_flow (s : Sess) (p v n : Nat) (c : Bool) (hm : s.memFlow = some v) (hd : s.dstack = [])
    (hw : c = true ∨ 0 < n) :
    getFile (stepSample s .smc (some p) c n).files p =
      { flow := some v, hasConfig := true, cfgSampler := some .smc, ckpt := some (v, .smc) } ∧
    Consistent (getFile (stepSample s .smc (some p) c n).files p) = true := by
  have hw' : (c || decide (0 < n)) = true := by rcases hw with h | h <;> simp [h]
  have h1 : getFile (stepSample s .smc (some p) c n).files p =
      { flow := some v, hasConfig := true, cfgSampler := some .smc, ckpt := some (v, .smc) } := by
    unfold stepSample; simp [topDflt, hm, hd, getFile_setFile_same, hw']
  exact ⟨h1, by rw [h1]; simp [Consistent]⟩

/-- the same inside any context, whether or not it has already saved a proposal (whatever file the context points to) -/
theorem sample_writes_current_flow_ctx (s : Sess) (d : Dflt) (rest : List Dflt) (p v n : Nat) (c : Bool)
    (hm : s.memFlow = some v) (hd : s.dstack = d :: rest) (hw : c = true ∨ 0 < n) :
    getFile (stepSample s .smc (some p) c n).files p =
      { flow := some v, hasConfig := true, cfgSampler := some .smc, ckpt := some (v, .smc) } ∧
    Consistent (getFile (stepSample s .smc (some p) c n).files p) = true ∧
    (stepSample s .smc (some p) c n).dstack = { d with savedConfig := true, savedFlow := true } :: rest := by
  have hw' : (c || decide (0 < n)) = true := by rcases hw with h | h <;> simp [h]
  have h1 : getFile (stepSample s .smc (some p) c n).files p =
      { flow := some v, hasConfig := true, cfgSampler := some .smc, ckpt := some (v, .smc) } ∧
      (stepSample s .smc (some p) c n).dstack = { d with savedConfig := true, savedFlow := true } :: rest := by
    unfold stepSample; simp [topDflt, setTop, hm, hd, getFile_setFile_same, hw']
  exact ⟨h1.1, by rw [h1.1]; simp [Consistent], h1.2⟩

/-- path omitted, context with `save_config=True` -/
theorem sample_writes_current_flow_default (s : Sess) (d : Dflt) (rest : List Dflt) (v n : Nat) (c : Bool)
    (hm : s.memFlow = some v) (hd : s.dstack = d :: rest) (hc : d.saveConfig = true)
    (hw : c = true ∨ 0 < n) :
    getFile (stepSample s .smc none c n).files d.path =
      { flow := some v, hasConfig := true, cfgSampler := some .smc, ckpt := some (v, .smc) } ∧
    Consistent (getFile (stepSample s .smc none c n).files d.path) = true := by
  have hw' : (c || decide (0 < n)) = true := by rcases hw with h | h <;> simp [h]
  have h1 : getFile (stepSample s .smc none c n).files d.path =
      { flow := some v, hasConfig := true, cfgSampler := some .smc, ckpt := some (v, .smc) } := by
    unfold stepSample; simp [topDflt, setTop, hm, hd, hc, getFile_setFile_same, hw']
  exact ⟨h1, by rw [h1]; simp [Consistent]⟩

/-! ### the two earlier rules for writing the proposal, kept as variants -/

/-! #### pinned tree: the proposal is written only when the file has none -/

def stepSamplePinned (s : Sess) (k : SamplerKind) (path : Option Nat) (completed : Bool) (ckptsBefore : Nat) : Sess :=
  let k := match k, s.resumeSampler with
    | .importance, some r => r
    | k, _ => k
  let s := { s with lastSampler := some k }
  let d := topDflt s
  let (path, saveCfg) := match path, d with
    | some p, _ => (some p, true)
    | none, some d => (some d.path, d.saveConfig)
    | none, none => (none, true)
  match path with
  | none => { s with resumeFrom := s.resumeFrom }
  | some p =>
    let f := getFile s.files p
    let f := if saveCfg then { f with hasConfig := true, cfgSampler := some k } else f
    let s := if saveCfg then (match d with | some d => setTop s { d with savedConfig := true } | none => s) else s
    let savedFlow := match topDflt s with | some d => d.savedFlow | none => false
    -- PRE-FIX RULE: the flow is written only when the file has none
    let writeFlow := s.memFlow.isSome && !savedFlow && (getFile s.files p).flow.isNone
    let f := if writeFlow then { f with flow := s.memFlow } else f
    let s := if writeFlow then (match topDflt s with | some d => setTop s { d with savedFlow := true } | none => s) else s
    let wrote := match k with
      | .smc => completed || 0 < ckptsBefore
      | .importance => false
    let f := match s.memFlow with
      | some v => if wrote then { f with ckpt := some (v, k) } else f
      | none => f
    { s with files := setFile s.files p f }

def sstepPinned (s : Sess) : SOp → Option Sess
  | .sample k p c n => some (stepSamplePinned s k p c n)
  | op => sstep s op

def srunPinned (s : Sess) : List SOp → Sess
  | [] => s
  | op :: rest => match sstepPinned s op with
    | some s' => srunPinned s' rest
    | none => srunPinned s rest

def refitHistory : List SOp :=
  [fit (some 1) false, sample smc (some 1) true 0, fit (some 1) false, sample smc (some 1) true 0]

theorem pinned_keeps_stale_flow :
    getFile (srunPinned {} refitHistory).files 1
      = { flow := some 1, hasConfig := true, cfgSampler := some smc, ckpt := some (2, smc) } ∧
    Consistent (getFile (srunPinned {} refitHistory).files 1) = false ∧
    AllConsistent (srunPinned {} refitHistory) = false ∧
    getFile (srun {} refitHistory).files 1
      = { flow := some 2, hasConfig := true, cfgSampler := some smc, ckpt := some (2, smc) } ∧
    AllConsistent (srun {} refitHistory) = true := by decide

/-! #### first fix: the proposal is written once per context (`saved_flow` flag consulted before writing) -/

def stepSampleOncePerContext (s : Sess) (k : SamplerKind) (path : Option Nat) (completed : Bool) (ckptsBefore : Nat) :
    Sess :=
  let k := match k, s.resumeSampler with
    | .importance, some r => r
    | k, _ => k
  let s := { s with lastSampler := some k }
  let d := topDflt s
  let (path, saveCfg) := match path, d with
    | some p, _ => (some p, true)
    | none, some d => (some d.path, d.saveConfig)
    | none, none => (none, true)
  match path with
  | none => { s with resumeFrom := s.resumeFrom }
  | some p =>
    let f := getFile s.files p
    let f := if saveCfg then { f with hasConfig := true, cfgSampler := some k } else f
    let s := if saveCfg then (match d with | some d => setTop s { d with savedConfig := true } | none => s) else s
    let savedFlow := match topDflt s with | some d => d.savedFlow | none => false
    -- EARLIER RULE: the flag of the context suppresses the write
    let writeFlow := s.memFlow.isSome && !savedFlow
    let f := if writeFlow then { f with flow := s.memFlow } else f
    let s := if writeFlow then (match topDflt s with | some d => setTop s { d with savedFlow := true } | none => s) else s
    let wrote := match k with
      | .smc => completed || 0 < ckptsBefore
      | .importance => false
    let f := match s.memFlow with
      | some v => if wrote then { f with ckpt := some (v, k) } else f
      | none => f
    { s with files := setFile s.files p f }

def sstepOnce (s : Sess) : SOp → Option Sess
  | .sample k p c n => some (stepSampleOncePerContext s k p c n)
  | op => sstep s op

def srunOnce (s : Sess) : List SOp → Sess
  | [] => s
  | op :: rest => match sstepOnce s op with
    | some s' => srunOnce s' rest
    | none => srunOnce s rest

/-- under the once-per-context rule a refit and rerun inside one context left proposal version 1 next to a
    checkpoint weighted under version 2 -/
theorem oncePerContext_refit_in_context :
    let s := srunOnce {} [enter 1 true, fit none false, sample smc none true 0, fit none false, sample smc none true 0]
    getFile s.files 1 = { flow := some 1, hasConfig := true, cfgSampler := some smc, ckpt := some (2, smc) } ∧
    Consistent (getFile s.files 1) = false := by decide

/-- under the once-per-context rule an explicit other path inside a context whose flag is set got a checkpoint and
    no proposal -/
theorem oncePerContext_other_path_in_context :
    let s := srunOnce {} [enter 1 true, fit none false, sample smc none true 0, sample smc (some 2) true 0]
    getFile s.files 2 = { flow := none, hasConfig := true, cfgSampler := some smc, ckpt := some (1, smc) } ∧
    Consistent (getFile s.files 2) = false := by decide

/-! ### shape of the two file-writing steps -/

def target (s : Sess) (path : Option Nat) : Option (Nat × Bool) :=
  match path, topDflt s with
  | some p, _ => some (p, true)
  | none, some d => some (d.path, d.saveConfig)
  | none, none => none

def effSampler (s : Sess) (k : SamplerKind) : SamplerKind :=
  match k, s.resumeSampler with
  | .importance, some r => r
  | k, _ => k

def writesCkpt (k' : SamplerKind) (completed : Bool) (n : Nat) : Bool :=
  match k' with
  | .smc => completed || decide (0 < n)
  | .importance => false

def topSavedConfig (s : Sess) : Bool := match topDflt s with | some d => d.savedConfig | none => false

def sampleFile (f : CkFile) (saveCfg : Bool) (k' : SamplerKind) (writeFlow : Bool) (mem : Option Nat) (wrote : Bool) : CkFile :=
  { hasConfig := f.hasConfig || saveCfg,
    cfgSampler := if saveCfg then some k' else f.cfgSampler,
    flow := if writeFlow then mem else f.flow,
    ckpt := match mem with
      | some v => if wrote then some (v, k') else f.ckpt
      | none => f.ckpt }

def markTop (ds : List Dflt) (cfg flow : Bool) : List Dflt :=
  match ds with
  | [] => []
  | d :: rest => { d with savedConfig := d.savedConfig || cfg, savedFlow := d.savedFlow || flow } :: rest

theorem stepSample_noTarget (s : Sess) (k : SamplerKind) (path : Option Nat) (c : Bool) (n : Nat)
    (h : target s path = none) :
    (stepSample s k path c n).files = s.files ∧ (stepSample s k path c n).dstack = s.dstack ∧
    (stepSample s k path c n).memFlow = s.memFlow := by
  cases path with
  | some p => simp [target] at h
  | none =>
    cases hd : s.dstack with
    | cons d rest => simp [target, topDflt, hd] at h
    | nil => unfold stepSample; simp [topDflt, hd]

theorem stepSample_target (s : Sess) (k : SamplerKind) (path : Option Nat) (c : Bool) (n : Nat) (p : Nat) (saveCfg : Bool)
    (h : target s path = some (p, saveCfg)) :
    (stepSample s k path c n).files = setFile s.files p
      (sampleFile (getFile s.files p) saveCfg (effSampler s k) s.memFlow.isSome s.memFlow
        (writesCkpt (effSampler s k) c n)) ∧
    (stepSample s k path c n).dstack = markTop s.dstack saveCfg s.memFlow.isSome ∧
    (stepSample s k path c n).memFlow = s.memFlow := by
  have hn : decide (0 < n) = true ∨ decide (0 < n) = false := by cases decide (0 < n) <;> simp
  cases path with
  | some p' =>
    simp only [target, Option.some.injEq, Prod.mk.injEq] at h
    obtain ⟨rfl, rfl⟩ := h
    cases hd : s.dstack with
    | nil =>
      unfold stepSample
      cases hm : s.memFlow <;> rcases hr : s.resumeSampler with _ | _ | _ <;> cases k <;> cases c <;>
        rcases hn with hn | hn <;>
        simp [topDflt, hd, hr, hn, sampleFile, markTop, effSampler, writesCkpt]
    | cons d rest =>
      obtain ⟨dp, dsc, dsvc, dsvf⟩ := d
      unfold stepSample
      cases hm : s.memFlow <;> cases dsvf <;> rcases hr : s.resumeSampler with _ | _ | _ <;> cases k <;> cases c <;>
        rcases hn with hn | hn <;>
        simp [topDflt, setTop, hd, hr, hn, sampleFile, markTop, effSampler, writesCkpt]
  | none =>
    cases hd : s.dstack with
    | nil => simp [target, topDflt, hd] at h
    | cons d rest =>
      obtain ⟨dp, dsc, dsvc, dsvf⟩ := d
      simp only [target, topDflt, hd, List.head?_cons, Option.some.injEq, Prod.mk.injEq] at h
      obtain ⟨rfl, rfl⟩ := h
      unfold stepSample
      cases hm : s.memFlow <;> cases dsvf <;> cases dsc <;>
        rcases hr : s.resumeSampler with _ | _ | _ <;> cases k <;> cases c <;> rcases hn with hn | hn <;>
        simp [topDflt, setTop, hd, hr, hn, sampleFile, markTop, effSampler, writesCkpt]

def fitFile (f : CkFile) (writeCfg : Bool) (last : Option SamplerKind) (overwrite : Bool) (v : Nat) : CkFile :=
  { hasConfig := f.hasConfig || writeCfg,
    cfgSampler := if writeCfg then last else f.cfgSampler,
    flow := if f.flow.isNone || overwrite then some v else f.flow,
    ckpt := f.ckpt }

theorem stepFit_noTarget (s : Sess) (path : Option Nat) (o : Bool) (h : target s path = none) :
    (stepFit s path o).files = s.files ∧ (stepFit s path o).dstack = s.dstack ∧
    (stepFit s path o).memFlow = some s.nextVersion := by
  cases path with
  | some p => simp [target] at h
  | none =>
    cases hd : s.dstack with
    | cons d rest => simp [target, topDflt, hd] at h
    | nil => unfold stepFit; simp [topDflt, hd]

theorem stepFit_target (s : Sess) (path : Option Nat) (o : Bool) (p : Nat) (saveCfg : Bool)
    (h : target s path = some (p, saveCfg)) :
    (stepFit s path o).files = setFile s.files p
      (fitFile (getFile s.files p) (saveCfg && !topSavedConfig s) s.lastSampler o s.nextVersion) ∧
    (stepFit s path o).dstack = markTop s.dstack (saveCfg && !topSavedConfig s) false ∧
    (stepFit s path o).memFlow = some s.nextVersion := by
  cases path with
  | some p' =>
    simp only [target, Option.some.injEq, Prod.mk.injEq] at h
    obtain ⟨rfl, rfl⟩ := h
    cases hd : s.dstack with
    | nil =>
      unfold stepFit
      rcases hg : getFile s.files p' with ⟨ff, fh, fc, fk⟩
      cases ff <;> cases o <;>
        simp [topDflt, hd, hg, fitFile, markTop, topSavedConfig]
    | cons d rest =>
      obtain ⟨dp, dsc, dsvc, dsvf⟩ := d
      unfold stepFit
      rcases hg : getFile s.files p' with ⟨ff, fh, fc, fk⟩
      cases ff <;> cases o <;> cases dsvc <;>
        simp [topDflt, setTop, hd, hg, fitFile, markTop, topSavedConfig]
  | none =>
    cases hd : s.dstack with
    | nil => simp [target, topDflt, hd] at h
    | cons d rest =>
      obtain ⟨dp, dsc, dsvc, dsvf⟩ := d
      simp only [target, topDflt, hd, List.head?_cons, Option.some.injEq, Prod.mk.injEq] at h
      obtain ⟨rfl, rfl⟩ := h
      unfold stepFit
      rcases hg : getFile s.files dp with ⟨ff, fh, fc, fk⟩
      cases ff <;> cases o <;> cases dsvc <;> cases dsc <;>
        simp [topDflt, setTop, hd, hg, fitFile, markTop, topSavedConfig]

theorem stepFit_other (s : Sess) (path : Option Nat) (o : Bool) :
    (stepFit s path o).nextVersion = s.nextVersion + 1 ∧ (stepFit s path o).lastSampler = s.lastSampler ∧
    (stepFit s path o).resumeSampler = s.resumeSampler := by
  cases path with
  | some p' =>
    cases hd : s.dstack with
    | nil =>
      unfold stepFit
      rcases hg : getFile s.files p' with ⟨ff, fh, fc, fk⟩
      cases ff <;> cases o <;> simp [topDflt, hd]
    | cons d rest =>
      obtain ⟨dp, dsc, dsvc, dsvf⟩ := d
      unfold stepFit
      rcases hg : getFile s.files p' with ⟨ff, fh, fc, fk⟩
      cases ff <;> cases o <;> cases dsvc <;> simp [topDflt, setTop, hd]
  | none =>
    cases hd : s.dstack with
    | nil => unfold stepFit; simp [topDflt, hd]
    | cons d rest =>
      obtain ⟨dp, dsc, dsvc, dsvf⟩ := d
      unfold stepFit
      rcases hg : getFile s.files dp with ⟨ff, fh, fc, fk⟩
      cases ff <;> cases o <;> cases dsvc <;> cases dsc <;> simp [topDflt, setTop, hd, hg]

theorem stepSample_other (s : Sess) (k : SamplerKind) (path : Option Nat) (c : Bool) (n : Nat) :
    (stepSample s k path c n).nextVersion = s.nextVersion ∧
    (stepSample s k path c n).lastSampler = some (effSampler s k) ∧
    (stepSample s k path c n).resumeSampler = s.resumeSampler := by
  cases path with
  | some p' =>
    cases hd : s.dstack with
    | nil =>
      unfold stepSample
      cases hm : s.memFlow <;> rcases hr : s.resumeSampler with _ | _ | _ <;> cases k <;>
        simp [topDflt, hd, hr, effSampler]
    | cons d rest =>
      obtain ⟨dp, dsc, dsvc, dsvf⟩ := d
      unfold stepSample
      cases hm : s.memFlow <;> cases dsvf <;> rcases hr : s.resumeSampler with _ | _ | _ <;> cases k <;>
        simp [topDflt, setTop, hd, hr, effSampler]
  | none =>
    cases hd : s.dstack with
    | nil =>
      unfold stepSample
      rcases hr : s.resumeSampler with _ | _ | _ <;> cases k <;> simp [topDflt, hd, hr, effSampler]
    | cons d rest =>
      obtain ⟨dp, dsc, dsvc, dsvf⟩ := d
      unfold stepSample
      cases hm : s.memFlow <;> cases dsvf <;> cases dsc <;>
        rcases hr : s.resumeSampler with _ | _ | _ <;> cases k <;>
        simp [topDflt, setTop, hd, hr, effSampler]

/-! ### which steps are safe -/

/-- a file whose checkpoint (if any) matches its proposal and its configuration; in this model only SMC
    writes checkpoints -/
def GoodFile (f : CkFile) : Prop :=
  ∀ v k, f.ckpt = some (v, k) → f.flow = some v ∧ f.cfgSampler = some k ∧ k = .smc

def AllGood (fs : List (Nat × CkFile)) : Prop := ∀ pf ∈ fs, GoodFile pf.2

theorem good_getFile (fs : List (Nat × CkFile)) (h : AllGood fs) (p : Nat) : GoodFile (getFile fs p) := by
  unfold getFile
  split
  · rename_i q f hfind
    exact h _ (List.mem_of_find?_eq_some hfind)
  · intro v k hk; simp at hk

theorem good_setFile (fs : List (Nat × CkFile)) (h : AllGood fs) (p : Nat) (f : CkFile) (hf : GoodFile f) :
    AllGood (setFile fs p f) := by
  intro pf hpf
  simp only [setFile, List.mem_cons, List.mem_filter] at hpf
  rcases hpf with rfl | ⟨hm, _⟩
  · exact hf
  · exact h pf hm

/-- `fit` is safe unless the target file holds a checkpoint and the call replaces the file's proposal
    (`overwrite=True`, witness a) or rewrites its configuration with a sampler other than the checkpoint's -/
def okFit (s : Sess) (path : Option Nat) (o : Bool) : Bool :=
  match target s path with
  | none => true
  | some (p, saveCfg) =>
    (getFile s.files p).ckpt.isNone ||
      (!o && (!(saveCfg && !topSavedConfig s) || s.lastSampler == some .smc))

/-- `sample_posterior`.  The proposal in memory is written by every run, hence:
    a run that writes a checkpoint is safe iff the configuration is written or already names SMC (else witness c);
    a run that writes no checkpoint (importance sampler, interrupted before the first checkpoint, no proposal) is safe
    iff the file holds no checkpoint, or the run leaves its configuration (config off or sampler SMC, else witness b)
    and its proposal (none in memory, or the same one, else witness d) as they are. -/
def okSample (s : Sess) (k : SamplerKind) (path : Option Nat) (c : Bool) (n : Nat) : Bool :=
  match target s path with
  | none => true
  | some (p, saveCfg) =>
    if writesCkpt (effSampler s k) c n && s.memFlow.isSome then
      saveCfg || (getFile s.files p).cfgSampler == some .smc
    else
      (getFile s.files p).ckpt.isNone ||
        ((!saveCfg || effSampler s k == .smc) &&
         (s.memFlow.isNone || s.memFlow == (getFile s.files p).flow))

def okStep (s : Sess) : SOp → Bool
  | .fit p o => okFit s p o
  | .sample k p c n => okSample s k p c n
  | .enter _ _ => true
  | .exit => true
  | .resume _ => true

/-- the state after one operation (unchanged when the operation raises) -/
def next (s : Sess) (op : SOp) : Sess := (sstep s op).getD s

/-- every step of the run is safe in the state it is applied to -/
def SafeFrom (s : Sess) : List SOp → Bool
  | [] => true
  | op :: rest => okStep s op && SafeFrom (next s op) rest

/-- **the safe language** -/
def Safe (ops : List SOp) : Prop := SafeFrom {} ops = true

instance (ops : List SOp) : Decidable (Safe ops) := by unfold Safe; infer_instance

theorem srun_cons (s : Sess) (op : SOp) (rest : List SOp) : srun s (op :: rest) = srun (next s op) rest := by
  simp only [srun, next]
  cases sstep s op <;> rfl

/-! ### safe steps keep every file good -/

theorem sampleFile_good (f : CkFile) (saveCfg : Bool) (k' : SamplerKind) (mem : Option Nat) (c : Bool) (n : Nat)
    (hf : GoodFile f)
    (hg : (if writesCkpt k' c n && mem.isSome then saveCfg || f.cfgSampler == some .smc
           else f.ckpt.isNone || ((!saveCfg || k' == .smc) && (mem.isNone || mem == f.flow))) = true) :
    GoodFile (sampleFile f saveCfg k' mem.isSome mem (writesCkpt k' c n)) := by
  intro v k hck
  have hsmc : writesCkpt k' c n = true → k' = .smc := by
    cases k' <;> simp [writesCkpt]
  obtain ⟨ff, fh, fc, fk⟩ := f
  cases hw : writesCkpt k' c n
  · have hk0 : fk = some (v, k) := by
      cases mem <;> simpa [sampleFile, hw] using hck
    obtain ⟨h1, h2, h3⟩ := hf v k hk0
    simp only at h1 h2 h3
    subst h1 h2 h3 hk0
    cases mem <;> cases saveCfg <;> simp_all [sampleFile]
  · have hk' := hsmc hw
    subst hk'
    cases mem with
    | none =>
      have hk0 : fk = some (v, k) := by simpa [sampleFile, hw] using hck
      obtain ⟨h1, h2, h3⟩ := hf v k hk0
      simp only at h1 h2 h3
      subst h1 h2 h3 hk0
      cases saveCfg <;> simp_all [sampleFile]
    | some m =>
      have : m = v ∧ smc = k := by simpa [sampleFile, hw] using hck
      obtain ⟨rfl, rfl⟩ := this
      cases saveCfg <;> simp_all [sampleFile]

theorem fitFile_good (f : CkFile) (wc : Bool) (last : Option SamplerKind) (o : Bool) (v : Nat)
    (hf : GoodFile f)
    (hg : (f.ckpt.isNone || (!o && (!wc || last == some .smc))) = true) :
    GoodFile (fitFile f wc last o v) := by
  intro v0 k hck
  obtain ⟨ff, fh, fc, fk⟩ := f
  have hk0 : fk = some (v0, k) := by simpa [fitFile] using hck
  obtain ⟨h1, h2, h3⟩ := hf v0 k hk0
  simp only at h1 h2 h3
  subst h1 h2 h3 hk0
  cases o <;> cases wc <;> simp_all [fitFile]

theorem good_fit (s : Sess) (path : Option Nat) (o : Bool) (hI : AllGood s.files) (hg : okFit s path o = true) :
    AllGood (stepFit s path o).files := by
  cases ht : target s path with
  | none => rw [(stepFit_noTarget s path o ht).1]; exact hI
  | some ps =>
    obtain ⟨p, saveCfg⟩ := ps
    unfold okFit at hg
    rw [ht] at hg
    rw [(stepFit_target s path o p saveCfg ht).1]
    exact good_setFile _ hI _ _ (fitFile_good _ _ _ _ _ (good_getFile _ hI p) hg)

theorem good_sample (s : Sess) (k : SamplerKind) (path : Option Nat) (c : Bool) (n : Nat) (hI : AllGood s.files)
    (hg : okSample s k path c n = true) : AllGood (stepSample s k path c n).files := by
  cases ht : target s path with
  | none => rw [(stepSample_noTarget s k path c n ht).1]; exact hI
  | some ps =>
    obtain ⟨p, saveCfg⟩ := ps
    unfold okSample at hg
    rw [ht] at hg
    rw [(stepSample_target s k path c n p saveCfg ht).1]
    exact good_setFile _ hI _ _ (sampleFile_good _ _ _ _ _ _ (good_getFile _ hI p) hg)

theorem resume_files (s s' : Sess) (p : Nat) (h : stepResume s p = some s') :
    s'.files = s.files ∧ s'.dstack = [{ path := p, saveConfig := false }] ∧ s'.nextVersion = s.nextVersion := by
  unfold stepResume at h
  simp only at h
  split at h
  · exact absurd h (by simp)
  · split at h
    · exact absurd h (by simp)
    · injection h with h
      subst h
      exact ⟨rfl, rfl, rfl⟩

theorem good_next (s : Sess) (op : SOp) (hI : AllGood s.files) (hg : okStep s op = true) :
    AllGood (next s op).files := by
  cases op with
  | fit p o => exact good_fit s p o hI hg
  | sample k p c n => exact good_sample s k p c n hI hg
  | enter p sc => exact hI
  | exit => exact hI
  | resume p =>
    simp only [next, sstep]
    cases h : stepResume s p with
    | none => exact hI
    | some s' => simp only [Option.getD_some]; rw [(resume_files s s' p h).1]; exact hI

theorem good_run (ops : List SOp) : ∀ s, AllGood s.files → SafeFrom s ops = true → AllGood (srun s ops).files := by
  induction ops with
  | nil => intro s hI _; exact hI
  | cons op rest ih =>
    intro s hI hs
    simp only [SafeFrom, Bool.and_eq_true] at hs
    rw [srun_cons]
    exact ih _ (good_next s op hI hs.1) hs.2

theorem good_allConsistent (s : Sess) (hI : AllGood s.files) : AllConsistent s = true := by
  simp only [AllConsistent, List.all_eq_true]
  intro pf hpf
  rw [consistent_iff]
  intro v k hk
  obtain ⟨h1, h2, _⟩ := hI pf hpf v k hk
  exact ⟨h1, h2⟩

/-- **C14, partial**: along every safe sequence every file stays self-consistent -/
theorem consistent_partial (ops : List SOp) (h : Safe ops) : AllConsistent (srun {} ops) = true :=
  good_allConsistent _ (good_run ops {} (by intro pf hpf; simp at hpf) h)

/-! ### every excluded step breaks a file: `Safe` is exactly the language on which C14 holds throughout -/

/-- proposal versions in memory and in files are older than the next one to be produced -/
structure Fresh (s : Sess) : Prop where
  mem : ∀ v, s.memFlow = some v → v < s.nextVersion
  file : ∀ pf ∈ s.files, ∀ v, pf.2.flow = some v → v < s.nextVersion

theorem fresh_getFile (s : Sess) (h : Fresh s) (p v : Nat) (hv : (getFile s.files p).flow = some v) :
    v < s.nextVersion := by
  unfold getFile at hv
  split at hv
  · rename_i q f hfind
    exact h.file _ (List.mem_of_find?_eq_some hfind) v hv
  · simp at hv

theorem fresh_setFile (fs : List (Nat × CkFile)) (N : Nat) (h : ∀ pf ∈ fs, ∀ v, pf.2.flow = some v → v < N)
    (p : Nat) (f : CkFile) (hf : ∀ v, f.flow = some v → v < N) :
    ∀ pf ∈ setFile fs p f, ∀ v, pf.2.flow = some v → v < N := by
  intro pf hpf
  simp only [setFile, List.mem_cons, List.mem_filter] at hpf
  rcases hpf with rfl | ⟨hm, _⟩
  · exact hf
  · exact h pf hm

theorem fresh_fit (s : Sess) (path : Option Nat) (o : Bool) (h : Fresh s) : Fresh (stepFit s path o) := by
  obtain ⟨hn, _, _⟩ := stepFit_other s path o
  cases ht : target s path with
  | none =>
    obtain ⟨h1, _, h3⟩ := stepFit_noTarget s path o ht
    refine ⟨?_, ?_⟩
    · intro v hv; rw [h3] at hv; rw [hn]; injection hv with hv; omega
    · intro pf hpf v hv; rw [h1] at hpf; rw [hn]; exact Nat.lt_succ_of_lt (h.file pf hpf v hv)
  | some ps =>
    obtain ⟨p, saveCfg⟩ := ps
    obtain ⟨h1, _, h3⟩ := stepFit_target s path o p saveCfg ht
    refine ⟨?_, ?_⟩
    · intro v hv; rw [h3] at hv; rw [hn]; injection hv with hv; omega
    · rw [h1, hn]
      refine fresh_setFile _ _ (fun pf hpf v hv => Nat.lt_succ_of_lt (h.file pf hpf v hv)) _ _ ?_
      intro v hv
      simp only [fitFile] at hv
      split at hv
      · injection hv with hv; omega
      · exact Nat.lt_succ_of_lt (fresh_getFile s h p v hv)

theorem fresh_sample (s : Sess) (k : SamplerKind) (path : Option Nat) (c : Bool) (n : Nat) (h : Fresh s) :
    Fresh (stepSample s k path c n) := by
  obtain ⟨hn, _, _⟩ := stepSample_other s k path c n
  cases ht : target s path with
  | none =>
    obtain ⟨h1, _, h3⟩ := stepSample_noTarget s k path c n ht
    exact ⟨by rw [h3, hn]; exact h.mem, by rw [h1, hn]; exact h.file⟩
  | some ps =>
    obtain ⟨p, saveCfg⟩ := ps
    obtain ⟨h1, _, h3⟩ := stepSample_target s k path c n p saveCfg ht
    refine ⟨by rw [h3, hn]; exact h.mem, ?_⟩
    rw [h1, hn]
    refine fresh_setFile _ _ h.file _ _ ?_
    intro v hv
    simp only [sampleFile] at hv
    split at hv
    · exact h.mem v hv
    · exact fresh_getFile s h p v hv

theorem fresh_next (s : Sess) (op : SOp) (h : Fresh s) : Fresh (next s op) := by
  cases op with
  | fit p o => exact fresh_fit s p o h
  | sample k p c n => exact fresh_sample s k p c n h
  | enter p sc => exact ⟨h.mem, h.file⟩
  | exit => exact ⟨h.mem, h.file⟩
  | resume p =>
    simp only [next, sstep]
    cases hr : stepResume s p with
    | none => exact h
    | some s' =>
      simp only [Option.getD_some]
      obtain ⟨hf, _, hn⟩ := resume_files s s' p hr
      obtain ⟨hm, _, _⟩ := resume_uses_file_flow s s' p hr
      refine ⟨?_, by rw [hf, hn]; exact h.file⟩
      intro v hv
      rw [hm] at hv; rw [hn]
      exact fresh_getFile s h p v hv

theorem allConsistent_setFile_false (s' : Sess) (fs : List (Nat × CkFile)) (p : Nat) (f : CkFile)
    (hfiles : s'.files = setFile fs p f) (hf : Consistent f = false) : AllConsistent s' = false := by
  simp [AllConsistent, hfiles, setFile, hf]

theorem fitFile_bad (f : CkFile) (wc : Bool) (last : Option SamplerKind) (o : Bool) (N : Nat)
    (hf : GoodFile f) (hfresh : ∀ v, f.flow = some v → v < N)
    (hg : (f.ckpt.isNone || (!o && (!wc || last == some .smc))) = false) :
    Consistent (fitFile f wc last o N) = false := by
  obtain ⟨ff, fh, fc, fk⟩ := f
  cases fk with
  | none => simp at hg
  | some vk =>
    obtain ⟨v0, k0⟩ := vk
    obtain ⟨h1, h2, h3⟩ := hf v0 k0 rfl
    simp only at h1 h2 h3
    subst h1 h2 h3
    have hlt : v0 < N := hfresh v0 rfl
    have hne : ¬ N = v0 := by omega
    cases o <;> cases wc <;> simp_all [fitFile, Consistent]

theorem sampleFile_bad (f : CkFile) (saveCfg : Bool) (k' : SamplerKind) (mem : Option Nat) (c : Bool) (n : Nat)
    (hf : GoodFile f)
    (hg : (if writesCkpt k' c n && mem.isSome then saveCfg || f.cfgSampler == some .smc
           else f.ckpt.isNone || ((!saveCfg || k' == .smc) && (mem.isNone || mem == f.flow))) = false) :
    Consistent (sampleFile f saveCfg k' mem.isSome mem (writesCkpt k' c n)) = false := by
  have hsmc : writesCkpt k' c n = true → k' = .smc := by
    cases k' <;> simp [writesCkpt]
  obtain ⟨ff, fh, fc, fk⟩ := f
  cases hw : writesCkpt k' c n
  · simp only [hw, Bool.false_and, Bool.false_eq_true, if_false] at hg
    cases fk with
    | none => simp at hg
    | some vk =>
      obtain ⟨v0, k0⟩ := vk
      obtain ⟨h1, h2, h3⟩ := hf v0 k0 rfl
      simp only at h1 h2 h3
      subst h1 h2 h3
      cases mem <;> cases saveCfg <;> cases k' <;> simp_all [sampleFile, Consistent]
  · have hk' := hsmc hw
    subst hk'
    cases mem with
    | none =>
      simp only [hw, Option.isSome_none, Bool.and_false, Bool.false_eq_true, if_false] at hg
      cases fk with
      | none => simp at hg
      | some vk =>
        obtain ⟨v0, k0⟩ := vk
        obtain ⟨h1, h2, h3⟩ := hf v0 k0 rfl
        simp only at h1 h2 h3
        subst h1 h2 h3
        cases saveCfg <;> simp_all
    | some m =>
      cases saveCfg <;> simp_all [sampleFile, Consistent]

/-- an excluded step leaves an inconsistent file behind -/
theorem unsafe_breaks (s : Sess) (op : SOp) (hI : AllGood s.files) (hF : Fresh s) (hg : okStep s op = false) :
    AllConsistent (next s op) = false := by
  cases op with
  | fit path o =>
    simp only [okStep, okFit] at hg
    cases ht : target s path with
    | none => simp [ht] at hg
    | some ps =>
      obtain ⟨p, saveCfg⟩ := ps
      rw [ht] at hg
      exact allConsistent_setFile_false _ _ _ _ (stepFit_target s path o p saveCfg ht).1
        (fitFile_bad _ _ _ _ _ (good_getFile _ hI p) (fresh_getFile s hF p) hg)
  | sample k path c n =>
    simp only [okStep, okSample] at hg
    cases ht : target s path with
    | none => simp [ht] at hg
    | some ps =>
      obtain ⟨p, saveCfg⟩ := ps
      rw [ht] at hg
      exact allConsistent_setFile_false _ _ _ _ (stepSample_target s k path c n p saveCfg ht).1
        (sampleFile_bad _ _ _ _ _ _ (good_getFile _ hI p) hg)
  | enter p sc => simp [okStep] at hg
  | exit => simp [okStep] at hg
  | resume p => simp [okStep] at hg

/-- every file is self-consistent after each operation of the run -/
def ConsistentThroughout (s : Sess) : List SOp → Bool
  | [] => true
  | op :: rest => AllConsistent (next s op) && ConsistentThroughout (next s op) rest

theorem safeFrom_eq (ops : List SOp) :
    ∀ s, AllGood s.files → Fresh s → SafeFrom s ops = ConsistentThroughout s ops := by
  induction ops with
  | nil => intro s _ _; rfl
  | cons op rest ih =>
    intro s hI hF
    simp only [SafeFrom, ConsistentThroughout]
    cases hg : okStep s op
    · rw [unsafe_breaks s op hI hF hg]; rfl
    · have hI' := good_next s op hI hg
      rw [good_allConsistent _ hI', ih _ hI' (fresh_next s op hF)]

theorem fresh_init : Fresh {} := ⟨by intro v h; simp at h, by intro pf h; simp at h⟩

/-- **`Safe` is the largest language**: a sequence is safe iff every file is self-consistent after each of its
    operations; i.e. each excluded operation is one that breaks a file on the spot. -/
theorem safe_iff_consistent_throughout (ops : List SOp) : Safe ops ↔ ConsistentThroughout {} ops = true := by
  unfold Safe
  rw [safeFrom_eq ops {} (by intro pf hpf; simp at hpf) fresh_init]

/-! ### a purely syntactic sub-language: SMC-only sessions, contexts with `save_config=True`

Fits without overwrite (with `overwrite` arbitrary when no file is targeted), SMC runs that reach their first
checkpoint, to any file, inside or outside contexts; contexts `auto_checkpoint(p, save_config=True)`, nested at will.
Refitting and sampling again to the same file, inside one context or across contexts, is allowed any number of times.
The only state tracked is the number of open contexts. -/

def synStep (depth : Nat) : SOp → Option Nat
  | .fit none o => if depth == 0 || !o then some depth else none
  | .fit (some _) o => if !o then some depth else none
  | .sample .smc none c n => if depth == 0 || writesCkpt .smc c n then some depth else none
  | .sample .smc (some _) c n => if writesCkpt .smc c n then some depth else none
  | .sample .importance _ _ _ => none
  | .enter _ sc => if sc then some (depth + 1) else none
  | .exit => some (depth - 1)
  | .resume _ => none

def SynSafeFrom : Nat → List SOp → Bool
  | _, [] => true
  | depth, op :: rest =>
    match synStep depth op with
    | some depth' => SynSafeFrom depth' rest
    | none => false

def SynSafe (ops : List SOp) : Prop := SynSafeFrom 0 ops = true

instance (ops : List SOp) : Decidable (SynSafe ops) := by unfold SynSafe; infer_instance

def NoCkpt (fs : List (Nat × CkFile)) : Prop := ∀ pf ∈ fs, pf.2.ckpt = none

structure Link (depth : Nat) (s : Sess) : Prop where
  noResume : s.resumeSampler = none
  smcOnly : s.lastSampler = some .smc ∨ NoCkpt s.files
  depth : s.dstack.length = depth
  cfgOn : ∀ d ∈ s.dstack, d.saveConfig = true

theorem noCkpt_getFile (fs : List (Nat × CkFile)) (h : NoCkpt fs) (p : Nat) : (getFile fs p).ckpt = none := by
  unfold getFile
  split
  · rename_i q f hfind
    exact h _ (List.mem_of_find?_eq_some hfind)
  · rfl

theorem noCkpt_fit (s : Sess) (path : Option Nat) (o : Bool) (h : NoCkpt s.files) : NoCkpt (stepFit s path o).files := by
  cases ht : target s path with
  | none => rw [(stepFit_noTarget s path o ht).1]; exact h
  | some ps =>
    rw [(stepFit_target s path o ps.1 ps.2 ht).1]
    intro pf hpf
    simp only [setFile, List.mem_cons, List.mem_filter] at hpf
    rcases hpf with rfl | ⟨hm, _⟩
    · exact noCkpt_getFile _ h _
    · exact h pf hm

theorem effSampler_smc (s : Sess) : effSampler s .smc = .smc := by
  unfold effSampler; cases s.resumeSampler <;> rfl

theorem okFit_smcOnly (s : Sess) (path : Option Nat) (h : s.lastSampler = some .smc ∨ NoCkpt s.files) :
    okFit s path false = true := by
  unfold okFit
  cases target s path with
  | none => rfl
  | some ps =>
    rcases h with h | h
    · simp [h]
    · simp [noCkpt_getFile _ h]

theorem markTop_length (ds : List Dflt) (a b : Bool) : (markTop ds a b).length = ds.length := by
  cases ds <;> rfl

theorem markTop_cfgOn (ds : List Dflt) (a b : Bool) (h : ∀ d ∈ ds, d.saveConfig = true) :
    ∀ d ∈ markTop ds a b, d.saveConfig = true := by
  cases ds with
  | nil => intro d hd; simp [markTop] at hd
  | cons d0 rest =>
    intro d hd
    simp only [markTop, List.mem_cons] at hd
    rcases hd with rfl | hd
    · exact h d0 (by simp)
    · exact h d (by simp [hd])

theorem fit_dstack (s : Sess) (path : Option Nat) (o : Bool) :
    (stepFit s path o).dstack = s.dstack ∨ ∃ b, (stepFit s path o).dstack = markTop s.dstack b false := by
  cases ht : target s path with
  | none => exact Or.inl (stepFit_noTarget s path o ht).2.1
  | some ps => exact Or.inr ⟨_, (stepFit_target s path o ps.1 ps.2 ht).2.1⟩

theorem sample_dstack (s : Sess) (k : SamplerKind) (path : Option Nat) (c : Bool) (n : Nat) :
    (stepSample s k path c n).dstack = s.dstack ∨ ∃ a b, (stepSample s k path c n).dstack = markTop s.dstack a b := by
  cases ht : target s path with
  | none => exact Or.inl (stepSample_noTarget s k path c n ht).2.1
  | some ps => exact Or.inr ⟨_, _, (stepSample_target s k path c n ps.1 ps.2 ht).2.1⟩

theorem target_none_of_depth0 (s : Sess) (h : s.dstack.length = 0) : target s none = none := by
  have : s.dstack = [] := List.eq_nil_of_length_eq_zero h
  simp [target, topDflt, this]

/-- with every open context at `save_config=True` the configuration is always written -/
theorem target_cfgOn (s : Sess) (path : Option Nat) (p : Nat) (sc : Bool) (h : ∀ d ∈ s.dstack, d.saveConfig = true)
    (ht : target s path = some (p, sc)) : sc = true := by
  cases path with
  | some q =>
    simp only [target, Option.some.injEq, Prod.mk.injEq] at ht
    exact ht.2.symm
  | none =>
    cases hd : s.dstack with
    | nil => simp [target, topDflt, hd] at ht
    | cons d rest =>
      simp only [target, topDflt, hd, List.head?_cons, Option.some.injEq, Prod.mk.injEq] at ht
      rw [← ht.2]; exact h d (by simp [hd])

theorem link_fit (depth : Nat) (s : Sess) (path : Option Nat) (o : Bool) (hL : Link depth s)
    (ho : o = false ∨ target s path = none) :
    okFit s path o = true ∧ Link depth (stepFit s path o) := by
  obtain ⟨_, hl, hr⟩ := stepFit_other s path o
  refine ⟨?_, ?_, ?_, ?_, ?_⟩
  · rcases ho with rfl | ho
    · exact okFit_smcOnly s path hL.smcOnly
    · simp [okFit, ho]
  · rw [hr]; exact hL.noResume
  · rw [hl]
    rcases hL.smcOnly with h | h
    · exact Or.inl h
    · exact Or.inr (noCkpt_fit s path o h)
  · rcases fit_dstack s path o with h | ⟨b, h⟩
    · rw [h]; exact hL.depth
    · rw [h, markTop_length]; exact hL.depth
  · rcases fit_dstack s path o with h | ⟨b, h⟩
    · rw [h]; exact hL.cfgOn
    · rw [h]; exact markTop_cfgOn _ _ _ hL.cfgOn

theorem link_sample (depth : Nat) (s : Sess) (path : Option Nat) (c : Bool) (n : Nat) (hL : Link depth s)
    (hw : writesCkpt .smc c n = true ∨ target s path = none) :
    okSample s .smc path c n = true ∧ Link depth (stepSample s .smc path c n) := by
  obtain ⟨_, hl, hr⟩ := stepSample_other s .smc path c n
  refine ⟨?_, ?_, ?_, ?_, ?_⟩
  · unfold okSample
    cases ht : target s path with
    | none => rfl
    | some ps =>
      obtain ⟨p, saveCfg⟩ := ps
      have hw' : writesCkpt .smc c n = true := by
        rcases hw with h | h
        · exact h
        · rw [ht] at h; exact absurd h (by simp)
      have hsc := target_cfgOn s path p saveCfg hL.cfgOn ht
      subst hsc
      simp only [effSampler_smc, hw', Bool.true_and, Bool.true_or]
      cases hm : s.memFlow <;> simp
  · rw [hr]; exact hL.noResume
  · rw [hl, effSampler_smc]; exact Or.inl rfl
  · rcases sample_dstack s .smc path c n with h | ⟨a, b, h⟩
    · rw [h]; exact hL.depth
    · rw [h, markTop_length]; exact hL.depth
  · rcases sample_dstack s .smc path c n with h | ⟨a, b, h⟩
    · rw [h]; exact hL.cfgOn
    · rw [h]; exact markTop_cfgOn _ _ _ hL.cfgOn

theorem link_step (depth depth' : Nat) (s : Sess) (op : SOp) (hL : Link depth s)
    (h : synStep depth op = some depth') : okStep s op = true ∧ Link depth' (next s op) := by
  cases op with
  | fit path o =>
    cases path with
    | none =>
      simp only [synStep] at h
      split at h
      · rename_i hc
        simp only [Option.some.injEq] at h; subst h
        simp only [Bool.or_eq_true, beq_iff_eq, Bool.not_eq_true'] at hc
        refine link_fit depth s none o hL ?_
        rcases hc with hc | hc
        · exact Or.inr (target_none_of_depth0 s (by rw [hL.depth, hc]))
        · exact Or.inl hc
      · simp at h
    | some q =>
      simp only [synStep] at h
      split at h
      · rename_i hc
        simp only [Option.some.injEq] at h; subst h
        simp only [Bool.not_eq_true'] at hc
        exact link_fit depth s (some q) o hL (Or.inl hc)
      · simp at h
  | sample k path c n =>
    cases k with
    | importance => simp [synStep] at h
    | smc =>
      cases path with
      | none =>
        simp only [synStep] at h
        split at h
        · rename_i hc
          simp only [Option.some.injEq] at h; subst h
          simp only [Bool.or_eq_true, beq_iff_eq] at hc
          refine link_sample depth s none c n hL ?_
          rcases hc with hc | hc
          · exact Or.inr (target_none_of_depth0 s (by rw [hL.depth, hc]))
          · exact Or.inl hc
        · simp at h
      | some q =>
        simp only [synStep] at h
        split at h
        · rename_i hc
          simp only [Option.some.injEq] at h; subst h
          exact link_sample depth s (some q) c n hL (Or.inl hc)
        · simp at h
  | enter p sc =>
    simp only [synStep] at h
    split at h
    · rename_i hc
      simp only [Option.some.injEq] at h; subst h
      subst hc
      refine ⟨rfl, hL.noResume, hL.smcOnly, ?_, ?_⟩
      · simp [next, sstep, hL.depth]
      · intro d hd
        simp only [next, sstep, Option.getD_some, List.mem_cons] at hd
        rcases hd with rfl | hd
        · rfl
        · exact hL.cfgOn d hd
    · simp at h
  | exit =>
    simp only [synStep, Option.some.injEq] at h; subst h
    refine ⟨rfl, hL.noResume, hL.smcOnly, ?_, ?_⟩
    · simp [next, sstep, hL.depth]
    · intro d hd
      simp only [next, sstep, Option.getD_some] at hd
      exact hL.cfgOn d (List.mem_of_mem_tail hd)
  | resume p => simp [synStep] at h

theorem synSafeFrom_safeFrom (ops : List SOp) :
    ∀ depth s, Link depth s → SynSafeFrom depth ops = true → SafeFrom s ops = true := by
  induction ops with
  | nil => intro _ _ _ _; rfl
  | cons op rest ih =>
    intro depth s hL h
    simp only [SynSafeFrom] at h
    cases hs : synStep depth op with
    | none => rw [hs] at h; exact absurd h (by simp)
    | some depth' =>
      rw [hs] at h
      obtain ⟨h1, h2⟩ := link_step depth depth' s op hL hs
      simp only [SafeFrom, Bool.and_eq_true]
      exact ⟨h1, ih depth' _ h2 h⟩

theorem link_init : Link 0 {} :=
  ⟨rfl, Or.inr (by intro pf h; simp at h), rfl, by intro d h; simp at h⟩

theorem synSafe_safe (ops : List SOp) (h : SynSafe ops) : Safe ops :=
  synSafeFrom_safeFrom ops 0 {} link_init h

/-- C14 on the syntactic language -/
theorem consistent_synSafe (ops : List SOp) (h : SynSafe ops) : AllConsistent (srun {} ops) = true :=
  consistent_partial ops (synSafe_safe ops h)

/-! ### resuming -/

/-- on the instance returned by `resume_from_file(p)` a run with the default path (the file itself, configuration
    off) is safe iff it writes no checkpoint or the file's configuration names SMC -/
theorem resume_then_sample (s s' : Sess) (p : Nat) (k : SamplerKind) (c : Bool) (n : Nat)
    (h : stepResume s p = some s') :
    okSample s' k none c n =
      (!writesCkpt (effSampler s' k) c n || (getFile s.files p).cfgSampler == some .smc) := by
  obtain ⟨hm, _, hf⟩ := resume_uses_file_flow s s' p h
  obtain ⟨_, hd, _⟩ := resume_files s s' p h
  have hsome : s'.memFlow.isSome = true := by
    unfold stepResume at h
    simp only at h
    split at h
    · exact absurd h (by simp)
    · split at h
      · exact absurd h (by simp)
      · injection h with h; subst h; rfl
  have ht : target s' none = some (p, false) := by simp [target, topDflt, hd]
  obtain ⟨v, hv⟩ : ∃ v, (getFile s.files p).flow = some v := by
    rw [hm] at hsome
    cases hfl : (getFile s.files p).flow with
    | none => simp [hfl] at hsome
    | some v => exact ⟨v, rfl⟩
  unfold okSample
  rw [ht]
  cases hw : writesCkpt (effSampler s' k) c n <;> simp [hf, hm, hv]

/-- **resuming a good file and continuing is always safe** (whatever sampler is asked for, the one that wrote the
    checkpoint is used, and its particles are weighted under the proposal that is in the file) -/
theorem resume_then_sample_safe (s s' : Sess) (p : Nat) (k : SamplerKind) (c : Bool) (n : Nat)
    (hI : AllGood s.files) (h : stepResume s p = some s') (hck : (getFile s.files p).ckpt.isSome = true) :
    okSample s' k none c n = true ∧ effSampler s' k = .smc := by
  obtain ⟨v, ks, hc⟩ : ∃ v ks, (getFile s.files p).ckpt = some (v, ks) := by
    cases hc : (getFile s.files p).ckpt with
    | none => simp [hc] at hck
    | some vk => exact ⟨vk.1, vk.2, rfl⟩
  obtain ⟨_, h2, h3⟩ := good_getFile _ hI p v ks hc
  subst h3
  refine ⟨?_, ?_⟩
  · rw [resume_then_sample s s' p k c n h, h2]; simp
  · have := (resume_never_mixes s s' p v .smc h
      ((consistent_iff _).mpr (fun v' k' hk' => by
        obtain ⟨a, b, _⟩ := good_getFile _ hI p v' k' hk'; exact ⟨a, b⟩)) hc).2.2
    unfold effSampler
    rw [this]
    cases k <;> rfl

/-- without a checkpoint in the file the importance sampler is safe on the resumed instance -/
theorem resume_then_importance_safe (s s' : Sess) (p : Nat) (c : Bool) (n : Nat)
    (h : stepResume s p = some s') (hck : (getFile s.files p).ckpt = none) :
    okSample s' .importance none c n = true := by
  rw [resume_then_sample s s' p .importance c n h]
  have : s'.resumeSampler = none := by
    unfold stepResume at h
    simp only at h
    split at h
    · exact absurd h (by simp)
    · split at h
      · exact absurd h (by simp)
      · injection h with h; subst h; simp [hck]
  simp [effSampler, this, writesCkpt]

/-! ### non-vacuity -/

/-- refit + rerun to the same file (outside and inside a context, and twice inside one context), then resume and
    continue -/
def exRefit : List SOp :=
  [fit (some 1) false, sample smc (some 1) true 0, fit (some 1) false, sample smc (some 1) false 2,
   enter 1 true, fit none false, sample smc none true 0, fit none false, sample smc (some 1) true 0, SOp.exit,
   resume 1, sample importance none true 0]

example : Safe exRefit := by decide
example : SynSafe (exRefit.take 10) := by decide
example : AllConsistent (srun {} exRefit) = true := consistent_partial _ (by decide)
/-- four different proposals were fitted and the file ends with the last one, its checkpoint weighted under it -/
example : getFile (srun {} exRefit).files 1
    = { flow := some 4, hasConfig := true, cfgSampler := some smc, ckpt := some (4, smc) } := by decide

/-- nested contexts, explicit other path inside a context, overwrite where no file is targeted -/
example : SynSafe [fit none true, enter 1 true, enter 2 true, fit none false, sample smc (some 3) true 0,
    sample smc none false 1, SOp.exit, fit (some 2) false, sample smc none true 0, SOp.exit, SOp.exit] := by decide

/-- the usage documented in docs/checkpointing.rst: run in a context, crash, resume with the default sampler inside a
    context on the same file, crash again, resume again -/
def exDocumented : List SOp :=
  [fit none false, enter 1 true, sample smc none false 2, SOp.exit, resume 1, enter 1 true,
   sample importance none false 1, SOp.exit, resume 1, sample importance none true 0]

example : Safe exDocumented := by decide

/-- safe although outside the syntactic language: a run interrupted before its first checkpoint is harmless when
    the proposal has not changed since the checkpoint in the file was written -/
example : Safe [fit none false, sample smc (some 1) true 0, sample smc (some 1) false 0] ∧
    ¬ SynSafe [fit none false, sample smc (some 1) true 0, sample smc (some 1) false 0] := by decide

/-- the hypotheses of the single-step theorems are met by a concrete state -/
example : (stepFit {} none false).memFlow = some 1 ∧ (stepFit {} none false).dstack = [] := by decide

/-- the witnesses are not safe -/
example : ¬ Safe [fit none false, sample smc (some 1) true 0, fit (some 1) true] := by decide
example : ¬ Safe [fit none false, sample smc (some 1) true 0, sample importance (some 1) true 0] := by decide
example : ¬ Safe [fit none false, enter 1 false, sample smc none true 0] := by decide
example : ¬ Safe [fit none false, sample smc (some 1) true 0, fit none false, sample smc (some 1) false 0] := by decide

end C14
