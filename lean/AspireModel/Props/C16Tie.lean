import AspireModel.Gen.SrcRows
import AspireModel.Props.C16
/-
  C16 — tie of `Model.select` (the model of `__getitem__` of the three sample classes) and of `to_standard_samples` to their TRANSLATION
  from `/repo`'s source (`Gen/SrcRows.lean`, regenerated on every run by `harness/translate/rows2lean.py`): which field of the selection is
  built from which field of the parent, indexed by the same index list; and the property's clauses for the translated methods.
  Core Lean only.
-/
namespace C16
open Model Gen
variable {X V : Type}

/-- the ESS hook of the model, as the source computes it: max-shift, then `exp(2 lse(l) - lse(2 l))` -/
def essOf (ops : RowOps X V) : List V → V := fun l => ops.essShifted (ops.shiftMax l)

theorem tie_getitem_base (ops : RowOps X V) (idx : List Nat) (S : SampleSet X V) (hc : S.cls = .base) :
    Gen.getitem_base ops idx S = select (essOf ops) ops.evFn idx S := by
  simp [Gen.getitem_base, RowOps.construct, select, selBase, hc]

theorem tie_getitem_smc (ops : RowOps X V) (idx : List Nat) (S : SampleSet X V) (hc : S.cls = .smc) :
    Gen.getitem_smc ops idx S = select (essOf ops) ops.evFn idx S := by
  simp [Gen.getitem_smc, Gen.getitem_base, RowOps.construct, select, selBase, hc]

/-- `Samples.__getitem__` (a weighted set stores its weights next to its log-weights: `logW` present ⇒ `weights` present, which is
    what `compute_weights` establishes; for a hand-made set with log-weights only the source fills `weights` with `exp(log_w)`) -/
theorem tie_getitem_samples (ops : RowOps X V) (idx : List Nat) (S : SampleSet X V) (hc : S.cls = .samples)
    (hw : S.logW.isSome = true → S.weights.isSome = true) :
    Gen.getitem_samples ops idx S = select (essOf ops) ops.evFn idx S := by
  unfold Gen.getitem_samples Gen.getitem_base select
  simp only [RowOps.construct, hc, selBase]
  cases hl : S.logW with
  | none => simp
  | some lw =>
    have hws : S.weights.isSome = true := hw (by simp [hl])
    simp [hws, pickO, essOf]

/-! ### the property's clauses for the translated methods -/

/-- **every per-sample field of a selection is the same selection of the parent's field**, for the three translated `__getitem__`s
    and any constructor hook that only fills derived fields -/
theorem src_selection_aligned (ops : RowOps X V) (hev : EvOK ops.evFn) (idx : List Nat) (S : SampleSet X V) :
    ∀ T ∈ [Gen.getitem_base ops idx S, Gen.getitem_samples ops idx S, Gen.getitem_smc ops idx S],
      T.x = pick idx S.x ∧ T.ll = pickO idx S.ll ∧ T.lp = pickO idx S.lp ∧ T.lq = pickO idx S.lq := by
  have hb : (Gen.getitem_base ops idx S).x = pick idx S.x ∧ (Gen.getitem_base ops idx S).ll = pickO idx S.ll ∧
      (Gen.getitem_base ops idx S).lp = pickO idx S.lp ∧ (Gen.getitem_base ops idx S).lq = pickO idx S.lq := by
    unfold Gen.getitem_base RowOps.construct
    cases hc : S.cls
    · simp
    · have := hev { cls := .samples, x := pick idx S.x, ll := pickO idx S.ll, lp := pickO idx S.lp, lq := pickO idx S.lq }
      simp only at this ⊢
      exact ⟨this.1, this.2.1, this.2.2.1, this.2.2.2.1⟩
    · simp
  intro T hT
  simp only [List.mem_cons, List.not_mem_nil, or_false] at hT
  rcases hT with rfl | rfl | rfl
  · exact hb
  · unfold Gen.getitem_samples
    cases hl : S.logW <;> cases hws : S.weights <;> simp [hb]
  · unfold Gen.getitem_smc
    simp [hb]

/-- **evidence attached to a set is carried, not recomputed, by selection** (`Samples` and `SMCSamples`), and the temperature of an
    SMC population too -/
theorem src_evidence_carried (ops : RowOps X V) (idx : List Nat) (S : SampleSet X V) :
    (Gen.getitem_samples ops idx S).logZ = S.logZ ∧ (Gen.getitem_samples ops idx S).logZerr = S.logZerr ∧
    (Gen.getitem_smc ops idx S).logZ = S.logZ ∧ (Gen.getitem_smc ops idx S).logZerr = S.logZerr ∧
    (Gen.getitem_smc ops idx S).beta = S.beta := by
  refine ⟨?_, ?_, rfl, rfl, rfl⟩
  · unfold Gen.getitem_samples; cases S.logW <;> cases S.weights <;> rfl
  · unfold Gen.getitem_samples; cases S.logW <;> cases S.weights <;> rfl

/-- the weights of a selection are the same selection of the weights, and its ESS is recomputed from the SELECTED log-weights -/
theorem src_weights_selected (ops : RowOps X V) (idx : List Nat) (S : SampleSet X V) (lw w : List V)
    (hl : S.logW = some lw) (hw : S.weights = some w) :
    (Gen.getitem_samples ops idx S).logW = some (pick idx lw) ∧ (Gen.getitem_samples ops idx S).weights = some (pick idx w) ∧
    (Gen.getitem_samples ops idx S).ess = some (essOf ops (pick idx lw)) := by
  unfold Gen.getitem_samples
  simp [hl, hw, pickO, essOf]

/-- `to_standard_samples` keeps coordinates, likelihood, prior and the attached evidence of the population and drops the proposal
    column (the result has no importance weights) -/
theorem src_to_standard (ops : RowOps X V) (hev : EvOK ops.evFn) (S : SampleSet X V) :
    (Gen.to_standard_samples ops S).x = S.x ∧ (Gen.to_standard_samples ops S).ll = S.ll ∧
    (Gen.to_standard_samples ops S).lp = S.lp ∧ (Gen.to_standard_samples ops S).lq = none := by
  have := hev { cls := .samples, x := S.x, ll := S.ll, lp := S.lp, logZ := S.logZ, logZerr := S.logZerr }
  unfold Gen.to_standard_samples RowOps.constructSamples
  exact ⟨this.1, this.2.1, this.2.2.1, this.2.2.2.1⟩

end C16
