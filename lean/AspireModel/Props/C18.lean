import AspireModel.Model.Smc
/-
  C18 — the SMC history: one entry per iteration in every series, the stored populations are the
  initial population followed by the population after each iteration, every recorded value equals
  its definition recomputed from the neighbouring stored populations; also after interrupt + resume.
  Model: `Model/Smc.lean`.  Core Lean only.  Everything is proved for every `Kit` (schedule rule,
  ESS, ratio …), every `SmcCfg` with `storeHistory = true` (cadence, step limit, final size) and
  every list of `Step`s (kernel, random stream, point of interruption).
-/
namespace C18
open Model
variable {P S : Type}

/-! ### what one iteration does -/

/-- the history after one pass through the loop body that chose temperature `b` and whose kernel
    returned `pop'` -/
def stepHist (k : Kit P S) (cfg : SmcCfg S) (st : St P S) (b : S) (pop' : P) : Hist P S :=
  { beta := st.hist.beta ++ [b],
    ess := st.hist.ess ++ [k.ess st.pop st.beta b],
    essTarget := st.hist.essTarget ++ [k.essTarget st.pop st.beta],
    effTarget := st.hist.effTarget ++ [k.effTarget b],
    ratio := st.hist.ratio ++ [k.ratio st.pop st.beta b],
    var := st.hist.var ++ [k.var st.pop st.beta b],
    pops := if cfg.storeHistory then st.hist.pops ++ [pop'] else st.hist.pops }

/-- the state after the loop body, before `maybe_checkpoint()` -/
def stepSt (k : Kit P S) (cfg : SmcCfg S) (st : St P S) (b m : S) (pop' : P) : St P S :=
  { st with pop := pop', beta := b, iter := st.iter + 1, minStep := m,
            hist := stepHist k cfg st b pop', consumed := st.consumed + 1 }

def stopCond (k : Kit P S) (cfg : SmcCfg S) (b : S) (iter : Nat) : Bool :=
  k.isOne b || (match cfg.maxSteps with | some mx => decide (mx ≤ iter) | none => false)

/-- complete description of `iterate` -/
theorem iterate_eq (k : Kit P S) (cfg : SmcCfg S) (st : St P S) (s : Step P) :
    iterate k cfg st s =
      match k.nextBeta st.pop st.beta st.minStep with
      | .error e => .error e
      | .ok (b, m) => .ok (maybeCheckpoint cfg false (stepSt k cfg st b m s.mutated),
                           stopCond k cfg b (st.iter + 1)) := by
  unfold iterate
  cases hb : k.nextBeta st.pop st.beta st.minStep with
  | error e => rfl
  | ok bm =>
    obtain ⟨b, m⟩ := bm
    simp only [bind, Except.bind, pure, Except.pure]
    unfold stepSt stepHist stopCond
    cases cfg.storeHistory <;> rfl

/-- complete description of a successful `iterate` -/
theorem iterate_ok {k : Kit P S} {cfg : SmcCfg S} {st st' : St P S} {s : Step P} {stop : Bool}
    (h : iterate k cfg st s = .ok (st', stop)) :
    ∃ b m, k.nextBeta st.pop st.beta st.minStep = .ok (b, m) ∧
      st' = maybeCheckpoint cfg false (stepSt k cfg st b m s.mutated) ∧
      stop = stopCond k cfg b (st.iter + 1) := by
  rw [iterate_eq] at h
  cases hb : k.nextBeta st.pop st.beta st.minStep with
  | error e => simp [hb] at h
  | ok bm =>
    obtain ⟨b, m⟩ := bm
    simp only [hb, Except.ok.injEq, Prod.mk.injEq] at h
    exact ⟨b, m, rfl, h.1.symm, h.2.symm⟩

/-! ### `maybe_checkpoint` only touches the checkpoint log -/

theorem mc_cases (cfg : SmcCfg S) (f : Bool) (st : St P S) (z : Option S) :
    maybeCheckpoint cfg f st z = st ∨
    maybeCheckpoint cfg f st z = { st with ckpts := st.ckpts ++ [snapshot st z] } := by
  unfold maybeCheckpoint
  cases cfg.every with
  | none => exact Or.inl rfl
  | some e =>
    dsimp only
    split
    · exact Or.inr rfl
    · exact Or.inl rfl

@[simp] theorem mc_pop (cfg : SmcCfg S) (f st z) : (maybeCheckpoint (P := P) cfg f st z).pop = st.pop := by
  rcases mc_cases cfg f st z with h | h <;> rw [h]
@[simp] theorem mc_beta (cfg : SmcCfg S) (f st z) : (maybeCheckpoint (P := P) cfg f st z).beta = st.beta := by
  rcases mc_cases cfg f st z with h | h <;> rw [h]
@[simp] theorem mc_iter (cfg : SmcCfg S) (f st z) : (maybeCheckpoint (P := P) cfg f st z).iter = st.iter := by
  rcases mc_cases cfg f st z with h | h <;> rw [h]
@[simp] theorem mc_minStep (cfg : SmcCfg S) (f st z) :
    (maybeCheckpoint (P := P) cfg f st z).minStep = st.minStep := by
  rcases mc_cases cfg f st z with h | h <;> rw [h]
@[simp] theorem mc_hist (cfg : SmcCfg S) (f st z) : (maybeCheckpoint (P := P) cfg f st z).hist = st.hist := by
  rcases mc_cases cfg f st z with h | h <;> rw [h]
@[simp] theorem mc_consumed (cfg : SmcCfg S) (f st z) :
    (maybeCheckpoint (P := P) cfg f st z).consumed = st.consumed := by
  rcases mc_cases cfg f st z with h | h <;> rw [h]

/-- the log after `maybe_checkpoint` is the old log, possibly followed by a snapshot of the
    current state -/
theorem mc_ckpts (cfg : SmcCfg S) (f : Bool) (st : St P S) (z : Option S) :
    (maybeCheckpoint cfg f st z).ckpts = st.ckpts ∨
    (maybeCheckpoint cfg f st z).ckpts = st.ckpts ++ [snapshot st z] := by
  rcases mc_cases cfg f st z with h | h <;> rw [h]
  · exact Or.inl rfl
  · exact Or.inr rfl

/-! ### the invariant -/

/-- The history `h` is a faithful record of `n` iterations ending at temperature `β`:
    one entry per iteration in each of the six series, `n + 1` stored populations, and entry `t`
    of every series is its definition evaluated on stored population `t` (the population
    *before* iteration `t + 1`), the previous temperature `(zero :: beta)[t]` and the new
    temperature `beta[t]`. -/
structure SeriesOK (k : Kit P S) (zero : S) (h : Hist P S) (n : Nat) (β : S) : Prop where
  len_beta : h.beta.length = n
  len_ess : h.ess.length = n
  len_essTarget : h.essTarget.length = n
  len_effTarget : h.effTarget.length = n
  len_ratio : h.ratio.length = n
  len_var : h.var.length = n
  len_pops : h.pops.length = n + 1
  /-- the current temperature is the last recorded one (`zero` before the first iteration) -/
  last_beta : (zero :: h.beta).getLast? = some β
  defs : ∀ (t : Nat) (p : P) (b0 b1 : S), h.pops[t]? = some p → (zero :: h.beta)[t]? = some b0 → h.beta[t]? = some b1 →
    h.ratio[t]? = some (k.ratio p b0 b1) ∧ h.var[t]? = some (k.var p b0 b1) ∧
    h.ess[t]? = some (k.ess p b0 b1) ∧ h.essTarget[t]? = some (k.essTarget p b0) ∧
    h.effTarget[t]? = some (k.effTarget b1) ∧ ∃ m m', k.nextBeta p b0 m = .ok (b1, m')

/-- the invariant of the sampler state (for `store_sample_history = True`): the history is a
    faithful record of `st.iter` iterations ending at `st.beta`, and the last stored population
    is the current one -/
def HistInv (k : Kit P S) (zero : S) (st : St P S) : Prop :=
  SeriesOK k zero st.hist st.iter st.beta ∧ st.hist.pops.getLast? = some st.pop

/-- the part of the invariant that only concerns the history object (what survives the final
    enlargement, which replaces the population without recording it) -/
def HistInvW (k : Kit P S) (zero : S) (st : St P S) : Prop :=
  SeriesOK k zero st.hist st.iter st.beta

theorem HistInv.weak {k : Kit P S} {zero : S} {st : St P S} (h : HistInv k zero st) :
    HistInvW k zero st := h.1

/-- `b0` of the task statement -/
def prevBeta (zero : S) (beta : List S) (t : Nat) (ht : t < beta.length) : S :=
  if h0 : t = 0 then zero else beta[t - 1]'(by omega)

theorem prevBeta_eq (zero : S) (beta : List S) (t : Nat) (ht : t < beta.length) :
    (zero :: beta)[t]? = some (prevBeta zero beta t ht) := by
  unfold prevBeta
  cases t with
  | zero => simp
  | succ j =>
    have : j < beta.length := by omega
    simp [List.getElem?_eq_getElem this]

/-- index-wise form of the invariant: for every iteration `t < n`, with `p` the stored
    population before that iteration, `b0` the previous and `b1` the new temperature -/
theorem SeriesOK.at {k : Kit P S} {zero : S} {h : Hist P S} {n : Nat} {β : S}
    (H : SeriesOK k zero h n β) (t : Nat) (ht : t < n) :
    let p := h.pops[t]'(by have := H.len_pops; omega)
    let b0 := prevBeta zero h.beta t (by have := H.len_beta; omega)
    let b1 := h.beta[t]'(by have := H.len_beta; omega)
    h.ratio[t]'(by have := H.len_ratio; omega) = k.ratio p b0 b1 ∧
    h.var[t]'(by have := H.len_var; omega) = k.var p b0 b1 ∧
    h.ess[t]'(by have := H.len_ess; omega) = k.ess p b0 b1 ∧
    h.essTarget[t]'(by have := H.len_essTarget; omega) = k.essTarget p b0 ∧
    h.effTarget[t]'(by have := H.len_effTarget; omega) = k.effTarget b1 ∧
    ∃ m m', k.nextBeta p b0 m = .ok (b1, m') := by
  intro p b0 b1
  have hp : h.pops[t]? = some p := List.getElem?_eq_getElem _
  have hb1 : h.beta[t]? = some b1 := List.getElem?_eq_getElem _
  have hb0 : (zero :: h.beta)[t]? = some b0 := prevBeta_eq zero h.beta t _
  obtain ⟨h1, h2, h3, h4, h5, h6⟩ := H.defs t p b0 b1 hp hb0 hb1
  refine ⟨?_, ?_, ?_, ?_, ?_, h6⟩
  · exact (List.getElem?_eq_some_iff.1 h1).2
  · exact (List.getElem?_eq_some_iff.1 h2).2
  · exact (List.getElem?_eq_some_iff.1 h3).2
  · exact (List.getElem?_eq_some_iff.1 h4).2
  · exact (List.getElem?_eq_some_iff.1 h5).2

/-- the same for a sampler state -/
theorem HistInv.at {k : Kit P S} {zero : S} {st : St P S} (H : HistInvW k zero st)
    (t : Nat) (ht : t < st.iter) :
    let p := st.hist.pops[t]'(by have := H.len_pops; omega)
    let b0 := prevBeta zero st.hist.beta t (by have := H.len_beta; omega)
    let b1 := st.hist.beta[t]'(by have := H.len_beta; omega)
    st.hist.ratio[t]'(by have := H.len_ratio; omega) = k.ratio p b0 b1 ∧
    st.hist.var[t]'(by have := H.len_var; omega) = k.var p b0 b1 ∧
    st.hist.ess[t]'(by have := H.len_ess; omega) = k.ess p b0 b1 ∧
    st.hist.essTarget[t]'(by have := H.len_essTarget; omega) = k.essTarget p b0 ∧
    st.hist.effTarget[t]'(by have := H.len_effTarget; omega) = k.effTarget b1 ∧
    ∃ m m', k.nextBeta p b0 m = .ok (b1, m') :=
  SeriesOK.at H t ht

/-- the current temperature is the last recorded one once an iteration has run … -/
theorem SeriesOK.beta_last {k : Kit P S} {zero : S} {h : Hist P S} {n : Nat} {β : S}
    (H : SeriesOK k zero h n β) (hn : 0 < n) : h.beta.getLast? = some β := by
  have h1 := H.last_beta
  have h2 := H.len_beta
  cases hb : h.beta with
  | nil => rw [hb] at h2; simp at h2; omega
  | cons a l => rw [hb] at h1; simpa [List.getLast?_cons_cons] using h1

/-- … and `zero` before the first one -/
theorem SeriesOK.beta_zero {k : Kit P S} {zero : S} {h : Hist P S} {β : S}
    (H : SeriesOK k zero h 0 β) : β = zero := by
  have h1 := H.last_beta
  have h2 := H.len_beta
  have : h.beta = [] := List.eq_nil_of_length_eq_zero h2
  rw [this] at h1
  simpa using h1.symm

/-! ### 1. the initial state -/

theorem histInv_init (k : Kit P S) (cfg : SmcCfg S) (zero : S) (p0 : P)
    (hs : cfg.storeHistory = true) : HistInv k zero (initSt cfg zero p0) := by
  refine ⟨⟨rfl, rfl, rfl, rfl, rfl, rfl, ?_, ?_, ?_⟩, ?_⟩
  · simp [initSt, hs]
  · simp [initSt]
  · intro t p b0 b1 _ _ hb1
    simp [initSt] at hb1
  · simp [initSt, hs]

/-! ### 2. one iteration -/

theorem getElem?_last_of_length {A : Type} (l : List A) (n : Nat) (h : l.length = n + 1) :
    l[n]? = l.getLast? := by
  rw [List.getLast?_eq_getElem?, h]; rfl

/-- the loop body keeps the invariant (before `maybe_checkpoint()`) -/
theorem histInv_stepSt {k : Kit P S} {cfg : SmcCfg S} {zero : S} {st : St P S}
    (hs : cfg.storeHistory = true) (H : HistInv k zero st) (b m : S) (pop' : P)
    (hb : k.nextBeta st.pop st.beta st.minStep = .ok (b, m)) :
    HistInv k zero (stepSt k cfg st b m pop') := by
  obtain ⟨H, hl⟩ := H
  have e1 := H.len_beta; have e2 := H.len_ess; have e3 := H.len_essTarget
  have e4 := H.len_effTarget; have e5 := H.len_ratio; have e6 := H.len_var
  have e7 := H.len_pops
  refine ⟨⟨?_, ?_, ?_, ?_, ?_, ?_, ?_, ?_, ?_⟩, ?_⟩
  · simp [stepSt, stepHist, e1]
  · simp [stepSt, stepHist, e2]
  · simp [stepSt, stepHist, e3]
  · simp [stepSt, stepHist, e4]
  · simp [stepSt, stepHist, e5]
  · simp [stepSt, stepHist, e6]
  · simp [stepSt, stepHist, hs, e7]
  · show (zero :: (st.hist.beta ++ [b])).getLast? = some b
    rw [← List.cons_append, List.getLast?_concat]
  · intro t p b0 b1 hp hb0 hb1
    simp only [stepSt, stepHist, hs, if_true] at hp hb0 hb1 ⊢
    rw [← List.cons_append] at hb0
    by_cases ht : t < st.iter
    · rw [List.getElem?_append_left (by omega)] at hp hb1
      rw [List.getElem?_append_left (by simp; omega)] at hb0
      obtain ⟨h1, h2, h3, h4, h5, h6⟩ := H.defs t p b0 b1 hp hb0 hb1
      refine ⟨?_, ?_, ?_, ?_, ?_, h6⟩
      · rw [List.getElem?_append_left (by omega)]; exact h1
      · rw [List.getElem?_append_left (by omega)]; exact h2
      · rw [List.getElem?_append_left (by omega)]; exact h3
      · rw [List.getElem?_append_left (by omega)]; exact h4
      · rw [List.getElem?_append_left (by omega)]; exact h5
    · have hlt : t < (st.hist.beta ++ [b]).length := (List.getElem?_eq_some_iff.1 hb1).1
      have ht' : t = st.iter := by simp at hlt; omega
      subst ht'
      rw [List.getElem?_append_left (by omega), getElem?_last_of_length _ _ e7, hl] at hp
      rw [List.getElem?_append_left (by simp; omega),
        getElem?_last_of_length _ _ (by simp; omega), H.last_beta] at hb0
      rw [List.getElem?_append_right (by omega)] at hb1
      simp only [e1, Nat.sub_self, List.getElem?_cons_zero, Option.some.injEq] at hb1 hp hb0
      subst hb1 hp hb0
      refine ⟨?_, ?_, ?_, ?_, ?_, ⟨_, _, hb⟩⟩
      · rw [List.getElem?_append_right (by omega)]; simp [e5]
      · rw [List.getElem?_append_right (by omega)]; simp [e6]
      · rw [List.getElem?_append_right (by omega)]; simp [e2]
      · rw [List.getElem?_append_right (by omega)]; simp [e3]
      · rw [List.getElem?_append_right (by omega)]; simp [e4]
  · simp [stepSt, stepHist, hs]

/-- the invariant does not look at the checkpoint log -/
theorem histInv_mc {k : Kit P S} {zero : S} (cfg : SmcCfg S) (f : Bool) (st : St P S) (z : Option S) :
    HistInv k zero (maybeCheckpoint cfg f st z) ↔ HistInv k zero st := by
  simp [HistInv]

theorem histInvW_mc {k : Kit P S} {zero : S} (cfg : SmcCfg S) (f : Bool) (st : St P S) (z : Option S) :
    HistInvW k zero (maybeCheckpoint cfg f st z) ↔ HistInvW k zero st := by
  simp [HistInvW]

theorem histInv_iterate {k : Kit P S} {cfg : SmcCfg S} {zero : S} {st st' : St P S} {s : Step P}
    {stop : Bool} (hs : cfg.storeHistory = true) (H : HistInv k zero st)
    (h : iterate k cfg st s = .ok (st', stop)) : HistInv k zero st' := by
  obtain ⟨b, m, hb, rfl, -⟩ := iterate_ok h
  exact (histInv_mc cfg false _ none).2 (histInv_stepSt hs H b m s.mutated hb)

/-! ### 3. the loop -/

/-- anything every successful `iterate` preserves holds wherever `runLoop` gets to -/
theorem runLoop_inv {k : Kit P S} {cfg : SmcCfg S} (I : St P S → Prop)
    (hI : ∀ st s st' stop, I st → iterate k cfg st s = .ok (st', stop) → I st') :
    ∀ (steps : List (Step P)) (st : St P S), I st →
      (∀ st' rest, runLoop k cfg st steps = .finishedLoop st' rest → I st') ∧
      (∀ st', runLoop k cfg st steps = .interrupted st' → I st') := by
  intro steps
  induction steps with
  | nil =>
    intro st h0
    refine ⟨fun st' rest h => by simp [runLoop] at h, fun st' h => ?_⟩
    simp only [runLoop, Outcome.interrupted.injEq] at h
    exact h ▸ h0
  | cons s rest ih =>
    intro st h0
    unfold runLoop
    cases hi : iterate k cfg st s with
    | error e => exact ⟨fun _ _ h => by simp at h, fun _ h => by simp at h⟩
    | ok r =>
      obtain ⟨st1, stop⟩ := r
      have h1 : I st1 := hI st s st1 stop h0 hi
      cases stop with
      | true =>
        refine ⟨fun st' rest' h => ?_, fun _ h => by simp at h⟩
        simp only [Outcome.finishedLoop.injEq] at h
        exact h.1 ▸ h1
      | false => exact ih st1 h1

/-- the states of a fresh run on `p0`: the initial state and everything `iterate` leads to -/
inductive Reach (k : Kit P S) (cfg : SmcCfg S) (zero : S) (p0 : P) : St P S → Prop
  | init : Reach k cfg zero p0 (initSt cfg zero p0)
  | step {st st' : St P S} {s : Step P} {stop : Bool} :
      Reach k cfg zero p0 st → iterate k cfg st s = .ok (st', stop) → Reach k cfg zero p0 st'

/-- the invariant together with the same statement for every checkpoint written so far -/
def Good (k : Kit P S) (zero : S) (st : St P S) : Prop :=
  HistInv k zero st ∧ ∀ c ∈ st.ckpts, HistInv k zero (restore c)

theorem good_init (k : Kit P S) (cfg : SmcCfg S) (zero : S) (p0 : P)
    (hs : cfg.storeHistory = true) : Good k zero (initSt cfg zero p0) :=
  ⟨histInv_init k cfg zero p0 hs, fun c hc => by simp [initSt] at hc⟩

/-- a state restored from a checkpoint that satisfies the invariant is good (its log is empty) -/
theorem good_restore {k : Kit P S} {zero : S} {c : Ckpt P S} (h : HistInv k zero (restore c)) :
    Good k zero (restore c) :=
  ⟨h, fun c' hc => by simp [restore] at hc⟩

/-- a snapshot restores to a state with the same population, counter, temperature, history -/
theorem histInv_restore_snapshot {k : Kit P S} {zero : S} (st : St P S) (z : Option S) :
    HistInv k zero (restore (snapshot st z)) ↔ HistInv k zero st := Iff.rfl

theorem good_mc {k : Kit P S} {zero : S} (cfg : SmcCfg S) (f : Bool) (st : St P S) (z : Option S)
    (h : Good k zero st) : Good k zero (maybeCheckpoint cfg f st z) := by
  refine ⟨(histInv_mc cfg f st z).2 h.1, fun c hc => ?_⟩
  rcases mc_ckpts cfg f st z with e | e <;> rw [e] at hc
  · exact h.2 c hc
  · rcases List.mem_append.1 hc with hc | hc
    · exact h.2 c hc
    · rw [List.mem_singleton] at hc
      subst hc
      exact h.1

theorem good_iterate {k : Kit P S} {cfg : SmcCfg S} {zero : S} {st st' : St P S} {s : Step P}
    {stop : Bool} (hs : cfg.storeHistory = true) (H : Good k zero st)
    (h : iterate k cfg st s = .ok (st', stop)) : Good k zero st' := by
  obtain ⟨b, m, hb, rfl, -⟩ := iterate_ok h
  exact good_mc cfg false _ none ⟨histInv_stepSt hs H.1 b m s.mutated hb, H.2⟩

/-- `runLoop` keeps the invariant, whether the loop broke or the steps ran out -/
theorem histInv_runLoop {k : Kit P S} {cfg : SmcCfg S} {zero : S} (hs : cfg.storeHistory = true)
    (steps : List (Step P)) (st : St P S) (H : HistInv k zero st) :
    (∀ st' rest, runLoop k cfg st steps = .finishedLoop st' rest → HistInv k zero st') ∧
    (∀ st', runLoop k cfg st steps = .interrupted st' → HistInv k zero st') :=
  runLoop_inv (HistInv k zero) (fun _ _ _ _ h0 hi => histInv_iterate hs h0 hi) steps st H

theorem good_runLoop {k : Kit P S} {cfg : SmcCfg S} {zero : S} (hs : cfg.storeHistory = true)
    (steps : List (Step P)) (st : St P S) (H : Good k zero st) :
    (∀ st' rest, runLoop k cfg st steps = .finishedLoop st' rest → Good k zero st') ∧
    (∀ st', runLoop k cfg st steps = .interrupted st' → Good k zero st') :=
  runLoop_inv (Good k zero) (fun _ _ _ _ h0 hi => good_iterate hs h0 hi) steps st H

theorem reach_runLoop {k : Kit P S} {cfg : SmcCfg S} {zero : S} {p0 : P}
    (steps : List (Step P)) (st : St P S) (H : Reach k cfg zero p0 st) :
    (∀ st' rest, runLoop k cfg st steps = .finishedLoop st' rest → Reach k cfg zero p0 st') ∧
    (∀ st', runLoop k cfg st steps = .interrupted st' → Reach k cfg zero p0 st') :=
  runLoop_inv (Reach k cfg zero p0) (fun _ _ _ _ h0 hi => Reach.step h0 hi) steps st H

/-- every reachable state satisfies the invariant, and so does every checkpoint in its log -/
theorem good_of_reach {k : Kit P S} {cfg : SmcCfg S} {zero : S} {p0 : P}
    (hs : cfg.storeHistory = true) {st : St P S} (H : Reach k cfg zero p0 st) : Good k zero st := by
  induction H with
  | init => exact good_init k cfg zero p0 hs
  | step _ hi ih => exact good_iterate hs ih hi

theorem histInv_of_reach {k : Kit P S} {cfg : SmcCfg S} {zero : S} {p0 : P}
    (hs : cfg.storeHistory = true) {st : St P S} (H : Reach k cfg zero p0 st) : HistInv k zero st :=
  (good_of_reach hs H).1

/-! ### 4. checkpoints -/

/-- every checkpoint written inside the loop of a fresh run satisfies the invariant for its own
    population, counter, temperature and history copy -/
theorem ckpt_histInv {k : Kit P S} {cfg : SmcCfg S} {zero : S} {p0 : P}
    (hs : cfg.storeHistory = true) {st : St P S} (H : Reach k cfg zero p0 st)
    (c : Ckpt P S) (hc : c ∈ st.ckpts) : HistInv k zero (restore c) :=
  (good_of_reach hs H).2 c hc

/-! ### the part of `sample` after the loop -/

def needFinal (k : Kit P S) (cfg : SmcCfg S) (st : St P S) : Bool :=
  match cfg.nFinal with | some n => decide (k.size st.pop ≠ n) | none => false

/-- evidence, forced checkpoint, result -/
def finishGo (k : Kit P S) (cfg : SmcCfg S) (st : St P S) : Result P S :=
  { pop := st.pop, logZ := k.sumS st.hist.ratio, logZerr := k.rootSumS st.hist.var,
    st := maybeCheckpoint cfg true st (some (k.sumS st.hist.ratio)) }

/-- the enlargement: the population is replaced by the next kernel output, nothing is recorded -/
def enlarge (st : St P S) (s : Step P) : St P S :=
  { st with pop := s.mutated, consumed := st.consumed + 1 }

theorem finish_eq (k : Kit P S) (cfg : SmcCfg S) (st : St P S) (rest : List (Step P)) :
    finish k cfg st rest =
      if needFinal k cfg st then
        match rest with
        | [] => none
        | s :: _ => some (finishGo k cfg (enlarge st s))
      else some (finishGo k cfg st) := by
  unfold finish needFinal finishGo enlarge
  simp only [mc_pop]
  cases rest <;> rfl

/-- the two ways `finish` can succeed -/
theorem finish_some {k : Kit P S} {cfg : SmcCfg S} {st : St P S} {rest : List (Step P)}
    {r : Result P S} (h : finish k cfg st rest = some r) :
    (needFinal k cfg st = false ∧ r = finishGo k cfg st) ∨
    (needFinal k cfg st = true ∧ ∃ s rest', rest = s :: rest' ∧ r = finishGo k cfg (enlarge st s)) := by
  rw [finish_eq] at h
  cases hn : needFinal k cfg st with
  | false =>
    simp only [hn, Bool.false_eq_true, if_false, Option.some.injEq] at h
    exact Or.inl ⟨rfl, h.symm⟩
  | true =>
    simp only [hn, if_true] at h
    cases rest with
    | nil => simp at h
    | cons s rest' =>
      simp only [Option.some.injEq] at h
      exact Or.inr ⟨rfl, s, rest', rfl, h.symm⟩

/-- `finish` never touches the history, the counter or the temperature -/
theorem finish_hist {k : Kit P S} {cfg : SmcCfg S} {st : St P S} {rest : List (Step P)}
    {r : Result P S} (h : finish k cfg st rest = some r) :
    r.st.hist = st.hist ∧ r.st.iter = st.iter ∧ r.st.beta = st.beta := by
  rcases finish_some h with ⟨-, rfl⟩ | ⟨-, s, rest', -, rfl⟩ <;> simp [finishGo, enlarge]

/-- "the enlargement did not run", read off the result: the configured final size is the size of
    the last stored population -/
def NoEnlarge (k : Kit P S) (cfg : SmcCfg S) (r : Result P S) : Prop :=
  ∀ n p, cfg.nFinal = some n → r.st.hist.pops.getLast? = some p → k.size p = n

theorem noEnlarge_of_nFinal_none (k : Kit P S) {cfg : SmcCfg S} (r : Result P S)
    (h : cfg.nFinal = none) : NoEnlarge k cfg r := by
  intro n p hn; rw [h] at hn; cases hn

/-- `finish` on a state satisfying the invariant: the history statements all survive; the last
    stored population is still the returned one unless the enlargement ran; all checkpoints
    written inside the loop satisfy the invariant and the forced final one satisfies the history
    part -/
theorem good_finish {k : Kit P S} {cfg : SmcCfg S} {zero : S} {st : St P S} {rest : List (Step P)}
    {r : Result P S} (H : Good k zero st) (h : finish k cfg st rest = some r) :
    HistInvW k zero r.st ∧ (NoEnlarge k cfg r → Good k zero r.st) ∧
    (∀ c ∈ r.st.ckpts, HistInvW k zero (restore c)) ∧
    (∀ c ∈ r.st.ckpts, c.logZ = none → HistInv k zero (restore c)) := by
  have hw : ∀ c ∈ st.ckpts, HistInvW k zero (restore c) := fun c hc => (H.2 c hc).1
  rcases finish_some h with ⟨hn, rfl⟩ | ⟨hn, s, rest', -, rfl⟩
  · have hg : Good k zero (finishGo k cfg st).st := good_mc cfg true st _ H
    refine ⟨hg.1.1, fun _ => hg, fun c hc => (hg.2 c hc).1, fun c hc _ => hg.2 c hc⟩
  · have hW : HistInvW k zero (enlarge st s) := H.1.1
    refine ⟨(histInvW_mc cfg true _ _).2 hW, ?_, ?_, ?_⟩
    · intro hne
      exfalso
      have := hne
      unfold NoEnlarge at this
      simp only [finishGo, mc_hist, enlarge] at this
      unfold needFinal at hn
      cases hf : cfg.nFinal with
      | none => simp [hf] at hn
      | some n =>
        have := this n st.pop hf H.1.2
        simp [hf, this] at hn
    · intro c hc
      simp only [finishGo] at hc
      rcases mc_ckpts cfg true (enlarge st s) (some (k.sumS (enlarge st s).hist.ratio)) with e | e <;>
        rw [e] at hc
      · exact hw c hc
      · rcases List.mem_append.1 hc with hc | hc
        · exact hw c hc
        · rw [List.mem_singleton] at hc; subst hc; exact hW
    · intro c hc hz
      simp only [finishGo] at hc
      rcases mc_ckpts cfg true (enlarge st s) (some (k.sumS (enlarge st s).hist.ratio)) with e | e <;>
        rw [e] at hc
      · exact H.2 c hc
      · rcases List.mem_append.1 hc with hc | hc
        · exact H.2 c hc
        · rw [List.mem_singleton] at hc; subst hc; simp [snapshot] at hz

/-! ### whole calls of `sample` -/

/-- how `runFrom` can end in `.done` -/
theorem runFrom_done {k : Kit P S} {cfg : SmcCfg S} {flag : Bool} {st0 : St P S}
    {steps : List (Step P)} {r : Result P S} (h : runFrom k cfg flag st0 steps = .done r) :
    (flag = true ∧ ∃ st rest, runLoop k cfg st0 steps = .finishedLoop st rest ∧
      finish k cfg st rest = some r) ∨
    (flag = false ∧ finish k cfg st0 steps = some r) := by
  unfold runFrom at h
  cases flag with
  | true =>
    simp only [if_true] at h
    left
    refine ⟨rfl, ?_⟩
    cases hl : runLoop k cfg st0 steps with
    | raised e => simp [hl] at h
    | interrupted st => simp [hl] at h
    | finishedLoop st rest =>
      simp only [hl] at h
      cases hf : finish k cfg st rest with
      | none => simp [hf] at h
      | some r' =>
        simp only [hf, RunOut.done.injEq] at h
        exact ⟨st, rest, rfl, h ▸ hf⟩
  | false =>
    simp only [Bool.false_eq_true, if_false] at h
    right
    refine ⟨rfl, ?_⟩
    cases hf : finish k cfg st0 steps with
    | none => simp [hf] at h
    | some r' =>
      simp only [hf, RunOut.done.injEq] at h
      exact h ▸ rfl

/-- how `runFrom` can end in `.interrupted`: the surviving log is the log of a state the loop
    reached (or of the start state when the loop is skipped) -/
theorem runFrom_interrupted {k : Kit P S} {cfg : SmcCfg S} {flag : Bool} {st0 : St P S}
    {steps : List (Step P)} {cs : List (Ckpt P S)}
    (h : runFrom k cfg flag st0 steps = .interrupted cs) :
    (flag = true ∧ ((∃ st, runLoop k cfg st0 steps = .interrupted st ∧ cs = st.ckpts) ∨
      ∃ st rest, runLoop k cfg st0 steps = .finishedLoop st rest ∧ cs = st.ckpts)) ∨
    (flag = false ∧ cs = st0.ckpts) := by
  unfold runFrom at h
  cases flag with
  | true =>
    simp only [if_true] at h
    left
    refine ⟨rfl, ?_⟩
    cases hl : runLoop k cfg st0 steps with
    | raised e => simp [hl] at h
    | interrupted st =>
      simp only [hl, RunOut.interrupted.injEq] at h
      exact Or.inl ⟨st, rfl, h.symm⟩
    | finishedLoop st rest =>
      simp only [hl] at h
      cases hf : finish k cfg st rest with
      | none =>
        simp only [hf, RunOut.interrupted.injEq] at h
        exact Or.inr ⟨st, rest, rfl, h.symm⟩
      | some r' => simp [hf] at h
  | false =>
    simp only [Bool.false_eq_true, if_false] at h
    right
    refine ⟨rfl, ?_⟩
    cases hf : finish k cfg st0 steps with
    | none =>
      simp only [hf, RunOut.interrupted.injEq] at h
      exact h.symm
    | some r' => simp [hf] at h

/-- A call of `sample` from any state satisfying the invariant (fresh or restored), with the loop
    run or skipped, that returns: all series / stored-population statements hold for the final
    history; the last stored population is the returned one unless the enlargement ran; every
    checkpoint written inside the loop satisfies the full invariant, the forced final one its
    history part. -/
theorem good_runFrom_done {k : Kit P S} {cfg : SmcCfg S} {zero : S} (hs : cfg.storeHistory = true)
    {flag : Bool} {st0 : St P S} {steps : List (Step P)} {r : Result P S} (H : Good k zero st0)
    (h : runFrom k cfg flag st0 steps = .done r) :
    HistInvW k zero r.st ∧ (NoEnlarge k cfg r → Good k zero r.st) ∧
    (∀ c ∈ r.st.ckpts, HistInvW k zero (restore c)) ∧
    (∀ c ∈ r.st.ckpts, c.logZ = none → HistInv k zero (restore c)) := by
  rcases runFrom_done h with ⟨-, st, rest, hl, hf⟩ | ⟨-, hf⟩
  · exact good_finish ((good_runLoop hs steps st0 H).1 st rest hl) hf
  · exact good_finish H hf

/-- … and that is interrupted: every checkpoint that survives satisfies the invariant -/
theorem good_runFrom_interrupted {k : Kit P S} {cfg : SmcCfg S} {zero : S}
    (hs : cfg.storeHistory = true) {flag : Bool} {st0 : St P S} {steps : List (Step P)}
    {cs : List (Ckpt P S)} (H : Good k zero st0)
    (h : runFrom k cfg flag st0 steps = .interrupted cs) :
    ∀ c ∈ cs, HistInv k zero (restore c) := by
  rcases runFrom_interrupted h with ⟨-, ⟨st, hl, rfl⟩ | ⟨st, rest, hl, rfl⟩⟩ | ⟨-, rfl⟩
  · exact ((good_runLoop hs steps st0 H).2 st hl).2
  · exact ((good_runLoop hs steps st0 H).1 st rest hl).2
  · exact H.2

/-- a fresh run that returns: the history statements hold (`HistInvW`), and the full invariant
    holds when the enlargement did not run (in particular when `n_final_samples` is not given) -/
theorem histInv_run {k : Kit P S} {cfg : SmcCfg S} {zero : S} {p0 : P}
    (hs : cfg.storeHistory = true) {steps : List (Step P)} {r : Result P S}
    (h : run k cfg zero p0 steps = .done r) :
    HistInvW k zero r.st ∧ (NoEnlarge k cfg r → HistInv k zero r.st) := by
  have := good_runFrom_done hs (good_init k cfg zero p0 hs) h
  exact ⟨this.1, fun hn => (this.2.1 hn).1⟩

theorem histInv_run_nFinal_none {k : Kit P S} {cfg : SmcCfg S} {zero : S} {p0 : P}
    (hs : cfg.storeHistory = true) (hn : cfg.nFinal = none) {steps : List (Step P)} {r : Result P S}
    (h : run k cfg zero p0 steps = .done r) : HistInv k zero r.st :=
  (histInv_run hs h).2 (noEnlarge_of_nFinal_none k r hn)

/-- the checkpoints a fresh run leaves behind, returned … -/
theorem ckpt_histInv_run_done {k : Kit P S} {cfg : SmcCfg S} {zero : S} {p0 : P}
    (hs : cfg.storeHistory = true) {steps : List (Step P)} {r : Result P S}
    (h : run k cfg zero p0 steps = .done r) :
    (∀ c ∈ r.st.ckpts, HistInvW k zero (restore c)) ∧
    (∀ c ∈ r.st.ckpts, c.logZ = none → HistInv k zero (restore c)) ∧
    (NoEnlarge k cfg r → ∀ c ∈ r.st.ckpts, HistInv k zero (restore c)) := by
  have := good_runFrom_done hs (good_init k cfg zero p0 hs) h
  exact ⟨this.2.2.1, this.2.2.2, fun hn => (this.2.1 hn).2⟩

/-- … or interrupted -/
theorem ckpt_histInv_run_interrupted {k : Kit P S} {cfg : SmcCfg S} {zero : S} {p0 : P}
    (hs : cfg.storeHistory = true) {steps : List (Step P)} {cs : List (Ckpt P S)}
    (h : run k cfg zero p0 steps = .interrupted cs) : ∀ c ∈ cs, HistInv k zero (restore c) :=
  good_runFrom_interrupted hs (good_init k cfg zero p0 hs) h

/-! ### 5. interrupted and resumed -/

/-- Resuming from any checkpoint that satisfies the invariant: the resumed run's final history
    satisfies all series / stored-population statements (with respect to the populations stored
    before *and* after the interruption), the last stored population is the returned one unless
    the enlargement ran, and the checkpoints it writes can be resumed from again. -/
theorem histInv_resume_of_inv {k : Kit P S} {cfg : SmcCfg S} {zero : S}
    (hs : cfg.storeHistory = true) {c : Ckpt P S} (hc : HistInv k zero (restore c))
    {allSteps : List (Step P)} {r : Result P S} (h : resume k cfg c allSteps = .done r) :
    HistInvW k zero r.st ∧ (NoEnlarge k cfg r → HistInv k zero r.st) ∧
    (∀ c' ∈ r.st.ckpts, c'.logZ = none → HistInv k zero (restore c')) := by
  have := good_runFrom_done hs (good_restore hc) h
  exact ⟨this.1, fun hn => (this.2.1 hn).1, this.2.2.2⟩

/-- a resumed run that is interrupted again leaves only checkpoints satisfying the invariant -/
theorem histInv_resume_interrupted {k : Kit P S} {cfg : SmcCfg S} {zero : S}
    (hs : cfg.storeHistory = true) {c : Ckpt P S} (hc : HistInv k zero (restore c))
    {allSteps : List (Step P)} {cs : List (Ckpt P S)}
    (h : resume k cfg c allSteps = .interrupted cs) : ∀ c' ∈ cs, HistInv k zero (restore c') :=
  good_runFrom_interrupted hs (good_restore hc) h

/-- the clause "this also holds for a run that was interrupted and resumed": `c` is any checkpoint
    in the log of any state a fresh run reaches -/
theorem histInv_resume {k : Kit P S} {cfg : SmcCfg S} {zero : S} {p0 : P}
    (hs : cfg.storeHistory = true) {st : St P S} (hr : Reach k cfg zero p0 st)
    {c : Ckpt P S} (hc : c ∈ st.ckpts) {allSteps : List (Step P)} {r : Result P S}
    (h : resume k cfg c allSteps = .done r) :
    HistInvW k zero r.st ∧ (NoEnlarge k cfg r → HistInv k zero r.st) :=
  let h' := histInv_resume_of_inv hs (ckpt_histInv hs hr c hc) h
  ⟨h'.1, h'.2.1⟩

/-- the same for a checkpoint that survived an interrupted fresh run -/
theorem histInv_resume_after_interrupt {k : Kit P S} {cfg : SmcCfg S} {zero : S} {p0 : P}
    (hs : cfg.storeHistory = true) {steps : List (Step P)} {cs : List (Ckpt P S)}
    (hi : run k cfg zero p0 steps = .interrupted cs) {c : Ckpt P S} (hc : c ∈ cs)
    {allSteps : List (Step P)} {r : Result P S} (h : resume k cfg c allSteps = .done r) :
    HistInvW k zero r.st ∧ (NoEnlarge k cfg r → HistInv k zero r.st) :=
  let h' := histInv_resume_of_inv hs (ckpt_histInv_run_interrupted hs hi c hc) h
  ⟨h'.1, h'.2.1⟩

/-- resuming from the forced final checkpoint of a run whose enlargement ran (history part of the
    invariant only) when the loop is skipped: the history part still holds -/
theorem histInvW_resume_final {k : Kit P S} {cfg : SmcCfg S} {zero : S} {c : Ckpt P S}
    (hc : HistInvW k zero (restore c)) (hf : resumeLoopFlag k cfg c = false)
    {allSteps : List (Step P)} {r : Result P S} (h : resume k cfg c allSteps = .done r) :
    HistInvW k zero r.st := by
  unfold resume at h
  rw [hf] at h
  rcases runFrom_done h with ⟨h0, -⟩ | ⟨-, h1⟩
  · cases h0
  · obtain ⟨e1, e2, e3⟩ := finish_hist h1
    unfold HistInvW
    rw [e1, e2, e3]
    exact hc

/-! ### 7. the stored populations are the initial one followed by each iteration's output -/

theorem iterate_fields {k : Kit P S} {cfg : SmcCfg S} {st st' : St P S} {s : Step P} {stop : Bool}
    (hs : cfg.storeHistory = true) (h : iterate k cfg st s = .ok (st', stop)) :
    st'.hist.pops = st.hist.pops ++ [s.mutated] ∧ st'.iter = st.iter + 1 ∧
    st'.consumed = st.consumed + 1 ∧ st'.pop = s.mutated := by
  obtain ⟨b, m, -, rfl, -⟩ := iterate_ok h
  simp [stepSt, stepHist, hs]

/-- the loop appends exactly the kernel outputs of the steps it consumed, in order -/
theorem runLoop_pops {k : Kit P S} {cfg : SmcCfg S} (hs : cfg.storeHistory = true) :
    ∀ (steps : List (Step P)) (st : St P S),
      (∀ st' rest, runLoop k cfg st steps = .finishedLoop st' rest →
        ∃ used, steps = used ++ rest ∧ 0 < used.length ∧
          st'.hist.pops = st.hist.pops ++ used.map (·.mutated) ∧
          st'.iter = st.iter + used.length ∧ st'.consumed = st.consumed + used.length) ∧
      (∀ st', runLoop k cfg st steps = .interrupted st' →
        st'.hist.pops = st.hist.pops ++ steps.map (·.mutated) ∧
        st'.iter = st.iter + steps.length ∧ st'.consumed = st.consumed + steps.length) := by
  intro steps
  induction steps with
  | nil =>
    intro st
    refine ⟨fun st' rest h => by simp [runLoop] at h, fun st' h => ?_⟩
    simp only [runLoop, Outcome.interrupted.injEq] at h
    subst h; simp
  | cons s rest ih =>
    intro st
    unfold runLoop
    cases hi : iterate k cfg st s with
    | error e => exact ⟨fun _ _ h => by simp at h, fun _ h => by simp at h⟩
    | ok r =>
      obtain ⟨st1, stop⟩ := r
      obtain ⟨f1, f2, f3, -⟩ := iterate_fields hs hi
      cases stop with
      | true =>
        refine ⟨fun st' rest' h => ?_, fun _ h => by simp at h⟩
        simp only [Outcome.finishedLoop.injEq] at h
        obtain ⟨rfl, rfl⟩ := h
        exact ⟨[s], rfl, by simp, by simpa using f1, by simpa using f2, by simpa using f3⟩
      | false =>
        refine ⟨fun st' rest' h => ?_, fun st' h => ?_⟩
        · obtain ⟨used, e, -, g1, g2, g3⟩ := (ih st1).1 st' rest' h
          refine ⟨s :: used, by simp [e], by simp, ?_, ?_, ?_⟩
          · rw [g1, f1]; simp
          · rw [g2, f2]; simp; omega
          · rw [g3, f3]; simp; omega
        · obtain ⟨g1, g2, g3⟩ := (ih st1).2 st' h
          refine ⟨?_, ?_, ?_⟩
          · rw [g1, f1]; simp
          · rw [g2, f2]; simp; omega
          · rw [g3, f3]; simp; omega

/-- A fresh run that returns consumed a non-empty prefix `used` of the steps in its loop; the
    stored populations are exactly the initial population followed by the kernel output of each
    of these steps in order, and the iteration counter is their number.  (Positions in a list:
    nothing is missing and nothing is stored twice.) -/
theorem pops_are_initial_then_mutated {k : Kit P S} {cfg : SmcCfg S} {zero : S} {p0 : P}
    (hs : cfg.storeHistory = true) {steps : List (Step P)} {r : Result P S}
    (h : run k cfg zero p0 steps = .done r) :
    ∃ used rest, steps = used ++ rest ∧ 0 < used.length ∧
      r.st.hist.pops = p0 :: used.map (·.mutated) ∧ r.st.iter = used.length := by
  rcases runFrom_done h with ⟨-, st, rest, hl, hf⟩ | ⟨h0, -⟩
  · obtain ⟨used, e, hpos, g1, g2, -⟩ := (runLoop_pops hs steps _).1 st rest hl
    obtain ⟨e1, e2, -⟩ := finish_hist hf
    refine ⟨used, rest, e, hpos, ?_, ?_⟩
    · rw [e1, g1]; simp [initSt, hs]
    · rw [e2, g2]; simp [initSt]
  · cases h0

/-- the same for a resumed run: the checkpointed list of populations followed by the kernel output
    of each step consumed after the resume (none when the loop is skipped) -/
theorem pops_resume {k : Kit P S} {cfg : SmcCfg S} (hs : cfg.storeHistory = true) {c : Ckpt P S}
    {allSteps : List (Step P)} {r : Result P S} (h : resume k cfg c allSteps = .done r) :
    ∃ used rest, allSteps.drop c.consumed = used ++ rest ∧
      r.st.hist.pops = c.hist.pops ++ used.map (·.mutated) ∧ r.st.iter = c.iter + used.length := by
  rcases runFrom_done h with ⟨-, st, rest, hl, hf⟩ | ⟨-, hf⟩
  · obtain ⟨used, e, -, g1, g2, -⟩ := (runLoop_pops hs _ _).1 st rest hl
    obtain ⟨e1, e2, -⟩ := finish_hist hf
    exact ⟨used, rest, e, by rw [e1, g1]; rfl, by rw [e2, g2]; rfl⟩
  · obtain ⟨e1, e2, -⟩ := finish_hist hf
    exact ⟨[], _, rfl, by rw [e1]; simp [restore], by rw [e2]; simp [restore]⟩

/-! ### one entry per iteration, for every configuration (also `store_sample_history = False`) -/

/-- each of the six series has one entry per iteration -/
def LenInv (st : St P S) : Prop :=
  st.hist.beta.length = st.iter ∧ st.hist.ess.length = st.iter ∧
  st.hist.essTarget.length = st.iter ∧ st.hist.effTarget.length = st.iter ∧
  st.hist.ratio.length = st.iter ∧ st.hist.var.length = st.iter

theorem lenInv_init (cfg : SmcCfg S) (zero : S) (p0 : P) : LenInv (initSt cfg zero p0) := by
  simp [LenInv, initSt]

theorem lenInv_iterate {k : Kit P S} {cfg : SmcCfg S} {st st' : St P S} {s : Step P} {stop : Bool}
    (H : LenInv st) (h : iterate k cfg st s = .ok (st', stop)) : LenInv st' := by
  obtain ⟨b, m, -, rfl, -⟩ := iterate_ok h
  obtain ⟨h1, h2, h3, h4, h5, h6⟩ := H
  simp [LenInv, stepSt, stepHist, h1, h2, h3, h4, h5, h6]

theorem lenInv_runFrom {k : Kit P S} {cfg : SmcCfg S} {flag : Bool} {st0 : St P S}
    {steps : List (Step P)} {r : Result P S} (H : LenInv st0)
    (h : runFrom k cfg flag st0 steps = .done r) : LenInv r.st := by
  have key : ∀ st rest, LenInv st → finish k cfg st rest = some r → LenInv r.st := by
    intro st rest hst hf
    obtain ⟨e1, e2, -⟩ := finish_hist hf
    unfold LenInv; rw [e1, e2]; exact hst
  rcases runFrom_done h with ⟨-, st, rest, hl, hf⟩ | ⟨-, hf⟩
  · exact key st rest ((runLoop_inv LenInv (fun _ _ _ _ h0 hi => lenInv_iterate h0 hi) steps st0 H).1
      st rest hl) hf
  · exact key _ _ H hf

/-- after a run, for every configuration: every series has exactly one entry per iteration -/
theorem lenInv_run {k : Kit P S} {cfg : SmcCfg S} {zero : S} {p0 : P} {steps : List (Step P)}
    {r : Result P S} (h : run k cfg zero p0 steps = .done r) : LenInv r.st :=
  lenInv_runFrom (lenInv_init cfg zero p0) h

/-! ### states that agree on everything but the checkpoint log -/

/-- same population, temperature, counter, minimum step, history and stream position -/
structure Sim (a b : St P S) : Prop where
  pop : a.pop = b.pop
  beta : a.beta = b.beta
  iter : a.iter = b.iter
  minStep : a.minStep = b.minStep
  hist : a.hist = b.hist
  consumed : a.consumed = b.consumed

theorem Sim.rfl {a : St P S} : Sim a a := ⟨Eq.refl _, Eq.refl _, Eq.refl _, Eq.refl _, Eq.refl _, Eq.refl _⟩
theorem Sim.symm {a b : St P S} (h : Sim a b) : Sim b a :=
  ⟨h.1.symm, h.2.symm, h.3.symm, h.4.symm, h.5.symm, h.6.symm⟩
theorem Sim.trans {a b c : St P S} (h : Sim a b) (g : Sim b c) : Sim a c :=
  ⟨h.1.trans g.1, h.2.trans g.2, h.3.trans g.3, h.4.trans g.4, h.5.trans g.5, h.6.trans g.6⟩

theorem sim_mc (cfg : SmcCfg S) (f : Bool) (st : St P S) (z : Option S) :
    Sim (maybeCheckpoint cfg f st z) st := ⟨by simp, by simp, by simp, by simp, by simp, by simp⟩

theorem sim_restore_snapshot (st : St P S) (z : Option S) : Sim (restore (snapshot st z)) st :=
  ⟨Eq.refl _, Eq.refl _, Eq.refl _, Eq.refl _, Eq.refl _, Eq.refl _⟩

/-- two results of `iterate` agree up to the checkpoint log -/
def IterSim : Except BetaErr (St P S × Bool) → Except BetaErr (St P S × Bool) → Prop
  | .error e, .error e' => e = e'
  | .ok (a, b), .ok (a', b') => Sim a a' ∧ b = b'
  | _, _ => False

def LoopSim : Outcome P S → Outcome P S → Prop
  | .raised e, .raised e' => e = e'
  | .interrupted a, .interrupted a' => Sim a a'
  | .finishedLoop a r, .finishedLoop a' r' => Sim a a' ∧ r = r'
  | _, _ => False

/-- two results of `sample` agree on everything but the checkpoints handed to the callback -/
def OutSim : RunOut P S → RunOut P S → Prop
  | .raised e, .raised e' => e = e'
  | .interrupted _, .interrupted _ => True
  | .done r, .done r' => r'.logZ = r.logZ ∧ r'.logZerr = r.logZerr ∧ r'.pop = r.pop ∧ Sim r.st r'.st
  | _, _ => False

theorem OutSim.done_left {o o' : RunOut P S} {r : Result P S} (h : OutSim o o') (ho : o = .done r) :
    ∃ r', o' = .done r' ∧ r'.logZ = r.logZ ∧ r'.logZerr = r.logZerr ∧ r'.pop = r.pop ∧
      r'.st.hist = r.st.hist ∧ r'.st.iter = r.st.iter ∧ r'.st.beta = r.st.beta ∧ Sim r.st r'.st := by
  subst ho
  cases o' with
  | raised e => exact h.elim
  | interrupted cs => exact h.elim
  | done r' =>
    obtain ⟨h1, h2, h3, h4⟩ := h
    exact ⟨r', rfl, h1, h2, h3, h4.hist.symm, h4.iter.symm, h4.beta.symm, h4⟩

theorem OutSim.done_right {o o' : RunOut P S} {r' : Result P S} (h : OutSim o o') (ho : o' = .done r') :
    ∃ r, o = .done r ∧ r'.logZ = r.logZ ∧ r'.logZerr = r.logZerr ∧ r'.pop = r.pop ∧
      r'.st.hist = r.st.hist ∧ r'.st.iter = r.st.iter ∧ r'.st.beta = r.st.beta ∧ Sim r.st r'.st := by
  subst ho
  cases o with
  | raised e => exact h.elim
  | interrupted cs => exact h.elim
  | done r =>
    obtain ⟨h1, h2, h3, h4⟩ := h
    exact ⟨r, rfl, h1, h2, h3, h4.hist.symm, h4.iter.symm, h4.beta.symm, h4⟩

/-- configurations that differ at most in the checkpoint cadence -/
structure CfgSim (cfg cfg' : SmcCfg S) : Prop where
  maxSteps : cfg.maxSteps = cfg'.maxSteps
  nFinal : cfg.nFinal = cfg'.nFinal
  storeHistory : cfg.storeHistory = cfg'.storeHistory
  minStep0 : cfg.minStep0 = cfg'.minStep0

theorem CfgSim.rfl {cfg : SmcCfg S} : CfgSim cfg cfg := ⟨Eq.refl _, Eq.refl _, Eq.refl _, Eq.refl _⟩

theorem iterate_sim {k : Kit P S} {cfg cfg' : SmcCfg S} (hc : CfgSim cfg cfg') {st st' : St P S}
    (h : Sim st st') (s : Step P) : IterSim (iterate k cfg st s) (iterate k cfg' st' s) := by
  rw [iterate_eq, iterate_eq, ← h.pop, ← h.beta, ← h.minStep]
  cases k.nextBeta st.pop st.beta st.minStep with
  | error e => exact Eq.refl _
  | ok bm =>
    obtain ⟨b, m⟩ := bm
    refine ⟨?_, ?_⟩
    · refine (sim_mc cfg false _ none).trans (Sim.trans ?_ (sim_mc cfg' false _ none).symm)
      refine ⟨Eq.refl _, Eq.refl _, ?_, Eq.refl _, ?_, ?_⟩
      · simp [stepSt, h.iter]
      · simp [stepSt, stepHist, h.hist, h.pop, h.beta, hc.storeHistory]
      · simp [stepSt, h.consumed]
    · unfold stopCond; rw [hc.maxSteps, h.iter]

theorem runLoop_sim {k : Kit P S} {cfg cfg' : SmcCfg S} (hc : CfgSim cfg cfg') :
    ∀ (steps : List (Step P)) {st st' : St P S}, Sim st st' →
      LoopSim (runLoop k cfg st steps) (runLoop k cfg' st' steps) := by
  intro steps
  induction steps with
  | nil => intro st st' h; exact h
  | cons s rest ih =>
    intro st st' h
    have hi := iterate_sim (k := k) hc h s
    rw [runLoop, runLoop]
    cases h1 : iterate k cfg st s with
    | error e =>
      cases h2 : iterate k cfg' st' s with
      | error e' => rw [h1, h2] at hi; exact hi
      | ok r' => rw [h1, h2] at hi; exact hi.elim
    | ok r =>
      obtain ⟨a, b⟩ := r
      cases h2 : iterate k cfg' st' s with
      | error e' => rw [h1, h2] at hi; exact hi.elim
      | ok r' =>
        obtain ⟨a', b'⟩ := r'
        rw [h1, h2] at hi
        obtain ⟨hs, rfl⟩ := hi
        cases b with
        | true => exact ⟨hs, Eq.refl _⟩
        | false => exact ih hs

/-- `finish` on two states that agree up to the log, under two cadences -/
theorem finish_sim {k : Kit P S} {cfg cfg' : SmcCfg S} (hc : CfgSim cfg cfg') {st st' : St P S}
    (h : Sim st st') (rest : List (Step P)) :
    match finish k cfg st rest, finish k cfg' st' rest with
    | none, none => True
    | some r, some r' => r'.logZ = r.logZ ∧ r'.logZerr = r.logZerr ∧ r'.pop = r.pop ∧ Sim r.st r'.st
    | _, _ => False := by
  rw [finish_eq, finish_eq]
  have hn : needFinal k cfg' st' = needFinal k cfg st := by
    unfold needFinal; rw [← hc.nFinal, ← h.pop]
  rw [hn]
  cases needFinal k cfg st with
  | false =>
    simp only [Bool.false_eq_true, if_false, finishGo]
    refine ⟨by rw [h.hist], by rw [h.hist], h.pop.symm, ?_⟩
    exact (sim_mc cfg true _ _).trans (h.trans (sim_mc cfg' true _ _).symm)
  | true =>
    simp only [if_true]
    cases rest with
    | nil => trivial
    | cons s rest' =>
      dsimp only [finishGo, enlarge]
      refine ⟨by rw [h.hist], by rw [h.hist], Eq.refl _, ?_⟩
      refine (sim_mc cfg true _ _).trans (Sim.trans ?_ (sim_mc cfg' true _ _).symm)
      exact ⟨Eq.refl _, h.beta, h.iter, h.minStep, h.hist, by simp [h.consumed]⟩

theorem runFrom_sim {k : Kit P S} {cfg cfg' : SmcCfg S} (hc : CfgSim cfg cfg') (flag : Bool)
    {st st' : St P S} (h : Sim st st') (steps : List (Step P)) :
    OutSim (runFrom k cfg flag st steps) (runFrom k cfg' flag st' steps) := by
  have key : ∀ {a a' : St P S} (rest : List (Step P)), Sim a a' →
      OutSim (match finish k cfg a rest with | none => RunOut.interrupted a.ckpts | some r => .done r)
        (match finish k cfg' a' rest with | none => RunOut.interrupted a'.ckpts | some r => .done r) := by
    intro a a' rest ha
    have hf := finish_sim (k := k) hc ha rest
    cases h1 : finish k cfg a rest with
    | none =>
      cases h2 : finish k cfg' a' rest with
      | none => trivial
      | some r' => rw [h1, h2] at hf; exact hf.elim
    | some r =>
      cases h2 : finish k cfg' a' rest with
      | none => rw [h1, h2] at hf; exact hf.elim
      | some r' => rw [h1, h2] at hf; exact hf
  unfold runFrom
  cases flag with
  | false => simp only [Bool.false_eq_true, if_false]; exact key steps h
  | true =>
    simp only [if_true]
    have hl := runLoop_sim (k := k) hc steps h
    cases h1 : runLoop k cfg st steps with
    | raised e =>
      cases h2 : runLoop k cfg' st' steps with
      | raised e' => rw [h1, h2] at hl; exact hl
      | interrupted a' => rw [h1, h2] at hl; exact hl.elim
      | finishedLoop a' r' => rw [h1, h2] at hl; exact hl.elim
    | interrupted a =>
      cases h2 : runLoop k cfg' st' steps with
      | raised e' => rw [h1, h2] at hl; exact hl.elim
      | interrupted a' => trivial
      | finishedLoop a' r' => rw [h1, h2] at hl; exact hl.elim
    | finishedLoop a r =>
      cases h2 : runLoop k cfg' st' steps with
      | raised e' => rw [h1, h2] at hl; exact hl.elim
      | interrupted a' => rw [h1, h2] at hl; exact hl.elim
      | finishedLoop a' r' =>
        rw [h1, h2] at hl
        obtain ⟨ha, rfl⟩ := hl
        exact key r ha

/-! ### an interrupted and resumed run ends exactly like the uninterrupted one -/

theorem runFrom_true_cons (k : Kit P S) (cfg : SmcCfg S) (st : St P S) (s : Step P)
    (rest : List (Step P)) :
    runFrom k cfg true st (s :: rest) =
      match iterate k cfg st s with
      | .error e => .raised e
      | .ok (st', true) => runFrom k cfg false st' rest
      | .ok (st', false) => runFrom k cfg true st' rest := by
  unfold runFrom
  simp only [if_true, Bool.false_eq_true, if_false]
  rw [runLoop]
  cases iterate k cfg st s with
  | error e => rfl
  | ok r =>
    obtain ⟨st', stop⟩ := r
    cases stop <;> rfl

/-- the states a fresh run passes through when it is fed the stream `all`, together with the
    flag "the loop broke here" -/
inductive ReachOn (k : Kit P S) (cfg : SmcCfg S) (zero : S) (p0 : P) (all : List (Step P)) :
    St P S → Bool → Prop
  | init : ReachOn k cfg zero p0 all (initSt cfg zero p0) false
  | step {st st' : St P S} {s : Step P} {stop : Bool} :
      ReachOn k cfg zero p0 all st false → all[st.consumed]? = some s →
      iterate k cfg st s = .ok (st', stop) → ReachOn k cfg zero p0 all st' stop

theorem ReachOn.reach {k : Kit P S} {cfg : SmcCfg S} {zero : S} {p0 : P} {all : List (Step P)}
    {st : St P S} {stop : Bool} (h : ReachOn k cfg zero p0 all st stop) : Reach k cfg zero p0 st := by
  induction h with
  | init => exact Reach.init
  | step _ _ hi ih => exact Reach.step ih hi

theorem iterate_consumed {k : Kit P S} {cfg : SmcCfg S} {st st' : St P S} {s : Step P} {stop : Bool}
    (h : iterate k cfg st s = .ok (st', stop)) : st'.consumed = st.consumed + 1 := by
  obtain ⟨b, m, -, rfl, -⟩ := iterate_ok h
  simp [stepSt]

/-- from any state on the way, the rest of the uninterrupted run is `runFrom` that state on the
    rest of the stream -/
theorem run_eq_of_reachOn {k : Kit P S} {cfg : SmcCfg S} {zero : S} {p0 : P} {all : List (Step P)}
    {st : St P S} {stop : Bool} (h : ReachOn k cfg zero p0 all st stop) :
    run k cfg zero p0 all = runFrom k cfg (!stop) st (all.drop st.consumed) := by
  induction h with
  | init => simp [run, initSt]
  | @step st st' s stop _ hs hi ih =>
    obtain ⟨hlt, he⟩ := List.getElem?_eq_some_iff.1 hs
    rw [ih, List.drop_eq_getElem_cons hlt, he]
    simp only [Bool.not_false]
    rw [runFrom_true_cons, hi, iterate_consumed hi]
    cases stop <;> rfl

/-- every checkpoint in the log is a snapshot of a state on the way, and the resume prologue
    decides to run the loop exactly when the loop had not broken at that state -/
theorem ckpt_origin {k : Kit P S} {cfg : SmcCfg S} {zero : S} {p0 : P} {all : List (Step P)}
    {st : St P S} {stop : Bool} (h : ReachOn k cfg zero p0 all st stop) :
    ∀ c ∈ st.ckpts, ∃ stc stopc, ReachOn k cfg zero p0 all stc stopc ∧ Sim (restore c) stc ∧
      resumeLoopFlag k cfg c = !stopc := by
  induction h with
  | init => intro c hc; simp [initSt] at hc
  | @step st st' s stop h0 hs hi ih =>
    intro c hc
    have hreach := ReachOn.step h0 hs hi
    obtain ⟨b, m, -, rfl, rfl⟩ := iterate_ok hi
    rcases mc_ckpts cfg false (stepSt k cfg st b m s.mutated) none with e | e <;> rw [e] at hc
    · exact ih c hc
    · rcases List.mem_append.1 hc with hc | hc
      · exact ih c hc
      · rw [List.mem_singleton] at hc
        subst hc
        refine ⟨_, _, hreach, (sim_restore_snapshot _ none).trans (sim_mc cfg false _ none).symm, ?_⟩
        simp only [resumeLoopFlag, snapshot, stepSt, stepHist, List.getLast?_concat, stopCond,
          Bool.not_or]
        cases cfg.maxSteps <;> rfl

/-- **Interrupt + resume is invisible.**  Resuming from any checkpoint a fresh run on the stream
    `all` wrote (with the stream positioned where the checkpoint says, under any checkpoint cadence)
    ends exactly like the uninterrupted run on `all`: same error, or same evidence, uncertainty,
    returned population, history, counter and temperature. -/
theorem resume_agrees_with_uninterrupted {k : Kit P S} {cfg cfg' : SmcCfg S} (hcfg : CfgSim cfg cfg')
    {zero : S} {p0 : P} {all : List (Step P)} {st : St P S} {stop : Bool}
    (h : ReachOn k cfg zero p0 all st stop) {c : Ckpt P S} (hc : c ∈ st.ckpts) :
    OutSim (run k cfg zero p0 all) (resume k cfg' c all) := by
  obtain ⟨stc, stopc, hr, hsim, hflag⟩ := ckpt_origin h c hc
  have hflag' : resumeLoopFlag k cfg' c = !stopc := by
    rw [← hflag]; unfold resumeLoopFlag; rw [hcfg.maxSteps]
  have hcons : c.consumed = stc.consumed := hsim.consumed
  rw [run_eq_of_reachOn hr]
  unfold resume
  rw [hflag', hcons]
  exact runFrom_sim hcfg _ hsim.symm _

/-- the loop on a piece of the stream stays on the way -/
theorem reachOn_runLoop {k : Kit P S} {cfg : SmcCfg S} {zero : S} {p0 : P} {all : List (Step P)} :
    ∀ (rem tail : List (Step P)) (st : St P S), ReachOn k cfg zero p0 all st false →
      all.drop st.consumed = rem ++ tail →
      (∀ st', runLoop k cfg st rem = .interrupted st' → ReachOn k cfg zero p0 all st' false) ∧
      (∀ st' rest, runLoop k cfg st rem = .finishedLoop st' rest → ReachOn k cfg zero p0 all st' true) := by
  intro rem
  induction rem with
  | nil =>
    intro tail st h _
    refine ⟨fun st' hl => ?_, fun st' rest hl => by simp [runLoop] at hl⟩
    simp only [runLoop, Outcome.interrupted.injEq] at hl
    exact hl ▸ h
  | cons s rem' ih =>
    intro tail st h hd
    have hs : all[st.consumed]? = some s := by
      have := List.getElem?_drop (xs := all) (i := st.consumed) (j := 0)
      rw [hd] at this
      simpa using this.symm
    have hd' : all.drop (st.consumed + 1) = rem' ++ tail := by
      have : (all.drop st.consumed).drop 1 = rem' ++ tail := by rw [hd]; rfl
      rw [List.drop_drop] at this
      exact this
    unfold runLoop
    cases hi : iterate k cfg st s with
    | error e => exact ⟨fun _ hl => by simp at hl, fun _ _ hl => by simp at hl⟩
    | ok r =>
      obtain ⟨st1, stop⟩ := r
      have h1 := ReachOn.step h hs hi
      cases stop with
      | true =>
        refine ⟨fun _ hl => by simp at hl, fun st' rest hl => ?_⟩
        simp only [Outcome.finishedLoop.injEq] at hl
        exact hl.1 ▸ h1
      | false =>
        exact ih tail st1 h1 (by rw [iterate_consumed hi]; exact hd')

/-- the checkpoints that survive a run interrupted after `j` steps of the stream are checkpoints
    of a state on the way of the uninterrupted run -/
theorem interrupted_ckpts_on_the_way {k : Kit P S} {cfg : SmcCfg S} {zero : S} {p0 : P}
    {all : List (Step P)} {j : Nat} {cs : List (Ckpt P S)}
    (h : run k cfg zero p0 (all.take j) = .interrupted cs) :
    ∃ st stop, ReachOn k cfg zero p0 all st stop ∧ cs = st.ckpts := by
  have hd : all.drop (initSt (P := P) cfg zero p0).consumed = all.take j ++ all.drop j := by
    simp [initSt]
  have hr := reachOn_runLoop (k := k) (all.take j) (all.drop j) _ ReachOn.init hd
  rcases runFrom_interrupted h with ⟨-, ⟨st, hl, rfl⟩ | ⟨st, rest, hl, rfl⟩⟩ | ⟨h0, -⟩
  · exact ⟨st, false, hr.1 st hl, rfl⟩
  · exact ⟨st, true, hr.2 st rest hl, rfl⟩
  · cases h0

/-- A run interrupted after `j` steps of the stream and resumed from any surviving checkpoint
    ends exactly like the run that was never interrupted. -/
theorem interrupted_then_resumed_agrees {k : Kit P S} {cfg cfg' : SmcCfg S} (hcfg : CfgSim cfg cfg')
    {zero : S} {p0 : P} {all : List (Step P)} {j : Nat} {cs : List (Ckpt P S)}
    (hi : run k cfg zero p0 (all.take j) = .interrupted cs) {c : Ckpt P S} (hc : c ∈ cs) :
    OutSim (run k cfg zero p0 all) (resume k cfg' c all) := by
  obtain ⟨st, stop, hr, rfl⟩ := interrupted_ckpts_on_the_way hi
  exact resume_agrees_with_uninterrupted hcfg hr hc

/-- the history of a run that was interrupted and resumed is the history of the uninterrupted run
    (so every statement of this file about the latter holds for the former, with the populations
    stored before and after the interruption in one list) -/
theorem resumed_history_is_uninterrupted_history {k : Kit P S} {cfg cfg' : SmcCfg S}
    (hcfg : CfgSim cfg cfg') {zero : S} {p0 : P} {all : List (Step P)} {j : Nat}
    {cs : List (Ckpt P S)} (hi : run k cfg zero p0 (all.take j) = .interrupted cs) {c : Ckpt P S}
    (hc : c ∈ cs) {r' : Result P S} (h : resume k cfg' c all = .done r') :
    ∃ r, run k cfg zero p0 all = .done r ∧ r'.st.hist = r.st.hist ∧ r'.st.iter = r.st.iter ∧
      r'.st.beta = r.st.beta ∧ r'.pop = r.pop := by
  obtain ⟨r, h1, -, -, h4, h5, h6, h7, -⟩ := (interrupted_then_resumed_agrees hcfg hi hc).done_right h
  exact ⟨r, h1, h5, h6, h7, h4⟩

/-- checkpoints written inside the loop carry no evidence -/
theorem ckpt_logZ_none {k : Kit P S} {cfg : SmcCfg S} {zero : S} {p0 : P} {st : St P S}
    (h : Reach k cfg zero p0 st) : ∀ c ∈ st.ckpts, c.logZ = none := by
  induction h with
  | init => intro c hc; simp [initSt] at hc
  | @step st st' s stop _ hi ih =>
    intro c hc
    obtain ⟨b, m, -, rfl, -⟩ := iterate_ok hi
    rcases mc_ckpts cfg false (stepSt k cfg st b m s.mutated) none with e | e <;> rw [e] at hc
    · exact ih c hc
    · rcases List.mem_append.1 hc with hc | hc
      · exact ih c hc
      · rw [List.mem_singleton] at hc; subst hc; rfl

/-- at a state where the loop broke, the resume prologue skips the loop (the last recorded
    temperature is 1, or the step cap is reached) -/
theorem flag_false_of_stopped {k : Kit P S} {cfg : SmcCfg S} {zero : S} {p0 : P}
    {all : List (Step P)} {st : St P S} (h : ReachOn k cfg zero p0 all st true) (c : Ckpt P S)
    (hh : c.hist = st.hist) (hi : c.iter = st.iter) : resumeLoopFlag k cfg c = false := by
  cases h with
  | @step st0 _ s _ h0 hs hit =>
    obtain ⟨b, m, -, rfl, hstop⟩ := iterate_ok hit
    simp only [mc_hist, mc_iter] at hh hi
    unfold resumeLoopFlag
    simp only [hh, hi, stepSt, stepHist, List.getLast?_concat]
    unfold stopCond at hstop
    cases hb : k.isOne b with
    | true => simp
    | false =>
      rw [hb] at hstop
      cases hm : cfg.maxSteps with
      | none => rw [hm] at hstop; simp at hstop
      | some mx => rw [hm] at hstop; simp at hstop; simp [hstop]

/-- a fresh run that returns broke its loop at a state on the way -/
theorem run_done_on_the_way {k : Kit P S} {cfg : SmcCfg S} {zero : S} {p0 : P}
    {all : List (Step P)} {r : Result P S} (h : run k cfg zero p0 all = .done r) :
    ∃ st rest, ReachOn k cfg zero p0 all st true ∧ finish k cfg st rest = some r := by
  rcases runFrom_done h with ⟨-, st, rest, hl, hf⟩ | ⟨h0, -⟩
  · have hd : all.drop (initSt (P := P) cfg zero p0).consumed = all ++ [] := by simp [initSt]
    exact ⟨st, rest, (reachOn_runLoop (k := k) all [] _ ReachOn.init hd).2 st rest hl, hf⟩
  · cases h0

/-! ### 6. the pinned restore breaks the invariant -/

/-- a tiny concrete instance: populations and scalars are numbers, the schedule adds 1 and stops
    at 3, the ratio of a step is `population + new temperature` -/
def toyKit : Kit Nat Nat where
  nextBeta _ b m := .ok (b + 1, m)
  ess p _ b := 10 * p + b
  essTarget p _ := p
  effTarget b := b
  ratio p _ b := p + b
  var p b0 _ := p + b0
  resample p _ _ := p
  isOne b := b == 3
  one := 3
  size _ := 5
  sumS l := l.foldl (· + ·) 0
  rootSumS l := l.foldl (· + ·) 0

def toyCfg : SmcCfg Nat :=
  { every := some 1, maxSteps := none, nFinal := none, storeHistory := true, minStep0 := 0 }

/-- the state of the toy run after its first iteration (kernel output `7`) and the checkpoint
    written there -/
def toySt1 : St Nat Nat := maybeCheckpoint toyCfg false (stepSt toyKit toyCfg (initSt toyCfg 0 0) 1 0 7)
def toyCkpt : Ckpt Nat Nat := snapshot (stepSt toyKit toyCfg (initSt toyCfg 0 0) 1 0 7)

theorem toy_reach : Reach toyKit toyCfg 0 0 toySt1 :=
  Reach.step (s := ⟨[], 7⟩) (stop := false) Reach.init rfl

theorem toy_ckpt_mem : toyCkpt ∈ toySt1.ckpts :=
  (List.mem_singleton.2 rfl : toyCkpt ∈ [toyCkpt])

/-- With the pinned `restore_from_checkpoint` + prologue (the restored population is appended to
    the stored populations once more) the state restored from a reachable checkpoint has one
    stored population too many, so the invariant fails; with the fixed restore it holds. -/
theorem pinned_resume_breaks :
    ∃ (st : St Nat Nat) (c : Ckpt Nat Nat), Reach toyKit toyCfg 0 0 st ∧ c ∈ st.ckpts ∧
      (restorePinned toyCfg c).hist.pops.length = (restorePinned toyCfg c).iter + 2 ∧
      (restorePinned toyCfg c).hist.pops = [0, 7, 7] ∧
      ¬ HistInvW toyKit 0 (restorePinned toyCfg c) ∧ HistInv toyKit 0 (restore c) := by
  refine ⟨toySt1, toyCkpt, toy_reach, toy_ckpt_mem, by decide, by decide, ?_,
    ckpt_histInv rfl toy_reach _ toy_ckpt_mem⟩
  intro h
  have := h.len_pops
  revert this
  decide

/-! ### non-vacuity: a concrete three-step run -/

def toySteps : List (Step Nat) := [⟨[0], 7⟩, ⟨[1], 8⟩, ⟨[2], 9⟩, ⟨[3], 10⟩]

/-- the toy run returns after three iterations with the expected history -/
example :
    (match run toyKit toyCfg 0 0 toySteps with
      | .done r => some (r.st.iter, r.st.hist.pops, r.st.hist.beta, r.st.hist.ratio, r.st.hist.var,
          r.st.hist.ess, r.logZ, r.pop, r.st.ckpts.length)
      | _ => none) =
    some (3, [0, 7, 8, 9], [1, 2, 3], [0 + 1, 7 + 2, 8 + 3], [0 + 0, 7 + 1, 8 + 2], [1, 72, 83],
      21, 9, 4) := by
  rfl

example : ∃ r, run toyKit toyCfg 0 0 toySteps = .done r ∧ HistInv toyKit 0 r.st := by
  obtain ⟨r, h⟩ : ∃ r, run toyKit toyCfg 0 0 toySteps = .done r := ⟨_, rfl⟩
  exact ⟨r, h, histInv_run_nFinal_none rfl rfl h⟩

/-- interrupted after two steps, resumed from the newest surviving checkpoint with the original
    stream: same stored populations as the uninterrupted run -/
example :
    (match run toyKit toyCfg 0 0 (toySteps.take 2) with
      | .interrupted cs =>
        (match cs.getLast? with
          | some c =>
            (match resume toyKit toyCfg c toySteps with
              | .done r => some (c.iter, r.st.iter, r.st.hist.pops, r.st.hist.ratio, r.logZ)
              | _ => none)
          | none => none)
      | _ => none) = some (2, 3, [0, 7, 8, 9], [1, 9, 11], 21) := by
  rfl

end C18
