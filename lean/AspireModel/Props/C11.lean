import AspireModel.Model.Smc
/-
  C11 — a run interrupted at any point and resumed from the last checkpoint written finishes with
  the same temperature schedule, populations, evidence and diagnostic history as the run that
  was never interrupted.

  Model: `Model/Smc.lean`.  An interrupted run is `run` on a prefix `steps.take j` of the step
  list; what survives is the log of checkpoints `cks`; `resume k cfg c steps` restores the state
  from `c` and continues with the steps the original run had not consumed (`steps.drop c.consumed`
  = same random sources at the stored stream position, same sampling arguments `cfg`, `k`).
  The four documented routes (bytes, dictionary, file path, resume-from-file constructor) all end
  in the same payload `c` (see C12 `loadable` for the file route), so they are one `resume` here.
-/
namespace C11
open Model
variable {P S : Type}

/-! ## 0. the shape of one iteration -/

/-- is an (unforced) checkpoint due at iteration `iter`? -/
def due (cfg : SmcCfg S) (iter : Nat) : Bool :=
  match cfg.every with
  | none => false
  | some e => 0 < e && iter % e == 0

/-- the `break` condition of the loop -/
def stopAt (k : Kit P S) (cfg : SmcCfg S) (b : S) (iter : Nat) : Bool :=
  k.isOne b || (match cfg.maxSteps with | some mx => decide (mx ≤ iter) | none => false)

/-- the state update of one iteration, before `maybe_checkpoint()` -/
def advance (k : Kit P S) (cfg : SmcCfg S) (st : St P S) (s : Step P) (b m : S) : St P S :=
  let h := st.hist
  let h : Hist P S :=
    { h with effTarget := h.effTarget ++ [k.effTarget b], beta := h.beta ++ [b],
             ess := h.ess ++ [k.ess st.pop st.beta b], essTarget := h.essTarget ++ [k.essTarget st.pop st.beta],
             ratio := h.ratio ++ [k.ratio st.pop st.beta b], var := h.var ++ [k.var st.pop st.beta b] }
  let h := if cfg.storeHistory then { h with pops := h.pops ++ [s.mutated] } else h
  { st with pop := s.mutated, beta := b, iter := st.iter + 1, minStep := m, hist := h,
            consumed := st.consumed + 1 }

theorem maybeCheckpoint_false (cfg : SmcCfg S) (st : St P S) (z : Option S) :
    maybeCheckpoint cfg false st z =
      if due cfg st.iter then { st with ckpts := st.ckpts ++ [snapshot st z] } else st := by
  unfold maybeCheckpoint due
  cases cfg.every <;> simp

theorem maybeCheckpoint_true (cfg : SmcCfg S) (st : St P S) (z : Option S) :
    maybeCheckpoint cfg true st z =
      match cfg.every with
      | none => st
      | some _ => { st with ckpts := st.ckpts ++ [snapshot st z] } := by
  unfold maybeCheckpoint
  cases cfg.every <;> simp

theorem iterate_eq (k : Kit P S) (cfg : SmcCfg S) (st : St P S) (s : Step P) :
    iterate k cfg st s =
      match k.nextBeta st.pop st.beta st.minStep with
      | .error e => .error e
      | .ok (b, m) => .ok (maybeCheckpoint cfg false (advance k cfg st s b m), stopAt k cfg b (st.iter + 1)) := by
  unfold iterate
  cases h : k.nextBeta st.pop st.beta st.minStep with
  | error e => rfl
  | ok bm => cases bm; rfl

/-! ## 1. restore ∘ snapshot -/

/-- everything the loop reads is restored from the payload; only the checkpoint log is reset -/
theorem restore_snapshot (st : St P S) (z : Option S) :
    restore (snapshot st z) = { st with ckpts := [] } := rfl

/-! ## 2. the checkpoint log does not influence the computation -/

/-- all fields equal except the checkpoint log -/
def SameUpToCkpts (a b : St P S) : Prop :=
  a.pop = b.pop ∧ a.beta = b.beta ∧ a.iter = b.iter ∧ a.minStep = b.minStep ∧ a.hist = b.hist ∧
    a.consumed = b.consumed

theorem SameUpToCkpts.refl (a : St P S) : SameUpToCkpts a a := ⟨rfl, rfl, rfl, rfl, rfl, rfl⟩

theorem SameUpToCkpts.symm {a b : St P S} (h : SameUpToCkpts a b) : SameUpToCkpts b a :=
  ⟨h.1.symm, h.2.1.symm, h.2.2.1.symm, h.2.2.2.1.symm, h.2.2.2.2.1.symm, h.2.2.2.2.2.symm⟩

theorem SameUpToCkpts.trans {a b c : St P S} (h : SameUpToCkpts a b) (h' : SameUpToCkpts b c) :
    SameUpToCkpts a c :=
  ⟨h.1.trans h'.1, h.2.1.trans h'.2.1, h.2.2.1.trans h'.2.2.1, h.2.2.2.1.trans h'.2.2.2.1,
    h.2.2.2.2.1.trans h'.2.2.2.2.1, h.2.2.2.2.2.trans h'.2.2.2.2.2⟩

theorem SameUpToCkpts.eq_with {a b : St P S} (h : SameUpToCkpts a b) :
    b = { a with ckpts := b.ckpts } := by
  obtain ⟨h1, h2, h3, h4, h5, h6⟩ := h
  cases a; cases b; simp only at h1 h2 h3 h4 h5 h6; subst h1 h2 h3 h4 h5 h6; rfl

theorem same_with (a : St P S) (l : List (Ckpt P S)) : SameUpToCkpts a { a with ckpts := l } :=
  ⟨rfl, rfl, rfl, rfl, rfl, rfl⟩

theorem sameUpToCkpts_iff (a b : St P S) :
    SameUpToCkpts a b ↔ ({ a with ckpts := [] } : St P S) = { b with ckpts := [] } := by
  constructor
  · intro h; rw [h.eq_with]
  · intro h
    cases a; cases b; simp only [St.mk.injEq] at h
    exact ⟨h.1, h.2.1, h.2.2.1, h.2.2.2.1, h.2.2.2.2.1, h.2.2.2.2.2.1⟩

theorem snapshot_with (a : St P S) (l : List (Ckpt P S)) (z : Option S) :
    snapshot { a with ckpts := l } z = snapshot a z := rfl

theorem snapshot_congr {a b : St P S} (h : SameUpToCkpts a b) (z : Option S) :
    snapshot a z = snapshot b z := by
  rw [h.eq_with]; rfl

theorem same_maybeCheckpoint (cfg : SmcCfg S) (f : Bool) (st : St P S) (z : Option S) :
    SameUpToCkpts (maybeCheckpoint cfg f st z) st := by
  unfold maybeCheckpoint
  split
  · exact .refl _
  · split
    · exact (same_with _ _).symm
    · exact .refl _

theorem snapshot_maybeCheckpoint (cfg : SmcCfg S) (f : Bool) (st : St P S) (z z' : Option S) :
    snapshot (maybeCheckpoint cfg f st z) z' = snapshot st z' :=
  snapshot_congr (same_maybeCheckpoint cfg f st z) z'

theorem advance_with (k : Kit P S) (cfg : SmcCfg S) (st : St P S) (l : List (Ckpt P S)) (s : Step P)
    (b m : S) : advance k cfg { st with ckpts := l } s b m = { advance k cfg st s b m with ckpts := l } := rfl

theorem advance_ckpts (k : Kit P S) (cfg : SmcCfg S) (st : St P S) (s : Step P) (b m : S) :
    (advance k cfg st s b m).ckpts = st.ckpts := rfl

/-- results of one iteration that agree up to the checkpoint log -/
def IterRel : Except BetaErr (St P S × Bool) → Except BetaErr (St P S × Bool) → Prop
  | .error e, .error e' => e = e'
  | .ok (a, f), .ok (b, g) => SameUpToCkpts a b ∧ f = g
  | _, _ => False

theorem iterate_congr (k : Kit P S) (cfg : SmcCfg S) {a b : St P S} (h : SameUpToCkpts a b)
    (s : Step P) : IterRel (iterate k cfg a s) (iterate k cfg b s) := by
  rw [h.eq_with, iterate_eq, iterate_eq]
  cases k.nextBeta a.pop a.beta a.minStep with
  | error e => exact rfl
  | ok bm =>
    obtain ⟨b', m⟩ := bm
    refine ⟨?_, rfl⟩
    rw [advance_with]
    exact (same_maybeCheckpoint _ _ _ _).trans
      ((same_with _ _).trans (same_maybeCheckpoint _ _ _ _).symm)

/-- loop outcomes that agree up to the checkpoint log -/
def OutRel : Outcome P S → Outcome P S → Prop
  | .raised e, .raised e' => e = e'
  | .interrupted a, .interrupted b => SameUpToCkpts a b
  | .finishedLoop a r, .finishedLoop b r' => SameUpToCkpts a b ∧ r = r'
  | _, _ => False

theorem runLoop_congr (k : Kit P S) (cfg : SmcCfg S) (steps : List (Step P)) :
    ∀ {a b : St P S}, SameUpToCkpts a b → OutRel (runLoop k cfg a steps) (runLoop k cfg b steps) := by
  induction steps with
  | nil => intro a b h; exact h
  | cons s rest ih =>
    intro a b h
    have hi := iterate_congr k cfg h s
    unfold runLoop
    cases ha : iterate k cfg a s with
    | error e =>
      cases hb : iterate k cfg b s with
      | error e' => rw [ha, hb] at hi; exact hi
      | ok v => rw [ha, hb] at hi; exact hi.elim
    | ok v =>
      cases hb : iterate k cfg b s with
      | error e' => rw [ha, hb] at hi; exact hi.elim
      | ok w =>
        obtain ⟨a', f⟩ := v
        obtain ⟨b', g⟩ := w
        rw [ha, hb] at hi
        obtain ⟨hs, hfg⟩ := hi
        subst hfg
        cases f with
        | true => exact ⟨hs, rfl⟩
        | false => exact ih hs

/-- results that agree in everything except the checkpoint log -/
def ResRel (r r' : Result P S) : Prop :=
  r.pop = r'.pop ∧ r.logZ = r'.logZ ∧ r.logZerr = r'.logZerr ∧ SameUpToCkpts r.st r'.st

/-- is the enlargement to `n_final_samples` still to be done? -/
def needFinal (k : Kit P S) (cfg : SmcCfg S) (st : St P S) : Bool :=
  match cfg.nFinal with | some n => decide (k.size st.pop ≠ n) | none => false

/-- evidence, error and the forced final checkpoint -/
def finishGo (k : Kit P S) (cfg : SmcCfg S) (st : St P S) : Result P S :=
  let z := k.sumS st.hist.ratio
  let st' := maybeCheckpoint cfg true st (some z)
  { pop := st'.pop, logZ := z, logZerr := k.rootSumS st.hist.var, st := st' }

theorem finish_eq (k : Kit P S) (cfg : SmcCfg S) (st : St P S) (rest : List (Step P)) :
    finish k cfg st rest =
      if needFinal k cfg st then
        (match rest with
         | [] => none
         | s :: _ => some (finishGo k cfg { st with pop := s.mutated, consumed := st.consumed + 1 }))
      else some (finishGo k cfg st) := rfl

theorem finishGo_congr (k : Kit P S) (cfg : SmcCfg S) {a b : St P S} (h : SameUpToCkpts a b) :
    ResRel (finishGo k cfg a) (finishGo k cfg b) := by
  rw [h.eq_with]
  refine ⟨?_, rfl, rfl, ?_⟩
  · exact ((same_maybeCheckpoint _ _ _ _).trans
      ((same_with _ _).trans (same_maybeCheckpoint _ _ _ _).symm)).1
  · exact (same_maybeCheckpoint _ _ _ _).trans
      ((same_with _ _).trans (same_maybeCheckpoint _ _ _ _).symm)

def OptResRel : Option (Result P S) → Option (Result P S) → Prop
  | none, none => True
  | some r, some r' => ResRel r r'
  | _, _ => False

theorem finish_congr (k : Kit P S) (cfg : SmcCfg S) {a b : St P S} (h : SameUpToCkpts a b)
    (rest : List (Step P)) : OptResRel (finish k cfg a rest) (finish k cfg b rest) := by
  rw [finish_eq, finish_eq]
  have hn : needFinal k cfg b = needFinal k cfg a := by rw [h.eq_with]; rfl
  rw [hn]
  cases needFinal k cfg a with
  | false => exact finishGo_congr k cfg h
  | true =>
    cases rest with
    | nil => trivial
    | cons s _ =>
      apply finishGo_congr
      exact ⟨rfl, h.2.1, h.2.2.1, h.2.2.2.1, h.2.2.2.2.1, by simp only [h.2.2.2.2.2]⟩

/-- whole calls of `sample` that agree up to the checkpoint log -/
def RunRel : RunOut P S → RunOut P S → Prop
  | .raised e, .raised e' => e = e'
  | .interrupted _, .interrupted _ => True
  | .done r, .done r' => ResRel r r'
  | _, _ => False

theorem runFrom_congr (k : Kit P S) (cfg : SmcCfg S) (flag : Bool) {a b : St P S}
    (h : SameUpToCkpts a b) (steps : List (Step P)) :
    RunRel (runFrom k cfg flag a steps) (runFrom k cfg flag b steps) := by
  unfold runFrom
  cases flag with
  | false =>
    have hf := finish_congr k cfg h steps
    simp only [Bool.false_eq_true, if_false]
    cases ha : finish k cfg a steps <;> cases hb : finish k cfg b steps <;> rw [ha, hb] at hf
    · trivial
    · exact hf.elim
    · exact hf.elim
    · exact hf
  | true =>
    have hl := runLoop_congr k cfg steps h
    simp only [if_true]
    cases ha : runLoop k cfg a steps <;> cases hb : runLoop k cfg b steps <;> rw [ha, hb] at hl <;>
      try exact hl.elim
    · exact hl
    · trivial
    · rename_i a' r b' r'
      obtain ⟨hs, hr⟩ := hl
      subst hr
      have hf := finish_congr k cfg hs r
      simp only
      cases ha' : finish k cfg a' r <;> cases hb' : finish k cfg b' r <;> rw [ha', hb'] at hf
      · trivial
      · exact hf.elim
      · exact hf.elim
      · exact hf

/-- the checkpoint log is irrelevant for everything `sample` returns and records -/
theorem iterate_ckpts_irrelevant (k : Kit P S) (cfg : SmcCfg S) (flag : Bool) (st : St P S)
    (l : List (Ckpt P S)) (steps : List (Step P)) :
    RunRel (runFrom k cfg flag st steps) (runFrom k cfg flag { st with ckpts := l } steps) :=
  runFrom_congr k cfg flag (same_with st l) steps

theorem RunRel.done_left {x y : RunOut P S} (h : RunRel x y) {r : Result P S} (hx : x = .done r) :
    ∃ r', y = .done r' ∧ ResRel r r' := by
  subst hx
  cases y with
  | raised e => exact h.elim
  | interrupted c => exact h.elim
  | done r' => exact ⟨r', rfl, h⟩

/-! ## 3. feeding the steps in two portions -/

theorem runLoop_cons (k : Kit P S) (cfg : SmcCfg S) (st : St P S) (s : Step P) (rest : List (Step P)) :
    runLoop k cfg st (s :: rest) =
      match iterate k cfg st s with
      | .error e => .raised e
      | .ok (st', true) => .finishedLoop st' rest
      | .ok (st', false) => runLoop k cfg st' rest := by
  rw [runLoop]; rfl

/-- MAIN SPLIT: if the loop does not break within `steps₁`, feeding `steps₁ ++ steps₂` equals feeding
    `steps₂` from the state reached after `steps₁` -/
theorem runLoop_split (k : Kit P S) (cfg : SmcCfg S) (steps₁ steps₂ : List (Step P)) :
    ∀ {st st₁ : St P S}, runLoop k cfg st steps₁ = .interrupted st₁ →
      runLoop k cfg st (steps₁ ++ steps₂) = runLoop k cfg st₁ steps₂ := by
  induction steps₁ with
  | nil => intro st st₁ h; simp only [runLoop, Outcome.interrupted.injEq] at h; subst h; rfl
  | cons s rest ih =>
    intro st st₁ h
    simp only [List.cons_append]
    rw [runLoop_cons] at h ⊢
    cases hi : iterate k cfg st s with
    | error e => rw [hi] at h; cases h
    | ok v =>
      obtain ⟨st', f⟩ := v
      rw [hi] at h
      cases f with
      | true => cases h
      | false => exact ih h

theorem runLoop_append_raised (k : Kit P S) (cfg : SmcCfg S) (steps₁ steps₂ : List (Step P)) :
    ∀ {st : St P S} {e : BetaErr}, runLoop k cfg st steps₁ = .raised e →
      runLoop k cfg st (steps₁ ++ steps₂) = .raised e := by
  induction steps₁ with
  | nil => intro st e h; cases h
  | cons s rest ih =>
    intro st e h
    simp only [List.cons_append]
    rw [runLoop_cons] at h ⊢
    cases hi : iterate k cfg st s with
    | error e' => (rw [hi] at h) <;> exact h
    | ok v =>
      obtain ⟨st', f⟩ := v
      rw [hi] at h
      cases f with
      | true => cases h
      | false => exact ih h

/-- steps fed after the loop has broken are left for the enlargement -/
theorem runLoop_append_finished (k : Kit P S) (cfg : SmcCfg S) (steps₁ steps₂ : List (Step P)) :
    ∀ {st stL : St P S} {rest : List (Step P)}, runLoop k cfg st steps₁ = .finishedLoop stL rest →
      runLoop k cfg st (steps₁ ++ steps₂) = .finishedLoop stL (rest ++ steps₂) := by
  induction steps₁ with
  | nil => intro st stL rest h; cases h
  | cons s tl ih =>
    intro st stL rest h
    simp only [List.cons_append]
    rw [runLoop_cons] at h ⊢
    cases hi : iterate k cfg st s with
    | error e' => rw [hi] at h; cases h
    | ok v =>
      obtain ⟨st', f⟩ := v
      rw [hi] at h
      cases f with
      | true =>
        simp only [Outcome.finishedLoop.injEq] at h
        obtain ⟨h1, h2⟩ := h
        subst h1 h2; rfl
      | false => exact ih h

/-- a loop that broke: the steps split into the iterations before the last one, the breaking
    iteration, and the unconsumed rest -/
theorem runLoop_finished_decomp (k : Kit P S) (cfg : SmcCfg S) (steps : List (Step P)) :
    ∀ {st stL : St P S} {rest : List (Step P)}, runLoop k cfg st steps = .finishedLoop stL rest →
      ∃ pre s stP, steps = pre ++ s :: rest ∧ runLoop k cfg st pre = .interrupted stP ∧
        iterate k cfg stP s = .ok (stL, true) := by
  induction steps with
  | nil => intro st stL rest h; cases h
  | cons s tl ih =>
    intro st stL rest h
    rw [runLoop_cons] at h
    cases hi : iterate k cfg st s with
    | error e' => rw [hi] at h; cases h
    | ok v =>
      obtain ⟨st', f⟩ := v
      rw [hi] at h
      cases f with
      | true =>
        simp only [Outcome.finishedLoop.injEq] at h
        obtain ⟨h1, h2⟩ := h
        subst h1 h2
        exact ⟨[], s, st, rfl, rfl, hi⟩
      | false =>
        obtain ⟨pre, s', stP, h1, h2, h3⟩ := ih h
        refine ⟨s :: pre, s', stP, by rw [h1]; rfl, ?_, h3⟩
        rw [runLoop_cons, hi]; exact h2

/-- an interrupted loop on `pre ++ [s]`: the loop was interrupted on `pre` and the last iteration
    did not break -/
theorem runLoop_snoc_interrupted (k : Kit P S) (cfg : SmcCfg S) (pre : List (Step P)) (s : Step P)
    {st st' : St P S} (h : runLoop k cfg st (pre ++ [s]) = .interrupted st') :
    ∃ stP, runLoop k cfg st pre = .interrupted stP ∧ iterate k cfg stP s = .ok (st', false) := by
  cases hp : runLoop k cfg st pre with
  | raised e => rw [runLoop_append_raised k cfg pre [s] hp] at h; cases h
  | finishedLoop a r => rw [runLoop_append_finished k cfg pre [s] hp] at h; cases h
  | interrupted stP =>
    rw [runLoop_split k cfg pre [s] hp] at h
    refine ⟨stP, rfl, ?_⟩
    rw [runLoop_cons] at h
    cases hi : iterate k cfg stP s with
    | error e' => rw [hi] at h; cases h
    | ok v =>
      obtain ⟨a, f⟩ := v
      rw [hi] at h
      cases f with
      | true => cases h
      | false =>
        simp only [runLoop, Outcome.interrupted.injEq] at h
        subst h; rfl

/-- induction from the right -/
theorem snocInd {α : Type} {motive : List α → Prop} (nil : motive [])
    (snoc : ∀ l a, motive l → motive (l ++ [a])) (l : List α) : motive l := by
  have h : ∀ r : List α, motive r.reverse := by
    intro r
    induction r with
    | nil => exact nil
    | cons a r ih => rw [List.reverse_cons]; exact snoc _ a ih
  have := h l.reverse
  rwa [List.reverse_reverse] at this

/-- the same for a whole call of `sample` -/
theorem runFrom_split (k : Kit P S) (cfg : SmcCfg S) (steps₁ steps₂ : List (Step P))
    {st st₁ : St P S} (h : runLoop k cfg st steps₁ = .interrupted st₁) :
    runFrom k cfg true st (steps₁ ++ steps₂) = runFrom k cfg true st₁ steps₂ := by
  unfold runFrom
  simp only [if_true]
  rw [runLoop_split k cfg steps₁ steps₂ h]

/-! ## 4. what one iteration does to the bookkeeping fields -/

theorem advance_hist_beta (k : Kit P S) (cfg : SmcCfg S) (st : St P S) (s : Step P) (b m : S) :
    (advance k cfg st s b m).hist.beta = st.hist.beta ++ [b] := by
  unfold advance
  cases cfg.storeHistory <;> rfl

theorem iterate_ok_facts (k : Kit P S) (cfg : SmcCfg S) {st st' : St P S} {s : Step P} {f : Bool}
    (h : iterate k cfg st s = .ok (st', f)) :
    st'.consumed = st.consumed + 1 ∧ st'.iter = st.iter + 1 ∧
    st'.hist.beta.getLast? = some st'.beta ∧ f = stopAt k cfg st'.beta st'.iter ∧
    st'.ckpts = st.ckpts ++ (if due cfg st'.iter then [snapshot st' none] else []) := by
  rw [iterate_eq] at h
  cases hn : k.nextBeta st.pop st.beta st.minStep with
  | error e => rw [hn] at h; cases h
  | ok bm =>
    obtain ⟨b, m⟩ := bm
    rw [hn] at h
    simp only [Except.ok.injEq, Prod.mk.injEq] at h
    obtain ⟨h1, h2⟩ := h
    have hs := same_maybeCheckpoint cfg false (advance k cfg st s b m) none
    rw [h1] at hs
    obtain ⟨_, hb, hi, _, hh, hc⟩ := hs
    have hb' : st'.beta = b := hb
    have hi' : st'.iter = st.iter + 1 := hi
    refine ⟨hc, hi, ?_, ?_, ?_⟩
    · rw [hh, advance_hist_beta, hb']; simp
    · rw [hb', hi', h2]
    · have hsnap : snapshot st' none = snapshot (advance k cfg st s b m) none := by
        rw [← h1]; exact snapshot_maybeCheckpoint _ _ _ _ _
      rw [hsnap, hi', ← h1, maybeCheckpoint_false]
      have hd' : due cfg (advance k cfg st s b m).iter = due cfg (st.iter + 1) := rfl
      rw [hd']
      cases due cfg (st.iter + 1) with
      | false => simp [advance_ckpts]
      | true => simp [advance_ckpts]

/-- the state right after iteration `i` of a fresh run on `steps` (if the loop is still running) -/
def StateAt (k : Kit P S) (cfg : SmcCfg S) (zero : S) (p0 : P) (steps : List (Step P)) (i : Nat)
    (st : St P S) : Prop :=
  i ≤ steps.length ∧ runLoop k cfg (initSt cfg zero p0) (steps.take i) = .interrupted st

/-- what is known about the state reached by a fresh loop that consumed `pre` without breaking -/
structure Tracks (k : Kit P S) (cfg : SmcCfg S) (zero : S) (p0 : P) (pre : List (Step P))
    (st : St P S) : Prop where
  consumed : st.consumed = pre.length
  iter : st.iter = pre.length
  lastBeta : pre ≠ [] → st.hist.beta.getLast? = some st.beta
  noStop : pre ≠ [] → stopAt k cfg st.beta st.iter = false
  ckpts : ∀ c ∈ st.ckpts, ∃ i stc, 1 ≤ i ∧ StateAt k cfg zero p0 pre i stc ∧ c = snapshot stc

/-- along the loop of a fresh run the stream position equals the iteration count equals the
    number of steps consumed; every checkpoint written is the snapshot of the state right after
    some iteration `i ≥ 1` -/
theorem consumed_tracks (k : Kit P S) (cfg : SmcCfg S) (zero : S) (p0 : P) (pre : List (Step P)) :
    ∀ {st : St P S}, runLoop k cfg (initSt cfg zero p0) pre = .interrupted st →
      Tracks k cfg zero p0 pre st := by
  induction pre using snocInd with
  | nil =>
    intro st h
    simp only [runLoop, Outcome.interrupted.injEq] at h
    subst h
    exact ⟨rfl, rfl, fun h => (h rfl).elim, fun h => (h rfl).elim, fun c hc => by cases hc⟩
  | snoc pre s ih =>
    intro st' h
    obtain ⟨stP, hP, hi⟩ := runLoop_snoc_interrupted k cfg pre s h
    have T := ih hP
    obtain ⟨f1, f2, f3, f4, f5⟩ := iterate_ok_facts k cfg hi
    refine ⟨?_, ?_, fun _ => f3, fun _ => f4.symm, ?_⟩
    · rw [f1, T.consumed]; simp
    · rw [f2, T.iter]; simp
    · intro c hc
      rw [f5, List.mem_append] at hc
      cases hc with
      | inl hc =>
        obtain ⟨i, stc, h1, ⟨h2, h3⟩, h4⟩ := T.ckpts c hc
        refine ⟨i, stc, h1, ⟨by simp; omega, ?_⟩, h4⟩
        rw [List.take_append_of_le_length h2]; exact h3
      | inr hc =>
        cases hd : due cfg st'.iter with
        | false => rw [hd] at hc; cases hc
        | true =>
          rw [hd] at hc
          simp only [if_true, List.mem_singleton] at hc
          refine ⟨pre.length + 1, st', by omega, ⟨by simp, ?_⟩, hc⟩
          have : (pre ++ [s]).take (pre.length + 1) = pre ++ [s] := by
            apply List.take_of_length_le; simp
          rw [this]; exact h

theorem StateAt.tracks {k : Kit P S} {cfg : SmcCfg S} {zero : S} {p0 : P} {steps : List (Step P)}
    {i : Nat} {st : St P S} (h : StateAt k cfg zero p0 steps i st) :
    Tracks k cfg zero p0 (steps.take i) st := consumed_tracks k cfg zero p0 _ h.2

theorem StateAt.consumed {k : Kit P S} {cfg : SmcCfg S} {zero : S} {p0 : P} {steps : List (Step P)}
    {i : Nat} {st : St P S} (h : StateAt k cfg zero p0 steps i st) : st.consumed = i := by
  rw [h.tracks.consumed, List.length_take]; exact Nat.min_eq_left h.1

theorem StateAt.iter {k : Kit P S} {cfg : SmcCfg S} {zero : S} {p0 : P} {steps : List (Step P)}
    {i : Nat} {st : St P S} (h : StateAt k cfg zero p0 steps i st) : st.iter = i := by
  rw [h.tracks.iter, List.length_take]; exact Nat.min_eq_left h.1

/-- a state reached on a prefix is a state reached on the whole list -/
theorem StateAt.append {k : Kit P S} {cfg : SmcCfg S} {zero : S} {p0 : P} {pre : List (Step P)}
    {i : Nat} {st : St P S} (h : StateAt k cfg zero p0 pre i st) (more : List (Step P)) :
    StateAt k cfg zero p0 (pre ++ more) i st := by
  refine ⟨by have := h.1; simp; omega, ?_⟩
  rw [List.take_append_of_le_length h.1]; exact h.2

/-- every checkpoint in the log of a running fresh loop: stream position = iteration, and it is the
    snapshot of the state right after that iteration -/
theorem ckpt_consumed_eq_iter (k : Kit P S) (cfg : SmcCfg S) (zero : S) (p0 : P)
    (pre : List (Step P)) {st : St P S}
    (h : runLoop k cfg (initSt cfg zero p0) pre = .interrupted st) {c : Ckpt P S} (hc : c ∈ st.ckpts) :
    c.consumed = c.iter ∧ 1 ≤ c.iter ∧ c.iter ≤ st.iter ∧
      ∃ stc, StateAt k cfg zero p0 pre c.iter stc ∧ c = snapshot stc := by
  have T := consumed_tracks k cfg zero p0 pre h
  obtain ⟨i, stc, h1, h2, h3⟩ := T.ckpts c hc
  have hi : c.iter = i := by rw [h3]; exact h2.iter
  have hco : c.consumed = i := by rw [h3]; exact h2.consumed
  refine ⟨by rw [hi, hco], by omega, by rw [hi, T.iter]; exact h2.1, stc, by rw [hi]; exact h2, h3⟩

/-! ## 5. resuming -/

/-- on a payload whose recorded schedule ends with its own temperature, the loop is re-entered
    exactly when the original loop had not broken at that iteration -/
theorem resumeLoopFlag_eq (k : Kit P S) (cfg : SmcCfg S) (c : Ckpt P S)
    (h : c.hist.beta.getLast? = some c.beta) :
    resumeLoopFlag k cfg c = !stopAt k cfg c.beta c.iter := by
  unfold resumeLoopFlag stopAt
  rw [h]
  simp only [Bool.not_or]
  cases cfg.maxSteps <;> rfl

theorem runFrom_true_of_finished (k : Kit P S) (cfg : SmcCfg S) {st stL : St P S}
    {steps rest : List (Step P)} (h : runLoop k cfg st steps = .finishedLoop stL rest) :
    runFrom k cfg true st steps = runFrom k cfg false stL rest := by
  unfold runFrom
  simp only [if_true, h, Bool.false_eq_true, if_false]

theorem run_eq (k : Kit P S) (cfg : SmcCfg S) (zero : S) (p0 : P) (steps : List (Step P)) :
    run k cfg zero p0 steps = runFrom k cfg true (initSt cfg zero p0) steps := rfl

/-- (a) resuming from the snapshot of a state inside the loop -/
theorem resume_of_loop_ckpt (k : Kit P S) (cfg : SmcCfg S) (zero : S) (p0 : P) (steps : List (Step P))
    {i : Nat} {stc : St P S} (h : StateAt k cfg zero p0 steps i stc) (hi : 1 ≤ i) (z : Option S) :
    RunRel (run k cfg zero p0 steps) (resume k cfg (snapshot stc z) steps) := by
  have T := h.tracks
  have hne : steps.take i ≠ [] := by
    intro h0
    have := congrArg List.length h0
    rw [List.length_take, Nat.min_eq_left h.1] at this
    simp at this; omega
  have hflag : resumeLoopFlag k cfg (snapshot stc z) = true := by
    rw [resumeLoopFlag_eq k cfg _ (T.lastBeta hne)]
    show (!stopAt k cfg stc.beta stc.iter) = true
    rw [T.noStop hne]; rfl
  have hcons : (snapshot stc z).consumed = i := h.consumed
  unfold resume
  rw [hflag, hcons, restore_snapshot, run_eq]
  have hsplit : runFrom k cfg true (initSt cfg zero p0) (steps.take i ++ steps.drop i)
      = runFrom k cfg true stc (steps.drop i) := runFrom_split k cfg _ _ h.2
  rw [List.take_append_drop] at hsplit
  rw [hsplit]
  exact runFrom_congr k cfg true (same_with stc []) _

/-- (b) resuming from the snapshot of the state at the iteration where the loop broke (temperature 1
    or step cap): the loop is skipped, the enlargement and the evidence are redone -/
theorem resume_of_break_ckpt (k : Kit P S) (cfg : SmcCfg S) (zero : S) (p0 : P) (steps : List (Step P))
    {stL : St P S} {rest : List (Step P)}
    (h : runLoop k cfg (initSt cfg zero p0) steps = .finishedLoop stL rest) (z : Option S) :
    RunRel (run k cfg zero p0 steps) (resume k cfg (snapshot stL z) steps) := by
  obtain ⟨pre, s, stP, hsteps, hP, hi⟩ := runLoop_finished_decomp k cfg steps h
  obtain ⟨f1, f2, f3, f4, _⟩ := iterate_ok_facts k cfg hi
  have T := consumed_tracks k cfg zero p0 pre hP
  have hflag : resumeLoopFlag k cfg (snapshot stL z) = false := by
    rw [resumeLoopFlag_eq k cfg _ f3]
    show (!stopAt k cfg stL.beta stL.iter) = false
    rw [← f4]; rfl
  have hcons : (snapshot stL z).consumed = pre.length + 1 := by
    show stL.consumed = _
    rw [f1, T.consumed]
  have hdrop : steps.drop (pre.length + 1) = rest := by
    rw [hsteps]
    have : pre ++ s :: rest = (pre ++ [s]) ++ rest := by simp
    rw [this]
    exact List.drop_left' (by simp)
  unfold resume
  rw [hflag, hcons, restore_snapshot, run_eq, hdrop, runFrom_true_of_finished k cfg h]
  exact runFrom_congr k cfg false (same_with stL []) _

/-- the state after the enlargement to `n_final_samples` -/
def enlarged (st : St P S) (s : Step P) : St P S :=
  { st with pop := s.mutated, consumed := st.consumed + 1 }

/-- resuming from the forced final checkpoint taken after the enlargement: the loop is skipped (it had
    broken), the enlargement is skipped because the size already matches -/
theorem resume_of_final_ckpt (k : Kit P S) (cfg : SmcCfg S) (zero : S) (p0 : P) (steps : List (Step P))
    {stL : St P S} {s' : Step P} {rest' : List (Step P)}
    (h : runLoop k cfg (initSt cfg zero p0) steps = .finishedLoop stL (s' :: rest'))
    (hneed : needFinal k cfg stL = true)
    (hsize : ∀ n, cfg.nFinal = some n → k.size s'.mutated = n) (z : Option S) :
    RunRel (run k cfg zero p0 steps) (resume k cfg (snapshot (enlarged stL s') z) steps) := by
  obtain ⟨pre, s, stP, hsteps, hP, hi⟩ := runLoop_finished_decomp k cfg steps h
  obtain ⟨f1, f2, f3, f4, _⟩ := iterate_ok_facts k cfg hi
  have T := consumed_tracks k cfg zero p0 pre hP
  have hflag : resumeLoopFlag k cfg (snapshot (enlarged stL s') z) = false := by
    rw [resumeLoopFlag_eq k cfg _ f3]
    show (!stopAt k cfg stL.beta stL.iter) = false
    rw [← f4]; rfl
  have hcons : (snapshot (enlarged stL s') z).consumed = pre.length + 1 + 1 := by
    show stL.consumed + 1 = _
    rw [f1, T.consumed]
  have hdrop : steps.drop (pre.length + 1 + 1) = rest' := by
    rw [hsteps]
    have : pre ++ s :: s' :: rest' = (pre ++ [s, s']) ++ rest' := by simp
    rw [this]
    exact List.drop_left' (by simp)
  have hno : needFinal k cfg { enlarged stL s' with ckpts := [] } = false := by
    unfold needFinal
    cases hn : cfg.nFinal with
    | none => rfl
    | some n =>
      have := hsize n hn
      show decide (k.size s'.mutated ≠ n) = false
      simp [this]
  unfold resume
  rw [hflag, hcons, restore_snapshot, run_eq, hdrop, runFrom_true_of_finished k cfg h]
  unfold runFrom
  simp only [Bool.false_eq_true, if_false]
  rw [finish_eq, finish_eq, hneed, hno]
  simp only [if_true, Bool.false_eq_true, if_false]
  exact finishGo_congr k cfg (same_with (enlarged stL s') [])

/-- every checkpoint written by the loop of a run whose loop broke can be resumed from -/
theorem resume_of_mem_loop_ckpts (k : Kit P S) (cfg : SmcCfg S) (zero : S) (p0 : P)
    (steps : List (Step P)) {stL : St P S} {rest : List (Step P)}
    (h : runLoop k cfg (initSt cfg zero p0) steps = .finishedLoop stL rest)
    {c : Ckpt P S} (hc : c ∈ stL.ckpts) :
    RunRel (run k cfg zero p0 steps) (resume k cfg c steps) := by
  obtain ⟨pre, s, stP, hsteps, hP, hi⟩ := runLoop_finished_decomp k cfg steps h
  obtain ⟨_, _, _, _, f5⟩ := iterate_ok_facts k cfg hi
  have T := consumed_tracks k cfg zero p0 pre hP
  rw [f5, List.mem_append] at hc
  cases hc with
  | inl hc =>
    obtain ⟨i, stc, h1, h2, h3⟩ := T.ckpts c hc
    rw [h3]
    have := h2.append (s :: rest)
    rw [← hsteps] at this
    exact resume_of_loop_ckpt k cfg zero p0 steps this h1 none
  | inr hc =>
    cases hd : due cfg stL.iter with
    | false => rw [hd] at hc; cases hc
    | true =>
      rw [hd] at hc
      simp only [if_true, List.mem_singleton] at hc
      rw [hc]
      exact resume_of_break_ckpt k cfg zero p0 steps h none

/-- MAIN (relational form): a run interrupted after any number `j` of steps (inside the loop or
    inside the enlargement) and resumed from ANY checkpoint of its log — in particular the last one,
    the file content — agrees with the uninterrupted run, whatever that run does. -/
theorem resume_rel (k : Kit P S) (cfg : SmcCfg S) (zero : S) (p0 : P) (steps : List (Step P)) (j : Nat)
    {cks : List (Ckpt P S)} (hint : run k cfg zero p0 (steps.take j) = .interrupted cks)
    {c : Ckpt P S} (hc : c ∈ cks) :
    RunRel (run k cfg zero p0 steps) (resume k cfg c steps) := by
  rw [run_eq] at hint
  unfold runFrom at hint
  simp only [if_true] at hint
  cases hl : runLoop k cfg (initSt cfg zero p0) (steps.take j) with
  | raised e => rw [hl] at hint; cases hint
  | interrupted stj =>
    rw [hl] at hint
    simp only [RunOut.interrupted.injEq] at hint
    rw [← hint] at hc
    obtain ⟨i, stc, h1, h2, h3⟩ := (consumed_tracks k cfg zero p0 _ hl).ckpts c hc
    have := h2.append (steps.drop j)
    rw [List.take_append_drop] at this
    rw [h3]
    exact resume_of_loop_ckpt k cfg zero p0 steps this h1 none
  | finishedLoop stL rest' =>
    rw [hl] at hint
    simp only at hint
    have hfull := runLoop_append_finished k cfg (steps.take j) (steps.drop j) hl
    rw [List.take_append_drop] at hfull
    cases hf : finish k cfg stL rest' with
    | some r => rw [hf] at hint; cases hint
    | none =>
      rw [hf] at hint
      simp only [RunOut.interrupted.injEq] at hint
      rw [← hint] at hc
      exact resume_of_mem_loop_ckpts k cfg zero p0 steps hfull hc

/-- MAIN: if the uninterrupted run finishes with result `r`, the run interrupted after `j` steps and
    resumed from the last checkpoint written finishes too, with the same evidence, evidence error,
    final population, diagnostic history (temperatures, ESS, ratios, stored populations), iteration
    count and final temperature.  Holds for every schedule rule and kernel (`k`, `steps`), every
    cadence, cap and `n_final_samples` (`cfg`), every interruption point `j`. -/
theorem resume_eq (k : Kit P S) (cfg : SmcCfg S) (zero : S) (p0 : P) (steps : List (Step P))
    {r : Result P S} (hfull : run k cfg zero p0 steps = .done r) (j : Nat)
    {cks : List (Ckpt P S)} (hint : run k cfg zero p0 (steps.take j) = .interrupted cks)
    {c : Ckpt P S} (hc : cks.getLast? = some c) :
    ∃ r', resume k cfg c steps = .done r' ∧ r'.logZ = r.logZ ∧ r'.logZerr = r.logZerr ∧
      r'.pop = r.pop ∧ r'.st.hist = r.st.hist ∧ r'.st.iter = r.st.iter ∧ r'.st.beta = r.st.beta := by
  have hmem : c ∈ cks := List.mem_of_getLast? hc
  obtain ⟨r', h1, h2, h3, h4, h5⟩ := (resume_rel k cfg zero p0 steps j hint hmem).done_left hfull
  exact ⟨r', h1, h3.symm, h4.symm, h2.symm, h5.2.2.2.2.1.symm, h5.2.2.1.symm, h5.2.1.symm⟩

/-- (c) no checkpoint was written before the interruption: there is nothing to resume from, the
    run is started again and — the model being a function of its inputs — equals the uninterrupted one -/
theorem restart_eq (k : Kit P S) (cfg : SmcCfg S) (zero : S) (p0 : P) (steps : List (Step P)) (j : Nat)
    (_hint : run k cfg zero p0 (steps.take j) = .interrupted []) :
    runFrom k cfg true (initSt cfg zero p0) steps = run k cfg zero p0 steps := rfl

/-! ## 6. resuming from any checkpoint of a finished run -/

theorem finishGo_ckpts (k : Kit P S) (cfg : SmcCfg S) (st : St P S) {c : Ckpt P S}
    (hc : c ∈ (finishGo k cfg st).st.ckpts) :
    c ∈ st.ckpts ∨ c = snapshot st (some (k.sumS st.hist.ratio)) := by
  unfold finishGo at hc
  simp only [maybeCheckpoint_true] at hc
  cases he : cfg.every with
  | none => rw [he] at hc; exact .inl hc
  | some e =>
    rw [he] at hc
    simp only [List.mem_append, List.mem_singleton] at hc
    exact hc

/-- relational form of `resume_from_any_checkpoint` -/
theorem resume_rel_any (k : Kit P S) (cfg : SmcCfg S) (zero : S) (p0 : P) (steps : List (Step P))
    {r : Result P S} (hfull : run k cfg zero p0 steps = .done r)
    (hsize : ∀ n stL s' rest', cfg.nFinal = some n →
      runLoop k cfg (initSt cfg zero p0) steps = .finishedLoop stL (s' :: rest') →
      k.size s'.mutated = n)
    {c : Ckpt P S} (hc : c ∈ r.st.ckpts) :
    RunRel (run k cfg zero p0 steps) (resume k cfg c steps) := by
  have hfull' := hfull
  rw [run_eq] at hfull'
  unfold runFrom at hfull'
  simp only [if_true] at hfull'
  cases hl : runLoop k cfg (initSt cfg zero p0) steps with
  | raised e => rw [hl] at hfull'; cases hfull'
  | interrupted stj => rw [hl] at hfull'; cases hfull'
  | finishedLoop stL rest =>
    rw [hl] at hfull'
    simp only at hfull'
    cases hf : finish k cfg stL rest with
    | none => rw [hf] at hfull'; cases hfull'
    | some r0 =>
      rw [hf] at hfull'
      simp only [RunOut.done.injEq] at hfull'
      subst hfull'
      rw [finish_eq] at hf
      cases hn : needFinal k cfg stL with
      | false =>
        rw [hn] at hf
        simp only [Bool.false_eq_true, if_false, Option.some.injEq] at hf
        rw [← hf] at hc
        cases finishGo_ckpts k cfg stL hc with
        | inl h => exact resume_of_mem_loop_ckpts k cfg zero p0 steps hl h
        | inr h => rw [h]; exact resume_of_break_ckpt k cfg zero p0 steps hl _
      | true =>
        rw [hn] at hf
        cases rest with
        | nil => simp only [if_true] at hf; cases hf
        | cons s' rest' =>
          simp only [if_true, Option.some.injEq] at hf
          rw [← hf] at hc
          cases finishGo_ckpts k cfg (enlarged stL s') hc with
          | inl h => exact resume_of_mem_loop_ckpts k cfg zero p0 steps hl h
          | inr h =>
            rw [h]
            exact resume_of_final_ckpt k cfg zero p0 steps hl hn
              (fun n hnf => hsize n stL s' rest' hnf hl) _

/-- resuming a FINISHED run from any checkpoint of its log — the in-loop ones, the one taken at the
    iteration where the loop broke, and the forced final one (whose population may already be
    enlarged) — reproduces evidence, error, final population and history.  `hsize`: the enlargement
    step delivers the requested number of samples (so that it is not repeated). -/
theorem resume_from_any_checkpoint (k : Kit P S) (cfg : SmcCfg S) (zero : S) (p0 : P)
    (steps : List (Step P)) {r : Result P S} (hfull : run k cfg zero p0 steps = .done r)
    (hsize : ∀ n stL s' rest', cfg.nFinal = some n →
      runLoop k cfg (initSt cfg zero p0) steps = .finishedLoop stL (s' :: rest') →
      k.size s'.mutated = n)
    {c : Ckpt P S} (hc : c ∈ r.st.ckpts) :
    ∃ r', resume k cfg c steps = .done r' ∧ r'.logZ = r.logZ ∧ r'.logZerr = r.logZerr ∧
      r'.pop = r.pop ∧ r'.st.hist = r.st.hist ∧ r'.st.iter = r.st.iter ∧ r'.st.beta = r.st.beta := by
  obtain ⟨r', h1, h2, h3, h4, h5⟩ := (resume_rel_any k cfg zero p0 steps hfull hsize hc).done_left hfull
  exact ⟨r', h1, h3.symm, h4.symm, h2.symm, h5.2.2.2.2.1.symm, h5.2.2.1.symm, h5.2.1.symm⟩

/-! ## 7. concrete instances: non-vacuity, and the defects of the pinned tree -/

/-- a tiny schedule over `Nat`: `β' = min (β + minStep) 6`, the minimum step grows by one per
    iteration (so it is part of the state that matters), "one" is `6` -/
def kitN : Kit Nat Nat where
  nextBeta := fun _ β m => .ok (min (β + m) 6, m + 1)
  ess := fun p β b => p + β + b
  essTarget := fun p β => p + β
  effTarget := fun b => 2 * b
  ratio := fun p _ b => p + b
  var := fun p _ b => p * b
  resample := fun p _ _ => p
  isOne := fun b => b == 6
  one := 6
  size := fun p => p
  sumS := List.sum
  rootSumS := List.sum

def cfgN : SmcCfg Nat := { every := some 1, maxSteps := none, nFinal := none, minStep0 := 1 }
def cfgN2 : SmcCfg Nat := { every := some 2, maxSteps := none, nFinal := some 7, minStep0 := 1 }
def cfgCap : SmcCfg Nat := { every := some 1, maxSteps := some 2, nFinal := some 7, minStep0 := 1 }
def stepsN : List (Step Nat) := [⟨[0], 10⟩, ⟨[0], 20⟩, ⟨[0], 30⟩, ⟨[0], 7⟩, ⟨[0], 8⟩]

def stepsCap : List (Step Nat) := [⟨[0], 10⟩, ⟨[0], 20⟩, ⟨[0], 7⟩, ⟨[0], 8⟩]

def betasOf : RunOut P S → List S
  | .done r => r.st.hist.beta
  | _ => []
def popsOf : RunOut P S → List P
  | .done r => r.st.hist.pops
  | _ => []
def iterOf : RunOut P S → Nat
  | .done r => r.st.iter
  | _ => 0
def logZOf : RunOut P S → Option S
  | .done r => some r.logZ
  | _ => none
def finalPopOf : RunOut P S → Option P
  | .done r => some r.pop
  | _ => none
def logOf : RunOut P S → List (Ckpt P S)
  | .done r => r.st.ckpts
  | .interrupted cks => cks
  | .raised _ => []

/-- the uninterrupted run: three iterations `β = 1, 3, 6` -/
example : betasOf (run kitN cfgN 0 5 stepsN) = [1, 3, 6] := by decide
example : popsOf (run kitN cfgN 0 5 stepsN) = [5, 10, 20, 30] := by decide

/-- the hypotheses of `resume_eq` are met: interruption after one step inside the loop (a) … -/
example : ∃ r cks c, run kitN cfgN 0 5 stepsN = .done r ∧
    run kitN cfgN 0 5 (stepsN.take 1) = .interrupted cks ∧ cks.getLast? = some c ∧ c.iter = 1 :=
  ⟨_, _, _, rfl, rfl, rfl, rfl⟩
example : betasOf (resume kitN cfgN ((logOf (run kitN cfgN 0 5 (stepsN.take 1))).getLast?.get (by decide)) stepsN)
    = [1, 3, 6] := by decide

/-- … interruption after three steps with cadence 2: the last checkpoint is the one of iteration 2,
    iteration 3 is redone; then the enlargement to 7 samples -/
example : ∃ r cks c, run kitN cfgN2 0 5 stepsN = .done r ∧ r.pop = 7 ∧
    run kitN cfgN2 0 5 (stepsN.take 3) = .interrupted cks ∧ cks.getLast? = some c ∧ c.iter = 2 :=
  ⟨_, _, _, rfl, rfl, rfl, rfl, rfl⟩

/-- the hypotheses of `resume_from_any_checkpoint` are met by the run with enlargement: the step
    used for the enlargement delivers the 7 requested samples; its log has the in-loop checkpoint
    of iteration 2 and the forced final one (population already enlarged) -/
example : (∃ r, run kitN cfgN2 0 5 stepsN = .done r ∧ r.st.ckpts.map (·.pop) = [20, 7]) ∧
    ∀ n stL s' rest', cfgN2.nFinal = some n →
      runLoop kitN cfgN2 (initSt cfgN2 0 5) stepsN = .finishedLoop stL (s' :: rest') →
      kitN.size s'.mutated = n := by
  refine ⟨⟨_, rfl, rfl⟩, ?_⟩
  intro n stL s' rest' hn hl
  have hn' : n = 7 := by cases hn; rfl
  have hconc : ∃ st0, runLoop kitN cfgN2 (initSt cfgN2 0 5) stepsN = .finishedLoop st0 [⟨[0], 7⟩, ⟨[0], 8⟩] :=
    ⟨_, rfl⟩
  obtain ⟨st0, h0⟩ := hconc
  rw [h0] at hl
  simp only [Outcome.finishedLoop.injEq, List.cons.injEq] at hl
  rw [← hl.2.1, hn']; rfl

/-- (b) the step-cap case: the loop stops at iteration 2 with `β = 3 ≠ 6`, the interruption falls
    into the enlargement, the last checkpoint is the one of the cap iteration -/
example : ∃ r cks c, run kitN cfgCap 0 5 stepsCap = .done r ∧ r.st.hist.beta = [1, 3] ∧ r.pop = 7 ∧
    run kitN cfgCap 0 5 (stepsCap.take 2) = .interrupted cks ∧ cks.getLast? = some c ∧ c.iter = 2 ∧
    kitN.isOne c.beta = false :=
  ⟨_, _, _, rfl, rfl, rfl, rfl, rfl, rfl, rfl⟩

/-- the checkpoint written at the cap iteration of the run above -/
def capCkpt : Ckpt Nat Nat :=
  (logOf (run kitN cfgCap 0 5 (stepsCap.take 2))).getLast?.get (by decide)

example : betasOf (resume kitN cfgCap capCkpt stepsCap) = [1, 3] ∧
    iterOf (resume kitN cfgCap capCkpt stepsCap) = 2 ∧
    logZOf (resume kitN cfgCap capCkpt stepsCap) = logZOf (run kitN cfgCap 0 5 stepsCap) := by decide

/-- resume with the pinned (pre-fix) loop flag, which did not consult the step cap -/
def resumePinnedFlag (k : Kit P S) (cfg : SmcCfg S) (c : Ckpt P S) (allSteps : List (Step P)) :
    RunOut P S :=
  runFrom k cfg (resumeLoopFlagPinned k c) (restore c) (allSteps.drop c.consumed)

/-- NEGATIVE WITNESS (defect of the pinned tree, fixed): resumed from the checkpoint taken at the
    step cap, the pinned flag re-enters the loop and performs a third iteration although
    `max_n_steps = 2`: longer history, different evidence. -/
theorem pinned_flag_extra_iteration :
    betasOf (run kitN cfgCap 0 5 stepsCap) = [1, 3] ∧ iterOf (run kitN cfgCap 0 5 stepsCap) = 2 ∧
    betasOf (resumePinnedFlag kitN cfgCap capCkpt stepsCap) = [1, 3, 6] ∧
    iterOf (resumePinnedFlag kitN cfgCap capCkpt stepsCap) = 3 ∧
    logZOf (resumePinnedFlag kitN cfgCap capCkpt stepsCap) ≠ logZOf (run kitN cfgCap 0 5 stepsCap) := by
  decide

/-- resume with the pinned (pre-fix) restore -/
def resumePinned (k : Kit P S) (cfg : SmcCfg S) (c : Ckpt P S) (allSteps : List (Step P)) :
    RunOut P S :=
  runFrom k cfg (resumeLoopFlag k cfg c) (restorePinned cfg c) (allSteps.drop c.consumed)

def cfgNoHist : SmcCfg Nat :=
  { every := some 1, maxSteps := none, nFinal := none, storeHistory := false, minStep0 := 1 }

/-- the checkpoint of iteration 1 -/
def ckpt1 (cfg : SmcCfg Nat) : Option (Ckpt Nat Nat) := (logOf (run kitN cfg 0 5 (stepsN.take 1))).getLast?

/-- NEGATIVE WITNESS (two defects of the pinned tree, fixed): with the pinned restore the resumed
    run (1) follows a different temperature schedule, because the adapted minimum step was
    re-initialised (`[1, 2, 4, 6]` instead of `[1, 3, 6]`, visible even without stored populations),
    and (2) records the restored population twice in the stored populations. -/
theorem pinned_resume_differs :
    betasOf (run kitN cfgNoHist 0 5 stepsN) = [1, 3, 6] ∧
    ((ckpt1 cfgNoHist).map fun c => betasOf (resumePinned kitN cfgNoHist c stepsN)) = some [1, 2, 4, 6] ∧
    ((ckpt1 cfgNoHist).map fun c => betasOf (resume kitN cfgNoHist c stepsN)) = some [1, 3, 6] ∧
    popsOf (run kitN cfgN 0 5 stepsN) = [5, 10, 20, 30] ∧
    ((ckpt1 cfgN).map fun c => (popsOf (resumePinned kitN cfgN c stepsN)).take 3) = some [5, 10, 10] ∧
    ((ckpt1 cfgN).map fun c => popsOf (resume kitN cfgN c stepsN)) = some [5, 10, 20, 30] := by
  decide

end C11
