import AspireModel.Model.Tempering
import AspireModel.Lemmas.Real
/-
  C05 — the log-density the SMC / MCMC kernels evaluate at a point `z` of the preconditioned
  space is `(1-β) log q(x) + β (log L(x) + log π(x)) + log|det dx/dz|` (β = 1, no q term for
  plain MCMC); zero prior gives `−∞`, and SMC maps an undefined (NaN) value to `−∞`.

  Model: `Model/Tempering.lean` (`logPt`, `smcTarget`, `mcmcTarget`, `nanToNegInf`)
  = `SMCSamples.log_p_t`, `SMCSampler.log_prob`, `MCMCSampler.log_prob`.

  Two scalar instances are used:
  * `ℝ` (finite values; `isNan := fun _ => false`) for the formula;
  * `XR` = ℚ ∪ {−∞, +∞, nan} with IEEE-754 style arithmetic, defined below, for the statements
    about infinite and undefined values.
-/
namespace C05
open Model

/-! ## 1. the formula, over ℝ -/

/-- **SMC kernel target**: `(1-β) log q + β (log L + log π) + log|det dx/dz|` for every finite
    input (no value is NaN over ℝ, so the NaN map is the identity) and every `β`. -/
theorem smc_target_formula (negInf β lq ll lp j : ℝ) :
    smcTarget (fun _ => false) negInf β lq ll lp j = (1 - β) * lq + β * (ll + lp) + j := by
  simp [smcTarget, nanToNegInf, logPt]

/-- the tempered density itself (`SMCSamples.log_p_t`) -/
theorem logPt_formula (β lq ll lp : ℝ) : logPt β lq ll lp = (1 - β) * lq + β * (ll + lp) := rfl

/-- **MCMC kernel target**: `log L + log π + log|det dx/dz|` -/
theorem mcmc_target_formula (ll lp j : ℝ) : mcmcTarget ll lp j = ll + lp + j := rfl

/-- at `β = 1` the proposal term drops out: SMC's target is the MCMC target -/
theorem beta_one_drops_q (negInf lq ll lp j : ℝ) :
    smcTarget (fun _ => false) negInf 1 lq ll lp j = ll + lp + j := by
  simp [smcTarget, nanToNegInf, logPt]

theorem beta_one_eq_mcmc (negInf lq ll lp j : ℝ) :
    smcTarget (fun _ => false) negInf 1 lq ll lp j = mcmcTarget ll lp j := by
  rw [beta_one_drops_q]; rfl

/-- at `β = 1` the value does not depend on `log q` at all -/
theorem beta_one_q_irrelevant (negInf lq lq' ll lp j : ℝ) :
    smcTarget (fun _ => false) negInf 1 lq ll lp j = smcTarget (fun _ => false) negInf 1 lq' ll lp j := by
  rw [beta_one_drops_q, beta_one_drops_q]

/-- the target is the convex interpolation (in log space) between proposal and posterior:
    it equals `log q + j` at β = 0 -/
theorem beta_zero_is_q (negInf lq ll lp j : ℝ) :
    smcTarget (fun _ => false) negInf 0 lq ll lp j = lq + j := by
  simp [smcTarget, nanToNegInf, logPt]

example : smcTarget (fun _ => false) (-1000) (1/2 : ℝ) 4 (-3) (-1) 2 = 2 := by
  rw [smc_target_formula]; norm_num
example : mcmcTarget (-3 : ℝ) (-1) 2 = -2 := by rw [mcmc_target_formula]; norm_num

/-! ## 2. extended values -/

/-- ℚ ∪ {−∞, +∞, nan} with IEEE-754 style arithmetic -/
inductive XR
  | fin (r : ℚ)
  | negInf
  | posInf
  | nan
  deriving DecidableEq

namespace XR

/-- sign-directed infinity: the product of an infinity of sign `pos` with a finite `r`;
    `0 * ∞ = nan` -/
def infTimes (pos : Bool) (r : ℚ) : XR :=
  if r = 0 then nan else if (0 < r) = pos then posInf else negInf

def add : XR → XR → XR
  | nan, _ => nan
  | _, nan => nan
  | fin a, fin b => fin (a + b)
  | fin _, negInf => negInf
  | fin _, posInf => posInf
  | negInf, fin _ => negInf
  | posInf, fin _ => posInf
  | negInf, negInf => negInf
  | posInf, posInf => posInf
  | negInf, posInf => nan
  | posInf, negInf => nan

def neg : XR → XR
  | fin a => fin (-a)
  | negInf => posInf
  | posInf => negInf
  | nan => nan

def sub (a b : XR) : XR := add a (neg b)

def mul : XR → XR → XR
  | nan, _ => nan
  | _, nan => nan
  | fin a, fin b => fin (a * b)
  | fin a, posInf => infTimes true a
  | fin a, negInf => infTimes false a
  | posInf, fin a => infTimes true a
  | negInf, fin a => infTimes false a
  | posInf, posInf => posInf
  | negInf, negInf => posInf
  | posInf, negInf => negInf
  | negInf, posInf => negInf

/-- division: `a / b = a * (1/b)` with `1/±∞ = 0`, `x/0 = nan` (signed zeros are not modelled;
    never used by the targets) -/
def inv : XR → XR
  | fin a => if a = 0 then nan else fin a⁻¹
  | negInf => fin 0
  | posInf => fin 0
  | nan => nan
def div (a b : XR) : XR := mul a (inv b)

def lt : XR → XR → Prop
  | nan, _ => False
  | _, nan => False
  | fin a, fin b => a < b
  | fin _, posInf => True
  | fin _, negInf => False
  | negInf, negInf => False
  | negInf, _ => True
  | posInf, _ => False

def le : XR → XR → Prop
  | nan, _ => False
  | _, nan => False
  | fin a, fin b => a ≤ b
  | fin _, posInf => True
  | fin _, negInf => False
  | negInf, _ => True
  | posInf, posInf => True
  | posInf, _ => False

instance : Add XR := ⟨add⟩
instance : Sub XR := ⟨sub⟩
instance : Mul XR := ⟨mul⟩
instance : Div XR := ⟨div⟩
instance : Neg XR := ⟨neg⟩
instance : LT XR := ⟨lt⟩
instance : LE XR := ⟨le⟩
instance : Zero XR := ⟨fin 0⟩
instance : One XR := ⟨fin 1⟩
instance : NatCast XR := ⟨fun n => fin n⟩
/-- `exp`, `log`, `sqrt` are NOT used by `logPt`, `smcTarget`, `mcmcTarget`; they only have to
    exist to form the `Num` bundle, and are given total placeholder definitions (`nan`). -/
instance : ExpLog XR := ⟨fun _ => nan, fun _ => nan, fun _ => nan⟩
instance : Num XR := {}

instance : DecidableLT XR := fun a b => by
  cases a <;> cases b <;> simp only [LT.lt, lt] <;> infer_instance
instance : DecidableLE XR := fun a b => by
  cases a <;> cases b <;> simp only [LE.le, le] <;> infer_instance

/-- the NaN test (`xp.isnan`) -/
def isNan : XR → Bool
  | nan => true
  | _ => false

/-- "not a usable log-density": `−∞` or `nan` — in particular neither finite nor `+∞` -/
def Bad (x : XR) : Prop := x = negInf ∨ x = nan

@[simp] theorem add_def (a b : XR) : a + b = add a b := rfl
@[simp] theorem sub_def (a b : XR) : a - b = add a (neg b) := rfl
@[simp] theorem mul_def (a b : XR) : a * b = mul a b := rfl
@[simp] theorem one_def : (1 : XR) = fin 1 := rfl

/-- `−∞`/`nan` absorbs every addend on the right … -/
theorem Bad.add_right {x : XR} (h : Bad x) (y : XR) : Bad (add x y) := by
  rcases h with rfl | rfl <;> cases y <;> simp [add, Bad]
/-- … and on the left -/
theorem Bad.add_left {x : XR} (h : Bad x) (y : XR) : Bad (add y x) := by
  rcases h with rfl | rfl <;> cases y <;> simp [add, Bad]
/-- scaling `−∞`/`nan` by a strictly positive finite number keeps it `−∞`/`nan` -/
theorem Bad.pos_mul {x : XR} (h : Bad x) {b : ℚ} (hb : 0 < b) : Bad (mul (fin b) x) := by
  rcases h with rfl | rfl
  · simp [mul, infTimes, hb.ne', hb, Bad]
  · simp [mul, Bad]

theorem Bad.not_fin {x : XR} (h : Bad x) (r : ℚ) : x ≠ fin r := by
  rcases h with rfl | rfl <;> simp
theorem Bad.not_posInf {x : XR} (h : Bad x) : x ≠ posInf := by
  rcases h with rfl | rfl <;> simp

theorem nanToNegInf_bad {x : XR} (h : Bad x) : nanToNegInf isNan negInf x = negInf := by
  rcases h with rfl | rfl <;> simp [nanToNegInf, isNan]

end XR

open XR

/-! ## 3. zero prior and NaN -/

/-- the un-mapped SMC value `log_p_t(β) + j` with zero prior is `−∞` or `nan` for every kind of
    `log q`, `log L`, `j` (finite, `±∞`, `nan`) and every `β ∈ (0, 1]` -/
theorem smc_raw_zero_prior (b : ℚ) (hb : 0 < b) (lq ll j : XR) :
    Bad (logPt (fin b) lq ll negInf + j) := by
  have h1 : Bad (add ll negInf) := by cases ll <;> simp [add, Bad]
  have h2 : Bad (mul (fin b) (add ll negInf)) := h1.pos_mul hb
  simp only [logPt, add_def, mul_def]
  exact (h2.add_left _).add_right _

/-- **a point with zero prior gets log-density exactly `−∞` from the SMC kernels**, never a
    finite number (nor `+∞`, nor `nan`): for every β ∈ (0, 1] (the upper bound is not even
    needed), and every finite / infinite / undefined `log q`, `log L` and log-Jacobian. -/
theorem zero_prior_never_finite (b : ℚ) (hb : 0 < b) (_hb1 : b ≤ 1) (lq ll j : XR) :
    smcTarget isNan negInf (fin b) lq ll negInf j = negInf := by
  unfold smcTarget
  exact nanToNegInf_bad (smc_raw_zero_prior b hb lq ll j)

/-- same statement with the hypothesis on `lp` as an equation (as in the task wording) -/
theorem zero_prior_never_finite' (b : ℚ) (hb : 0 < b) (hb1 : b ≤ 1) (lq ll lp j : XR)
    (hlp : lp = negInf) : smcTarget isNan negInf (fin b) lq ll lp j = negInf := by
  subst hlp; exact zero_prior_never_finite b hb hb1 lq ll j

/-- zero *likelihood* behaves the same way (the code adds `log L + log π` first) -/
theorem zero_likelihood_never_finite (b : ℚ) (hb : 0 < b) (lq lp j : XR) :
    smcTarget isNan negInf (fin b) lq negInf lp j = negInf := by
  have h1 : Bad (add negInf lp) := by cases lp <;> simp [add, Bad]
  have h2 : Bad (mul (fin b) (add negInf lp)) := h1.pos_mul hb
  unfold smcTarget
  apply nanToNegInf_bad
  simp only [logPt, add_def, mul_def]
  exact (h2.add_left _).add_right _

/-- the positivity of β is necessary: at β = 0 (outside the property's range) a zero-prior
    point evaluates `0 * (−∞) = nan`, which the SMC map still turns into `−∞` -/
example : smcTarget isNan negInf (fin 0) (fin 3) (fin 2) negInf (fin 1) = negInf := by decide

/-- **MCMC: zero prior gives `−∞` or `nan`**, never a finite number and never `+∞`.
    (`nan` arises exactly when `log L = +∞`/`nan` or `j = +∞`/`nan`; `MCMCSampler.log_prob` has
    no NaN map, so that `nan` is handed to the kernel.) -/
theorem mcmc_zero_prior (ll lp j : XR) (hlp : lp = negInf) :
    mcmcTarget ll lp j = negInf ∨ mcmcTarget ll lp j = nan := by
  subst hlp
  have h1 : Bad (add ll negInf) := by cases ll <;> simp [add, Bad]
  exact h1.add_right j

theorem mcmc_zero_prior_not_fin (ll j : XR) (r : ℚ) : mcmcTarget ll negInf j ≠ fin r :=
  Bad.not_fin (mcmc_zero_prior ll negInf j rfl) r

theorem mcmc_zero_prior_not_posInf (ll j : XR) : mcmcTarget ll negInf j ≠ posInf :=
  Bad.not_posInf (mcmc_zero_prior ll negInf j rfl)

/-- with finite likelihood and Jacobian the MCMC value is exactly `−∞` -/
theorem mcmc_zero_prior_fin (l j : ℚ) : mcmcTarget (fin l) negInf (fin j) = negInf := rfl

/-- the `nan` case of `mcmc_zero_prior` is real: infinite likelihood at a zero-prior point -/
example : mcmcTarget posInf negInf (fin 0) = nan := by decide

/-- **SMC never hands `nan` to the kernel**: for all inputs whatsoever -/
theorem nan_to_neginf (β lq ll lp j : XR) : smcTarget isNan negInf β lq ll lp j ≠ nan := by
  unfold smcTarget nanToNegInf
  split
  · simp
  · rename_i h
    intro e; rw [e] at h; exact h rfl

/-- … and the map changes nothing else: a non-NaN raw value is returned as is -/
theorem non_nan_unchanged (β lq ll lp j : XR) (h : logPt β lq ll lp + j ≠ nan) :
    smcTarget isNan negInf β lq ll lp j = logPt β lq ll lp + j := by
  unfold smcTarget nanToNegInf
  split
  · rename_i hn
    generalize logPt β lq ll lp + j = v at *
    cases v <;> simp [isNan] at hn h
  · rfl

/-- an undefined tempered value (e.g. `log L = nan`) is mapped to `−∞` -/
theorem nan_input_gives_neginf (β lq lp j : XR) : smcTarget isNan negInf β lq nan lp j = negInf := by
  have h1 : Bad (add nan lp) := by simp [add, Bad]
  have h2 : Bad (mul β (add nan lp)) := by cases β <;> simp [add, mul, Bad]
  unfold smcTarget
  apply nanToNegInf_bad
  simp only [logPt, add_def, mul_def]
  exact (h2.add_left _).add_right _

/-- on finite inputs the extended arithmetic is the rational formula (ties section 3 to the
    formula of section 1) -/
theorem smc_target_fin (b q l p j : ℚ) :
    smcTarget isNan negInf (fin b) (fin q) (fin l) (fin p) (fin j)
      = fin ((1 - b) * q + b * (l + p) + j) := by
  simp [smcTarget, nanToNegInf, logPt, add, mul, neg, isNan, sub_eq_add_neg]

theorem mcmc_target_fin (l p j : ℚ) : mcmcTarget (fin l) (fin p) (fin j) = fin (l + p + j) := rfl

/-- β = 1 over the extended values, finite `log q`: SMC's target is the MCMC target followed by
    the NaN map — for every finite / infinite / undefined `log L`, `log π`, `j` -/
theorem beta_one_fin_q (q : ℚ) (ll lp j : XR) :
    smcTarget isNan negInf (fin 1) (fin q) ll lp j
      = nanToNegInf isNan negInf (mcmcTarget ll lp j) := by
  have h0 : ∀ x : XR, add (fin 0) x = x := by intro x; cases x <;> simp [add]
  have h1 : ∀ x : XR, mul (fin 1) x = x := by intro x; cases x <;> simp [mul, infTimes]
  simp only [smcTarget, logPt, mcmcTarget, add_def, mul_def, sub_def, one_def]
  rw [show add (fin 1) (neg (fin 1)) = fin 0 by simp [add, neg], h1]
  rw [show mul (fin 0) (fin q) = fin 0 by simp [mul], h0]

/-- β = 1, infinite `log q` (either sign): the q-term is `0 · ∞ = nan`, so the SMC target is `−∞`
    whatever the posterior density.  This is the one place where the IEEE evaluation differs
    from the formula read with the convention `0 · ∞ = 0`. -/
theorem beta_one_inf_q (lq ll lp j : XR) (h : lq = posInf ∨ lq = negInf) :
    smcTarget isNan negInf (fin 1) lq ll lp j = negInf := by
  have h1 : Bad (mul (add (fin 1) (neg (fin 1))) lq) := by
    rcases h with rfl | rfl <;> simp [add, neg, mul, infTimes, Bad]
  unfold smcTarget
  apply nanToNegInf_bad
  simp only [logPt, add_def, mul_def, sub_def, one_def]
  exact (h1.add_right _).add_right _

/-! ### non-vacuity: concrete values -/
example : smcTarget isNan negInf (fin (1/2)) (fin 4) (fin (-3)) (fin (-1)) (fin 2) = fin 2 := by
  rw [smc_target_fin]; norm_num
example : smcTarget isNan negInf (fin (1/2)) (fin 4) (fin (-3)) negInf (fin 2) = negInf :=
  zero_prior_never_finite _ (by norm_num) (by norm_num) _ _ _
example : smcTarget isNan negInf (fin (1/2)) posInf posInf negInf posInf = negInf :=
  zero_prior_never_finite _ (by norm_num) (by norm_num) _ _ _
-- the raw value in the previous example really is `nan` (so the map is what produces `−∞`)
example : logPt (fin (1/2)) posInf posInf negInf + posInf = nan := by
  norm_num [logPt, add, mul, neg, infTimes]
-- `(1-β) * (+∞)` at β = 1 is `0 * ∞ = nan`, mapped to `−∞` even with a perfectly finite posterior
example : smcTarget isNan negInf (fin 1) posInf (fin 0) (fin 0) (fin 0) = negInf := by
  norm_num [smcTarget, nanToNegInf, logPt, add, mul, neg, infTimes, isNan]
-- likewise `log q = −∞` at β = 1: `0 * (−∞) = nan ↦ −∞` although `log L + log π + j = 0` is finite
-- (the formula's q-term is `0 · (−∞)`; IEEE arithmetic does not read that as 0)
example : smcTarget isNan negInf (fin 1) negInf (fin 0) (fin 0) (fin 0) = negInf := by
  norm_num [smcTarget, nanToNegInf, logPt, add, mul, neg, infTimes, isNan]
example : mcmcTarget (fin 1) negInf (fin 2) = negInf := rfl

end C05
