import AspireModel.Props.C12
import AspireModel.Gen.SrcLoop
import AspireModel.Gen.SrcDump
/-
  C12, tie to the source: the cadence rule inside `maybe_checkpoint` of `SMCSampler.sample`
  (`should_checkpoint = force or (checkpoint_every is not None and checkpoint_every > 0 and iterations % checkpoint_every == 0)`),
  translated from `/repo/src/aspire/samplers/smc/base.py` on every run (`Gen.should_checkpoint`), is the
  condition under which the model's `maybeCheckpoint` appends a checkpoint.
  (`cfg.every = none` in the model stands for "no callback at all"; with a callback the code defaults
  `checkpoint_every` to 1 before the loop, so inside `maybe_checkpoint` it is `some e`.)
-/
namespace C12
open Model

theorem tie_should_checkpoint (force : Bool) (every : Option Nat) (it : Nat) :
    Gen.should_checkpoint force every it
      = (match every with
         | none => force
         | some e => force || (decide (0 < e) && it % e == 0)) := by
  cases every with
  | none => simp [Gen.should_checkpoint]
  | some e =>
    simp only [Gen.should_checkpoint]
    by_cases h : it % e = 0 <;> cases force <;> simp [h]

/-- the model writes a checkpoint exactly when the translated rule says so -/
theorem src_maybeCheckpoint {P S : Type} (cfg : SmcCfg S) (force : Bool) (st : St P S) (z : Option S) (e : Nat)
    (he : cfg.every = some e) :
    maybeCheckpoint cfg force st z
      = if Gen.should_checkpoint force (some e) st.iter
        then { st with ckpts := st.ckpts ++ [snapshot st z] } else st := by
  rw [tie_should_checkpoint]
  simp only [maybeCheckpoint, he]

/-- and never without a callback -/
theorem src_no_callback_no_checkpoint {P S : Type} (cfg : SmcCfg S) (force : Bool) (st : St P S) (z : Option S)
    (he : cfg.every = none) : maybeCheckpoint cfg force st z = st := by
  simp [maybeCheckpoint, he]

/-- `utils.dump_pickle_to_hdf`, translated from the source on every run in the dataset vocabulary (create if missing with the
    payload's length, else resize if the sizes differ, then write), is the model's `dumpPickle` -/
theorem tie_dump_pickle_to_hdf (blob : Bytes) (old : Option Bytes) :
    Gen.dump_pickle_to_hdf blob old = some (dumpPickle blob old) := by
  cases old with
  | none => simp [Gen.dump_pickle_to_hdf, dumpPickle]
  | some d =>
    simp only [Gen.dump_pickle_to_hdf, dumpPickle, Gen.dsLen, Option.isNone_some, Bool.false_eq_true, if_false]
    by_cases h : blob.length = d.length <;> simp [h]

/-- hence after the source's dump the dataset holds byte for byte the new payload, whatever it held before
    (longer, shorter, equal, or nothing) -/
theorem src_dump_exact (blob : Bytes) (old : Option Bytes) :
    Gen.dump_pickle_to_hdf blob old = some blob := by
  rw [tie_dump_pickle_to_hdf, dump_exact]

example : Gen.should_checkpoint false (some 3) 6 = true := by decide
example : Gen.should_checkpoint false (some 3) 7 = false := by decide
example : Gen.should_checkpoint true (some 3) 7 = true := by decide

end C12
