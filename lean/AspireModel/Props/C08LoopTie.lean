import AspireModel.Gen.SrcSmcLoop
/-
  C08 — clauses of the property read directly off the TRANSLATION of the loop of `SMCSampler.sample`
  (`Gen/SrcSmcLoop.lean`, regenerated from `/repo`'s source on every run), for every callee (`Gen.LoopOps`) and every
  option.  No model in between: these are theorems about what the source says.  Core Lean only.
-/
set_option linter.unusedSectionVars false
namespace C08
open Gen
variable {α : Type} [Num α] [DecidableLT α] [DecidableLE α] {P W C : Type}

/-- what one successful pass records: the temperature `b` returned by `determine_beta` for the population the pass started
    with, and the incremental ratio and variance of THAT population (before this pass resamples it) at `b` -/
theorem src_body_records_ratio_before_resampling (ops : LoopOps P W C α) (bs tol : α) (store cb : Bool)
    (every mx nf ns : Option Nat) (st st' : LoopSt P C α) (stop : Bool)
    (h : Gen.smc_loop_body ops bs tol store cb every mx nf ns st = .ok (st', stop)) :
    ∃ b m, ops.determine_beta st.samples st.beta bs st.min_step tol = .ok (b, m) ∧ st'.beta = b ∧
      st'.history.beta = st.history.beta ++ [b] ∧
      st'.history.log_norm_ratio = st.history.log_norm_ratio ++ [ops.log_evidence_ratio st.samples b] ∧
      st'.history.log_norm_ratio_var = st.history.log_norm_ratio_var ++ [ops.log_evidence_ratio_variance st.samples b] ∧
      st'.samples = ops.mutate (ops.resample st.samples b none) b none := by
  unfold Gen.smc_loop_body at h
  cases hb : ops.determine_beta st.samples st.beta bs st.min_step tol with
  | error e => simp [hb] at h
  | ok bm =>
    obtain ⟨b, m⟩ := bm
    simp only [hb, Except.ok.injEq, Prod.mk.injEq] at h
    obtain ⟨rfl, -⟩ := h
    refine ⟨b, m, rfl, rfl, ?_, ?_, ?_, rfl⟩ <;> cases store <;> rfl

/-- the recorded ratio does not depend on the resampling or the kernel of the same pass: two interfaces that differ only in
    `resample` and `mutate` record the same ratio, variance and temperature -/
theorem src_ratio_independent_of_resampling_noise (ops ops' : LoopOps P W C α) (bs tol : α) (store cb : Bool)
    (every mx nf ns : Option Nat) (st st1 st2 : LoopSt P C α) (s1 s2 : Bool)
    (hsame : ops'.determine_beta = ops.determine_beta ∧ ops'.log_evidence_ratio = ops.log_evidence_ratio ∧
      ops'.log_evidence_ratio_variance = ops.log_evidence_ratio_variance)
    (h1 : Gen.smc_loop_body ops bs tol store cb every mx nf ns st = .ok (st1, s1))
    (h2 : Gen.smc_loop_body ops' bs tol store cb every mx nf ns st = .ok (st2, s2)) :
    st1.history.log_norm_ratio = st2.history.log_norm_ratio ∧
    st1.history.log_norm_ratio_var = st2.history.log_norm_ratio_var ∧ st1.history.beta = st2.history.beta := by
  obtain ⟨b, m, hb, -, e1, e2, e3, -⟩ := src_body_records_ratio_before_resampling ops bs tol store cb every mx nf ns st st1 s1 h1
  obtain ⟨b', m', hb', -, f1, f2, f3, -⟩ := src_body_records_ratio_before_resampling ops' bs tol store cb every mx nf ns st st2 s2 h2
  rw [hsame.1, hb] at hb'
  simp only [Except.ok.injEq, Prod.mk.injEq] at hb'
  obtain ⟨rfl, rfl⟩ := hb'
  rw [e1, e2, e3, f1, f2, f3, hsame.2.1, hsame.2.2]
  exact ⟨rfl, rfl, rfl⟩

/-- the statements after the loop attach `sum(log_norm_ratio)` and `sqrt(sum(log_norm_ratio_var))` of the recorded series,
    and leave the history, the counter and the temperature alone — whatever `n_final_samples`, `n_final_steps`, the
    checkpoint options and the callees are: the estimate does not depend on the final-sample enlargement or on whether
    the run is checkpointed -/
theorem src_epilogue_evidence (ops : LoopOps P W C α) (bs tol : α) (store cb : Bool) (every mx nf ns : Option Nat)
    (st : LoopSt P C α) :
    (Gen.smc_epilogue ops bs tol store cb every mx nf ns st).samples_log_evidence
      = some (Gen.vsum st.history.log_norm_ratio) ∧
    (Gen.smc_epilogue ops bs tol store cb every mx nf ns st).samples_log_evidence_error
      = some (ExpLog.sqrt (Gen.vsum st.history.log_norm_ratio_var)) ∧
    (Gen.smc_epilogue ops bs tol store cb every mx nf ns st).history = st.history ∧
    (Gen.smc_epilogue ops bs tol store cb every mx nf ns st).iterations = st.iterations ∧
    (Gen.smc_epilogue ops bs tol store cb every mx nf ns st).beta = st.beta := by
  unfold Gen.smc_epilogue
  exact ⟨rfl, rfl, rfl, rfl, rfl⟩

/-- everything but the callback's log is the same with and without checkpointing: one pass -/
theorem src_body_checkpoint_independent (ops : LoopOps P W C α) (bs tol : α) (store cb cb' : Bool)
    (every every' mx nf ns : Option Nat) (st : LoopSt P C α) :
    (Gen.smc_loop_body ops bs tol store cb every mx nf ns st).map
        (fun r => (({ r.1 with callback_log := [] } : LoopSt P C α), r.2)) =
    (Gen.smc_loop_body ops bs tol store cb' every' mx nf ns st).map
        (fun r => (({ r.1 with callback_log := [] } : LoopSt P C α), r.2)) := by
  unfold Gen.smc_loop_body
  cases hb : ops.determine_beta st.samples st.beta bs st.min_step tol with
  | error e => simp only [hb, Except.map]
  | ok bm => simp only [hb, Except.map]

end C08
