import AspireModel.Model.Rows
/-
  C16 — slicing, concatenating, pickling and dict-converting samples keep rows aligned.
  Model: `Model/Rows.lean`.  Core Lean only.  Values are abstract (`X`, `V` arbitrary types),
  so every statement holds for every namespace / dtype / dimension.
-/
namespace C16
open Model
variable {X V : Type}

/-! ### gather -/

theorem pick_length {A : Type} (idxs : List Nat) (col : List A) (h : ∀ i ∈ idxs, i < col.length) :
    (pick idxs col).length = idxs.length := by
  induction idxs with
  | nil => simp [pick]
  | cons i is ih =>
    have hi : i < col.length := h i List.mem_cons_self
    have := ih (fun j hj => h j (List.mem_cons_of_mem _ hj))
    simp only [pick, List.filterMap_cons, List.getElem?_eq_getElem hi, List.length_cons] at *
    omega

/-- the `j`-th gathered entry is the entry at the `j`-th requested index -/
theorem pick_get {A : Type} (idxs : List Nat) (col : List A) (h : ∀ i ∈ idxs, i < col.length)
    (j : Nat) (hj : j < idxs.length) : (pick idxs col)[j]? = col[idxs[j]]? := by
  induction idxs generalizing j with
  | nil => simp at hj
  | cons i is ih =>
    have hi : i < col.length := h i List.mem_cons_self
    simp only [pick, List.filterMap_cons, List.getElem?_eq_getElem hi]
    cases j with
    | zero => simp [List.getElem?_eq_getElem hi]
    | succ k =>
      simp only [List.getElem?_cons_succ, List.getElem_cons_succ]
      exact ih (fun j hj => h j (List.mem_cons_of_mem _ hj)) k (by simpa using hj)

theorem pick_append {A : Type} (s1 s2 : List Nat) (col : List A) :
    pick (s1 ++ s2) col = pick s1 col ++ pick s2 col := by
  simp [pick, List.filterMap_append]

theorem pick_range' {A : Type} (col : List A) (a k : Nat) (h : a + k ≤ col.length) :
    pick (List.range' a k) col = (col.drop a).take k := by
  induction k generalizing a with
  | zero => simp [pick]
  | succ k ih =>
    have ha : a < col.length := by omega
    simp only [List.range'_succ, pick, List.filterMap_cons, List.getElem?_eq_getElem ha]
    have := ih (a + 1) (by omega)
    simp only [pick] at this
    rw [this, List.drop_eq_getElem_cons ha, List.take_succ_cons]

theorem pick_range_all {A : Type} (col : List A) : pick (List.range col.length) col = col := by
  have := pick_range' col 0 col.length (by omega)
  simpa [List.range_eq_range'] using this

/-! ### selection keeps rows aligned -/

/-- the constructor hook only fills derived fields: it never touches coordinates or the
    three log-density columns (true of `Samples.__post_init__` / `compute_weights`) -/
def EvOK (evFn : SampleSet X V → SampleSet X V) : Prop :=
  ∀ T, (evFn T).x = T.x ∧ (evFn T).ll = T.ll ∧ (evFn T).lp = T.lp ∧ (evFn T).lq = T.lq ∧ (evFn T).cls = T.cls

theorem select_core (essFn : List V → V) (evFn : SampleSet X V → SampleSet X V) (hev : EvOK evFn)
    (sel : List Nat) (S : SampleSet X V) :
    (select essFn evFn sel S).x = pick sel S.x ∧ (select essFn evFn sel S).ll = pickO sel S.ll ∧
    (select essFn evFn sel S).lp = pickO sel S.lp ∧ (select essFn evFn sel S).lq = pickO sel S.lq ∧
    (select essFn evFn sel S).cls = S.cls := by
  have hE := hev (selBase sel S)
  unfold select
  cases hc : S.cls
  · simp [selBase, hc]
  · simp only [selBase, hc] at hE
    obtain ⟨h1, h2, h3, h4, h5⟩ := hE
    cases hw : S.logW <;> simp [h1, h2, h3, h4, h5, selBase, hc]
  · simp [selBase, hc]

theorem colAt_pickO (sel : List Nat) (c : Option (List V)) (n : Nat) (hc : colOK n c)
    (hsel : ∀ i ∈ sel, i < n) (j : Nat) (hj : j < sel.length) :
    colAt (pickO sel c) j = colAt c sel[j] := by
  cases c with
  | none => rfl
  | some l =>
    have hl : l.length = n := hc l rfl
    simp only [pickO, Option.map_some, colAt, Option.bind_some]
    exact pick_get sel l (by intro i hi; rw [hl]; exact hsel i hi) j hj

/-- **selection returns the same selection of every per-sample field, weights included**:
    row `j` of `S[sel]` is row `sel[j]` of `S`, for every class, every selector
    (index array, slice, mask — all reduce to an index list) and every field subset. -/
theorem select_refines (essFn : List V → V) (evFn : SampleSet X V → SampleSet X V) (hev : EvOK evFn)
    (sel : List Nat) (S : SampleSet X V) (hwf : WF S) (hsel : ∀ i ∈ sel, i < S.x.length)
    (hweighted : S.cls = .samples → S.logW.isSome)
    (hbase : S.cls ≠ .samples → S.logW = none ∧ S.weights = none)
    (j : Nat) (hj : j < sel.length) :
    rowAt (select essFn evFn sel S) j = rowAt S sel[j] := by
  obtain ⟨hx, hll, hlp, hlq, _⟩ := select_core essFn evFn hev sel S
  obtain ⟨w1, w2, w3, w4, w5⟩ := hwf
  have hxj : (pick sel S.x)[j]? = S.x[sel[j]]? := pick_get sel S.x hsel j hj
  have hW : colAt (select essFn evFn sel S).logW j = colAt S.logW sel[j] ∧
      colAt (select essFn evFn sel S).weights j = colAt S.weights sel[j] := by
    unfold select
    cases hc : S.cls
    · obtain ⟨a, b⟩ := hbase (by simp [hc]); simp [a, b, colAt, selBase]
    · have := hweighted hc
      cases hw : S.logW with
      | none => simp [hw] at this
      | some lw =>
        simp only
        refine ⟨?_, colAt_pickO sel S.weights _ w5 hsel j hj⟩
        have := colAt_pickO sel (some lw) _ (hw ▸ w4) hsel j hj
        simpa [pickO] using this
    · obtain ⟨a, b⟩ := hbase (by simp [hc]); simp [a, b, colAt, selBase]
  simp only [rowAt, hx, hll, hlp, hlq, hxj, hW.1, hW.2,
    colAt_pickO sel S.ll _ w1 hsel j hj, colAt_pickO sel S.lp _ w2 hsel j hj,
    colAt_pickO sel S.lq _ w3 hsel j hj]

theorem select_size (essFn : List V → V) (evFn : SampleSet X V → SampleSet X V) (hev : EvOK evFn)
    (sel : List Nat) (S : SampleSet X V) (hsel : ∀ i ∈ sel, i < S.x.length) :
    (select essFn evFn sel S).x.length = sel.length := by
  rw [(select_core essFn evFn hev sel S).1]; exact pick_length sel S.x hsel

/-- **evidence attached to a set is carried, not recomputed, by selection** (and the
    temperature of an SMC population likewise); the ESS is that of the selected weights -/
theorem select_carries (essFn : List V → V) (evFn : SampleSet X V → SampleSet X V)
    (sel : List Nat) (S : SampleSet X V) (h : S.cls ≠ .base) :
    (select essFn evFn sel S).logZ = S.logZ ∧ (select essFn evFn sel S).logZerr = S.logZerr ∧
    (S.cls = .smc → (select essFn evFn sel S).beta = S.beta) ∧
    (∀ lw, S.cls = .samples → S.logW = some lw →
      (select essFn evFn sel S).evidence = S.evidence ∧
      (select essFn evFn sel S).evidenceErr = S.evidenceErr ∧
      (select essFn evFn sel S).ess = some (essFn (pick sel lw))) := by
  unfold select
  cases hc : S.cls
  · exact absurd hc h
  · cases hw : S.logW <;> simp
  · simp

/-! ### selectors reduce to index lists -/

theorem sliceIdxs_eq (a b fuel : Nat) (hf : b - a ≤ fuel) :
    sliceIdxs a b 1 fuel = List.range' a (b - a) := by
  induction fuel generalizing a with
  | zero =>
    have : b - a = 0 := by omega
    simp [sliceIdxs, this]
  | succ f ih =>
    simp only [sliceIdxs]
    split
    · rename_i hlt
      rw [ih (a + 1) (by omega)]
      have : b - a = (b - (a + 1)) + 1 := by omega
      rw [this, List.range'_succ]
    · have : b - a = 0 := by omega
      simp [this]

theorem maskIdxs_mem (m : List Bool) (off : Nat) : ∀ i ∈ maskIdxs m off, off ≤ i ∧ i < off + m.length := by
  induction m generalizing off with
  | nil => simp [maskIdxs]
  | cons b bs ih =>
    intro i hi
    simp only [maskIdxs] at hi
    split at hi
    · rcases List.mem_cons.mp hi with rfl | h
      · simp
      · have := ih (off + 1) i h; simp only [List.length_cons]; omega
    · have := ih (off + 1) i hi; simp only [List.length_cons]; omega

/-- a mask selects exactly the rows where it is true -/
theorem maskIdxs_iff (m : List Bool) (off i : Nat) :
    i ∈ maskIdxs m off ↔ ∃ k, i = off + k ∧ m[k]? = some true := by
  induction m generalizing off with
  | nil => simp [maskIdxs]
  | cons b bs ih =>
    simp only [maskIdxs]
    constructor
    · intro hi
      split at hi
      · rename_i hb
        rcases List.mem_cons.mp hi with rfl | h
        · exact ⟨0, by simp, by simp [hb]⟩
        · obtain ⟨k, hk, hm⟩ := (ih (off + 1)).mp h
          exact ⟨k + 1, by omega, by simpa using hm⟩
      · obtain ⟨k, hk, hm⟩ := (ih (off + 1)).mp hi
        exact ⟨k + 1, by omega, by simpa using hm⟩
    · rintro ⟨k, hk, hm⟩
      cases k with
      | zero =>
        have hb : b = true := by simpa using hm
        simp [hb, hk]
      | succ k =>
        have : i ∈ maskIdxs bs (off + 1) := (ih (off + 1)).mpr ⟨k, by omega, by simpa using hm⟩
        split
        · exact List.mem_cons_of_mem _ this
        · exact this

/-! ### partitions are restored by concatenation -/

theorem concat_x (cls : Cls) (evFn : SampleSet X V → SampleSet X V) (hev : EvOK evFn)
    (parts : List (SampleSet X V)) : (concat cls evFn parts).x = (parts.map (·.x)).flatten := by
  unfold concat
  cases cls
  · simp [catBase]
  · simpa [catBase] using (hev (catBase .samples parts)).1
  · simp [catBase]

/-- the three contiguous slices `[0,a) [a,b) [b,n)` concatenate back to the original column -/
theorem cat3_restores {A : Type} (col : List A) (a b : Nat) (hab : a ≤ b) (hbn : b ≤ col.length) :
    pick (Sel.slice 0 a 1).toIdxs col ++ pick (Sel.slice a b 1).toIdxs col
      ++ pick (Sel.slice b col.length 1).toIdxs col = col := by
  simp only [Sel.toIdxs, if_neg (by decide : ¬ (1 = 0))]
  rw [sliceIdxs_eq 0 a a (by omega), sliceIdxs_eq a b b (by omega),
    sliceIdxs_eq b col.length col.length (by omega)]
  rw [← pick_append, ← pick_append]
  have : List.range' 0 (a - 0) ++ List.range' a (b - a) ++ List.range' b (col.length - b)
      = List.range col.length := by
    rw [List.range_eq_range']
    have e1 : List.range' 0 (a - 0) ++ List.range' a (b - a) = List.range' 0 b := by
      have := List.range'_append (s := 0) (m := a) (n := b - a) (step := 1)
      simp only [Nat.sub_zero, Nat.one_mul, Nat.zero_add] at this ⊢
      rw [this]; congr 1; omega
    rw [e1]
    have := List.range'_append (s := 0) (m := b) (n := col.length - b) (step := 1)
    simp only [Nat.one_mul, Nat.zero_add] at this
    rw [this]; congr 1; omega
  rw [this, pick_range_all]

/-- any split of `0..n-1` into consecutive index lists is restored (general form) -/
theorem partition_restores {A : Type} (col : List A) (s1 s2 : List Nat)
    (h : s1 ++ s2 = List.range col.length) : pick s1 col ++ pick s2 col = col := by
  rw [← pick_append, h, pick_range_all]

/-- what concatenation does **not** restore on the current tree (known finding
    C16-smc-concatenate-drops-beta): the temperature of SMC pieces is dropped -/
theorem smc_concat_beta_none (evFn : SampleSet X V → SampleSet X V) (parts : List (SampleSet X V)) :
    (concat .smc evFn parts).beta = none ∧ (concat .smc evFn parts).logZ = none := by
  simp [concat, catBase]

/-! ### pickling and dict conversion -/

theorem pickle_id (S : SampleSet X V) : pickleRoundTrip S = S := rfl

theorem dict_id_base (evFn : SampleSet X V → SampleSet X V) (S : SampleSet X V) (hc : S.cls = .base)
    (hd : S.logW = none ∧ S.weights = none ∧ S.logZ = none ∧ S.logZerr = none ∧ S.evidence = none ∧
      S.evidenceErr = none ∧ S.ess = none ∧ S.beta = none) : dictRoundTrip evFn S = S := by
  obtain ⟨h1, h2, h3, h4, h5, h6, h7, h8⟩ := hd
  cases S; simp_all [dictRoundTrip, coreOf]

theorem dict_id_smc (evFn : SampleSet X V → SampleSet X V) (S : SampleSet X V) (hc : S.cls = .smc)
    (hd : S.logW = none ∧ S.weights = none ∧ S.evidence = none ∧ S.evidenceErr = none ∧ S.ess = none) :
    dictRoundTrip evFn S = S := by
  obtain ⟨h1, h2, h5, h6, h7⟩ := hd
  cases S; simp_all [dictRoundTrip, coreOf]

/-- a `Samples` set as its constructor left it (all three log-densities present) -/
def Fresh (evFn : SampleSet X V → SampleSet X V) (S : SampleSet X V) : Prop :=
  S.cls = .samples ∧ S.ll.isSome ∧ S.lp.isSome ∧ S.lq.isSome ∧
  S = evFn (coreOf S)

theorem dict_id_samples (evFn : SampleSet X V → SampleSet X V) (S : SampleSet X V) (h : Fresh evFn S) :
    dictRoundTrip evFn S = S := by
  obtain ⟨hc, h1, h2, h3, he⟩ := h
  unfold dictRoundTrip
  simp only [hc]
  cases hl : S.ll with
  | none => simp [hl] at h1
  | some a =>
    cases hp : S.lp with
    | none => simp [hp] at h2
    | some b =>
      cases hq : S.lq with
      | none => simp [hq] at h3
      | some c => simp only; exact he.symm

/-- known finding C16-constructor-recomputes-carried-evidence, as a theorem about the model:
    a set whose evidence differs from what the constructor computes from its rows (i.e. carried
    by a selection) is *not* a fixed point of the dict round trip -/
theorem dict_not_id_carried :
    ∃ (evFn : SampleSet Nat Nat → SampleSet Nat Nat) (S : SampleSet Nat Nat),
      EvOK evFn ∧ S.cls = .samples ∧ dictRoundTrip evFn S ≠ S := by
  refine ⟨fun T => { T with logZ := some T.x.length }, 
    { cls := .samples, x := [1], ll := some [0], lp := some [0], lq := some [0], logZ := some 7 }, ?_, rfl, ?_⟩
  · intro T; simp
  · simp [dictRoundTrip, coreOf]

/-! ### non-vacuity -/
def exS : SampleSet Nat Nat :=
  { cls := .samples, x := [10, 20, 30], ll := some [1, 2, 3], lp := some [4, 5, 6], lq := some [7, 8, 9],
    logW := some [0, 0, 0], weights := some [1, 1, 1] }
example : WF exS := by simp [WF, colOK, exS]
example : (rowAt (select (fun _ => 0) id [2, 0] exS) 0).map (·.ll) = (rowAt exS 2).map (·.ll) := by
  simp [rowAt, select, selBase, exS, pick, pickO, colAt]

end C16
