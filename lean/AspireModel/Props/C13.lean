import AspireModel.Model.Codec
import Mathlib.Data.List.Perm.Subperm
/-
  C13 — anything saved to HDF5 reloads to an observationally equal object.
  Model: `Model/Codec.lean` (`encode_for_hdf5`/`decode_from_hdf5`, `recursively_save_to_h5_file`,
  `load_from_h5_file`, `Aspire.config_dict` → `_build_aspire_from_file`).

  Main statements
  * `decode_encode_leaf` (+ `_iff`), `sentinel_collision_none/empty` : leaves round-trip iff they are not sentinel strings.
  * `splitKey_joinKey`, `splitKey_joinKey_nil`, `splitKey_dotted`, `splitKey_foldl_joinKey` : dotted keys split back.
  * `flatten_paths`, `saveDict_eq`, `saveDict_keys`, `saveDict_keys_nodup` : one dataset per root-to-leaf path,
    named by the dotted path, no name collision.
  * `loadDict_saveDict` (exact, in write order), `codec_roundtrip`, `codec_roundtrip_perm` (+ `_symm`) (any listing
    order of the datasets) : the reloaded dictionary is `Val.eqv` to the saved one.
  * `eqv_refl`, `eqv_symm`, `eqv_trans` : `Val.eqv` is an equivalence on trees with distinct keys.
  * `config_roundtrip_direct`, `config_roundtrip`, `config_roundtrip_perm` : the rebuilt instance has the same settings.
  * `dotted_key_not_roundtrip`, `empty_key_not_roundtrip`, `sentinel_value_not_roundtrip` : what `wf` excludes.
-/
namespace C13
open Model

/-! ### 1. leaves: `decode_from_hdf5 ∘ encode_for_hdf5` -/

/-- the leaf is not a string equal to one of the two sentinels -/
def Leaf.ok : Leaf → Bool
  | .str s => s ≠ noneSentinel && s ≠ emptyDictSentinel
  | _ => true

theorem wf_leaf (l : Leaf) : (Val.leaf l).wf = Leaf.ok l := by
  cases l <;> simp [Val.wf, Leaf.ok]

theorem sentinels_ne : noneSentinel ≠ emptyDictSentinel := by decide

theorem decode_encode_leaf (l : Leaf) (h : Leaf.ok l = true) : decodeH (encodeLeaf l) = l := by
  cases l with
  | str s =>
    simp only [Leaf.ok, Bool.and_eq_true, decide_eq_true_eq] at h
    simp [encodeLeaf, decodeH, h.1, h.2]
  | emptyDict => simp [encodeLeaf, decodeH, sentinels_ne.symm]
  | _ => simp [encodeLeaf, decodeH]

/-- same statement with the hypothesis spelled out -/
theorem decode_encode_leaf' (l : Leaf) (h1 : l ≠ .str noneSentinel) (h2 : l ≠ .str emptyDictSentinel) :
    decodeH (encodeLeaf l) = l := by
  apply decode_encode_leaf
  cases l with
  | str s =>
    have a : s ≠ noneSentinel := fun e => h1 (by rw [e])
    have b : s ≠ emptyDictSentinel := fun e => h2 (by rw [e])
    simp [Leaf.ok, a, b]
  | _ => rfl

/-- the string `"__none__"` comes back as `None` -/
theorem sentinel_collision_none : decodeH (encodeLeaf (.str noneSentinel)) = .none := by
  simp [encodeLeaf, decodeH]

/-- the string `"__empty_dict__"` comes back as `{}` -/
theorem sentinel_collision_empty : decodeH (encodeLeaf (.str emptyDictSentinel)) = .emptyDict := by
  simp [encodeLeaf, decodeH, sentinels_ne.symm]

theorem sentinel_not_roundtrip :
    decodeH (encodeLeaf (.str noneSentinel)) ≠ .str noneSentinel ∧
    decodeH (encodeLeaf (.str emptyDictSentinel)) ≠ .str emptyDictSentinel := by
  rw [sentinel_collision_none, sentinel_collision_empty]; exact ⟨by simp, by simp⟩

/-- exact characterisation: a leaf round-trips iff it is not a sentinel string -/
theorem decode_encode_leaf_iff (l : Leaf) : decodeH (encodeLeaf l) = l ↔ Leaf.ok l = true := by
  constructor
  · intro h
    cases l with
    | str s =>
      simp only [Leaf.ok, Bool.and_eq_true, decide_eq_true_eq]
      constructor
      · intro e; subst e; rw [sentinel_collision_none] at h; simp at h
      · intro e; subst e; rw [sentinel_collision_empty] at h; simp at h
    | _ => rfl
  · exact decode_encode_leaf l

/-! ### 2. keys: `f"{prefix}.{key}"` and `key.split(".")` -/

/-- the dotted join of a list of segments -/
def dotted (p : List Str) : Str := ['.'].intercalate p

@[simp] theorem dotted_nil : dotted [] = [] := rfl
@[simp] theorem dotted_singleton (k : Str) : dotted [k] = k := by simp [dotted]
theorem dotted_cons_cons (a b : Str) (r : List Str) : dotted (a :: b :: r) = a ++ '.' :: dotted (b :: r) := by
  simp [dotted, List.intercalate_cons_cons]

theorem dotted_append_singleton (p : List Str) (k : Str) (hp : p ≠ []) :
    dotted (p ++ [k]) = dotted p ++ '.' :: k := by
  induction p with
  | nil => exact absurd rfl hp
  | cons a r ih =>
    cases r with
    | nil => simp [dotted_cons_cons]
    | cons b r =>
      have := ih (by simp)
      simp only [List.cons_append] at this ⊢
      rw [dotted_cons_cons, this, dotted_cons_cons]; simp

theorem dotted_eq_nil (p : List Str) (h : ∀ s ∈ p, s ≠ []) : dotted p = [] ↔ p = [] := by
  constructor
  · intro e
    cases p with
    | nil => rfl
    | cons a r =>
      exfalso
      have ha : a ≠ [] := h a (by simp)
      cases r with
      | nil => exact ha (by simpa using e)
      | cons b r => rw [dotted_cons_cons] at e; simp at e
  · intro e; subst e; rfl

/-- `"a.b.c".split(".") == ["a","b","c"]` for dot-free segments -/
theorem splitKey_dotted (p : List Str) (hp : p ≠ []) (h : ∀ s ∈ p, '.' ∉ s) : splitKey (dotted p) = p :=
  List.splitOn_intercalate '.' h hp

theorem splitKey_of_not_mem (k : Str) (h : '.' ∉ k) : splitKey k = [k] :=
  List.splitOn_eq_singleton h

/-- joining a dot-free key under a non-empty prefix adds exactly one segment -/
theorem splitKey_joinKey (pre k : Str) (hpre : pre ≠ []) (hk : '.' ∉ k) :
    splitKey (joinKey pre k) = splitKey pre ++ [k] := by
  simp only [joinKey, hpre, if_false, splitKey, List.append_assoc, List.singleton_append]
  rw [List.splitOn_append_cons_self, List.splitOn_eq_singleton hk]

theorem splitKey_joinKey_nil (k : Str) (hk : '.' ∉ k) : splitKey (joinKey [] k) = [k] := by
  simp [joinKey, splitKey_of_not_mem k hk]

/-- the key built by `_save_flattened` under a prefix that is itself a dotted path -/
theorem joinKey_dotted (p : List Str) (k : Str) (h : ∀ s ∈ p, s ≠ []) :
    joinKey (dotted p) k = dotted (p ++ [k]) := by
  by_cases hp : p = []
  · subst hp; simp [joinKey]
  · have : dotted p ≠ [] := fun e => hp ((dotted_eq_nil p h).1 e)
    simp [joinKey, this, dotted_append_singleton p k hp]

theorem foldl_joinKey_dotted (p q : List Str) (hp : ∀ s ∈ p, s ≠ []) (hq : ∀ s ∈ q, s ≠ []) :
    q.foldl joinKey (dotted p) = dotted (p ++ q) := by
  induction q generalizing p with
  | nil => simp
  | cons k r ih =>
    simp only [List.foldl_cons]
    rw [joinKey_dotted p k hp, ih (p ++ [k])]
    · simp
    · intro s hs; simp at hs; rcases hs with hs | hs
      · exact hp s hs
      · subst hs; exact hq _ (by simp)
    · intro s hs; exact hq s (by simp [hs])

/-- nested `joinKey`s from the root, then `split`: the segments come back -/
theorem splitKey_foldl_joinKey (q : List Str) (hq : q ≠ []) (h1 : ∀ s ∈ q, s ≠ []) (h2 : ∀ s ∈ q, '.' ∉ s) :
    splitKey (q.foldl joinKey []) = q := by
  have := foldl_joinKey_dotted [] q (by simp) h1
  simp only [dotted_nil, List.nil_append] at this
  rw [this, splitKey_dotted q hq h2]

/-! ### 7. what well-formedness excludes -/

/-- a key containing '.' is split into a nested dictionary on reload: `{"a.b": 1}` comes back as `{"a": {"b": 1}}` -/
theorem dotted_key_not_roundtrip :
    loadDict (saveDict [("a.b".toList, .leaf (.int 1))]) = [("a".toList, .dict [("b".toList, .leaf (.int 1))])] ∧
    Val.eqv (.dict (loadDict (saveDict [("a.b".toList, .leaf (.int 1))]))) (.dict [("a.b".toList, .leaf (.int 1))]) = false :=
  ⟨rfl, rfl⟩

/-! ### induction principle for value trees -/

mutual
theorem val_ind_v {P : Val → Prop} {Q : List (Str × Val) → Prop}
    (hleaf : ∀ l, P (.leaf l)) (hdict : ∀ es, Q es → P (.dict es))
    (hnil : Q []) (hcons : ∀ k v rest, P v → Q rest → Q ((k, v) :: rest)) : ∀ v, P v
  | .leaf l => hleaf l
  | .dict es => hdict es (val_ind_e hleaf hdict hnil hcons es)
theorem val_ind_e {P : Val → Prop} {Q : List (Str × Val) → Prop}
    (hleaf : ∀ l, P (.leaf l)) (hdict : ∀ es, Q es → P (.dict es))
    (hnil : Q []) (hcons : ∀ k v rest, P v → Q rest → Q ((k, v) :: rest)) : ∀ es, Q es
  | [] => hnil
  | (k, v) :: rest => hcons k v rest (val_ind_v hleaf hdict hnil hcons v) (val_ind_e hleaf hdict hnil hcons rest)
end

/-- simultaneous induction on values and dictionary bodies -/
theorem val_ind {P : Val → Prop} {Q : List (Str × Val) → Prop}
    (hleaf : ∀ l, P (.leaf l)) (hdict : ∀ es, Q es → P (.dict es))
    (hnil : Q []) (hcons : ∀ k v rest, P v → Q rest → Q ((k, v) :: rest)) : (∀ v, P v) ∧ (∀ es, Q es) :=
  ⟨val_ind_v hleaf hdict hnil hcons, val_ind_e hleaf hdict hnil hcons⟩

/-! ### 3. the datasets written by `_save_flattened`: one per root-to-leaf path -/

/-- a leaf with the list of keys leading to it -/
abbrev PL := List Str × Leaf

mutual
/-- root-to-leaf paths of a dictionary body, in order -/
def flatP : List (Str × Val) → List PL
  | [] => []
  | (k, v) :: rest => (leavesV v).map (fun pl => (k :: pl.1, pl.2)) ++ flatP rest
/-- root-to-leaf paths of a value (`[]` for a leaf) -/
def leavesV : Val → List PL
  | .leaf l => [([], l)]
  | .dict es => flatP es
end

/-- the dataset stored for a path below the key `key` -/
def dataset (key : Str) (pl : PL) : Str × H := (pl.1.foldl joinKey key, encodeLeaf pl.2)

/-- `flattenVal key v` is the list of `(joinKey … (joinKey key k₁) … kₙ, encode leaf)` over the leaves of `v`, in
    order (no well-formedness needed) -/
theorem flatten_paths : (∀ v key, flattenVal key v = (leavesV v).map (dataset key)) ∧
    (∀ es pre, flattenEntries pre es = (flatP es).map (dataset pre)) := by
  apply val_ind
  · intro l key; simp [flattenVal, leavesV, dataset]
  · intro es ih key; simpa [flattenVal, leavesV] using ih key
  · intro pre; simp [flattenEntries, flatP]
  · intro k v rest ihv ihr pre
    simp [flattenEntries, flatP, ihv, ihr, dataset, Function.comp_def]

theorem saveDict_eq (es : List (Str × Val)) : saveDict es = (flatP es).map (dataset []) :=
  flatten_paths.2 es []

/-! ### well-formedness, unfolded -/

theorem entriesWf_cons (k : Str) (v : Val) (rest : List (Str × Val)) :
    entriesWf ((k, v) :: rest) = true ↔
      k ≠ [] ∧ '.' ∉ k ∧ v.wf = true ∧ (∀ e ∈ rest, e.1 ≠ k) ∧ entriesWf rest = true := by
  simp [entriesWf, and_assoc]

theorem wf_dict (es : List (Str × Val)) : (Val.dict es).wf = true ↔ es ≠ [] ∧ entriesWf es = true := by
  simp [Val.wf]

/-- the paths of a well-formed dictionary: non-empty, made of non-empty dot-free segments, ending in a leaf that
    is not a sentinel string -/
def PL.ok (pl : PL) : Prop := pl.1 ≠ [] ∧ (∀ s ∈ pl.1, s ≠ [] ∧ '.' ∉ s) ∧ Leaf.ok pl.2 = true

theorem leaves_ok :
    (∀ v, v.wf = true → ∀ pl ∈ leavesV v, (∀ s ∈ pl.1, s ≠ [] ∧ '.' ∉ s) ∧ Leaf.ok pl.2 = true) ∧
    (∀ es, entriesWf es = true → ∀ pl ∈ flatP es, PL.ok pl) := by
  apply val_ind
  · intro l h pl hpl
    simp only [leavesV, List.mem_singleton] at hpl
    subst hpl
    rw [wf_leaf] at h
    simp [h]
  · intro es ih h pl hpl
    have := ih ((wf_dict es).1 h).2 pl hpl
    exact this.2
  · intro _ pl hpl; simp [flatP] at hpl
  · intro k v rest ihv ihr h pl hpl
    rw [entriesWf_cons] at h
    obtain ⟨hk1, hk2, hv, _, hr⟩ := h
    simp only [flatP, List.mem_append, List.mem_map] at hpl
    rcases hpl with ⟨q, hq, rfl⟩ | hpl
    · have := ihv hv q hq
      refine ⟨by simp, ?_, this.2⟩
      intro s hs
      simp only [List.mem_cons] at hs
      rcases hs with rfl | hs
      · exact ⟨hk1, hk2⟩
      · exact this.1 s hs
    · exact ihr hr pl hpl

theorem leaves_ne_nil :
    (∀ v, v.wf = true → leavesV v ≠ []) ∧ (∀ es, entriesWf es = true → es ≠ [] → flatP es ≠ []) := by
  apply val_ind
  · intro l _; simp [leavesV]
  · intro es ih h
    have := (wf_dict es).1 h
    simpa [leavesV] using ih this.2 this.1
  · intro _ h; exact absurd rfl h
  · intro k v rest ihv _ h _
    rw [entriesWf_cons] at h
    have := ihv h.2.2.1
    simp [flatP, this]

/-! ### 4. the round trip through the file -/

/-- one step of `load_from_h5_file` on an already split key and decoded value -/
def ins (acc : List (Str × Val)) (pl : PL) : List (Str × Val) := insertPath pl.1 pl.2 acc

/-- `load_from_h5_file` on split keys / decoded values -/
def loadP (ds : List PL) : List (Str × Val) := ds.foldl ins []

/-- what `load_from_h5_file` sees of a dataset: `key.split(".")` and the decoded value -/
def readDs (kh : Str × H) : PL := (splitKey kh.1, decodeH kh.2)

theorem loadDict_eq_loadP (ds : List (Str × H)) : loadDict ds = loadP (ds.map readDs) := by
  simp [loadDict, loadP, List.foldl_map, ins, readDs]

theorem readDs_dataset (pl : PL) (h : PL.ok pl) : readDs (dataset [] pl) = pl := by
  obtain ⟨h1, h2, h3⟩ := h
  simp only [readDs, dataset]
  rw [splitKey_foldl_joinKey pl.1 h1 (fun s hs => (h2 s hs).1) (fun s hs => (h2 s hs).2), decode_encode_leaf _ h3]

/-- reading back the datasets of a well-formed dictionary gives its root-to-leaf paths and leaves -/
theorem read_saveDict (es : List (Str × Val)) (h : entriesWf es = true) : (saveDict es).map readDs = flatP es := by
  rw [saveDict_eq, List.map_map]
  conv => rhs; rw [← List.map_id (flatP es)]
  apply List.map_congr_left
  intro pl hpl
  exact readDs_dataset pl (leaves_ok.2 es h pl hpl)

theorem insertPath_single (k : Str) (l : Leaf) (es : List (Str × Val)) :
    insertPath [k] l es = es.filter (·.1 ≠ k) ++ [(k, .leaf l)] := rfl

theorem insertPath_cons2 (k : Str) (ks : List Str) (hks : ks ≠ []) (l : Leaf) (es : List (Str × Val)) :
    insertPath (k :: ks) l es =
      match es.find? (·.1 = k) with
      | some (_, .dict sub) => es.map fun e => if e.1 = k then (k, .dict (insertPath ks l sub)) else e
      | _ => (es.filter (·.1 ≠ k)) ++ [(k, .dict (insertPath ks l []))] := by
  cases ks with
  | nil => exact absurd rfl hks
  | cons a r => rfl

theorem filter_ne_self (acc : List (Str × Val)) (k : Str) (h : ∀ a ∈ acc, a.1 ≠ k) :
    acc.filter (·.1 ≠ k) = acc := by
  rw [List.filter_eq_self]; intro a ha; simpa using h a ha

theorem find_none (acc : List (Str × Val)) (k : Str) (h : ∀ a ∈ acc, a.1 ≠ k) :
    acc.find? (·.1 = k) = none := by
  rw [List.find?_eq_none]; intro a ha; simpa using h a ha

/-- later leaves of a nested dictionary are added in place -/
theorem foldl_ins_nested (acc : List (Str × Val)) (k : Str) (h : ∀ a ∈ acc, a.1 ≠ k) (ds : List PL)
    (hds : ∀ pl ∈ ds, pl.1 ≠ []) (sub : List (Str × Val)) :
    (ds.map fun pl => (k :: pl.1, pl.2)).foldl ins (acc ++ [(k, .dict sub)]) = acc ++ [(k, .dict (ds.foldl ins sub))] := by
  induction ds generalizing sub with
  | nil => rfl
  | cons d ds ih =>
    simp only [List.map_cons, List.foldl_cons]
    have hd : d.1 ≠ [] := hds d (by simp)
    have : ins (acc ++ [(k, .dict sub)]) (k :: d.1, d.2) = acc ++ [(k, .dict (ins sub d))] := by
      simp only [ins]
      rw [insertPath_cons2 k d.1 hd, List.find?_append, find_none acc k h]
      simp only [List.find?_cons, decide_true, Option.none_or, List.map_append, List.map_cons, List.map_nil,
        if_true]
      congr 1
      conv => rhs; rw [← List.map_id acc]
      apply List.map_congr_left
      intro a ha; simp [h a ha]
    rw [this]
    exact ih (fun pl hpl => hds pl (by simp [hpl])) _

/-- all leaves of a nested dictionary inserted under a fresh key -/
theorem foldl_ins_fresh (acc : List (Str × Val)) (k : Str) (h : ∀ a ∈ acc, a.1 ≠ k) (ds : List PL)
    (hne : ds ≠ []) (hds : ∀ pl ∈ ds, pl.1 ≠ []) :
    (ds.map fun pl => (k :: pl.1, pl.2)).foldl ins acc = acc ++ [(k, .dict (loadP ds))] := by
  cases ds with
  | nil => exact absurd rfl hne
  | cons d ds =>
    simp only [List.map_cons, List.foldl_cons]
    have hd : d.1 ≠ [] := hds d (by simp)
    have : ins acc (k :: d.1, d.2) = acc ++ [(k, .dict (ins [] d))] := by
      simp only [ins]
      rw [insertPath_cons2 k d.1 hd, find_none acc k h, filter_ne_self acc k h]
    rw [this, foldl_ins_nested acc k h ds (fun pl hpl => hds pl (by simp [hpl]))]
    rfl

theorem flatP_path_ne_nil (es : List (Str × Val)) : ∀ pl ∈ flatP es, pl.1 ≠ [] := by
  induction es with
  | nil => intro pl h; simp [flatP] at h
  | cons e rest ih =>
    obtain ⟨k, v⟩ := e
    intro pl h
    simp only [flatP, List.mem_append, List.mem_map] at h
    rcases h with ⟨q, _, rfl⟩ | h
    · simp
    · exact ih pl h

/-- inserting the leaves of a well-formed dictionary in the order they were written rebuilds it exactly -/
theorem foldl_ins_flatP :
    (∀ v, v.wf = true → ∀ acc k, (∀ a ∈ acc, a.1 ≠ k) →
        ((leavesV v).map fun pl => (k :: pl.1, pl.2)).foldl ins acc = acc ++ [(k, v)]) ∧
    (∀ es, entriesWf es = true → ∀ acc : List (Str × Val), (∀ e ∈ es, ∀ a ∈ acc, a.1 ≠ e.1) →
        (flatP es).foldl ins acc = acc ++ es) := by
  apply val_ind
  · intro l _ acc k h
    simp only [leavesV, List.map_cons, List.map_nil, List.foldl_cons, List.foldl_nil, ins, insertPath_single]
    rw [filter_ne_self acc k h]
  · intro es ih hwf acc k h
    obtain ⟨hne, hes⟩ := (wf_dict es).1 hwf
    simp only [leavesV]
    rw [foldl_ins_fresh acc k h (flatP es) (leaves_ne_nil.2 es hes hne) (flatP_path_ne_nil es)]
    have := ih hes [] (by simp)
    simp only [List.nil_append] at this
    rw [loadP, this]
  · intro _ acc _; simp [flatP]
  · intro k v rest ihv ihr hwf acc h
    rw [entriesWf_cons] at hwf
    obtain ⟨_, _, hv, hnd, hr⟩ := hwf
    simp only [flatP, List.foldl_append]
    rw [ihv hv acc k (fun a ha => h (k, v) (by simp) a ha), ihr hr]
    · simp
    · intro e he a ha
      simp only [List.mem_append, List.mem_singleton] at ha
      rcases ha with ha | rfl
      · exact h e (by simp [he]) a ha
      · exact (hnd e he).symm

theorem loadP_flatP (es : List (Str × Val)) (h : entriesWf es = true) : loadP (flatP es) = es := by
  have := foldl_ins_flatP.2 es h [] (by simp)
  simpa [loadP] using this

/-- STRONG in-order round trip: reading the datasets in the order they were written rebuilds the dictionary
    exactly, entry order included -/
theorem loadDict_saveDict (es : List (Str × Val)) (h : entriesWf es = true) : loadDict (saveDict es) = es := by
  rw [loadDict_eq_loadP, read_saveDict es h, loadP_flatP es h]

theorem loadDict_saveDict_nil : loadDict (saveDict []) = [] := rfl

/-! ### 5. "observationally equal": `Val.eqv` is an equivalence on trees with distinct keys -/

/-- value under a key (first match, like `dict[k]`) -/
def getK (es : List (Str × Val)) (k : Str) : Option Val := (es.find? (·.1 = k)).map (·.2)

/-- keys of one dictionary body -/
abbrev keys (es : List (Str × Val)) : List Str := es.map (·.1)

mutual
/-- keys are distinct at every level (true of every Python dictionary) -/
def valNd : Val → Prop
  | .leaf _ => True
  | .dict es => entriesNd es
def entriesNd : List (Str × Val) → Prop
  | [] => True
  | (k, v) :: rest => valNd v ∧ (∀ e ∈ rest, e.1 ≠ k) ∧ entriesNd rest
end

theorem wf_nd : (∀ v, v.wf = true → valNd v) ∧ (∀ es, entriesWf es = true → entriesNd es) := by
  apply val_ind
  · intro l _; simp [valNd]
  · intro es ih h; simpa [valNd] using ih ((wf_dict es).1 h).2
  · intro _; simp [entriesNd]
  · intro k v rest ihv ihr h
    rw [entriesWf_cons] at h
    exact ⟨ihv h.2.2.1, h.2.2.2.1, ihr h.2.2.2.2⟩

theorem entriesNd_keys (es : List (Str × Val)) (h : entriesNd es) : (keys es).Nodup := by
  induction es with
  | nil => simp
  | cons e rest ih =>
    obtain ⟨k, v⟩ := e
    obtain ⟨_, h2, h3⟩ := h
    simp only [keys, List.map_cons, List.nodup_cons, List.mem_map, not_exists, not_and]
    exact ⟨fun e he => h2 e he, ih h3⟩

theorem entriesNd_mem (es : List (Str × Val)) (h : entriesNd es) : ∀ e ∈ es, valNd e.2 := by
  induction es with
  | nil => intro e he; simp at he
  | cons e rest ih =>
    obtain ⟨k, v⟩ := e
    obtain ⟨h1, _, h3⟩ := h
    intro e he
    simp only [List.mem_cons] at he
    rcases he with rfl | he
    · exact h1
    · exact ih h3 e he

theorem getK_nil (k : Str) : getK [] k = none := rfl

theorem getK_cons (e : Str × Val) (rest : List (Str × Val)) (k : Str) :
    getK (e :: rest) k = if e.1 = k then some e.2 else getK rest k := by
  by_cases h : e.1 = k <;> simp [getK, h]

theorem getK_some_mem (es : List (Str × Val)) (k : Str) (v : Val) (h : getK es k = some v) : (k, v) ∈ es := by
  induction es with
  | nil => simp [getK_nil] at h
  | cons e rest ih =>
    rw [getK_cons] at h
    by_cases he : e.1 = k
    · simp only [he, if_true, Option.some.injEq] at h
      subst he; subst h; simp
    · simp only [he, if_false] at h
      exact List.mem_cons_of_mem _ (ih h)

theorem getK_of_mem (es : List (Str × Val)) (hnd : (keys es).Nodup) (k : Str) (v : Val) (h : (k, v) ∈ es) :
    getK es k = some v := by
  induction es with
  | nil => simp at h
  | cons e rest ih =>
    rw [getK_cons]
    simp only [keys, List.map_cons, List.nodup_cons, List.mem_map, not_exists, not_and] at hnd
    simp only [List.mem_cons] at h
    rcases h with rfl | h
    · simp
    · have : e.1 ≠ k := fun e' => hnd.1 (k, v) h e'.symm
      simp only [this, if_false]
      exact ih hnd.2 h

theorem getK_isSome_iff (es : List (Str × Val)) (k : Str) : (∃ v, getK es k = some v) ↔ k ∈ keys es := by
  constructor
  · rintro ⟨v, h⟩
    exact List.mem_map.2 ⟨(k, v), getK_some_mem es k v h, rfl⟩
  · intro h
    induction es with
    | nil => simp at h
    | cons e rest ih =>
      rw [getK_cons]
      by_cases he : e.1 = k
      · exact ⟨e.2, by simp [he]⟩
      · simp only [he, if_false]
        apply ih
        simp only [keys, List.map_cons, List.mem_cons] at h
        rcases h with h | h
        · exact absurd h.symm he
        · exact h

theorem eqv_leaf (a b : Leaf) : Val.eqv (.leaf a) (.leaf b) = true ↔ a = b := by simp [Val.eqv]

theorem eqv_dict (as bs : List (Str × Val)) :
    Val.eqv (.dict as) (.dict bs) = true ↔ as.length = bs.length ∧ entriesSub as bs = true := by
  simp [Val.eqv]

theorem entriesSub_iff (as bs : List (Str × Val)) :
    entriesSub as bs = true ↔ ∀ e ∈ as, ∃ w, getK bs e.1 = some w ∧ Val.eqv e.2 w = true := by
  induction as with
  | nil => simp [entriesSub]
  | cons e rest ih =>
    obtain ⟨k, v⟩ := e
    simp only [entriesSub, Bool.and_eq_true, ih, List.mem_cons, forall_eq_or_imp]
    apply and_congr_left'
    simp only [getK]
    cases hf : bs.find? (·.1 = k) with
    | none => simp
    | some x => obtain ⟨k', w⟩ := x; simp

/-- observational equality of dictionaries, spelled out -/
theorem eqv_dict_iff (as bs : List (Str × Val)) :
    Val.eqv (.dict as) (.dict bs) = true ↔
      as.length = bs.length ∧ ∀ e ∈ as, ∃ w, getK bs e.1 = some w ∧ Val.eqv e.2 w = true := by
  rw [eqv_dict, entriesSub_iff]

/-- pigeonhole: if every entry of `as` has an `R`-related partner in `bs` under the same key, keys are distinct on
    both sides and the sizes agree, then every entry of `bs` has a partner in `as` -/
theorem sub_flip (R : Val → Val → Prop) (as bs : List (Str × Val)) (ha : (keys as).Nodup) (hb : (keys bs).Nodup)
    (hlen : as.length = bs.length) (h : ∀ e ∈ as, ∃ w, getK bs e.1 = some w ∧ R e.2 w) :
    ∀ e ∈ bs, ∃ v, getK as e.1 = some v ∧ R v e.2 := by
  have hsub : keys as ⊆ keys bs := by
    intro k hk
    obtain ⟨e, he, rfl⟩ := List.mem_map.1 hk
    obtain ⟨w, hw, _⟩ := h e he
    exact (getK_isSome_iff bs e.1).1 ⟨w, hw⟩
  have hperm : (keys as).Perm (keys bs) :=
    (List.subperm_of_subset ha hsub).perm_of_length_le (by simp [keys, hlen])
  intro e he
  have hk : e.1 ∈ keys as := hperm.mem_iff.2 (List.mem_map.2 ⟨e, he, rfl⟩)
  obtain ⟨e', he', hk'⟩ := List.mem_map.1 hk
  obtain ⟨w, hw, hR⟩ := h e' he'
  have h1 : getK bs e.1 = some e.2 := getK_of_mem bs hb e.1 e.2 he
  have h2 : getK as e.1 = some e'.2 := getK_of_mem as ha e.1 e'.2 (by rw [← hk']; exact he')
  rw [hk', h1] at hw
  cases hw
  exact ⟨e'.2, h2, hR⟩

theorem eqv_refl' : (∀ v, valNd v → Val.eqv v v = true) ∧
    (∀ es, entriesNd es → ∀ e ∈ es, Val.eqv e.2 e.2 = true) := by
  apply val_ind
  · intro l _; simp [Val.eqv]
  · intro es ih h
    simp only [valNd] at h
    rw [eqv_dict_iff]
    refine ⟨rfl, fun e he => ⟨e.2, getK_of_mem es (entriesNd_keys es h) e.1 e.2 he, ih h e he⟩⟩
  · intro _ e he; simp at he
  · intro k v rest ihv ihr h e he
    obtain ⟨h1, _, h3⟩ := h
    simp only [List.mem_cons] at he
    rcases he with rfl | he
    · exact ihv h1
    · exact ihr h3 e he

/-- reflexivity (keys distinct at every level) -/
theorem eqv_refl (v : Val) (h : valNd v) : Val.eqv v v = true := eqv_refl'.1 v h

theorem eqv_refl_wf (v : Val) (h : v.wf = true) : Val.eqv v v = true := eqv_refl v (wf_nd.1 v h)

theorem eqv_symm' : (∀ a, valNd a → ∀ b, valNd b → Val.eqv a b = true → Val.eqv b a = true) ∧
    (∀ as, entriesNd as → ∀ e ∈ as, ∀ b, valNd b → Val.eqv e.2 b = true → Val.eqv b e.2 = true) := by
  apply val_ind
  · intro l _ b _ h
    cases b with
    | leaf m => rw [eqv_leaf] at h ⊢; exact h.symm
    | dict bs => simp [Val.eqv] at h
  · intro as ih ha b hb h
    cases b with
    | leaf m => simp [Val.eqv] at h
    | dict bs =>
      simp only [valNd] at ha hb
      rw [eqv_dict_iff] at h ⊢
      refine ⟨h.1.symm, ?_⟩
      have := sub_flip (fun v w => Val.eqv v w = true ∧ valNd w ∧ (∀ b, valNd b → Val.eqv v b = true → Val.eqv b v = true))
        as bs (entriesNd_keys as ha) (entriesNd_keys bs hb) h.1 (by
          intro e he
          obtain ⟨w, hw, hew⟩ := h.2 e he
          exact ⟨w, hw, hew, entriesNd_mem bs hb _ (getK_some_mem bs _ _ hw), ih ha e he⟩)
      intro e he
      obtain ⟨v, hv, hve, hnd, hsym⟩ := this e he
      exact ⟨v, hv, hsym e.2 hnd hve⟩
  · intro _ e he; simp at he
  · intro k v rest ihv ihr h e he
    obtain ⟨h1, _, h3⟩ := h
    simp only [List.mem_cons] at he
    rcases he with rfl | he
    · exact ihv h1
    · exact ihr h3 e he

/-- symmetry (keys distinct at every level) -/
theorem eqv_symm (a b : Val) (ha : valNd a) (hb : valNd b) (h : Val.eqv a b = true) : Val.eqv b a = true :=
  eqv_symm'.1 a ha b hb h

theorem eqv_symm_wf (a b : Val) (ha : a.wf = true) (hb : b.wf = true) (h : Val.eqv a b = true) :
    Val.eqv b a = true := eqv_symm a b (wf_nd.1 a ha) (wf_nd.1 b hb) h

/-- MAIN (datasets read in the order they were written): the reloaded dictionary is observationally equal to
    the saved one.  Holds for `es = []` too (`loadDict_saveDict_nil`); `.dict es` is a value only when `es ≠ []`. -/
theorem codec_roundtrip (es : List (Str × Val)) (h : entriesWf es = true) :
    Val.eqv (.dict (loadDict (saveDict es))) (.dict es) = true := by
  rw [loadDict_saveDict es h]
  exact eqv_refl _ (wf_nd.2 es h)

/-! ### 6. configuration of an `Aspire` instance -/

theorem mapM_map_some {α β : Type} (f : α → β) (g : β → Option α) (h : ∀ a, g (f a) = some a) (l : List α) :
    (l.map f).mapM g = some l := by
  induction l with
  | nil => rfl
  | cons a r ih => simp [List.mapM_cons, h a, ih]

/-- the stored form of the prior bounds (`None`, `{}` or one `[lo, hi]` array per parameter) -/
def pbVal (b : Option (List (Str × Nat × Nat))) : Val := match b with
  | none => .leaf .none
  | some [] => .leaf .emptyDict
  | some bs => .dict (bs.map fun b => (b.1, .leaf (.nums [b.2.1, b.2.2])))

/-- the stored form of the flow options (`{}` or one dataset per option) -/
def kwVal (kw : List (Str × Leaf)) : Val := match kw with
  | [] => .leaf .emptyDict
  | kw => .dict (kw.map fun e => (e.1, .leaf e.2))

def readBound (b : Str × Val) : Option (Str × Nat × Nat) := match b.2 with
  | Val.leaf (Leaf.nums [lo, hi]) => some (b.1, lo, hi)
  | _ => none

def readOpt (e : Str × Val) : Option (Str × Leaf) := match e.2 with
  | Val.leaf l => some (e.1, l)
  | _ => none

/-- how `_build_aspire_from_file` / `Aspire.__init__` read the `prior_bounds` entry -/
def readBounds : Val → Option (Option (List (Str × Nat × Nat)))
  | .leaf .none => some none
  | .leaf .emptyDict => some (some [])
  | .dict bs => (bs.mapM readBound).map some
  | _ => none

/-- how the flow options are read back: each entry becomes one keyword argument -/
def readKw : Val → Option (List (Str × Leaf))
  | .leaf .emptyDict => some []
  | .dict kw => kw.mapM readOpt
  | _ => none

theorem readBounds_pbVal (b : Option (List (Str × Nat × Nat))) : readBounds (pbVal b) = some b := by
  cases b with
  | none => rfl
  | some l =>
    cases l with
    | nil => rfl
    | cons x xs =>
      simp only [pbVal, readBounds]
      rw [mapM_map_some _ readBound (fun _ => rfl)]; rfl

theorem readKw_kwVal (kw : List (Str × Leaf)) : readKw (kwVal kw) = some kw := by
  cases kw with
  | nil => rfl
  | cons x xs =>
    simp only [kwVal, readKw]
    rw [mapM_map_some _ readOpt (fun _ => rfl)]

/-- `_build_aspire_from_file` succeeds with settings `c` as soon as the thirteen entries hold the stored form of
    the settings of `c` (the bounds / flow options entries: anything that reads back as those of `c`) -/
theorem ofEntries_of_lookups (es : List (Str × Val)) (c : AspireCfg) (vb vk : Val)
  (h1 : lookup es "dims" = some (.leaf (.int c.dims)))
  (h2 : lookup es "parameters" = some (.leaf (optStrs c.parameters)))
  (h3 : lookup es "periodic_parameters" = some (.leaf (optStrs c.periodic)))
  (h4 : lookup es "prior_bounds" = some vb) (hb : readBounds vb = some c.bounds)
  (h5 : lookup es "bounded_to_unbounded" = some (.leaf (.bool c.boundedToUnbounded)))
  (h6 : lookup es "bounded_transform" = some (.leaf (.str c.boundedTransform)))
  (h7 : lookup es "flow_matching" = some (.leaf (.bool c.flowMatching)))
  (h8 : lookup es "device" = some (.leaf (optStr c.device)))
  (h9 : lookup es "xp" = some (.leaf (optStr c.xp)))
  (h10 : lookup es "flow_backend" = some (.leaf (.str c.flowBackend)))
  (h11 : lookup es "flow_kwargs" = some vk) (hk : readKw vk = some c.flowKwargs)
  (h12 : lookup es "eps" = some (.leaf (.num c.eps)))
  (h13 : lookup es "dtype" = some (.leaf (optStr c.dtype))) :
  AspireCfg.ofEntries es = some c := by
  obtain ⟨dims, parameters, periodic, bounds, b2u, bt, fm, device, xp, fb, kw, eps, dtype⟩ := c
  simp only [AspireCfg.ofEntries, h1, h2, h3, h4, h5, h6, h7, h8, h9, h10, h11, h12, h13]
  have e1 : ∀ o, getOptStrs (.leaf (optStrs o)) = some o := by intro o; cases o <;> rfl
  have e2 : ∀ o, getOptStr (.leaf (optStr o)) = some o := by intro o; cases o <;> rfl
  simp only [e1, e2, Option.bind_eq_bind, Option.bind_some, Option.pure_def]
  simp only at hb hk
  have hk' : (vk = .leaf .emptyDict ∧ kw = []) ∨ ∃ ws, vk = .dict ws ∧ ws.mapM readOpt = some kw := by
    cases vk with
    | leaf l => cases l <;> simp_all [readKw]
    | dict ws => right; exact ⟨ws, rfl, by simpa [readKw] using hk⟩
  have hb' : (vb = .leaf .none ∧ bounds = none) ∨ (vb = .leaf .emptyDict ∧ bounds = some []) ∨
      ∃ bs l, vb = .dict bs ∧ bs.mapM readBound = some l ∧ bounds = some l := by
    cases vb with
    | leaf l => cases l <;> simp_all [readBounds]
    | dict bs =>
      right; right
      simp only [readBounds, Option.map_eq_some_iff] at hb
      obtain ⟨l, hl, rfl⟩ := hb
      exact ⟨bs, l, rfl, hl, rfl⟩
  clear hb hk
  rcases hb' with ⟨rfl, rfl⟩ | ⟨rfl, rfl⟩ | ⟨bs, l, rfl, hl, rfl⟩ <;>
    rcases hk' with ⟨rfl, rfl⟩ | ⟨ws, rfl, hw⟩
  · rfl
  · show Option.bind (List.mapM readOpt ws) _ = _
    rw [hw]; rfl
  · rfl
  · show Option.bind (List.mapM readOpt ws) _ = _
    rw [hw]; rfl
  · show Option.bind (Option.map some (List.mapM readBound bs)) _ = _
    rw [hl]; rfl
  · show Option.bind (Option.map some (List.mapM readBound bs)) _ = _
    rw [hl]
    show Option.bind (List.mapM readOpt ws) _ = _
    rw [hw]; rfl

/-- `Aspire(**config_dict())` has the same settings: nothing is lost between `config_dict` and the constructor
    call, whatever the configuration (no well-formedness needed when the file is not involved).  In particular
    non-empty flow options come back as the same options (not nested one level deeper) and `dtype` is kept. -/
theorem config_roundtrip_direct (c : AspireCfg) : AspireCfg.ofEntries c.toEntries = some c :=
  ofEntries_of_lookups c.toEntries c (pbVal c.bounds) (kwVal c.flowKwargs) rfl rfl rfl rfl (readBounds_pbVal _)
    rfl rfl rfl rfl rfl rfl rfl (readKw_kwVal _) rfl rfl

/-- a stored string must not be one of the sentinels -/
def strOk (s : Str) : Bool := s ≠ noneSentinel && s ≠ emptyDictSentinel

def optOk : Option Str → Bool
  | none => true
  | some s => strOk s

/-- names used as dictionary keys: non-empty, dot-free, pairwise distinct -/
def namesOk : List Str → Bool
  | [] => true
  | k :: r => !k.isEmpty && !k.contains '.' && r.all (· ≠ k) && namesOk r

/-- explicit well-formedness of a configuration: the string settings are not sentinels; bound names and
    flow-option names are non-empty, dot-free and distinct; flow-option values are not sentinel strings.
    (Nothing is required of `parameters` / `periodic`: string lists are stored as arrays, not as keys.) -/
def CfgWf (c : AspireCfg) : Bool :=
  strOk c.boundedTransform && strOk c.flowBackend && optOk c.device && optOk c.xp && optOk c.dtype &&
  (match c.bounds with
   | none => true
   | some bs => namesOk (bs.map (·.1))) &&
  namesOk (c.flowKwargs.map (·.1)) && c.flowKwargs.all (fun e => Leaf.ok e.2)

theorem entriesWf_iff (es : List (Str × Val)) :
    entriesWf es = true ↔ namesOk (keys es) = true ∧ ∀ e ∈ es, e.2.wf = true := by
  induction es with
  | nil => simp [entriesWf, namesOk]
  | cons e rest ih =>
    obtain ⟨k, v⟩ := e
    simp only [entriesWf, namesOk, keys, List.map_cons, Bool.and_eq_true, ih, List.mem_cons, forall_eq_or_imp,
      List.all_map, Function.comp_def]
    constructor
    · rintro ⟨⟨⟨⟨a, b⟩, c⟩, d⟩, e, f⟩; exact ⟨⟨⟨⟨a, b⟩, d⟩, e⟩, c, f⟩
    · rintro ⟨⟨⟨⟨a, b⟩, d⟩, e⟩, c, f⟩; exact ⟨⟨⟨⟨a, b⟩, c⟩, d⟩, e, f⟩

theorem wf_optStr (o : Option Str) (h : optOk o = true) : (Val.leaf (optStr o)).wf = true := by
  cases o with
  | none => rfl
  | some s => simpa [optStr, Val.wf, optOk, strOk] using h

theorem wf_optStrs (o : Option (List Str)) : (Val.leaf (optStrs o)).wf = true := by
  cases o <;> rfl

theorem wf_pbVal (b : Option (List (Str × Nat × Nat)))
    (h : (match b with | none => true | some bs => namesOk (bs.map (·.1))) = true) : (pbVal b).wf = true := by
  cases b with
  | none => rfl
  | some l =>
    cases l with
    | nil => rfl
    | cons x xs =>
      simp only [pbVal]
      rw [wf_dict, entriesWf_iff]
      refine ⟨by simp, ?_, ?_⟩
      · simpa [keys, Function.comp_def] using h
      · intro e he
        obtain ⟨b, _, rfl⟩ := List.mem_map.1 he
        rfl

theorem wf_kwVal (kw : List (Str × Leaf)) (h1 : namesOk (kw.map (·.1)) = true)
    (h2 : kw.all (fun e => Leaf.ok e.2) = true) : (kwVal kw).wf = true := by
  cases kw with
  | nil => rfl
  | cons x xs =>
    simp only [kwVal]
    rw [wf_dict, entriesWf_iff]
    refine ⟨by simp, ?_, ?_⟩
    · simpa [keys, Function.comp_def] using h1
    · intro e he
      obtain ⟨b, hb, rfl⟩ := List.mem_map.1 he
      rw [wf_leaf]
      exact List.all_eq_true.1 h2 b hb

theorem toEntries_eq (c : AspireCfg) : c.toEntries =
  [("dims".toList, .leaf (.int c.dims)),
   ("parameters".toList, .leaf (optStrs c.parameters)),
   ("periodic_parameters".toList, .leaf (optStrs c.periodic)),
   ("prior_bounds".toList, pbVal c.bounds),
   ("bounded_to_unbounded".toList, .leaf (.bool c.boundedToUnbounded)),
   ("bounded_transform".toList, .leaf (.str c.boundedTransform)),
   ("flow_matching".toList, .leaf (.bool c.flowMatching)),
   ("device".toList, .leaf (optStr c.device)),
   ("xp".toList, .leaf (optStr c.xp)),
   ("flow_backend".toList, .leaf (.str c.flowBackend)),
   ("flow_kwargs".toList, kwVal c.flowKwargs),
   ("eps".toList, .leaf (.num c.eps)),
   ("dtype".toList, .leaf (optStr c.dtype))] := rfl

/-- a well-formed configuration is a dictionary the codec can store faithfully -/
theorem cfgWf_entriesWf (c : AspireCfg) (h : CfgWf c = true) : entriesWf c.toEntries = true := by
  simp only [CfgWf, Bool.and_eq_true] at h
  obtain ⟨⟨⟨⟨⟨⟨⟨h1, h2⟩, h3⟩, h4⟩, h5⟩, h6⟩, h7⟩, h8⟩ := h
  rw [entriesWf_iff]
  refine ⟨by rw [toEntries_eq]; simp only [keys, List.map_cons, List.map_nil]; decide, ?_⟩
  rw [toEntries_eq]
  intro e he
  simp only [List.mem_cons, List.not_mem_nil, or_false] at he
  rcases he with rfl | rfl | rfl | rfl | rfl | rfl | rfl | rfl | rfl | rfl | rfl | rfl | rfl
  · rfl
  · exact wf_optStrs _
  · exact wf_optStrs _
  · exact wf_pbVal _ h6
  · rfl
  · simpa [Val.wf, strOk] using h1
  · rfl
  · exact wf_optStr _ h3
  · exact wf_optStr _ h4
  · simpa [Val.wf, strOk] using h2
  · exact wf_kwVal _ h7 h8
  · rfl
  · exact wf_optStr _ h5

/-- MAIN (configuration): an instance rebuilt from the configuration it saved to the file has the same settings —
    dims, parameter names, periodic parameters, bounds, transform options, device, namespace, flow backend,
    every flow option (same names, same values, same order) and the dtype -/
theorem config_roundtrip (c : AspireCfg) (h : CfgWf c = true) :
    AspireCfg.ofEntries c.toEntries = some c ∧
    AspireCfg.ofEntries (loadDict (saveDict c.toEntries)) = some c := by
  refine ⟨config_roundtrip_direct c, ?_⟩
  rw [loadDict_saveDict _ (cfgWf_entriesWf c h)]
  exact config_roundtrip_direct c

/-! ### 3 (continued). distinct leaves are stored under distinct keys -/

theorem flatP_mem_iff (es : List (Str × Val)) (pl : PL) :
    pl ∈ flatP es ↔ ∃ e ∈ es, ∃ q ∈ leavesV e.2, pl = (e.1 :: q.1, q.2) := by
  induction es with
  | nil => simp [flatP]
  | cons e rest ih =>
    obtain ⟨k, v⟩ := e
    simp only [flatP, List.mem_append, List.mem_map, ih, List.mem_cons, exists_eq_or_imp]
    apply or_congr_left
    constructor
    · rintro ⟨q, hq, rfl⟩; exact ⟨q, hq, rfl⟩
    · rintro ⟨q, hq, rfl⟩; exact ⟨q, hq, rfl⟩

/-- root-to-leaf paths of a well-formed dictionary are pairwise distinct -/
theorem paths_nodup :
    (∀ v, v.wf = true → ((leavesV v).map (·.1)).Nodup) ∧
    (∀ es, entriesWf es = true → ((flatP es).map (·.1)).Nodup) := by
  apply val_ind
  · intro l _; simp [leavesV]
  · intro es ih h; simpa [leavesV] using ih ((wf_dict es).1 h).2
  · intro _; simp [flatP]
  · intro k v rest ihv ihr h
    rw [entriesWf_cons] at h
    obtain ⟨_, _, hv, hnd, hr⟩ := h
    simp only [flatP, List.map_append, List.map_map, Function.comp_def]
    rw [List.nodup_append]
    refine ⟨?_, ihr hr, ?_⟩
    · have := List.Pairwise.map (S := (· ≠ ·)) (fun p => k :: p)
        (fun a b (hab : a ≠ b) h => hab (List.cons.inj h).2) (ihv hv)
      rw [List.map_map] at this
      exact this
    · intro a ha b hb hab
      obtain ⟨q, _, rfl⟩ := List.mem_map.1 ha
      obtain ⟨pl, hpl, rfl⟩ := List.mem_map.1 hb
      obtain ⟨e, he, q', _, rfl⟩ := (flatP_mem_iff rest pl).1 hpl
      simp only [List.cons.injEq] at hab
      exact hnd e he hab.1.symm

/-- every dataset key written for a well-formed dictionary is the dotted join of a root-to-leaf path -/
theorem saveDict_keys (es : List (Str × Val)) (h : entriesWf es = true) :
    (saveDict es).map (·.1) = (flatP es).map (fun pl => dotted pl.1) := by
  rw [saveDict_eq, List.map_map]
  apply List.map_congr_left
  intro pl hpl
  obtain ⟨_, h2, _⟩ := leaves_ok.2 es h pl hpl
  have := foldl_joinKey_dotted [] pl.1 (by simp) (fun s hs => (h2 s hs).1)
  simpa [dataset] using this

/-- distinct leaves get distinct dataset names (no `create_dataset` collision) -/
theorem saveDict_keys_nodup (es : List (Str × Val)) (h : entriesWf es = true) :
    ((saveDict es).map (·.1)).Nodup := by
  have h1 : ((saveDict es).map (·.1)).map splitKey = (flatP es).map (·.1) := by
    have := congrArg (List.map (·.1)) (read_saveDict es h)
    simpa [List.map_map, Function.comp_def, readDs] using this
  have h2 : (((saveDict es).map (·.1)).map splitKey).Nodup := h1 ▸ paths_nodup.2 es h
  exact List.Pairwise.of_map (S := (· ≠ ·)) splitKey (fun a b hab e => hab (by rw [e])) h2

/-! ### 4 (continued). the result does not depend on the order in which h5py lists the datasets -/

theorem getK_append (a b : List (Str × Val)) (k : Str) : getK (a ++ b) k = (getK a k).or (getK b k) := by
  induction a with
  | nil => simp [getK_nil]
  | cons e rest ih =>
    rw [List.cons_append, getK_cons, getK_cons, ih]
    by_cases he : e.1 = k <;> simp [he]

theorem getK_filter_ne (es : List (Str × Val)) (k k' : Str) (h : k' ≠ k) :
    getK (es.filter (·.1 ≠ k')) k = getK es k := by
  induction es with
  | nil => rfl
  | cons e rest ih =>
    by_cases he : e.1 = k'
    · have : e.1 ≠ k := by rw [he]; exact h
      rw [List.filter_cons_of_neg (by simpa using he), getK_cons, if_neg this, ih]
    · rw [List.filter_cons_of_pos (by simpa using he), getK_cons, getK_cons, ih]

theorem getK_filter_self (es : List (Str × Val)) (k : Str) : getK (es.filter (·.1 ≠ k)) k = none := by
  induction es with
  | nil => rfl
  | cons e rest ih =>
    by_cases he : e.1 = k
    · rw [List.filter_cons_of_neg (by simpa using he), ih]
    · rw [List.filter_cons_of_pos (by simpa using he), getK_cons, if_neg he, ih]

theorem getK_map_ne (es : List (Str × Val)) (k k' : Str) (x : Val) (h : k' ≠ k) :
    getK (es.map fun e => if e.1 = k' then (k', x) else e) k = getK es k := by
  induction es with
  | nil => rfl
  | cons e rest ih =>
    rw [List.map_cons, getK_cons, getK_cons, ih]
    by_cases he : e.1 = k'
    · simp [he, h]
    · simp [he]

theorem getK_map_eq (es : List (Str × Val)) (k : Str) (x : Val) (h : k ∈ keys es) :
    getK (es.map fun e => if e.1 = k then (k, x) else e) k = some x := by
  induction es with
  | nil => simp at h
  | cons e rest ih =>
    rw [List.map_cons, getK_cons]
    by_cases he : e.1 = k
    · simp [he]
    · simp only [he, if_false]
      apply ih
      simp only [keys, List.map_cons, List.mem_cons] at h
      rcases h with h | h
      · exact absurd h.symm he
      · exact h

/-- the nested dictionary under `k` (empty when `k` is absent or holds a leaf) — `d.setdefault(k, {})` -/
def subOf (acc : List (Str × Val)) (k : Str) : List (Str × Val) :=
  match getK acc k with
  | some (.dict s) => s
  | _ => []

theorem getK_insertPath_ne (k k' : Str) (ks : List Str) (l : Leaf) (acc : List (Str × Val)) (h : k' ≠ k) :
    getK (insertPath (k' :: ks) l acc) k = getK acc k := by
  by_cases hks : ks = []
  · subst hks
    rw [insertPath_single, getK_append, getK_filter_ne _ _ _ h, getK_cons]
    simp [h, getK_nil]
  · rw [insertPath_cons2 k' ks hks]
    split
    · rw [getK_map_ne _ _ _ _ h]
    · rw [getK_append, getK_filter_ne _ _ _ h, getK_cons]
      simp [h, getK_nil]

theorem getK_insertPath_single (k : Str) (l : Leaf) (acc : List (Str × Val)) :
    getK (insertPath [k] l acc) k = some (.leaf l) := by
  rw [insertPath_single, getK_append, getK_filter_self, getK_cons]; simp

theorem getK_insertPath_nested (k : Str) (ks : List Str) (hks : ks ≠ []) (l : Leaf) (acc : List (Str × Val)) :
    getK (insertPath (k :: ks) l acc) k = some (.dict (insertPath ks l (subOf acc k))) := by
  rw [insertPath_cons2 k ks hks]
  have hg : getK acc k = (acc.find? (·.1 = k)).map (·.2) := rfl
  unfold subOf
  rw [hg]
  cases hf : acc.find? (·.1 = k) with
  | none =>
    simp only [Option.map_none]
    rw [getK_append, getK_filter_self, getK_cons]; simp
  | some x =>
    obtain ⟨k', w⟩ := x
    cases w with
    | leaf m =>
      simp only [Option.map_some]
      rw [getK_append, getK_filter_self, getK_cons]; simp
    | dict sub =>
      simp only [Option.map_some]
      apply getK_map_eq
      have := List.mem_of_find?_eq_some hf
      have hk : k' = k := by simpa using List.find?_some hf
      exact List.mem_map.2 ⟨_, this, hk⟩



theorem keys_insertPath (p : List Str) (l : Leaf) (acc : List (Str × Val)) :
    keys (insertPath p l acc) = keys acc ∨
      ∃ k, p.head? = some k ∧ keys (insertPath p l acc) = (keys acc).filter (· ≠ k) ++ [k] := by
  have hfil : ∀ k, keys (acc.filter (·.1 ≠ k)) = (keys acc).filter (· ≠ k) := by
    intro k; simp [keys, List.filter_map, Function.comp_def]
  cases p with
  | nil => left; rfl
  | cons k ks =>
    by_cases hks : ks = []
    · subst hks
      right
      refine ⟨k, rfl, ?_⟩
      rw [insertPath_single]
      simp only [keys, List.map_append, List.map_cons, List.map_nil]
      rw [← hfil]
    · rw [insertPath_cons2 k ks hks]
      split
      · left
        simp only [keys, List.map_map]
        apply List.map_congr_left
        intro e _
        by_cases he : e.1 = k <;> simp [he]
      · right
        refine ⟨k, rfl, ?_⟩
        simp only [keys, List.map_append, List.map_cons, List.map_nil]
        rw [← hfil]

theorem keys_insertPath_nodup (p : List Str) (l : Leaf) (acc : List (Str × Val)) (h : (keys acc).Nodup) :
    (keys (insertPath p l acc)).Nodup := by
  rcases keys_insertPath p l acc with e | ⟨k, _, e⟩
  · rw [e]; exact h
  · rw [e, List.nodup_append]
    refine ⟨h.filter _, by simp, ?_⟩
    intro a ha b hb
    simp only [List.mem_filter, decide_eq_true_eq] at ha
    simp only [List.mem_singleton] at hb
    subst hb; exact ha.2

theorem keys_insertPath_mem (p : List Str) (l : Leaf) (acc : List (Str × Val)) (k : Str)
    (h : k ∈ keys (insertPath p l acc)) : k ∈ keys acc ∨ p.head? = some k := by
  rcases keys_insertPath p l acc with e | ⟨k', hk', e⟩
  · rw [e] at h; exact Or.inl h
  · rw [e] at h
    simp only [List.mem_append, List.mem_filter, List.mem_singleton] at h
    rcases h with h | h
    · exact Or.inl h.1
    · subst h; exact Or.inr hk'

theorem keys_foldl_nodup (ds : List PL) (acc : List (Str × Val)) (h : (keys acc).Nodup) :
    (keys (ds.foldl ins acc)).Nodup := by
  induction ds generalizing acc with
  | nil => exact h
  | cons d ds ih => exact ih _ (keys_insertPath_nodup d.1 d.2 acc h)

theorem keys_foldl_mem (ds : List PL) (acc : List (Str × Val)) (k : Str) (h : k ∈ keys (ds.foldl ins acc)) :
    k ∈ keys acc ∨ ∃ pl ∈ ds, pl.1.head? = some k := by
  induction ds generalizing acc with
  | nil => exact Or.inl h
  | cons d ds ih =>
    rcases ih _ h with h' | ⟨pl, hpl, hk⟩
    · rcases keys_insertPath_mem d.1 d.2 acc k h' with h'' | h''
      · exact Or.inl h''
      · exact Or.inr ⟨d, by simp, h''⟩
    · exact Or.inr ⟨pl, by simp [hpl], hk⟩

/-- the paths below the top-level key `k`, with `k` stripped -/
def sel (k : Str) (ds : List PL) : List PL :=
  ds.filterMap fun pl => match pl.1 with
    | k' :: p => if k' = k then some (p, pl.2) else none
    | [] => none

theorem sel_nil (k : Str) : sel k [] = [] := rfl

theorem sel_cons_eq (k : Str) (p : List Str) (l : Leaf) (ds : List PL) :
    sel k ((k :: p, l) :: ds) = (p, l) :: sel k ds := by
  simp [sel]

theorem sel_cons_ne (k k' : Str) (p : List Str) (l : Leaf) (ds : List PL) (h : k' ≠ k) :
    sel k ((k' :: p, l) :: ds) = sel k ds := by
  simp [sel, h]

theorem sel_cons_nil (k : Str) (l : Leaf) (ds : List PL) : sel k (([], l) :: ds) = sel k ds := by
  simp [sel]

theorem sel_append (k : Str) (a b : List PL) : sel k (a ++ b) = sel k a ++ sel k b := by
  simp [sel, List.filterMap_append]

theorem sel_perm (k : Str) (a b : List PL) (h : a.Perm b) : (sel k a).Perm (sel k b) := h.filterMap _

/-- leaves outside `k` do not touch the entry `k` -/
theorem getK_foldl_none (k : Str) (ds : List PL) (acc : List (Str × Val)) (h : sel k ds = []) :
    getK (ds.foldl ins acc) k = getK acc k := by
  induction ds generalizing acc with
  | nil => rfl
  | cons d ds ih =>
    obtain ⟨p, l⟩ := d
    simp only [List.foldl_cons]
    cases p with
    | nil =>
      rw [sel_cons_nil] at h
      rw [ih _ h]; rfl
    | cons k' p =>
      by_cases hk : k' = k
      · subst hk; rw [sel_cons_eq] at h; simp at h
      · rw [sel_cons_ne k k' p l ds hk] at h
        rw [ih _ h]
        exact getK_insertPath_ne k k' p l acc hk

/-- a single dataset named exactly `k` -/
theorem getK_foldl_leaf (k : Str) (l : Leaf) (ds : List PL) (acc : List (Str × Val)) (h : sel k ds = [([], l)]) :
    getK (ds.foldl ins acc) k = some (.leaf l) := by
  induction ds generalizing acc with
  | nil => simp [sel_nil] at h
  | cons d ds ih =>
    obtain ⟨p, l'⟩ := d
    simp only [List.foldl_cons]
    cases p with
    | nil => rw [sel_cons_nil] at h; exact ih _ h
    | cons k' p =>
      by_cases hk : k' = k
      · subst hk
        rw [sel_cons_eq] at h
        simp only [List.cons.injEq, Prod.mk.injEq] at h
        obtain ⟨⟨rfl, rfl⟩, h⟩ := h
        rw [getK_foldl_none k' ds _ h]
        exact getK_insertPath_single k' l' acc
      · rw [sel_cons_ne k k' p l' ds hk] at h
        exact ih _ h

/-- the datasets `k.…` build the nested dictionary under `k`, in their relative order -/
theorem getK_foldl_nested (k : Str) (ds : List PL) (acc s : List (Str × Val))
    (hne : ∀ t ∈ sel k ds, t.1 ≠ [])
    (h : getK acc k = some (.dict s) ∨ (getK acc k = none ∧ s = [] ∧ sel k ds ≠ [])) :
    getK (ds.foldl ins acc) k = some (.dict ((sel k ds).foldl ins s)) := by
  induction ds generalizing acc s with
  | nil =>
    rcases h with h | ⟨_, _, h⟩
    · exact h
    · exact absurd (sel_nil k) h
  | cons d ds ih =>
    obtain ⟨p, l⟩ := d
    simp only [List.foldl_cons]
    cases p with
    | nil =>
      rw [sel_cons_nil] at hne h ⊢
      exact ih _ s hne h
    | cons k' p =>
      by_cases hk : k' = k
      · subst hk
        rw [sel_cons_eq] at hne h ⊢
        have hp : p ≠ [] := hne (p, l) (by simp)
        simp only [List.foldl_cons]
        apply ih _ _ (fun t ht => hne t (by simp [ht]))
        left
        have : subOf acc k' = s := by
          unfold subOf
          rcases h with h | ⟨h, hs, _⟩
          · rw [h]
          · rw [h, hs]
        show getK (insertPath (k' :: p) l acc) k' = _
        rw [getK_insertPath_nested k' p hp l acc, this]; rfl
      · rw [sel_cons_ne k k' p l ds hk] at hne h ⊢
        apply ih _ s hne
        have : getK (ins acc (k' :: p, l)) k = getK acc k := getK_insertPath_ne k k' p l acc hk
        rw [this]; exact h



theorem sel_map_cons_eq (k : Str) (L : List PL) : sel k (L.map fun pl => (k :: pl.1, pl.2)) = L := by
  induction L with
  | nil => rfl
  | cons a L ih => rw [List.map_cons, sel_cons_eq, ih]

theorem sel_map_cons_ne (k k' : Str) (h : k' ≠ k) (L : List PL) :
    sel k (L.map fun pl => (k' :: pl.1, pl.2)) = [] := by
  induction L with
  | nil => rfl
  | cons a L ih => rw [List.map_cons, sel_cons_ne k k' _ _ _ h, ih]

theorem sel_flatP_none (es : List (Str × Val)) (k : Str) (h : ∀ e ∈ es, e.1 ≠ k) : sel k (flatP es) = [] := by
  induction es with
  | nil => rfl
  | cons e rest ih =>
    obtain ⟨k', v⟩ := e
    simp only [flatP, sel_append]
    rw [sel_map_cons_ne k k' (h (k', v) (by simp)), ih (fun e he => h e (by simp [he]))]; rfl

/-- the datasets below a top-level key are exactly the leaves of its value -/
theorem sel_flatP (es : List (Str × Val)) (hnd : (keys es).Nodup) (k : Str) (v : Val) (h : (k, v) ∈ es) :
    sel k (flatP es) = leavesV v := by
  induction es with
  | nil => simp at h
  | cons e rest ih =>
    obtain ⟨k', v'⟩ := e
    simp only [keys, List.map_cons, List.nodup_cons, List.mem_map, not_exists, not_and] at hnd
    simp only [flatP, sel_append]
    simp only [List.mem_cons, Prod.mk.injEq] at h
    rcases h with ⟨rfl, rfl⟩ | h
    · rw [sel_map_cons_eq, sel_flatP_none rest k (fun e he => hnd.1 e he)]; simp
    · have : k' ≠ k := fun e => hnd.1 (k, v) h e.symm
      rw [sel_map_cons_ne k k' this, ih hnd.2 h]; rfl

/-- what the permutation theorem states for one dictionary body -/
def PermRoundtrip (es : List (Str × Val)) : Prop :=
  ∀ ds : List PL, ds.Perm (flatP es) →
    Val.eqv (.dict (loadP ds)) (.dict es) = true ∧ Val.eqv (.dict es) (.dict (loadP ds)) = true

theorem perm_roundtrip' :
    (∀ v : Val, v.wf = true → ∀ es, v = .dict es → PermRoundtrip es) ∧
    (∀ es, entriesWf es = true → ∀ e ∈ es, ∀ sub, e.2 = .dict sub → PermRoundtrip sub) := by
  refine val_ind (P := fun v : Val => v.wf = true → ∀ es, v = .dict es → PermRoundtrip es)
    (Q := fun es => entriesWf es = true → ∀ e ∈ es, ∀ sub, e.2 = .dict sub → PermRoundtrip sub) ?_ ?_ ?_ ?_
  · intro l _ es h; cases h
  · intro es ih hwf es' hes' ds hperm
    cases hes'
    obtain ⟨-, hes⟩ := (wf_dict es).1 hwf
    have hnd : (keys es).Nodup := entriesNd_keys es (wf_nd.2 es hes)
    -- every entry of `es` is found, with an equivalent value, in the reloaded dictionary
    have hA : ∀ e ∈ es, ∃ w, getK (loadP ds) e.1 = some w ∧ Val.eqv w e.2 = true ∧ Val.eqv e.2 w = true := by
      intro e he
      obtain ⟨k, v⟩ := e
      have hsel : (sel k ds).Perm (leavesV v) := by
        have := sel_perm k _ _ hperm
        rwa [sel_flatP es hnd k v he] at this
      have hv : v.wf = true := ((entriesWf_iff es).1 hes).2 (k, v) he
      cases v with
      | leaf l =>
        have : sel k ds = [([], l)] := by simpa [leavesV] using hsel
        exact ⟨.leaf l, getK_foldl_leaf k l ds [] this, by simp [Val.eqv], by simp [Val.eqv]⟩
      | dict sub =>
        obtain ⟨hsne, hsub⟩ := (wf_dict sub).1 hv
        simp only [leavesV] at hsel
        have hne : ∀ t ∈ sel k ds, t.1 ≠ [] := fun t ht => flatP_path_ne_nil sub t (hsel.mem_iff.1 ht)
        have hnn : sel k ds ≠ [] := by
          intro e
          rw [e] at hsel
          exact leaves_ne_nil.2 sub hsub hsne hsel.symm.eq_nil
        have hg := getK_foldl_nested k ds [] [] hne (Or.inr ⟨rfl, rfl, hnn⟩)
        obtain ⟨h1, h2⟩ := ih hes (k, .dict sub) he sub rfl (sel k ds) hsel
        exact ⟨_, hg, h1, h2⟩
    have hB : (keys (loadP ds)).Nodup := keys_foldl_nodup ds [] (by simp)
    have hC : ∀ k ∈ keys (loadP ds), k ∈ keys es := by
      intro k hk
      rcases keys_foldl_mem ds [] k hk with h | ⟨pl, hpl, hhead⟩
      · simp at h
      · obtain ⟨e, he, q, _, rfl⟩ := (flatP_mem_iff es pl).1 (hperm.mem_iff.1 hpl)
        simp only [List.head?_cons, Option.some.injEq] at hhead
        subst hhead
        exact List.mem_map.2 ⟨e, he, rfl⟩
    have hD : ∀ k ∈ keys es, k ∈ keys (loadP ds) := by
      intro k hk
      obtain ⟨e, he, rfl⟩ := List.mem_map.1 hk
      obtain ⟨w, hw, _⟩ := hA e he
      exact (getK_isSome_iff _ _).1 ⟨w, hw⟩
    have hlen : es.length = (loadP ds).length := by
      have : (keys es).Perm (keys (loadP ds)) :=
        (List.perm_ext_iff_of_nodup hnd hB).2 (fun k => ⟨hD k, hC k⟩)
      simpa [keys] using this.length_eq
    have hflip := sub_flip (fun v w => Val.eqv w v = true) es (loadP ds) hnd hB hlen
      (fun e he => by obtain ⟨w, hw, h1, _⟩ := hA e he; exact ⟨w, hw, h1⟩)
    constructor
    · rw [eqv_dict_iff]; exact ⟨hlen.symm, hflip⟩
    · rw [eqv_dict_iff]
      exact ⟨hlen, fun e he => by obtain ⟨w, hw, _, h2⟩ := hA e he; exact ⟨w, hw, h2⟩⟩
  · intro _ e he; simp at he
  · intro k v rest ihv ihr h e he sub hsub
    rw [entriesWf_cons] at h
    simp only [List.mem_cons] at he
    rcases he with rfl | he
    · exact ihv h.2.2.1 sub hsub
    · exact ihr h.2.2.2.2 e he sub hsub

/-- inserting the leaves of a well-formed dictionary in ANY order rebuilds an observationally equal dictionary -/
theorem perm_roundtrip (es : List (Str × Val)) (h : entriesWf es = true) : PermRoundtrip es := by
  cases es with
  | nil =>
    intro ds hp
    have : ds = [] := by simpa [flatP] using hp
    subst this
    exact ⟨rfl, rfl⟩
  | cons e rest =>
    exact perm_roundtrip'.1 (.dict (e :: rest)) ((wf_dict _).2 ⟨by simp, h⟩) _ rfl

theorem read_perm (es : List (Str × Val)) (h : entriesWf es = true) (ds : List (Str × H))
    (hp : ds.Perm (saveDict es)) : (ds.map readDs).Perm (flatP es) := by
  have := hp.map readDs
  rwa [read_saveDict es h] at this

/-- MAIN (any listing order): whatever the order in which the datasets are enumerated on reload (h5py: alphabetical),
    the rebuilt dictionary is observationally equal to the saved one -/
theorem codec_roundtrip_perm (es : List (Str × Val)) (h : entriesWf es = true) (ds : List (Str × H))
    (hp : ds.Perm (saveDict es)) : Val.eqv (.dict (loadDict ds)) (.dict es) = true := by
  rw [loadDict_eq_loadP]
  exact (perm_roundtrip es h _ (read_perm es h ds hp)).1

/-- … and symmetrically -/
theorem codec_roundtrip_perm_symm (es : List (Str × Val)) (h : entriesWf es = true) (ds : List (Str × H))
    (hp : ds.Perm (saveDict es)) : Val.eqv (.dict es) (.dict (loadDict ds)) = true := by
  rw [loadDict_eq_loadP]
  exact (perm_roundtrip es h _ (read_perm es h ds hp)).2

/-- the reloaded dictionary has distinct keys and as many entries as the saved one -/
theorem loadDict_perm_length (es : List (Str × Val)) (h : entriesWf es = true) (ds : List (Str × H))
    (hp : ds.Perm (saveDict es)) : (loadDict ds).length = es.length :=
  ((eqv_dict_iff _ _).1 (codec_roundtrip_perm es h ds hp)).1

/-! ### 6 (continued). configuration reloaded from datasets listed in any order -/

theorem eqv_leaf_left (a : Leaf) (w : Val) (h : Val.eqv (.leaf a) w = true) : w = .leaf a := by
  cases w with
  | leaf b => rw [eqv_leaf] at h; rw [h]
  | dict bs => simp [Val.eqv] at h

/-- entries under the same key of two observationally equal dictionaries are observationally equal -/
theorem eqv_getK (L es : List (Str × Val)) (h1 : Val.eqv (.dict L) (.dict es) = true)
    (h2 : Val.eqv (.dict es) (.dict L) = true) (k : Str) (v : Val) (hk : getK es k = some v) :
    ∃ w, getK L k = some w ∧ Val.eqv v w = true ∧ Val.eqv w v = true := by
  obtain ⟨w, hw, hvw⟩ := ((eqv_dict_iff _ _).1 h2).2 (k, v) (getK_some_mem es k v hk)
  obtain ⟨v', hv', hwv⟩ := ((eqv_dict_iff _ _).1 h1).2 (k, w) (getK_some_mem L k w hw)
  simp only at hv' hwv
  rw [hk] at hv'
  cases hv'
  exact ⟨w, hw, hvw, hwv⟩

theorem mapM_eq_filterMap {α β : Type} (g : α → Option β) (ws : List α) (h : ∀ w ∈ ws, ∃ b, g w = some b) :
    ws.mapM g = some (ws.filterMap g) := by
  induction ws with
  | nil => rfl
  | cons w ws ih =>
    obtain ⟨b, hb⟩ := h w (by simp)
    rw [List.mapM_cons, ih (fun w hw => h w (by simp [hw])), hb]
    simp [hb]

theorem namesOk_nodup (l : List Str) (h : namesOk l = true) : l.Nodup := by
  induction l with
  | nil => simp
  | cons k r ih =>
    simp only [namesOk, Bool.and_eq_true, List.all_eq_true, decide_eq_true_eq] at h
    rw [List.nodup_cons]
    exact ⟨fun hk => h.1.2 k hk rfl, ih h.2⟩

/-- a dictionary of leaves, listed in another order, is read back as a permutation of the original list -/
theorem leafDict_perm {α : Type} (g : α → Leaf) (rd : Str × Val → Option (Str × α))
    (hrd : ∀ b : Str × α, rd (b.1, .leaf (g b.2)) = some b)
    (l : List (Str × α)) (hnd : (l.map (·.1)).Nodup) (ws : List (Str × Val))
    (h1 : Val.eqv (.dict (l.map fun b => (b.1, .leaf (g b.2)))) (.dict ws) = true) :
    ∃ l', ws.mapM rd = some l' ∧ l'.Perm l := by
  let f : Str × α → Str × Val := fun b => (b.1, .leaf (g b.2))
  obtain ⟨hlen, hsub⟩ := (eqv_dict_iff _ _).1 h1
  have hmem : ∀ e ∈ l.map f, e ∈ ws := by
    intro e he
    obtain ⟨w, hw, hew⟩ := hsub e he
    obtain ⟨b, _, rfl⟩ := List.mem_map.1 he
    have := eqv_leaf_left _ _ hew
    subst this
    exact getK_some_mem ws _ _ hw
  have hnd' : (l.map f).Nodup := by
    have : ((l.map f).map (·.1)) = l.map (·.1) := by simp [f, List.map_map, Function.comp_def]
    exact List.Pairwise.of_map (S := (· ≠ ·)) (·.1) (fun a b hab e => hab (by rw [e])) (this ▸ hnd)
  have hperm : (l.map f).Perm ws :=
    (List.subperm_of_subset hnd' hmem).perm_of_length_le (Nat.le_of_eq hlen.symm)
  have hall : ∀ w ∈ ws, ∃ b, rd w = some b := by
    intro w hw
    obtain ⟨b, _, rfl⟩ := List.mem_map.1 (hperm.mem_iff.2 hw)
    exact ⟨b, hrd b⟩
  refine ⟨ws.filterMap rd, mapM_eq_filterMap rd ws hall, ?_⟩
  have h3 : (ws.filterMap rd).Perm ((l.map f).filterMap rd) := (hperm.filterMap rd).symm
  have h4 : (l.map f).filterMap rd = l := by
    rw [List.filterMap_map]
    have : (rd ∘ f) = some := by funext b; exact hrd b
    rw [this, List.filterMap_some]
  rwa [h4] at h3

/-- bounds compared up to the order of the parameters -/
def boundsPerm : Option (List (Str × Nat × Nat)) → Option (List (Str × Nat × Nat)) → Prop
  | none, none => True
  | some a, some b => a.Perm b
  | _, _ => False

theorem readBounds_eqv (b : Option (List (Str × Nat × Nat)))
    (hb : (match b with | none => true | some bs => namesOk (bs.map (·.1))) = true) (w : Val)
    (h : Val.eqv (pbVal b) w = true) : ∃ b', readBounds w = some b' ∧ boundsPerm b' b := by
  cases b with
  | none =>
    have := eqv_leaf_left _ _ h; subst this
    exact ⟨none, rfl, trivial⟩
  | some l =>
    cases l with
    | nil =>
      have := eqv_leaf_left _ _ h; subst this
      exact ⟨some [], rfl, List.Perm.refl _⟩
    | cons x xs =>
      cases w with
      | leaf m => simp [pbVal, Val.eqv] at h
      | dict ws =>
        obtain ⟨l', hl', hp⟩ := leafDict_perm (fun p : Nat × Nat => Leaf.nums [p.1, p.2]) readBound (fun _ => rfl)
          (x :: xs) (namesOk_nodup _ hb) ws h
        exact ⟨some l', by simp [readBounds, hl'], hp⟩

theorem readKw_eqv (kw : List (Str × Leaf)) (hk : namesOk (kw.map (·.1)) = true) (w : Val)
    (h : Val.eqv (kwVal kw) w = true) : ∃ kw', readKw w = some kw' ∧ kw'.Perm kw := by
  cases kw with
  | nil =>
    have := eqv_leaf_left _ _ h; subst this
    exact ⟨[], rfl, List.Perm.refl _⟩
  | cons x xs =>
    cases w with
    | leaf m => simp [kwVal, Val.eqv] at h
    | dict ws =>
      obtain ⟨l', hl', hp⟩ := leafDict_perm (fun l : Leaf => l) readOpt (fun _ => rfl)
        (x :: xs) (namesOk_nodup _ hk) ws h
      exact ⟨l', by simp [readKw, hl'], hp⟩



/-- MAIN (configuration, any listing order of the datasets): the rebuilt instance has the same settings; the two
    settings that are dictionaries (prior bounds, flow options) come back with the same entries, possibly listed
    in another order (they are passed on as `dict` / `**kwargs`, where order is immaterial) -/
theorem config_roundtrip_perm (c : AspireCfg) (h : CfgWf c = true) (ds : List (Str × H))
    (hp : ds.Perm (saveDict c.toEntries)) :
    ∃ bs kw, AspireCfg.ofEntries (loadDict ds) = some { c with bounds := bs, flowKwargs := kw } ∧
      boundsPerm bs c.bounds ∧ kw.Perm c.flowKwargs := by
  have hsub := ((eqv_dict_iff _ _).1 (codec_roundtrip_perm_symm c.toEntries (cfgWf_entriesWf c h) ds hp)).2
  have hleaf : ∀ (k : String) (a : Leaf), (k.toList, Val.leaf a) ∈ c.toEntries →
      lookup (loadDict ds) k = some (.leaf a) := by
    intro k a hm
    obtain ⟨w, hw, hew⟩ := hsub _ hm
    rw [eqv_leaf_left a w hew] at hw
    exact hw
  simp only [CfgWf, Bool.and_eq_true] at h
  obtain ⟨⟨⟨_, h6⟩, h7⟩, _⟩ := h
  obtain ⟨wb, hwb, heb⟩ := hsub ("prior_bounds".toList, pbVal c.bounds) (by rw [toEntries_eq]; simp)
  obtain ⟨wk, hwk, hek⟩ := hsub ("flow_kwargs".toList, kwVal c.flowKwargs) (by rw [toEntries_eq]; simp)
  obtain ⟨bs, hbs, hbp⟩ := readBounds_eqv c.bounds h6 wb heb
  obtain ⟨kw, hkw, hkp⟩ := readKw_eqv c.flowKwargs h7 wk hek
  refine ⟨bs, kw, ?_, hbp, hkp⟩
  apply ofEntries_of_lookups (loadDict ds) _ wb wk
  · exact hleaf _ _ (by rw [toEntries_eq]; simp)
  · exact hleaf _ _ (by rw [toEntries_eq]; simp)
  · exact hleaf _ _ (by rw [toEntries_eq]; simp)
  · exact hwb
  · exact hbs
  · exact hleaf _ _ (by rw [toEntries_eq]; simp)
  · exact hleaf _ _ (by rw [toEntries_eq]; simp)
  · exact hleaf _ _ (by rw [toEntries_eq]; simp)
  · exact hleaf _ _ (by rw [toEntries_eq]; simp)
  · exact hleaf _ _ (by rw [toEntries_eq]; simp)
  · exact hleaf _ _ (by rw [toEntries_eq]; simp)
  · exact hwk
  · exact hkw
  · exact hleaf _ _ (by rw [toEntries_eq]; simp)
  · exact hleaf _ _ (by rw [toEntries_eq]; simp)

/-! ### 5 (continued). transitivity (no hypothesis needed) -/

theorem eqv_trans' :
    (∀ a b c : Val, Val.eqv a b = true → Val.eqv b c = true → Val.eqv a c = true) ∧
    (∀ as : List (Str × Val), ∀ e ∈ as, ∀ b c : Val, Val.eqv e.2 b = true → Val.eqv b c = true →
      Val.eqv e.2 c = true) := by
  refine val_ind (P := fun a => ∀ b c : Val, Val.eqv a b = true → Val.eqv b c = true → Val.eqv a c = true)
    (Q := fun as => ∀ e ∈ as, ∀ b c : Val, Val.eqv e.2 b = true → Val.eqv b c = true → Val.eqv e.2 c = true)
    ?_ ?_ ?_ ?_
  · intro l b c h1 h2
    rw [eqv_leaf_left l b h1] at h2
    exact h2
  · intro as ih b c h1 h2
    cases b with
    | leaf m => simp [Val.eqv] at h1
    | dict bs =>
      cases c with
      | leaf m => simp [Val.eqv] at h2
      | dict cs =>
        rw [eqv_dict_iff] at h1 h2 ⊢
        refine ⟨h1.1.trans h2.1, fun e he => ?_⟩
        obtain ⟨w, hw, hew⟩ := h1.2 e he
        obtain ⟨x, hx, hwx⟩ := h2.2 (e.1, w) (getK_some_mem bs _ _ hw)
        exact ⟨x, hx, ih e he w x hew hwx⟩
  · intro e he; simp at he
  · intro k v rest ihv ihr e he
    simp only [List.mem_cons] at he
    rcases he with rfl | he
    · exact ihv
    · exact ihr e he

theorem eqv_trans (a b c : Val) (h1 : Val.eqv a b = true) (h2 : Val.eqv b c = true) : Val.eqv a c = true :=
  eqv_trans'.1 a b c h1 h2

/-! ### 7 (continued). more of what well-formedness excludes -/

/-- an empty key at the top level loses one level of nesting: `{"": {"b": 1}}` is stored as dataset `"b"`
    (`f"{prefix}.{key}" if prefix else key` with `prefix == ""`) and comes back as `{"b": 1}` -/
theorem empty_key_not_roundtrip :
    loadDict (saveDict [([], .dict [("b".toList, .leaf (.int 1))])]) = [("b".toList, .leaf (.int 1))] := rfl

/-- a sentinel string stored in a dictionary comes back as `None` -/
theorem sentinel_value_not_roundtrip :
    loadDict (saveDict [("a".toList, .leaf (.str noneSentinel))]) = [("a".toList, .leaf .none)] := rfl

/-! ### non-vacuity: concrete instances -/

/-- `{"a": None, "b": {}, "c": {"x": ["p","q"], "y": {"z": array([1,2,3])}}, "s": "hello", "n": 42.0, "flag": True,
     "i": -3}` -/
def exDict : List (Str × Val) :=
  [("a".toList, .leaf .none),
   ("b".toList, .leaf .emptyDict),
   ("c".toList, .dict [("x".toList, .leaf (.strs ["p".toList, "q".toList])),
                       ("y".toList, .dict [("z".toList, .leaf (.nums [1, 2, 3]))])]),
   ("s".toList, .leaf (.str "hello".toList)),
   ("n".toList, .leaf (.num 42)),
   ("flag".toList, .leaf (.bool true)),
   ("i".toList, .leaf (.int (-3)))]

example : entriesWf exDict = true := by decide
example : loadDict (saveDict exDict) = exDict := rfl
example : Val.eqv (.dict (loadDict (saveDict exDict))) (.dict exDict) = true := by decide
/-- the datasets of the example, in the order they are written -/
example : (saveDict exDict).map (·.1) =
    ["a".toList, "b".toList, "c.x".toList, "c.y.z".toList, "s".toList, "n".toList, "flag".toList, "i".toList] := by
  decide
/-- read in another order (here reversed; h5py lists alphabetically) the entries come back in another order … -/
example : (loadDict (saveDict exDict).reverse).map (·.1) =
    ["i".toList, "flag".toList, "n".toList, "s".toList, "c".toList, "b".toList, "a".toList] := by decide
/-- … but the result is still observationally equal -/
example : Val.eqv (.dict (loadDict (saveDict exDict).reverse)) (.dict exDict) = true := by decide

/-- a configuration with bounds, periodic parameters, two flow options and a dtype -/
def exCfg : AspireCfg where
  dims := 2
  parameters := some ["x".toList, "phi".toList]
  periodic := some ["phi".toList]
  bounds := some [("x".toList, 0, 4607182418800017408), ("phi".toList, 0, 4618760256179416344)]
  boundedToUnbounded := true
  boundedTransform := "logit".toList
  flowMatching := false
  device := none
  xp := some "numpy".toList
  flowBackend := "zuko".toList
  flowKwargs := [("hidden_features".toList, .nums [64, 64]), ("activation".toList, .str "relu".toList)]
  eps := 4472406533629990549
  dtype := some "float64".toList

example : CfgWf exCfg = true := by decide
example : AspireCfg.ofEntries (loadDict (saveDict exCfg.toEntries)) = some exCfg := by decide
example : (AspireCfg.ofEntries (loadDict (saveDict exCfg.toEntries))).map (·.flowKwargs) =
    some [("hidden_features".toList, .nums [64, 64]), ("activation".toList, .str "relu".toList)] := by decide
example : (AspireCfg.ofEntries (loadDict (saveDict exCfg.toEntries))).map (·.dtype) = some (some "float64".toList) := by
  decide

/-- the datasets of the example configuration read in reverse order: same settings, the two dictionary-valued
    settings listed in reverse -/
example : AspireCfg.ofEntries (loadDict (saveDict exCfg.toEntries).reverse) =
    some { exCfg with bounds := exCfg.bounds.map List.reverse, flowKwargs := exCfg.flowKwargs.reverse } := by decide

end C13
