import AspireModel.Props.C06
import AspireModel.Props.C18
import AspireModel.Lemmas.TieWeights
import AspireModel.Gen.SrcSchedule
import AspireModel.Gen.SrcLoop
/-
  C06 / C07, tie to the source: `SMCSampler.current_target_efficiency` and `SMCSampler.determine_beta` as
  translated from `/repo/src/aspire/samplers/smc/base.py` on every run (`Gen/SrcSchedule.lean`) are the
  model's `currentTarget` and `determineBeta` (`Model/Schedule.lean`) — including the bisection loop, the
  "smallest resolvable step" fallback, the adaptive minimum step and the clamps — with the population
  efficiency `eff b = effective_sample_size(samples.log_weights(b)) / len(samples)` computed by the translated
  `log_weights` / `effective_sample_size` (= `Model.effAt`, `Lemmas/TieWeights.lean`).
  The `while` loop is translated with explicit fuel (`determineBeta_fuel_stable` in `Props/C06.lean` shows the
  result does not depend on the fuel once it exceeds the number of halvings).
  Then the main one-step theorems of C06 are restated for the translated source (`src_*`).
-/
set_option linter.unusedSectionVars false
namespace C06
open Model

section generic
variable {α : Type} [Num α] [DecidableLT α] [DecidableLE α]

/-- source of `current_target_efficiency` = `Model.currentTarget` (scalar target or ramp `lo + (hi-lo) β^rate`) -/
theorem tie_current_target_efficiency (c : BetaCfg α) (a b : Bool) (β : α) :
    Gen.current_target_efficiency a b c.ramp c.targetLo c.targetLo c.targetHi c.rate β
      = Model.currentTarget c β := by
  simp [Gen.current_target_efficiency, Model.currentTarget]

/-- the translated `while beta_max - beta_min > beta_tolerance` loop is the model's `bisect` -/
theorem tie_bisection_loop (sβ : α) (ll lp lq : List α) (n : Nat) (tol target : α) (rn : α → Nat)
    (fuel : Nat) (lo hi : α) :
    Gen.determine_beta_loop0 sβ ll lp lq n tol target rn fuel lo hi
      = Model.bisect (fun b => Gen.effective_sample_size (Gen.log_weights sβ ll lp lq n b) / ((n : Nat) : α))
          target tol fuel lo hi := by
  induction fuel generalizing lo hi with
  | zero => rfl
  | succ f ih =>
    simp only [Gen.determine_beta_loop0, Model.bisect]
    split
    · simp only [ih]
    · rfl

/-- source of `determine_beta` = `Model.determineBeta` (which never takes its error branch) -/
theorem tie_determine_beta (c : BetaCfg α) (rn : α → Nat) (sβ : α) (ll lp lq : List α) (n fuel : Nat)
    (β step minStep : α) :
    Model.determineBeta c rn
        (fun b => Gen.effective_sample_size (Gen.log_weights sβ ll lp lq n b) / ((n : Nat) : α))
        fuel β step minStep
      = .ok (Gen.determine_beta c.adaptive c.adaptiveMinStep c.ramp c.targetLo c.targetLo c.targetHi c.rate
               sβ ll lp lq n β step minStep c.tol rn fuel) := by
  unfold Model.determineBeta Gen.determine_beta
  cases h : c.adaptive <;> simp [tie_current_target_efficiency, tie_bisection_loop, Model.fixedNext]

/-- the efficiency curve the translated `determine_beta` bisects on is the model's `effAt` of the population -/
theorem tie_eff_curve (β : α) (ll lp lq : List α) (n : Nat) (hn : n = (Model.unnormLogW β β ll lp lq).length) :
    (fun b => Gen.effective_sample_size (Gen.log_weights β ll lp lq n b) / ((n : Nat) : α))
      = fun b => Model.effAt β b ll lp lq := by
  funext b
  exact Tie.effAt_eq β b ll lp lq n (by rw [hn]; exact Tie.unnormLogW_length_indep β β b ll lp lq)

/-- the prologue of `SMCSampler.sample` that initialises `min_step` / `adaptive_min_step`
    (`if min_step is None: ...`) is the model's `initMinStep` -/
theorem tie_init_min_step (ms : Option α) (mx : Option Nat) :
    Gen.init_min_step ms mx = Model.initMinStep ms mx := by
  cases ms <;> cases mx <;> rfl

end generic

/-- `β == 1.0` as the loop of the model decides it (`Kit.isOne` of the driver) -/
noncomputable def isOneR (b : ℝ) : Bool := decide (b ≤ 1) && decide (1 ≤ b)

/-- the loop's exit test `if beta == 1.0 or (max_n_steps is not None and iterations >= max_n_steps): break`
    as translated from the source is the `stop` flag of `Model.iterate` -/
theorem tie_loop_exit (β : ℝ) (mx : Option ℕ) (it : ℕ) :
    Gen.loop_exit β mx it
      = (isOneR β || (match mx with | some m => decide (m ≤ it) | none => false)) := by
  have h : decide (¬ Gen.ne β 1) = (decide (β ≤ 1) && decide (1 ≤ β)) := by
    rw [Bool.eq_iff_iff]
    simp only [Gen.ne, decide_eq_true_eq, Bool.and_eq_true, not_or, not_lt]
    exact and_comm
  unfold Gen.loop_exit isOneR
  rw [← h]
  cases mx with
  | none => simp
  | some m => by_cases hm : m ≤ it <;> simp [hm]

/-- ... hence, for every kit whose `isOne` is `== 1.0`, the Boolean `Model.iterate` returns IS the translated test
    evaluated at the new temperature and iteration count -/
theorem src_iterate_stop {P : Type} (k : Kit P ℝ) (cfg : SmcCfg ℝ) (st st' : St P ℝ) (s : Step P) (stop : Bool)
    (hk : ∀ b, k.isOne b = isOneR b) (h : iterate k cfg st s = .ok (st', stop)) :
    stop = Gen.loop_exit st'.beta cfg.maxSteps st'.iter := by
  rw [tie_loop_exit]
  unfold iterate at h
  cases hb : k.nextBeta st.pop st.beta st.minStep with
  | error e => simp [hb, bind, Except.bind] at h
  | ok bm =>
    obtain ⟨b, m⟩ := bm
    simp only [hb, bind, Except.bind, pure, Except.pure, Except.ok.injEq, Prod.mk.injEq] at h
    obtain ⟨h1, h2⟩ := h
    subst h1
    rw [← h2, hk]
    simp only [C18.mc_beta, C18.mc_iter]
    cases cfg.maxSteps <;> rfl

/-- with `min_step=None, max_n_steps=M` the source initialises the minimum step to `1/M` and lets it adapt:
    exactly the starting point of `cap_reaches_one` -/
theorem src_init_min_step_cap (M : ℕ) :
    Gen.init_min_step (none : Option ℝ) (some M) = (1 / (M : ℝ), true) := by
  rw [tie_init_min_step]; rfl

/-- the source function, packaged: what `determine_beta` returns for schedule options `c` -/
noncomputable def srcDetermineBeta (c : BetaCfg ℝ) (rn : ℝ → ℕ) (ll lp lq : List ℝ) (n fuel : ℕ)
    (β step minStep : ℝ) : ℝ × ℝ :=
  Gen.determine_beta c.adaptive c.adaptiveMinStep c.ramp c.targetLo c.targetLo c.targetHi c.rate
    β ll lp lq n β step minStep c.tol rn fuel

theorem src_eq_model (c : BetaCfg ℝ) (rn : ℝ → ℕ) (ll lp lq : List ℝ) (n fuel : ℕ) (β step minStep : ℝ)
    (hn : n = (unnormLogW β β ll lp lq).length) :
    determineBeta c rn (fun b => effAt β b ll lp lq) fuel β step minStep
      = .ok (srcDetermineBeta c rn ll lp lq n fuel β step minStep) := by
  rw [← tie_eff_curve β ll lp lq n hn]
  exact tie_determine_beta c rn β ll lp lq n fuel β step minStep

/-- **`adaptive_progress` for the translated source**: for every population, `β < 1`, `tol > 0`,
    `min_step ≥ 0` the source's `determine_beta` strictly increases the temperature, stays `≤ 1`, advances
    by at least half the tolerance (or to 1) and honours the minimum-step floor -/
theorem src_adaptive_progress (c : BetaCfg ℝ) (rn : ℝ → ℕ) (ll lp lq : List ℝ) (n fuel : ℕ)
    (β step minStep : ℝ) (hn : n = (unnormLogW β β ll lp lq).length)
    (ha : c.adaptive = true) (hβ : β < 1) (htol : 0 < c.tol) (hm : 0 ≤ minStep) :
    let r := srcDetermineBeta c rn ll lp lq n fuel β step minStep
    β < r.1 ∧ r.1 ≤ 1 ∧ min 1 (β + c.tol / 2) ≤ r.1 ∧ min 1 (β + minStep) ≤ r.1 ∧ minStep ≤ r.2 := by
  obtain ⟨β', m', h, h1, h2, h3, -, h5, h6⟩ :=
    adaptive_progress c rn (fun b => effAt β b ll lp lq) fuel β step minStep ha hβ htol hm
  rw [src_eq_model c rn ll lp lq n fuel β step minStep hn] at h
  have e : srcDetermineBeta c rn ll lp lq n fuel β step minStep = (β', m') := by
    injection h
  simp only [e]
  exact ⟨h1, h2, h3, h5, h6⟩

/-- **fixed schedule for the translated source**: with `adaptive=False` and `beta_step = 1/n` the source's
    rule maps `k/n` to `(k+1)/n` for `k < n` (so `n` calls go 0 → 1 exactly), for every rounding function that is exact on integers -/
theorem src_fixed_step (c : BetaCfg ℝ) (rn : ℝ → ℕ) (hr : ∀ k : ℕ, rn (k : ℝ) = k) (ll lp lq : List ℝ)
    (N fuel : ℕ) (n k : ℕ) (hn : 1 ≤ n) (hk : k < n) (minStep : ℝ) (ha : c.adaptive = false) :
    (srcDetermineBeta c rn ll lp lq N fuel ((k : ℝ) / n) (1 / (n : ℝ)) minStep).1
      = ((k + 1 : ℕ) : ℝ) / n := by
  have h := tie_determine_beta c rn ((k : ℝ) / n) ll lp lq N fuel ((k : ℝ) / n) (1 / (n : ℝ)) minStep
  rw [determineBeta_fixed c rn _ fuel _ _ minStep ha] at h
  have e : srcDetermineBeta c rn ll lp lq N fuel ((k : ℝ) / n) (1 / (n : ℝ)) minStep
      = (fixedNext rn ((k : ℝ) / n) (1 / (n : ℝ)), minStep) := by
    unfold srcDetermineBeta; injection h with h; exact h.symm
  rw [e]
  exact fixed_exact rn hr n k hn hk

/-- non-vacuity: the hypotheses of `src_adaptive_progress` are met by a two-particle population -/
example : (2 : ℕ) = (unnormLogW (0 : ℝ) 0 [0, 1] [0, 0] [0, 0]).length ∧ (0 : ℝ) < 1 := by
  simp [unnormLogW]

end C06
