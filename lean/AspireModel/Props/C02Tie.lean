import AspireModel.Props.C02
import AspireModel.Lemmas.TieUtils
import AspireModel.Gen.SrcSamples
/-
  C02, tie to the source: the definitions in `Gen/SrcUtils.lean` / `Gen/SrcSamples.lean` are REGENERATED from
  `/repo/src/aspire/{utils,samples}.py` by `harness/translate/py2lean.py` on every run of the check.  The
  theorems below prove that the translated source is the hand-written model (`tie_*`, generic in the scalar,
  hence also at `Float`: the operations and their order are the same, which is what the range-safety
  theorems of `Props/C02.lean` need), and restate the main C02 theorems for the translated source (`src_*`).
  If the source changes so that one of them no longer checks, the C02 check reports a broken proof obligation.
-/
set_option linter.unusedSectionVars false
namespace C02
open Model

section generic
variable {α : Type} [Num α] [DecidableLT α] [DecidableLE α]

theorem tie_logsumexp (x : List α) : Gen.logsumexp x = Model.logsumexp x := Tie.logsumexp_eq x

theorem tie_effective_sample_size (lw : List α) : Gen.effective_sample_size lw = Model.essOf lw :=
  Tie.effective_sample_size_eq lw

theorem map3_logW (ll lp lq : List α) :
    Gen.map3 (fun l p q => ((l + p) - q)) ll lp lq = Model.logW ll lp lq := by
  fun_induction Model.logW ll lp lq <;> simp_all [Gen.map3]

/-- `self.log_w = log_likelihood + log_prior - log_q`, row by row -/
theorem tie_log_w (ll lp lq : List α) (n : Nat) :
    (Gen.compute_weights ll lp lq n).log_w = (Model.computeWeights ll lp lq).logW := by
  simp [Gen.compute_weights, Model.computeWeights, map3_logW]

theorem tie_log_evidence (ll lp lq : List α) (n : Nat) (hn : n = (Model.logW ll lp lq).length) :
    (Gen.compute_weights ll lp lq n).log_evidence = (Model.computeWeights ll lp lq).logZ := by
  subst hn
  simp [Gen.compute_weights, Model.computeWeights, map3_logW, Tie.logsumexp_eq]

theorem tie_weights (ll lp lq : List α) (n : Nat) :
    (Gen.compute_weights ll lp lq n).weights = (Model.computeWeights ll lp lq).weights := by
  simp [Gen.compute_weights, Model.computeWeights, map3_logW]

theorem tie_evidence (ll lp lq : List α) (n : Nat) (hn : n = (Model.logW ll lp lq).length) :
    (Gen.compute_weights ll lp lq n).evidence = (Model.computeWeights ll lp lq).evidence := by
  subst hn
  simp [Gen.compute_weights, Model.computeWeights, map3_logW, Tie.logsumexp_eq]

/-- the ESS is computed on `log_w - max(log_w)` with the stabilised helper: same operations as the model -/
theorem tie_effective_sample_size_field (ll lp lq : List α) (n : Nat) :
    (Gen.compute_weights ll lp lq n).effective_sample_size = (Model.computeWeights ll lp lq).ess := by
  simp [Gen.compute_weights, Model.computeWeights, map3_logW, Tie.logsumexp_eq, Model.essShifted, Model.essOf]

theorem tie_scaled_weights (lw : List α) : Gen.scaled_weights lw = Model.scaledWeights lw := by
  first
    | rfl
    | simp [Gen.scaled_weights, Model.scaledWeights, Model.shiftedWeights]

/-- `accept = (log_w - max log_w) > log_u` -/
theorem tie_rejection_accept (lw lu : List α) : Gen.rejection_accept lw lu = Model.rejectionKeep lw lu := by
  simp [Gen.rejection_accept, Model.rejectionKeep, List.zipWith_map_left]

end generic

/-- the relative error of the evidence: over ℝ (the source forms `n * (n - 1)` in the integers, the model in
    the scalars; they agree for every `n ≥ 1`) -/
theorem tie_log_evidence_error (ll lp lq : List ℝ) (n : Nat) (hn : n = (logW ll lp lq).length) (h1 : 1 ≤ n) :
    (Gen.compute_weights ll lp lq n).log_evidence_error = (computeWeights ll lp lq).logEvidenceError := by
  subst hn
  simp only [Gen.compute_weights, computeWeights, map3_logW, relErrShifted, shiftedWeights, Gen.vsum, Gen.vmax]
  congr 3
  push_cast [Nat.cast_sub h1]
  ring

theorem tie_evidence_error (ll lp lq : List ℝ) (n : Nat) (hn : n = (logW ll lp lq).length) (h1 : 1 ≤ n) :
    (Gen.compute_weights ll lp lq n).evidence_error = (computeWeights ll lp lq).evidenceError := by
  have h := tie_log_evidence_error ll lp lq n hn h1
  have h2 := tie_evidence ll lp lq n hn
  simp only [Gen.compute_weights, computeWeights] at h h2 ⊢
  rw [h, h2]

/-! ### the main C02 statements, for the translated source -/

/-- what `Samples.compute_weights` stores in `log_evidence` is the log of the mean weight -/
theorem src_log_evidence_is_log_mean_weight (ll lp lq : List ℝ) (n : Nat) (hn : n = (logW ll lp lq).length)
    (h : logW ll lp lq ≠ []) :
    (Gen.compute_weights ll lp lq n).log_evidence
      = Real.log (S1 (logW ll lp lq) / ((logW ll lp lq).length : ℝ)) := by
  rw [tie_log_evidence ll lp lq n hn]; exact logZ_eq ll lp lq h

/-- what it stores in `effective_sample_size` is `(Σw)²/Σw²` and lies in `[1, N]` -/
theorem src_ess (ll lp lq : List ℝ) (n : Nat) (h : logW ll lp lq ≠ []) :
    (Gen.compute_weights ll lp lq n).effective_sample_size = S1 (logW ll lp lq) ^ 2 / S2 (logW ll lp lq) ∧
    1 ≤ (Gen.compute_weights ll lp lq n).effective_sample_size ∧
    (Gen.compute_weights ll lp lq n).effective_sample_size ≤ ((logW ll lp lq).length : ℝ) := by
  rw [tie_effective_sample_size_field]
  exact ⟨ess_eq ll lp lq h, ess_bounds ll lp lq h⟩

/-- non-vacuity: a two-particle set satisfies the hypotheses -/
example : logW [0, 1] [0, 0] [0, (0 : ℝ)] ≠ [] ∧ (2 : Nat) = (logW [0, 1] [0, 0] [0, (0 : ℝ)]).length := by
  simp [logW]

end C02
