import AspireModel.Model.Entropy
import AspireModel.Props.C20
/-
  C20 — non-interference: a run whose every consumption site reads the user's generator is a function of that generator alone
  (bit-identical whatever the ambient entropy is, the ambient generator untouched, the user's generator advanced by exactly the
  run's draws), for EVERY computation (`RProg`), every generator type and every `next`; with a well-formed wiring table that is
  every run on every accepted route; and a site that reads the ambient generator does make the result depend on it.
  Core Lean only.
-/
namespace C20
open Model

variable {V R G : Type}

/-- **non-interference.**  If every reachable site reads the user's generator, the run equals the single-generator run on the
    user's generator and leaves the ambient generator alone. -/
theorem exec_eq_run1 (next : G → V × G) (srcOf : Site → Src) (p : RProg V R)
    (h : p.UsesOnly (fun s => srcOf s = .user)) (gu ga : G) :
    p.exec next srcOf gu ga = ((p.run1 next gu).1, (p.run1 next gu).2, ga) := by
  induction h generalizing gu ga with
  | ret r => rfl
  | draw s k hs _ ih =>
    simp only [RProg.exec, RProg.run1, hs]
    exact ih _ _ _

/-- **reproducibility**: same explicit generator ⇒ bit-identical result and final generator state, whatever the ambient
    entropy of the two runs -/
theorem reproducible (next : G → V × G) (srcOf : Site → Src) (p : RProg V R)
    (h : p.UsesOnly (fun s => srcOf s = .user)) (gu ga₁ ga₂ : G) :
    (p.exec next srcOf gu ga₁).1 = (p.exec next srcOf gu ga₂).1 ∧
    (p.exec next srcOf gu ga₁).2.1 = (p.exec next srcOf gu ga₂).2.1 := by
  rw [exec_eq_run1 next srcOf p h, exec_eq_run1 next srcOf p h]
  exact ⟨rfl, rfl⟩

/-- the ambient generator is not consumed -/
theorem ambient_untouched (next : G → V × G) (srcOf : Site → Src) (p : RProg V R)
    (h : p.UsesOnly (fun s => srcOf s = .user)) (gu ga : G) : (p.exec next srcOf gu ga).2.2 = ga := by
  rw [exec_eq_run1 next srcOf p h]

/-- **the user's generator is the one actually used**: it is advanced by exactly the number of draws of the run
    (`adv n g` = `g` advanced `n` times) -/
def adv (next : G → V × G) : Nat → G → G
  | 0, g => g
  | n + 1, g => adv next n (next g).2

theorem run1_advances (next : G → V × G) (p : RProg V R) (g : G) :
    (p.run1 next g).2 = adv next (p.drawCount next g) g := by
  induction p generalizing g with
  | ret r => rfl
  | draw s k ih =>
    simp only [RProg.run1, RProg.drawCount]
    rw [ih]
    have : ∀ (n : Nat) (g : G), adv next (n + 1) g = adv next n (next g).2 := fun _ _ => rfl
    rw [this]

theorem user_generator_advanced (next : G → V × G) (srcOf : Site → Src) (p : RProg V R)
    (h : p.UsesOnly (fun s => srcOf s = .user)) (gu ga : G) :
    (p.exec next srcOf gu ga).2.1 = adv next (p.drawCount next gu) gu := by
  rw [exec_eq_run1 next srcOf p h]
  exact run1_advances next p gu

/-- with a well-formed wiring table, an accepted route and a seeded proposal, EVERY site reads the user's source -/
theorem siteSrc_user (t : SamplerTbl) (hw : WiringOK t = true) (r : Route) (ha : accepted t r = true) (s : Site) :
    siteSrc t r true s = .user := by
  cases s <;> simp [siteSrc, user_rng_is_used t hw r ha]

/-- **C20 for every run**: well-formed wiring, accepted route, seeded proposal ⇒ every computation whatsoever returns the same
    result and leaves the user's generator in the same state under any two ambient entropies -/
theorem runs_reproducible (t : SamplerTbl) (hw : WiringOK t = true) (r : Route) (ha : accepted t r = true)
    (next : G → V × G) (p : RProg V R) (gu ga₁ ga₂ : G) :
    (p.exec next (siteSrc t r true) gu ga₁).1 = (p.exec next (siteSrc t r true) gu ga₂).1 ∧
    (p.exec next (siteSrc t r true) gu ga₁).2.1 = (p.exec next (siteSrc t r true) gu ga₂).2.1 := by
  apply reproducible
  have all : ∀ q : RProg V R, q.UsesOnly (fun s => siteSrc t r true s = .user) := by
    intro q
    induction q with
    | ret r => exact .ret r
    | draw s k ih => exact .draw s k (siteSrc_user t hw r ha s) ih
  exact all p

/-! ### the hypothesis is needed: one ambient site is enough to lose reproducibility -/

/-- a counter generator: the drawn value is the state -/
def ctr (g : Nat) : Nat × Nat := (g, g + 1)

/-- one resampling draw, returned as the result -/
def oneResample : RProg Nat Nat := .draw .resample fun v => .ret v

/-- on the pinned MiniPCNSMC table the top-level route reads the ambient generator at the resampling site, and two runs
    with the same user generator differ -/
theorem pinned_not_reproducible :
    (oneResample.exec ctr (siteSrc pinnedMiniPCNSMC .top true) 7 100).1 ≠
    (oneResample.exec ctr (siteSrc pinnedMiniPCNSMC .top true) 7 200).1 := by decide

/-- on the repaired table the same two runs agree and return the user's value -/
theorem fixed_reproducible :
    (oneResample.exec ctr (siteSrc fixedMiniPCNSMC .top true) 7 100).1 = 7 ∧
    (oneResample.exec ctr (siteSrc fixedMiniPCNSMC .top true) 7 200).1 = 7 := by decide

/-- an unseeded proposal makes the proposal's sites ambient: drawing from it is not reproducible even with good wiring -/
theorem unseeded_flow_not_reproducible :
    ((RProg.draw .flowSample fun v => .ret v : RProg Nat Nat).exec ctr (siteSrc fixedMiniPCNSMC .top false) 7 100).1 ≠
    ((RProg.draw .flowSample fun v => .ret v : RProg Nat Nat).exec ctr (siteSrc fixedMiniPCNSMC .top false) 7 200).1 := by
  decide

/-- non-vacuity: a data-dependent computation (draw until an even value, at most 3 times, then one kernel draw) all of whose
    sites are covered by the theorem -/
def adaptiveProg : Nat → RProg Nat Nat
  | 0 => .draw .kernel fun v => .ret v
  | n + 1 => .draw .resample fun v => if v % 2 = 0 then .draw .kernel fun w => .ret (v + w) else adaptiveProg n

example : ((adaptiveProg 3).exec ctr (siteSrc fixedMiniPCNSMC .ctor true) 7 100) = (17, 10, 100) := by decide

end C20
