import AspireModel.Props.C04
import AspireModel.Lemmas.TieLists
import AspireModel.Gen.SrcTransforms
/-
  C04, tie to the source: `utils.logit`, `utils.sigmoid`, `BoundedTransform.__init__` (the two derived fields),
  `to_unit_interval`, `from_unit_interval`, `LogitTransform.forward/inverse`, `ProbitTransform.forward/inverse`,
  `PeriodicTransform.forward/inverse`, `AffineTransform.forward/inverse`, translated from `/repo` on every run
  (`Gen/SrcTransforms.lean`, one ROW of coordinates at a time: per-column parameters are vectors, `xp.ones(n_rows)` is the scalar 1),
  are the coordinate-level functions of the model (`Model/Transforms.lean`: `logit1`, `sigmoid1`, `probit1`, `probitInv1`,
  `periodic1`, `affineFwd`, `affineInv`) applied to every coordinate, with the row's log-Jacobian the sum of the coordinate terms
  plus the constant `-Σ log(upper - lower)` / `-Σ log|std|`.  Over ℝ (`log1p(-x)` is `log(1 - x)`, `0.5 Σ = Σ 0.5`).
  `CompositeTransform` itself (mask bookkeeping with `update_at_indices`) is not translated: its correspondence is behavioural.
-/
set_option linter.unusedSectionVars false
namespace C04
open Model

theorem map_map3 {α β γ δ ε : Type} (g : δ → ε) (f : α → β → γ → δ) (a : List α) (b : List β) (c : List γ) :
    (Gen.map3 f a b c).map g = Gen.map3 (fun x y z => g (f x y z)) a b c := by
  induction a generalizing b c with
  | nil => simp [Gen.map3]
  | cons x xs ih => cases b <;> cases c <;> simp_all [Gen.map3]

theorem sum_map3_mul_left {α β γ : Type} (k : ℝ) (f : α → β → γ → ℝ) (a : List α) (b : List β) (c : List γ) :
    (Gen.map3 (fun x y z => k * f x y z) a b c).sum = k * (Gen.map3 f a b c).sum := by
  induction a generalizing b c with
  | nil => simp [Gen.map3]
  | cons x xs ih => cases b <;> cases c <;> simp_all [Gen.map3, mul_add]

theorem sum_map_neg' {α : Type} (f : α → ℝ) (l : List α) : (l.map fun v => -f v).sum = -(l.map f).sum := by
  induction l with
  | nil => simp
  | cons x xs ih => simp only [List.map_cons, List.sum_cons, ih]; ring

theorem log1p_neg (v : ℝ) : Gen.log1p (-v) = Real.log (1 - v) := by
  simp [Gen.log1p, sub_eq_add_neg]

/-- source of `utils.logit(x, eps)` with a non-zero `eps` = `logit1 (some eps)` on every coordinate, log-Jacobian summed -/
theorem tie_logit (x : List ℝ) (e : ℝ) (he : e ≠ 0) :
    Gen.logit x (some e) = (x.map (fun v => (logit1 (some e) v).1), sumL (x.map fun v => (logit1 (some e) v).2)) := by
  have hne : Gen.ne e 0 := lt_or_gt_of_ne he
  simp only [Gen.logit, hne, if_true, Gen.vsum, List.map_map, Function.comp_def, logit1, log1p_neg, Gen.clipS, clipS, log_real]

theorem tie_logit_none (x : List ℝ) :
    Gen.logit x none = (x.map (fun v => (logit1 none v).1), sumL (x.map fun v => (logit1 none v).2)) := by
  simp only [Gen.logit, Gen.vsum, logit1, log1p_neg, log_real]

/-- source of `utils.sigmoid` = `sigmoid1` on every coordinate -/
theorem tie_sigmoid (y : List ℝ) :
    Gen.sigmoid y = (y.map (fun v => (sigmoid1 v).1), sumL (y.map fun v => (sigmoid1 v).2)) := by
  simp only [Gen.sigmoid, Gen.vsum, List.map_map, Function.comp_def, sigmoid1, log1p_neg, exp_real, log_real]

/-- the two derived fields of `BoundedTransform.__init__` -/
theorem tie_bounded_init (lo hi : List ℝ) :
    Gen.bounded_init lo hi
      = (List.zipWith (fun l h => h - l) lo hi, -(sumL ((List.zipWith (fun l h => h - l) lo hi).map Real.log))) := by
  simp [Gen.bounded_init, Gen.vsum]

/-- `LogitTransform.forward` on one row: every coordinate is `logit1 (some eps)` of the unit-interval image
    `(x - lower)/denom`; the row's log-Jacobian is the sum of the coordinate terms plus the scaling constant -/
theorem tie_logit_forward (lo hi dn : List ℝ) (sc e : ℝ) (he : e ≠ 0) (x : List ℝ) :
    Gen.logit_forward lo hi dn sc e x
      = (Gen.map3 (fun d l v => (logit1 (some e) ((v - l) / d)).1) dn lo x,
         sumL (Gen.map3 (fun d l v => (logit1 (some e) ((v - l) / d)).2) dn lo x) + sc * 1) := by
  simp only [Gen.logit_forward, Gen.to_unit_interval, tie_logit _ _ he, map_map3]

/-- `LogitTransform.inverse` on one row: `sigmoid1`, then `denom * u + lower` -/
theorem tie_logit_inverse (lo hi dn : List ℝ) (sc e : ℝ) (y : List ℝ) :
    Gen.logit_inverse lo hi dn sc e y
      = (Gen.map3 (fun d l u => d * u + l) dn lo (y.map fun v => (sigmoid1 v).1),
         sumL (y.map fun v => (sigmoid1 v).2) + (-sc) * 1) := by
  simp only [Gen.logit_inverse, Gen.from_unit_interval, tie_sigmoid]

-- (`C04.fwdCoord_logit`, `fwdCoord_probit`, `invCoord_logit`, `invCoord_probit` in Props/C04.lean identify these coordinate functions
-- with what `Model.forwardRow` / `inverseRow` do to a bounded coordinate)

/-- `ProbitTransform.forward` on one row = `probit1` on every coordinate -/
theorem tie_probit_forward (pc : ProbitConsts ℝ) (lo hi dn : List ℝ) (sc e : ℝ) (x : List ℝ) :
    Gen.probit_forward lo hi dn sc e x pc.erfinv pc.sqrt2 pc.log2pi
      = (Gen.map3 (fun d l v => (probit1 pc e ((v - l) / d)).1) dn lo x,
         sumL (Gen.map3 (fun d l v => (probit1 pc e ((v - l) / d)).2) dn lo x) + sc * 1) := by
  simp only [Gen.probit_forward, Gen.to_unit_interval, map_map3, List.map_map, Function.comp_def, Gen.vsum, probit1, probit1.half',
    Gen.clipS, clipS, half]
  congr 1
  congr 1
  rw [sumL_eq_sum, sumL_eq_sum, sum_map3_mul_left]

/-- `ProbitTransform.inverse` on one row = `probitInv1` on every coordinate, then `denom * u + lower` -/
theorem tie_probit_inverse (pc : ProbitConsts ℝ) (lo hi dn : List ℝ) (sc e : ℝ) (y : List ℝ) :
    Gen.probit_inverse lo hi dn sc e y pc.erf pc.sqrt2 pc.log2pi
      = (Gen.map3 (fun d l u => d * u + l) dn lo (y.map fun v => (probitInv1 pc v).1),
         sumL (y.map fun v => (probitInv1 pc v).2) + (-sc) * 1) := by
  simp only [Gen.probit_inverse, Gen.from_unit_interval, Gen.vsum, probitInv1, probitInv1.half', half, List.map_map, Function.comp_def]
  congr 1
  congr 1
  rw [sumL_eq_sum, sumL_eq_sum, sum_map_neg']

/-- `PeriodicTransform.forward` / `inverse` on one row = `periodic1` on every coordinate (`_width = upper - lower`), zero log-Jacobian -/
theorem tie_periodic_forward (fm : ℝ → ℝ → ℝ) (lo hi : List ℝ) (x : List ℝ) :
    Gen.periodic_forward lo hi (List.zipWith (fun l h => h - l) lo hi) x fm
      = (Gen.map3 (fun w l v => l + fm (v - l) w) (List.zipWith (fun l h => h - l) lo hi) lo x, 0) := by
  simp [Gen.periodic_forward]

theorem tie_periodic_inverse (fm : ℝ → ℝ → ℝ) (lo hi : List ℝ) (y : List ℝ) :
    Gen.periodic_inverse lo hi (List.zipWith (fun l h => h - l) lo hi) y fm
      = (Gen.periodic_forward lo hi (List.zipWith (fun l h => h - l) lo hi) y fm) := by
  simp [Gen.periodic_forward, Gen.periodic_inverse]

theorem periodic1_def (fm : ℝ → ℝ → ℝ) (lo hi x : ℝ) : periodic1 fm lo hi x = lo + fm (x - lo) (hi - lo) := rfl

/-- `AffineTransform.forward` / `inverse` on one row: `(x - mean)/std`, `y * std + mean`; the log-Jacobian is the stored constant -/
theorem tie_affine_forward (mean std : List ℝ) (lj : ℝ) (x : List ℝ) :
    Gen.affine_forward mean std lj x = (Gen.map3 (fun m s v => (v - m) / s) mean std x, lj * 1) := by
  simp [Gen.affine_forward]

theorem tie_affine_inverse (mean std : List ℝ) (lj : ℝ) (y : List ℝ) :
    Gen.affine_inverse mean std lj y = (Gen.map3 (fun m s v => v * s + m) mean std y, (-lj) * 1) := by
  simp [Gen.affine_inverse]

/-- the model's `affineFwd` is the same row map (values), and its log-Jacobian is the constant `AffineTransform.fit` stores -/
theorem affineFwd_values (mean std x : List ℝ) :
    (affineFwd mean std x).1 = Gen.map3 (fun m s v => (v - m) / s) mean std x := by
  simp only [affineFwd]
  induction x generalizing mean std with
  | nil => cases mean <;> cases std <;> simp [Gen.map3]
  | cons a as ih => cases mean <;> cases std <;> simp_all [Gen.map3]

theorem affineInv_values (mean std y : List ℝ) :
    (affineInv mean std y).1 = Gen.map3 (fun m s v => v * s + m) mean std y := by
  simp only [affineInv]
  induction y generalizing mean std with
  | nil => cases mean <;> cases std <;> simp [Gen.map3]
  | cons a as ih => cases mean <;> cases std <;> simp_all [Gen.map3]

/-- hence: the source's affine stage is the model's, for the Jacobian constant that `fit` stores (`-Σ log|std|`) -/
theorem src_affine_forward (mean std x : List ℝ) :
    Gen.affine_forward mean std (-(sumL (std.map fun s => Real.log (absS s)))) x = ((affineFwd mean std x).1, (affineFwd mean std x).2 * 1) := by
  rw [tie_affine_forward, affineFwd_values]; simp [affineFwd]

theorem src_affine_inverse (mean std y : List ℝ) :
    Gen.affine_inverse mean std (-(sumL (std.map fun s => Real.log (absS s)))) y = ((affineInv mean std y).1, (affineInv mean std y).2 * 1) := by
  rw [tie_affine_inverse, affineInv_values]; simp [affineInv]

/-- the inverse log-Jacobian of the source's logit stage is the negative of its forward one at corresponding points, coordinate by
    coordinate (inside the clipping margin): the C04 statement, read off the translated source for one coordinate -/
theorem src_logit_inverse_logJ_neg (lo hi e : ℝ) (he : e ≠ 0) (y : ℝ) (hlt : lo < hi)
    (h1 : e ≤ (sigmoid1 y).1) (h2 : (sigmoid1 y).1 ≤ 1 - e) :
    (Gen.logit_inverse [lo] [hi] [hi - lo] (-Real.log (hi - lo)) e [y]).2
      = -(Gen.logit_forward [lo] [hi] [hi - lo] (-Real.log (hi - lo)) e (Gen.logit_inverse [lo] [hi] [hi - lo] (-Real.log (hi - lo)) e [y]).1).2 := by
  have hd : hi - lo ≠ 0 := sub_ne_zero.mpr hlt.ne'
  rw [tie_logit_inverse, tie_logit_forward _ _ _ _ _ he]
  simp only [List.map_cons, List.map_nil, Gen.map3, sumL, add_zero, mul_one]
  have hu : ((hi - lo) * (sigmoid1 y).1 + lo - lo) / (hi - lo) = (sigmoid1 y).1 := by
    rw [add_sub_cancel_right, mul_div_cancel_left₀ _ hd]
  rw [hu, logit1_clip_id e _ h1 h2, logit_sigmoid_logJ]
  ring

/-! ### the C04 statements for the translated source, rows of any dimension -/


/-- one coordinate: inside the clipping margin the source's logit stage followed by its inverse is the identity -/
theorem logit_coord_round_trip (lo hi e v : ℝ) (hlt : lo < hi) (he : 0 < e)
    (h1 : e ≤ (v - lo) / (hi - lo)) (h2 : (v - lo) / (hi - lo) ≤ 1 - e) :
    (hi - lo) * (sigmoid1 (logit1 (some e) ((v - lo) / (hi - lo))).1).1 + lo = v := by
  have hd : hi - lo ≠ 0 := sub_ne_zero.mpr hlt.ne'
  rw [logit1_clip_id e _ h1 h2, sigmoid_logit_none _ (by linarith) (by linarith)]
  field_simp
  ring

/-- admissible row: every coordinate strictly inside its bounds, outside the clipping margin -/
def AdmRow (e : ℝ) : List ℝ → List ℝ → List ℝ → Prop
  | l :: ls, h :: hs, v :: vs => l < h ∧ e ≤ (v - l) / (h - l) ∧ (v - l) / (h - l) ≤ 1 - e ∧ AdmRow e ls hs vs
  | [], [], [] => True
  | _, _, _ => False

/-- **round trip of the translated source** (`LogitTransform.inverse(LogitTransform.forward(x)) = x`), for a row of any dimension,
    with the derived fields as `BoundedTransform.__init__` computes them -/
theorem src_logit_round_trip (e : ℝ) (he : 0 < e) (lo hi x : List ℝ) (h : AdmRow e lo hi x) :
    (Gen.logit_inverse lo hi (Gen.bounded_init lo hi).1 (Gen.bounded_init lo hi).2 e
      (Gen.logit_forward lo hi (Gen.bounded_init lo hi).1 (Gen.bounded_init lo hi).2 e x).1).1 = x := by
  rw [tie_logit_inverse, tie_logit_forward _ _ _ _ _ he.ne', tie_bounded_init]
  simp only
  induction lo generalizing hi x with
  | nil =>
    cases hi <;> cases x <;> simp_all [AdmRow, Gen.map3]
  | cons l ls ih =>
    cases hi with
    | nil => cases x <;> simp [AdmRow] at h
    | cons hh hs =>
      cases x with
      | nil => simp [AdmRow] at h
      | cons v vs =>
        obtain ⟨hlt, h1, h2, hrest⟩ := h
        simp only [List.zipWith_cons_cons, Gen.map3, List.map_cons, List.cons.injEq]
        exact ⟨logit_coord_round_trip l hh e v hlt he h1 h2, ih hs vs hrest⟩

example : AdmRow 0.25 [0, 1] [1, 3] [0.5, 2] := by
  simp only [AdmRow]; norm_num



theorem logit_coord_logJ (e u : ℝ) (he : 0 < e) (h1 : e ≤ u) (h2 : u ≤ 1 - e) :
    (sigmoid1 (logit1 (some e) u).1).2 = -(logit1 (some e) u).2 := by
  rw [logit1_clip_id e u h1 h2]
  have h := logit_sigmoid_logJ (logit1 none u).1
  rw [sigmoid_logit_none u (by linarith) (by linarith)] at h
  linarith

theorem sum_logJ (e : ℝ) (he : 0 < e) (lo hi x : List ℝ) (h : AdmRow e lo hi x) :
    sumL ((Gen.map3 (fun d l v => (logit1 (some e) ((v - l) / d)).1) (List.zipWith (fun l h => h - l) lo hi) lo x).map fun v => (sigmoid1 v).2)
      = -sumL (Gen.map3 (fun d l v => (logit1 (some e) ((v - l) / d)).2) (List.zipWith (fun l h => h - l) lo hi) lo x) := by
  induction lo generalizing hi x with
  | nil => cases hi <;> cases x <;> simp_all [AdmRow, Gen.map3, sumL]
  | cons l ls ih =>
    cases hi with
    | nil => cases x <;> simp [AdmRow] at h
    | cons hh hs =>
      cases x with
      | nil => simp [AdmRow] at h
      | cons v vs =>
        obtain ⟨hlt, h1, h2, hrest⟩ := h
        simp only [List.zipWith_cons_cons, Gen.map3, List.map_cons, sumL]
        rw [ih hs vs hrest, logit_coord_logJ e _ he h1 h2]
        ring

theorem src_logit_inverse_logJ_neg_row (e : ℝ) (he : 0 < e) (lo hi x : List ℝ) (h : AdmRow e lo hi x) :
    (Gen.logit_inverse lo hi (Gen.bounded_init lo hi).1 (Gen.bounded_init lo hi).2 e
      (Gen.logit_forward lo hi (Gen.bounded_init lo hi).1 (Gen.bounded_init lo hi).2 e x).1).2
    = -(Gen.logit_forward lo hi (Gen.bounded_init lo hi).1 (Gen.bounded_init lo hi).2 e x).2 := by
  rw [tie_logit_inverse, tie_logit_forward _ _ _ _ _ he.ne', tie_bounded_init]
  simp only
  rw [sum_logJ e he lo hi x h]
  ring

example : (0.25 : ℝ) ≠ 0 := by norm_num

end C04
