import AspireModel.Model.Smc
import AspireModel.Props.C18
/-
  C08 — the log-evidence returned by an SMC run is the sum over iterations of the recorded log
  mean incremental weights, each computed on the population before that iteration's resampling
  with the temperatures actually used; the uncertainty is the root of the summed per-step
  variances; neither depends on the resampling noise of that step, on the final enlargement or on
  checkpointing.
  Model: `Model/Smc.lean` (the loop), lemmas on the loop from `Props/C18.lean`.  Core Lean only.
  `k.ratio p b0 b1` stands for `samples.log_evidence_ratio(b1)` on population `p` whose current
  temperature is `b0` (= log mean incremental weight, `Props/C09`); `k.sumS`, `k.rootSumS` for
  `sum(·)` and `sqrt(sum(·))`.  All statements hold for every `Kit`, `SmcCfg` and step list.
-/
namespace C08
open Model C18
variable {P S : Type}

/-! ### 8. the evidence is the sum of the recorded ratios -/

theorem finish_evidence {k : Kit P S} {cfg : SmcCfg S} {st : St P S} {rest : List (Step P)}
    {r : Result P S} (h : finish k cfg st rest = some r) :
    r.logZ = k.sumS r.st.hist.ratio ∧ r.logZerr = k.rootSumS r.st.hist.var ∧
    r.logZ = k.sumS st.hist.ratio ∧ r.logZerr = k.rootSumS st.hist.var := by
  rcases finish_some h with ⟨-, rfl⟩ | ⟨-, s, rest', -, rfl⟩ <;> simp [finishGo, enlarge]

theorem runFrom_evidence {k : Kit P S} {cfg : SmcCfg S} {flag : Bool} {st0 : St P S}
    {steps : List (Step P)} {r : Result P S} (h : runFrom k cfg flag st0 steps = .done r) :
    r.logZ = k.sumS r.st.hist.ratio ∧ r.logZerr = k.rootSumS r.st.hist.var := by
  rcases runFrom_done h with ⟨-, st, rest, -, hf⟩ | ⟨-, hf⟩
  · exact ⟨(finish_evidence hf).1, (finish_evidence hf).2.1⟩
  · exact ⟨(finish_evidence hf).1, (finish_evidence hf).2.1⟩

/-- the returned log-evidence is `sum` of the recorded per-iteration ratios, the returned
    uncertainty is `sqrt(sum(·))` of the recorded per-iteration variances -/
theorem evidence_is_sum_of_recorded_ratios {k : Kit P S} {cfg : SmcCfg S} {zero : S} {p0 : P}
    {steps : List (Step P)} {r : Result P S} (h : run k cfg zero p0 steps = .done r) :
    r.logZ = k.sumS r.st.hist.ratio ∧ r.logZerr = k.rootSumS r.st.hist.var :=
  runFrom_evidence h

/-- the same for a resumed run (the recorded series then contain the entries from before and
    after the interruption) -/
theorem evidence_is_sum_of_recorded_ratios_resume {k : Kit P S} {cfg : SmcCfg S} {c : Ckpt P S}
    {allSteps : List (Step P)} {r : Result P S} (h : resume k cfg c allSteps = .done r) :
    r.logZ = k.sumS r.st.hist.ratio ∧ r.logZerr = k.rootSumS r.st.hist.var :=
  runFrom_evidence h

/-- the forced final checkpoint stores the returned evidence and the final history -/
theorem final_ckpt_evidence {k : Kit P S} {cfg : SmcCfg S} {st : St P S} {rest : List (Step P)}
    {r : Result P S} (h : finish k cfg st rest = some r) :
    ∀ c ∈ r.st.ckpts, c ∈ st.ckpts ∨
      (c.logZ = some r.logZ ∧ c.hist = st.hist ∧ c.iter = st.iter ∧ c.beta = st.beta) := by
  intro c hc
  rcases finish_some h with ⟨-, rfl⟩ | ⟨-, s, rest', -, rfl⟩
  · simp only [finishGo] at hc ⊢
    rcases mc_ckpts cfg true st (some (k.sumS st.hist.ratio)) with e | e <;> rw [e] at hc
    · exact Or.inl hc
    · rcases List.mem_append.1 hc with hc | hc
      · exact Or.inl hc
      · rw [List.mem_singleton] at hc; subst hc; exact Or.inr ⟨rfl, rfl, rfl, rfl⟩
  · simp only [finishGo] at hc ⊢
    rcases mc_ckpts cfg true (enlarge st s) (some (k.sumS (enlarge st s).hist.ratio)) with e | e <;>
      rw [e] at hc
    · exact Or.inl hc
    · rcases List.mem_append.1 hc with hc | hc
      · exact Or.inl hc
      · rw [List.mem_singleton] at hc; subst hc; exact Or.inr ⟨rfl, rfl, rfl, rfl⟩

/-! ### each recorded ratio is the definition on the stored population before that iteration -/

/-- the recorded ratio series, recomputed from the stored populations and temperatures:
    entry `t` is `ratio(pops[t], (0 :: beta)[t], beta[t])` -/
theorem SeriesOK.ratio_eq {k : Kit P S} {zero : S} {h : Hist P S} {n : Nat} {β : S}
    (H : SeriesOK k zero h n β) :
    h.ratio = List.zipWith (fun p (bb : S × S) => k.ratio p bb.1 bb.2) h.pops
                (List.zip (zero :: h.beta) h.beta) ∧
    h.var = List.zipWith (fun p (bb : S × S) => k.var p bb.1 bb.2) h.pops
                (List.zip (zero :: h.beta) h.beta) := by
  have e1 := H.len_beta; have e5 := H.len_ratio; have e6 := H.len_var; have e7 := H.len_pops
  constructor <;>
  · apply List.ext_getElem?
    intro i
    by_cases hi : i < n
    · have hp : h.pops[i]? = some (h.pops[i]'(by omega)) := List.getElem?_eq_getElem _
      have hb1 : h.beta[i]? = some (h.beta[i]'(by omega)) := List.getElem?_eq_getElem _
      have hb0 := prevBeta_eq zero h.beta i (by omega)
      have hz : (List.zip (zero :: h.beta) h.beta)[i]? =
          some (prevBeta zero h.beta i (by omega), h.beta[i]'(by omega)) :=
        List.getElem?_zip_eq_some.2 ⟨hb0, hb1⟩
      obtain ⟨d1, d2, -⟩ := H.defs i _ _ _ hp hb0 hb1
      rw [List.getElem?_zipWith, hp, hz]
      first | exact d1 | exact d2
    · have hb : h.beta[i]? = none := List.getElem?_eq_none (by omega)
      have hz : (List.zip (zero :: h.beta) h.beta)[i]? = none := by
        cases hzz : (List.zip (zero :: h.beta) h.beta)[i]? with
        | none => rfl
        | some z =>
          have := (List.getElem?_zip_eq_some.1 hzz).2
          rw [hb] at this; cases this
      rw [List.getElem?_zipWith, hz]
      first
        | rw [List.getElem?_eq_none (by omega : h.ratio.length ≤ i)]
        | rw [List.getElem?_eq_none (by omega : h.var.length ≤ i)]
      cases h.pops[i]? <;> rfl

/-- The returned log-evidence is the sum over iterations `t` of the log mean incremental weight of
    the population stored before iteration `t + 1` (`pops[t]`, i.e. before that iteration's
    resampling) between the temperatures actually used, `(0 :: beta)[t]` and `beta[t]`; the
    uncertainty is the root of the sum of the per-step variances on the same data. -/
theorem evidence_is_sum_over_iterations {k : Kit P S} {cfg : SmcCfg S} {zero : S} {p0 : P}
    (hs : cfg.storeHistory = true) {steps : List (Step P)} {r : Result P S}
    (h : run k cfg zero p0 steps = .done r) :
    r.logZ = k.sumS (List.zipWith (fun p (bb : S × S) => k.ratio p bb.1 bb.2) r.st.hist.pops
                (List.zip (zero :: r.st.hist.beta) r.st.hist.beta)) ∧
    r.logZerr = k.rootSumS (List.zipWith (fun p (bb : S × S) => k.var p bb.1 bb.2) r.st.hist.pops
                (List.zip (zero :: r.st.hist.beta) r.st.hist.beta)) := by
  have H : SeriesOK k zero r.st.hist r.st.iter r.st.beta := (histInv_run hs h).1
  obtain ⟨e1, e2⟩ := SeriesOK.ratio_eq H
  obtain ⟨z1, z2⟩ := evidence_is_sum_of_recorded_ratios h
  rw [← e1, ← e2]; exact ⟨z1, z2⟩

/-- the same for a run resumed from a checkpoint satisfying the history invariant (every
    checkpoint a run writes inside its loop does, `C18.ckpt_histInv`) -/
theorem evidence_is_sum_over_iterations_resume {k : Kit P S} {cfg : SmcCfg S} {zero : S}
    (hs : cfg.storeHistory = true) {c : Ckpt P S} (hc : HistInv k zero (restore c))
    {allSteps : List (Step P)} {r : Result P S} (h : resume k cfg c allSteps = .done r) :
    r.logZ = k.sumS (List.zipWith (fun p (bb : S × S) => k.ratio p bb.1 bb.2) r.st.hist.pops
                (List.zip (zero :: r.st.hist.beta) r.st.hist.beta)) ∧
    r.logZerr = k.rootSumS (List.zipWith (fun p (bb : S × S) => k.var p bb.1 bb.2) r.st.hist.pops
                (List.zip (zero :: r.st.hist.beta) r.st.hist.beta)) := by
  have H : SeriesOK k zero r.st.hist r.st.iter r.st.beta := (histInv_resume_of_inv hs hc h).1
  obtain ⟨e1, e2⟩ := SeriesOK.ratio_eq H
  obtain ⟨z1, z2⟩ := evidence_is_sum_of_recorded_ratios_resume h
  rw [← e1, ← e2]; exact ⟨z1, z2⟩

/-! ### 9. the ratio of an iteration uses the population before that iteration's resampling -/

theorem ratio_uses_pre_resampling_population {k : Kit P S} {cfg : SmcCfg S} {st st' : St P S}
    {s : Step P} {stop : Bool} (h : iterate k cfg st s = .ok (st', stop)) :
    ∃ b m, k.nextBeta st.pop st.beta st.minStep = .ok (b, m) ∧
      st'.hist.ratio = st.hist.ratio ++ [k.ratio st.pop st.beta b] ∧
      st'.hist.var = st.hist.var ++ [k.var st.pop st.beta b] ∧ st'.beta = b := by
  obtain ⟨b, m, hb, rfl, -⟩ := iterate_ok h
  exact ⟨b, m, hb, by simp [stepSt, stepHist], by simp [stepSt, stepHist], by simp [stepSt]⟩

/-! ### 10. no dependence on the resampling indices -/

theorem iterate_congr (k : Kit P S) (cfg : SmcCfg S) (st : St P S) {s s' : Step P}
    (h : s.mutated = s'.mutated) : iterate k cfg st s = iterate k cfg st s' := by
  rw [iterate_eq, iterate_eq, h]

theorem finish_congr (k : Kit P S) (cfg : SmcCfg S) (st : St P S) {rest rest' : List (Step P)}
    (h : rest.map (·.mutated) = rest'.map (·.mutated)) :
    finish k cfg st rest = finish k cfg st rest' := by
  rw [finish_eq, finish_eq]
  cases rest with
  | nil =>
    cases rest' with
    | nil => rfl
    | cons s' r' => simp at h
  | cons s r =>
    cases rest' with
    | nil => simp at h
    | cons s' r' =>
      simp only [List.map_cons, List.cons.injEq] at h
      simp only [enlarge, h.1]

/-- the resampling indices the stream produced in any iteration (and in the enlargement) have no
    influence whatsoever on what `sample` returns, given what the kernel returned -/
theorem runFrom_indep_idx (k : Kit P S) (cfg : SmcCfg S) :
    ∀ (flag : Bool) (steps steps' : List (Step P)) (st : St P S),
      steps.map (·.mutated) = steps'.map (·.mutated) →
      runFrom k cfg flag st steps = runFrom k cfg flag st steps' := by
  intro flag steps
  induction steps generalizing flag with
  | nil =>
    intro steps' st h
    cases steps' with
    | nil => rfl
    | cons s' r' => simp at h
  | cons s rest ih =>
    intro steps' st h
    cases steps' with
    | nil => simp at h
    | cons s' rest' =>
      cases flag with
      | false =>
        unfold runFrom
        simp only [Bool.false_eq_true, if_false]
        rw [finish_congr k cfg st h]
      | true =>
        simp only [List.map_cons, List.cons.injEq] at h
        rw [runFrom_true_cons, runFrom_true_cons, iterate_congr k cfg st h.1]
        cases iterate k cfg st s' with
        | error e => rfl
        | ok r =>
          obtain ⟨st', stop⟩ := r
          cases stop with
          | true => exact ih false rest' st' h.2
          | false => exact ih true rest' st' h.2

theorem indep_of_resampling_indices (k : Kit P S) (cfg : SmcCfg S) (zero : S) (p0 : P)
    {steps steps' : List (Step P)} (h : steps.map (·.mutated) = steps'.map (·.mutated)) :
    run k cfg zero p0 steps = run k cfg zero p0 steps' :=
  runFrom_indep_idx k cfg true steps steps' _ h

/-- what an iteration records (temperature, ratio, variance, ESS, …) and whether the loop stops
    does not depend on that iteration's step (indices *and* kernel output) at all: the ratio is
    computed before resampling and mutation -/
theorem ratio_indep_of_step {k : Kit P S} {cfg : SmcCfg S} {st st1 st2 : St P S} {s1 s2 : Step P}
    {stop1 stop2 : Bool} (h1 : iterate k cfg st s1 = .ok (st1, stop1))
    (h2 : iterate k cfg st s2 = .ok (st2, stop2)) :
    st1.hist.ratio = st2.hist.ratio ∧ st1.hist.var = st2.hist.var ∧ st1.hist.beta = st2.hist.beta ∧
    st1.hist.ess = st2.hist.ess ∧ st1.hist.essTarget = st2.hist.essTarget ∧
    st1.hist.effTarget = st2.hist.effTarget ∧ st1.beta = st2.beta ∧ st1.minStep = st2.minStep ∧
    st1.iter = st2.iter ∧ stop1 = stop2 := by
  obtain ⟨b, m, hb, rfl, rfl⟩ := iterate_ok h1
  obtain ⟨b', m', hb', rfl, rfl⟩ := iterate_ok h2
  rw [hb] at hb'
  simp only [Except.ok.injEq, Prod.mk.injEq] at hb'
  obtain ⟨rfl, rfl⟩ := hb'
  simp [stepSt, stepHist]

/-- an iteration fails for one step iff it fails for every step -/
theorem iterate_error_indep_of_step {k : Kit P S} {cfg : SmcCfg S} {st : St P S} {s1 s2 : Step P}
    {e : BetaErr} (h1 : iterate k cfg st s1 = .error e) : iterate k cfg st s2 = .error e := by
  rw [iterate_eq] at h1 ⊢
  cases hb : k.nextBeta st.pop st.beta st.minStep with
  | error e' => simp [hb] at h1 ⊢
  | ok bm => simp [hb] at h1

/-! ### 13. every iteration contributes exactly once -/

theorem each_step_once {k : Kit P S} {cfg : SmcCfg S} {zero : S} {p0 : P} {steps : List (Step P)}
    {r : Result P S} (h : run k cfg zero p0 steps = .done r) :
    r.st.hist.ratio.length = r.st.iter ∧ r.st.hist.var.length = r.st.iter :=
  ⟨(lenInv_run h).2.2.2.2.1, (lenInv_run h).2.2.2.2.2⟩

/-! ### 11. no dependence on checkpointing -/

theorem cfgSim_every (cfg : SmcCfg S) (e : Option Nat) : CfgSim cfg { cfg with every := e } :=
  ⟨rfl, rfl, rfl, rfl⟩

theorem sim_init {cfg cfg' : SmcCfg S} (hc : CfgSim cfg cfg') (zero : S) (p0 : P) :
    Sim (initSt cfg zero p0) (initSt cfg' zero p0) :=
  ⟨rfl, rfl, rfl, hc.minStep0, by simp [initSt, hc.storeHistory], rfl⟩

/-- two runs that differ only in the checkpoint cadence (including "no callback at all") end the
    same way: same error, or both interrupted, or the same result up to the checkpoint log -/
theorem indep_of_checkpoint_cadence_out {k : Kit P S} {cfg cfg' : SmcCfg S} (hc : CfgSim cfg cfg')
    (zero : S) (p0 : P) (steps : List (Step P)) :
    OutSim (run k cfg zero p0 steps) (run k cfg' zero p0 steps) :=
  runFrom_sim hc true (sim_init hc zero p0) steps

theorem indep_of_checkpoint_cadence {k : Kit P S} {cfg cfg' : SmcCfg S} (hc : CfgSim cfg cfg')
    {zero : S} {p0 : P} {steps : List (Step P)} {r : Result P S}
    (h : run k cfg zero p0 steps = .done r) :
    ∃ r', run k cfg' zero p0 steps = .done r' ∧ r'.logZ = r.logZ ∧ r'.logZerr = r.logZerr ∧
      r'.pop = r.pop ∧ r'.st.hist = r.st.hist ∧ r'.st.iter = r.st.iter := by
  obtain ⟨r', h1, h2, h3, h4, h5, h6, -⟩ := (indep_of_checkpoint_cadence_out hc zero p0 steps).done_left h
  exact ⟨r', h1, h2, h3, h4, h5, h6⟩

/-- the same for a resumed run -/
theorem indep_of_checkpoint_cadence_resume {k : Kit P S} {cfg cfg' : SmcCfg S} (hc : CfgSim cfg cfg')
    (c : Ckpt P S) (allSteps : List (Step P)) :
    OutSim (resume k cfg c allSteps) (resume k cfg' c allSteps) := by
  unfold resume
  have : resumeLoopFlag k cfg' c = resumeLoopFlag k cfg c := by
    unfold resumeLoopFlag; rw [hc.maxSteps]
  rw [this]
  exact runFrom_sim hc _ Sim.rfl _

/-- Whether the run was checkpointed, interrupted and resumed does not matter: a run interrupted
    after `j` steps of the stream and resumed from any surviving checkpoint (under any cadence)
    that returns, returns the evidence, uncertainty, population and history of the uninterrupted
    run; and if the uninterrupted run returns so does the resumed one. -/
theorem indep_of_interrupt_and_resume {k : Kit P S} {cfg cfg' : SmcCfg S} (hcfg : CfgSim cfg cfg')
    {zero : S} {p0 : P} {all : List (Step P)} {j : Nat} {cs : List (Ckpt P S)}
    (hi : run k cfg zero p0 (all.take j) = .interrupted cs) {c : Ckpt P S} (hc : c ∈ cs) :
    (∀ r, run k cfg zero p0 all = .done r →
      ∃ r', resume k cfg' c all = .done r' ∧ r'.logZ = r.logZ ∧ r'.logZerr = r.logZerr ∧
        r'.pop = r.pop ∧ r'.st.hist = r.st.hist ∧ r'.st.iter = r.st.iter) ∧
    (∀ r', resume k cfg' c all = .done r' →
      ∃ r, run k cfg zero p0 all = .done r ∧ r'.logZ = r.logZ ∧ r'.logZerr = r.logZerr ∧
        r'.pop = r.pop ∧ r'.st.hist = r.st.hist ∧ r'.st.iter = r.st.iter) := by
  have h := interrupted_then_resumed_agrees hcfg hi hc
  constructor
  · intro r hr
    obtain ⟨r', h1, h2, h3, h4, h5, h6, -⟩ := h.done_left hr
    exact ⟨r', h1, h2, h3, h4, h5, h6⟩
  · intro r' hr'
    obtain ⟨r, h1, h2, h3, h4, h5, h6, -⟩ := h.done_right hr'
    exact ⟨r, h1, h2, h3, h4, h5, h6⟩

/-- Resuming from the forced final checkpoint of a finished run (the one that carries an
    evidence) skips the loop and returns the same evidence, uncertainty and history; the evidence
    stored in that checkpoint is the returned one. -/
theorem resume_from_final_checkpoint {k : Kit P S} {cfg : SmcCfg S} {zero : S} {p0 : P}
    {all all' : List (Step P)} {r r' : Result P S} (h : run k cfg zero p0 all = .done r)
    {c : Ckpt P S} (hc : c ∈ r.st.ckpts) (hz : c.logZ ≠ none)
    (h' : resume k cfg c all' = .done r') :
    c.logZ = some r.logZ ∧ r'.logZ = r.logZ ∧ r'.logZerr = r.logZerr ∧
    r'.st.hist = r.st.hist ∧ r'.st.iter = r.st.iter := by
  obtain ⟨st, rest, hr, hf⟩ := run_done_on_the_way h
  rcases final_ckpt_evidence hf c hc with hin | ⟨hz', hh, hi, -⟩
  · exact absurd (ckpt_logZ_none hr.reach c hin) hz
  · have hflag := flag_false_of_stopped hr c hh hi
    unfold resume at h'
    rw [hflag] at h'
    rcases runFrom_done h' with ⟨h0, -⟩ | ⟨-, hf'⟩
    · cases h0
    · obtain ⟨-, -, z1, z2⟩ := finish_evidence hf
      obtain ⟨-, -, z1', z2'⟩ := finish_evidence hf'
      obtain ⟨e1, e2, -⟩ := finish_hist hf
      obtain ⟨e1', e2', -⟩ := finish_hist hf'
      refine ⟨hz', ?_, ?_, ?_, ?_⟩
      · rw [z1, z1']; show k.sumS c.hist.ratio = _; rw [hh]
      · rw [z2, z2']; show k.rootSumS c.hist.var = _; rw [hh]
      · rw [e1, e1']; exact hh
      · rw [e2, e2']; exact hi

/-! ### 12. no dependence on the final enlargement -/

/-- configurations that differ at most in `n_final_samples` -/
structure CfgSimF (cfg cfg' : SmcCfg S) : Prop where
  every : cfg.every = cfg'.every
  maxSteps : cfg.maxSteps = cfg'.maxSteps
  storeHistory : cfg.storeHistory = cfg'.storeHistory
  minStep0 : cfg.minStep0 = cfg'.minStep0

theorem cfgSimF_nFinal (cfg : SmcCfg S) (n : Option Nat) : CfgSimF cfg { cfg with nFinal := n } :=
  ⟨rfl, rfl, rfl, rfl⟩

theorem mc_congr_every {cfg cfg' : SmcCfg S} (h : cfg.every = cfg'.every) (f : Bool) (st : St P S)
    (z : Option S) : maybeCheckpoint cfg f st z = maybeCheckpoint cfg' f st z := by
  unfold maybeCheckpoint; rw [h]

/-- the loop never looks at `n_final_samples` -/
theorem iterate_nFinal {k : Kit P S} {cfg cfg' : SmcCfg S} (hc : CfgSimF cfg cfg') (st : St P S)
    (s : Step P) : iterate k cfg st s = iterate k cfg' st s := by
  rw [iterate_eq, iterate_eq]
  cases k.nextBeta st.pop st.beta st.minStep with
  | error e => rfl
  | ok bm =>
    obtain ⟨b, m⟩ := bm
    simp only [stepSt, stepHist, stopCond, hc.storeHistory, hc.maxSteps, mc_congr_every hc.every]

theorem runLoop_nFinal {k : Kit P S} {cfg cfg' : SmcCfg S} (hc : CfgSimF cfg cfg') :
    ∀ (steps : List (Step P)) (st : St P S), runLoop k cfg st steps = runLoop k cfg' st steps := by
  intro steps
  induction steps with
  | nil => intro st; rfl
  | cons s rest ih =>
    intro st
    rw [runLoop, runLoop, iterate_nFinal hc]
    cases iterate k cfg' st s with
    | error e => rfl
    | ok r =>
      obtain ⟨st', stop⟩ := r
      cases stop with
      | true => rfl
      | false => exact ih st'

theorem initSt_nFinal {cfg cfg' : SmcCfg S} (hc : CfgSimF cfg cfg') (zero : S) (p0 : P) :
    initSt cfg zero p0 = initSt cfg' zero p0 := by
  unfold initSt; rw [hc.storeHistory, hc.minStep0]

/-- two runs that differ only in `n_final_samples` and both return: same evidence, same
    uncertainty, same history, same number of iterations (the enlargement comes after the last
    ratio was recorded and records nothing) -/
theorem indep_of_final_enlargement {k : Kit P S} {cfg cfg' : SmcCfg S} (hc : CfgSimF cfg cfg')
    {zero : S} {p0 : P} {steps : List (Step P)} {r r' : Result P S}
    (h : run k cfg zero p0 steps = .done r) (h' : run k cfg' zero p0 steps = .done r') :
    r'.logZ = r.logZ ∧ r'.logZerr = r.logZerr ∧ r'.st.hist = r.st.hist ∧ r'.st.iter = r.st.iter ∧
    r'.st.beta = r.st.beta := by
  rcases runFrom_done h with ⟨-, st, rest, hl, hf⟩ | ⟨h0, -⟩
  · rcases runFrom_done h' with ⟨-, st', rest', hl', hf'⟩ | ⟨h0, -⟩
    · rw [initSt_nFinal hc, runLoop_nFinal hc] at hl
      rw [hl] at hl'
      simp only [Outcome.finishedLoop.injEq] at hl'
      obtain ⟨rfl, rfl⟩ := hl'
      obtain ⟨-, -, z1, z2⟩ := finish_evidence hf
      obtain ⟨-, -, z1', z2'⟩ := finish_evidence hf'
      obtain ⟨e1, e2, e3⟩ := finish_hist hf
      obtain ⟨e1', e2', e3'⟩ := finish_hist hf'
      exact ⟨by rw [z1, z1'], by rw [z2, z2'], by rw [e1, e1'], by rw [e2, e2'], by rw [e3, e3']⟩
    · cases h0
  · cases h0

/-- … and if the loop leaves at least one step of the stream unused, both do return, whatever
    the two `n_final_samples` are -/
theorem both_done_of_spare_step {k : Kit P S} {cfg cfg' : SmcCfg S} (hc : CfgSimF cfg cfg')
    {zero : S} {p0 : P} {steps : List (Step P)} {st : St P S} {s : Step P} {rest : List (Step P)}
    (hl : runLoop k cfg (initSt cfg zero p0) steps = .finishedLoop st (s :: rest)) :
    ∃ r r', run k cfg zero p0 steps = .done r ∧ run k cfg' zero p0 steps = .done r' := by
  have hl' := hl
  rw [initSt_nFinal hc, runLoop_nFinal hc] at hl'
  have hf : ∀ c : SmcCfg S, ∃ r, finish k c st (s :: rest) = some r := by
    intro c; rw [finish_eq]; cases needFinal k c st <;> simp
  obtain ⟨r, hr⟩ := hf cfg
  obtain ⟨r', hr'⟩ := hf cfg'
  refine ⟨r, r', ?_, ?_⟩
  · simp only [run, runFrom, if_true, hl, hr]
  · simp only [run, runFrom, if_true, hl', hr']

/-! ### non-vacuity -/

/-- the toy run of `Props/C18`: three iterations, evidence `1 + 9 + 11`, and the same evidence
    without checkpointing, with an enlargement, and with other resampling indices -/
example :
    (match run toyKit toyCfg 0 0 toySteps with
      | .done r => some (r.logZ, r.logZerr, r.st.hist.ratio, r.st.hist.var)
      | _ => none) = some (21, 18, [1, 9, 11], [0, 8, 10]) := by
  rfl

example :
    (match run toyKit { toyCfg with every := none } 0 0 toySteps with
      | .done r => some (r.logZ, r.logZerr, r.st.ckpts.length)
      | _ => none) = some (21, 18, 0) := by
  rfl

example :
    (match run toyKit { toyCfg with nFinal := some 6 } 0 0 toySteps with
      | .done r => some (r.logZ, r.logZerr, r.pop, r.st.hist.pops, r.st.consumed)
      | _ => none) = some (21, 18, 10, [0, 7, 8, 9], 4) := by
  rfl

example : CfgSim toyCfg { toyCfg with every := none } := cfgSim_every _ _
example : CfgSimF toyCfg { toyCfg with nFinal := some 6 } := cfgSimF_nFinal _ _

example : ∃ cs, run toyKit toyCfg 0 0 (toySteps.take 2) = .interrupted cs ∧ cs.length = 2 :=
  ⟨_, rfl, rfl⟩

/-! ### the pinned resume path did change the evidence (negative results, concrete instances) -/

/-- a schedule whose step depends on the (adaptive) minimum step: `β' = β + 1 + m`, `m' = m + 1` -/
def toyKit2 : Kit Nat Nat :=
  { toyKit with nextBeta := fun _ b m => .ok (b + 1 + m, m + 1), isOne := fun b => decide (3 ≤ b) }

/-- the pinned `sample(resume_from=…)`: pinned restore, pinned loop flag -/
def resumePinned (k : Kit P S) (cfg : SmcCfg S) (c : Ckpt P S) (allSteps : List (Step P)) : RunOut P S :=
  runFrom k cfg (resumeLoopFlagPinned k c) (restorePinned cfg c) (allSteps.drop c.consumed)

/-- evidence of: the uninterrupted run; the run interrupted after `j` steps and resumed from the
    newest checkpoint with the fixed code; the same with the pinned code -/
def threeWays (k : Kit Nat Nat) (cfg : SmcCfg Nat) (steps : List (Step Nat)) (j : Nat) :
    Option Nat × Option Nat × Option Nat :=
  let ev (o : RunOut Nat Nat) : Option Nat := match o with | .done r => some r.logZ | _ => none
  let c? := match run k cfg 0 0 (steps.take j) with
    | .interrupted cs => cs.getLast?
    | _ => none
  (ev (run k cfg 0 0 steps),
   (match c? with | some c => ev (resume k cfg c steps) | none => none),
   (match c? with | some c => ev (resumePinned k cfg c steps) | none => none))

/-- the pinned restore re-initialised the minimum step, so the resumed run chose other
    temperatures and returned another evidence; the fixed one returns the uninterrupted value -/
theorem pinned_restore_changes_evidence :
    threeWays toyKit2 toyCfg toySteps 1 = (some 11, some 11, some 22) := by
  rfl

/-- the pinned loop flag ignored the step cap, so a run resumed from the checkpoint taken at the
    cap performed one more iteration and returned another evidence -/
theorem pinned_flag_changes_evidence :
    (match run toyKit { toyCfg with maxSteps := some 2 } 0 0 toySteps with
      | .done r =>
        (match r.st.ckpts.getLast? with
          | some c =>
            (match resume toyKit { toyCfg with maxSteps := some 2 } c toySteps,
                   runFrom toyKit { toyCfg with maxSteps := some 2 } (resumeLoopFlagPinned toyKit c)
                     (restore c) (toySteps.drop c.consumed) with
              | .done r1, .done r2 => some (r.logZ, r.st.iter, r1.logZ, r1.st.iter, r2.logZ, r2.st.iter)
              | _, _ => none)
          | none => none)
      | _ => none) = some (10, 2, 10, 2, 21, 3) := by
  rfl

end C08
