import AspireModel.Model.Ctx
/-
  C19 — temporary overrides are fully restored on every exit path.
  Model: `Model/Ctx.lean`.  Core Lean only.  Structural induction over programs: every nesting depth,
  every position of `raise`.
-/
namespace C19
open Model

/-- `log_likelihood` and `log_prior` of the instance are the same objects after ANY program as before it
    (they are only ever replaced inside a pool context, which puts them back), whether or not an exception escapes -/
theorem callables_restored (p : Prog) (s : Inst) : (exec p s).2.1.ll = s.ll ∧ (exec p s).2.1.lp = s.lp := by
  induction p generalizing s with
  | act => simp [exec]
  | touch => simp [exec]
  | raise => simp [exec]
  | obs => simp [exec]
  | seq a b iha ihb =>
    simp only [exec]
    rcases h : exec a s with ⟨r, s1, l1⟩
    have ha := iha s; rw [h] at ha
    cases r with
    | true => simpa using ha
    | false =>
      rcases h2 : exec b s1 with ⟨r2, s2, l2⟩
      have hb := ihb s1; rw [h2] at hb
      simp only [Bool.false_eq_true, ↓reduceIte]
      exact ⟨hb.1.trans ha.1, hb.2.trans ha.2⟩
  | pool id close par body _ =>
    simp [exec]
  | auto path every sc sf body ih =>
    simp only [exec]
    rcases h : exec body { s with defaults := some { path := path, every := every, saveConfig := sc, saveFlow := sf } } with ⟨r, s2, l⟩
    have := ih { s with defaults := some { path := path, every := every, saveConfig := sc, saveFlow := sf } }
    rw [h] at this
    simpa using this

/-- **leaving the pool context restores likelihood and prior**, for every body, normally or through an exception -/
theorem pool_restores (id : Nat) (close par : Bool) (body : Prog) (s : Inst) :
    (exec (.pool id close par body) s).2.1.ll = s.ll ∧ (exec (.pool id close par body) s).2.1.lp = s.lp :=
  callables_restored _ s

/-- **leaving the automatic-checkpoint context restores the checkpoint defaults to exactly what they were on entry**
    (including their absence and including the `saved_*` flags of an enclosing context), for every body -/
theorem auto_restores (path every : Nat) (sc sf : Bool) (body : Prog) (s : Inst) :
    (exec (.auto path every sc sf body) s).2.1.defaults = s.defaults := by
  simp only [exec]

/-- a program whose every `touch` sits inside an `auto` context -/
def Guarded : Prog → Prop
  | .touch => False
  | .seq a b => Guarded a ∧ Guarded b
  | .pool _ _ _ body => Guarded body
  | .auto _ _ _ _ _ => True
  | _ => True

/-- defaults are untouched by any program that only touches them inside its own contexts (any nesting depth) -/
theorem defaults_restored (p : Prog) (hp : Guarded p) (s : Inst) : (exec p s).2.1.defaults = s.defaults := by
  induction p generalizing s with
  | act => simp [exec]
  | touch => exact absurd hp (by simp [Guarded])
  | raise => simp [exec]
  | obs => simp [exec]
  | seq a b iha ihb =>
    simp only [exec]
    rcases h : exec a s with ⟨r, s1, l1⟩
    have ha := iha hp.1 s; rw [h] at ha
    cases r with
    | true => simpa using ha
    | false =>
      rcases h2 : exec b s1 with ⟨r2, s2, l2⟩
      have hb := ihb hp.2 s1; rw [h2] at hb
      simp only [Bool.false_eq_true, ↓reduceIte]
      exact hb.trans ha
  | pool id close par body ih =>
    simp only [exec]
    rcases h : exec body { s with ll := s.fresh, lp := if par then s.fresh + 1 else s.lp, fresh := s.fresh + 2 } with ⟨r, s2, l⟩
    have := ih hp { s with ll := s.fresh, lp := if par then s.fresh + 1 else s.lp, fresh := s.fresh + 2 }
    rw [h] at this
    simpa using this
  | auto path every sc sf body _ => exact auto_restores path every sc sf body s

/-- **the pool is closed only when asked to**: every close/join event belongs to a pool context with `close_pool=True` -/
theorem closed_only_if_asked (p : Prog) (s : Inst) :
    ∀ id, (PoolEv.close id ∈ (exec p s).2.2 ∨ PoolEv.join id ∈ (exec p s).2.2) → id ∈ asksClose p := by
  induction p generalizing s with
  | act => simp [exec]
  | touch => simp [exec]
  | raise => simp [exec]
  | obs => simp [exec]
  | seq a b iha ihb =>
    simp only [exec, asksClose]
    rcases h : exec a s with ⟨r, s1, l1⟩
    have ha := iha s; rw [h] at ha
    cases r with
    | true =>
      intro id hev
      exact List.mem_append_left _ (ha id (by simpa using hev))
    | false =>
      rcases h2 : exec b s1 with ⟨r2, s2, l2⟩
      have hb := ihb s1; rw [h2] at hb
      intro id hev
      simp only [Bool.false_eq_true, ↓reduceIte, List.mem_append] at hev
      rcases hev with (hev | hev) | (hev | hev)
      · exact List.mem_append_left _ (ha id (Or.inl hev))
      · exact List.mem_append_right _ (hb id (Or.inl hev))
      · exact List.mem_append_left _ (ha id (Or.inr hev))
      · exact List.mem_append_right _ (hb id (Or.inr hev))
  | pool pid close par body ih =>
    simp only [exec, asksClose]
    rcases h : exec body { s with ll := s.fresh, lp := if par then s.fresh + 1 else s.lp, fresh := s.fresh + 2 } with ⟨r, s2, l⟩
    have hb := ih { s with ll := s.fresh, lp := if par then s.fresh + 1 else s.lp, fresh := s.fresh + 2 }
    rw [h] at hb
    intro id hev
    simp only [List.mem_append] at hev
    cases close with
    | false =>
      simp only [Bool.false_eq_true, ↓reduceIte, List.not_mem_nil, or_false, List.nil_append] at hev ⊢
      exact hb id hev
    | true =>
      simp only [↓reduceIte, List.mem_cons, PoolEv.close.injEq, List.not_mem_nil, or_false, reduceCtorEq, false_or,
        PoolEv.join.injEq] at hev
      simp only [↓reduceIte, List.cons_append, List.nil_append, List.mem_cons]
      rcases hev with (hev | rfl) | (hev | rfl)
      · exact Or.inr (hb id (Or.inl hev))
      · exact Or.inl rfl
      · exact Or.inr (hb id (Or.inr hev))
      · exact Or.inl rfl
  | auto path every sc sf body ih =>
    simp only [exec, asksClose]
    rcases h : exec body { s with defaults := some { path := path, every := every, saveConfig := sc, saveFlow := sf } } with ⟨r, s2, l⟩
    have hb := ih { s with defaults := some { path := path, every := every, saveConfig := sc, saveFlow := sf } }
    rw [h] at hb
    exact hb

/-- **and it is closed when asked to**, also when the body raises: the events of a pool context end with
    close+join of that pool iff `close_pool` -/
theorem closed_if_asked (id : Nat) (close par : Bool) (body : Prog) (s : Inst) :
    (exec (.pool id close par body) s).2.2 =
      (exec body { s with ll := s.fresh, lp := if par then s.fresh + 1 else s.lp, fresh := s.fresh + 2 }).2.2
        ++ (if close then [PoolEv.close id, PoolEv.join id] else []) := by
  simp only [exec]

/-- inside the pool body the likelihood IS replaced (non-vacuity of the override) -/
theorem pool_overrides (par : Bool) (s : Inst) (h : s.ll < s.fresh) :
    ({ s with ll := s.fresh, lp := if par then s.fresh + 1 else s.lp, fresh := s.fresh + 2 } : Inst).ll ≠ s.ll := by
  simp; omega

/-! ### non-vacuity -/
def ex0 : Inst := { ll := 0, lp := 1, defaults := none, fresh := 2 }
def exProg : Prog :=
  .pool 7 false true (.auto 1 2 true true (.seq .touch (.pool 8 true false (.seq .obs .raise))))
example : exec exProg ex0 = (true, { ll := 0, lp := 1, defaults := none, fresh := 6 },
    [.seen { ll := 4, lp := 3, defaults := some { path := 1, every := 2, saveConfig := true, saveFlow := true, savedConfig := true, savedFlow := true }, fresh := 6 },
     .close 8, .join 8]) := by decide
example : (exec (.auto 1 1 true true (.seq .touch .raise)) { ex0 with defaults := some { path := 9, every := 3, saveConfig := true, saveFlow := false } }).2.1.defaults
    = some { path := 9, every := 3, saveConfig := true, saveFlow := false } := by decide

end C19
