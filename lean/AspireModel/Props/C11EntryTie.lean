import AspireModel.Gen.SrcEntry
import AspireModel.Model.Smc
/-
  C11 / C18 / C06, tie to the source: the PROLOGUE of `SMCSampler.sample` as `/repo` has it NOW (`Gen.smc_prologue`, regenerated from
  `samplers/smc/base.py` on every run by `harness/translate/entry2lean.py`) — the state the loop starts from.

  Proved directly on the translation, for every callee table, object state, option combination:
    * `src_fresh_entry`: a fresh call starts at temperature 0, iteration 0, from the initial draw, with a NEW history holding that population
      once (or nothing when populations are not stored), the minimum step decided by THIS call's options;
    * `src_fresh_ignores_object_state`: nothing an earlier call left on the object — its history, a minimum step restored from a checkpoint —
      enters a fresh call (fails when the guard `resumed and …` around the restored minimum step is dropped: seeded C06-m12 / C07-m12);
    * `src_resumed_entry`: a resumed call starts from exactly what `restore_from_checkpoint` hands back; the restored history is NOT appended
      to again (the defect of the pinned tree, fix 4ec4288) and the restored minimum step replaces the one derived from the options;
    * `src_needs_steps_or_adaptive`: the one error exit;
    * tie to the model of `Model/Smc.lean`: the fresh entry is `Model.initSt`, the resumed entry is `Model.restore` of the checkpoint the
      restore callee decoded (`tie_fresh_is_initSt`, `tie_resumed_is_restore`) — the two states from which `C18Tie.tie_smc_run` runs the
      translated loop.
-/
set_option linter.unusedSectionVars false
namespace C11Entry
open Gen

variable {P H Src α : Type} [Inhabited Src]

/-- the minimum step this call's options decide: explicit, else `1 / max_n_steps`, else 0 -/
def optMinStep (ops : EntryOps P H Src α) (ms : Option α) (mx : Option Nat) : α :=
  match ms with
  | some m => m
  | none => match mx with
    | none => ops.zero
    | some k => ops.one_over k

def optBetaStep (ops : EntryOps P H Src α) (ns : Option Nat) : α :=
  match ns with
  | some n => ops.one_over n
  | none => ops.nanv

theorem src_fresh_entry (ops : EntryOps P H Src α) (self0 : EntrySelf H α) (pop0 : P) (n : Nat) (store : Bool) (ns : Option Nat)
    (adaptive : Bool) (ms : Option α) (mx : Option Nat) (hok : ns.isSome = true ∨ adaptive = true) :
    smc_prologue ops self0 pop0 none n store ns adaptive ms mx =
      .ok { samples := ops.smc_from_samples (ops.draw_initial_samples n) ops.zero, beta := ops.zero, iterations := 0,
            history := if store then ops.append_pop ops.new_history (ops.smc_from_samples (ops.draw_initial_samples n) ops.zero) else ops.new_history,
            beta_step := optBetaStep ops ns, min_step := optMinStep ops ms mx, adaptive := adaptive,
            adaptive_min_step := ms.isNone && mx.isSome, resumed := false, restored_min_step := self0.restored_min_step } := by
  unfold smc_prologue optMinStep optBetaStep
  cases ns <;> cases ms <;> cases mx <;> cases store <;> cases adaptive <;> simp_all

/-- nothing an earlier call left on the object enters a fresh call -/
theorem src_fresh_ignores_object_state (ops : EntryOps P H Src α) (self0 self0' : EntrySelf H α) (pop0 pop0' : P) (n : Nat) (store : Bool)
    (ns : Option Nat) (adaptive : Bool) (ms : Option α) (mx : Option Nat) :
    (smc_prologue ops self0 pop0 none n store ns adaptive ms mx).map
        (fun e => (e.samples, e.beta, e.iterations, e.history, e.beta_step, e.min_step, e.adaptive, e.adaptive_min_step)) =
    (smc_prologue ops self0' pop0' none n store ns adaptive ms mx).map
        (fun e => (e.samples, e.beta, e.iterations, e.history, e.beta_step, e.min_step, e.adaptive, e.adaptive_min_step)) := by
  unfold smc_prologue
  cases ns <;> cases ms <;> cases mx <;> cases store <;> cases adaptive <;> simp [Except.map]

theorem src_resumed_entry (ops : EntryOps P H Src α) (self0 : EntrySelf H α) (pop0 : P) (s : Src) (n : Nat) (store : Bool) (ns : Option Nat)
    (adaptive : Bool) (ms : Option α) (mx : Option Nat) (hok : ns.isSome = true ∨ adaptive = true) :
    smc_prologue ops self0 pop0 (some s) n store ns adaptive ms mx =
      .ok { samples := (ops.restore s).samples, beta := (ops.restore s).beta, iterations := (ops.restore s).iterations,
            history := (ops.restore s).history,
            beta_step := optBetaStep ops ns, min_step := (ops.restore s).restored_min_step.getD (optMinStep ops ms mx), adaptive := adaptive,
            adaptive_min_step := ms.isNone && mx.isSome, resumed := true, restored_min_step := (ops.restore s).restored_min_step } := by
  unfold smc_prologue optMinStep optBetaStep
  cases hr : (ops.restore s).restored_min_step <;>
    cases ns <;> cases ms <;> cases mx <;> cases store <;> cases adaptive <;> simp_all

theorem src_needs_steps_or_adaptive (ops : EntryOps P H Src α) (self0 : EntrySelf H α) (pop0 : P) (src : Option Src) (n : Nat) (store : Bool)
    (ms : Option α) (mx : Option Nat) :
    smc_prologue ops self0 pop0 src n store none false ms mx = .error .neitherStepsNorAdaptive := by
  unfold smc_prologue
  cases src with
  | none => cases ms <;> cases mx <;> cases store <;> simp
  | some s => cases hr : (ops.restore s).restored_min_step <;> cases ms <;> cases mx <;> cases store <;> simp [hr]

/-! ## tie to the model -/

section model
open Model
variable {S : Type}

/-- the callee table that carries the model's histories: a new history is empty, the append is the append to `pops`, the restore callee
    decodes a model checkpoint -/
def opsOf (draw : Nat → P) (conv : P → S → P) (dec : Src → Ckpt P S) (zero nanv : S) (oneOver : Nat → S) : EntryOps P (Hist P S) Src S :=
  { restore := fun s => let c := dec s; { samples := c.pop, beta := c.beta, iterations := c.iter, history := c.hist, restored_min_step := some c.minStep },
    draw_initial_samples := draw, smc_from_samples := conv, new_history := {}, append_pop := fun h p => { h with pops := h.pops ++ [p] },
    zero := zero, one_over := oneOver, nanv := nanv }

/-- the loop's view of an entry state -/
def stOfEntry (e : Entry P (Hist P S) S) : St P S :=
  { pop := e.samples, beta := e.beta, iter := e.iterations, minStep := e.min_step, hist := e.history, consumed := 0 }

theorem tie_fresh_is_initSt (draw : Nat → P) (conv : P → S → P) (dec : Src → Ckpt P S) (zero nanv : S) (oneOver : Nat → S)
    (self0 : EntrySelf (Hist P S) S) (pop0 : P) (n : Nat) (cfg : SmcCfg S) (ns : Option Nat) (adaptive : Bool) (ms : Option S) (mx : Option Nat)
    (hok : ns.isSome = true ∨ adaptive = true)
    (hms : cfg.minStep0 = optMinStep (opsOf draw conv dec zero nanv oneOver) ms mx) :
    (smc_prologue (opsOf draw conv dec zero nanv oneOver) self0 pop0 none n cfg.storeHistory ns adaptive ms mx).map stOfEntry =
      .ok (initSt cfg zero (conv (draw n) zero)) := by
  rw [src_fresh_entry _ _ _ _ _ _ _ _ _ hok]
  simp only [Except.map, stOfEntry, initSt, opsOf, hms]
  cases cfg.storeHistory <;> simp

theorem tie_resumed_is_restore (draw : Nat → P) (conv : P → S → P) (dec : Src → Ckpt P S) (zero nanv : S) (oneOver : Nat → S)
    (self0 : EntrySelf (Hist P S) S) (pop0 : P) (s : Src) (n : Nat) (store : Bool) (ns : Option Nat) (adaptive : Bool) (ms : Option S) (mx : Option Nat)
    (hok : ns.isSome = true ∨ adaptive = true) :
    (smc_prologue (opsOf draw conv dec zero nanv oneOver) self0 pop0 (some s) n store ns adaptive ms mx).map
        (fun e => { stOfEntry e with consumed := (dec s).consumed }) =
      .ok (restore (dec s)) := by
  rw [src_resumed_entry _ _ _ _ _ _ _ _ _ _ hok]
  simp [Except.map, stOfEntry, restore, opsOf]

end model

/-- non-vacuity: an object that resumed a floored run (restored minimum step 250) starts a fresh run with `min_step=None, max_n_steps=None`:
    the minimum step of that run is 0 -/
example :
    (smc_prologue (P := Nat) (H := List Nat) (Src := Nat) (α := Nat)
        { restore := fun _ => { samples := 1, beta := 2, iterations := 3, history := [9], restored_min_step := some 250 },
          draw_initial_samples := fun n => n, smc_from_samples := fun p _ => p, new_history := [], append_pop := fun h p => h ++ [p],
          zero := 0, one_over := fun k => 1000 / k, nanv := 7 }
        { history := [9, 9], restored_min_step := some 250 } 0 none 16 true none true none none).map (fun e => (e.min_step, e.history, e.iterations)) =
      .ok (0, [16], 0) := by rfl

end C11Entry
