import AspireModel.Model.Dtype
/-
  C15 — array-namespace and dtype conversions preserve values and precision.
  Model: `Model/Dtype.lean`.  The domain is a finite table (3 classes × 3 × 3 namespaces × 2 widths × 9 dtype
  spellings × 3 methods = 1458 requests, 750 of them accepted by the method and well-formed), so the theorem is proved by evaluating the WHOLE table in the kernel
  (`decide +kernel`) and lifting by a membership lemma — a proof, not a sample.  The library rules are parameters
  of the model (see the header of the model file) and are what the correspondence validates on the real classes.
-/
namespace C15
open Model

/-- what the property demands of one request -/
def Good (i : ConvIn) : Bool :=
  match convert i with
  | .ok o => decide (o.ns = (match i.method with | .toNumpy => Ns.numpy | _ => i.tgt)) && decide (o.w = expectedWidth i) && o.fieldsKept
  | .error _ => false

theorem table_good : (allConv.filter fun i => validReq i && acceptsSpec i).all Good = true := by decide +kernel

theorem mem_allConv (i : ConvIn) : i ∈ allConv := by
  rcases i with ⟨c, s, w, t, sp, m⟩
  simp only [allConv, allCls, allNs, allW, allSpecs, allMethods, List.mem_flatMap, List.mem_map]
  refine ⟨c, by cases c <;> simp, s, by cases s <;> simp, w, by cases w <;> simp, t, by cases t <;> simp, sp, ?_, m, by cases m <;> simp, rfl⟩
  rcases sp with _ | w' | ⟨n, w'⟩
  · simp
  · cases w' <;> simp
  · cases n <;> cases w' <;> simp

/-- **every conversion succeeds for every ordered pair of namespaces, lands in the requested namespace, keeps the
    floating-point width (or takes the explicitly requested one) and keeps every optional field** — for every
    class, source namespace and width, target namespace, dtype spelling accepted by the method, and method -/
theorem conversion_total_and_faithful (i : ConvIn) (hv : validReq i = true) (ha : acceptsSpec i = true) :
    ∃ o, convert i = .ok o ∧ o.ns = (match i.method with | .toNumpy => Ns.numpy | _ => i.tgt) ∧
      o.w = expectedWidth i ∧ o.fieldsKept = true := by
  have h := List.all_eq_true.mp table_good i (List.mem_filter.mpr ⟨mem_allConv i, by simp [hv, ha]⟩)
  unfold Good at h
  cases hc : convert i with
  | error e => simp [hc] at h
  | ok o =>
    simp only [hc, Bool.and_eq_true, decide_eq_true_eq] at h
    exact ⟨o, rfl, h.1.1, h.1.2, h.2⟩

/-- the dtype helpers are total on every spelling and land in the target namespace's family with the same width -/
theorem dtype_helpers_total (d : DT) (xp : Ns) :
    (convertDtype d xp = .none ↔ d = .none) ∧
    (∀ w, d = .name w → resolveDtype d xp = .native xp w ∧ convertDtype d xp = .native xp w) ∧
    (∀ n w, d = .native n w → convertDtype d xp = .native xp w) := by
  cases d <;> simp [convertDtype, resolveDtype]

/-- a foreign dtype object is what makes a library call fail; `convertDtype` never produces one -/
theorem convert_never_foreign (d : DT) (w0 : Width) (xp : Ns) : ∃ w, asarrayW w0 xp (convertDtype d xp) = .ok w := by
  cases d with
  | none => exact ⟨w0, rfl⟩
  | name w => cases xp <;> exact ⟨w, by simp [convertDtype, asarrayW, resolveDtype, sameDtypeFamily]⟩
  | native n w => cases xp <;> exact ⟨w, by simp [convertDtype, asarrayW, resolveDtype, sameDtypeFamily]⟩

/-- the pinned conversions (source dtype object handed unconverted to the target library; dtype dropped by the
    constructor call) as a model, for the negative theorem -/
def convertPinned (i : ConvIn) : Except ConvErr ConvOut :=
  let tgt := match i.method with | .toNumpy => Ns.numpy | _ => i.tgt
  match i.cls, i.method with
  | .samples, .toNamespace =>
    -- `asarray(self.x, xp, dtype=self.dtype)` with the SOURCE dtype object, then the constructor without dtype
    match asarrayW i.w tgt (.native i.src i.w) with
    | .error e => .error e
    | .ok w => (constructW w tgt .none).map fun w' => { ns := tgt, w := w', fieldsKept := true }
  | _, .fromSamples =>
    -- `dtype = kwargs.pop("dtype", samples.dtype)` resolved in the target namespace (no conversion by name)
    let d := match i.spec with | .none => resolveDtype (.native i.src i.w) tgt | s => resolveDtype s tgt
    (constructW i.w tgt d).map fun w => { ns := tgt, w := w, fieldsKept := true }
  | .smc, .toNamespace => (convert i).map fun o => { o with fieldsKept := false }     -- beta / evidence dropped
  | _, .toNumpy =>
    match i.cls with
    | .base => convert i
    | _ => (constructW i.w .numpy .none).map fun w => { ns := .numpy, w := w, fieldsKept := true }
  | _, _ => convert i

theorem pinned_numpy_to_torch_raises :
    convertPinned { cls := .samples, src := .numpy, w := .f64, tgt := .torch, spec := .none, method := .toNamespace } = .error .typeError ∧
    convertPinned { cls := .base, src := .torch, w := .f32, tgt := .numpy, spec := .none, method := .fromSamples } = .error .typeError :=
  ⟨rfl, rfl⟩

theorem pinned_float32_becomes_float64 :
    convertPinned { cls := .samples, src := .numpy, w := .f32, tgt := .numpy, spec := .none, method := .toNumpy }
      = .ok { ns := .numpy, w := .f64, fieldsKept := true } := rfl

example : Good { cls := .samples, src := .numpy, w := .f32, tgt := .torch, spec := .none, method := .toNamespace } = true := by decide
example : (allConv.filter fun i => validReq i && acceptsSpec i).length = 750 := by decide +kernel

end C15
