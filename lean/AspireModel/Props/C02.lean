import AspireModel.Model.Weights
import AspireModel.Lemmas.Real
import Mathlib.Analysis.MeanInequalities
/-
  C02 — weights, evidence and ESS are exact functionals of the per-sample log-densities.
  Model: `Model/Weights.lean` (= `Samples.compute_weights`, `utils.logsumexp`,
  `utils.effective_sample_size`, `Samples.rejection_sample`).  All statements are over ℝ and
  hold for every non-empty list (every N ≥ 1; N ≥ 2 where `n - 1` divides).
-/
namespace C02
open Model

/-- Σ_i exp(lw_i) -/
noncomputable def S1 (lw : List ℝ) : ℝ := (lw.map Real.exp).sum
/-- Σ_i exp(lw_i)² -/
noncomputable def S2 (lw : List ℝ) : ℝ := (lw.map fun v => Real.exp v ^ 2).sum

theorem logW_length (ll lp lq : List ℝ) (h1 : ll.length = lp.length) (h2 : lp.length = lq.length) :
    (logW ll lp lq).length = ll.length := by
  induction ll generalizing lp lq with
  | nil => simp [logW]
  | cons a as ih =>
    cases lp with
    | nil => simp at h1
    | cons b bs =>
      cases lq with
      | nil => simp at h2
      | cons c cs =>
        simp only [logW, List.length_cons]
        rw [ih bs cs (by simpa using h1) (by simpa using h2)]

/-- each log-weight is `log L + log π − log q` of the same row -/
theorem logW_get (ll lp lq : List ℝ) (i : Nat) (hi : i < (logW ll lp lq).length)
    (h1 : i < ll.length) (h2 : i < lp.length) (h3 : i < lq.length) :
    (logW ll lp lq)[i] = ll[i] + lp[i] - lq[i] := by
  induction ll generalizing lp lq i with
  | nil => simp at h1
  | cons a as ih =>
    cases lp with
    | nil => simp at h2
    | cons b bs =>
      cases lq with
      | nil => simp at h3
      | cons c cs =>
        cases i with
        | zero => simp [logW]
        | succ j =>
          simp only [logW, List.getElem_cons_succ]
          exact ih bs cs j _ _ _ _

theorem S1_pos (lw : List ℝ) (h : lw ≠ []) : 0 < S1 lw := sum_exp_pos lw h

theorem S2_pos (lw : List ℝ) (h : lw ≠ []) : 0 < S2 lw := by
  cases lw with
  | nil => exact absurd rfl h
  | cons x xs =>
    simp only [S2, List.map_cons, List.sum_cons]
    have : 0 ≤ (xs.map fun v => Real.exp v ^ 2).sum :=
      List.sum_nonneg (by intro y hy; obtain ⟨a, _, rfl⟩ := List.mem_map.mp hy; positivity)
    have : 0 < Real.exp x ^ 2 := by positivity
    linarith

theorem S2_eq_S1_double (lw : List ℝ) : S2 lw = S1 (lw.map (· * 2)) := by
  simp only [S2, S1, List.map_map]
  congr 1
  apply List.map_congr_left
  intro a _
  simp only [Function.comp]
  rw [← Real.exp_nat_mul]; ring_nf

/-- **log-evidence is the log of the mean weight** -/
theorem logZ_eq (ll lp lq : List ℝ) (h : logW ll lp lq ≠ []) :
    (computeWeights ll lp lq).logZ
      = Real.log (S1 (logW ll lp lq) / ((logW ll lp lq).length : ℝ)) := by
  have hn : (0 : ℝ) < ((logW ll lp lq).length : ℝ) := by
    exact_mod_cast List.length_pos_iff.mpr h
  simp only [computeWeights, log_real]
  rw [logsumexp_eq _ h, Real.log_div (S1_pos _ h).ne' hn.ne']
  rfl

/-- `essOf` (the helper `utils.effective_sample_size`) is `(Σw)²/Σw²` -/
theorem essOf_eq (lw : List ℝ) (h : lw ≠ []) : essOf lw = S1 lw ^ 2 / S2 lw := by
  have h2 : lw.map (fun v => v * two) ≠ [] := by simpa using h
  simp only [essOf, exp_real]
  rw [logsumexp_eq _ h, logsumexp_eq _ h2]
  have e2 : ((lw.map fun v => v * (two : ℝ)).map Real.exp).sum = S2 lw := by
    rw [S2_eq_S1_double]; simp [S1, two_real]
  rw [e2, two_real]
  have hs1 := S1_pos lw h
  have hs2 := S2_pos lw h
  show Real.exp (Real.log (S1 lw) * 2 - Real.log (S2 lw)) = _
  rw [Real.exp_sub, Real.exp_log hs2,
    show Real.log (S1 lw) * 2 = ((2 : ℕ) : ℝ) * Real.log (S1 lw) by push_cast; ring,
    Real.exp_nat_mul, Real.exp_log hs1]

theorem S1_shift (lw : List ℝ) (c : ℝ) : S1 (lw.map (· - c)) = Real.exp (-c) * S1 lw := by
  simp only [S1, List.map_map]
  exact sum_exp_shift lw c

theorem S2_shift (lw : List ℝ) (c : ℝ) : S2 (lw.map (· - c)) = Real.exp (-c) ^ 2 * S2 lw := by
  rw [S2_eq_S1_double, S2_eq_S1_double, List.map_map]
  have : lw.map ((· * 2) ∘ (· - c)) = (lw.map (· * 2)).map (· - 2 * c) := by
    rw [List.map_map]; apply List.map_congr_left; intro a _; simp [Function.comp]; ring
  rw [this, S1_shift]
  congr 1
  rw [← Real.exp_nat_mul]; ring_nf

/-- the scale-invariant ratio is unchanged by subtracting any constant from the log-weights -/
theorem ratio_shift (lw : List ℝ) (c : ℝ) :
    S1 (lw.map (· - c)) ^ 2 / S2 (lw.map (· - c)) = S1 lw ^ 2 / S2 lw := by
  rw [S1_shift, S2_shift, mul_pow]
  have : Real.exp (-c) ^ 2 ≠ 0 := by positivity
  field_simp

/-- **ESS as `compute_weights` computes it equals `(Σw)²/Σw²`** with `w = exp(log_w)` -/
theorem ess_eq (ll lp lq : List ℝ) (h : logW ll lp lq ≠ []) :
    (computeWeights ll lp lq).ess = S1 (logW ll lp lq) ^ 2 / S2 (logW ll lp lq) := by
  simp only [computeWeights, essShifted]
  rw [essOf_eq _ (by simpa using h)]
  exact ratio_shift _ _

/-- Cauchy–Schwarz for lists: `(Σ a)² ≤ n Σ a²` -/
theorem quad_nonneg (as : List ℝ) (t : ℝ) :
    0 ≤ (as.length : ℝ) * t ^ 2 - 2 * t * as.sum + (as.map (· ^ 2)).sum := by
  induction as with
  | nil => simp
  | cons a as ih =>
    simp only [List.sum_cons, List.length_cons, List.map_cons, Nat.cast_succ]
    nlinarith [sq_nonneg (t - a)]

theorem sum_sq_le (as : List ℝ) : as.sum ^ 2 ≤ (as.length : ℝ) * (as.map (· ^ 2)).sum := by
  rcases Nat.eq_zero_or_pos as.length with h0 | hpos
  · have : as = [] := List.length_eq_zero_iff.mp h0
    subst this; simp
  · have hn : (0 : ℝ) < (as.length : ℝ) := by exact_mod_cast hpos
    obtain ⟨t, ht⟩ : ∃ t, as.sum = t * (as.length : ℝ) := ⟨as.sum / as.length, by field_simp⟩
    have h := quad_nonneg as t
    rw [ht] at h ⊢
    nlinarith [mul_nonneg hn.le h]

theorem sum_sq_ge (as : List ℝ) (hpos : ∀ a ∈ as, 0 ≤ a) : (as.map (· ^ 2)).sum ≤ as.sum ^ 2 := by
  induction as with
  | nil => simp
  | cons a as ih =>
    simp only [List.sum_cons, List.map_cons]
    have ha : 0 ≤ a := hpos a List.mem_cons_self
    have hs : 0 ≤ as.sum := List.sum_nonneg (fun y hy => hpos y (List.mem_cons_of_mem _ hy))
    have := ih (fun y hy => hpos y (List.mem_cons_of_mem _ hy))
    nlinarith [mul_nonneg ha hs]

/-- **the effective sample size lies in [1, N]** -/
theorem ess_bounds (ll lp lq : List ℝ) (h : logW ll lp lq ≠ []) :
    1 ≤ (computeWeights ll lp lq).ess ∧
      (computeWeights ll lp lq).ess ≤ ((logW ll lp lq).length : ℝ) := by
  rw [ess_eq _ _ _ h]
  set lw := logW ll lp lq
  have hs2 := S2_pos lw h
  have e1 : S1 lw = (lw.map Real.exp).sum := rfl
  have e2 : S2 lw = ((lw.map Real.exp).map (· ^ 2)).sum := by simp [S2, List.map_map, Function.comp_def]
  constructor
  · rw [le_div_iff₀ hs2, one_mul, e1, e2]
    apply sum_sq_ge
    intro a ha; obtain ⟨b, _, rfl⟩ := List.mem_map.mp ha; exact (Real.exp_pos b).le
  · rw [div_le_iff₀ hs2, e1, e2]
    have := sum_sq_le (lw.map Real.exp)
    simpa using this

/-! ### permutation invariance -/

theorem S1_perm {a b : List ℝ} (h : a.Perm b) : S1 a = S1 b := (h.map _).sum_eq
theorem S2_perm {a b : List ℝ} (h : a.Perm b) : S2 a = S2 b := (h.map _).sum_eq

theorem logsumexp_perm {a b : List ℝ} (h : a.Perm b) : logsumexp a = logsumexp b := by
  by_cases ha : a = []
  · subst ha; rw [h.symm.eq_nil]
  · have hb : b ≠ [] := fun e => ha (by subst e; exact h.eq_nil)
    rw [logsumexp_eq _ ha, logsumexp_eq _ hb]; exact congrArg Real.log (S1_perm h)

/-- shifted-weight relative error in closed form: `sqrt((n·Σw²/(Σw)² − 1)/(n−1))` -/
theorem relErrShifted_perm {a b : List ℝ} (h : a.Perm b) : relErrShifted a = relErrShifted b := by
  simp only [relErrShifted, shiftedWeights, sumL_eq_sum, exp_real, sqrt_real]
  rw [maxList_perm h, h.length_eq]
  have p1 : (a.map fun v => Real.exp (v - maxList b)).Perm (b.map fun v => Real.exp (v - maxList b)) := h.map _
  rw [p1.sum_eq]
  have p2 := p1.map (fun v => (v - (b.map fun v => Real.exp (v - maxList b)).sum / (b.length : ℝ)) *
    (v - (b.map fun v => Real.exp (v - maxList b)).sum / (b.length : ℝ)))
  rw [p2.sum_eq]

/-- **permuting the samples leaves log-evidence, ESS and the relative error unchanged**
    (stated on the log-weight vector, which is permuted alike by `logW_get`) -/
theorem perm_invariant {a b : List ℝ} (h : a.Perm b) :
    logsumexp a - Real.log (a.length : ℝ) = logsumexp b - Real.log (b.length : ℝ)
    ∧ essShifted a = essShifted b ∧ relErrShifted a = relErrShifted b := by
  refine ⟨by rw [logsumexp_perm h, h.length_eq], ?_, relErrShifted_perm h⟩
  simp only [essShifted, essOf]
  rw [maxList_perm h]
  have p1 : (a.map fun v => v - maxList b).Perm (b.map fun v => v - maxList b) := h.map _
  rw [logsumexp_perm p1, logsumexp_perm (p1.map _)]

/-! ### shift by a constant -/

/-- **adding `c` to every log-likelihood adds `c` to every log-weight** -/
theorem logW_shift (ll lp lq : List ℝ) (c : ℝ) :
    logW (ll.map (· + c)) lp lq = (logW ll lp lq).map (· + c) := by
  induction ll generalizing lp lq with
  | nil => simp [logW]
  | cons a as ih =>
    cases lp with
    | nil => simp [logW]
    | cons b bs =>
      cases lq with
      | nil => simp [logW]
      | cons d ds => simp only [List.map_cons, logW, ih]; congr 1; ring

theorem sum_exp_add (xs : List ℝ) (c : ℝ) :
    (xs.map fun v => Real.exp (v + c)).sum = Real.exp c * (xs.map Real.exp).sum := by
  induction xs with
  | nil => simp
  | cons x xs ih =>
    simp only [List.map_cons, List.sum_cons, ih]; rw [Real.exp_add]; ring

theorem logsumexp_shift (lw : List ℝ) (c : ℝ) (h : lw ≠ []) :
    logsumexp (lw.map (· + c)) = logsumexp lw + c := by
  rw [logsumexp_eq _ (by simpa using h), logsumexp_eq _ h]
  have : ((lw.map (· + c)).map Real.exp).sum = Real.exp c * (lw.map Real.exp).sum := by
    rw [List.map_map]; exact sum_exp_add lw c
  rw [this, Real.log_mul (Real.exp_pos _).ne' (sum_exp_pos _ h).ne', Real.log_exp]; ring

theorem shifted_map_add (lw : List ℝ) (c : ℝ) (h : lw ≠ []) :
    (lw.map (· + c)).map (fun v => v - maxList (lw.map (· + c))) = lw.map (fun v => v - maxList lw) := by
  rw [maxList_map_add lw c h, List.map_map]
  apply List.map_congr_left; intro a _; simp [Function.comp]

/-- **the log-evidence shifts by `c`, ESS and relative error are unchanged** -/
theorem shift (ll lp lq : List ℝ) (c : ℝ) (h : logW ll lp lq ≠ []) :
    (computeWeights (ll.map (· + c)) lp lq).logZ = (computeWeights ll lp lq).logZ + c
    ∧ (computeWeights (ll.map (· + c)) lp lq).ess = (computeWeights ll lp lq).ess
    ∧ (computeWeights (ll.map (· + c)) lp lq).logEvidenceError
        = (computeWeights ll lp lq).logEvidenceError := by
  simp only [computeWeights, logW_shift, List.length_map]
  refine ⟨by rw [logsumexp_shift _ _ h]; ring, ?_, ?_⟩
  · simp only [essShifted]; rw [shifted_map_add _ _ h]
  · congr 1
    simp only [relErrShifted, shiftedWeights, List.length_map]
    have : (lw : List ℝ) → (m : ℝ) → lw.map (fun v => (ExpLog.exp (v - m) : ℝ))
        = (lw.map (fun v => v - m)).map (fun v => (ExpLog.exp v : ℝ)) := by
      intro lw m; rw [List.map_map]; rfl
    rw [this, this (logW ll lp lq), shifted_map_add _ _ h]

/-! ### the stabilised relative error is the textbook one -/

/-- **relative error**: the max-shifted computation equals
    `sqrt(Σ (w_i − Z)² / (n (n−1))) / Z` with `w = exp(log_w)`, `Z = mean w` -/
theorem relErr_eq (lw : List ℝ) (h : lw ≠ []) :
    relErrShifted lw =
      Real.sqrt ((lw.map fun v => (Real.exp v - S1 lw / lw.length) ^ 2).sum
        / ((lw.length : ℝ) * ((lw.length : ℝ) - 1))) / (S1 lw / lw.length) := by
  have hn : (0 : ℝ) < (lw.length : ℝ) := by exact_mod_cast List.length_pos_iff.mpr h
  set m := maxList lw with hm
  set E := Real.exp (-m) with hE
  have hEpos : 0 < E := Real.exp_pos _
  simp only [relErrShifted, shiftedWeights, sumL_eq_sum, exp_real, sqrt_real]
  have s1 : (lw.map fun v => Real.exp (v - m)).sum = E * S1 lw := sum_exp_shift lw m
  rw [← hm, s1]
  have s2 : ((lw.map fun v => Real.exp (v - m)).map fun v =>
        (v - E * S1 lw / (lw.length : ℝ)) * (v - E * S1 lw / (lw.length : ℝ))).sum
      = E ^ 2 * (lw.map fun v => (Real.exp v - S1 lw / lw.length) ^ 2).sum := by
    rw [List.map_map, ← List.sum_map_mul_left]
    congr 1; apply List.map_congr_left; intro a _
    simp only [Function.comp]
    rw [sub_eq_add_neg a m, Real.exp_add, ← hE]; ring
  rw [s2]
  have hq : 0 ≤ (lw.map fun v => (Real.exp v - S1 lw / lw.length) ^ 2).sum :=
    List.sum_nonneg (by intro y hy; obtain ⟨a, _, rfl⟩ := List.mem_map.mp hy; positivity)
  rw [mul_div_assoc (E ^ 2), Real.sqrt_mul (by positivity), Real.sqrt_sq hEpos.le,
    mul_div_assoc E (S1 lw), mul_div_mul_left _ _ hEpos.ne']

/-! ### rejection sampling -/

/-- **a row is kept exactly when `log u_i < log_w_i − max log_w`**, i.e. (for `u_i > 0`)
    when `u_i < w_i / max w` -/
theorem rejection_iff (lw logU : List ℝ) (i : Nat) (h1 : i < lw.length) (h2 : i < logU.length)
    (hi : i < (rejectionKeep lw logU).length) :
    (rejectionKeep lw logU)[i] = true ↔ logU[i] < lw[i] - maxList lw := by
  simp [rejectionKeep, List.getElem_zipWith]

theorem rejection_iff_ratio (lwi m u : ℝ) (hu : 0 < u) :
    Real.log u < lwi - m ↔ u < Real.exp lwi / Real.exp m := by
  rw [← Real.exp_sub]
  exact Real.log_lt_iff_lt_exp hu

/-! ### range safety: no argument of `exp` is positive, every argument of `log` is in [1, N]
    (so neither overflow nor total underflow can occur in any IEEE format) -/

theorem lse_exp_args_nonpos (xs : List ℝ) : ∀ a ∈ logsumexpExpArgs xs, a ≤ 0 := by
  intro a ha
  obtain ⟨v, hv, rfl⟩ := List.mem_map.mp ha
  linarith [maxList_ge xs v hv]

theorem lse_has_zero_arg (xs : List ℝ) (h : xs ≠ []) : (0 : ℝ) ∈ logsumexpExpArgs xs :=
  List.mem_map.mpr ⟨maxList xs, maxList_mem xs h, sub_self _⟩

theorem lse_log_arg_in_1_N (xs : List ℝ) (h : xs ≠ []) :
    1 ≤ logsumexpLogArg xs ∧ logsumexpLogArg xs ≤ (xs.length : ℝ) := by
  simp only [logsumexpLogArg, sumL_eq_sum, exp_real]
  constructor
  · have hmem : Real.exp (maxList xs - maxList xs) ∈ xs.map (fun v => Real.exp (v - maxList xs)) :=
      List.mem_map.mpr ⟨_, maxList_mem xs h, rfl⟩
    have := List.single_le_sum (l := xs.map (fun v => Real.exp (v - maxList xs)))
      (by intro y hy; obtain ⟨a, _, rfl⟩ := List.mem_map.mp hy; exact (Real.exp_pos _).le) _ hmem
    simpa using this
  · have : ∀ y ∈ xs.map (fun v => Real.exp (v - maxList xs)), y ≤ 1 := by
      intro y hy; obtain ⟨a, ha, rfl⟩ := List.mem_map.mp hy
      exact Real.exp_le_one_iff.mpr (by linarith [maxList_ge xs a ha])
    have := List.sum_le_card_nsmul _ 1 this
    simpa using this

/-- the relative error and the ESS only ever exponentiate the same non-positive arguments -/
theorem shifted_weights_in_unit (lw : List ℝ) :
    ∀ u ∈ shiftedWeights lw, 0 < u ∧ u ≤ 1 := by
  intro u hu
  obtain ⟨v, hv, rfl⟩ := List.mem_map.mp hu
  exact ⟨Real.exp_pos _, Real.exp_le_one_iff.mpr (by linarith [maxList_ge lw v hv])⟩

/-- the outer `exp` of the ESS receives `log ESS ∈ [0, log N]` -/
theorem ess_outer_arg_range (ll lp lq : List ℝ) (h : logW ll lp lq ≠ []) :
    0 ≤ Real.log (computeWeights ll lp lq).ess ∧
      Real.log (computeWeights ll lp lq).ess ≤ Real.log ((logW ll lp lq).length : ℝ) := by
  obtain ⟨h1, h2⟩ := ess_bounds ll lp lq h
  exact ⟨Real.log_nonneg h1, Real.log_le_log (by linarith) h2⟩

/-- the pre-fix computation (`weights = exp(log_w)` unshifted) is *not* range safe:
    its `exp` arguments are the raw log-weights, which may exceed any bound -/
theorem unshifted_unsafe_witness (B : ℝ) : ∃ lw : List ℝ, lw ≠ [] ∧ ∃ a ∈ lw, B < a :=
  ⟨[B + 1, B + 1], by simp, B + 1, by simp, by linarith⟩

/-! ### non-vacuity: a concrete non-trivial population meets every hypothesis -/
example : logW [1, 2] [0, 0] [(1:ℝ)/2, 1/2] ≠ [] := by simp [logW]
example : (logW [1, 2] [0, 0] [(1:ℝ)/2, 1/2]) = [1 + 0 - 1/2, 2 + 0 - 1/2] := by simp [logW]

end C02
